#!/bin/sh
# Offline setup: pre-build every property's test binary against the current /repo tree (warms the Go build cache).
cd "$(dirname "$0")" || exit 1
unset GOSUMDB GOTOOLCHAIN
export GOFLAGS=-mod=mod GOPROXY=off
mkdir -p .build evidence replays/found
cd harness || exit 1
if ! go version >/dev/null 2>&1; then export GOTOOLCHAIN=local; alias go=go1.26.8; fi
go build ./... || exit 1
go vet -tags verif ./vt >/dev/null 2>&1
exit 0
