#!/usr/bin/env python3
"""tools/designtables.py: regenerate the generated tables of DESIGN.md (between <!-- X:BEGIN --> / <!-- X:END --> markers):
REPAIRS (fixed entries of known_findings.json and known.d/*.json) and SEEDED (tools/seeded.py table)."""
import glob, io, json, os, re, subprocess, sys
ROOT = os.path.dirname(os.path.dirname(os.path.abspath(__file__)))

def fixed():
    out = []
    for p in [os.path.join(ROOT, "known_findings.json")] + sorted(glob.glob(os.path.join(ROOT, "known.d", "*.json"))):
        k = json.load(open(p))
        for f in (k["findings"] if isinstance(k, dict) else k):
            if f.get("status") == "fixed":
                out.append(f)
    return out

def repairs():
    fs = fixed()
    seen, rows = set(), []
    for f in fs:
        c = f.get("commit", "?")
        if c in seen:
            continue
        seen.add(c)
        what = re.sub(r"^fixed: property=\S+ \S+ ", "", f.get("what", ""))
        rows.append("| %s | %s | %s |" % (c, f.get("property"), what.replace("|", "/")[:420]))
    head = "`fix:` commits (%d), all recorded as `fixed:` entries in `known_findings.json`:\n\n| commit | property | what failed |\n|---|---|---|\n" % len(rows)
    return head + "\n".join(rows) + "\n"

def seeded():
    r = subprocess.run([sys.executable, os.path.join(ROOT, "tools", "seeded.py"), "table"], capture_output=True, text=True)
    return r.stdout

def main():
    p = os.path.join(ROOT, "DESIGN.md")
    s = open(p).read()
    for name, fn in (("REPAIRS", repairs), ("SEEDED", seeded)):
        b, e = "<!-- %s:BEGIN -->" % name, "<!-- %s:END -->" % name
        if b in s and e in s:
            s = s[:s.index(b) + len(b)] + "\n" + fn() + s[s.index(e):]
    open(p, "w").write(s)

if __name__ == "__main__":
    main()
