#!/usr/bin/env python3
"""tools/seeded.py [import <out-dir> <prop> [<number offset>]] | [run [<id> ...]] | [table]

Bookkeeping for seeded changes (breaking edits of scigolib/hdf5 written by independent sub-agents).

  import <out-dir> <prop>   copy patch_k.diff / demo_k_test.go / meta_k.json from a sub-agent's output directory into
                            /verif/seeded/<prop>-<k>/ (patch.diff, demo_test.go, meta.json)
  run [ids]                 for every seeded change: scratch worktree of /repo HEAD, confirm the demo passes on the clean
                            tree, apply the patch, confirm it builds, the repository's suite still passes and the demo
                            fails, then run `./check <prop> quick` (and the checks named in meta "also") against the
                            worktree (VERIF_REPO) and record who catches it in seeded/<id>/result.json
  table                     print the markdown table for DESIGN.md section 12
The worktree lives under /tmp and is removed afterwards; /repo itself is never touched.
"""
import json, os, re, shutil, subprocess, sys, time

ROOT = os.path.dirname(os.path.dirname(os.path.abspath(__file__)))
SEEDED = os.path.join(ROOT, "seeded")
ENV = dict(os.environ, GOFLAGS="-mod=mod", GOPROXY="off")
ENV.pop("GOSUMDB", None)
FLAKY = ("TestMetricsCollector_Performance", "TestMetricsCollector_Uptime", "TestSmartRebalancer_PeriodicReevaluation")


def sh(cmd, cwd=None, env=None, timeout=1800):
    r = subprocess.run(cmd, cwd=cwd, env=env or ENV, capture_output=True, text=True, timeout=timeout)
    return r.returncode, r.stdout + r.stderr


def do_import(out, prop, offset=0):
    n = 0
    for fn in sorted(os.listdir(out)):
        m = re.match(r"patch_(\d+)\.diff$", fn)
        if not m:
            continue
        k = m.group(1)
        d = os.path.join(SEEDED, "%s-%d" % (prop, int(k) + offset))
        os.makedirs(d, exist_ok=True)
        shutil.copyfile(os.path.join(out, fn), os.path.join(d, "patch.diff"))
        meta = {}
        mp = os.path.join(out, "meta_%s.json" % k)
        if os.path.exists(mp):
            try:
                meta = json.load(open(mp))
            except Exception as e:
                meta = {"note": "meta not parseable: %s" % e}
        demo = meta.get("demo") or "demo_%s_test.go" % k
        dp = os.path.join(out, os.path.basename(demo))
        if os.path.exists(dp):
            shutil.copyfile(dp, os.path.join(d, "demo_test.go"))
        meta["property"] = prop
        json.dump(meta, open(os.path.join(d, "meta.json"), "w"), indent=1)
        n += 1
    print("imported", n, "changes for", prop)


def suite_ok(out):
    """the repository suite passed, ignoring the two wall-clock assertions that fail on a loaded machine"""
    fails = re.findall(r"^--- FAIL: (\S+)", out, re.M)
    real = [f for f in fails if not f.startswith(FLAKY)]
    build_fail = "[build failed]" in out or "cannot" in out and "FAIL" in out and not fails
    return not real and not build_fail, real


def run_one(sid):
    d = os.path.join(SEEDED, sid)
    meta = json.load(open(os.path.join(d, "meta.json")))
    prop = meta["property"]
    wt = "/tmp/seedwt-%s-%d" % (sid, os.getpid())
    res = {"id": sid, "property": prop, "time": time.strftime("%Y-%m-%d %H:%M:%S")}
    sh(["git", "-C", "/repo", "worktree", "add", "-q", wt, "HEAD"])
    try:
        demo_dir = (meta.get("demo_dir") or ".").split()[0]
        for base in ("/tmp/mut2/", "/tmp/mut/"):
            demo_dir = demo_dir.replace("%s%s/" % (base, prop), "").replace("%s%s" % (base, prop), ".")
        if os.path.isabs(demo_dir):
            demo_dir = "."
        target_dir = os.path.join(wt, demo_dir)
        demo_src = os.path.join(d, "demo_test.go")
        demo_dst = os.path.join(target_dir, "zz_seeded_demo_test.go")
        have_demo = os.path.exists(demo_src) and os.path.isdir(target_dir)
        run_re = None
        if have_demo:
            shutil.copyfile(demo_src, demo_dst)
            names = re.findall(r"^func (Test\w+)\(", open(demo_src).read(), re.M)
            run_re = "^(" + "|".join(names) + ")$" if names else "."
            extra = []
            if "-race" in str(meta.get("demo_cmd", "")):
                extra.append("-race")
            if "verif" in str(meta.get("demo_cmd", "")) and "-tags" in str(meta.get("demo_cmd", "")):
                extra += ["-tags", "verif"]
            rc, out = sh(["go", "test", "-vet=off", "-count=1"] + extra + ["-run", run_re, "."], cwd=target_dir)
            res["demo_clean_passes"] = rc == 0
            if rc != 0:
                res["demo_clean_output"] = out[-1500:]
        rc, out = sh(["git", "apply", os.path.join(d, "patch.diff")], cwd=wt)
        res["applies"] = rc == 0
        if rc != 0:
            res["apply_output"] = out[-800:]
            return res
        rc, out = sh(["go", "build", "./..."], cwd=wt)
        res["builds"] = rc == 0
        if rc != 0:
            return res
        if have_demo:
            rc, out = sh(["go", "test", "-vet=off", "-count=1"] + extra + ["-run", run_re, "."], cwd=target_dir)
            res["demo_fails_with_patch"] = rc != 0
            os.remove(demo_dst)
        rc, out = sh(["go", "test", "-vet=off", "-count=1", "./..."], cwd=wt)
        ok, real = suite_ok(out)
        res["suite_passes"] = ok
        if not ok:
            res["suite_failures"] = real[:10]
        caught = {}
        for p in [prop] + list(meta.get("also", [])):
            e = dict(ENV, VERIF_REPO=wt)
            rc, out = sh([os.path.join(ROOT, "check"), p, "quick"], cwd=ROOT, env=e, timeout=3600)
            line = [l for l in out.splitlines() if "detail[" in l or "detail:" in l]
            caught[p] = {"exit": rc, "detail": (line[0].strip()[:400] if line else "")}
        res["checks"] = caught
        res["caught_by"] = sorted(p for p, v in caught.items() if v["exit"] == 1)
        return res
    finally:
        sh(["git", "-C", "/repo", "worktree", "remove", "--force", wt])
        json.dump(res, open(os.path.join(d, "result.json"), "w"), indent=1)


def table():
    print("| seeded change | breaks | what it needs to manifest | demo confirmed | suite passes | caught by (quick tier) |")
    print("|---|---|---|---|---|---|")
    for sid in sorted(os.listdir(SEEDED)):
        d = os.path.join(SEEDED, sid)
        if not os.path.exists(os.path.join(d, "meta.json")):
            continue
        m = json.load(open(os.path.join(d, "meta.json")))
        r = json.load(open(os.path.join(d, "result.json"))) if os.path.exists(os.path.join(d, "result.json")) else {}
        demo = "yes" if r.get("demo_clean_passes") and r.get("demo_fails_with_patch") else ("no" if r else "?")
        if r.get("obsolete") or r.get("unreachable"):
            r = dict(r, caught_by=r.get("caught_by"))
        print("| %s: %s | %s | %s | %s | %s | %s |" % (sid, str(m.get("summary", ""))[:160].replace("|", "/"), m["property"],
              str(m.get("needs", ""))[:140].replace("|", "/"), demo, {True: "yes", False: "NO"}.get(r.get("suite_passes"), "?"),
              ", ".join(r.get("caught_by", [])) or ("MISSED" if r.get("checks") else "?")))


if __name__ == "__main__":
    a = sys.argv[1:]
    if a and a[0] == "import":
        do_import(a[1], a[2], int(a[3]) if len(a) > 3 else 0)
    elif a and a[0] == "run":
        ids = a[1:] or sorted(x for x in os.listdir(SEEDED) if os.path.exists(os.path.join(SEEDED, x, "meta.json")))
        for sid in ids:
            r = run_one(sid)
            print(sid, "caught_by=%s" % r.get("caught_by"), "demo_ok=%s/%s" % (r.get("demo_clean_passes"), r.get("demo_fails_with_patch")),
                  "suite=%s" % r.get("suite_passes"), flush=True)
    elif a and a[0] == "table":
        table()
    else:
        print(__doc__)
