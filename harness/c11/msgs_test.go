package c11

import (
	"bytes"
	"encoding/binary"
	"fmt"

	"github.com/scigolib/hdf5/internal/core"
	"github.com/scigolib/hdf5/internal/structures"
	"github.com/scigolib/hdf5/internal/writer"
	"github.com/scigolib/hdf5/verif/vt"
	"pgregory.net/rapid"
)

// =================================================================================================
// EncodeDataspaceMessage <-> ParseDataspaceMessage
// Domain (documented): dims non-empty ("use [1] for scalar" - rank 0 is outside the encoder's domain); maxDims
// absent or of the same length; dimension values are arbitrary uint64 (Unlimited = all ones in maxDims).

type DSCase struct {
	Dims    []uint64 `json:"dims"`
	MaxDims []uint64 `json:"maxdims,omitempty"`
}

func genDim(t *rapid.T, label string) uint64 {
	return rapid.OneOf(rapid.Uint64Range(0, 20), rapid.Uint64Range(0, 1<<20), rapid.Uint64(),
		rapid.SampledFrom([]uint64{0, 1, 1<<32 - 1, 1 << 32, 1<<32 + 1, 1<<63 - 1, 1 << 63, undef - 1})).Draw(t, label)
}

func genDims(t *rapid.T) (dims, maxDims []uint64) {
	rank := rapid.OneOf(rapid.IntRange(1, 4), rapid.IntRange(1, 32), rapid.SampledFrom([]int{1, 2, 31, 32, 33})).Draw(t, "rank")
	for i := 0; i < rank; i++ {
		dims = append(dims, genDim(t, "dim"))
	}
	if rapid.Bool().Draw(t, "hasMax") {
		for i := 0; i < rank; i++ {
			switch rapid.IntRange(0, 3).Draw(t, "maxKind") {
			case 0:
				maxDims = append(maxDims, undef) // Unlimited
			case 1:
				maxDims = append(maxDims, dims[i])
			default:
				maxDims = append(maxDims, genDim(t, "maxdim"))
			}
		}
	}
	return
}

func genDS(t *rapid.T) DSCase {
	d, m := genDims(t)
	return DSCase{Dims: d, MaxDims: m}
}

func classifyDS(c DSCase) (bool, []string) {
	labels := []string{rankBucket(len(c.Dims))}
	if len(c.MaxDims) > 0 {
		labels = append(labels, "maxdims=present")
		for _, m := range c.MaxDims {
			if m == undef {
				labels = append(labels, "unlimited")
				break
			}
		}
	} else {
		labels = append(labels, "maxdims=absent")
	}
	n := 0
	for _, d := range c.Dims {
		if d != 0 {
			n++
		}
	}
	return n >= 2 || n >= 1 && len(c.MaxDims) > 0, labels
}

func checkDataspace(r *result, what string, dims, maxDims []uint64, got *core.DataspaceMessage) {
	if got.Version != 1 || got.Type != core.DataspaceSimple {
		r.fail("%s: parsed version %d type %d, documented version 1 simple", what, got.Version, got.Type)
	}
	if !eqU64s(got.Dimensions, dims) {
		r.fail("%s: dims encoded %v parsed %v", what, dims, got.Dimensions)
	}
	if !eqU64s(got.MaxDims, maxDims) {
		r.fail("%s: max dims encoded %v parsed %v", what, maxDims, got.MaxDims)
	}
}

func runDS(c DSCase) vt.Verdict {
	if len(c.Dims) == 0 || len(c.Dims) > 255 || len(c.MaxDims) != 0 && len(c.MaxDims) != len(c.Dims) {
		return vt.Skipped("outside the encoder's documented domain")
	}
	var r result
	enc, err := core.EncodeDataspaceMessage(c.Dims, c.MaxDims)
	if err != nil {
		return vt.Bad("EncodeDataspaceMessage refused rank %d (maxdims %d): %v", len(c.Dims), len(c.MaxDims), err)
	}
	enc2, _ := core.EncodeDataspaceMessage(c.Dims, c.MaxDims)
	if !bytes.Equal(enc, enc2) {
		return vt.Bad("dataspace encoding is not deterministic")
	}
	wantLen := 8 + 8*len(c.Dims)
	if len(c.MaxDims) > 0 {
		wantLen += 8 * len(c.Dims)
	}
	if len(enc) != wantLen {
		r.fail("dataspace of rank %d encoded as %d bytes, documented %d", len(c.Dims), len(enc), wantLen)
	}
	got, err := core.ParseDataspaceMessage(enc)
	if err != nil {
		return vt.Bad("ParseDataspaceMessage(rank %d, maxdims %v): %v", len(c.Dims), len(c.MaxDims) > 0, err)
	}
	checkDataspace(&r, "dataspace", c.Dims, c.MaxDims, got)
	if re, err := core.EncodeDataspaceMessage(got.Dimensions, got.MaxDims); err != nil {
		r.fail("re-encoding the decoded dataspace failed: %v", err)
	} else if d := sameBytes("re-encoding the decoded dataspace changes the bytes", re, enc); d != "" {
		r.fail("%s", d)
	}
	return r.verdict()
}

// =================================================================================================
// EncodeLayoutMessage <-> ParseDataLayoutMessage
// Domain (documented): contiguous (address: offsetSize bytes, size: lengthSize bytes) and chunked (1..255
// chunk dims each 1..2^32-1, B-tree address); compact is documented as unsupported for writing.

type LayoutCase struct {
	SB    SB       `json:"sb"`
	Class string   `json:"class"` // contiguous | chunked
	Addr  uint64   `json:"addr"`
	Size  uint64   `json:"size"`
	Chunk []uint64 `json:"chunk,omitempty"`
}

func genLayout(t *rapid.T) LayoutCase {
	c := LayoutCase{SB: genSB(t), Class: rapid.SampledFrom([]string{"contiguous", "chunked"}).Draw(t, "class")}
	c.Addr = genAddr(t, "addr", c.SB.Off)
	if c.Class == "contiguous" {
		c.Size = genAddr(t, "size", c.SB.Len)
	} else {
		c.Size = genAddr(t, "unusedSize", 8)
		n := rapid.OneOf(rapid.IntRange(1, 5), rapid.IntRange(1, 33), rapid.SampledFrom([]int{1, 2, 32, 33, 255})).Draw(t, "rank")
		for i := 0; i < n; i++ {
			c.Chunk = append(c.Chunk, rapid.OneOf(rapid.Uint64Range(1, 64), rapid.Uint64Range(1, 1<<32-1), rapid.SampledFrom([]uint64{1, 255, 256, 65536, 1<<32 - 1})).Draw(t, "chunkdim"))
		}
	}
	return c
}

func classifyLayout(c LayoutCase) (bool, []string) {
	labels := []string{"class=" + c.Class, fmt.Sprintf("offsize=%d", c.SB.Off), fmt.Sprintf("lensize=%d", c.SB.Len)}
	if c.Class == "chunked" {
		labels = append(labels, rankBucket(len(c.Chunk)))
		return c.Addr != 0 || len(c.Chunk) >= 2, labels
	}
	return c.Addr != 0 && c.Size != 0, labels
}

func validSize(s uint8) bool { return s == 1 || s == 2 || s == 4 || s == 8 }

func runLayout(c LayoutCase) vt.Verdict {
	if !validSize(c.SB.Off) || !validSize(c.SB.Len) || c.Addr != fit(c.Addr, c.SB.Off) {
		return vt.Skipped("outside the generated domain")
	}
	var r result
	sb := c.SB.sb()
	var cls core.DataLayoutClass
	switch c.Class {
	case "contiguous":
		cls = core.LayoutContiguous
		if c.Size != fit(c.Size, c.SB.Len) {
			return vt.Skipped("size does not fit the length size")
		}
	case "chunked":
		cls = core.LayoutChunked
		if len(c.Chunk) == 0 || len(c.Chunk) > 255 {
			return vt.Skipped("chunk rank outside the documented domain")
		}
		for _, d := range c.Chunk {
			if d > 0xFFFFFFFF || d == 0 {
				return vt.Skipped("chunk dimension outside the documented domain") // a chunk dimension of 0 is not a well-formed layout
			}
		}
	default:
		return vt.Skipped("layout class outside the writer's domain")
	}
	enc, err := core.EncodeLayoutMessage(cls, c.Size, c.Addr, sb, c.Chunk)
	if err != nil {
		return vt.Bad("EncodeLayoutMessage(%s) refused a well-formed value: %v", c.Class, err)
	}
	enc2, _ := core.EncodeLayoutMessage(cls, c.Size, c.Addr, sb, c.Chunk)
	if !bytes.Equal(enc, enc2) {
		return vt.Bad("layout encoding is not deterministic")
	}
	got, err := core.ParseDataLayoutMessage(enc, sb)
	if err != nil {
		return vt.Bad("ParseDataLayoutMessage(%s, offset size %d): %v", c.Class, c.SB.Off, err)
	}
	if got.Version != 3 || got.Class != cls || got.DataAddress != c.Addr {
		r.fail("layout %s: parsed version %d class %d address %#x, encoded version 3 class %d address %#x", c.Class, got.Version, got.Class, got.DataAddress, cls, c.Addr)
	}
	var re []byte
	if cls == core.LayoutContiguous {
		if got.DataSize != c.Size {
			r.fail("contiguous layout: size encoded %#x parsed %#x (length size %d)", c.Size, got.DataSize, c.SB.Len)
		}
		re, err = core.EncodeLayoutMessage(got.Class, got.DataSize, got.DataAddress, sb, nil)
	} else {
		if !eqU64s(got.ChunkSize, c.Chunk) {
			r.fail("chunked layout: chunk dims encoded %v parsed %v", c.Chunk, got.ChunkSize)
		}
		re, err = core.EncodeLayoutMessage(got.Class, got.DataSize, got.DataAddress, sb, got.ChunkSize)
	}
	if err != nil {
		r.fail("re-encoding the decoded layout failed: %v", err)
	} else if d := sameBytes("re-encoding the decoded layout changes the bytes", re, enc); d != "" {
		r.fail("%s", d)
	}
	return r.verdict()
}

// =================================================================================================
// writer.FilterPipeline.EncodePipelineMessage <-> core.ParseFilterPipelineMessage
// Consumed per filter: ID(), Name(), Encode() = (flags, cd_values). Documented layout of the encoder: 8-byte
// header (version, count, 6 reserved), per filter id(2) name length(2) flags(2) #cd(2), name padded to 8, cd values.

type PF struct {
	Builtin string   `json:"builtin,omitempty"` // deflate shuffle fletcher lzf bzip2: the library's own filter objects
	P       int      `json:"p,omitempty"`
	ID      uint16   `json:"id,omitempty"` // synthetic filter description otherwise
	Name    Blob     `json:"name"`
	Flags   uint16   `json:"flags,omitempty"`
	CD      []uint32 `json:"cd,omitempty"`
}

type PipeCase struct {
	Filters []PF `json:"filters"`
}

type synthFilter struct{ f PF }

func (s synthFilter) ID() writer.FilterID             { return writer.FilterID(s.f.ID) }
func (s synthFilter) Name() string                    { return s.f.Name.String() }
func (s synthFilter) Apply(d []byte) ([]byte, error)  { return d, nil }
func (s synthFilter) Remove(d []byte) ([]byte, error) { return d, nil }
func (s synthFilter) Encode() (uint16, []uint32)      { return s.f.Flags, s.f.CD }

func (f PF) filter() writer.Filter {
	switch f.Builtin {
	case "deflate":
		return writer.NewGZIPFilter(f.P)
	case "shuffle":
		return writer.NewShuffleFilter(uint32(f.P))
	case "fletcher":
		return writer.NewFletcher32Filter()
	case "lzf":
		return writer.NewLZFFilter()
	case "bzip2":
		return writer.NewBZIP2Filter(f.P)
	case "":
		return synthFilter{f}
	}
	return nil
}

func genPipe(t *rapid.T) PipeCase {
	n := rapid.IntRange(1, 6).Draw(t, "nfilters")
	var c PipeCase
	for i := 0; i < n; i++ {
		var f PF
		if rapid.Bool().Draw(t, "builtin") {
			f.Builtin = rapid.SampledFrom([]string{"deflate", "shuffle", "fletcher", "lzf", "bzip2"}).Draw(t, "kind")
			switch f.Builtin {
			case "deflate", "bzip2":
				f.P = rapid.IntRange(1, 9).Draw(t, "level")
			case "shuffle":
				f.P = rapid.SampledFrom([]int{1, 2, 4, 8, 16}).Draw(t, "elem")
			}
		} else {
			f.ID = rapid.OneOf(rapid.SampledFrom([]uint16{1, 2, 3, 4, 5, 6, 307, 32000, 32001, 65535}), rapid.Uint16Range(1, 65535)).Draw(t, "id")
			f.Name = genBlob(t, "fname", rapid.OneOf(rapid.IntRange(0, 20), rapid.SampledFrom([]int{0, 1, 7, 8, 9, 16, 40})))
			f.Flags = rapid.SampledFrom([]uint16{0, 1}).Draw(t, "flags") // bit 0 = optional
			f.CD = rapid.SliceOfN(rapid.OneOf(rapid.Uint32(), rapid.Uint32Range(0, 16)), 0, 8).Draw(t, "cd")
		}
		c.Filters = append(c.Filters, f)
	}
	return c
}

func classifyPipe(c PipeCase) (bool, []string) {
	labels := []string{fmt.Sprintf("nfilters=%d", len(c.Filters))}
	oddCD := false
	for _, f := range c.Filters {
		if f.Builtin != "" {
			labels = append(labels, "builtin_"+f.Builtin)
		} else {
			labels = append(labels, "synthetic")
			if len(f.CD)%2 == 1 {
				oddCD = true
			}
		}
	}
	if oddCD {
		labels = append(labels, "odd_cd_count")
	}
	return len(c.Filters) >= 2 || len(c.Filters) == 1 && c.Filters[0].Builtin == "" && len(c.Filters[0].CD) > 0, labels
}

type wantFilter struct {
	id    uint16
	name  string
	flags uint16
	cd    []uint32
}

// decodeDocumentedPipeline reads the bytes exactly as EncodePipelineMessage documents its own layout.
func decodeDocumentedPipeline(b []byte) (version byte, out []wantFilter, err error) {
	if len(b) < 8 {
		return 0, nil, fmt.Errorf("shorter than the 8-byte header")
	}
	version = b[0]
	off := 8
	for i := 0; i < int(b[1]); i++ {
		if off+8 > len(b) {
			return version, nil, fmt.Errorf("filter %d header truncated", i)
		}
		f := wantFilter{id: binary.LittleEndian.Uint16(b[off:]), flags: binary.LittleEndian.Uint16(b[off+4:])}
		nl, ncd := int(binary.LittleEndian.Uint16(b[off+2:])), int(binary.LittleEndian.Uint16(b[off+6:]))
		off += 8
		if off+pad8(nl)+4*ncd > len(b) {
			return version, nil, fmt.Errorf("filter %d body truncated", i)
		}
		f.name = string(b[off : off+nl])
		off += pad8(nl)
		for j := 0; j < ncd; j++ {
			f.cd = append(f.cd, binary.LittleEndian.Uint32(b[off:]))
			off += 4
		}
		out = append(out, f)
	}
	if off != len(b) {
		return version, nil, fmt.Errorf("%d trailing bytes", len(b)-off)
	}
	return version, out, nil
}

func eqU32s(a, b []uint32) bool {
	if len(a) != len(b) {
		return false
	}
	for i := range a {
		if a[i] != b[i] {
			return false
		}
	}
	return true
}

func runPipe(c PipeCase) vt.Verdict {
	if len(c.Filters) == 0 || len(c.Filters) > 32 {
		return vt.Skipped("empty pipeline is outside the encoder's domain")
	}
	var r result
	mk := func() *writer.FilterPipeline {
		p := writer.NewFilterPipeline()
		for _, f := range c.Filters {
			w := f.filter()
			if w == nil {
				return nil
			}
			p.AddFilter(w)
		}
		return p
	}
	p := mk()
	if p == nil {
		return vt.Skipped("unknown builtin filter")
	}
	var want []wantFilter
	for _, f := range c.Filters {
		w := f.filter()
		fl, cd := w.Encode()
		want = append(want, wantFilter{uint16(w.ID()), w.Name(), fl, cd})
	}
	enc, err := p.EncodePipelineMessage()
	if err != nil {
		return vt.Bad("EncodePipelineMessage refused %d filters: %v", len(c.Filters), err)
	}
	enc2, _ := mk().EncodePipelineMessage()
	if !bytes.Equal(enc, enc2) {
		return vt.Bad("pipeline message encoding is not deterministic")
	}
	// the library's decoder
	pm, perr := core.ParseFilterPipelineMessage(enc)
	same := perr == nil && len(pm.Filters) == len(want) && int(pm.NumFilters) == len(want)
	if same {
		for i, w := range want {
			g := pm.Filters[i]
			if uint16(g.ID) != w.id || g.Flags != w.flags || !eqU32s(g.ClientData, w.cd) && !(len(g.ClientData) == 0 && len(w.cd) == 0) {
				same = false
			}
		}
	}
	if !same {
		// Known: version byte 2 over a version-1 style layout. The finding is accepted only in exactly that form: the
		// bytes decode, by the layout the encoder documents, to the filters that were encoded, and the version byte is 2.
		ver, doc, derr := decodeDocumentedPipeline(enc)
		ok := derr == nil && ver == 2 && len(doc) == len(want)
		if ok {
			for i, w := range want {
				if doc[i].id != w.id || doc[i].name != w.name || doc[i].flags != w.flags || !eqU32s(doc[i].cd, w.cd) {
					ok = false
				}
			}
		}
		if !ok {
			r.fail("pipeline message of %d filters does not even decode by the encoder's documented layout (err=%v, version byte %d): library parser err=%v", len(want), derr, ver, perr)
		} else {
			got := "error: " + fmt.Sprint(perr)
			if perr == nil {
				ids := []uint16{}
				for _, g := range pm.Filters {
					ids = append(ids, uint16(g.ID))
				}
				got = fmt.Sprintf("filter ids %v", ids)
			}
			r.knownOr(kfPipeline, "pipeline message written for %d filters (first id %d) parses back as %s", len(want), want[0].id, got)
		}
	}
	return r.verdict()
}

// =================================================================================================
// EncodeAttributeMessage / EncodeAttributeFromStruct <-> ParseAttributeMessage
// Consumed: name (non-empty, stored with a NUL terminator, name size is a uint16 so at most 65534 bytes),
// datatype (through EncodeDatatypeMessage), dataspace Dimensions/MaxDims (through EncodeDataspaceMessage),
// data bytes verbatim.

type AttrCase struct {
	Name    Blob     `json:"name"`
	T       T        `json:"t"`
	Dims    []uint64 `json:"dims"`
	MaxDims []uint64 `json:"maxdims,omitempty"`
	Data    Blob     `json:"data"`
	Struct  bool     `json:"struct"` // EncodeAttributeFromStruct instead of EncodeAttributeMessage
}

func genAttr(t *rapid.T) AttrCase {
	c := AttrCase{Name: genBlob(t, "name", nameLens(1, 65534), "", "", "utf8", "nz"), Struct: rapid.Bool().Draw(t, "viaStruct")}
	switch k := rapid.SampledFrom([]string{"fixed", "fixed", "float", "float", "string", "string", "ref", "opaque", "compound", "compound", "vlen"}).Draw(t, "dtype"); k {
	case "compound":
		c.T = genCompound(t, 1, true, false, true)
	case "vlen":
		c.T = genComposite(t, "vlen")
	default:
		c.T = genLeaf(t, []string{k}, true)
	}
	if rapid.IntRange(0, 2).Draw(t, "scalar") == 0 {
		c.Dims = []uint64{1}
	} else {
		c.Dims, c.MaxDims = genDims(t)
	}
	c.Data = genBlob(t, "data", rapid.OneOf(rapid.IntRange(0, 64), rapid.IntRange(0, 600), rapid.SampledFrom([]int{0, 1, 4, 8, 255, 256, 5000})), "bin")
	return c
}

func classifyAttr(c AttrCase) (bool, []string) {
	labels := []string{"name_len=" + lenBucket(c.Name.N), "dtype=" + c.T.K, rankBucket(len(c.Dims))}
	if c.Struct {
		labels = append(labels, "via=FromStruct")
	} else {
		labels = append(labels, "via=Message")
	}
	if c.Data.N == 0 {
		labels = append(labels, "data=empty")
	}
	if c.Name.Kind == "utf8" || c.Name.Kind == "nz" {
		labels = append(labels, "name_non_ascii")
	}
	return c.Data.N > 0 || len(c.Dims) >= 2, labels // name and datatype are never defaults
}

func runAttr(c AttrCase) vt.Verdict {
	if c.Name.N < 1 || c.Name.N > 65534 || c.Name.Kind == "bin" || len(c.Dims) == 0 || len(c.Dims) > 64 || c.Data.N > 1<<16 || !c.T.depthOK(0) {
		return vt.Skipped("outside the encoder's documented domain")
	}
	if len(c.MaxDims) != 0 && len(c.MaxDims) != len(c.Dims) {
		return vt.Skipped("max dims length mismatch")
	}
	var r result
	b, err := build(c.T)
	if err != nil {
		return vt.Bad("datatype for the attribute refused: %v", err)
	}
	if b.in == nil {
		return vt.Skipped("datatype class not accepted by EncodeDatatypeMessage")
	}
	name := c.Name.String()
	data := c.Data.Bytes()
	ds := &core.DataspaceMessage{Version: 1, Type: core.DataspaceSimple, Dimensions: c.Dims, MaxDims: c.MaxDims}
	encode := func(dt *core.DatatypeMessage, sp *core.DataspaceMessage, nm string, d []byte) ([]byte, error) {
		if c.Struct {
			return core.EncodeAttributeFromStruct(&core.Attribute{Name: nm, Datatype: dt, Dataspace: sp, Data: d}, ohSB)
		}
		return core.EncodeAttributeMessage(nm, dt, sp, d)
	}
	enc, err := encode(b.in, ds, name, data)
	if err != nil {
		return vt.Bad("attribute encoder refused name of %d bytes, %s datatype, rank %d: %v", len(name), c.T.K, len(c.Dims), err)
	}
	enc2, _ := encode(b.in, ds, name, data)
	if !bytes.Equal(enc, enc2) {
		return vt.Bad("attribute encoding is not deterministic")
	}
	got, err := core.ParseAttributeMessage(enc, binary.LittleEndian)
	if err != nil {
		return vt.Bad("ParseAttributeMessage(name %d bytes, %s datatype, rank %d, %d data bytes): %v", len(name), c.T.K, len(c.Dims), len(data), err)
	}
	if got.Name != name {
		r.fail("attribute name (%d bytes) read back as %d bytes %q…", len(name), len(got.Name), short([]byte(got.Name)))
	}
	if !bytes.Equal(got.Data, data) {
		r.fail("attribute data: %s", sameBytes("encoded vs parsed", data, got.Data))
	}
	if got.Dataspace == nil || got.Datatype == nil {
		return vt.Bad("parsed attribute lacks datatype or dataspace")
	}
	checkDataspace(&r, "attribute dataspace", c.Dims, c.MaxDims, got.Dataspace)
	// datatype: the embedded bytes are exactly the datatype message, so the same oracle as the datatype pair applies
	vlenKnown := false
	switch c.T.K {
	case "vlen":
		moved := append(le(uint64(c.T.Bits), 4), b.kids[0].enc...)
		switch {
		case got.Datatype.Class != core.DatatypeVarLen || got.Datatype.Size != c.T.Size:
			r.fail("attribute vlen datatype parsed as class %d size %d", got.Datatype.Class, got.Datatype.Size)
		case got.Datatype.ClassBitField == c.T.Bits && bytes.Equal(got.Datatype.Properties, b.kids[0].enc):
		case got.Datatype.ClassBitField == 0 && bytes.Equal(got.Datatype.Properties, moved):
			vlenKnown = true
			r.knownOr(kfVLenBits, "attribute with a vlen datatype (bit field %#x): parsed bit field 0, bit-field bytes in Properties", c.T.Bits)
		default:
			r.fail("attribute vlen datatype bits %#x: parsed bits %#x properties %s", c.T.Bits, got.Datatype.ClassBitField, short(got.Datatype.Properties))
		}
	case "compound":
		if d := sameDM(got.Datatype, b.member); d != "" {
			r.fail("attribute compound datatype: %s", d)
		} else {
			checkCompound(&r, c.T, b, got.Datatype, true, "")
		}
	default:
		checkLeaf(&r, c.T, b, got.Datatype, "attribute datatype")
	}
	if !vlenKnown {
		if re, err := encode(got.Datatype, got.Dataspace, got.Name, got.Data); err != nil {
			r.fail("re-encoding the decoded attribute failed: %v", err)
		} else if d := sameBytes("re-encoding the decoded attribute changes the bytes", re, enc); d != "" {
			r.fail("%s", d)
		}
	}
	return r.verdict()
}

// =================================================================================================
// EncodeAttributeInfoMessage <-> ParseAttributeInfoMessage
// Consumed: Version (documented 0), Flags (bit 0 track, bit 1 index creation order), MaxCreationIndex as 2
// bytes when tracked, heap and name-index addresses, order-index address when indexed.

type AInfoCase struct {
	SB    SB     `json:"sb"`
	Flags uint8  `json:"flags"`
	MaxCI uint64 `json:"maxci"`
	Heap  uint64 `json:"heap"`
	Name  uint64 `json:"name"`
	Order uint64 `json:"order"`
}

func genAInfo(t *rapid.T) AInfoCase {
	c := AInfoCase{SB: genSB(t), Flags: rapid.Uint8Range(0, 3).Draw(t, "flags")}
	c.Heap, c.Name = genAddr(t, "heap", c.SB.Off), genAddr(t, "name", c.SB.Off)
	if c.Flags&1 != 0 || rapid.IntRange(0, 4).Draw(t, "strayMax") == 0 {
		c.MaxCI = rapid.OneOf(rapid.Uint64Range(0, 65535), rapid.SampledFrom([]uint64{0, 1, 255, 256, 65535})).Draw(t, "maxci")
	}
	if c.Flags&2 != 0 || rapid.IntRange(0, 4).Draw(t, "strayOrder") == 0 {
		c.Order = genAddr(t, "order", c.SB.Off)
	}
	return c
}

func classifyAInfo(c AInfoCase) (bool, []string) {
	return nz(c.Flags != 0, c.Heap != 0, c.Name != 0, c.MaxCI != 0 && c.Flags&1 != 0, c.Order != 0 && c.Flags&2 != 0) >= 2,
		[]string{fmt.Sprintf("flags=%d", c.Flags), fmt.Sprintf("offsize=%d", c.SB.Off)}
}

func runAInfo(c AInfoCase) vt.Verdict {
	if !validSize(c.SB.Off) || c.Flags > 3 || c.MaxCI > 65535 || c.Heap != fit(c.Heap, c.SB.Off) || c.Name != fit(c.Name, c.SB.Off) || c.Order != fit(c.Order, c.SB.Off) {
		return vt.Skipped("outside the generated domain")
	}
	var r result
	sb := c.SB.sb()
	in := &core.AttributeInfoMessage{Version: 0, Flags: c.Flags, FractalHeapAddr: c.Heap, BTreeNameIndexAddr: c.Name, MaxCreationIndex: c.MaxCI, BTreeOrderIndexAddr: c.Order}
	enc, err := core.EncodeAttributeInfoMessage(in, sb)
	if err != nil {
		return vt.Bad("EncodeAttributeInfoMessage refused flags %d: %v", c.Flags, err)
	}
	enc2, _ := core.EncodeAttributeInfoMessage(in, sb)
	if !bytes.Equal(enc, enc2) {
		return vt.Bad("attribute info encoding is not deterministic")
	}
	got, err := core.ParseAttributeInfoMessage(enc, sb)
	if err != nil {
		return vt.Bad("ParseAttributeInfoMessage(flags %d, offset size %d): %v", c.Flags, c.SB.Off, err)
	}
	wantMax, wantOrder := uint64(0), uint64(0)
	if c.Flags&1 != 0 {
		wantMax = c.MaxCI
	}
	if c.Flags&2 != 0 {
		wantOrder = c.Order
	}
	if got.Version != 0 || got.Flags != c.Flags || got.FractalHeapAddr != c.Heap || got.BTreeNameIndexAddr != c.Name || got.MaxCreationIndex != wantMax || got.BTreeOrderIndexAddr != wantOrder {
		r.fail("attribute info flags %d: encoded heap %#x name %#x maxci %d order %#x, parsed version %d flags %d heap %#x name %#x maxci %d order %#x",
			c.Flags, c.Heap, c.Name, wantMax, wantOrder, got.Version, got.Flags, got.FractalHeapAddr, got.BTreeNameIndexAddr, got.MaxCreationIndex, got.BTreeOrderIndexAddr)
	}
	if re, err := core.EncodeAttributeInfoMessage(got, sb); err != nil {
		r.fail("re-encoding the decoded attribute info failed: %v", err)
	} else if d := sameBytes("re-encoding the decoded attribute info changes the bytes", re, enc); d != "" {
		r.fail("%s", d)
	}
	return r.verdict()
}

// =================================================================================================
// EncodeLinkMessage <-> core.ParseLinkMessage and structures.ParseLinkMessage
// Consumed: Version 1, Flags (bits 0-1 size of the name length, 2 creation order present, 3 link type present,
// 4 charset present), Type when bit 3, CreationOrder when bit 2, CharSet when bit 4, Name, LinkValue verbatim.
// LinkValue as the library's own callers build it: hard = object address in offsetSize bytes; soft = 2-byte
// length + path (CreateSoftLink); external = 2-byte length + file name + 2-byte length + object path.
// structures.ParseLinkMessage documents name length 0 and soft-link length 0 as invalid.

type LinkCase struct {
	SB      SB     `json:"sb"`
	Type    string `json:"type"` // hard soft external
	Flags   uint8  `json:"flags"`
	Name    Blob   `json:"name"`
	COrder  uint64 `json:"corder"`
	CharSet uint8  `json:"charset"`
	Addr    uint64 `json:"addr"`
	Path    Blob   `json:"path"`
	File    Blob   `json:"file"`
}

func genLink(t *rapid.T) LinkCase {
	c := LinkCase{SB: genSB(t)}
	c.Type = rapid.SampledFrom([]string{"hard", "hard", "hard", "hard", "external", "external", "external", "soft"}).Draw(t, "type")
	c.Name = genBlob(t, "name", nameLens(0, 131072), "", "", "utf8", "nz") // names of 64 KiB and more use the 4-byte length field
	code := uint8(0)
	switch {
	case c.Name.N > 255:
		code = 1
	}
	code += uint8(rapid.SampledFrom([]int{0, 0, 0, 1, 2}).Draw(t, "widerLength"))
	if code > 3 {
		code = 3
	}
	if rapid.IntRange(0, 15).Draw(t, "tooNarrow") == 0 {
		// a name that is too long for the chosen length field by 0..2 bytes: the encoder has to refuse it (or, were it to
		// accept it, the decoders have to return the same name)
		code = uint8(rapid.IntRange(0, 1).Draw(t, "narrowCode"))
		n := (1 << (8 << code)) + rapid.IntRange(0, 2).Draw(t, "over")
		c.Name = Blob{Kind: c.Name.Kind, N: n, Seed: c.Name.Seed}
	}
	c.Flags = code
	if rapid.Bool().Draw(t, "hasCOrder") {
		c.Flags |= core.LinkFlagCreationOrderBit
		c.COrder = genAddr(t, "corder", 8)
	}
	if c.Type != "hard" || rapid.Bool().Draw(t, "typeField") {
		c.Flags |= core.LinkFlagLinkTypeFieldBit
	}
	if rapid.Bool().Draw(t, "hasCharset") {
		c.Flags |= core.LinkFlagCharSetBit
		c.CharSet = rapid.SampledFrom([]uint8{0, 1}).Draw(t, "charset")
	}
	switch c.Type {
	case "hard":
		c.Addr = genAddr(t, "addr", c.SB.Off)
	case "soft":
		c.Path = genBlob(t, "path", nameLens(1, 65535), "", "utf8")
	case "external":
		c.File = genBlob(t, "file", nameLens(0, 30000), "", "utf8")
		c.Path = genBlob(t, "path", nameLens(0, 30000), "", "utf8")
	}
	return c
}

func classifyLink(c LinkCase) (bool, []string) {
	labels := []string{"type=" + c.Type, "name_len=" + lenBucket(c.Name.N), fmt.Sprintf("lensize=%d", 1<<(c.Flags&3)), fmt.Sprintf("offsize=%d", c.SB.Off)}
	if c.Flags&core.LinkFlagCreationOrderBit != 0 {
		labels = append(labels, "creation_order")
	}
	if c.Flags&core.LinkFlagCharSetBit != 0 {
		labels = append(labels, "charset_field")
	}
	if c.Flags&core.LinkFlagLinkTypeFieldBit == 0 {
		labels = append(labels, "implicit_hard")
	}
	if ls := 1 << (c.Flags & 3); ls < 8 && uint64(c.Name.N) >= uint64(1)<<(8*ls) {
		labels = append(labels, "name_too_long_for_length_field")
	}
	return c.Name.N > 0 && (c.Addr != 0 || c.Path.N > 0 || c.File.N > 0), labels
}

func runLink(c LinkCase) vt.Verdict {
	if !validSize(c.SB.Off) || c.Flags&0xE0 != 0 || c.Name.N < 0 || c.Name.N > 1<<20 || c.Name.Kind == "bin" {
		return vt.Skipped("outside the generated domain")
	}
	lenSize := 1 << (c.Flags & 3)
	tooNarrow := lenSize < 8 && uint64(c.Name.N) >= uint64(1)<<(8*lenSize)
	var r result
	sb := c.SB.sb()
	in := &core.LinkMessage{Version: 1, Flags: c.Flags, Name: c.Name.String()}
	if c.Flags&core.LinkFlagCreationOrderBit != 0 {
		in.CreationOrder = c.COrder
	}
	if c.Flags&core.LinkFlagCharSetBit != 0 {
		in.CharSet = c.CharSet
	}
	path, file := c.Path.Bytes(), c.File.Bytes()
	switch c.Type {
	case "hard":
		in.Type = core.LinkTypeHard
		if c.Addr != fit(c.Addr, c.SB.Off) {
			return vt.Skipped("address does not fit the offset size")
		}
		in.LinkValue = le(c.Addr, int(c.SB.Off))
	case "soft":
		in.Type = core.LinkTypeSoft
		if len(path) == 0 || len(path) > 65535 || c.Flags&core.LinkFlagLinkTypeFieldBit == 0 {
			return vt.Skipped("soft link outside the documented domain")
		}
		in.LinkValue = append(le(uint64(len(path)), 2), path...)
	case "external":
		in.Type = core.LinkTypeExternal
		if len(path) > 65535 || len(file) > 65535 || c.Flags&core.LinkFlagLinkTypeFieldBit == 0 {
			return vt.Skipped("external link outside the documented domain")
		}
		in.LinkValue = append(append(append(le(uint64(len(file)), 2), file...), le(uint64(len(path)), 2)...), path...)
	default:
		return vt.Skipped("unknown link type")
	}
	enc, err := core.EncodeLinkMessage(in, sb)
	if err != nil && tooNarrow {
		return vt.Pass() // refused: the name does not fit the chosen length field
	}
	if err != nil {
		return vt.Bad("EncodeLinkMessage refused a %s link (flags %#x, name %d bytes): %v", c.Type, c.Flags, c.Name.N, err)
	}
	enc2, _ := core.EncodeLinkMessage(in, sb)
	if !bytes.Equal(enc, enc2) {
		return vt.Bad("link message encoding is not deterministic")
	}

	// ---- core decoder: field level
	got, err := core.ParseLinkMessage(enc, sb)
	if err != nil {
		return vt.Bad("core.ParseLinkMessage(%s link, flags %#x, name %d bytes): %v", c.Type, c.Flags, c.Name.N, err)
	}
	if got.Version != 1 || got.Flags != in.Flags || got.Type != in.Type || got.CreationOrder != in.CreationOrder || got.CharSet != in.CharSet {
		r.fail("%s link: encoded flags %#x type %d corder %d charset %d, parsed version %d flags %#x type %d corder %d charset %d", c.Type,
			in.Flags, in.Type, in.CreationOrder, in.CharSet, got.Version, got.Flags, got.Type, got.CreationOrder, got.CharSet)
	}
	if got.Name != in.Name {
		r.fail("%s link name (%d bytes) parsed as %d bytes", c.Type, len(in.Name), len(got.Name))
	}
	softAsym := false
	if !bytes.Equal(got.LinkValue, in.LinkValue) {
		if c.Type == "soft" && bytes.Equal(got.LinkValue, path) {
			softAsym = true
			r.knownOr(kfSoftLink, "soft link: encoder consumed LinkValue = 2-byte length + %d-byte path, decoder returned the bare path as LinkValue", len(path))
		} else {
			r.fail("%s link value encoded %s parsed %s", c.Type, short(in.LinkValue), short(got.LinkValue))
		}
	}
	// ---- core decoder: accessor level
	switch c.Type {
	case "hard":
		if a, err := got.GetHardLinkAddress(sb); err != nil || a != c.Addr {
			r.fail("GetHardLinkAddress = %#x, %v; encoded %#x (offset size %d)", a, err, c.Addr, c.SB.Off)
		}
	case "soft":
		if p, err := got.GetSoftLinkPath(); err != nil || p != string(path) {
			r.fail("GetSoftLinkPath = %d bytes, %v; encoded %d bytes", len(p), err, len(path))
		}
	case "external":
		if f, p, err := got.GetExternalLinkInfo(); err != nil || f != string(file) || p != string(path) {
			r.fail("GetExternalLinkInfo = file %d bytes path %d bytes, %v; encoded %d / %d", len(f), len(p), err, len(file), len(path))
		}
	}
	// ---- encode(decode(encode(v)))
	re, err := core.EncodeLinkMessage(got, sb)
	if err != nil {
		r.fail("re-encoding the decoded %s link failed: %v", c.Type, err)
	} else if !bytes.Equal(re, enc) {
		if softAsym && len(re) == len(enc)-2 {
			// same finding: the length prefix is gone
		} else {
			r.fail("%s", sameBytes("re-encoding the decoded "+c.Type+" link changes the bytes", re, enc))
		}
	}

	// ---- structures decoder (documents empty names as invalid)
	if c.Name.N > 0 {
		sg, err := structures.ParseLinkMessage(enc, sb)
		if err != nil {
			r.fail("structures.ParseLinkMessage(%s link, flags %#x, name %d bytes): %v", c.Type, c.Flags, c.Name.N, err)
		} else {
			hasCO := c.Flags&core.LinkFlagCreationOrderBit != 0
			if sg.Version != 1 || sg.Flags != in.Flags || uint8(sg.Type) != uint8(in.Type) || sg.Name != in.Name || sg.CharacterSet != in.CharSet ||
				sg.CreationOrderValid != hasCO || uint64(sg.CreationOrder) != in.CreationOrder {
				r.fail("structures.ParseLinkMessage(%s): flags %#x type %d name %d bytes charset %d corder %d/%v, encoded flags %#x type %d name %d bytes charset %d corder %d/%v",
					c.Type, sg.Flags, sg.Type, len(sg.Name), sg.CharacterSet, sg.CreationOrder, sg.CreationOrderValid, in.Flags, in.Type, len(in.Name), in.CharSet, in.CreationOrder, hasCO)
			}
			switch c.Type {
			case "hard":
				if sg.ObjectAddress != c.Addr {
					r.fail("structures.ParseLinkMessage: hard link address %#x, encoded %#x", sg.ObjectAddress, c.Addr)
				}
			case "soft":
				if sg.TargetPath != string(path) {
					r.fail("structures.ParseLinkMessage: soft link path %d bytes, encoded %d bytes", len(sg.TargetPath), len(path))
				}
			}
		}
	}
	return r.verdict()
}

// =================================================================================================
// EncodeLinkInfoMessage <-> ParseLinkInfoMessage
// Consumed: Version 0, Flags bits 0-1, MaxCreationOrder (>= 0, documented; 8 bytes when tracked), heap and
// name-index addresses, creation-order-index address when indexed.

type LInfoCase struct {
	SB    SB     `json:"sb"`
	Flags uint8  `json:"flags"`
	MaxCO int64  `json:"maxco"`
	Heap  uint64 `json:"heap"`
	Name  uint64 `json:"name"`
	Order uint64 `json:"order"`
}

func genLInfo(t *rapid.T) LInfoCase {
	c := LInfoCase{SB: genSB(t), Flags: rapid.Uint8Range(0, 3).Draw(t, "flags")}
	c.Heap, c.Name = genAddr(t, "heap", c.SB.Off), genAddr(t, "name", c.SB.Off)
	if c.Flags&1 != 0 || rapid.IntRange(0, 4).Draw(t, "strayMax") == 0 {
		c.MaxCO = rapid.OneOf(rapid.Int64Range(0, 1000), rapid.Int64Range(0, 1<<62), rapid.SampledFrom([]int64{0, 1, 255, 1<<32 - 1, 1 << 32, 1<<63 - 1})).Draw(t, "maxco")
	}
	if c.Flags&2 != 0 || rapid.IntRange(0, 4).Draw(t, "strayOrder") == 0 {
		c.Order = genAddr(t, "order", c.SB.Off)
	}
	return c
}

func classifyLInfo(c LInfoCase) (bool, []string) {
	return nz(c.Flags != 0, c.Heap != 0, c.Name != 0, c.MaxCO != 0 && c.Flags&1 != 0, c.Order != 0 && c.Flags&2 != 0) >= 2,
		[]string{fmt.Sprintf("flags=%d", c.Flags), fmt.Sprintf("offsize=%d", c.SB.Off)}
}

func runLInfo(c LInfoCase) vt.Verdict {
	if !validSize(c.SB.Off) || c.Flags > 3 || c.MaxCO < 0 || c.Heap != fit(c.Heap, c.SB.Off) || c.Name != fit(c.Name, c.SB.Off) || c.Order != fit(c.Order, c.SB.Off) {
		return vt.Skipped("outside the documented domain (negative max creation order is documented invalid)")
	}
	var r result
	sb := c.SB.sb()
	in := &core.LinkInfoMessage{Version: 0, Flags: c.Flags, MaxCreationOrder: c.MaxCO, FractalHeapAddress: c.Heap, NameBTreeAddress: c.Name, CreationOrderBTreeAddress: c.Order}
	enc, err := core.EncodeLinkInfoMessage(in, sb)
	if err != nil {
		return vt.Bad("EncodeLinkInfoMessage refused flags %d: %v", c.Flags, err)
	}
	enc2, _ := core.EncodeLinkInfoMessage(in, sb)
	if !bytes.Equal(enc, enc2) {
		return vt.Bad("link info encoding is not deterministic")
	}
	got, err := core.ParseLinkInfoMessage(enc, sb)
	if err != nil {
		return vt.Bad("ParseLinkInfoMessage(flags %d, offset size %d): %v", c.Flags, c.SB.Off, err)
	}
	wantMax, wantOrder := int64(0), uint64(0)
	if c.Flags&1 != 0 {
		wantMax = c.MaxCO
	}
	if c.Flags&2 != 0 {
		wantOrder = c.Order
	}
	if got.Version != 0 || got.Flags != c.Flags || got.MaxCreationOrder != wantMax || got.FractalHeapAddress != c.Heap || got.NameBTreeAddress != c.Name || got.CreationOrderBTreeAddress != wantOrder {
		r.fail("link info flags %d: encoded maxco %d heap %#x name %#x order %#x, parsed version %d flags %d maxco %d heap %#x name %#x order %#x",
			c.Flags, wantMax, c.Heap, c.Name, wantOrder, got.Version, got.Flags, got.MaxCreationOrder, got.FractalHeapAddress, got.NameBTreeAddress, got.CreationOrderBTreeAddress)
	}
	if got.HasCreationOrderTracking() != (c.Flags&1 != 0) || got.HasCreationOrderIndex() != (c.Flags&2 != 0) {
		r.fail("link info flag accessors disagree with flags %d", c.Flags)
	}
	if re, err := core.EncodeLinkInfoMessage(got, sb); err != nil {
		r.fail("re-encoding the decoded link info failed: %v", err)
	} else if d := sameBytes("re-encoding the decoded link info changes the bytes", re, enc); d != "" {
		r.fail("%s", d)
	}
	return r.verdict()
}

// =================================================================================================
// EncodeSymbolTableMessage <-> the symbol-table message decoding of the readers
// The library has no stand-alone parser for this message: group.go (loadGroup and the two traditional-group
// loaders) read it in place as "bytes 0-7 B-tree address, bytes 8-15 local heap address" in the superblock's
// byte order and ignore messages shorter than 16 bytes, i.e. they cover 8-byte offsets only. That in-place
// decoding is exercised end to end by the "registry" sub-check on a version-0 file; here the bytes are decoded
// exactly as encoder and reader document them, for every offset size the encoder accepts.

type StabCase struct {
	Off   uint8  `json:"off"`
	Len   uint8  `json:"len"`
	BTree uint64 `json:"btree"`
	Heap  uint64 `json:"heap"`
}

func genStab(t *rapid.T) StabCase {
	c := StabCase{Off: rapid.SampledFrom([]uint8{8, 8, 8, 4, 2, 1}).Draw(t, "off"), Len: rapid.SampledFrom([]uint8{8, 4, 2, 1}).Draw(t, "len")}
	c.BTree, c.Heap = genAddr(t, "btree", c.Off), genAddr(t, "heap", c.Off)
	return c
}

func classifyStab(c StabCase) (bool, []string) {
	return c.BTree != 0 && c.Heap != 0, []string{fmt.Sprintf("offsize=%d", c.Off)}
}

func runStab(c StabCase) vt.Verdict {
	if !validSize(c.Off) || c.BTree != fit(c.BTree, c.Off) || c.Heap != fit(c.Heap, c.Off) {
		return vt.Skipped("outside the generated domain")
	}
	var r result
	enc := core.EncodeSymbolTableMessage(c.BTree, c.Heap, int(c.Off), int(c.Len))
	if !bytes.Equal(enc, core.EncodeSymbolTableMessage(c.BTree, c.Heap, int(c.Off), int(c.Len))) {
		return vt.Bad("symbol table message encoding is not deterministic")
	}
	if len(enc) != 2*int(c.Off) {
		return vt.Bad("symbol table message for offset size %d is %d bytes, documented %d", c.Off, len(enc), 2*int(c.Off))
	}
	bt, hp := rdLE(enc[:c.Off]), rdLE(enc[c.Off:])
	if bt != c.BTree || hp != c.Heap {
		r.fail("symbol table message (offset size %d): encoded btree %#x heap %#x, documented layout holds btree %#x heap %#x", c.Off, c.BTree, c.Heap, bt, hp)
	}
	if c.Off == 8 {
		// the readers' in-place decoding (group.go): requires 16 bytes, superblock byte order
		sb := SB{Off: 8, Len: 8, Ver: 0}.sb()
		if len(enc) < 16 || sb.Endianness.Uint64(enc[0:8]) != c.BTree || sb.Endianness.Uint64(enc[8:16]) != c.Heap {
			r.fail("symbol table message does not satisfy the readers' in-place decoding (bytes 0-7 btree, 8-15 heap)")
		}
	}
	if re := core.EncodeSymbolTableMessage(bt, hp, int(c.Off), int(c.Len)); !bytes.Equal(re, enc) {
		r.fail("re-encoding the decoded symbol table message changes the bytes")
	}
	return r.verdict()
}
