package c11

import (
	"bytes"
	"encoding/binary"
	"fmt"
	"hash/crc32"

	"github.com/scigolib/hdf5/internal/core"
	"github.com/scigolib/hdf5/verif/memf"
	"github.com/scigolib/hdf5/verif/vt"
	"pgregory.net/rapid"
)

// =================================================================================================
// Superblock.WriteTo <-> ReadSuperblock
//
// Fields the writer documents it consumes: v0: BaseAddress (bytes 24-31), eofAddress (40-47), RootGroup (64-71),
// RootBTreeAddr (80-87), RootHeapAddr (88-95); v2/v3: Version, BaseAddress (12-19), SuperExtension (20-27,
// "UNDEF if none": 0 is written as UNDEF), eofAddress (28-35), RootGroup (36-43), CRC32 of bytes 0-43.
// Only 8-byte offsets and lengths are accepted for writing. DriverInfo and Endianness are not consumed.

type SBCase struct {
	Version uint8  `json:"version"`
	Base    uint64 `json:"base"`
	Root    uint64 `json:"root"`
	Ext     uint64 `json:"ext"`
	BTree   uint64 `json:"btree"`
	Heap    uint64 `json:"heap"`
	EOF     uint64 `json:"eof"`
}

func genSBCase(t *rapid.T) SBCase {
	c := SBCase{Version: rapid.SampledFrom([]uint8{0, 2, 3}).Draw(t, "version")}
	c.Root = genAddr(t, "root", 8)
	c.EOF = genAddr(t, "eof", 8)
	// base address: zero for most v0 cases (the v0 reader is known to drop it), ~10 % non-zero there
	baseNZ := rapid.IntRange(0, 9).Draw(t, "baseNonZero")
	if c.Version != 0 && baseNZ < 6 || c.Version == 0 && baseNZ == 0 {
		c.Base = genAddr(t, "base", 8)
	}
	if c.Version == 0 {
		c.BTree = genAddr(t, "btree", 8)
		c.Heap = genAddr(t, "heap", 8)
	} else {
		c.Ext = genAddr(t, "ext", 8)
	}
	return c
}

func classifySB(c SBCase) (bool, []string) {
	labels := []string{fmt.Sprintf("v%d", c.Version)}
	if c.Base != 0 {
		labels = append(labels, "base!=0")
	}
	if c.Version != 0 && c.Ext == 0 {
		labels = append(labels, "ext=none")
	}
	return nz(c.Base != 0, c.Root != 0, c.Ext != 0, c.BTree != 0, c.Heap != 0, c.EOF != 0) >= 2, labels
}

func (c SBCase) sb() *core.Superblock {
	return &core.Superblock{Version: c.Version, OffsetSize: 8, LengthSize: 8, Endianness: binary.LittleEndian,
		BaseAddress: c.Base, RootGroup: c.Root, SuperExtension: c.Ext, RootBTreeAddr: c.BTree, RootHeapAddr: c.Heap}
}

func runSB(c SBCase) vt.Verdict {
	if c.Version != 0 && c.Version != 2 && c.Version != 3 {
		return vt.Skipped("superblock version outside the writer's domain")
	}
	var r result
	f1, f2 := memf.New(0), memf.New(0)
	if err := c.sb().WriteTo(f1, c.EOF); err != nil {
		return vt.Bad("Superblock.WriteTo(v%d) refused a well-formed value: %v", c.Version, err)
	}
	if err := c.sb().WriteTo(f2, c.EOF); err != nil {
		return vt.Bad("second Superblock.WriteTo failed: %v", err)
	}
	if d := sameBytes("two encodings of the same superblock differ", f1.Data, f2.Data); d != "" {
		return vt.Bad("%s", d)
	}
	wantLen, eofOff := 48, 28
	if c.Version == 0 {
		wantLen, eofOff = 96, 40
	}
	if len(f1.Data) != wantLen {
		return vt.Bad("superblock v%d written as %d bytes, documented %d", c.Version, len(f1.Data), wantLen)
	}
	if got := binary.LittleEndian.Uint64(f1.Data[eofOff:]); got != c.EOF {
		r.fail("end-of-file address at documented bytes %d-%d = %#x, passed %#x", eofOff, eofOff+7, got, c.EOF)
	}
	if c.Version != 0 {
		if got, want := binary.LittleEndian.Uint32(f1.Data[44:48]), crc32.ChecksumIEEE(f1.Data[:44]); got != want {
			r.fail("superblock v%d checksum field %#x, documented CRC32 of bytes 0-43 = %#x", c.Version, got, want)
		}
	}
	got, err := core.ReadSuperblock(f1)
	if err != nil {
		return vt.Bad("ReadSuperblock of a freshly written v%d superblock: %v", c.Version, err)
	}
	if got.Version != c.Version || got.OffsetSize != 8 || got.LengthSize != 8 || got.Endianness != binary.LittleEndian {
		r.fail("v%d superblock read back as version=%d offset=%d length=%d order=%v", c.Version, got.Version, got.OffsetSize, got.LengthSize, got.Endianness)
	}
	if got.RootGroup != c.Root {
		r.fail("v%d RootGroup wrote %#x read %#x", c.Version, c.Root, got.RootGroup)
	}
	baseLost := false
	if got.BaseAddress != c.Base {
		if c.Version == 0 && got.BaseAddress == 0 {
			baseLost = true
			r.knownOr(kfSB0Base, "superblock v0 BaseAddress wrote %#x, ReadSuperblock returned 0", c.Base)
		} else {
			r.fail("v%d BaseAddress wrote %#x read %#x", c.Version, c.Base, got.BaseAddress)
		}
	}
	if c.Version == 0 {
		if got.RootBTreeAddr != c.BTree || got.RootHeapAddr != c.Heap {
			r.fail("v0 cached root symbol table wrote btree=%#x heap=%#x read btree=%#x heap=%#x", c.BTree, c.Heap, got.RootBTreeAddr, got.RootHeapAddr)
		}
	} else {
		wantExt := c.Ext
		if wantExt == 0 {
			wantExt = undef // documented: "UNDEF if none"
		}
		if got.SuperExtension != wantExt {
			r.fail("v%d SuperExtension wrote %#x (expect %#x) read %#x", c.Version, c.Ext, wantExt, got.SuperExtension)
		}
	}
	// encode(decode(encode(v))) == encode(v)
	f3 := memf.New(0)
	if err := got.WriteTo(f3, c.EOF); err != nil {
		r.fail("re-encoding the decoded v%d superblock failed: %v", c.Version, err)
	} else if !bytes.Equal(f3.Data, f1.Data) {
		if baseLost && bytes.Equal(f3.Data[:24], f1.Data[:24]) && bytes.Equal(f3.Data[32:], f1.Data[32:]) {
			// only the base address bytes differ: same finding
		} else {
			r.fail("%s", sameBytes("re-encoding the decoded superblock changes the bytes", f3.Data, f1.Data))
		}
	}
	return r.verdict()
}

// =================================================================================================
// ObjectHeaderWriter.WriteTo / WriteObjectHeader / RewriteObjectHeaderV2 (+AddMessageToObjectHeader)
//   <-> ReadObjectHeader
//
// Writer domain (documented): version 1 or 2; v2 "MVP": flags 0 (no times, no phase change, 1-byte chunk size),
// chunk 0 at most 255 bytes (sum of 4+len per message), no continuation blocks; v1: RefCount consumed.
// Reader (documented in its code): messages of size 0 are skipped ("zero-size message, skip it"), so the
// expected message list is the written list without empty messages. Message payloads are opaque to the
// header codec, except: type 12 payloads are also decoded into ObjectHeader.Attributes, type 22 (v2) carries
// the reference count; types 15 (attribute info) and 16 (continuation) make the reader follow addresses and
// are therefore only meaningful with their referents - not generated here.

var ohSB = &core.Superblock{Version: 2, OffsetSize: 8, LengthSize: 8, Endianness: binary.LittleEndian}

type OMsg struct {
	Type uint16 `json:"type"`
	Data Blob   `json:"data"` // type 12: N ignored, payload = attribute message named by the seed; type 22: 4 bytes
}

type OHCase struct {
	Version  uint8  `json:"version"`
	RefCount uint32 `json:"refcount"` // v1 only
	Addr     uint64 `json:"addr"`
	Msgs     []OMsg `json:"msgs"`
	Trail    byte   `json:"trail"` // v2: value of the bytes following the header in the file
	Mode     string `json:"mode"`  // writeto | writeobj | rewrite
	Split    int    `json:"split"` // rewrite: number of messages written first
}

func attrNameFor(seed int) string { return Blob{N: 1 + seed%11, Seed: seed}.String() }

func (m OMsg) payload() []byte {
	switch m.Type {
	case 12:
		dt := &core.DatatypeMessage{Class: core.DatatypeFixed, Version: 1, Size: 4, ClassBitField: 0x08}
		ds := &core.DataspaceMessage{Dimensions: []uint64{1}}
		b, err := core.EncodeAttributeMessage(attrNameFor(m.Data.Seed), dt, ds, le(uint64(m.Data.Seed), 4))
		if err != nil {
			panic(err)
		}
		return b
	case 22:
		return le(uint64(m.Data.Seed)+2, 4)
	}
	d := m.Data
	d.Kind = "bin"
	return d.Bytes()
}

var ohTypes = []uint16{0, 1, 2, 3, 4, 5, 6, 8, 10, 11, 13, 17, 18, 19, 23}

func genOH(t *rapid.T) OHCase {
	c := OHCase{Version: rapid.SampledFrom([]uint8{2, 2, 2, 1}).Draw(t, "version")}
	c.Addr = rapid.OneOf(rapid.Uint64Range(0, 4096), rapid.SampledFrom([]uint64{0, 48, 96, 800, 1 << 20})).Draw(t, "addr")
	n := rapid.IntRange(0, 12).Draw(t, "nmsgs")
	// shape of the message sizes: "small" keeps a v1 header inside the part its own reader sees and a v2 header
	// inside one 255-byte chunk; "any" is 0-200 bytes each
	shapes := []string{"fit", "fit", "fit", "fit", "fit", "any"} // v2: most headers inside the documented 255-byte chunk
	if c.Version == 1 {
		shapes = []string{"fit", "any"}
	}
	shape := rapid.SampledFrom(shapes).Draw(t, "shape")
	budget := 255
	if c.Version == 1 {
		budget = 16 + 8*n // what the v1 reader sees of its own writer's output (known finding KF-C11-01)
	}
	for i := 0; i < n; i++ {
		m := OMsg{Type: rapid.SampledFrom(ohTypes).Draw(t, "type")}
		k := rapid.IntRange(0, 19).Draw(t, "kind")
		switch {
		case k == 0 && shape != "fit" || k == 0 && c.Version == 2 && budget >= 60:
			m.Type = 12
			m.Data = Blob{Seed: rapid.IntRange(0, 1<<16).Draw(t, "attrSeed")}
		case k == 1 && c.Version == 2:
			m.Type = 22
			m.Data = Blob{N: 4, Seed: rapid.IntRange(0, 1<<16).Draw(t, "refSeed")}
		default:
			var l int
			if shape == "fit" {
				hi := budget - 4
				if c.Version == 1 {
					hi = budget - 8
				}
				if hi < 0 {
					hi = 0
				}
				if hi > 200 {
					hi = 200
				}
				l = rapid.IntRange(0, hi).Draw(t, "len")
			} else {
				l = rapid.OneOf(rapid.IntRange(0, 200), rapid.IntRange(0, 24), rapid.SampledFrom([]int{0, 1, 7, 8, 9, 16, 200})).Draw(t, "len")
			}
			m.Data = Blob{N: l, Seed: rapid.IntRange(0, 1<<20).Draw(t, "seed")}
		}
		pl := len(m.payload())
		if c.Version == 1 {
			budget -= (8 + pl + 7) / 8 * 8
		} else {
			budget -= 4 + pl
		}
		c.Msgs = append(c.Msgs, m)
	}
	if c.Version == 1 {
		c.RefCount = rapid.OneOf(rapid.Uint32Range(0, 4), rapid.Uint32()).Draw(t, "refcount")
		c.Mode = "writeto"
	} else {
		c.Trail = rapid.SampledFrom([]byte{0, 0, 0xFF, 0x01, 0x0C, 0x5A}).Draw(t, "trail")
		c.Mode = rapid.SampledFrom([]string{"writeto", "writeto", "writeobj", "rewrite"}).Draw(t, "mode")
		if c.Mode == "rewrite" {
			c.Split = rapid.IntRange(0, n).Draw(t, "split")
		}
	}
	return c
}

func (c OHCase) v1TrueSize() int {
	s := 0
	for _, m := range c.Msgs {
		s += (8 + len(m.payload()) + 7) / 8 * 8
	}
	return s
}

func (c OHCase) v2Chunk(msgs []OMsg) int {
	s := 0
	for _, m := range msgs {
		s += 4 + len(m.payload())
	}
	return s
}

func classifyOH(c OHCase) (bool, []string) {
	labels := []string{fmt.Sprintf("v%d", c.Version), "mode=" + c.Mode}
	nonEmpty, hasAttr, hasEmpty := 0, false, false
	for _, m := range c.Msgs {
		if len(m.payload()) > 0 {
			nonEmpty++
		} else {
			hasEmpty = true
		}
		if m.Type == 12 {
			hasAttr = true
		}
	}
	switch {
	case len(c.Msgs) == 0:
		labels = append(labels, "msgs=0")
	case len(c.Msgs) == 1:
		labels = append(labels, "msgs=1")
	case len(c.Msgs) <= 4:
		labels = append(labels, "msgs=2-4")
	default:
		labels = append(labels, "msgs=5-12")
	}
	if hasAttr {
		labels = append(labels, "has_attribute_msg")
	}
	if hasEmpty {
		labels = append(labels, "has_empty_msg")
	}
	if c.Version == 1 {
		if c.v1TrueSize() > 16+8*len(c.Msgs) {
			labels = append(labels, "v1_beyond_size_field")
		} else {
			labels = append(labels, "v1_within_size_field")
		}
	} else if c.v2Chunk(c.Msgs) > 255 {
		labels = append(labels, "v2_over_255")
	}
	return nonEmpty >= 2, labels
}

type wantMsg struct {
	typ  core.MessageType
	data []byte
}

func expectMsgs(ms []OMsg) (out []wantMsg, attrs []string, refc uint32) {
	refc = 1
	seenRef := false
	for _, m := range ms {
		p := m.payload()
		if len(p) == 0 {
			continue // documented: zero-size messages are skipped by the reader
		}
		out = append(out, wantMsg{core.MessageType(m.Type), p})
		if m.Type == 12 {
			attrs = append(attrs, attrNameFor(m.Data.Seed))
		}
		if m.Type == 22 && !seenRef && len(p) >= 4 {
			refc = binary.LittleEndian.Uint32(p)
			seenRef = true
		}
	}
	return
}

// cmpMsgs returns "" when got equals want, else a description; prefix reports whether got is a strict prefix.
func cmpMsgs(got []*core.HeaderMessage, want []wantMsg) (diff string, strictPrefix bool) {
	n := len(got)
	if len(want) < n {
		n = len(want)
	}
	for i := 0; i < n; i++ {
		if got[i].Type != want[i].typ || !bytes.Equal(got[i].Data, want[i].data) {
			return fmt.Sprintf("message %d: wrote type %d %s, read type %d %s", i, want[i].typ, short(want[i].data), got[i].Type, short(got[i].Data)), false
		}
	}
	if len(got) != len(want) {
		return fmt.Sprintf("wrote %d non-empty messages, read %d", len(want), len(got)), len(got) < len(want)
	}
	return "", false
}

func writers(ms []OMsg) []core.MessageWriter {
	out := make([]core.MessageWriter, len(ms))
	for i, m := range ms {
		out[i] = core.MessageWriter{Type: core.MessageType(m.Type), Data: m.payload()}
	}
	return out
}

func newImage(size uint64, fill byte) *memf.File {
	f := memf.New(size)
	f.Data = bytes.Repeat([]byte{fill}, int(size))
	return f
}

func runOH(c OHCase) vt.Verdict {
	if c.Version != 1 && c.Version != 2 || c.Addr > 1<<24 || len(c.Msgs) > 64 {
		return vt.Skipped("outside the generated domain")
	}
	for _, m := range c.Msgs {
		if m.Type == 15 || m.Type == 16 || m.Data.N > 4096 {
			return vt.Skipped("message type outside the generated domain")
		}
	}
	if c.Version == 1 {
		return runOHv1(c)
	}
	return runOHv2(c)
}

func runOHv1(c OHCase) vt.Verdict {
	var r result
	ohw := &core.ObjectHeaderWriter{Version: 1, RefCount: c.RefCount, Messages: writers(c.Msgs)}
	total := uint64(16 + c.v1TrueSize())
	if ohw.Size() != total {
		return vt.Bad("v1 Size() = %d, documented 16 + aligned messages = %d", ohw.Size(), total)
	}
	f := newImage(c.Addr+total+64, 0)
	n, err := ohw.WriteTo(f, c.Addr)
	if err != nil {
		return vt.Bad("v1 WriteTo refused %d messages: %v", len(c.Msgs), err)
	}
	if n != total {
		r.fail("v1 WriteTo returned size %d, Size() %d", n, total)
	}
	f2 := newImage(c.Addr+total+64, 0)
	if _, err := ohw.WriteTo(f2, c.Addr); err != nil || !bytes.Equal(f.Data, f2.Data) {
		return vt.Bad("v1 header encoding is not deterministic (err=%v)", err)
	}
	oh, err := core.ReadObjectHeader(f, c.Addr, ohSB)
	if err != nil {
		return vt.Bad("ReadObjectHeader of a freshly written v1 header (%d messages): %v", len(c.Msgs), err)
	}
	if oh.Version != 1 {
		r.fail("v1 header read back as version %d", oh.Version)
	}
	if oh.ReferenceCount != c.RefCount {
		r.fail("v1 reference count wrote %d read %d", c.RefCount, oh.ReferenceCount)
	}
	want, attrs, _ := expectMsgs(c.Msgs)
	diff, prefix := cmpMsgs(oh.Messages, want)
	if diff != "" {
		// Known: the size field is written as 16+8*n (prefix + message headers, no message data) while the reader
		// takes it as the number of bytes following the prefix. Exact model of what the reader can then see:
		region := 16 + 8*len(c.Msgs)
		visible, pos := 0, 0
		for _, m := range c.Msgs {
			l := len(m.payload())
			if pos+8 > region {
				break
			}
			if l == 0 {
				pos += 8
				continue
			}
			if pos+8+l > region {
				break
			}
			visible++
			pos += (8 + l + 7) / 8 * 8
		}
		if prefix && c.v1TrueSize() > region && len(oh.Messages) == visible {
			r.knownOr(kfV1Size, "object header v1 with %d messages (%d bytes of messages, size field %d): %s", len(c.Msgs), c.v1TrueSize(), region, diff)
		} else {
			r.fail("object header v1: %s (messages occupy %d bytes, size field %d, model of the known truncation predicts %d visible)", diff, c.v1TrueSize(), region, visible)
		}
	} else {
		if d := cmpAttrs(oh.Attributes, attrs); d != "" {
			r.fail("object header v1: %s", d)
		}
	}
	return r.verdict()
}

func cmpAttrs(got []*core.Attribute, want []string) string {
	if len(got) != len(want) {
		return fmt.Sprintf("header carries %d attribute messages, ObjectHeader.Attributes has %d", len(want), len(got))
	}
	for i := range want {
		if got[i].Name != want[i] {
			return fmt.Sprintf("attribute %d named %q, written %q", i, got[i].Name, want[i])
		}
	}
	return ""
}

func runOHv2(c OHCase) vt.Verdict {
	var r result
	all := c.v2Chunk(c.Msgs)
	img := func() *memf.File { return newImage(c.Addr+7+uint64(all)+64, c.Trail) }
	f := img()
	written := c.Msgs // messages expected in the file at the end
	switch c.Mode {
	case "writeto", "writeobj":
		f2 := img()
		var err, err2 error
		if c.Mode == "writeto" {
			ohw := &core.ObjectHeaderWriter{Version: 2, Messages: writers(c.Msgs)}
			if ohw.Size() != uint64(7+all) {
				return vt.Bad("v2 Size() = %d, documented 7 + sum(4+len) = %d", ohw.Size(), 7+all)
			}
			var n uint64
			n, err = ohw.WriteTo(f, c.Addr)
			_, err2 = ohw.WriteTo(f2, c.Addr)
			if err == nil && n != uint64(7+all) {
				r.fail("v2 WriteTo returned %d, Size() %d", n, 7+all)
			}
		} else {
			oh := &core.ObjectHeader{Version: 2}
			for _, w := range writers(c.Msgs) {
				oh.Messages = append(oh.Messages, &core.HeaderMessage{Type: w.Type, Data: w.Data})
			}
			err = core.WriteObjectHeader(f, c.Addr, oh, ohSB)
			err2 = core.WriteObjectHeader(f2, c.Addr, oh, ohSB)
		}
		if all > 255 {
			// documented capacity of the 1-byte chunk size
			if err == nil {
				return vt.Bad("v2 %s accepted a %d-byte chunk although the 1-byte chunk size holds at most 255", c.Mode, all)
			}
			if !bytes.Equal(f.Data, img().Data) {
				return vt.Bad("v2 %s refused the header but changed the file", c.Mode)
			}
			return vt.Pass()
		}
		if err != nil || err2 != nil {
			return vt.Bad("v2 %s refused a header of %d messages / %d chunk bytes: %v", c.Mode, len(c.Msgs), all, err)
		}
		if !bytes.Equal(f.Data, f2.Data) {
			return vt.Bad("v2 header encoding is not deterministic")
		}
	case "rewrite":
		if c.Split < 0 || c.Split > len(c.Msgs) {
			return vt.Skipped("split out of range")
		}
		first, rest := c.Msgs[:c.Split], c.Msgs[c.Split:]
		if c.v2Chunk(first) > 255 {
			return vt.Pass() // initial header beyond capacity: covered by the writeto mode
		}
		if _, err := (&core.ObjectHeaderWriter{Version: 2, Messages: writers(first)}).WriteTo(f, c.Addr); err != nil {
			return vt.Bad("v2 WriteTo refused the initial header: %v", err)
		}
		before := append([]byte{}, f.Data...)
		var add []*core.HeaderMessage
		for _, w := range writers(rest) {
			add = append(add, &core.HeaderMessage{Type: w.Type, Data: w.Data})
		}
		// documented capacity rule of AddMessageToObjectHeader: messages present (as read back) + new <= 255
		cur, overflow := 0, false
		for _, m := range first {
			if l := len(m.payload()); l > 0 {
				cur += 4 + l
			}
		}
		for _, m := range rest {
			if cur+4+len(m.payload()) > 255 {
				overflow = true
				break
			}
			cur += 4 + len(m.payload())
		}
		err := core.RewriteObjectHeaderV2(f, f, c.Addr, ohSB, add)
		if overflow {
			if err == nil {
				return vt.Bad("RewriteObjectHeaderV2 accepted messages beyond the documented 255-byte capacity")
			}
			if !bytes.Equal(before, f.Data) {
				return vt.Bad("RewriteObjectHeaderV2 failed (%v) but changed the file", err)
			}
			written = first
		} else if err != nil {
			return vt.Bad("RewriteObjectHeaderV2 refused %d more messages (%d bytes in use of 255): %v", len(rest), cur, err)
		}
	default:
		return vt.Skipped("unknown mode")
	}
	oh, err := core.ReadObjectHeader(f, c.Addr, ohSB)
	if err != nil {
		return vt.Bad("ReadObjectHeader of a freshly written v2 header (%s, %d messages): %v", c.Mode, len(written), err)
	}
	if oh.Version != 2 || oh.Flags != 0 {
		r.fail("v2 header read back as version %d flags %#x", oh.Version, oh.Flags)
	}
	want, attrs, refc := expectMsgs(written)
	if diff, _ := cmpMsgs(oh.Messages, want); diff != "" {
		r.fail("object header v2 (%s): %s", c.Mode, diff)
	} else {
		if oh.ReferenceCount != refc {
			r.fail("object header v2: reference count %d, expected %d", oh.ReferenceCount, refc)
		}
		if d := cmpAttrs(oh.Attributes, attrs); d != "" {
			r.fail("object header v2: %s", d)
		}
		// encode(decode(encode(v))): writing the decoded header again reproduces the non-empty messages
		f3 := img()
		if err := core.WriteObjectHeader(f3, c.Addr, oh, ohSB); err != nil {
			r.fail("re-encoding the decoded v2 header failed: %v", err)
		} else if oh2, err := core.ReadObjectHeader(f3, c.Addr, ohSB); err != nil {
			r.fail("reading the re-encoded v2 header failed: %v", err)
		} else if diff, _ := cmpMsgs(oh2.Messages, want); diff != "" {
			r.fail("re-encoded v2 header differs: %s", diff)
		}
	}
	return r.verdict()
}
