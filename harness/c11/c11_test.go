// Package c11 decides property C11: every metadata encoder is inverted by its decoder.
// One rapid generator of well-formed values per encoder/decoder pair; oracles: decode(encode(v)) == v on the
// fields the encoder documents it consumes, encode(v) is deterministic, encode(decode(encode(v))) == encode(v).
// See DESIGN.md section 5, C11.
package c11

import (
	"bytes"
	"encoding/binary"
	"fmt"
	"testing"

	"github.com/scigolib/hdf5/internal/core"
	"github.com/scigolib/hdf5/verif/vt"
	"pgregory.net/rapid"
)

const prop = "C11"

// Open known findings of this property (entries in known_findings.json).
const (
	kfV1Size   = "KF-C11-01" // object header v1: size field excludes message data, reader stops early
	kfSB0Base  = "KF-C11-02" // superblock v0: reader hard-codes base address 0
	kfSoftLink = "KF-C11-03" // soft link: encoder wants length-prefixed LinkValue, decoder returns the bare path
	kfPipeline = "KF-C11-04" // filter pipeline message: version byte 2 over a version-1 style layout
	kfVLenBits = "KF-C11-05" // vlen datatype: class bit field written into the property area, header bits left 0
	kfMemberSz = "KF-C11-06" // compound member with variable-length properties that is not last swallows the rest
)

const undef = ^uint64(0)

// ---- deterministic byte strings described by (length, seed, kind): keeps cases small and replayable ----------

type Blob struct {
	N    int    `json:"n"`
	Seed int    `json:"seed"`
	Kind string `json:"kind,omitempty"` // "" printable ASCII | "utf8" | "bin" any byte | "nz" any non-zero byte
}

var utf8Runes = []string{"é", "ü", "名", "前", "ж", "λ", "€", "a", "Z", "_", "0", " "}

func (b Blob) Bytes() []byte {
	if b.N <= 0 {
		return []byte{}
	}
	out := make([]byte, 0, b.N)
	x := uint32(b.Seed)*2654435761 + 12345
	next := func() uint32 { x = x*1664525 + 1013904223; return x >> 16 }
	switch b.Kind {
	case "bin":
		for len(out) < b.N {
			out = append(out, byte(next()))
		}
	case "nz":
		for len(out) < b.N {
			out = append(out, byte(next()%255)+1)
		}
	case "utf8":
		for len(out) < b.N {
			r := utf8Runes[int(next())%len(utf8Runes)]
			if len(out)+len(r) > b.N {
				r = "x"
			}
			out = append(out, r...)
		}
	default:
		const alpha = "abcdefghijklmnopqrstuvwxyzABCDEFGHIJKLMNOPQRSTUVWXYZ0123456789_-. /"
		for len(out) < b.N {
			out = append(out, alpha[int(next())%len(alpha)])
		}
	}
	return out
}

func (b Blob) String() string { return string(b.Bytes()) }

func genBlob(t *rapid.T, label string, lens *rapid.Generator[int], kinds ...string) Blob {
	b := Blob{N: lens.Draw(t, label+"_len"), Seed: rapid.IntRange(0, 1<<20).Draw(t, label+"_seed")}
	if len(kinds) > 0 {
		b.Kind = rapid.SampledFrom(kinds).Draw(t, label+"_kind")
	}
	return b
}

// ---- superblock parameter of the message codecs -----------------------------------------------------------------

// SB is the part of a superblock the message encoders/decoders consume: offset size, length size, version.
// Byte order is always little-endian: it is the only order the library writes (Superblock.WriteTo) and the only
// one HDF5 metadata uses.
type SB struct {
	Off uint8 `json:"off"`
	Len uint8 `json:"len"`
	Ver uint8 `json:"ver"`
}

func (s SB) sb() *core.Superblock {
	return &core.Superblock{Version: s.Ver, OffsetSize: s.Off, LengthSize: s.Len, Endianness: binary.LittleEndian}
}

func genSB(t *rapid.T) SB {
	return SB{
		Off: rapid.SampledFrom([]uint8{8, 8, 8, 8, 8, 4, 4, 2, 1}).Draw(t, "offsetSize"),
		Len: rapid.SampledFrom([]uint8{8, 8, 8, 8, 8, 4, 4, 2, 1}).Draw(t, "lengthSize"),
		Ver: rapid.SampledFrom([]uint8{2, 2, 0, 3}).Draw(t, "sbVersion"),
	}
}

func fit(v uint64, size uint8) uint64 {
	if size >= 8 {
		return v
	}
	return v & (uint64(1)<<(8*uint(size)) - 1)
}

// genAddr draws an address/length that fits in size bytes (all-ones = undefined address included).
func genAddr(t *rapid.T, label string, size uint8) uint64 {
	v := rapid.OneOf(
		rapid.Uint64(),
		rapid.Uint64Range(0, 4096),
		rapid.SampledFrom([]uint64{0, 1, 48, 96, 0xFF, 0x100, 0xFFFF, 0x10000, 1 << 32, 1<<32 - 1, undef, undef - 1, 0x0102030405060708}),
	).Draw(t, label)
	return fit(v, size)
}

func le(v uint64, size int) []byte {
	b := make([]byte, 8)
	binary.LittleEndian.PutUint64(b, v)
	return b[:size]
}

func rdLE(b []byte) uint64 {
	var t [8]byte
	copy(t[:], b)
	return binary.LittleEndian.Uint64(t[:])
}

func eqU64s(a, b []uint64) bool {
	if len(a) != len(b) {
		return false
	}
	for i := range a {
		if a[i] != b[i] {
			return false
		}
	}
	return true
}

func firstDiff(a, b []byte) int {
	n := len(a)
	if len(b) < n {
		n = len(b)
	}
	for i := 0; i < n; i++ {
		if a[i] != b[i] {
			return i
		}
	}
	return n
}

func sameBytes(what string, a, b []byte) string {
	if bytes.Equal(a, b) {
		return ""
	}
	return fmt.Sprintf("%s: %d vs %d bytes, first difference at %d", what, len(a), len(b), firstDiff(a, b))
}

func short(b []byte) string {
	if len(b) > 24 {
		return fmt.Sprintf("%x…(%d bytes)", b[:24], len(b))
	}
	return fmt.Sprintf("%x", b)
}

func nz(vals ...bool) int {
	n := 0
	for _, v := range vals {
		if v {
			n++
		}
	}
	return n
}

func rankBucket(r int) string {
	switch {
	case r <= 1:
		return fmt.Sprintf("rank=%d", r)
	case r <= 4:
		return "rank=2-4"
	case r <= 16:
		return "rank=5-16"
	case r <= 31:
		return "rank=17-31"
	case r == 32:
		return "rank=32"
	}
	return "rank>32"
}

func lenBucket(n int) string {
	switch {
	case n == 0:
		return "0"
	case n == 1:
		return "1"
	case n < 255:
		return "2-254"
	case n == 255:
		return "255"
	case n == 256:
		return "256"
	case n < 65534:
		return "257-65533"
	}
	return fmt.Sprintf("%d", n)
}

// nameLens is the name-length distribution shared by the name-carrying messages; max is the largest length the
// element can hold.
func nameLens(min, max int) *rapid.Generator[int] {
	edge := []int{}
	for _, v := range []int{0, 1, 2, 7, 8, 9, 15, 16, 17, 254, 255, 256, 257, 65533, 65534, 65535, 65536, 65537, 65543, 70000, 131072} {
		if v >= min && v <= max {
			edge = append(edge, v)
		}
	}
	hi := 300
	if hi > max {
		hi = max
	}
	return rapid.OneOf(rapid.IntRange(min, 24), rapid.IntRange(min, 24), rapid.IntRange(min, hi), rapid.SampledFrom(edge), rapid.IntRange(min, max))
}

// result collects the outcome of the assertions of one case: the first violation wins, otherwise the first
// known finding, otherwise a pass.
type result struct {
	bad   *vt.Verdict
	known *vt.Verdict
}

func (r *result) fail(format string, a ...any) {
	if r.bad == nil {
		v := vt.Bad(format, a...)
		r.bad = &v
	}
}

func (r *result) knownOr(id, format string, a ...any) {
	v := vt.KnownOr(id, format, a...)
	if v.Kind == vt.Violation {
		if r.bad == nil {
			r.bad = &v
		}
		return
	}
	if r.known == nil {
		r.known = &v
	}
}

func (r *result) verdict() vt.Verdict {
	if r.bad != nil {
		return *r.bad
	}
	if r.known != nil {
		return *r.known
	}
	return vt.Pass()
}

func TestProp(t *testing.T) {
	vt.Run(t, prop,
		vt.Sub[SBCase]{Prop: prop, Name: "superblock", Gen: genSBCase, Run: runSB, Classify: classifySB}.WithBudget(1200, 7000),
		vt.Sub[OHCase]{Prop: prop, Name: "objheader", Gen: genOH, Run: runOH, Classify: classifyOH}.WithBudget(3600, 22000),
		vt.Sub[DTCase]{Prop: prop, Name: "datatype", Gen: genDT, Run: runDT, Classify: classifyDT}.WithBudget(5200, 32000),
		vt.Sub[DSCase]{Prop: prop, Name: "dataspace", Gen: genDS, Run: runDS, Classify: classifyDS}.WithBudget(1600, 10000),
		vt.Sub[LayoutCase]{Prop: prop, Name: "layout", Gen: genLayout, Run: runLayout, Classify: classifyLayout}.WithBudget(1200, 8000),
		vt.Sub[PipeCase]{Prop: prop, Name: "pipeline", Gen: genPipe, Run: runPipe, Classify: classifyPipe}.WithBudget(1000, 6000),
		vt.Sub[AttrCase]{Prop: prop, Name: "attribute", Gen: genAttr, Run: runAttr, Classify: classifyAttr}.WithBudget(2400, 15000),
		vt.Sub[AInfoCase]{Prop: prop, Name: "attrinfo", Gen: genAInfo, Run: runAInfo, Classify: classifyAInfo}.WithBudget(800, 5000),
		vt.Sub[LinkCase]{Prop: prop, Name: "link", Gen: genLink, Run: runLink, Classify: classifyLink}.WithBudget(2000, 13000),
		vt.Sub[LInfoCase]{Prop: prop, Name: "linkinfo", Gen: genLInfo, Run: runLInfo, Classify: classifyLInfo}.WithBudget(800, 5000),
		vt.Sub[StabCase]{Prop: prop, Name: "symtab", Gen: genStab, Run: runStab, Classify: classifyStab}.WithBudget(400, 2500),
		vt.Sub[RegCase]{Prop: prop, Name: "registry", Gen: genReg, Run: runReg, Classify: classifyReg}.WithBudget(400, 600),
	)
}
