package c11

import (
	"bytes"
	"fmt"
	"os"
	"path/filepath"

	hdf5 "github.com/scigolib/hdf5"
	"github.com/scigolib/hdf5/internal/core"
	"github.com/scigolib/hdf5/verif/vt"
	"pgregory.net/rapid"
)

// =================================================================================================
// "registry": the datatype handlers of dataset_write.go (one per exported Datatype constant) are reachable only
// through CreateDataset. A file with one dataset is written through the public API, reopened, the dataset's
// object header is read with core.ReadObjectHeader and its datatype / dataspace / layout messages must be the
// bytes the core encoders produce for the equivalent value and decode back to it. With superblock version 0 the
// root group's symbol-table message is checked against the readers' in-place decoding instead (addresses equal
// the superblock's cached ones and point at a "TREE" node and a "HEAP").

type RegCase struct {
	SBVer   uint8    `json:"sbver"` // 2: datatype registry; 0: root symbol table
	Dtype   int      `json:"dtype"`
	Dims    []uint64 `json:"dims"`
	Chunk   []uint64 `json:"chunk,omitempty"`
	StrSize uint32   `json:"strsize,omitempty"`
	ArrDims []uint64 `json:"arrdims,omitempty"`
	Names   []Blob   `json:"names,omitempty"`
	Vals    *Blob    `json:"vals,omitempty"`
	Tag     *Blob    `json:"tag,omitempty"`
	OpSize  uint32   `json:"opsize,omitempty"`
	NGroups int      `json:"ngroups,omitempty"`
}

var regTypes = []hdf5.Datatype{hdf5.Int8, hdf5.Int16, hdf5.Int32, hdf5.Int64, hdf5.Uint8, hdf5.Uint16, hdf5.Uint32, hdf5.Uint64, hdf5.Float32, hdf5.Float64,
	hdf5.String, hdf5.ArrayInt8, hdf5.ArrayInt16, hdf5.ArrayInt32, hdf5.ArrayInt64, hdf5.ArrayUint8, hdf5.ArrayUint16, hdf5.ArrayUint32, hdf5.ArrayUint64,
	hdf5.ArrayFloat32, hdf5.ArrayFloat64, hdf5.EnumInt8, hdf5.EnumInt16, hdf5.EnumInt32, hdf5.EnumInt64, hdf5.EnumUint8, hdf5.EnumUint16, hdf5.EnumUint32,
	hdf5.EnumUint64, hdf5.ObjectReference, hdf5.RegionReference, hdf5.Opaque, hdf5.VLenString, hdf5.VLenInt32, hdf5.VLenInt64, hdf5.VLenFloat32,
	hdf5.VLenFloat64, hdf5.VLenUint32, hdf5.VLenUint64}

func numeric(d hdf5.Datatype) (T, bool) {
	switch d {
	case hdf5.Int8, hdf5.Int16, hdf5.Int32, hdf5.Int64:
		return T{K: "fixed", Size: 1 << uint(d-hdf5.Int8), Bits: 0x08}, true
	case hdf5.Uint8, hdf5.Uint16, hdf5.Uint32, hdf5.Uint64:
		return T{K: "fixed", Size: 1 << uint(d-hdf5.Uint8)}, true
	case hdf5.Float32:
		return T{K: "float", Size: 4}, true
	case hdf5.Float64:
		return T{K: "float", Size: 8}, true
	}
	return T{}, false
}

var arrayBase = map[hdf5.Datatype]hdf5.Datatype{hdf5.ArrayInt8: hdf5.Int8, hdf5.ArrayInt16: hdf5.Int16, hdf5.ArrayInt32: hdf5.Int32, hdf5.ArrayInt64: hdf5.Int64,
	hdf5.ArrayUint8: hdf5.Uint8, hdf5.ArrayUint16: hdf5.Uint16, hdf5.ArrayUint32: hdf5.Uint32, hdf5.ArrayUint64: hdf5.Uint64, hdf5.ArrayFloat32: hdf5.Float32, hdf5.ArrayFloat64: hdf5.Float64}
var enumBase = map[hdf5.Datatype]hdf5.Datatype{hdf5.EnumInt8: hdf5.Int8, hdf5.EnumInt16: hdf5.Int16, hdf5.EnumInt32: hdf5.Int32, hdf5.EnumInt64: hdf5.Int64,
	hdf5.EnumUint8: hdf5.Uint8, hdf5.EnumUint16: hdf5.Uint16, hdf5.EnumUint32: hdf5.Uint32, hdf5.EnumUint64: hdf5.Uint64}
var vlenBase = map[hdf5.Datatype]hdf5.Datatype{hdf5.VLenInt32: hdf5.Int32, hdf5.VLenInt64: hdf5.Int64, hdf5.VLenFloat32: hdf5.Float32, hdf5.VLenFloat64: hdf5.Float64,
	hdf5.VLenUint32: hdf5.Uint32, hdf5.VLenUint64: hdf5.Uint64}

// equivalent returns the datatype value the documented handler of the constant stands for, and the options.
func (c RegCase) equivalent() (T, []hdf5.DatasetOption, bool) {
	d := hdf5.Datatype(c.Dtype)
	if t, ok := numeric(d); ok {
		return t, nil, true
	}
	if b, ok := arrayBase[d]; ok {
		bt, _ := numeric(b)
		size := uint64(bt.Size)
		for _, x := range c.ArrDims {
			size *= x
		}
		if len(c.ArrDims) == 0 || size > 1<<20 {
			return T{}, nil, false
		}
		return T{K: "array", Size: uint32(size), Dims: c.ArrDims, Base: &bt}, []hdf5.DatasetOption{hdf5.WithArrayDims(c.ArrDims)}, true
	}
	if b, ok := enumBase[d]; ok {
		bt, _ := numeric(b)
		if len(c.Names) == 0 || c.Vals == nil || c.Vals.N != len(c.Names)*int(bt.Size) {
			return T{}, nil, false
		}
		v := *c.Vals
		v.Kind = "bin"
		raw := v.Bytes()
		names := make([]string, len(c.Names))
		vals := make([]int64, len(c.Names))
		for i, n := range c.Names {
			names[i] = n.String()
			vals[i] = int64(rdLE(raw[i*int(bt.Size) : (i+1)*int(bt.Size)]))
		}
		return T{K: "enum", Size: bt.Size, Base: &bt, Names: c.Names, Vals: c.Vals}, []hdf5.DatasetOption{hdf5.WithEnumValues(names, vals)}, true
	}
	if b, ok := vlenBase[d]; ok {
		bt, _ := numeric(b)
		return T{K: "vlen", Size: 16, Bits: 0, Base: &bt}, nil, true
	}
	switch d {
	case hdf5.String:
		if c.StrSize == 0 {
			return T{}, nil, false
		}
		return T{K: "string", Size: c.StrSize}, []hdf5.DatasetOption{hdf5.WithStringSize(c.StrSize)}, true
	case hdf5.ObjectReference:
		return T{K: "ref", Size: 8, Bits: 0}, nil, true
	case hdf5.RegionReference:
		return T{K: "ref", Size: 12, Bits: 1}, nil, true
	case hdf5.Opaque:
		if c.Tag == nil || c.Tag.N == 0 || c.OpSize == 0 {
			return T{}, nil, false
		}
		return T{K: "opaque", Size: c.OpSize, Tag: c.Tag}, []hdf5.DatasetOption{hdf5.WithOpaqueTag(c.Tag.String(), c.OpSize)}, true
	case hdf5.VLenString:
		return T{K: "vlen", Size: 16, Bits: 1, Base: &T{K: "string", Size: 1}}, nil, true
	}
	return T{}, nil, false
}

func isIn(m map[hdf5.Datatype]hdf5.Datatype, d hdf5.Datatype) bool { _, ok := m[d]; return ok }

func genReg(t *rapid.T) RegCase {
	if rapid.IntRange(0, 7).Draw(t, "v0") == 0 {
		return RegCase{SBVer: 0, NGroups: rapid.IntRange(0, 3).Draw(t, "ngroups")}
	}
	c := RegCase{SBVer: 2, Dtype: int(rapid.SampledFrom(regTypes).Draw(t, "dtype"))}
	rank := rapid.IntRange(1, 3).Draw(t, "rank")
	for i := 0; i < rank; i++ {
		c.Dims = append(c.Dims, rapid.Uint64Range(1, 6).Draw(t, "dim"))
	}
	if rapid.IntRange(0, 2).Draw(t, "chunked") == 0 {
		for i := 0; i < rank; i++ {
			c.Chunk = append(c.Chunk, rapid.Uint64Range(1, c.Dims[i]).Draw(t, "chunk"))
		}
	}
	d := hdf5.Datatype(c.Dtype)
	switch {
	case d == hdf5.String:
		c.StrSize = rapid.SampledFrom([]uint32{1, 7, 8, 16, 255, 256, 1000}).Draw(t, "strsize")
	case isIn(arrayBase, d):
		n := rapid.IntRange(1, 4).Draw(t, "arank")
		for i := 0; i < n; i++ {
			c.ArrDims = append(c.ArrDims, rapid.Uint64Range(1, 5).Draw(t, "adim"))
		}
	case isIn(enumBase, d):
		bt, _ := numeric(enumBase[d])
		n := rapid.IntRange(1, 4).Draw(t, "nenum")
		for i := 0; i < n; i++ {
			c.Names = append(c.Names, genBlob(t, "ename", rapid.IntRange(1, 12)))
		}
		c.Vals = &Blob{N: n * int(bt.Size), Seed: rapid.IntRange(0, 1<<20).Draw(t, "vals"), Kind: "bin"}
	case d == hdf5.Opaque:
		tag := genBlob(t, "tag", rapid.IntRange(1, 40))
		c.Tag = &tag
		c.OpSize = rapid.Uint32Range(1, 64).Draw(t, "opsize")
	}
	return c
}

func classifyReg(c RegCase) (bool, []string) {
	if c.SBVer == 0 {
		return c.NGroups >= 1, []string{"v0_root_symbol_table"}
	}
	t, _, ok := c.equivalent()
	labels := []string{"class=" + t.K}
	if !ok {
		labels = []string{"invalid"}
	}
	if len(c.Chunk) > 0 {
		labels = append(labels, "layout=chunked")
	} else {
		labels = append(labels, "layout=contiguous")
	}
	return len(c.Dims) >= 2 || len(c.Chunk) > 0 || t.Bits != 0, labels
}

func findMsg(oh *core.ObjectHeader, typ core.MessageType) []byte {
	for _, m := range oh.Messages {
		if m.Type == typ {
			return m.Data
		}
	}
	return nil
}

func runReg(c RegCase) vt.Verdict {
	p := filepath.Join(vt.GetEnv().Scratch, fmt.Sprintf("c11-%d.h5", os.Getpid()))
	defer os.Remove(p)
	if c.SBVer == 0 {
		return runRegV0(c, p)
	}
	if c.SBVer != 2 || len(c.Dims) == 0 || len(c.Dims) > 4 {
		return vt.Skipped("outside the generated domain")
	}
	t, opts, ok := c.equivalent()
	if !ok {
		return vt.Skipped("options do not describe a well-formed datatype")
	}
	if len(c.Chunk) > 0 {
		if len(c.Chunk) != len(c.Dims) {
			return vt.Skipped("chunk rank mismatch")
		}
		for i := range c.Chunk {
			if c.Chunk[i] == 0 || c.Chunk[i] > c.Dims[i] {
				return vt.Skipped("chunk dims outside the documented domain")
			}
		}
		opts = append(opts, hdf5.WithChunkDims(c.Chunk))
	}
	fw, err := hdf5.CreateForWrite(p, hdf5.CreateTruncate)
	if err != nil {
		return vt.Bad("CreateForWrite: %v", err)
	}
	if _, err := fw.CreateDataset("/d", hdf5.Datatype(c.Dtype), c.Dims, opts...); err != nil {
		_ = fw.Close()
		return vt.Bad("CreateDataset(datatype constant %d, %s) refused documented options: %v", c.Dtype, t.K, err)
	}
	if err := fw.Close(); err != nil {
		return vt.Bad("Close: %v", err)
	}
	f, err := hdf5.Open(p)
	if err != nil {
		return vt.Bad("Open of the file just written: %v", err)
	}
	defer f.Close()
	var addr uint64
	found := false
	f.Walk(func(path string, obj hdf5.Object) {
		if d, ok := obj.(*hdf5.Dataset); ok && path == "/d" {
			addr, found = d.Address(), true
		}
	})
	if !found {
		return vt.Bad("dataset /d not found after reopen")
	}
	sb := f.Superblock()
	oh, err := core.ReadObjectHeader(f.Reader(), addr, sb)
	if err != nil {
		return vt.Bad("ReadObjectHeader(dataset header at %#x): %v", addr, err)
	}
	var r result
	b, err := build(t)
	if err != nil {
		return vt.Bad("core encoder refused the equivalent datatype: %v", err)
	}
	dtMsg := findMsg(oh, core.MsgDatatype)
	if dtMsg == nil {
		return vt.Bad("dataset header read back without a datatype message (%d messages)", len(oh.Messages))
	}
	if d := sameBytes(fmt.Sprintf("datatype message written for constant %d (%s) differs from the core encoder's bytes for the same value", c.Dtype, t.K), dtMsg, b.enc); d != "" {
		r.fail("%s", d)
	} else {
		checkTop(&r, t, b)
	}
	if sp := findMsg(oh, core.MsgDataspace); sp == nil {
		r.fail("dataset header read back without a dataspace message")
	} else if ds, err := core.ParseDataspaceMessage(sp); err != nil {
		r.fail("dataspace message of the dataset does not parse: %v", err)
	} else {
		checkDataspace(&r, "dataset dataspace", c.Dims, nil, ds)
	}
	if lm := findMsg(oh, core.MsgDataLayout); lm == nil {
		r.fail("dataset header read back without a layout message")
	} else if lay, err := core.ParseDataLayoutMessage(lm, sb); err != nil {
		r.fail("layout message of the dataset does not parse: %v", err)
	} else if len(c.Chunk) > 0 {
		if lay.Class != core.LayoutChunked || !eqU64s(lay.ChunkSize, c.Chunk) {
			r.fail("chunked dataset: layout class %d chunk dims %v, created with %v", lay.Class, lay.ChunkSize, c.Chunk)
		}
	} else {
		want := uint64(t.Size)
		for _, x := range c.Dims {
			want *= x
		}
		if lay.Class != core.LayoutContiguous || lay.DataSize != want {
			r.fail("contiguous dataset: layout class %d size %d, expected size %d", lay.Class, lay.DataSize, want)
		}
	}
	return r.verdict()
}

func runRegV0(c RegCase, p string) vt.Verdict {
	if c.NGroups < 0 || c.NGroups > 8 {
		return vt.Skipped("outside the generated domain")
	}
	fw, err := hdf5.CreateForWrite(p, hdf5.CreateTruncate, hdf5.WithSuperblockVersion(0))
	if err != nil {
		return vt.Bad("CreateForWrite(v0): %v", err)
	}
	for i := 0; i < c.NGroups; i++ {
		if _, err := fw.CreateGroup(fmt.Sprintf("/g%d", i)); err != nil {
			_ = fw.Close()
			return vt.Bad("CreateGroup in a v0 file: %v", err)
		}
	}
	if err := fw.Close(); err != nil {
		return vt.Bad("Close: %v", err)
	}
	f, err := hdf5.Open(p)
	if err != nil {
		return vt.Bad("Open of the v0 file just written: %v", err)
	}
	defer f.Close()
	sb := f.Superblock()
	if sb.Version != 0 {
		return vt.Bad("file created with superblock version 0 reopened as version %d", sb.Version)
	}
	var r result
	oh, err := core.ReadObjectHeader(f.Reader(), sb.RootGroup, sb)
	if err != nil {
		return vt.Bad("ReadObjectHeader(root group of a v0 file): %v", err)
	}
	st := findMsg(oh, core.MsgSymbolTable)
	if st == nil || len(st) < 16 {
		return vt.Bad("root group header of a v0 file has no 16-byte symbol table message (%d messages)", len(oh.Messages))
	}
	bt, hp := sb.Endianness.Uint64(st[0:8]), sb.Endianness.Uint64(st[8:16]) // the readers' in-place decoding
	if bt != sb.RootBTreeAddr || hp != sb.RootHeapAddr {
		r.fail("root symbol table message decodes to btree %#x heap %#x, superblock caches btree %#x heap %#x", bt, hp, sb.RootBTreeAddr, sb.RootHeapAddr)
	}
	sig := make([]byte, 4)
	if _, err := f.Reader().ReadAt(sig, int64(bt)); err != nil || !bytes.Equal(sig, []byte("TREE")) {
		r.fail("symbol table message B-tree address %#x does not point at a TREE node (%q, %v)", bt, sig, err)
	}
	if _, err := f.Reader().ReadAt(sig, int64(hp)); err != nil || !bytes.Equal(sig, []byte("HEAP")) {
		r.fail("symbol table message heap address %#x does not point at a HEAP (%q, %v)", hp, sig, err)
	}
	if !bytes.Equal(st, core.EncodeSymbolTableMessage(bt, hp, 8, 8)) {
		r.fail("re-encoding the decoded root symbol table message changes the bytes")
	}
	// the group reader decodes the same message: every created group must be listed
	names := map[string]bool{}
	for _, ch := range f.Root().Children() {
		names[ch.Name()] = true
	}
	for i := 0; i < c.NGroups; i++ {
		if !names[fmt.Sprintf("g%d", i)] {
			r.fail("group g%d not listed under the root of the reopened v0 file (children: %d)", i, len(names))
			break
		}
	}
	return r.verdict()
}
