package c11

import (
	"bytes"
	"encoding/binary"
	"fmt"

	"github.com/scigolib/hdf5/internal/core"
	"github.com/scigolib/hdf5/verif/vt"
	"pgregory.net/rapid"
)

// =================================================================================================
// Datatype messages:
//   EncodeDatatypeMessage (fixed, float, string, reference, opaque, vlen, pre-encoded compound),
//   CreateBasicDatatypeMessage, EncodeCompoundDatatypeV1/V3, CreateCompoundTypeFromFields,
//   EncodeArrayDatatypeMessage, EncodeEnumDatatypeMessage   <->   ParseDatatypeMessage / ParseCompoundType
//
// Consumed fields per class (from the encoders' documentation and validation code):
//   fixed/float   Class, Size (1,2,4,8 / 4,8), ClassBitField (24 bits); properties are generated: byte order =
//                 bit 0 of the bit field, precision = 8*Size, float exponent/mantissa widths
//   string        Class, Size > 0, ClassBitField; one property byte 0
//   reference     Class, Size 8|12, ClassBitField (0 object, 1 region); no properties
//   opaque        Size, tag = Properties (non-empty); ClassBitField := tag length padded to 8, tag NUL-padded
//   vlen          Class, Size, ClassBitField ("type/padding/charset"), Properties = encoded base type
//   compound      v1: member count in the bit field; per member name (NUL, padded to 8) + offset + 28 bytes of
//                 array info + inline type; v3: member count (4 bytes) + per member name NUL + offset + inline
//                 type (header from Class/Version/ClassBitField/Size, Properties copied verbatim)
//   array         v3: Size, ndims, dims (uint32 each), base type bytes
//   enum          v3: member count in the bit field, Size, base type bytes, per member name (NUL, padded to 8) + value
// Array and enum property areas have no decoder in the library; they are decoded here exactly as the encoder
// documents them.

type T struct {
	K     string   `json:"k"` // fixed float string ref opaque vlen array enum compound
	Size  uint32   `json:"size"`
	Bits  uint32   `json:"bits,omitempty"`
	Via   string   `json:"via,omitempty"` // leaf: "" | "basic" (CreateBasicDatatypeMessage); compound: v1 | v3 | fields
	Tag   *Blob    `json:"tag,omitempty"`
	Mem   []M      `json:"mem,omitempty"`
	Base  *T       `json:"base,omitempty"`
	Dims  []uint64 `json:"dims,omitempty"`
	Names []Blob   `json:"names,omitempty"`
	Vals  *Blob    `json:"vals,omitempty"`
}

type M struct {
	Name Blob   `json:"name"`
	Off  uint32 `json:"off"`
	T    T      `json:"t"`
}

type DTCase struct {
	T T `json:"t"`
}

var classOf = map[string]core.DatatypeClass{"fixed": core.DatatypeFixed, "float": core.DatatypeFloat, "string": core.DatatypeString,
	"ref": core.DatatypeReference, "opaque": core.DatatypeOpaque, "vlen": core.DatatypeVarLen, "array": core.DatatypeArray,
	"enum": core.DatatypeEnum, "compound": core.DatatypeCompound, "time": core.DatatypeTime, "bitfield": core.DatatypeBitfield}

type built struct {
	enc    []byte                // encoded datatype message
	in     *core.DatatypeMessage // value accepted by EncodeDatatypeMessage (nil for array/enum)
	member *core.DatatypeMessage // pre-populated form used as a compound member type
	kids   []built               // compound members / base type
}

// hdr splits encoded bytes into the documented header fields + property bytes (the pre-populated member form).
func hdr(enc []byte) *core.DatatypeMessage {
	w := binary.LittleEndian.Uint32(enc[0:4])
	return &core.DatatypeMessage{Class: core.DatatypeClass(w & 0x0F), Version: uint8(w >> 4 & 0x0F), ClassBitField: w >> 8,
		Size: binary.LittleEndian.Uint32(enc[4:8]), Properties: append([]byte{}, enc[8:]...)}
}

func (t T) depthOK(d int) bool {
	if d > 6 {
		return false
	}
	for _, m := range t.Mem {
		if !m.T.depthOK(d + 1) {
			return false
		}
	}
	return t.Base == nil || t.Base.depthOK(d+1)
}

func build(t T) (built, error) {
	cls, ok := classOf[t.K]
	if !ok {
		return built{}, fmt.Errorf("unknown kind %q", t.K)
	}
	switch t.K {
	case "fixed", "float", "string", "ref":
		if t.Via == "basic" {
			dm, err := core.CreateBasicDatatypeMessage(cls, t.Size)
			if err != nil {
				return built{}, fmt.Errorf("CreateBasicDatatypeMessage(%s,%d): %w", t.K, t.Size, err)
			}
			enc, err := core.EncodeDatatypeMessage(dm)
			if err != nil {
				return built{}, fmt.Errorf("EncodeDatatypeMessage(basic %s,%d): %w", t.K, t.Size, err)
			}
			return built{enc: enc, in: dm, member: dm}, nil
		}
		in := &core.DatatypeMessage{Class: cls, Version: 1, Size: t.Size, ClassBitField: t.Bits}
		enc, err := core.EncodeDatatypeMessage(in)
		if err != nil {
			return built{}, fmt.Errorf("EncodeDatatypeMessage(%s size %d bits %#x): %w", t.K, t.Size, t.Bits, err)
		}
		return built{enc: enc, in: in, member: hdr(enc)}, nil
	case "time", "bitfield":
		// classes the message encoder does not produce on their own; as compound members they are carried in the
		// pre-populated form (time: 2 property bytes = bit precision; bitfield: 4 = bit offset, precision)
		props := []byte{byte(t.Size * 8), byte(t.Size * 8 >> 8)}
		if t.K == "bitfield" {
			props = []byte{0, 0, byte(t.Size * 8), byte(t.Size * 8 >> 8)}
		}
		in := &core.DatatypeMessage{Class: cls, Version: 1, Size: t.Size, ClassBitField: t.Bits, Properties: props}
		enc := append(le(uint64(cls)|1<<4|uint64(t.Bits)<<8, 4), le(uint64(t.Size), 4)...)
		enc = append(enc, props...)
		return built{enc: enc, in: in, member: in}, nil
	case "opaque":
		if t.Tag == nil {
			return built{}, fmt.Errorf("opaque without tag")
		}
		in := &core.DatatypeMessage{Class: cls, Version: 1, Size: t.Size, ClassBitField: t.Bits, Properties: t.Tag.Bytes()}
		enc, err := core.EncodeDatatypeMessage(in)
		if err != nil {
			return built{}, fmt.Errorf("EncodeDatatypeMessage(opaque size %d tag %d bytes): %w", t.Size, t.Tag.N, err)
		}
		return built{enc: enc, in: in, member: hdr(enc)}, nil
	case "vlen", "array", "enum":
		if t.Base == nil {
			return built{}, fmt.Errorf("%s without base", t.K)
		}
		base, err := build(*t.Base)
		if err != nil {
			return built{}, err
		}
		var enc []byte
		var in *core.DatatypeMessage
		switch t.K {
		case "vlen":
			in = &core.DatatypeMessage{Class: cls, Version: 0, Size: t.Size, ClassBitField: t.Bits, Properties: base.enc}
			enc, err = core.EncodeDatatypeMessage(in)
		case "array":
			enc, err = core.EncodeArrayDatatypeMessage(base.enc, t.Dims, t.Size)
		case "enum":
			if t.Vals == nil {
				return built{}, fmt.Errorf("enum without values")
			}
			names := make([]string, len(t.Names))
			for i, n := range t.Names {
				names[i] = n.String()
			}
			v := *t.Vals
			v.Kind = "bin"
			enc, err = core.EncodeEnumDatatypeMessage(base.enc, names, v.Bytes(), t.Size)
		}
		if err != nil {
			return built{}, fmt.Errorf("encode %s: %w", t.K, err)
		}
		return built{enc: enc, in: in, member: hdr(enc), kids: []built{base}}, nil
	case "compound":
		var kids []built
		var fields []core.CompoundFieldDef
		for _, m := range t.Mem {
			k, err := build(m.T)
			if err != nil {
				return built{}, err
			}
			kids = append(kids, k)
			fields = append(fields, core.CompoundFieldDef{Name: m.Name.String(), Offset: m.Off, Type: k.member})
		}
		switch t.Via {
		case "v1":
			enc, err := core.EncodeCompoundDatatypeV1(t.Size, fields)
			if err != nil {
				return built{}, fmt.Errorf("EncodeCompoundDatatypeV1(%d members): %w", len(fields), err)
			}
			return built{enc: enc, in: hdr(enc), member: hdr(enc), kids: kids}, nil
		case "v3":
			enc, err := core.EncodeCompoundDatatypeV3(t.Size, fields)
			if err != nil {
				return built{}, fmt.Errorf("EncodeCompoundDatatypeV3(%d members): %w", len(fields), err)
			}
			return built{enc: enc, in: hdr(enc), member: hdr(enc), kids: kids}, nil
		case "fields":
			dt, err := core.CreateCompoundTypeFromFields(fields)
			if err != nil {
				return built{}, fmt.Errorf("CreateCompoundTypeFromFields(%d members): %w", len(fields), err)
			}
			enc, err := core.EncodeDatatypeMessage(dt)
			if err != nil {
				return built{}, fmt.Errorf("EncodeDatatypeMessage(compound from fields): %w", err)
			}
			return built{enc: enc, in: dt, member: dt, kids: kids}, nil
		}
		return built{}, fmt.Errorf("unknown compound encoder %q", t.Via)
	}
	return built{}, fmt.Errorf("unreachable")
}

// variable reports whether the library's inline member parser has no length rule for this type
// (ParseDatatypeMessage: "take all remaining").
func (t T) variable() bool {
	switch t.K {
	case "fixed", "float", "time", "bitfield":
		return false
	case "compound":
		return t.Via == "v1"
	}
	return true
}

// swallows reports whether a compound (whose own bytes end the enclosing message iff last) contains a member
// with variable-length properties that is followed by further bytes: the region of KF-C11-06.
func (t T) swallows(last bool) bool {
	if t.K != "compound" {
		return false
	}
	for i, m := range t.Mem {
		mlast := last && i == len(t.Mem)-1
		if m.T.variable() && !mlast {
			return true
		}
		if m.T.swallows(mlast) {
			return true
		}
	}
	return false
}

func pad8(n int) int { return (n + 7) / 8 * 8 }

func sameDM(got, want *core.DatatypeMessage) string {
	if got.Class != want.Class || got.Version != want.Version || got.Size != want.Size || got.ClassBitField != want.ClassBitField {
		return fmt.Sprintf("header class/version/size/bits = %d/%d/%d/%#x, encoded %d/%d/%d/%#x", got.Class, got.Version, got.Size, got.ClassBitField,
			want.Class, want.Version, want.Size, want.ClassBitField)
	}
	if !bytes.Equal(got.Properties, want.Properties) {
		return fmt.Sprintf("properties %s, encoded %s", short(got.Properties), short(want.Properties))
	}
	return ""
}

// checkCompound compares the member list ParseCompoundType extracts from pm with the encoded one, recursively.
func checkCompound(r *result, t T, b built, pm *core.DatatypeMessage, last bool, path string) {
	bad := func(format string, a ...any) {
		msg := fmt.Sprintf("compound %s%s (%d members): ", t.Via, path, len(t.Mem)) + fmt.Sprintf(format, a...)
		if t.swallows(last) {
			r.knownOr(kfMemberSz, "%s", msg)
		} else {
			r.fail("%s", msg)
		}
	}
	ct, err := core.ParseCompoundType(pm)
	if err != nil {
		bad("ParseCompoundType: %v", err)
		return
	}
	if ct.Size != t.Size {
		r.fail("compound%s size encoded %d parsed %d", path, t.Size, ct.Size)
	}
	if len(ct.Members) != len(t.Mem) {
		bad("parsed %d members", len(ct.Members))
		return
	}
	for i, m := range t.Mem {
		g := ct.Members[i]
		if g.Name != m.Name.String() || g.Offset != m.Off {
			r.fail("compound%s member %d encoded name %q offset %d, parsed name %q offset %d", path, i, m.Name.String(), m.Off, g.Name, g.Offset)
			return
		}
		if d := sameDM(g.Type, b.kids[i].member); d != "" {
			bad("member %d (%s): %s", i, m.T.K, d)
			return
		}
		if m.T.K == "compound" {
			checkCompound(r, m.T, b.kids[i], g.Type, last && i == len(t.Mem)-1, fmt.Sprintf("%s.%d", path, i))
		}
	}
	// member-level re-encoding
	fields := make([]core.CompoundFieldDef, len(ct.Members))
	for i, g := range ct.Members {
		fields[i] = core.CompoundFieldDef{Name: g.Name, Offset: g.Offset, Type: g.Type}
	}
	var re []byte
	if pm.Version == 1 {
		re, err = core.EncodeCompoundDatatypeV1(ct.Size, fields)
	} else {
		re, err = core.EncodeCompoundDatatypeV3(ct.Size, fields)
	}
	if err != nil {
		r.fail("compound%s: re-encoding the parsed members failed: %v", path, err)
	} else if d := sameBytes("re-encoding the parsed members changes the bytes", re, b.enc); d != "" {
		r.fail("compound%s: %s", path, d)
	}
}

// checkLeafHeader checks the header + generated properties of a non-composite type parsed from enc.
func checkLeaf(r *result, t T, b built, pm *core.DatatypeMessage, what string) {
	if pm.Class != classOf[t.K] || pm.Size != t.Size {
		r.fail("%s %s: encoded class %d size %d, parsed class %d size %d", what, t.K, classOf[t.K], t.Size, pm.Class, pm.Size)
		return
	}
	bits := t.Bits
	if t.Via == "basic" {
		bits = 0
	}
	switch t.K {
	case "fixed", "float", "string", "ref":
		if pm.Version != 1 || pm.ClassBitField != bits {
			r.fail("%s %s: encoded bit field %#x, parsed version %d bit field %#x", what, t.K, bits, pm.Version, pm.ClassBitField)
		}
		p := pm.Properties
		switch t.K {
		case "fixed":
			if len(p) != 4 || p[0] != byte(bits&1) || p[1] != byte(t.Size*8) {
				r.fail("%s fixed size %d bits %#x: properties %x, documented [byte order, precision=8*size, 0, 0]", what, t.Size, bits, p)
			}
		case "float":
			exp, man := byte(8), byte(23)
			if t.Size == 8 {
				exp, man = 11, 52
			}
			if len(p) != 12 || p[0] != byte(bits&1) || p[1] != byte(t.Size*8) || p[3] != exp || p[4] != man {
				r.fail("%s float size %d bits %#x: properties %x, documented [byte order, precision, 0, exponent bits, mantissa bits, ...]", what, t.Size, bits, p)
			}
		case "string":
			if !bytes.Equal(p, []byte{0}) {
				r.fail("%s string: properties %x, documented one byte 0", what, p)
			}
		case "ref":
			if len(p) != 0 {
				r.fail("%s reference: properties %x, documented none", what, p)
			}
		}
	case "opaque":
		tag := t.Tag.Bytes()
		want := make([]byte, pad8(len(tag)))
		copy(want, tag)
		if pm.Version != 1 || int(pm.ClassBitField) != len(want) || !bytes.Equal(pm.Properties, want) {
			r.fail("%s opaque tag %q: parsed version %d bit field %d properties %s, documented padded length %d + NUL-padded tag", what, tag, pm.Version, pm.ClassBitField, short(pm.Properties), len(want))
		}
	}
}

func checkTop(r *result, t T, b built) {
	pm, err := core.ParseDatatypeMessage(b.enc)
	if err != nil {
		r.fail("ParseDatatypeMessage(%s, %d bytes): %v", t.K, len(b.enc), err)
		return
	}
	reencode := true
	switch t.K {
	case "fixed", "float", "string", "ref", "opaque":
		checkLeaf(r, t, b, pm, "top-level")
	case "vlen":
		if pm.Class != core.DatatypeVarLen || pm.Size != t.Size {
			r.fail("vlen: encoded class 9 size %d, parsed class %d size %d", t.Size, pm.Class, pm.Size)
			return
		}
		base := b.kids[0].enc
		if pm.ClassBitField != t.Bits || !bytes.Equal(pm.Properties, base) {
			moved := append(le(uint64(t.Bits), 4), base...)
			if pm.ClassBitField == 0 && bytes.Equal(pm.Properties, moved) {
				reencode = false
				r.knownOr(kfVLenBits, "vlen datatype with class bit field %#x: parsed bit field 0 and the 4 bit-field bytes in front of the base type in Properties", t.Bits)
			} else {
				r.fail("vlen bits %#x base %x: parsed bit field %#x properties %s", t.Bits, base, pm.ClassBitField, short(pm.Properties))
			}
		}
		// the base type is recoverable from the end of the property area in either case
		if len(pm.Properties) >= len(base) {
			if bp, err := core.ParseDatatypeMessage(pm.Properties[len(pm.Properties)-len(base):]); err != nil {
				r.fail("vlen base type does not parse: %v", err)
			} else {
				checkLeaf(r, *t.Base, b.kids[0], bp, "vlen base")
			}
		}
	case "array":
		if pm.Class != core.DatatypeArray || pm.Version != 3 || pm.Size != t.Size || pm.ClassBitField != 0 {
			r.fail("array: parsed class %d version %d size %d bits %#x, encoded class 10 version 3 size %d", pm.Class, pm.Version, pm.Size, pm.ClassBitField, t.Size)
			return
		}
		p := pm.Properties
		if len(p) < 1 || int(p[0]) != len(t.Dims) || len(p) < 1+4*len(t.Dims) {
			r.fail("array of rank %d: property area %s", len(t.Dims), short(p))
			return
		}
		dims := make([]uint64, len(t.Dims))
		for i := range dims {
			dims[i] = uint64(binary.LittleEndian.Uint32(p[1+4*i:]))
		}
		baseGot := p[1+4*len(dims):]
		if !eqU64s(dims, t.Dims) || !bytes.Equal(baseGot, b.kids[0].enc) {
			r.fail("array dims %v base %x: decoded dims %v base %x", t.Dims, b.kids[0].enc, dims, baseGot)
			return
		}
		if bp, err := core.ParseDatatypeMessage(baseGot); err != nil {
			r.fail("array base type does not parse: %v", err)
		} else {
			checkLeaf(r, *t.Base, b.kids[0], bp, "array base")
		}
		reencode = false
		if re, err := core.EncodeArrayDatatypeMessage(baseGot, dims, pm.Size); err != nil {
			r.fail("re-encoding the decoded array type failed: %v", err)
		} else if d := sameBytes("re-encoding the decoded array type changes the bytes", re, b.enc); d != "" {
			r.fail("%s", d)
		}
	case "enum":
		if pm.Class != core.DatatypeEnum || pm.Version != 3 || pm.Size != t.Size || int(pm.ClassBitField) != len(t.Names) {
			r.fail("enum of %d members: parsed class %d version %d size %d member count %d, encoded size %d", len(t.Names), pm.Class, pm.Version, pm.Size, pm.ClassBitField, t.Size)
			return
		}
		p := pm.Properties
		bl := len(b.kids[0].enc)
		if len(p) < bl || !bytes.Equal(p[:bl], b.kids[0].enc) {
			r.fail("enum base type bytes differ: %s", short(p))
			return
		}
		if bp, err := core.ParseDatatypeMessage(p[:bl]); err != nil {
			r.fail("enum base type does not parse: %v", err)
		} else {
			checkLeaf(r, *t.Base, b.kids[0], bp, "enum base")
		}
		v := *t.Vals
		v.Kind = "bin"
		vals := v.Bytes()
		off := bl
		var names []string
		var gotVals []byte
		for i := range t.Names {
			e := off
			for e < len(p) && p[e] != 0 {
				e++
			}
			if e >= len(p) {
				r.fail("enum member %d: name not terminated", i)
				return
			}
			names = append(names, string(p[off:e]))
			off += pad8(e - off + 1)
			if off+int(t.Size) > len(p) {
				r.fail("enum member %d: value truncated", i)
				return
			}
			gotVals = append(gotVals, p[off:off+int(t.Size)]...)
			off += int(t.Size)
		}
		for i, n := range t.Names {
			if names[i] != n.String() {
				r.fail("enum member %d encoded name %q decoded %q", i, n.String(), names[i])
				return
			}
		}
		if off != len(p) || !bytes.Equal(gotVals, vals[:len(gotVals)]) {
			r.fail("enum values encoded %x decoded %x (property area used %d of %d bytes)", vals, gotVals, off, len(p))
			return
		}
		reencode = false
		if re, err := core.EncodeEnumDatatypeMessage(p[:bl], names, gotVals, pm.Size); err != nil {
			r.fail("re-encoding the decoded enum type failed: %v", err)
		} else if d := sameBytes("re-encoding the decoded enum type changes the bytes", re, b.enc); d != "" {
			r.fail("%s", d)
		}
	case "compound":
		wantVer := uint8(3)
		if t.Via == "v1" {
			wantVer = 1
		}
		if pm.Class != core.DatatypeCompound || pm.Version != wantVer || pm.Size != t.Size {
			r.fail("compound %s: parsed class %d version %d size %d, encoded version %d size %d", t.Via, pm.Class, pm.Version, pm.Size, wantVer, t.Size)
			return
		}
		if wantVer == 1 && int(pm.ClassBitField&0xFFFF) != len(t.Mem) {
			r.fail("compound v1: member count in bit field %d, encoded %d", pm.ClassBitField&0xFFFF, len(t.Mem))
		}
		if !bytes.Equal(pm.Properties, b.enc[8:]) {
			r.fail("top-level compound properties are not the whole property area (%d of %d bytes)", len(pm.Properties), len(b.enc)-8)
		}
		checkCompound(r, t, b, pm, true, "")
	}
	if reencode {
		if re, err := core.EncodeDatatypeMessage(pm); err != nil {
			r.fail("re-encoding the decoded %s type failed: %v", t.K, err)
		} else if d := sameBytes("re-encoding the decoded "+t.K+" type changes the bytes", re, b.enc); d != "" {
			r.fail("%s", d)
		}
	}
}

func runDT(c DTCase) vt.Verdict {
	if !c.T.depthOK(0) {
		return vt.Skipped("nesting beyond the generated domain")
	}
	b, err := build(c.T)
	if err != nil {
		return vt.Bad("encoder refused a well-formed datatype: %v", err)
	}
	b2, err := build(c.T)
	if err != nil || !bytes.Equal(b.enc, b2.enc) {
		return vt.Bad("datatype encoding (%s) is not deterministic (err=%v)", c.T.K, err)
	}
	if c.T.K == "compound" && c.T.Via == "fields" {
		// documented: CreateCompoundTypeFromFields encodes as version 3 with total size = sum of member sizes
		var fields []core.CompoundFieldDef
		for i, m := range c.T.Mem {
			fields = append(fields, core.CompoundFieldDef{Name: m.Name.String(), Offset: m.Off, Type: b.kids[i].member})
		}
		if v3, err := core.EncodeCompoundDatatypeV3(c.T.Size, fields); err != nil || !bytes.Equal(v3, b.enc) {
			return vt.Bad("CreateCompoundTypeFromFields + EncodeDatatypeMessage differs from EncodeCompoundDatatypeV3 (err=%v)", err)
		}
	}
	var r result
	checkTop(&r, c.T, b)
	return r.verdict()
}

// ---- generators ----------------------------------------------------------------------------------

func genLeaf(t *rapid.T, kinds []string, allowBasic bool) T {
	k := rapid.SampledFrom(kinds).Draw(t, "class")
	x := T{K: k}
	basic := allowBasic && rapid.IntRange(0, 3).Draw(t, "basic") == 0
	switch k {
	case "fixed":
		x.Size = rapid.SampledFrom([]uint32{1, 2, 4, 8}).Draw(t, "size")
		x.Bits = rapid.Uint32Range(0, 15).Draw(t, "bits") // byte order, padding lo/hi, signed
	case "float":
		x.Size = rapid.SampledFrom([]uint32{4, 8}).Draw(t, "size")
		sign := rapid.SampledFrom([]uint32{x.Size*8 - 1, 0, 15, 31, 63}).Draw(t, "signloc")
		x.Bits = rapid.Uint32Range(0, 63).Draw(t, "bits") | sign<<8
	case "string":
		x.Size = rapid.OneOf(rapid.Uint32Range(1, 64), rapid.SampledFrom([]uint32{1, 2, 255, 256, 65535, 65536, 1 << 20})).Draw(t, "size")
		x.Bits = rapid.Uint32Range(0, 2).Draw(t, "pad") | rapid.Uint32Range(0, 1).Draw(t, "charset")<<4
	case "ref":
		x.Size = rapid.SampledFrom([]uint32{8, 12}).Draw(t, "size")
		x.Bits = rapid.Uint32Range(0, 1).Draw(t, "reftype")
		basic = false
	case "time", "bitfield":
		x.Size = rapid.SampledFrom([]uint32{1, 2, 4, 8}).Draw(t, "size")
		x.Bits = rapid.Uint32Range(0, 1).Draw(t, "order")
		basic = false
	case "opaque":
		x.Size = rapid.OneOf(rapid.Uint32Range(1, 64), rapid.SampledFrom([]uint32{1, 255, 256, 65536})).Draw(t, "size")
		tag := genBlob(t, "tag", rapid.OneOf(rapid.IntRange(1, 40), rapid.SampledFrom([]int{1, 7, 8, 9, 15, 16, 17, 248, 255})))
		x.Tag = &tag
		basic = false
	}
	if basic {
		x.Via = "basic"
		x.Bits = 0
	}
	return x
}

var memberLeaves = []string{"fixed", "float", "string", "ref", "opaque"}

func genComposite(t *rapid.T, k string) T {
	x := T{K: k}
	switch k {
	case "vlen":
		base := genLeaf(t, []string{"fixed", "float", "string"}, false)
		x.Base = &base
		x.Size = 16
		x.Bits = rapid.SampledFrom([]uint32{0, 1, 0x101, 0x11, 0x100}).Draw(t, "vlenbits") // type | padding<<4 | charset<<8
	case "array":
		base := genLeaf(t, []string{"fixed", "float", "string", "ref"}, false)
		if base.K == "string" && base.Size > 4096 {
			base.Size = 16
		}
		x.Base = &base
		n := rapid.OneOf(rapid.IntRange(1, 4), rapid.IntRange(1, 4), rapid.IntRange(1, 32)).Draw(t, "ndims")
		size := uint64(base.Size)
		for i := 0; i < n; i++ {
			hi := uint64(1<<31) / size
			if hi > 12 {
				hi = 12
			}
			if hi < 1 {
				hi = 1
			}
			d := rapid.Uint64Range(1, hi).Draw(t, "dim")
			x.Dims = append(x.Dims, d)
			size *= d
		}
		x.Size = uint32(size)
	case "enum":
		base := genLeaf(t, []string{"fixed"}, false)
		x.Base = &base
		x.Size = base.Size
		n := rapid.OneOf(rapid.IntRange(1, 6), rapid.IntRange(1, 40)).Draw(t, "nmembers")
		for i := 0; i < n; i++ {
			x.Names = append(x.Names, genBlob(t, "ename", rapid.OneOf(rapid.IntRange(1, 20), rapid.SampledFrom([]int{1, 6, 7, 8, 9, 15, 16, 255})), "", "", "utf8"))
		}
		x.Vals = &Blob{N: n * int(base.Size), Seed: rapid.IntRange(0, 1<<20).Draw(t, "vals"), Kind: "bin"}
	}
	return x
}

// genCompound builds a compound type. last: its bytes end the enclosing message. wild: members with
// variable-length properties may appear anywhere (region of KF-C11-06); otherwise only where the library's inline
// parser can delimit them (at the very end of the message).
func genCompound(t *rapid.T, depth int, last, wild bool, forceV3 bool) T {
	x := T{K: "compound"}
	x.Via = rapid.SampledFrom([]string{"v3", "v3", "v1", "fields"}).Draw(t, "via")
	if forceV3 && x.Via == "v1" {
		x.Via = "v3"
	}
	maxN := 8
	if depth > 0 {
		maxN = 3
	}
	n := rapid.IntRange(1, maxN).Draw(t, "nmembers")
	if depth == 0 && x.Via != "fields" && rapid.IntRange(0, 49).Draw(t, "manyMembers") == 0 {
		n = rapid.SampledFrom([]int{255, 256, 257, 300, 513}).Draw(t, "nmany") // the member count no longer fits one byte
	}
	off := uint32(0)
	for i := 0; i < n; i++ {
		mlast := last && i == n-1
		free := mlast || wild && rapid.IntRange(0, 2).Draw(t, "wildHere") == 0
		var mt T
		pick := rapid.IntRange(0, 9).Draw(t, "memberKind")
		if n > 8 {
			pick = 9
		}
		switch {
		case pick <= 1 && depth < 2:
			// nested compound: version 1 has no inline length rule in the parser, so it counts as variable
			mt = genCompound(t, depth+1, mlast, wild, !free)
		case pick == 2 && free:
			mt = genComposite(t, rapid.SampledFrom([]string{"array", "enum", "vlen"}).Draw(t, "composite"))
		case free && pick <= 5:
			mt = genLeaf(t, memberLeaves, true)
		default:
			mt = genLeaf(t, []string{"fixed", "float", "fixed", "float", "time", "bitfield"}, true)
		}
		if mt.K == "string" && mt.Size > 1<<16 {
			mt.Size = 32
		}
		nameLen := rapid.OneOf(rapid.IntRange(1, 20), rapid.SampledFrom([]int{1, 6, 7, 8, 9, 15, 16, 17, 255, 256}))
		if n > 8 {
			nameLen = rapid.IntRange(1, 9)
		}
		m := M{Name: genBlob(t, "mname", nameLen, "", "", "utf8"), T: mt}
		if x.Via != "fields" {
			off += rapid.SampledFrom([]uint32{0, 0, 0, 1, 3, 4, 8}).Draw(t, "gap")
		}
		m.Off = off
		off += mt.Size
		x.Mem = append(x.Mem, m)
	}
	if x.Via != "fields" {
		off += rapid.SampledFrom([]uint32{0, 0, 4, 7}).Draw(t, "tailpad")
	}
	x.Size = off
	return x
}

func genType(t *rapid.T) T {
	switch k := rapid.SampledFrom([]string{"fixed", "fixed", "float", "float", "string", "string", "ref", "opaque", "opaque", "vlen", "array", "array",
		"enum", "enum", "compound", "compound", "compound", "compound", "compound", "compound", "compound"}).Draw(t, "top"); k {
	case "vlen", "array", "enum":
		return genComposite(t, k)
	case "compound":
		wild := rapid.IntRange(0, 7).Draw(t, "wild") == 0
		return genCompound(t, 0, true, wild, false)
	default:
		return genLeaf(t, []string{k}, true)
	}
}

func genDT(t *rapid.T) DTCase { return DTCase{T: genType(t)} }

func (t T) depth() int {
	d := 0
	for _, m := range t.Mem {
		if x := m.T.depth() + 1; x > d {
			d = x
		}
	}
	return d
}

func (t T) hasKind(k string) bool {
	if t.K == k {
		return true
	}
	for _, m := range t.Mem {
		if m.T.hasKind(k) {
			return true
		}
	}
	return t.Base != nil && t.Base.hasKind(k)
}

func classifyDT(c DTCase) (bool, []string) {
	t := c.T
	labels := []string{"class=" + t.K}
	if t.Via != "" {
		labels = append(labels, "via="+t.Via)
	}
	nt := false
	switch t.K {
	case "compound":
		labels = append(labels, fmt.Sprintf("depth=%d", t.depth()))
		switch {
		case len(t.Mem) == 1:
			labels = append(labels, "members=1")
		case len(t.Mem) <= 4:
			labels = append(labels, "members=2-4")
		case len(t.Mem) <= 8:
			labels = append(labels, "members=5-8")
		default:
			labels = append(labels, "members>=255")
		}
		for _, k := range []string{"string", "ref", "opaque", "array", "enum", "vlen", "time", "bitfield"} {
			if t.hasKind(k) {
				labels = append(labels, "member_"+k)
			}
		}
		if t.swallows(true) {
			labels = append(labels, "region_KF-C11-06")
		}
		nt = len(t.Mem) >= 2 || t.depth() >= 1
	case "enum":
		nt = len(t.Names) >= 2
		if len(t.Names) > 6 {
			labels = append(labels, "members>6")
		}
	case "array":
		labels = append(labels, rankBucket(len(t.Dims)), "base="+t.Base.K)
		nt = true
	case "vlen":
		labels = append(labels, "base="+t.Base.K)
		nt = true
	case "opaque":
		nt = true // size and tag
		if t.Tag.N%8 == 0 {
			labels = append(labels, "tag%8=0")
		}
	default:
		nt = t.Bits != 0 // size is never zero
	}
	return nt, labels
}
