package c01

import (
	hdf5 "github.com/scigolib/hdf5"
	"github.com/scigolib/hdf5/internal/core"
)

// dataAddress returns the contiguous data address from the dataset's layout message.
func dataAddress(f *hdf5.File, hdrAddr uint64) (uint64, bool) {
	hdr, err := core.ReadObjectHeader(f.Reader(), hdrAddr, f.Superblock())
	if err != nil {
		return 0, false
	}
	info, err := core.ReadDatasetInfo(hdr, f.Superblock())
	if err != nil || info.Layout == nil || !info.Layout.IsContiguous() {
		return 0, false
	}
	return info.Layout.DataAddress, true
}
