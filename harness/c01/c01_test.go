// Package c01 decides property C01: dataset write -> close -> reopen -> read is exact.
package c01

import (
	"bytes"
	"fmt"
	"os"
	"path/filepath"
	"testing"

	hdf5 "github.com/scigolib/hdf5"
	"github.com/scigolib/hdf5/verif/hist"
	"github.com/scigolib/hdf5/verif/obs"
	"github.com/scigolib/hdf5/verif/vt"
	"pgregory.net/rapid"
)

const prop = "C01"

type Case struct {
	SB      int        `json:"sb"`
	InGroup bool       `json:"in_group"`
	Before  int        `json:"before"` // small datasets created before (moves allocations around)
	After   int        `json:"after"`  // small datasets created after
	D       hist.DSpec `json:"d"`
	Seed    int        `json:"seed"`
	Mode    int        `json:"mode"`
	Raw     bool       `json:"raw"` // use WriteRaw
	// Resize, when set on a resizable spec: the dataset is created with D.Dims, resized to this shape and then written
	// completely at the new shape (what reads back must be what was written, whatever shape the dataset had before)
	Resize []uint64 `json:"resize,omitempty"`
	// Rewrites: the dataset is written completely this many more times (other values) through the same handle; what reads
	// back is what was written last
	Rewrites int `json:"rewrites,omitempty"`
	// FitDelta, when Fit is set: after everything is written, the object created just before the dataset's neighbour gets
	// attributes that fill its object header to 255+FitDelta message bytes (growth of a neighbouring header in place)
	Fit      bool `json:"fit,omitempty"`
	FitDelta int  `json:"fit_delta,omitempty"`
}

var extents = []uint64{1, 2, 3, 4, 5, 7, 8, 11, 13, 16, 17, 31, 32, 64}
var numTypes = []string{"i8", "i16", "i32", "i64", "u8", "u16", "u32", "u64", "f32", "f64"}

func genSpec(t *rapid.T, maxElems int) hist.DSpec {
	var d hist.DSpec
	kind := rapid.SampledFrom([]string{"num", "num", "num", "num", "num", "str", "arr", "enum", "objref", "regref", "opaque", "cmp"}).Draw(t, "kind")
	switch kind {
	case "num":
		d.Type = rapid.SampledFrom(numTypes).Draw(t, "type")
	case "str":
		d.Type = "str"
		d.StrSize = rapid.SampledFrom([]int{1, 2, 3, 7, 8, 9, 16, 33, 64}).Draw(t, "strsize")
	case "arr":
		d.Type = "arr:" + rapid.SampledFrom(numTypes).Draw(t, "base")
		d.ArrDims = rapid.SliceOfN(rapid.SampledFrom([]uint64{1, 2, 3, 4}), 1, 2).Draw(t, "arrdims")
	case "enum":
		d.Type = "enum:" + rapid.SampledFrom(numTypes[:8]).Draw(t, "base")
		d.EnumN = rapid.IntRange(1, 6).Draw(t, "enum_n")
	case "opaque":
		d.Type = "opaque"
		d.OpaqueLen = rapid.SampledFrom([]int{1, 3, 8, 17}).Draw(t, "olen")
		d.OpaqueTag = rapid.SampledFrom([]string{"t", "tag", "opaque-tag-1", "12345678"}).Draw(t, "otag")
	case "cmp":
		d.Type = rapid.SampledFrom([]string{"cmp:num", "cmp:str", "cmp:pad", "cmp:ooo"}).Draw(t, "cmp")
	default:
		d.Type = kind
	}
	rank := rapid.SampledFrom([]int{1, 1, 2, 2, 3, 4}).Draw(t, "rank")
	for {
		d.Dims = nil
		for i := 0; i < rank; i++ {
			d.Dims = append(d.Dims, rapid.SampledFrom(extents).Draw(t, "extent"))
		}
		if hist.NumElems(d.Dims)*d.ElemSize() <= maxElems*8 && hist.NumElems(d.Dims) <= maxElems {
			break
		}
		// shrink the largest extent instead of rejecting
		for hist.NumElems(d.Dims) > maxElems || hist.NumElems(d.Dims)*d.ElemSize() > maxElems*8 {
			mi := 0
			for i := range d.Dims {
				if d.Dims[i] > d.Dims[mi] {
					mi = i
				}
			}
			d.Dims[mi] = (d.Dims[mi] + 1) / 2
		}
		break
	}
	if kind != "cmp" && rapid.IntRange(0, 9).Draw(t, "chunked") < 6 { // chunked compound datasets are documented as not implemented
		d.Chunk = make([]uint64, rank)
		for i, e := range d.Dims {
			opts := []uint64{1, e}
			for _, c := range []uint64{2, 3, 4, 5, 7, 8, 16} {
				if c <= e {
					opts = append(opts, c)
				}
			}
			d.Chunk[i] = rapid.SampledFrom(opts).Draw(t, "chunk")
		}
		// keep the number of chunks bounded
		for numChunks(d) > 600 {
			mi := 0
			for i := range d.Chunk {
				if (d.Dims[i]+d.Chunk[i]-1)/d.Chunk[i] > (d.Dims[mi]+d.Chunk[mi]-1)/d.Chunk[mi] {
					mi = i
				}
			}
			d.Chunk[mi] = d.Dims[mi]
		}
	}
	return d
}

func numChunks(d hist.DSpec) int {
	n := 1
	for i := range d.Chunk {
		n *= int((d.Dims[i] + d.Chunk[i] - 1) / d.Chunk[i])
	}
	return n
}

func gen(t *rapid.T) Case {
	c := Case{
		SB:      rapid.SampledFrom([]int{2, 2, 0, 3}).Draw(t, "sb"),
		InGroup: rapid.Bool().Draw(t, "in_group"),
		Before:  rapid.SampledFrom([]int{0, 0, 1, 2}).Draw(t, "before"),
		After:   rapid.SampledFrom([]int{0, 0, 1, 2}).Draw(t, "after"),
		Seed:    rapid.IntRange(0, 1<<20).Draw(t, "seed"),
		Mode:    rapid.SampledFrom([]int{hist.ModeMixed, hist.ModeMixed, hist.ModeSeq}).Draw(t, "mode"),
		Raw:     rapid.IntRange(0, 5).Draw(t, "raw") == 0,
	}
	c.D = genSpec(t, vt.N(4096, 100000))
	c.Rewrites = rapid.SampledFrom([]int{0, 0, 0, 1, 2}).Draw(t, "rewrites")
	if c.Before > 0 && rapid.IntRange(0, 3).Draw(t, "fit") == 0 {
		c.Fit, c.FitDelta = true, rapid.IntRange(-9, 3).Draw(t, "fitDelta")
	}
	if k, _ := c.D.Base(); c.D.Chunk != nil && (k == "num" || k == "str" || k == "arr") && rapid.IntRange(0, 3).Draw(t, "resizable") == 0 {
		for range c.D.Dims {
			c.D.MaxDims = append(c.D.MaxDims, hdf5.Unlimited)
		}
		if rapid.IntRange(0, 2).Draw(t, "resized") > 0 {
			for range c.D.Dims {
				c.Resize = append(c.Resize, rapid.SampledFrom(extents[:10]).Draw(t, "newExtent"))
			}
		}
	}
	return c
}

func classify(c Case) (bool, []string) {
	kind, base := c.D.Base()
	labels := []string{fmt.Sprintf("sb=%d", c.SB), fmt.Sprintf("rank=%d", len(c.D.Dims)), "kind=" + kind}
	if base != "" {
		labels = append(labels, "base="+base)
	}
	if c.Resize != nil {
		labels = append(labels, "resized_before_write")
	}
	if c.Rewrites > 0 {
		labels = append(labels, "written_more_than_once")
	}
	if c.Fit {
		labels = append(labels, "neighbour_header_filled")
	}
	partial := false
	nt := len(c.D.Dims) >= 2 || c.SB != 2 || c.Mode == hist.ModeMixed
	if c.D.Chunk != nil {
		labels = append(labels, "chunked")
		n := numChunks(c.D)
		switch {
		case n == 1:
			labels = append(labels, "chunks=1")
		case n <= 8:
			labels = append(labels, "chunks=2-8")
		default:
			labels = append(labels, "chunks>8")
		}
		for i := range c.D.Chunk {
			if c.D.Dims[i]%c.D.Chunk[i] != 0 {
				partial = true
			}
		}
		if partial {
			labels = append(labels, "partial_edge")
		}
		if n >= 2 || partial {
			nt = true
		}
	} else {
		labels = append(labels, "contiguous")
	}
	return nt, labels
}

func run(c Case) vt.Verdict {
	if !c.D.Valid() {
		return vt.Skipped("invalid spec")
	}
	dir := vt.GetEnv().Scratch
	file := filepath.Join(dir, fmt.Sprintf("c01-%d.h5", os.Getpid()))
	defer os.Remove(file)
	ex, err := hist.NewExec(file, c.SB)
	if err != nil {
		return vt.Bad("CreateForWrite(sb=%d): %v", c.SB, err)
	}
	defer ex.Close()
	small := hist.DSpec{Type: "i32", Dims: []uint64{3}}
	var ops []hist.Op
	prefix := "/"
	if c.InGroup {
		ops = append(ops, hist.Op{K: "group", Path: "/g"})
		prefix = "/g/"
	}
	for i := 0; i < c.Before; i++ {
		p := fmt.Sprintf("/b%d", i)
		ops = append(ops, hist.Op{K: "dataset", Path: p, D: &small}, hist.Op{K: "write", Path: p, Seed: i, Mode: hist.ModeSeq})
	}
	target := prefix + "data"
	ops = append(ops, hist.Op{K: "dataset", Path: target, D: &c.D})
	if c.Resize != nil && c.D.MaxDims != nil && len(c.Resize) == len(c.D.Dims) {
		ops = append(ops, hist.Op{K: "resize", Path: target, Dims: c.Resize})
	}
	w := hist.Op{K: "write", Path: target, Seed: c.Seed, Mode: c.Mode}
	if c.Raw {
		w.K = "writeraw"
	}
	ops = append(ops, w)
	for k := 0; k < c.Rewrites; k++ {
		w2 := w
		w2.Seed = c.Seed + 7919*(k+1)
		ops = append(ops, w2)
	}
	for i := 0; i < c.After; i++ {
		p := fmt.Sprintf("/a%d", i)
		ops = append(ops, hist.Op{K: "dataset", Path: p, D: &small}, hist.Op{K: "write", Path: p, Seed: 100 + i, Mode: hist.ModeSeq})
	}
	if c.Fit && c.Before > 0 {
		// the header of the dataset allocated right before the target grows in place up to (and around) its capacity
		ops = append(ops, hist.Op{K: "attrfit", Path: fmt.Sprintf("/b%d", c.Before-1), Name: "fill", Delta: c.FitDelta, Seed: c.Seed})
	}
	for i, op := range ops {
		st := ex.Apply(op)
		if st.Broken != "" {
			return vt.Bad("op %d %s %s: %s", i, op.K, op.Path, st.Broken)
		}
		if op.K == "attrfit" {
			continue // refused beyond the capacity, accepted below it: hist checks which; either way the data must be intact
		}
		if st.Err != "" {
			return vt.Bad("op %d %s %s of a supported configuration was rejected: %s (spec %+v)", i, op.K, op.Path, st.Err, c.D)
		}
	}
	if err := ex.Close(); err != nil {
		return vt.Bad("Close: %v", err)
	}
	f := obs.Read(file, obs.Options{SelSeeds: []uint64{11, 22, 33, 44}})
	ps := hist.Compare(ex.M, f, hist.Opts{})
	if len(ps) > 0 {
		return vt.Bad("%d problem(s) after reopen, first: %s (spec %+v, sb %d)", len(ps), ps[0], c.D, c.SB)
	}
	// Independent decoder: type, shape, layout and the raw bytes of every layout (chunks re-assembled by a decoder
	// that shares no code with the library) - covers the types that have no typed read.
	if data, err := os.ReadFile(file); err == nil {
		res := hist.CompareIndep(ex.M, data)
		switch {
		case res.DecodeErr != "":
			return vt.Bad("independent decoder cannot decode the written file: %s (spec %+v, sb %d)", res.DecodeErr, c.D, c.SB)
		case len(res.Extents) > 0:
			return vt.Bad("structure placement: %s", res.Extents[0])
		case len(res.Problems) > 0:
			return vt.Bad("independent decoder disagrees with what was written: %s (spec %+v, sb %d)", res.Problems[0], c.D, c.SB)
		}
	}
	// Byte-exactness for every type (incl. those without a typed read): contiguous data is read straight from the
	// file at the address the layout message reports.
	if c.D.Chunk == nil {
		if v := rawContiguous(file, target, ex.M.Resolve(target).Raw); v != nil {
			return *v
		}
	}
	return vt.Pass()
}

func rawContiguous(file, path string, want []byte) *vt.Verdict {
	f, err := hdf5.Open(file)
	if err != nil {
		v := vt.Bad("reopen for raw check: %v", err)
		return &v
	}
	defer f.Close()
	var addr uint64
	found := false
	f.Walk(func(p string, o hdf5.Object) {
		if d, ok := o.(*hdf5.Dataset); ok && p == path {
			addr = d.Address()
			found = true
		}
	})
	if !found {
		v := vt.Bad("dataset %s missing", path)
		return &v
	}
	da, ok := dataAddress(f, addr)
	if !ok {
		return nil
	}
	got := make([]byte, len(want))
	if _, err := f.Reader().ReadAt(got, int64(da)); err != nil {
		v := vt.Bad("contiguous data of %s at address %d is not inside the file: %v", path, da, err)
		return &v
	}
	if !bytes.Equal(got, want) {
		i := 0
		for i < len(want) && got[i] == want[i] {
			i++
		}
		v := vt.Bad("stored bytes of %s differ from the written bytes at offset %d of %d (got %#02x want %#02x)", path, i, len(want), got[i], want[i])
		return &v
	}
	return nil
}

func TestProp(t *testing.T) {
	vt.Run(t, prop, vt.Sub[Case]{Prop: prop, Name: "roundtrip", Gen: gen, Run: run, Classify: classify}.WithBudget(15000, 60000))
}
