package indep

import (
	"bytes"
	"fmt"
)

type dataspace struct {
	version int
	dims    []uint64
	max     []uint64
	scalar  bool
	null    bool
	encLen  int
}

// nelems returns the number of elements (saturating at 2^63).
func (s *dataspace) nelems() uint64 {
	if s.null {
		return 0
	}
	n := uint64(1)
	for _, x := range s.dims {
		if x != 0 && n > (1<<63)/x {
			return 1 << 63
		}
		n *= x
	}
	return n
}

func (d *dec) decodeDataspace(b []byte, org uint64) *dataspace {
	what := "dataspace message"
	c := d.cursor(b, org, what)
	s := &dataspace{}
	s.version = int(c.u8("version"))
	rank := int(c.u8("dimensionality"))
	flags := c.u8("flags")
	if rank > 32 {
		d.fail("%s at 0x%x: dimensionality %d exceeds 32", what, org, rank)
	}
	switch s.version {
	case 1:
		c.zero(1, "reserved")
		c.zero(4, "reserved")
		if flags&^uint8(3) != 0 {
			d.fail("%s at 0x%x: flags 0x%02x have reserved bits set", what, org, flags)
		}
		s.scalar = rank == 0
	case 2:
		t := c.u8("type")
		if flags&^uint8(1) != 0 {
			d.fail("%s at 0x%x: version 2 flags 0x%02x have reserved bits set", what, org, flags)
		}
		switch t {
		case 0:
			s.scalar = true
			if rank != 0 {
				d.fail("%s at 0x%x: scalar dataspace with dimensionality %d", what, org, rank)
			}
		case 1:
		case 2:
			s.null = true
			if rank != 0 {
				d.fail("%s at 0x%x: null dataspace with dimensionality %d", what, org, rank)
			}
		default:
			d.fail("%s at 0x%x: dataspace type %d not in 0..2", what, org, t)
		}
	default:
		d.fail("%s at 0x%x: version %d not in 1..2", what, org, s.version)
	}
	s.dims = make([]uint64, rank)
	for i := range s.dims {
		s.dims[i] = c.length(fmt.Sprintf("dimension #%d size", i))
	}
	if flags&1 != 0 {
		s.max = make([]uint64, rank)
		for i := range s.max {
			s.max[i] = c.length(fmt.Sprintf("dimension #%d maximum size", i))
			if s.max[i] != maxLen(d.L) && s.max[i] < s.dims[i] {
				d.fail("%s at 0x%x: dimension #%d maximum size %d is smaller than its current size %d", what, org, i, s.max[i], s.dims[i])
			}
			if d.L < 8 && s.max[i] == maxLen(d.L) {
				s.max[i] = ^uint64(0)
			}
		}
	}
	if s.version == 1 && flags&2 != 0 {
		c.skip(rank*d.L, "permutation indices")
	}
	s.encLen = c.pos
	return s
}

func maxLen(l int) uint64 {
	if l >= 8 {
		return ^uint64(0)
	}
	return uint64(1)<<(8*uint(l)) - 1
}

const maxTypeDepth = 32

// decodeDatatype decodes one datatype message starting at c.pos and advances the cursor.
func (d *dec) decodeDatatype(c *cur, depth int) *Datatype {
	if depth > maxTypeDepth {
		d.fail("%s at 0x%x: datatype nesting deeper than %d", c.what, c.org, maxTypeDepth)
	}
	start := c.pos
	cv := c.u8("class and version")
	t := &Datatype{Class: int(cv & 0x0f), Version: int(cv >> 4)}
	bf := c.bytes(3, "class bit field")
	t.BitField = uint32(bf[0]) | uint32(bf[1])<<8 | uint32(bf[2])<<16
	t.Size = c.u32("size")
	pstart := c.pos
	at := c.org + uint64(start)
	what := fmt.Sprintf("datatype message (class %d) at 0x%x", t.Class, at)
	if (t.Version < 1 || t.Version > 5) && !(d.lib && t.Class == 9 && t.Version == 0) {
		d.fail("%s: version %d not in 1..5", what, t.Version)
	}
	if t.Size == 0 && t.Class != 3 {
		// zero-sized strings occur (H5T_C_S1 of size 0 is rejected by the API but size 0 is not forbidden for strings by the spec)
		d.fail("%s: size is 0", what)
	}
	reservedBits := func(mask uint32) {
		if t.BitField&mask != 0 {
			d.fail("%s: class bit field 0x%06x has reserved bits set (mask 0x%06x)", what, t.BitField, mask)
		}
	}
	switch t.Class {
	case 0: // fixed-point
		reservedBits(0xfffff0)
		t.BigEndian = t.BitField&1 != 0
		t.Signed = t.BitField&8 != 0
		if d.lib && c.rem() >= 4 && t.Size <= 8 {
			// library layout: byte order, precision in bits, offset, padding (one byte each)
			if p := c.b[c.pos : c.pos+4]; p[0] <= 1 && uint32(p[1]) == t.Size*8 && p[2] == 0 && p[3] == 0 {
				c.skip(4, "properties")
				t.BitOffset, t.Precision = 0, uint16(t.Size*8)
				d.libDev("datatype-fixed-props")
				break
			}
		}
		t.BitOffset = c.u16("bit offset")
		t.Precision = c.u16("bit precision")
		if uint32(t.BitOffset)+uint32(t.Precision) > t.Size*8 || t.Precision == 0 {
			d.fail("%s: bit offset %d + precision %d does not fit the size of %d bytes", what, t.BitOffset, t.Precision, t.Size)
		}
	case 1: // floating-point
		reservedBits(0xff0080)
		t.BigEndian = t.BitField&1 != 0
		if t.BitField&0x40 != 0 {
			if t.BitField&1 == 0 {
				d.fail("%s: byte order bits 0 and 6 = (0,1) are reserved", what)
			}
			d.unsupported("VAX-endian floating-point datatype")
		}
		if n := (t.BitField >> 4) & 3; n == 3 {
			d.fail("%s: mantissa normalization 3 is reserved", what)
		}
		if d.lib && c.rem() >= 12 && (t.Size == 4 || t.Size == 8) {
			// library layout: byte order, precision, offset, exponent bits, mantissa bits, bias (one byte each), six zero bytes
			if p := c.b[c.pos : c.pos+12]; p[0] <= 1 && uint32(p[1]) == t.Size*8 && p[2] == 0 && allZero(p[6:]) {
				c.skip(12, "properties")
				t.BitOffset, t.Precision = 0, uint16(t.Size*8)
				if t.Size == 4 {
					t.ExpLoc, t.ExpSize, t.MantLoc, t.MantSize, t.ExpBias = 23, 8, 0, 23, 127
				} else {
					t.ExpLoc, t.ExpSize, t.MantLoc, t.MantSize, t.ExpBias = 52, 11, 0, 52, 1023
				}
				d.libDev("datatype-float-props")
				break
			}
		}
		t.BitOffset = c.u16("bit offset")
		t.Precision = c.u16("bit precision")
		t.ExpLoc = c.u8("exponent location")
		t.ExpSize = c.u8("exponent size")
		t.MantLoc = c.u8("mantissa location")
		t.MantSize = c.u8("mantissa size")
		t.ExpBias = c.u32("exponent bias")
		if uint32(t.BitOffset)+uint32(t.Precision) > t.Size*8 || t.Precision == 0 {
			d.fail("%s: bit offset %d + precision %d does not fit the size of %d bytes", what, t.BitOffset, t.Precision, t.Size)
		}
		sign := (t.BitField >> 8) & 0xff
		// bit positions count from bit 0 of the datatype (the bit offset is included)
		lo, hi := uint32(t.BitOffset), uint32(t.BitOffset)+uint32(t.Precision)
		if sign < lo || sign >= hi || uint32(t.ExpLoc) < lo || uint32(t.ExpLoc)+uint32(t.ExpSize) > hi || uint32(t.MantLoc) < lo || uint32(t.MantLoc)+uint32(t.MantSize) > hi || t.ExpSize == 0 || t.MantSize == 0 {
			d.fail("%s: sign location %d / exponent %d+%d / mantissa %d+%d do not fit the significant bits [%d,%d)", what, sign, t.ExpLoc, t.ExpSize, t.MantLoc, t.MantSize, lo, hi)
		}
		if overlap(uint32(t.ExpLoc), uint32(t.ExpSize), uint32(t.MantLoc), uint32(t.MantSize)) || (sign >= uint32(t.ExpLoc) && sign < uint32(t.ExpLoc)+uint32(t.ExpSize)) || (sign >= uint32(t.MantLoc) && sign < uint32(t.MantLoc)+uint32(t.MantSize)) {
			d.fail("%s: sign bit %d, exponent field %d+%d and mantissa field %d+%d overlap", what, sign, t.ExpLoc, t.ExpSize, t.MantLoc, t.MantSize)
		}
	case 2: // time
		reservedBits(0xfffffe)
		t.BigEndian = t.BitField&1 != 0
		t.Precision = c.u16("bit precision")
	case 3: // string
		reservedBits(0xffff00)
		t.StrPad = int(t.BitField & 0x0f)
		t.CharSet = int((t.BitField >> 4) & 0x0f)
		if t.StrPad > 2 {
			d.fail("%s: string padding type %d not in 0..2", what, t.StrPad)
		}
		if t.CharSet > 1 {
			d.fail("%s: character set %d not in 0..1", what, t.CharSet)
		}
		if d.lib && c.rem() >= 1 && c.b[c.pos] == 0 {
			// library layout: one property byte (padding/charset) although the class has no properties
			c.skip(1, "property byte")
			d.libDev("datatype-string-extra-byte")
		}
	case 4: // bit field
		reservedBits(0xfffff0)
		t.BigEndian = t.BitField&1 != 0
		t.BitOffset = c.u16("bit offset")
		t.Precision = c.u16("bit precision")
	case 5: // opaque
		reservedBits(0xffff00)
		n := int(t.BitField & 0xff)
		tag := c.bytes(n, "opaque tag")
		for i, ch := range tag {
			if ch == 0 {
				tag = tag[:i]
				break
			}
		}
		t.OpaqueTag = string(tag)
	case 6: // compound
		reservedBits(0xff0000)
		n := int(t.BitField & 0xffff)
		offBytes := 4
		if t.Version >= 3 {
			offBytes = bytesFor(uint64(t.Size))
		}
		if d.lib && t.Version == 3 && n == 0 {
			// library layout: member count in a 4-byte word in front of the members, 4-byte member offsets
			cnt := c.u32("member count word")
			if cnt == 0 || cnt > 0xffff {
				d.fail("%s: member count word %d", what, cnt)
			}
			n, offBytes = int(cnt), 4
			d.libDev("datatype-compound-v3-layout")
		}
		if n == 0 {
			d.fail("%s: compound datatype with 0 members", what)
		}
		for i := 0; i < n; i++ {
			var m Member
			if t.Version >= 3 {
				m.Name = c.cstr(0, "member name")
			} else {
				m.Name = c.cstr(8, "member name")
			}
			m.Offset = uint32(c.uN(offBytes, "member byte offset"))
			var mdims []uint64
			if t.Version == 1 {
				nd := int(c.u8("member dimensionality"))
				c.zero(3, "member reserved")
				c.skip(4, "member dimension permutation")
				c.zero(4, "member reserved")
				if nd > 4 {
					d.fail("%s: member %q dimensionality %d exceeds 4", what, m.Name, nd)
				}
				for k := 0; k < 4; k++ {
					v := c.u32("member dimension size")
					if k < nd {
						mdims = append(mdims, uint64(v))
					}
				}
			}
			m.Type = d.decodeDatatype(c, depth+1)
			if len(mdims) > 0 {
				// version-1 compound member arrays are equivalent to an array datatype member
				total := uint64(m.Type.Size)
				for _, x := range mdims {
					total *= x
					if total > 1<<32 {
						d.fail("%s: member %q array size overflows", what, m.Name)
					}
				}
				m.Type = &Datatype{Class: 10, Version: 1, Size: uint32(total), Base: m.Type, ArrayDims: mdims}
			}
			if uint64(m.Offset)+uint64(m.Type.Size) > uint64(t.Size) {
				d.fail("%s: member %q at offset %d with size %d exceeds the compound size %d", what, m.Name, m.Offset, m.Type.Size, t.Size)
			}
			for _, p := range t.Members {
				if p.Name == m.Name {
					d.fail("%s: member name %q occurs twice", what, m.Name)
				}
			}
			t.Members = append(t.Members, m)
		}
	case 7: // reference
		reservedBits(0xffff00)
		t.RefType = int(t.BitField & 0x0f)
		if t.RefType > 4 {
			d.fail("%s: reference type %d not in 0..4", what, t.RefType)
		}
		if rv := (t.BitField >> 4) & 0x0f; t.RefType < 2 && rv != 0 {
			d.fail("%s: reference type %d with a non-zero revision field %d", what, t.RefType, rv)
		}
	case 8: // enumeration
		reservedBits(0xff0000)
		n := int(t.BitField & 0xffff)
		t.Base = d.decodeDatatype(c, depth+1)
		if t.Base.Size != t.Size {
			d.fail("%s: enumeration size %d differs from its base type size %d", what, t.Size, t.Base.Size)
		}
		if d.lib && t.Version == 3 {
			// library layout: each name NUL-padded to a multiple of 8 and directly followed by its value
			for i := 0; i < n; i++ {
				t.EnumNames = append(t.EnumNames, c.cstr(8, "enum member name"))
				t.EnumValues = append(t.EnumValues, c.bytes(int(t.Base.Size), "enum member value"))
			}
			d.libDev("datatype-enum-layout")
		} else {
			for i := 0; i < n; i++ {
				if t.Version >= 3 {
					t.EnumNames = append(t.EnumNames, c.cstr(0, "enum member name"))
				} else {
					t.EnumNames = append(t.EnumNames, c.cstr(8, "enum member name"))
				}
			}
			for i := 0; i < n; i++ {
				t.EnumValues = append(t.EnumValues, c.bytes(int(t.Base.Size), "enum member value"))
			}
		}
		for i, nm := range t.EnumNames {
			if nm == "" {
				d.fail("%s: enumeration member #%d has an empty name", what, i)
			}
			for _, p := range t.EnumNames[:i] {
				if p == nm {
					d.fail("%s: enumeration member name %q occurs twice", what, nm)
				}
			}
		}
	case 9: // variable-length
		reservedBits(0xfff000)
		if d.lib && t.Version == 0 {
			// library layout: version 0, zero class bit field, the type/padding/charset word in front of the base type
			if t.BitField != 0 {
				d.fail("%s: version 0 with class bit field 0x%06x", what, t.BitField)
			}
			w := c.u32("class word")
			if w&^uint32(0x01) != 0 {
				d.fail("%s: version 0 class word 0x%08x", what, w)
			}
			t.BitField = w & 0xffffff
			d.libDev("datatype-vlen-layout")
		}
		vt := t.BitField & 0x0f
		if vt > 1 {
			d.fail("%s: variable-length type %d not in 0..1", what, vt)
		}
		t.VLenIsString = vt == 1
		t.StrPad = int((t.BitField >> 4) & 0x0f)
		t.CharSet = int((t.BitField >> 8) & 0x0f)
		if t.StrPad > 2 || t.CharSet > 1 {
			d.fail("%s: variable-length padding type %d / character set %d out of range", what, t.StrPad, t.CharSet)
		}
		t.Base = d.decodeDatatype(c, depth+1)
	case 10: // array
		reservedBits(0xffffff)
		if t.Version < 2 {
			d.fail("%s: array class requires datatype version >= 2, found %d", what, t.Version)
		}
		nd := int(c.u8("array dimensionality"))
		if nd == 0 || nd > 32 {
			d.fail("%s: array dimensionality %d not in 1..32", what, nd)
		}
		if t.Version == 2 {
			c.zero(3, "array reserved")
		}
		_ = 0
		total := uint64(1)
		for i := 0; i < nd; i++ {
			v := uint64(c.u32("array dimension size"))
			t.ArrayDims = append(t.ArrayDims, v)
			total *= v
			if total > 1<<32 {
				d.fail("%s: array element count overflows", what)
			}
		}
		if t.Version == 2 {
			c.skip(4*nd, "array permutation indices")
		}
		t.Base = d.decodeDatatype(c, depth+1)
		if total*uint64(t.Base.Size) != uint64(t.Size) {
			d.fail("%s: array of %v elements of %d bytes does not match the datatype size %d", what, t.ArrayDims, t.Base.Size, t.Size)
		}
	case 11: // complex number (datatype version 5)
		if t.Version < 5 {
			d.fail("%s: complex class requires datatype version >= 5, found %d", what, t.Version)
		}
		reservedBits(0xfffff8)
		if t.BitField&1 == 0 {
			d.fail("%s: complex datatype is not flagged homogeneous", what)
		}
		if form := (t.BitField >> 1) & 3; form != 0 {
			d.fail("%s: complex number form %d, only 0 (rectangular) is defined", what, form)
		}
		t.Base = d.decodeDatatype(c, depth+1)
		if t.Base.Class != 1 && t.Base.Class != 0 {
			d.fail("%s: complex base type has class %d", what, t.Base.Class)
		}
		if uint64(t.Base.Size)*2 != uint64(t.Size) {
			d.fail("%s: complex size %d is not twice the base type size %d", what, t.Size, t.Base.Size)
		}
	default:
		d.fail("%s: datatype class %d not in 0..11", what, t.Class)
	}
	t.Props = c.b[pstart:c.pos]
	t.encLen = c.pos - start
	return t
}

// libDev notes a library-specific datatype encoding met while decoding in library mode.
func (d *dec) libDev(name string) {
	for _, n := range d.libDevs {
		if n == name {
			return
		}
	}
	d.libDevs = append(d.libDevs, name)
}

// datatypeMsg decodes a complete datatype message. With exact set the encoding must fill body
// completely. When the strict reading fails, the encodings the pinned library is known to write are
// tried; if they explain the bytes exactly, the corresponding named deviations apply.
func (d *dec) datatypeMsg(body []byte, at uint64, what string, exact bool) *Datatype {
	run := func() (t *Datatype, used int, err *specError) {
		defer func() {
			if r := recover(); r != nil {
				if e, ok := r.(*specError); ok {
					err = e
					return
				}
				panic(r)
			}
		}()
		c := d.cursor(body, at, what)
		t = d.decodeDatatype(c, 0)
		return t, c.pos, nil
	}
	t, used, serr := run()
	if serr == nil && (!exact || used == len(body)) {
		return t
	}
	d.lib, d.libDevs = true, nil
	lt, lused, lerr := run()
	devs := d.libDevs
	d.lib, d.libDevs = false, nil
	if lerr == nil && lused == len(body) && len(devs) > 0 {
		for _, n := range devs {
			strict := "the strict reading leaves bytes unexplained"
			if serr != nil {
				strict = "strict reading: " + serr.msg
			}
			d.deviate(n, "%s at 0x%x: datatype (class %d) uses the library's own property layout (%s)", what, at, lt.Class, strict)
		}
		return lt
	}
	if serr != nil {
		panic(serr)
	}
	d.fail("%s at 0x%x: the datatype encoding takes %d bytes but the message field holds %d", what, at, used, len(body))
	return nil
}

func overlap(a, an, b, bn uint32) bool { return a < b+bn && b < a+an }

// bytesFor returns the number of bytes needed to store values up to max (1..8).
func bytesFor(max uint64) int {
	n := 1
	for max > 0xff {
		max >>= 8
		n++
	}
	return n
}

type layoutMsg struct {
	version   int
	class     int // 0 compact, 1 contiguous, 2 chunked, 3 virtual
	addr      uint64
	size      uint64
	hasSize   bool
	compact   []byte
	compactAt uint64
	dims      []uint64 // v1/v2: dimension sizes; chunked: chunk dims incl. element size
	// v4 chunked
	flags      uint8
	idxType    int
	singleSize uint64
	singleMask uint32
	idxParams  []byte
}

func (d *dec) decodeLayout(b []byte, org uint64) *layoutMsg {
	what := "data layout message"
	c := d.cursor(b, org, what)
	l := &layoutMsg{addr: UndefAddr}
	l.version = int(c.u8("version"))
	switch l.version {
	case 1, 2:
		nd := int(c.u8("dimensionality"))
		l.class = int(c.u8("layout class"))
		c.zero(5, "reserved")
		if l.class > 2 {
			d.fail("%s at 0x%x: layout class %d not in 0..2", what, org, l.class)
		}
		if nd == 0 || nd > 33 {
			d.fail("%s at 0x%x: dimensionality %d not in 1..33", what, org, nd)
		}
		if l.class != 0 {
			l.addr = c.addr("data address")
		}
		for i := 0; i < nd; i++ {
			l.dims = append(l.dims, uint64(c.u32("dimension size")))
		}
		if l.class == 0 {
			n := int(c.u32("compact data size"))
			l.compactAt = org + uint64(c.pos)
			l.compact = c.bytes(n, "compact data")
		}
	case 3, 4:
		l.class = int(c.u8("layout class"))
		switch l.class {
		case 0:
			n := int(c.u16("compact data size"))
			l.compactAt = org + uint64(c.pos)
			l.compact = c.bytes(n, "compact data")
		case 1:
			l.addr = c.addr("data address")
			l.size = c.length("data size")
			l.hasSize = true
		case 2:
			if l.version == 3 {
				nd := int(c.u8("dimensionality"))
				if nd < 1 || nd > 33 {
					d.fail("%s at 0x%x: chunked dimensionality %d not in 1..33", what, org, nd)
				}
				l.addr = c.addr("chunk B-tree address")
				for i := 0; i < nd; i++ {
					l.dims = append(l.dims, uint64(c.u32("chunk dimension size")))
				}
				l.idxType = 0
			} else {
				l.flags = c.u8("chunked flags")
				if l.flags&^uint8(3) != 0 {
					d.fail("%s at 0x%x: version 4 chunked flags 0x%02x have reserved bits set", what, org, l.flags)
				}
				nd := int(c.u8("dimensionality"))
				if nd < 2 || nd > 33 {
					d.fail("%s at 0x%x: chunked dimensionality %d not in 2..33", what, org, nd)
				}
				enc := int(c.u8("dimension size encoded length"))
				if enc == 0 || enc > 8 {
					d.fail("%s at 0x%x: dimension size encoded length %d not in 1..8", what, org, enc)
				}
				for i := 0; i < nd; i++ {
					l.dims = append(l.dims, c.uN(enc, "chunk dimension size"))
				}
				l.idxType = int(c.u8("chunk indexing type"))
				switch l.idxType {
				case 1:
					if l.flags&2 != 0 {
						l.singleSize = c.length("size of filtered chunk")
						l.singleMask = c.u32("filters for chunk")
					}
				case 2:
				case 3:
					l.idxParams = c.bytes(1, "fixed array page bits")
				case 4:
					l.idxParams = c.bytes(5, "extensible array parameters")
				case 5:
					l.idxParams = c.bytes(6, "version 2 B-tree parameters")
				default:
					d.fail("%s at 0x%x: chunk indexing type %d not in 1..5", what, org, l.idxType)
				}
				l.addr = c.addr("chunk index address")
			}
		case 3:
			if l.version != 4 {
				d.fail("%s at 0x%x: virtual layout class in a version %d message", what, org, l.version)
			}
			l.addr = c.addr("virtual dataset global heap address")
			c.u32("virtual dataset global heap index")
		default:
			d.fail("%s at 0x%x: layout class %d not in 0..3", what, org, l.class)
		}
	default:
		d.fail("%s at 0x%x: version %d not in 1..4", what, org, l.version)
	}
	if l.class == 2 {
		for i, x := range l.dims {
			if x == 0 {
				d.fail("%s at 0x%x: chunk dimension #%d is 0", what, org, i)
			}
		}
	}
	return l
}

func filterName(id uint16) string {
	switch id {
	case 1:
		return "deflate"
	case 2:
		return "shuffle"
	case 3:
		return "fletcher32"
	case 4:
		return "szip"
	case 5:
		return "nbit"
	case 6:
		return "scaleoffset"
	}
	return ""
}

func (d *dec) decodePipeline(b []byte, org uint64) []Filter {
	what := "filter pipeline message"
	c := d.cursor(b, org, what)
	ver := c.u8("version")
	n := int(c.u8("number of filters"))
	if ver != 1 && ver != 2 {
		d.fail("%s at 0x%x: version %d not in 1..2", what, org, ver)
	}
	if n > 32 {
		d.fail("%s at 0x%x: %d filters, the maximum is 32", what, org, n)
	}
	if n == 0 {
		d.fail("%s at 0x%x: pipeline with 0 filters", what, org)
	}
	if ver == 2 {
		// the pinned library writes version byte 2 over the version 1 layout
		if fs, ok := d.tryPipelineV1Layout(b, org, n); ok {
			if _, ok2 := d.tryPipelineV2(b, org, n); !ok2 {
				d.deviate("filter-pipeline-v2-with-v1-layout", "%s at 0x%x: version byte 2 but the body has the version 1 layout (6 reserved bytes, a name length field for every filter, names padded to 8 bytes)", what, org)
				return fs
			}
		}
	}
	if ver == 1 {
		c.zero(2, "reserved")
		c.zero(4, "reserved")
	}
	var out []Filter
	for i := 0; i < n; i++ {
		var f Filter
		f.ID = c.u16("filter identification")
		nameLen := 0
		if ver == 1 || f.ID >= 256 {
			nameLen = int(c.u16("name length"))
		}
		f.Flags = c.u16("filter flags")
		ncd := int(c.u16("number of client data values"))
		if f.Flags&^uint16(1) != 0 {
			d.fail("%s at 0x%x: filter #%d flags 0x%04x have reserved bits set", what, org, i, f.Flags)
		}
		if ver == 1 && nameLen%8 != 0 {
			d.fail("%s at 0x%x: filter #%d name length %d is not a multiple of 8", what, org, i, nameLen)
		}
		if nameLen > 0 {
			nb := c.bytes(nameLen, "filter name")
			for k, ch := range nb {
				if ch == 0 {
					nb = nb[:k]
					break
				}
			}
			f.Name = string(nb)
		}
		if f.Name == "" {
			f.Name = filterName(f.ID)
		}
		for k := 0; k < ncd; k++ {
			f.CD = append(f.CD, c.u32("client data"))
		}
		if ver == 1 && ncd%2 == 1 {
			c.skip(4, "client data padding")
		}
		out = append(out, f)
	}
	return out
}

// tryPipelineV2 parses the body strictly as version 2; ok=false when it does not fit.
func (d *dec) tryPipelineV2(b []byte, org uint64, n int) (fs []Filter, ok bool) {
	defer func() {
		if r := recover(); r != nil {
			if _, is := r.(*specError); is {
				ok = false
				return
			}
			panic(r)
		}
	}()
	c := d.cursor(b, org, "filter pipeline message")
	c.skip(2, "hdr")
	for i := 0; i < n; i++ {
		var f Filter
		f.ID = c.u16("id")
		nameLen := 0
		if f.ID >= 256 {
			nameLen = int(c.u16("name length"))
		}
		f.Flags = c.u16("flags")
		ncd := int(c.u16("ncd"))
		if f.Flags&^uint16(1) != 0 || f.ID == 0 {
			return nil, false
		}
		c.skip(nameLen, "name")
		for k := 0; k < ncd; k++ {
			f.CD = append(f.CD, c.u32("cd"))
		}
		fs = append(fs, f)
	}
	// version 2 messages in a v1 object header may carry alignment padding (< 8 zero bytes)
	if c.rem() >= 8 {
		return nil, false
	}
	return fs, true
}

func (d *dec) tryPipelineV1Layout(b []byte, org uint64, n int) (fs []Filter, ok bool) {
	defer func() {
		if r := recover(); r != nil {
			if _, is := r.(*specError); is {
				ok = false
				return
			}
			panic(r)
		}
	}()
	c := d.cursor(b, org, "filter pipeline message")
	c.skip(2, "hdr")
	c.zero(6, "reserved")
	for i := 0; i < n; i++ {
		var f Filter
		f.ID = c.u16("id")
		nameLen := int(c.u16("name length"))
		f.Flags = c.u16("flags")
		ncd := int(c.u16("ncd"))
		if f.Flags&^uint16(1) != 0 || f.ID == 0 {
			return nil, false
		}
		// the name length field holds the unpadded length; the name itself is NUL-padded to a multiple of 8
		nb := c.bytes((nameLen+7)&^7, "name")
		for k, ch := range nb {
			if ch == 0 {
				nb = nb[:k]
				break
			}
		}
		f.Name = string(nb)
		if f.Name == "" {
			f.Name = filterName(f.ID)
		}
		for k := 0; k < ncd; k++ {
			f.CD = append(f.CD, c.u32("cd"))
		}
		// (the library does not pad an odd number of client data values)
		fs = append(fs, f)
	}
	if c.rem() != 0 {
		return nil, false
	}
	return fs, true
}

type fillMsg struct {
	version int
	defined bool
	value   []byte
}

func (d *dec) decodeFill(b []byte, org uint64) *fillMsg {
	what := "fill value message"
	c := d.cursor(b, org, what)
	m := &fillMsg{}
	m.version = int(c.u8("version"))
	switch m.version {
	case 1, 2:
		alloc := c.u8("space allocation time")
		wr := c.u8("fill value write time")
		def := c.u8("fill value defined")
		if alloc < 1 || alloc > 3 {
			d.fail("%s at 0x%x: space allocation time %d not in 1..3", what, org, alloc)
		}
		if wr > 2 {
			d.fail("%s at 0x%x: fill value write time %d not in 0..2", what, org, wr)
		}
		if def > 1 {
			d.fail("%s at 0x%x: fill value defined %d not in 0..1", what, org, def)
		}
		if m.version == 1 || def == 1 {
			n := int(c.u32("size"))
			if n > 0 {
				m.value = c.bytes(n, "fill value")
				m.defined = true
			} else if def == 1 {
				m.defined = m.version == 2
			}
		}
	case 3:
		flags := c.u8("flags")
		if flags&0xC0 != 0 {
			d.fail("%s at 0x%x: flags 0x%02x have reserved bits set", what, org, flags)
		}
		if flags&0x10 != 0 && flags&0x20 != 0 {
			d.fail("%s at 0x%x: flags 0x%02x: fill value both undefined and defined", what, org, flags)
		}
		if flags&0x20 != 0 {
			n := int(c.u32("size"))
			m.value = c.bytes(n, "fill value")
			m.defined = true
		}
	default:
		d.fail("%s at 0x%x: version %d not in 1..3", what, org, m.version)
	}
	return m
}

func (d *dec) decodeLinkStrict(b []byte, org uint64) (Link, int) {
	what := "link message"
	c := d.cursor(b, org, what)
	var l Link
	if v := c.u8("version"); v != 1 {
		d.fail("%s at 0x%x: version %d, expected 1", what, org, v)
	}
	flags := c.u8("flags")
	if flags&0xE0 != 0 {
		d.fail("%s at 0x%x: flags 0x%02x have reserved bits set", what, org, flags)
	}
	lt := uint8(0)
	if flags&0x08 != 0 {
		lt = c.u8("link type")
	}
	if flags&0x04 != 0 {
		c.u64("creation order")
	}
	if flags&0x10 != 0 {
		if cs := c.u8("link name character set"); cs > 1 {
			d.fail("%s at 0x%x: link name character set %d not in 0..1", what, org, cs)
		}
	}
	n := c.uN(1<<(flags&3), "length of link name")
	if n == 0 {
		d.fail("%s at 0x%x: link name length is 0", what, org)
	}
	if n > uint64(c.rem()) {
		d.fail("%s at 0x%x: link name length %d exceeds the message (%d bytes left)", what, org, n, c.rem())
	}
	l.Name = string(c.bytes(int(n), "link name"))
	switch {
	case lt == 0:
		l.Kind = "hard"
		l.Addr = c.addr("object header address")
		if l.Addr == UndefAddr {
			d.fail("%s at 0x%x: hard link %q has an undefined object header address", what, org, l.Name)
		}
	case lt == 1:
		l.Kind = "soft"
		ln := int(c.u16("length of soft link value"))
		l.SoftPath = string(c.bytes(ln, "soft link value"))
	case lt == 64:
		l.Kind = "external"
		vstart := c.pos
		ln := int(c.u16("length of external link value"))
		// library layout of the value: length(2) file name, length(2) object path; no version/flags byte, no NUL terminators
		if rest := c.b[c.pos:]; ln <= len(rest)-2 && (ln == 0 || rest[0] != 0) {
			n2 := int(rest[ln]) | int(rest[ln+1])<<8
			if ln+2+n2 == len(rest) && !bytes.Contains(rest[:ln], []byte{0}) {
				d.deviate("external-link-value-layout", "%s at 0x%x: external link value is stored as length+file name, length+object path; the format is a total length, a version/flags byte (0), then the NUL-terminated file name and object path", what, org)
				l.ExtFile = string(rest[:ln])
				l.ExtPath = string(rest[ln+2:])
				c.pos = len(c.b)
				break
			}
		}
		_ = vstart
		v := d.cursor(c.bytes(ln, "external link value"), org+uint64(c.pos-ln), what+" external link value")
		vf := v.u8("external link version/flags")
		if vf != 0 {
			d.fail("%s at 0x%x: external link version/flags byte 0x%02x, expected 0", what, org, vf)
		}
		l.ExtFile = v.cstr(0, "external file name")
		l.ExtPath = v.cstr(0, "external object path")
		if v.rem() != 0 {
			d.fail("%s at 0x%x: %d bytes after the external link's object path", what, org, v.rem())
		}
	case lt >= 65:
		l.Kind = "user-defined"
		ln := int(c.u16("length of user-defined link data"))
		c.skip(ln, "user-defined link data")
	default:
		d.fail("%s at 0x%x: link type %d is reserved", what, org, lt)
	}
	return l, c.pos
}

// decodeLink decodes a link message. exact: the encoding must fill b completely (fractal heap objects,
// version 2 headers); otherwise up to 7 bytes of padding may follow.
func (d *dec) decodeLink(b []byte, org uint64, exact bool, accept func(name string) bool) Link {
	var l Link
	var used int
	var serr *specError
	func() {
		defer func() {
			if r := recover(); r != nil {
				if e, ok := r.(*specError); ok {
					serr = e
					return
				}
				panic(r)
			}
		}()
		l, used = d.decodeLinkStrict(b, org)
	}()
	if serr == nil && (used == len(b) || (!exact && len(b)-used < 8)) {
		if accept == nil || accept(l.Name) {
			return l
		}
		// the bytes parse, but not to the name the index expects (possible when the library layout below happens to fit both ways)
		serr = &specError{msg: fmt.Sprintf("link message at 0x%x: the link name %q does not have the hash stored in the name index", org, l.Name)}
	}
	// library layout for densely stored hard links: version 1, flags 0, bytes 0x04 0x00, 1-byte name length, name, address
	if len(b) >= 5+1+d.O && b[0] == 1 && b[1] == 0 && b[2] == 0x04 && b[3] == 0 && 5+int(b[4])+d.O == len(b) && b[4] > 0 {
		strict := "the strict reading leaves bytes unexplained"
		if serr != nil {
			strict = "strict reading: " + serr.msg
		}
		d.deviate("dense-link-msg-layout", "link message at 0x%x: two extra bytes (0x04 0x00) between the flags byte (0) and the link name length (%s)", org, strict)
		c := d.cursor(b, org, "link message")
		c.skip(5, "prefix")
		l = Link{Kind: "hard", Name: string(c.bytes(int(b[4]), "link name"))}
		l.Addr = c.addr("object header address")
		if accept != nil && !accept(l.Name) && serr != nil {
			panic(serr)
		}
		return l
	}
	if serr != nil {
		panic(serr)
	}
	d.fail("link message at 0x%x: the encoding takes %d bytes but the message holds %d", org, used, len(b))
	return l
}

type sharedRef struct {
	version int
	typ     int
	addr    uint64
	heapID  []byte
	encLen  int
}

func (d *dec) decodeSharedRef(c *cur) sharedRef {
	var s sharedRef
	start := c.pos
	s.version = int(c.u8("shared message version"))
	switch s.version {
	case 1:
		s.typ = int(c.u8("shared message type"))
		c.skip(6, "reserved")
		// version 1 stores the leading part of a symbol table entry: link name offset (unused), then the object header address
		c.skip(d.L, "name offset of the stored symbol table entry (unused)")
		s.addr = c.addr("shared object header address")
		s.typ = 2
	case 2:
		s.typ = int(c.u8("shared message type"))
		s.addr = c.addr("shared object header address")
		s.typ = 2
	case 3:
		s.typ = int(c.u8("shared message type"))
		switch s.typ {
		case 1:
			s.heapID = c.bytes(8, "shared message heap ID")
		case 2, 3:
			s.addr = c.addr("shared object header address")
		default:
			d.fail("%s at 0x%x: shared message type %d not in 1..3", c.what, c.org, s.typ)
		}
	default:
		d.fail("%s at 0x%x: shared message version %d not in 1..3", c.what, c.org, s.version)
	}
	s.encLen = c.pos - start
	return s
}

// resolveShared returns the body (and its absolute position) of the message of type typ the shared reference points at.
func (d *dec) resolveShared(s sharedRef, typ uint16, what string) ([]byte, uint64, uint64) {
	if s.typ == 1 {
		d.unsupported("shared message stored in the shared object header message heap (SOHM), referenced from %s", what)
	}
	if s.addr == UndefAddr {
		d.fail("%s: shared message points at an undefined object header address", what)
	}
	h := d.parseHeader(s.addr)
	for _, m := range h.msgs {
		if m.typ == typ {
			if m.flags&2 != 0 {
				d.fail("%s: shared message at object header 0x%x is itself shared", what, d.abs(s.addr))
			}
			return m.data, m.abs, s.addr
		}
	}
	d.fail("%s: shared message points at object header 0x%x, which holds no message of type 0x%02x", what, d.abs(s.addr), typ)
	return nil, 0, 0
}

// decodeAttribute decodes an attribute message body.
func (d *dec) decodeAttribute(b []byte, org uint64) Attribute {
	what := "attribute message"
	c := d.cursor(b, org, what)
	var a Attribute
	ver := int(c.u8("version"))
	a.MsgVersion = ver
	var flags uint8
	switch ver {
	case 1:
		c.zero(1, "reserved")
	case 2, 3:
		flags = c.u8("flags")
		if flags&^uint8(3) != 0 {
			d.fail("%s at 0x%x: flags 0x%02x have reserved bits set", what, org, flags)
		}
	default:
		d.fail("%s at 0x%x: version %d not in 1..3", what, org, ver)
	}
	nameSize := int(c.u16("name size"))
	dtSize := int(c.u16("datatype size"))
	dsSize := int(c.u16("dataspace size"))
	if ver == 3 {
		if cs := c.u8("name character set encoding"); cs > 1 {
			d.fail("%s at 0x%x: name character set %d not in 0..1", what, org, cs)
		}
	}
	pad := func(n int) int {
		if ver == 1 {
			return (n + 7) &^ 7
		}
		return n
	}
	if nameSize == 0 {
		d.fail("%s at 0x%x: name size is 0 (must include the NUL terminator)", what, org)
	}
	nb := c.bytes(pad(nameSize), "name")
	if nb[nameSize-1] != 0 {
		d.fail("%s at 0x%x: name (%d bytes) is not NUL-terminated", what, org, nameSize)
	}
	for i := 0; i < nameSize-1; i++ {
		if nb[i] == 0 {
			d.fail("%s at 0x%x: name has an embedded NUL at byte %d of %d", what, org, i, nameSize)
		}
	}
	a.Name = string(nb[:nameSize-1])
	what = fmt.Sprintf("attribute %q message", a.Name)
	c.what = what
	// datatype
	dtAt := org + uint64(c.pos)
	dtb := c.bytes(pad(dtSize), "datatype")
	if flags&1 != 0 {
		sc := d.cursor(dtb[:dtSize], dtAt, what+" shared datatype")
		ref := d.decodeSharedRef(sc)
		body, at, haddr := d.resolveShared(ref, mDatatype, what)
		tc := d.cursor(body, at, "committed datatype")
		a.Type = d.decodeDatatype(tc, 0)
		a.Type.Shared, a.Type.SharedAddr = true, haddr
	} else {
		a.Type = d.datatypeMsg(dtb[:dtSize], dtAt, what+" datatype", ver != 1)
	}
	dsAt := org + uint64(c.pos)
	dsb := c.bytes(pad(dsSize), "dataspace")
	var sp *dataspace
	if flags&2 != 0 {
		sc := d.cursor(dsb[:dsSize], dsAt, what+" shared dataspace")
		ref := d.decodeSharedRef(sc)
		body, at, _ := d.resolveShared(ref, mDataspace, what)
		sp = d.decodeDataspace(body, at)
	} else {
		sp = d.decodeDataspace(dsb[:dsSize], dsAt)
		if sp.encLen != dsSize && !(ver == 1 && sp.encLen <= dsSize) {
			d.fail("%s at 0x%x: dataspace size field is %d but the encoded dataspace takes %d bytes", what, org, dsSize, sp.encLen)
		}
	}
	a.Dims, a.Scalar = sp.dims, sp.scalar
	n := sp.nelems()
	need := n * uint64(a.Type.Size)
	if n != 0 && need/n != uint64(a.Type.Size) || need > uint64(c.rem()) {
		d.fail("%s at 0x%x: data of %d elements x %d bytes does not fit the %d bytes left in the message", what, org, n, a.Type.Size, c.rem())
	}
	a.Data = c.bytes(int(need), "data")
	if ver != 1 && c.rem() >= 8 {
		d.fail("%s at 0x%x: %d unexplained bytes after the attribute data", what, org, c.rem())
	}
	return a
}
