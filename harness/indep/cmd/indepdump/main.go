// indepdump decodes HDF5 files with the independent decoder and prints what it found.
package main

import (
	"flag"
	"fmt"
	"os"
	"sort"
	"strings"

	"github.com/scigolib/hdf5/verif/indep"
)

func main() {
	tol := flag.String("tolerate", "", "comma-separated deviation names, or 'all'")
	verbose := flag.Bool("v", false, "print objects and extents")
	flag.Parse()
	opt := indep.Options{}
	if *tol != "" {
		opt.Tolerate = map[string]bool{}
		if *tol == "all" {
			for _, n := range indep.KnownDeviations {
				opt.Tolerate[n] = true
			}
		} else {
			for _, n := range strings.Split(*tol, ",") {
				opt.Tolerate[n] = true
			}
		}
	}
	for _, p := range flag.Args() {
		data, err := os.ReadFile(p)
		if err != nil {
			fmt.Println(p, err)
			continue
		}
		f, err := indep.Decode(data, opt)
		fmt.Printf("%s: err=%v\n", p, err)
		if f == nil {
			continue
		}
		fmt.Printf("  superblock v%d O=%d L=%d base=0x%x eof=0x%x root=0x%x filesize=0x%x deviations=%v unsupported=%v\n", f.SuperblockVersion, f.OffsetSize, f.LengthSize, f.BaseAddr, f.EOFAddr, f.RootAddr, len(data), f.Deviations, f.Unsupported)
		for _, pr := range f.CheckExtents(uint64(len(data))) {
			fmt.Println("  EXTENT PROBLEM:", pr)
		}
		if !*verbose {
			continue
		}
		var paths []string
		for pa := range f.Paths {
			paths = append(paths, pa)
		}
		sort.Strings(paths)
		for _, pa := range paths {
			o := f.Objects[f.Paths[pa]]
			if o == nil {
				fmt.Printf("  %s -> 0x%x (not decoded)\n", pa, f.Paths[pa])
				continue
			}
			fmt.Printf("  %s -> 0x%x v%d %s %s msgs=%v attrs=%d", pa, o.Addr, o.HeaderVersion, o.Kind, o.GroupStorage, o.MsgTypes, len(o.Attrs))
			if o.Kind == "dataset" {
				fmt.Printf(" dims=%v max=%v layout=%s chunk=%v type={class %d size %d} filters=%v raw=%d rawerr=%q chunks=%d", o.Dims, o.MaxDims, o.Layout, o.ChunkDims, o.Type.Class, o.Type.Size, o.Filters, len(o.Raw), o.RawErr, len(o.Chunks))
			}
			fmt.Println()
			for _, l := range o.Links {
				if l.Kind != "hard" {
					fmt.Printf("      link %q %s soft=%q ext=%q:%q\n", l.Name, l.Kind, l.SoftPath, l.ExtFile, l.ExtPath)
				}
			}
			for _, a := range o.Attrs {
				fmt.Printf("      attr %q v%d dense=%v class=%d size=%d dims=%v data=%d bytes\n", a.Name, a.MsgVersion, a.Dense, a.Type.Class, a.Type.Size, a.Dims, len(a.Data))
			}
		}
		ex := append([]indep.Extent{}, f.Extents...)
		sort.Slice(ex, func(i, j int) bool { return ex[i].Start < ex[j].Start })
		for _, e := range ex {
			fmt.Printf("  [0x%06x,0x%06x) %-20s %s\n", e.Start, e.End, e.Kind, e.Owner)
		}
	}
}
