package indep

import (
	"bytes"
	"compress/zlib"
	"fmt"
	"io"

	"github.com/scigolib/hdf5/verif/refimpl"
)

const (
	maxRawBytes      = 1 << 28 // per dataset
	maxRawBytesTotal = 1 << 30 // per file
)

func (d *dec) allocRaw(o *Object, total uint64) []byte {
	if total > maxRawBytes {
		o.RawErr = fmt.Sprintf("dataset of %d bytes exceeds the decoder's per-dataset limit of %d bytes", total, maxRawBytes)
		return nil
	}
	if d.rawUsed+total > maxRawBytesTotal {
		o.RawErr = fmt.Sprintf("raw data budget of %d bytes per file exhausted", maxRawBytesTotal)
		return nil
	}
	d.rawUsed += total
	b := make([]byte, total)
	if fv := o.FillValue; len(fv) > 0 && !allZero(fv) {
		for i := 0; i+len(fv) <= len(b); i += len(fv) {
			copy(b[i:], fv)
		}
	}
	return b
}

func allZero(b []byte) bool {
	for _, x := range b {
		if x != 0 {
			return false
		}
	}
	return true
}

// datasetData locates the raw data of a dataset, records its extents and assembles Object.Raw.
func (d *dec) datasetData(o *Object, sp *dataspace, lay *layoutMsg, external bool) {
	ha := d.abs(o.Addr)
	what := fmt.Sprintf("dataset %s (object header 0x%x)", o.Path, ha)
	es := uint64(o.Type.Size)
	n := sp.nelems()
	total := n * es
	if es != 0 && (n >= 1<<63 || total/es != n) {
		d.fail("%s: %d elements x %d bytes overflows", what, n, es)
	}
	switch lay.class {
	case 0: // compact
		o.DataSize = uint64(len(lay.compact))
		o.DataAddr = lay.compactAt
		if uint64(len(lay.compact)) != total {
			d.fail("%s: compact data size %d differs from the dataset size %d (%d elements x %d bytes)", what, len(lay.compact), total, n, es)
		}
		o.Raw = append([]byte{}, lay.compact...)
	case 1: // contiguous
		o.DataAddr = lay.addr
		size := total
		if lay.hasSize {
			size = lay.size
			if external {
				// with external storage the address is undefined and the size field is not meaningful
			} else if lay.size != total {
				d.fail("%s: contiguous storage size field is %d, the dataspace and datatype give %d bytes", what, lay.size, total)
			}
		}
		o.DataSize = size
		if external {
			d.unsupported("raw data in external files")
		}
		if lay.addr == UndefAddr {
			// storage not allocated (late allocation, nothing written): readers see the fill value
			o.Raw = d.allocRaw(o, total)
			return
		}
		b := d.bytesAt(lay.addr, total, what+" contiguous raw data")
		if total > 0 {
			d.addExtent(d.abs(lay.addr), total, "contiguous-data")
		}
		if raw := d.allocRaw(o, total); raw != nil {
			copy(raw, b)
			o.Raw = raw
		}
	case 2: // chunked
		d.chunkedData(o, sp, lay, what)
	case 3:
		d.unsupported("virtual dataset layout")
	}
}

func (d *dec) chunkedData(o *Object, sp *dataspace, lay *layoutMsg, what string) {
	rank := len(lay.dims) - 1
	es := uint64(o.Type.Size)
	libIndex := false
	if lay.version == 3 && len(lay.dims) == len(sp.dims) && len(sp.dims) > 0 {
		// the pinned library stores only the rank chunk dimensions: no trailing element-size dimension,
		// neither here nor in the B-tree keys
		d.deviate("chunked-no-elemsize-dim", "%s: chunked layout dimensionality is %d = rank; it must be rank+1 = %d with the datatype size as the last dimension", what, len(lay.dims), len(sp.dims)+1)
		libIndex = true
		rank = len(sp.dims)
		lay.dims = append(append([]uint64{}, lay.dims...), es)
	}
	if rank != len(sp.dims) {
		d.fail("%s: chunked layout dimensionality %d, expected rank+1 = %d", what, len(lay.dims), len(sp.dims)+1)
	}
	if lay.dims[rank] != es {
		d.fail("%s: last chunk dimension (element size) is %d, the datatype size is %d", what, lay.dims[rank], es)
	}
	o.ChunkDims = append([]uint64{}, lay.dims[:rank]...)
	chunkBytes := es
	for _, c := range o.ChunkDims {
		if c != 0 && chunkBytes > (1<<32)/c {
			d.fail("%s: chunk of %v elements x %d bytes exceeds 4 GiB", what, o.ChunkDims, es)
		}
		chunkBytes *= c
	}
	o.DataAddr = lay.addr
	for i := range sp.dims {
		if sp.max != nil && sp.max[i] != ^uint64(0) && false {
			_ = i
		}
	}
	switch {
	case lay.version <= 3:
		o.ChunkIndex = "btree1"
		if libIndex && lay.addr == 0 {
			d.deviate("chunk-btree-addr-zero", "%s: chunk B-tree address is 0 (the superblock); a dataset without allocated chunks has the undefined address", what)
		} else if lay.addr != UndefAddr {
			d.chunkBtree(o, lay.addr, rank, what, libIndex)
		}
	case lay.idxType == 1:
		o.ChunkIndex = "single"
		if lay.addr != UndefAddr {
			sz := chunkBytes
			if lay.flags&2 != 0 {
				sz = lay.singleSize
			}
			if sz > 1<<32-1 {
				d.fail("%s: single chunk of %d bytes", what, sz)
			}
			o.Chunks = append(o.Chunks, Chunk{Offset: make([]uint64, rank+1), Addr: lay.addr, Size: uint32(sz), FilterMask: lay.singleMask})
		}
	case lay.idxType == 2:
		o.ChunkIndex = "implicit"
		if len(o.Filters) > 0 {
			d.fail("%s: implicit chunk index on a filtered dataset", what)
		}
		if lay.addr != UndefAddr {
			d.implicitChunks(o, sp, lay.addr, chunkBytes, rank, what)
		}
	case lay.idxType == 3:
		o.ChunkIndex = "fixed-array"
		if lay.addr != UndefAddr {
			d.fixedArrayChunks(o, sp, lay, chunkBytes, rank, what)
		}
	case lay.idxType == 4:
		o.ChunkIndex = "extensible-array"
		if lay.addr != UndefAddr {
			d.extArrayChunks(o, sp, lay, chunkBytes, rank, what)
		}
	case lay.idxType == 5:
		o.ChunkIndex = "btree2"
		if lay.addr != UndefAddr {
			d.btree2Chunks(o, sp, lay, chunkBytes, rank, what)
		}
	}
	// extents + checks per chunk
	for i := range o.Chunks {
		c := &o.Chunks[i]
		cw := fmt.Sprintf("%s chunk at offset %v", what, c.Offset[:rank])
		for k := 0; k < rank; k++ {
			if c.Offset[k]%o.ChunkDims[k] != 0 {
				d.fail("%s: offset %d in dimension %d is not a multiple of the chunk dimension %d", cw, c.Offset[k], k, o.ChunkDims[k])
			}
		}
		if len(o.Filters) == 0 && uint64(c.Size) != chunkBytes {
			d.fail("%s: stored size %d differs from the chunk size %d of an unfiltered dataset", cw, c.Size, chunkBytes)
		}
		if len(o.Filters) == 0 && c.FilterMask != 0 {
			d.fail("%s: filter mask 0x%x on an unfiltered dataset", cw, c.FilterMask)
		}
		if c.Addr == UndefAddr {
			d.fail("%s: chunk address is undefined", cw)
		}
		d.bytesAt(c.Addr, uint64(c.Size), cw)
		if c.Size > 0 {
			d.addExtent(d.abs(c.Addr), uint64(c.Size), "chunk")
		}
		o.DataSize += uint64(c.Size)
	}
	// assemble
	total := sp.nelems() * es
	raw := d.allocRaw(o, total)
	if raw == nil {
		return
	}
	for i := range o.Chunks {
		c := &o.Chunks[i]
		cw := fmt.Sprintf("%s chunk at offset %v", what, c.Offset[:rank])
		for k := 0; k < rank; k++ {
			if c.Offset[k] >= sp.dims[k] {
				d.fail("%s: offset %d in dimension %d lies outside the dataspace extent %d", cw, c.Offset[k], k, sp.dims[k])
			}
		}
		b := d.bytesAt(c.Addr, uint64(c.Size), cw)
		partial := false
		for k := 0; k < rank; k++ {
			if c.Offset[k]+o.ChunkDims[k] > sp.dims[k] {
				partial = true
			}
		}
		if len(o.Filters) > 0 && !(partial && lay.version == 4 && lay.flags&1 != 0) { // flag bit 0: partial edge chunks are stored unfiltered
			var err string
			b, err = d.unfilter(o, b, c.FilterMask, chunkBytes, cw)
			if err != "" {
				o.RawErr = err
				return
			}
		}
		if uint64(len(b)) != chunkBytes {
			d.fail("%s: %d bytes after undoing the filters, the chunk holds %d bytes", cw, len(b), chunkBytes)
		}
		copyChunk(raw, sp.dims, b, o.ChunkDims, c.Offset[:rank], es)
	}
	o.Raw = raw
}

// copyChunk copies the part of a chunk that lies inside the dataspace into the row-major dataset buffer.
func copyChunk(dst []byte, dims []uint64, chunk []byte, cdims, off []uint64, es uint64) {
	rank := len(dims)
	if rank == 0 {
		return
	}
	last := rank - 1
	if off[last] >= dims[last] {
		return
	}
	rowElems := cdims[last]
	if off[last]+rowElems > dims[last] {
		rowElems = dims[last] - off[last]
	}
	idx := make([]uint64, rank)
	for {
		inside := true
		var dpos, cpos uint64
		for k := 0; k < rank; k++ {
			g := off[k] + idx[k]
			if k < last && g >= dims[k] {
				inside = false
				break
			}
			dpos = dpos*dims[k] + g
			cpos = cpos*cdims[k] + idx[k]
		}
		if inside {
			copy(dst[dpos*es:(dpos+rowElems)*es], chunk[cpos*es:(cpos+rowElems)*es])
		}
		// next row (increment all but the last index)
		k := last - 1
		for ; k >= 0; k-- {
			idx[k]++
			if idx[k] < cdims[k] {
				break
			}
			idx[k] = 0
		}
		if k < 0 {
			return
		}
	}
}

// chunkBtree walks the version 1 B-tree (node type 1) of a chunked dataset.
func (d *dec) chunkBtree(o *Object, root uint64, rank int, what string, libIndex bool) {
	visited := map[uint64]bool{}
	keySize := uint64(8 + 8*(rank+1))
	if libIndex {
		keySize = uint64(8 + 8*rank)
	}
	K := d.f.ChunkK
	nodeSize := uint64(8+2*d.O) + uint64(2*K)*(keySize+uint64(d.O)) + keySize
	var prev []uint64
	var node func(addr uint64, wantLevel int, depth int)
	node = func(addr uint64, wantLevel, depth int) {
		a := d.abs(addr)
		nw := fmt.Sprintf("chunk B-tree node of %s", what)
		if visited[addr] {
			d.fail("%s at 0x%x: node reachable twice (cycle)", nw, a)
		}
		visited[addr] = true
		var b []byte
		if libIndex {
			hb := d.bytesAt(addr, uint64(8+2*d.O), nw)
			nn := uint64(hb[6]) | uint64(hb[7])<<8
			used := uint64(8+2*d.O) + nn*(keySize+uint64(d.O)) + keySize
			b = d.bytesAt(addr, used, nw)
		} else {
			b = d.bytesAt(addr, nodeSize, nw)
		}
		c := d.cursor(b, a, nw)
		c.sig("TREE")
		if t := c.u8("node type"); t != 1 {
			d.fail("%s at 0x%x: node type %d, expected 1 (raw data chunks)", nw, a, t)
		}
		level := int(c.u8("node level"))
		if wantLevel >= 0 && level != wantLevel {
			d.fail("%s at 0x%x: node level %d, parent expects %d", nw, a, level, wantLevel)
		}
		if level > 64 {
			d.fail("%s at 0x%x: node level %d is implausible", nw, a, level)
		}
		n := int(c.u16("entries used"))
		if libIndex {
			d.deviate("chunk-btree-node-unpadded", "%s at 0x%x: the node holds %d entries (2K = %d) and occupies only the %d bytes in use instead of the fixed node size %d", nw, a, n, 2*K, len(b), nodeSize)
		} else if n > 2*K {
			d.fail("%s at 0x%x: entries used %d exceeds 2K = %d", nw, a, n, 2*K)
		}
		c.addr("left sibling")
		c.addr("right sibling")
		d.addExtent(a, uint64(len(b)), "btree1-chunk")
		if n == 0 && depth > 0 {
			d.fail("%s at 0x%x: non-root node with 0 entries", nw, a)
		}
		for i := 0; i < n; i++ {
			var ch Chunk
			ch.Size = c.u32("key: chunk size")
			ch.FilterMask = c.u32("key: filter mask")
			ch.Offset = make([]uint64, rank+1)
			for k := range ch.Offset {
				if libIndex && k == rank {
					break // no element-size dimension in the key; Offset keeps the trailing 0
				}
				ch.Offset[k] = c.u64("key: chunk offset")
			}
			ch.Addr = c.addr("child pointer")
			if ch.Offset[rank] != 0 {
				d.fail("%s at 0x%x: key #%d has a non-zero offset %d in the element-size dimension", nw, a, i, ch.Offset[rank])
			}
			if ch.Addr == UndefAddr {
				d.fail("%s at 0x%x: child pointer #%d is undefined", nw, a, i)
			}
			if level > 0 {
				node(ch.Addr, level-1, depth+1)
				continue
			}
			if prev != nil && !lessOffsets(prev, ch.Offset) {
				d.fail("%s at 0x%x: key #%d (offset %v) does not sort after the preceding chunk (offset %v)", nw, a, i, ch.Offset, prev)
			}
			prev = ch.Offset
			if len(o.Chunks) > 4_000_000 {
				d.fail("%s at 0x%x: more than 4e6 chunks", nw, a)
			}
			o.Chunks = append(o.Chunks, ch)
		}
		c.skip(int(keySize), "final key")
	}
	node(root, -1, 0)
}

func lessOffsets(a, b []uint64) bool {
	for i := range a {
		if a[i] != b[i] {
			return a[i] < b[i]
		}
	}
	return false
}

func (d *dec) implicitChunks(o *Object, sp *dataspace, addr, chunkBytes uint64, rank int, what string) {
	// all chunks allocated contiguously in row-major chunk order
	nch := make([]uint64, rank)
	total := uint64(1)
	for k := 0; k < rank; k++ {
		nch[k] = (sp.dims[k] + o.ChunkDims[k] - 1) / o.ChunkDims[k]
		if nch[k] != 0 && total > 4_000_000/nch[k] {
			d.fail("%s: more than 4e6 chunks", what)
		}
		total *= nch[k]
	}
	idx := make([]uint64, rank)
	for i := uint64(0); i < total; i++ {
		off := make([]uint64, rank+1)
		for k := 0; k < rank; k++ {
			off[k] = idx[k] * o.ChunkDims[k]
		}
		o.Chunks = append(o.Chunks, Chunk{Offset: off, Addr: addr + i*chunkBytes, Size: uint32(chunkBytes)})
		for k := rank - 1; k >= 0; k-- {
			idx[k]++
			if idx[k] < nch[k] {
				break
			}
			idx[k] = 0
		}
	}
}

// unfilter undoes the filter pipeline on one chunk. A non-empty string means the data is unavailable (not a spec violation).
func (d *dec) unfilter(o *Object, b []byte, mask uint32, chunkBytes uint64, cw string) ([]byte, string) {
	for i := len(o.Filters) - 1; i >= 0; i-- {
		if mask&(1<<uint(i)) != 0 {
			continue
		}
		f := o.Filters[i]
		switch f.ID {
		case 1:
			zr, err := zlib.NewReader(bytes.NewReader(b))
			if err != nil {
				d.fail("%s: deflate filter: not a zlib stream: %v", cw, err)
			}
			limit := int64(chunkBytes) + 4096
			out, err := io.ReadAll(io.LimitReader(zr, limit+1))
			if err != nil {
				d.fail("%s: deflate filter: %v", cw, err)
			}
			if int64(len(out)) > limit {
				d.fail("%s: deflate filter: output exceeds the chunk size %d", cw, chunkBytes)
			}
			b = out
		case 2:
			es := 0
			if len(f.CD) > 0 {
				es = int(f.CD[0])
			}
			if es != int(o.Type.Size) {
				d.fail("%s: shuffle filter client data (element size %d) differs from the datatype size %d", cw, es, o.Type.Size)
			}
			b = unshuffle(b, es)
		case 3:
			if len(b) < 4 {
				d.fail("%s: fletcher32 filter: chunk of %d bytes has no room for the checksum", cw, len(b))
			}
			body := b[:len(b)-4]
			stored := le32(b[len(b)-4:])
			if got := refimpl.Fletcher32HDF5(body); got != stored {
				if fletcherLib(body) == stored {
					d.deviate("fletcher32-le-words", "%s: fletcher32 checksum 0x%08x was computed over little-endian 16-bit words; HDF5 sums big-endian words (0x%08x)", cw, stored, got)
				} else {
					d.fail("%s: fletcher32 checksum stored 0x%08x, computed 0x%08x", cw, stored, got)
				}
			}
			b = body
		default:
			return nil, fmt.Sprintf("unsupported: filter %d (%s)", f.ID, f.Name)
		}
	}
	return b, ""
}

func unshuffle(b []byte, es int) []byte {
	if es <= 1 || len(b) < es {
		return b
	}
	n := len(b) / es
	out := make([]byte, len(b))
	for j := 0; j < es; j++ {
		for i := 0; i < n; i++ {
			out[i*es+j] = b[j*n+i]
		}
	}
	copy(out[n*es:], b[n*es:])
	return out
}

// fletcherLib is the Fletcher-32 variant the pinned library writes: little-endian 16-bit words, sums
// reduced modulo 65535 after every word, an odd trailing byte taken as the low byte.
func fletcherLib(data []byte) uint32 {
	var s1, s2 uint32
	i := 0
	for ; i+1 < len(data); i += 2 {
		w := uint32(data[i]) | uint32(data[i+1])<<8
		s1 = (s1 + w) % 65535
		s2 = (s2 + s1) % 65535
	}
	if i < len(data) {
		s1 = (s1 + uint32(data[i])) % 65535
		s2 = (s2 + s1) % 65535
	}
	return s2<<16 | s1
}
