// Package indep is an independent decoder of the HDF5 file format, written from the HDF5 File
// Format Specification (version 3.0). It imports nothing from github.com/scigolib/hdf5: it is the
// oracle that files written by that library are compared against (property C05), and it is itself
// validated by decoding the reference-library corpus strictly (no tolerated deviations).
//
// Decode walks from the superblock through every structure reachable by hard links, verifies
// signatures, versions, reserved fields, size fields and checksums, and records the extent
// [start,end) of every structure it touches.
package indep

import (
	"fmt"
	"sort"
	"strings"
)

// Options selects the named deviations from the specification that are tolerated (default: none).
type Options struct{ Tolerate map[string]bool }

// Extent is the half-open byte range [Start,End) of one on-disk structure (absolute file offsets).
type Extent struct {
	Start, End uint64
	Kind       string
	Owner      string
}

type Datatype struct {
	Class    int
	Version  int
	Size     uint32
	BitField uint32
	Props    []byte // raw property bytes of this datatype message (including nested types)

	Signed    bool // class 0
	BigEndian bool // class 0,1,2,4
	StrPad    int  // class 3 (and vlen strings)
	CharSet   int  // class 3 (and vlen strings)

	Base         *Datatype // class 8, 9, 10 (and 11)
	ArrayDims    []uint64
	Members      []Member
	EnumNames    []string
	EnumValues   [][]byte
	OpaqueTag    string
	VLenIsString bool
	RefType      int

	// Float properties (class 1), bit offset / precision (class 0,1,4)
	BitOffset, Precision               uint16
	ExpLoc, ExpSize, MantLoc, MantSize uint8
	ExpBias                            uint32
	Shared                             bool   // datatype came from a committed datatype (shared message)
	SharedAddr                         uint64 // header address of the committed datatype
	encLen                             int    // encoded length of this message (8+len(Props))
}

type Member struct {
	Name   string
	Offset uint32
	Type   *Datatype
}

type Attribute struct {
	Name       string
	Type       *Datatype
	Dims       []uint64
	Scalar     bool
	Data       []byte
	MsgVersion int
	Dense      bool
}

type Link struct {
	Name             string
	Kind             string // "hard","soft","external","user-defined"
	Addr             uint64
	SoftPath         string
	ExtFile, ExtPath string
}

type Chunk struct {
	Offset     []uint64 // element offsets per dim as stored in the key (incl. trailing 0)
	Addr       uint64
	Size       uint32
	FilterMask uint32
}

type Filter struct {
	ID    uint16
	Flags uint16
	Name  string
	CD    []uint32
}

type Object struct {
	Path          string
	Addr          uint64
	HeaderVersion int
	Kind          string // "group","dataset","datatype","unknown"
	RefCount      uint32
	MsgTypes      []uint16
	Attrs         []Attribute
	Links         []Link
	GroupStorage  string // "symbol-table","compact-links","dense-links"
	Type          *Datatype
	Dims, MaxDims []uint64
	Scalar        bool
	Layout        string // "compact","contiguous","chunked","virtual"
	LayoutVersion int
	ChunkDims     []uint64
	ChunkIndex    string // "btree1","single","implicit","fixed-array","extensible-array","btree2"
	DataAddr      uint64
	DataSize      uint64
	Filters       []Filter
	FillValue     []byte
	Raw           []byte
	RawErr        string
	Chunks        []Chunk
	Comment       string
}

type GCol struct {
	Addr, Size uint64
	Objects    map[uint16][]byte
	FreeSpace  uint64
}

type File struct {
	SuperblockVersion           int
	OffsetSize, LengthSize      int
	BaseAddr, EOFAddr, RootAddr uint64
	SuperblockAddr              uint64 // absolute offset of the superblock signature (= effective BaseAddr)
	StoredBaseAddr              uint64 // base address field as stored
	ExtensionAddr               uint64
	GroupLeafK, GroupInternalK  int
	ChunkK                      int
	Objects                     map[uint64]*Object
	Paths                       map[string]uint64
	Extents                     []Extent
	Marks                       []uint64 // absolute offsets of object header message boundaries (inside the header extents)
	Deviations                  map[string]int
	GlobalHeaps                 map[uint64]*GCol
	Unsupported                 []string // features met that this decoder does not implement (decoding continued around them)

	data     []byte
	tol      map[string]bool
	resolver *dec
}

// UndefAddr is the decoded form of the "undefined address" (all ones in OffsetSize bytes).
const UndefAddr = ^uint64(0)

type specError struct{ msg string }

func (e *specError) Error() string { return e.msg }

// EOFAbsolute is the absolute file offset the superblock's end-of-file address denotes. The stored
// value is an absolute address computed with the stored base address; when the superblock sits
// elsewhere (user block added later) it moves by the same amount.
func (f *File) EOFAbsolute() uint64 { return f.EOFAddr - f.StoredBaseAddr + f.BaseAddr }

// Lookup returns the object a hard-link path leads to, or nil.
func (f *File) Lookup(path string) *Object {
	if f == nil {
		return nil
	}
	if path == "" {
		path = "/"
	}
	if a, ok := f.Paths[path]; ok {
		return f.Objects[a]
	}
	return nil
}

// CheckExtents reports every extent that ends beyond the file size, beyond the end-of-file address
// recorded in the superblock, is empty/inverted, and every pair of overlapping extents.
func (f *File) CheckExtents(fileSize uint64) []string {
	var out []string
	eof := f.EOFAbsolute()
	if eof > fileSize {
		out = append(out, fmt.Sprintf("superblock end-of-file address 0x%x lies beyond the file size 0x%x (file truncated)", eof, fileSize))
	}
	ex := make([]Extent, len(f.Extents))
	copy(ex, f.Extents)
	sort.SliceStable(ex, func(i, j int) bool {
		if ex[i].Start != ex[j].Start {
			return ex[i].Start < ex[j].Start
		}
		return ex[i].End < ex[j].End
	})
	desc := func(e Extent) string {
		return fmt.Sprintf("%s[0x%x,0x%x) of %s", e.Kind, e.Start, e.End, e.Owner)
	}
	for _, e := range ex {
		if e.End < e.Start {
			out = append(out, "inverted extent "+desc(e))
			continue
		}
		if e.End > fileSize {
			out = append(out, fmt.Sprintf("beyond file size 0x%x: %s", fileSize, desc(e)))
		}
		if e.End > eof && !(f.tol != nil && f.tol["superblock-eof-stale"]) {
			out = append(out, fmt.Sprintf("beyond superblock EOF address 0x%x: %s", eof, desc(e)))
		}
	}
	// sorted sweep: keep the extent reaching furthest so far
	var far *Extent
	for i := range ex {
		e := &ex[i]
		if e.End <= e.Start {
			continue
		}
		if far != nil && e.Start < far.End {
			out = append(out, fmt.Sprintf("overlap: %s with %s", desc(*far), desc(*e)))
		}
		if far == nil || e.End > far.End {
			far = e
		}
	}
	return out
}

// ---------------------------------------------------------------------------------------------

type dec struct {
	d    []byte
	f    *File
	O, L int
	base uint64

	hdrCache   map[uint64]*header
	extSeen    map[string]bool
	extHdr     []uint64 // parallel to f.Extents: header address the extent belongs to (or UndefAddr)
	heapCache  map[uint64]*localHeap
	fheapCache map[uint64]*fheap
	owner      string
	ownerHdr   uint64
	depth      int
	rawUsed    uint64
	lib        bool     // decoding a datatype in library-layout mode
	libDevs    []string // deviations met in library-layout mode

	rootCached                   bool
	rootCachedBT, rootCachedHeap uint64
}

func (d *dec) fail(format string, a ...interface{}) {
	panic(&specError{msg: fmt.Sprintf(format, a...)})
}

type unsupportedError struct{ msg string }

func (e *unsupportedError) Error() string { return e.msg }

// unsupported aborts the decoding of the current sub-structure; callers that can continue around it
// recover with d.try.
func (d *dec) unsupported(format string, a ...interface{}) {
	panic(&unsupportedError{msg: "unsupported: " + fmt.Sprintf(format, a...)})
}

func (d *dec) noteUnsupported(msg string) {
	msg = strings.TrimPrefix(msg, "unsupported: ")
	for _, m := range d.f.Unsupported {
		if m == msg {
			return
		}
	}
	d.f.Unsupported = append(d.f.Unsupported, msg)
}

// try runs fn and converts an "unsupported" abort into a returned message (spec violations propagate).
func (d *dec) try(fn func()) (unsup string) {
	defer func() {
		if r := recover(); r != nil {
			if u, ok := r.(*unsupportedError); ok {
				unsup = u.msg
				return
			}
			panic(r)
		}
	}()
	fn()
	return ""
}

func (d *dec) tolerated(name string) bool { return d.f.tol != nil && d.f.tol[name] }

// deviate records the use of a named deviation, or aborts with "deviation <name>: ..." when it is not tolerated.
func (d *dec) deviate(name, format string, a ...interface{}) {
	if d.tolerated(name) {
		d.f.Deviations[name]++
		return
	}
	panic(&specError{msg: "deviation " + name + ": " + fmt.Sprintf(format, a...)})
}

func (d *dec) addExtent(start, size uint64, kind string) {
	end := start + size
	if end < start {
		d.fail("%s at 0x%x: size 0x%x overflows the address space", kind, start, size)
	}
	key := fmt.Sprintf("%x-%x-%s", start, end, kind)
	if d.extSeen[key] {
		return
	}
	d.extSeen[key] = true
	if len(d.f.Extents) > 4_000_000 {
		d.fail("more than 4e6 structures: refusing to continue")
	}
	d.f.Extents = append(d.f.Extents, Extent{Start: start, End: end, Kind: kind, Owner: d.owner})
	d.extHdr = append(d.extHdr, d.ownerHdr)
}

// abs converts a file address (relative to the base address) into an absolute offset.
func (d *dec) abs(addr uint64) uint64 { return addr + d.base }

// bytesAt returns data[abs(addr) : +n] after bounds-checking.
func (d *dec) bytesAt(addr, n uint64, what string) []byte {
	if addr == UndefAddr {
		d.fail("%s: address is undefined", what)
	}
	a := addr + d.base
	if a < addr || a > uint64(len(d.d)) || n > uint64(len(d.d))-a {
		d.fail("%s at 0x%x: %d bytes extend beyond the end of the file (size 0x%x)", what, a, n, len(d.d))
	}
	return d.d[a : a+n]
}

// cur is a bounds-checked little-endian cursor over one structure.
type cur struct {
	d    *dec
	b    []byte
	pos  int
	org  uint64 // absolute offset of b[0]
	what string
}

func (d *dec) cursor(b []byte, org uint64, what string) *cur {
	return &cur{d: d, b: b, org: org, what: what}
}

func (c *cur) need(n int, field string) {
	if n < 0 || c.pos+n > len(c.b) || c.pos+n < c.pos {
		c.d.fail("%s at 0x%x: field %q (%d bytes at +%d) runs past the end of the structure (%d bytes)", c.what, c.org, field, n, c.pos, len(c.b))
	}
}
func (c *cur) rem() int { return len(c.b) - c.pos }
func (c *cur) u8(field string) uint8 {
	c.need(1, field)
	v := c.b[c.pos]
	c.pos++
	return v
}
func (c *cur) u16(field string) uint16 {
	c.need(2, field)
	v := uint16(c.b[c.pos]) | uint16(c.b[c.pos+1])<<8
	c.pos += 2
	return v
}
func (c *cur) u32(field string) uint32 {
	c.need(4, field)
	b := c.b[c.pos:]
	v := uint32(b[0]) | uint32(b[1])<<8 | uint32(b[2])<<16 | uint32(b[3])<<24
	c.pos += 4
	return v
}
func (c *cur) uN(n int, field string) uint64 {
	if n > 8 {
		c.d.fail("%s at 0x%x: field %q wider than 8 bytes (%d)", c.what, c.org, field, n)
	}
	c.need(n, field)
	var v uint64
	for i := 0; i < n; i++ {
		v |= uint64(c.b[c.pos+i]) << (8 * uint(i))
	}
	c.pos += n
	return v
}
func (c *cur) u64(field string) uint64    { return c.uN(8, field) }
func (c *cur) length(field string) uint64 { return c.uN(c.d.L, field) }
func (c *cur) addr(field string) uint64 {
	v := c.uN(c.d.O, field)
	if c.d.O < 8 && v == (uint64(1)<<(8*uint(c.d.O)))-1 {
		return UndefAddr
	}
	return v
}
func (c *cur) bytes(n int, field string) []byte {
	c.need(n, field)
	v := c.b[c.pos : c.pos+n]
	c.pos += n
	return v
}
func (c *cur) skip(n int, field string) { c.need(n, field); c.pos += n }
func (c *cur) zero(n int, field string) {
	c.need(n, field)
	for i := 0; i < n; i++ {
		if c.b[c.pos+i] != 0 {
			c.d.fail("%s at 0x%x: reserved field %q at +%d is not zero (% x)", c.what, c.org, field, c.pos, c.b[c.pos:c.pos+n])
		}
	}
	c.pos += n
}
func (c *cur) sig(s string) {
	c.need(len(s), "signature")
	if string(c.b[c.pos:c.pos+len(s)]) != s {
		c.d.fail("%s at 0x%x: signature is %q, expected %q", c.what, c.org, c.b[c.pos:c.pos+len(s)], s)
	}
	c.pos += len(s)
}

// cstr reads a NUL-terminated string; if pad>0 the total consumed length (incl. NUL) is rounded up to a multiple of pad.
func (c *cur) cstr(pad int, field string) string {
	start := c.pos
	for {
		if c.pos >= len(c.b) {
			c.d.fail("%s at 0x%x: string field %q is not NUL-terminated inside the structure", c.what, c.org, field)
		}
		if c.b[c.pos] == 0 {
			break
		}
		c.pos++
	}
	s := string(c.b[start:c.pos])
	c.pos++
	if pad > 0 {
		n := c.pos - start
		if r := n % pad; r != 0 {
			c.skip(pad-r, field+" padding")
		}
	}
	return s
}

// Decode decodes an HDF5 file image: superblock, then every object reachable from the root group by
// hard links (each object header once; further paths are only recorded in Paths), with all the
// structures they refer to. The error is the first specification violation that is not a tolerated
// deviation ("deviation <name>: ..." for the named ones), an "unsupported: ..." error (IsUnsupported)
// when the only obstacle was a format feature this decoder does not implement (decoding continued
// around it where possible, see File.Unsupported), or nil. The *File is returned in every case and
// holds whatever was decoded before the error. Decode never panics; it bounds every allocation by the
// input size or a fixed cap.
func Decode(data []byte, opt Options) (f *File, err error) {
	f = &File{
		Objects:     map[uint64]*Object{},
		Paths:       map[string]uint64{},
		Deviations:  map[string]int{},
		GlobalHeaps: map[uint64]*GCol{},
		data:        data,
		tol:         opt.Tolerate,
	}
	d := &dec{d: data, f: f, hdrCache: map[uint64]*header{}, extSeen: map[string]bool{}, heapCache: map[uint64]*localHeap{}, fheapCache: map[uint64]*fheap{}, ownerHdr: UndefAddr}
	defer func() {
		d.fixOwners()
		if r := recover(); r != nil {
			switch e := r.(type) {
			case *specError:
				err = e
			case *unsupportedError:
				err = e
			default:
				err = fmt.Errorf("internal decoder panic: %v", r)
			}
			return
		}
		if err == nil && len(f.Unsupported) > 0 {
			msg := "unsupported: " + f.Unsupported[0]
			if n := len(f.Unsupported); n > 1 {
				msg += fmt.Sprintf(" (+%d more)", n-1)
			}
			err = &unsupportedError{msg: msg}
		}
	}()
	d.superblock()
	d.walk()
	return f, nil
}

// pseudoLink rewrites the parent's hard link to a link pseudo-object into the link that object holds.
func (d *dec) pseudoLink(path string, o *Object) {
	f := d.f
	i := strings.LastIndex(path, "/")
	parent, name := path[:i], path[i+1:]
	if parent == "" {
		parent = "/"
	}
	inner := o.Links[0]
	if inner.Name != name {
		d.fail("object header 0x%x (%s): link pseudo-object holds a link named %q but is entered in its group as %q", d.abs(o.Addr), path, inner.Name, name)
	}
	po := f.Objects[f.Paths[parent]]
	if po == nil {
		return
	}
	n := 0
	for k := range po.Links {
		if po.Links[k].Kind == "hard" && po.Links[k].Addr == o.Addr {
			n++
			if po.Links[k].Name == name {
				inner.Addr = UndefAddr
				po.Links[k] = inner
			}
		}
	}
	delete(f.Paths, path)
}

// IsUnsupported reports whether err (from Decode) only says that the file uses a feature this decoder does not implement.
func IsUnsupported(err error) bool {
	_, ok := err.(*unsupportedError)
	return ok
}

func (d *dec) fixOwners() {
	for i := range d.f.Extents {
		if i < len(d.extHdr) && d.extHdr[i] != UndefAddr {
			if o := d.f.Objects[d.extHdr[i]]; o != nil && o.Path != "" {
				d.f.Extents[i].Owner = o.Path
			}
		}
	}
}

func (d *dec) setOwner(path string, hdr uint64) (restore func()) {
	po, ph := d.owner, d.ownerHdr
	d.owner, d.ownerHdr = path, hdr
	return func() { d.owner, d.ownerHdr = po, ph }
}

// walk decodes the root group and everything reachable by hard links (breadth first).
func (d *dec) walk() {
	f := d.f
	if f.ExtensionAddr != UndefAddr {
		r := d.setOwner("<superblock-extension>", f.ExtensionAddr)
		o := d.object(f.ExtensionAddr, "<superblock-extension>")
		f.Objects[f.ExtensionAddr] = o
		r()
	}
	type item struct {
		path string
		addr uint64
	}
	queue := []item{{"/", f.RootAddr}}
	f.Paths["/"] = f.RootAddr
	for len(queue) > 0 {
		it := queue[0]
		queue = queue[1:]
		if _, done := f.Objects[it.addr]; done {
			continue
		}
		r := d.setOwner(it.path, it.addr)
		o := d.object(it.addr, it.path)
		r()
		f.Objects[it.addr] = o
		if o.Kind == "link-pseudo-object" {
			// present it the way it is meant: as a soft/external link of the containing group
			d.pseudoLink(it.path, o)
			continue
		}
		for _, l := range o.Links {
			if l.Kind != "hard" {
				continue
			}
			p := it.path
			if !strings.HasSuffix(p, "/") {
				p += "/"
			}
			p += l.Name
			if _, dup := f.Paths[p]; dup {
				d.fail("group %s (object header 0x%x): link name %q occurs twice", it.path, d.abs(it.addr), l.Name)
			}
			if len(f.Paths) > 2_000_000 {
				d.fail("more than 2e6 paths: refusing to continue")
			}
			f.Paths[p] = l.Addr
			if _, done := f.Objects[l.Addr]; !done {
				queue = append(queue, item{p, l.Addr})
			}
		}
	}
	d.scanVLen()
	if d.rootCached {
		d.checkCachedStab(stEntry{name: "/", addr: f.RootAddr}, "<superblock root entry>", d.rootCachedBT, d.rootCachedHeap)
	}
	// every structure must lie below the end-of-file address recorded in the superblock
	eof := f.EOFAbsolute()
	for _, e := range f.Extents {
		if e.End > eof {
			d.deviate("superblock-eof-stale", "superblock end-of-file address 0x%x: %s [0x%x,0x%x) of %s lies beyond it", eof, e.Kind, e.Start, e.End, e.Owner)
			break
		}
	}
}

// KnownDeviations lists every named deviation this decoder can tolerate (see notes/indep-deviations.md).
var KnownDeviations = []string{
	"btree2-empty-root",
	"btree2-equal-hash-order",
	"superblock-crc32",
	"superblock-eof-stale",
	"ohdr-v2-no-checksum",
	"btree2-crc32",
	"fheap-crc32",
	"attr-btree2-type5",
	"fheap-offsets-exclude-block-header",
	"fheap-addr-zero-for-undefined",
	"gcol-free-size-excludes-header",
	"refcount-msg-no-version",
	"attr-info-msg-type-0x0f",
	"link-pseudo-object",
	"link-fheap-id-length-8",
	"external-link-value-layout",
	"dense-link-msg-layout",
	"dense-group-dataspace-msg",
	"vlen-element-no-length",
	"filter-pipeline-v2-with-v1-layout",
	"fletcher32-le-words",
	"chunked-no-elemsize-dim",
	"chunk-btree-node-unpadded",
	"chunk-btree-addr-zero",
	"datatype-fixed-props",
	"datatype-float-props",
	"datatype-string-extra-byte",
	"datatype-compound-v3-layout",
	"datatype-enum-layout",
	"datatype-vlen-layout",
	"group-btree-keys",
	"snod-order",
	"snod-capacity-32",
	"snod-empty",
	"btree1-node-truncated",
}

// TolerateAll returns Options tolerating every known deviation.
func TolerateAll() Options {
	m := map[string]bool{}
	for _, n := range KnownDeviations {
		m[n] = true
	}
	return Options{Tolerate: m}
}
