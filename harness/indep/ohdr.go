package indep

import "fmt"

// Header message types.
const (
	mNil          = 0x00
	mDataspace    = 0x01
	mLinkInfo     = 0x02
	mDatatype     = 0x03
	mFillOld      = 0x04
	mFill         = 0x05
	mLink         = 0x06
	mExternal     = 0x07
	mLayout       = 0x08
	mBogus        = 0x09
	mGroupInfo    = 0x0A
	mPipeline     = 0x0B
	mAttribute    = 0x0C
	mComment      = 0x0D
	mModTimeOld   = 0x0E
	mSOHMTable    = 0x0F
	mContinuation = 0x10
	mSymbolTable  = 0x11
	mModTime      = 0x12
	mBtreeK       = 0x13
	mDriverInfo   = 0x14
	mAttrInfo     = 0x15
	mRefCount     = 0x16
	mFileSpace    = 0x17
	mMaxKnown     = 0x18
)

type rawMsg struct {
	typ     uint16
	flags   uint8
	data    []byte
	abs     uint64 // absolute offset of data[0]
	crOrder uint16
	hasCO   bool
	chunk   int
}

type header struct {
	addr       uint64 // file address (relative to base)
	version    int
	flags      uint8
	refCount   uint32
	msgs       []rawMsg
	maxCompact int
	minDense   int
	hasPhase   bool
	nChunks    int
}

const maxHeaderChunks = 4096
const maxHeaderMsgs = 1 << 20

// parseHeader reads the object header at addr (all chunks) into raw messages, verifying the
// framing (version, reserved fields, sizes, checksums) and recording its extents.
func (d *dec) parseHeader(addr uint64) *header {
	if h, ok := d.hdrCache[addr]; ok {
		if h == nil {
			d.fail("object header at 0x%x: referenced recursively from its own messages", d.abs(addr))
		}
		return h
	}
	d.hdrCache[addr] = nil
	restore := d.setOwner(d.owner, addr)
	defer restore()
	p := d.bytesAt(addr, 4, "object header")
	var h *header
	if string(p) == "OHDR" {
		h = d.parseHeaderV2(addr)
	} else {
		h = d.parseHeaderV1(addr)
	}
	d.hdrCache[addr] = h
	return h
}

type chunkRange struct{ start, end uint64 }

func overlapsAny(rs []chunkRange, s, e uint64) bool {
	for _, r := range rs {
		if s < r.end && r.start < e {
			return true
		}
	}
	return false
}

func (d *dec) parseHeaderV1(addr uint64) *header {
	a := d.abs(addr)
	what := "object header v1"
	c := d.cursor(d.bytesAt(addr, 16, what), a, what)
	ver := c.u8("version")
	if ver != 1 {
		d.fail("%s at 0x%x: version byte %d (expected 1, or signature OHDR for version 2)", what, a, ver)
	}
	c.zero(1, "reserved")
	nmsgs := int(c.u16("total number of header messages"))
	h := &header{addr: addr, version: 1}
	h.refCount = c.u32("object reference count")
	hsize := uint64(c.u32("object header size"))
	c.skip(4, "alignment padding")
	if hsize%8 != 0 {
		d.fail("%s at 0x%x: object header size %d is not a multiple of 8", what, a, hsize)
	}
	type chunk struct {
		addr, size uint64
	}
	chunks := []chunk{{addr + 16, hsize}}
	var seen []chunkRange
	d.bytesAt(addr, 16+hsize, what+" first chunk")
	d.addExtent(a, 16+hsize, "ohdr")
	seen = append(seen, chunkRange{a, a + 16 + hsize})
	for ci := 0; ci < len(chunks); ci++ {
		ch := chunks[ci]
		cw := fmt.Sprintf("%s at 0x%x chunk %d", what, a, ci)
		cc := d.cursor(d.bytesAt(ch.addr, ch.size, cw), d.abs(ch.addr), cw)
		for cc.rem() > 0 {
			if cc.rem() < 8 {
				d.fail("%s: %d trailing bytes do not hold a message header", cw, cc.rem())
			}
			typ := cc.u16("message type")
			size := int(cc.u16("message data size"))
			flags := cc.u8("message flags")
			cc.zero(3, "message reserved")
			if size%8 != 0 {
				d.fail("%s: message type 0x%04x at +%d has data size %d, not a multiple of 8", cw, typ, cc.pos-8, size)
			}
			if size > cc.rem() {
				d.fail("%s: message type 0x%04x at +%d has data size %d but only %d bytes remain in the chunk", cw, typ, cc.pos-8, size, cc.rem())
			}
			m := rawMsg{typ: typ, flags: flags, abs: cc.org + uint64(cc.pos), chunk: ci}
			m.data = cc.bytes(size, "message data")
			d.f.Marks = append(d.f.Marks, m.abs-8, m.abs)
			if len(h.msgs) >= maxHeaderMsgs {
				d.fail("%s: more than %d messages", cw, maxHeaderMsgs)
			}
			h.msgs = append(h.msgs, m)
			if typ == mContinuation {
				mc := d.cursor(m.data, m.abs, cw+" continuation message")
				off := mc.addr("offset")
				ln := mc.length("length")
				if off == UndefAddr {
					d.fail("%s: continuation message has undefined offset", cw)
				}
				if ln < 8 || ln%8 != 0 {
					d.fail("%s: continuation block length %d is not a positive multiple of 8", cw, ln)
				}
				if len(chunks) >= maxHeaderChunks {
					d.fail("%s: more than %d chunks", cw, maxHeaderChunks)
				}
				d.bytesAt(off, ln, cw+" continuation block")
				s := d.abs(off)
				if overlapsAny(seen, s, s+ln) {
					d.fail("%s: continuation block [0x%x,0x%x) overlaps an earlier chunk of the same header", cw, s, s+ln)
				}
				seen = append(seen, chunkRange{s, s + ln})
				d.addExtent(s, ln, "ohdr-cont")
				chunks = append(chunks, chunk{off, ln})
			}
		}
	}
	h.nChunks = len(chunks)
	if len(h.msgs) != nmsgs {
		d.fail("%s at 0x%x: total number of header messages is %d but the chunks hold %d messages", what, a, nmsgs, len(h.msgs))
	}
	return h
}

func (d *dec) parseHeaderV2(addr uint64) *header {
	a := d.abs(addr)
	what := "object header v2"
	// prefix is at most 4+1+1+16+4+8 bytes
	avail := uint64(len(d.d)) - a
	if avail > 34 {
		avail = 34
	}
	c := d.cursor(d.bytesAt(addr, avail, what), a, what)
	c.sig("OHDR")
	if v := c.u8("version"); v != 2 {
		d.fail("%s at 0x%x: version %d, expected 2", what, a, v)
	}
	h := &header{addr: addr, version: 2, refCount: 1}
	h.flags = c.u8("flags")
	if h.flags&0xC0 != 0 {
		d.fail("%s at 0x%x: flags 0x%02x have reserved bits 6-7 set", what, a, h.flags)
	}
	if h.flags&0x20 != 0 {
		c.skip(16, "access/modification/change/birth times")
	}
	if h.flags&0x10 != 0 {
		h.maxCompact = int(c.u16("maximum number of compact attributes"))
		h.minDense = int(c.u16("minimum number of dense attributes"))
		h.hasPhase = true
	}
	size0 := c.uN(1<<(h.flags&3), "size of chunk #0")
	prefix := uint64(c.pos)
	// checksum: lookup3 over everything before it. The pinned library writes no checksum field at all.
	ckLen := uint64(4)
	var full []byte
	if a+prefix+size0+4 > uint64(len(d.d)) && a+prefix+size0 <= uint64(len(d.d)) {
		ckLen = 0
		full = d.bytesAt(addr, prefix+size0, what+" first chunk")
		d.deviate("ohdr-v2-no-checksum", "%s at 0x%x: the file ends right after the %d header bytes, there is no checksum field", what, a, prefix+size0)
	} else {
		full = d.bytesAt(addr, prefix+size0+4, what+" first chunk")
		stored := le32(full[prefix+size0:])
		if got := checksum(full[:prefix+size0]); got != stored {
			d.deviate("ohdr-v2-no-checksum", "%s at 0x%x: stored checksum 0x%08x, lookup3 over the %d header bytes is 0x%08x", what, a, stored, prefix+size0, got)
			ckLen = 0 // the writer reserves no checksum field: the 4 bytes belong to whatever follows
		}
	}
	d.addExtent(a, prefix+size0+ckLen, "ohdr")
	seen := []chunkRange{{a, a + prefix + size0 + ckLen}}
	type chunk struct {
		body []byte
		org  uint64
	}
	chunks := []chunk{{full[prefix : prefix+size0], a + prefix}}
	mhdr := 4
	if h.flags&0x04 != 0 {
		mhdr = 6
	}
	for ci := 0; ci < len(chunks); ci++ {
		cw := fmt.Sprintf("%s at 0x%x chunk %d", what, a, ci)
		cc := d.cursor(chunks[ci].body, chunks[ci].org, cw)
		for cc.rem() >= mhdr {
			typ := uint16(cc.u8("message type"))
			size := int(cc.u16("message data size"))
			flags := cc.u8("message flags")
			m := rawMsg{typ: typ, flags: flags, chunk: ci}
			if mhdr == 6 {
				m.crOrder = cc.u16("message creation order")
				m.hasCO = true
			}
			if size > cc.rem() {
				d.fail("%s: message type 0x%02x at +%d has data size %d but only %d bytes remain in the chunk", cw, typ, cc.pos-mhdr, size, cc.rem())
			}
			m.abs = cc.org + uint64(cc.pos)
			m.data = cc.bytes(size, "message data")
			d.f.Marks = append(d.f.Marks, m.abs-uint64(mhdr), m.abs)
			if len(h.msgs) >= maxHeaderMsgs {
				d.fail("%s: more than %d messages", cw, maxHeaderMsgs)
			}
			h.msgs = append(h.msgs, m)
			if typ == mContinuation {
				mc := d.cursor(m.data, m.abs, cw+" continuation message")
				off := mc.addr("offset")
				ln := mc.length("length")
				if off == UndefAddr {
					d.fail("%s: continuation message has undefined offset", cw)
				}
				if ln < uint64(8+mhdr) {
					d.fail("%s: continuation block length %d is too small for signature, one message and checksum", cw, ln)
				}
				if len(chunks) >= maxHeaderChunks {
					d.fail("%s: more than %d chunks", cw, maxHeaderChunks)
				}
				blk := d.bytesAt(off, ln, cw+" continuation block")
				s := d.abs(off)
				if overlapsAny(seen, s, s+ln) {
					d.fail("%s: continuation block [0x%x,0x%x) overlaps an earlier chunk of the same header", cw, s, s+ln)
				}
				seen = append(seen, chunkRange{s, s + ln})
				if string(blk[:4]) != "OCHK" {
					d.fail("object header continuation block at 0x%x (header 0x%x): signature is %q, expected \"OCHK\"", s, a, blk[:4])
				}
				st := le32(blk[ln-4:])
				if got := checksum(blk[:ln-4]); got != st {
					d.fail("object header continuation block at 0x%x (header 0x%x): stored checksum 0x%08x, lookup3 over the %d block bytes is 0x%08x", s, a, st, ln-4, got)
				}
				d.addExtent(s, ln, "ohdr-cont")
				chunks = append(chunks, chunk{blk[4 : ln-4], s + 4})
			}
		}
		// gap: fewer bytes than a message prefix; the reference writer zero-fills it
		for i := cc.pos; i < len(cc.b); i++ {
			if cc.b[i] != 0 {
				d.fail("%s: %d-byte gap at the end of the chunk is not zero-filled", cw, cc.rem())
			}
		}
	}
	h.nChunks = len(chunks)
	return h
}

// deviateOrFail: a mismatch that is a named deviation when isDev holds, else a plain spec violation.
func (d *dec) deviateOrFail(name string, isDev bool, format string, a ...interface{}) {
	if isDev {
		d.deviate(name, format, a...)
		return
	}
	d.fail(format, a...)
}
