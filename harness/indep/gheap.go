package indep

import (
	"errors"
	"fmt"
	"sort"
)

// gcol decodes the global heap collection at addr (cached in File.GlobalHeaps).
func (d *dec) gcol(addr uint64) *GCol {
	if g, ok := d.f.GlobalHeaps[addr]; ok {
		return g
	}
	what := "global heap collection"
	a := d.abs(addr)
	hb := d.bytesAt(addr, uint64(8+d.L), what)
	c := d.cursor(hb, a, what)
	c.sig("GCOL")
	if v := c.u8("version"); v != 1 {
		d.fail("%s at 0x%x: version %d, expected 1", what, a, v)
	}
	c.zero(3, "reserved")
	size := c.length("collection size")
	if size < uint64(8+d.L) {
		d.fail("%s at 0x%x: collection size %d is smaller than its own header", what, a, size)
	}
	b := d.bytesAt(addr, size, what)
	g := &GCol{Addr: addr, Size: size, Objects: map[uint16][]byte{}}
	c = d.cursor(b, a, what)
	c.skip(8+d.L, "header")
	ohdr := 8 + d.L
	for c.rem() >= ohdr {
		opos := c.pos
		idx := c.u16("heap object index")
		c.u16("reference count")
		c.skip(4, "reserved")
		osz := c.length("object size")
		if idx == 0 {
			// free space object: its size covers its own header and everything to the end of the collection
			if osz+uint64(ohdr) == uint64(len(b)-opos) {
				d.deviate("gcol-free-size-excludes-header", "%s at 0x%x: free-space object at +%d has size %d, %d bytes remain in the collection (the size of object 0 includes its own %d-byte header)", what, a, opos, osz, len(b)-opos, ohdr)
			} else if osz != uint64(len(b)-opos) {
				d.fail("%s at 0x%x: free-space object at +%d has size %d, %d bytes remain in the collection", what, a, opos, osz, len(b)-opos)
			}
			g.FreeSpace = osz
			break
		}
		padded := (osz + 7) &^ 7
		if padded < osz || padded > uint64(c.rem()) {
			d.fail("%s at 0x%x: object %d at +%d has size %d, only %d bytes remain in the collection", what, a, idx, opos, osz, c.rem())
		}
		if _, dup := g.Objects[idx]; dup {
			d.fail("%s at 0x%x: object index %d occurs twice", what, a, idx)
		}
		g.Objects[idx] = c.bytes(int(osz), "object data")
		c.skip(int(padded-osz), "object padding")
	}
	d.addExtent(a, size, "gcol")
	d.f.GlobalHeaps[addr] = g
	return g
}

// vlenRef decodes one on-disk variable-length element (spec: length(4), collection address(O), object index(4)).
// It returns the heap object bytes and the element count stored in the length word.
func (d *dec) vlenRef(ref []byte, what string) (obj []byte, count uint32, hasCount bool) {
	c := d.cursor(ref, 0, what)
	count = c.u32("sequence length")
	addr := c.addr("global heap collection address")
	idx := c.u32("global heap object index")
	strictOK := false
	var strictErr string
	if addr == 0 && idx == 0 || addr == UndefAddr {
		// null sequence
		return nil, count, true
	}
	func() {
		defer func() {
			if r := recover(); r != nil {
				if e, ok := r.(*specError); ok {
					strictErr = e.msg
					return
				}
				panic(r)
			}
		}()
		a := d.abs(addr)
		if a < addr || a+4 > uint64(len(d.d)) || string(d.d[a:a+4]) != "GCOL" {
			d.fail("%s: collection address 0x%x does not hold a GCOL signature", what, a)
		}
		g := d.gcol(addr)
		if idx > 0xffff {
			d.fail("%s: object index %d exceeds 16 bits", what, idx)
		}
		o, ok := g.Objects[uint16(idx)]
		if !ok {
			d.fail("%s: global heap collection 0x%x has no object %d", what, a, idx)
		}
		obj = o
		strictOK = true
	}()
	if strictOK {
		return obj, count, true
	}
	// library layout: collection address (O), object index (4), padding (4)
	c2 := d.cursor(ref, 0, what)
	addr2 := c2.addr("collection address")
	idx2 := c2.u32("object index")
	pad := c2.u32("padding")
	a2 := addr2 + d.base
	if pad == 0 && addr2 != UndefAddr && a2 >= addr2 && a2+4 <= uint64(len(d.d)) && string(d.d[a2:a2+4]) == "GCOL" && idx2 <= 0xffff {
		g := d.gcol(addr2)
		if o, ok := g.Objects[uint16(idx2)]; ok {
			d.deviate("vlen-element-no-length", "%s: element is stored as address(%d)+index(4)+zero(4) without the leading 4-byte length (strict reading: %s)", what, d.O, strictErr)
			return o, 0, false
		}
	}
	d.fail("%s", strictErr)
	return nil, 0, false
}

// ResolveVLen maps one on-disk variable-length element to the bytes of the global heap object it names.
// A collection not met during Decode is decoded (and added to GlobalHeaps/Extents) on first use; like
// Decode itself the method is not safe for concurrent use on one File.
func (f *File) ResolveVLen(ref []byte) (out []byte, err error) {
	if f == nil {
		return nil, errors.New("nil file")
	}
	d := f.resolver
	if d == nil {
		d = &dec{d: f.data, f: f, O: f.OffsetSize, L: f.LengthSize, base: f.BaseAddr, extSeen: map[string]bool{}, hdrCache: map[uint64]*header{}, heapCache: map[uint64]*localHeap{}, fheapCache: map[uint64]*fheap{}, ownerHdr: UndefAddr, owner: "<ResolveVLen>"}
		for _, e := range f.Extents {
			d.extSeen[fmt.Sprintf("%x-%x-%s", e.Start, e.End, e.Kind)] = true
		}
		f.resolver = d
	}
	defer func() {
		if r := recover(); r != nil {
			switch e := r.(type) {
			case *specError:
				err = e
			case *unsupportedError:
				err = e
			default:
				err = fmt.Errorf("internal decoder panic: %v", r)
			}
		}
	}()
	if len(ref) != 8+f.OffsetSize {
		return nil, fmt.Errorf("variable-length element must be %d bytes, got %d", 8+f.OffsetSize, len(ref))
	}
	obj, _, _ := d.vlenRef(ref, "variable-length element")
	return obj, nil
}

// typeHasVLen reports whether a datatype contains variable-length parts (so that its data references the global heap).
func typeHasVLen(t *Datatype, depth int) bool {
	if t == nil || depth > maxTypeDepth {
		return false
	}
	switch t.Class {
	case 9:
		return true
	case 6:
		for _, m := range t.Members {
			if typeHasVLen(m.Type, depth+1) {
				return true
			}
		}
	case 10:
		return typeHasVLen(t.Base, depth+1)
	}
	return false
}

// scanElems walks n elements of type t in data, resolving every variable-length reference (which
// loads and verifies the global heap collections and records their extents).
func (d *dec) scanElems(t *Datatype, data []byte, n uint64, what string, depth int, budget *int) {
	if depth > 8 || !typeHasVLen(t, 0) {
		return
	}
	sz := uint64(t.Size)
	if sz == 0 {
		return
	}
	for i := uint64(0); i < n; i++ {
		if (i+1)*sz > uint64(len(data)) {
			return
		}
		if *budget <= 0 {
			return
		}
		el := data[i*sz : (i+1)*sz]
		switch t.Class {
		case 9:
			*budget--
			if int(sz) != 8+d.O {
				d.fail("%s: variable-length datatype has size %d, the on-disk element is %d bytes", what, sz, 8+d.O)
			}
			obj, cnt, hasCnt := d.vlenRef(el, fmt.Sprintf("%s element #%d", what, i))
			if obj != nil && t.Base != nil && !hasCnt && t.Base.Size > 0 {
				cnt = uint32(uint64(len(obj)) / uint64(t.Base.Size))
			}
			if obj != nil && t.Base != nil {
				need := uint64(cnt) * uint64(t.Base.Size)
				if need > uint64(len(obj)) {
					d.fail("%s element #%d: sequence of %d elements x %d bytes exceeds the %d-byte heap object", what, i, cnt, t.Base.Size, len(obj))
				}
				d.scanElems(t.Base, obj, uint64(cnt), what, depth+1, budget)
			}
		case 6:
			for _, m := range t.Members {
				if typeHasVLen(m.Type, 0) {
					d.scanElems(m.Type, el[m.Offset:m.Offset+m.Type.Size], 1, what+"."+m.Name, depth+1, budget)
				}
			}
		case 10:
			if t.Base != nil && t.Base.Size > 0 {
				d.scanElems(t.Base, el, uint64(t.Size/t.Base.Size), what, depth+1, budget)
			}
		}
	}
}

// scanVLen resolves the variable-length references of all dataset and attribute data.
func (d *dec) scanVLen() {
	addrs := make([]uint64, 0, len(d.f.Objects))
	for a := range d.f.Objects {
		addrs = append(addrs, a)
	}
	sortU64(addrs)
	budget := 2_000_000
	for _, a := range addrs {
		o := d.f.Objects[a]
		r := d.setOwner(o.Path, UndefAddr)
		if o.Kind == "dataset" && o.Raw != nil && typeHasVLen(o.Type, 0) {
			n := uint64(0)
			if o.Type.Size > 0 {
				n = uint64(len(o.Raw)) / uint64(o.Type.Size)
			}
			d.scanElems(o.Type, o.Raw, n, "dataset "+o.Path, 0, &budget)
		}
		for i := range o.Attrs {
			at := &o.Attrs[i]
			if typeHasVLen(at.Type, 0) && at.Type.Size > 0 {
				d.scanElems(at.Type, at.Data, uint64(len(at.Data))/uint64(at.Type.Size), fmt.Sprintf("attribute %q of %s", at.Name, o.Path), 0, &budget)
			}
		}
		r()
	}
}

func sortU64(s []uint64) { sort.Slice(s, func(i, j int) bool { return s[i] < s[j] }) }
