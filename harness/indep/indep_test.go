package indep

import (
	"bytes"
	"testing"
)

func TestEncSize(t *testing.T) {
	// H5VM_limit_enc_size: (log2(limit)/8)+1
	for _, c := range []struct {
		limit uint64
		want  int
	}{{1, 1}, {255, 1}, {256, 2}, {371, 2}, {65535, 2}, {65536, 3}, {1 << 24, 4}, {1<<32 - 1, 4}, {1 << 32, 5}} {
		if got := encSize(c.limit); got != c.want {
			t.Errorf("encSize(%d) = %d, want %d", c.limit, got, c.want)
		}
	}
	if chunkSizeLen(24) != 2 || chunkSizeLen(255) != 2 || chunkSizeLen(256) != 3 || chunkSizeLen(1<<16) != 4 {
		t.Errorf("chunkSizeLen: %d %d %d %d", chunkSizeLen(24), chunkSizeLen(255), chunkSizeLen(256), chunkSizeLen(1<<16))
	}
}

func TestUnshuffle(t *testing.T) {
	for _, es := range []int{1, 2, 4, 8, 3} {
		for _, n := range []int{0, 1, 7, 16, 33} {
			orig := make([]byte, n)
			for i := range orig {
				orig[i] = byte(i*7 + 1)
			}
			// shuffle per the filter definition: byte j of element i goes to position j*nelem+i
			sh := make([]byte, n)
			ne := 0
			if es > 0 {
				ne = n / es
			}
			for i := 0; i < ne; i++ {
				for j := 0; j < es; j++ {
					sh[j*ne+i] = orig[i*es+j]
				}
			}
			copy(sh[ne*es:], orig[ne*es:])
			if got := unshuffle(sh, es); !bytes.Equal(got, orig) {
				t.Errorf("unshuffle(es=%d,n=%d) = % x, want % x", es, n, got, orig)
			}
		}
	}
}

func TestCopyChunkAgainstNaive(t *testing.T) {
	dims := []uint64{5, 7, 3}
	cdims := []uint64{2, 3, 2}
	es := uint64(2)
	total := dims[0] * dims[1] * dims[2]
	want := make([]byte, total*es)
	got := make([]byte, total*es)
	val := byte(1)
	for c0 := uint64(0); c0 < dims[0]; c0 += cdims[0] {
		for c1 := uint64(0); c1 < dims[1]; c1 += cdims[1] {
			for c2 := uint64(0); c2 < dims[2]; c2 += cdims[2] {
				chunk := make([]byte, cdims[0]*cdims[1]*cdims[2]*es)
				for i := range chunk {
					chunk[i] = val
					val = val*31 + 7
				}
				for i := uint64(0); i < cdims[0]; i++ {
					for j := uint64(0); j < cdims[1]; j++ {
						for k := uint64(0); k < cdims[2]; k++ {
							g0, g1, g2 := c0+i, c1+j, c2+k
							if g0 >= dims[0] || g1 >= dims[1] || g2 >= dims[2] {
								continue
							}
							src := ((i*cdims[1]+j)*cdims[2] + k) * es
							dst := ((g0*dims[1]+g1)*dims[2] + g2) * es
							copy(want[dst:dst+es], chunk[src:src+es])
						}
					}
				}
				copyChunk(got, dims, chunk, cdims, []uint64{c0, c1, c2}, es)
			}
		}
	}
	if !bytes.Equal(got, want) {
		t.Errorf("copyChunk differs from the naive placement")
	}
}

func TestChunkIndexMapping(t *testing.T) {
	o := &Object{ChunkDims: []uint64{2, 3}}
	// unlimited dimension 1 is the slowest; dimension 0 has 5 chunks
	for idx, want := range map[uint64][]uint64{0: {0, 0, 0}, 1: {2, 0, 0}, 5: {0, 3, 0}, 6: {2, 3, 0}, 11: {2, 6, 0}} {
		o.Chunks = nil
		addIndexedChunk(o, idx, idxElem{addr: 1}, []uint64{5, 1}, 1, 2)
		if len(o.Chunks) != 1 || !equalU64(o.Chunks[0].Offset, want) {
			t.Errorf("extensible array index %d -> %v, want %v", idx, o.Chunks, want)
		}
	}
	// fixed array: plain row-major over a 10x4 grid
	o.Chunks = nil
	addIndexedChunk(o, 13, idxElem{addr: 1}, []uint64{10, 4}, -1, 2)
	if !equalU64(o.Chunks[0].Offset, []uint64{6, 3, 0}) {
		t.Errorf("fixed array index 13 -> %v", o.Chunks[0].Offset)
	}
}

func equalU64(a, b []uint64) bool {
	if len(a) != len(b) {
		return false
	}
	for i := range a {
		if a[i] != b[i] {
			return false
		}
	}
	return true
}

func TestDecodeGarbage(t *testing.T) {
	for _, in := range [][]byte{nil, {}, []byte("not hdf5"), append([]byte(sbSig), 9), append([]byte(sbSig), make([]byte, 40)...)} {
		if f, err := Decode(in, Options{}); err == nil {
			t.Errorf("Decode(%q) succeeded: %+v", in, f)
		}
	}
}
