package indep

import (
	"fmt"
)

type localHeap struct {
	addr     uint64
	dataAddr uint64
	data     []byte
	freeHead uint64
}

func (d *dec) localHeap(addr uint64) *localHeap {
	if h, ok := d.heapCache[addr]; ok {
		return h
	}
	what := "local heap"
	hsize := uint64(8 + 2*d.L + d.O)
	b := d.bytesAt(addr, hsize, what)
	a := d.abs(addr)
	c := d.cursor(b, a, what)
	c.sig("HEAP")
	if v := c.u8("version"); v != 0 {
		d.fail("%s at 0x%x: version %d, expected 0", what, a, v)
	}
	c.zero(3, "reserved")
	size := c.length("data segment size")
	free := c.length("offset to head of free-list")
	daddr := c.addr("address of data segment")
	if daddr == UndefAddr {
		d.fail("%s at 0x%x: data segment address is undefined", what, a)
	}
	h := &localHeap{addr: addr, dataAddr: daddr, freeHead: free}
	h.data = d.bytesAt(daddr, size, fmt.Sprintf("local heap 0x%x data segment", a))
	d.addExtent(a, hsize, "local-heap")
	d.addExtent(d.abs(daddr), size, "local-heap-data")
	// free list: offset of first free block, each block: next offset (L), size (L); 1 (H5HL_FREE_NULL) or undefined = end
	undefL := maxLen(d.L)
	steps := 0
	for off := free; off != undefL && off != 1; {
		if off%8 != 0 && false {
			d.fail("%s at 0x%x: free block offset %d not aligned", what, a, off)
		}
		if off+uint64(2*d.L) > size || off+uint64(2*d.L) < off {
			d.fail("%s at 0x%x: free-list block at offset %d lies outside the data segment of %d bytes", what, a, off, size)
		}
		fc := d.cursor(h.data[off:], d.abs(daddr)+off, what+" free block")
		next := fc.length("next free block offset")
		fsz := fc.length("free block size")
		if fsz < uint64(2*d.L) || off+fsz > size || off+fsz < off {
			d.fail("%s at 0x%x: free-list block at offset %d has size %d, outside the data segment of %d bytes", what, a, off, fsz, size)
		}
		steps++
		if steps > len(h.data)/(2*d.L)+1 {
			d.fail("%s at 0x%x: free list does not terminate", what, a)
		}
		if next != undefL && next != 1 && next <= off {
			d.fail("%s at 0x%x: free-list block at offset %d links backwards to %d", what, a, off, next)
		}
		off = next
	}
	d.heapCache[addr] = h
	return h
}

func (h *localHeap) str(d *dec, off uint64, what string) string {
	if off >= uint64(len(h.data)) {
		d.fail("%s: name offset %d lies outside the local heap data segment (%d bytes, heap 0x%x)", what, off, len(h.data), d.abs(h.addr))
	}
	for i := off; i < uint64(len(h.data)); i++ {
		if h.data[i] == 0 {
			return string(h.data[off:i])
		}
	}
	d.fail("%s: name at local heap offset %d is not NUL-terminated inside the data segment (heap 0x%x)", what, off, d.abs(h.addr))
	return ""
}

type stEntry struct {
	name      string
	nameOff   uint64
	addr      uint64
	cacheType uint32
	scratch   []byte
}

// symbolTableGroup walks the group B-tree (node type 0) and returns the entries in stored order.
func (d *dec) symbolTableGroup(btree, heapAddr uint64, owner string) []stEntry {
	heap := d.localHeap(heapAddr)
	var out []stEntry
	if btree == UndefAddr {
		d.fail("symbol table of %s: B-tree address is undefined", owner)
	}
	visited := map[uint64]bool{}
	var prev *string
	d.groupBtreeNode(btree, heap, owner, -1, visited, &out, &prev, nil, nil, 0)
	return out
}

// groupBtreeNode decodes one v1 B-tree node of type 0. lo/hi are the bounding keys from the parent (nil at the root).
func (d *dec) groupBtreeNode(addr uint64, heap *localHeap, owner string, wantLevel int, visited map[uint64]bool, out *[]stEntry, prev **string, lo, hi *uint64, depth int) {
	a := d.abs(addr)
	what := fmt.Sprintf("group B-tree node (group %s)", owner)
	if visited[addr] {
		d.fail("%s at 0x%x: node is reachable twice (cycle)", what, a)
	}
	visited[addr] = true
	K := d.f.GroupInternalK
	keySize := uint64(d.L)
	nodeSize := uint64(8+2*d.O) + uint64(2*K)*(keySize+uint64(d.O)) + keySize
	b := d.bytesAt(addr, nodeSize, what)
	c := d.cursor(b, a, what)
	c.sig("TREE")
	if t := c.u8("node type"); t != 0 {
		d.fail("%s at 0x%x: node type %d, expected 0 (group)", what, a, t)
	}
	level := int(c.u8("node level"))
	if wantLevel >= 0 && level != wantLevel {
		d.fail("%s at 0x%x: node level %d, parent expects %d", what, a, level, wantLevel)
	}
	if level > 64 {
		d.fail("%s at 0x%x: node level %d is implausible", what, a, level)
	}
	n := int(c.u16("entries used"))
	if n > 2*K {
		d.fail("%s at 0x%x: entries used %d exceeds 2K = %d", what, a, n, 2*K)
	}
	c.addr("left sibling")
	c.addr("right sibling")
	keys := make([]uint64, n+1)
	kids := make([]uint64, n)
	truncated := false
	for i := 0; i < n; i++ {
		keys[i] = c.length("key")
		kids[i] = c.addr("child pointer")
		if kids[i] == UndefAddr {
			d.fail("%s at 0x%x: child pointer #%d is undefined", what, a, i)
		}
		if kids[i] > addr && kids[i] < addr+nodeSize {
			truncated = true
		}
	}
	keys[n] = c.length("key")
	if truncated {
		// the pinned library allocates only the used part of the root group's B-tree node in version 0 files and puts the symbol table node right behind it
		used := uint64(8+2*d.O) + uint64(n)*(keySize+uint64(d.O)) + keySize
		d.deviate("btree1-node-truncated", "%s at 0x%x: a child node starts inside the %d bytes a node with K=%d occupies; only the %d used bytes are allocated", what, a, nodeSize, K, used)
		d.addExtent(a, used, "btree1-group")
	} else {
		d.addExtent(a, nodeSize, "btree1-group")
	}
	if n == 0 {
		if depth != 0 {
			d.fail("%s at 0x%x: non-root node with 0 entries", what, a)
		}
		return
	}
	if lo != nil && keys[0] != *lo {
		d.fail("%s at 0x%x: first key (heap offset %d) differs from the parent's bounding key (%d)", what, a, keys[0], *lo)
	}
	if hi != nil && keys[n] != *hi {
		d.fail("%s at 0x%x: last key (heap offset %d) differs from the parent's bounding key (%d)", what, a, keys[n], *hi)
	}
	var keyProblem string
	for i := 0; i < n; i++ {
		kl := heap.str(d, keys[i], what+" key")
		kr := heap.str(d, keys[i+1], what+" key")
		if !(kl < kr) && keyProblem == "" {
			keyProblem = fmt.Sprintf("key #%d (%q) is not smaller than key #%d (%q)", i, kl, i+1, kr)
		}
		if level > 0 {
			d.groupBtreeNode(kids[i], heap, owner, level-1, visited, out, prev, &keys[i], &keys[i+1], depth+1)
			continue
		}
		first := len(*out)
		d.snod(kids[i], heap, owner, out)
		for j := first; j < len(*out); j++ {
			nm := (*out)[j].name
			if *prev != nil && !(**prev < nm) {
				d.deviate("snod-order", "symbol table node at 0x%x (group %s): entry %q does not sort after the preceding entry %q (entries must be in increasing name order)", d.abs(kids[i]), owner, nm, **prev)
			}
			s := nm
			*prev = &s
			// names in child i are greater than key i and less than or equal to key i+1
			if (!(kl < nm) || !(nm <= kr)) && keyProblem == "" {
				keyProblem = fmt.Sprintf("entry %q of child #%d lies outside its key interval (%q, %q]", nm, i, kl, kr)
			}
		}
	}
	if keyProblem != "" {
		d.deviate("group-btree-keys", "%s at 0x%x: %s", what, a, keyProblem)
	}
}

func (d *dec) snod(addr uint64, heap *localHeap, owner string, out *[]stEntry) {
	a := d.abs(addr)
	what := fmt.Sprintf("symbol table node (group %s)", owner)
	K := d.f.GroupLeafK
	esz := uint64(2*d.O + 24)
	size := 8 + uint64(2*K)*esz
	b := d.bytesAt(addr, size, what)
	c := d.cursor(b, a, what)
	c.sig("SNOD")
	if v := c.u8("version"); v != 1 {
		d.fail("%s at 0x%x: version %d, expected 1", what, a, v)
	}
	c.zero(1, "reserved")
	n := int(c.u16("number of symbols"))
	const libCap = 32
	wide := 8 + uint64(libCap)*esz
	if n > 2*K {
		if n <= libCap {
			d.deviate("snod-capacity-32", "%s at 0x%x: number of symbols %d exceeds 2K = %d (group leaf node K = %d); the node is laid out for %d entries", what, a, n, 2*K, K, libCap)
		} else {
			d.fail("%s at 0x%x: number of symbols %d exceeds 2K = %d", what, a, n, 2*K)
		}
	}
	if d.tolerated("snod-capacity-32") && wide > size && d.abs(addr)+wide <= uint64(len(d.d)) {
		// the pinned library allocates every symbol table node for 32 entries
		size = wide
		b = d.bytesAt(addr, size, what)
		c.b = b
	}
	if n == 0 {
		d.deviate("snod-empty", "%s at 0x%x: node holds 0 symbols (an empty group has a B-tree with 0 entries and no symbol table node)", what, a)
	}
	d.addExtent(a, size, "snod")
	for i := 0; i < n; i++ {
		var e stEntry
		e.nameOff = c.addr("link name offset")
		e.addr = c.addr("object header address")
		e.cacheType = c.u32("cache type")
		c.zero(4, "reserved")
		e.scratch = c.bytes(16, "scratch-pad")
		if e.cacheType > 2 {
			d.fail("%s at 0x%x: entry #%d cache type %d not in 0..2", what, a, i, e.cacheType)
		}
		e.name = heap.str(d, e.nameOff, fmt.Sprintf("%s at 0x%x entry #%d", what, a, i))
		if e.name == "" {
			d.fail("%s at 0x%x: entry #%d has an empty name", what, a, i)
		}
		if len(*out) > 4_000_000 {
			d.fail("%s at 0x%x: more than 4e6 entries in one group", what, a)
		}
		*out = append(*out, e)
	}
}

// linksFromSymbolTable converts symbol table entries into links.
func (d *dec) linksFromSymbolTable(o *Object, btree, heapAddr uint64) {
	entries := d.symbolTableGroup(btree, heapAddr, o.Path)
	heap := d.localHeap(heapAddr)
	for _, e := range entries {
		l := Link{Name: e.name}
		switch e.cacheType {
		case 2:
			l.Kind = "soft"
			sc := d.cursor(e.scratch, 0, "symbol table entry scratch-pad")
			off := uint64(sc.u32("offset to link value"))
			l.SoftPath = heap.str(d, off, fmt.Sprintf("soft link %q of group %s", e.name, o.Path))
			l.Addr = UndefAddr
		default:
			l.Kind = "hard"
			l.Addr = e.addr
			if e.addr == UndefAddr {
				d.fail("symbol table entry %q of group %s: object header address is undefined", e.name, o.Path)
			}
			if e.cacheType == 1 {
				// cached symbol table message of the child group; checked against the child's header
				sc := d.cursor(e.scratch, 0, "symbol table entry scratch-pad")
				bt := sc.addr("cached B-tree address")
				hp := sc.addr("cached name heap address")
				d.checkCachedStab(e, o.Path, bt, hp)
			}
		}
		o.Links = append(o.Links, l)
	}
}

func (d *dec) checkCachedStab(e stEntry, group string, bt, hp uint64) {
	h := d.parseHeader(e.addr)
	for _, m := range h.msgs {
		if m.typ == mSymbolTable && m.flags&2 == 0 {
			c := d.cursor(m.data, m.abs, "symbol table message")
			b2 := c.addr("B-tree address")
			h2 := c.addr("local heap address")
			if b2 != bt || h2 != hp {
				d.fail("symbol table entry %q of group %s: cached B-tree/heap addresses (0x%x, 0x%x) differ from the symbol table message of object header 0x%x (0x%x, 0x%x)", e.name, group, bt, hp, d.abs(e.addr), b2, h2)
			}
			return
		}
	}
	if group == "<superblock root entry>" {
		// reference files exist whose root group was created in the new (link message) style under a version 0 superblock; the cached addresses are then unused
		return
	}
	d.fail("symbol table entry %q of group %s: cache type 1 but object header 0x%x has no symbol table message", e.name, group, d.abs(e.addr))
}

// denseLinks reads the links of a dense group: name-index B-tree v2 (type 5) records -> fractal heap -> link messages.
func (d *dec) denseLinks(o *Object, fheapAddr, nameBT, corderBT uint64) {
	if nameBT == UndefAddr {
		d.fail("link info message of %s: fractal heap address is defined but the name index B-tree address is undefined", o.Path)
	}
	fh := d.fractalHeap(fheapAddr)
	bt := d.btree2(nameBT)
	if bt.typ != 5 {
		d.fail("B-tree v2 at 0x%x (link name index of %s): record type %d, expected 5", d.abs(nameBT), o.Path, bt.typ)
	}
	if bt.recSize != 11 {
		d.fail("B-tree v2 at 0x%x (link name index of %s): record size %d, expected 11 for type 5", d.abs(nameBT), o.Path, bt.recSize)
	}
	if fh.idLen == 8 && 1+fh.offBytes+fh.lenBytes <= 7 {
		d.deviate("link-fheap-id-length-8", "fractal heap at 0x%x (links of %s): heap ID length 8; the link name index stores 7-byte heap IDs, so the heap of a group must use 7-byte IDs", d.abs(fheapAddr), o.Path)
	} else if fh.idLen != 7 {
		d.fail("fractal heap at 0x%x (links of %s): heap ID length %d, expected 7", d.abs(fheapAddr), o.Path, fh.idLen)
	}
	var prevHash uint32
	var prevName string
	seen := map[string]bool{}
	d.withHeapOffsetFallback(fh, func() { prevHash, prevName, seen, o.Links = 0, "", map[string]bool{}, nil }, func() {
		for i, r := range bt.records {
			hash := le32(r[:4])
			id := r[4:11]
			body, at := fh.object(d, id, fmt.Sprintf("link name index record #%d of %s", i, o.Path))
			l := d.decodeLink(body, at, true, func(name string) bool { return checksum([]byte(name)) == hash })
			if got := checksum([]byte(l.Name)); got != hash {
				d.fail("B-tree v2 at 0x%x (link name index of %s): record #%d stores hash 0x%08x, lookup3 of the link name %q is 0x%08x", d.abs(nameBT), o.Path, i, hash, l.Name, got)
			}
			if i > 0 && hash == prevHash && !(prevName < l.Name) {
				d.deviate("btree2-equal-hash-order", "B-tree v2 at 0x%x (link name index of %s): records #%d and #%d share the hash 0x%08x and are not in name order (%q, %q)", d.abs(nameBT), o.Path, i-1, i, hash, prevName, l.Name)
			} else if i > 0 && hash < prevHash {
				d.fail("B-tree v2 at 0x%x (link name index of %s): record #%d (hash 0x%08x, %q) does not sort after record #%d (hash 0x%08x, %q)", d.abs(nameBT), o.Path, i, hash, l.Name, i-1, prevHash, prevName)
			}
			if seen[l.Name] {
				d.fail("B-tree v2 at 0x%x (link name index of %s): link name %q occurs twice", d.abs(nameBT), o.Path, l.Name)
			}
			seen[l.Name] = true
			prevHash, prevName = hash, l.Name
			o.Links = append(o.Links, l)
		}
	})
	if uint64(len(bt.records)) != fh.nManaged+fh.nHuge+fh.nTiny {
		d.fail("fractal heap at 0x%x (links of %s): header counts %d objects but the name index holds %d records", d.abs(fheapAddr), o.Path, fh.nManaged+fh.nHuge+fh.nTiny, len(bt.records))
	}
	if corderBT != UndefAddr {
		cb := d.btree2(corderBT)
		if cb.typ != 6 {
			d.fail("B-tree v2 at 0x%x (link creation order index of %s): record type %d, expected 6", d.abs(corderBT), o.Path, cb.typ)
		}
		if len(cb.records) != len(bt.records) {
			d.fail("B-tree v2 at 0x%x (link creation order index of %s): %d records, name index has %d", d.abs(corderBT), o.Path, len(cb.records), len(bt.records))
		}
	}
}
