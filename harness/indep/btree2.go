package indep

import (
	"fmt"
	"hash/crc32"
)

type btree2 struct {
	addr     uint64
	typ      int
	nodeSize uint32
	recSize  int
	depth    int
	rootAddr uint64
	rootN    int
	total    uint64
	records  [][]byte // all records in key order
}

const maxBT2Records = 8_000_000

func log2floor(x uint64) uint {
	n := uint(0)
	for x > 1 {
		x >>= 1
		n++
	}
	return n
}

// encSize is H5VM_limit_enc_size: bytes needed to encode values up to limit.
func encSize(limit uint64) int { return int(log2floor(limit)/8) + 1 }

// checksumOrCRC verifies a stored metadata checksum; when it is not lookup3 but CRC-32/IEEE of the same bytes the named deviation applies.
func (d *dec) verifyChecksum(b []byte, stored uint32, devName, format string, a ...interface{}) {
	got := checksum(b)
	if got == stored {
		return
	}
	msg := fmt.Sprintf(format, a...) + fmt.Sprintf(": stored checksum 0x%08x, lookup3 over the %d covered bytes is 0x%08x", stored, len(b), got)
	if devName != "" && crc32.ChecksumIEEE(b) == stored {
		d.deviate(devName, "%s (the stored value is the CRC-32/IEEE of those bytes)", msg)
		return
	}
	d.fail("%s", msg)
}

// btree2 decodes a version 2 B-tree (header + all nodes) and returns its records in order.
func (d *dec) btree2(addr uint64) *btree2 {
	what := "B-tree v2 header"
	a := d.abs(addr)
	hsize := uint64(4 + 1 + 1 + 4 + 2 + 2 + 1 + 1 + d.O + 2 + d.L + 4)
	b := d.bytesAt(addr, hsize, what)
	c := d.cursor(b, a, what)
	c.sig("BTHD")
	if v := c.u8("version"); v != 0 {
		d.fail("%s at 0x%x: version %d, expected 0", what, a, v)
	}
	t := &btree2{addr: addr}
	t.typ = int(c.u8("type"))
	t.nodeSize = c.u32("node size")
	t.recSize = int(c.u16("record size"))
	t.depth = int(c.u16("depth"))
	split := c.u8("split percent")
	merge := c.u8("merge percent")
	t.rootAddr = c.addr("root node address")
	t.rootN = int(c.u16("number of records in root node"))
	t.total = c.length("total number of records in tree")
	stored := c.u32("checksum")
	d.verifyChecksum(b[:hsize-4], stored, "btree2-crc32", "%s at 0x%x", what, a)
	d.addExtent(a, hsize, "btree2-hdr")
	if t.typ < 1 || t.typ > 11 {
		d.fail("%s at 0x%x: type %d not in 1..11", what, a, t.typ)
	}
	if t.recSize == 0 || t.nodeSize < 16 || uint64(t.nodeSize) > uint64(len(d.d)) {
		d.fail("%s at 0x%x: node size %d / record size %d are implausible", what, a, t.nodeSize, t.recSize)
	}
	if split == 0 || split > 100 || merge > 100 || merge >= split {
		d.fail("%s at 0x%x: split percent %d / merge percent %d out of range", what, a, split, merge)
	}
	if t.depth > 16 {
		d.fail("%s at 0x%x: depth %d is implausible", what, a, t.depth)
	}
	// node capacities per depth
	maxNrec := make([]uint64, t.depth+1)
	cumMax := make([]uint64, t.depth+1)
	if int(t.nodeSize) < 10+t.recSize {
		d.fail("%s at 0x%x: node size %d cannot hold one record of %d bytes", what, a, t.nodeSize, t.recSize)
	}
	maxNrec[0] = (uint64(t.nodeSize) - 10) / uint64(t.recSize)
	cumMax[0] = maxNrec[0]
	for dd := 1; dd <= t.depth; dd++ {
		ptr := uint64(d.O) + uint64(encSize(maxNrec[0])) // the record-count field is sized for the leaf capacity at every level
		if dd > 1 {
			ptr += uint64(encSize(cumMax[dd-1]))
		}
		if uint64(t.nodeSize) < 10+ptr+uint64(t.recSize)+ptr {
			d.fail("%s at 0x%x: node size %d cannot hold an internal node at depth %d", what, a, t.nodeSize, dd)
		}
		maxNrec[dd] = (uint64(t.nodeSize) - 10 - ptr) / (uint64(t.recSize) + ptr)
		cm := (maxNrec[dd]+1)*cumMax[dd-1] + maxNrec[dd]
		if cm < cumMax[dd-1] || cm > 1<<56 {
			cm = 1 << 56
		}
		cumMax[dd] = cm
	}
	if t.rootAddr == UndefAddr {
		if t.total != 0 || t.rootN != 0 || t.depth != 0 {
			d.fail("%s at 0x%x: root node address undefined but records %d/%d, depth %d", what, a, t.rootN, t.total, t.depth)
		}
		return t
	}
	if t.total == 0 {
		// an empty tree has no root node (undefined address); the pinned writer keeps an empty leaf after
		// all records were deleted
		d.deviate("btree2-empty-root", "%s at 0x%x: root node address 0x%x defined but the tree holds 0 records", what, a, d.abs(t.rootAddr))
	}
	visited := map[uint64]bool{}
	var node func(addr uint64, nrec int, depth int) uint64
	node = func(naddr uint64, nrec int, depth int) uint64 {
		na := d.abs(naddr)
		nwhat := fmt.Sprintf("B-tree v2 node (tree 0x%x, depth %d)", a, depth)
		if visited[naddr] {
			d.fail("%s at 0x%x: node reachable twice", nwhat, na)
		}
		visited[naddr] = true
		nb := d.bytesAt(naddr, uint64(t.nodeSize), nwhat)
		nc := d.cursor(nb, na, nwhat)
		kind := "btree2-leaf"
		if depth == 0 {
			nc.sig("BTLF")
		} else {
			nc.sig("BTIN")
			kind = "btree2-internal"
		}
		if v := nc.u8("version"); v != 0 {
			d.fail("%s at 0x%x: version %d, expected 0", nwhat, na, v)
		}
		if ty := int(nc.u8("type")); ty != t.typ {
			d.fail("%s at 0x%x: type %d differs from the header's type %d", nwhat, na, ty, t.typ)
		}
		if uint64(nrec) > maxNrec[depth] {
			d.fail("%s at 0x%x: %d records exceed the node capacity of %d", nwhat, na, nrec, maxNrec[depth])
		}
		if nrec == 0 && !(t.total == 0 && depth == int(t.depth)) { // an empty root is the btree2-empty-root deviation
			d.fail("%s at 0x%x: node with 0 records", nwhat, na)
		}
		recs := make([][]byte, nrec)
		for i := range recs {
			recs[i] = nc.bytes(t.recSize, "record")
		}
		d.addExtent(na, uint64(t.nodeSize), kind)
		if depth == 0 {
			st := nc.u32("checksum")
			d.verifyChecksum(nb[:nc.pos-4], st, "btree2-crc32", "%s at 0x%x", nwhat, na)
			if len(t.records)+nrec > maxBT2Records {
				d.fail("%s at 0x%x: more than %d records", nwhat, na, maxBT2Records)
			}
			t.records = append(t.records, recs...)
			return uint64(nrec)
		}
		type ptr struct {
			addr  uint64
			nrec  int
			total uint64
		}
		ptrs := make([]ptr, nrec+1)
		for i := range ptrs {
			ptrs[i].addr = nc.addr("child node pointer")
			ptrs[i].nrec = int(nc.uN(encSize(maxNrec[0]), "number of records in child node"))
			if depth > 1 {
				ptrs[i].total = nc.uN(encSize(cumMax[depth-1]), "total number of records in child node")
			} else {
				ptrs[i].total = uint64(ptrs[i].nrec)
			}
			if ptrs[i].addr == UndefAddr {
				d.fail("%s at 0x%x: child pointer #%d is undefined", nwhat, na, i)
			}
		}
		st := nc.u32("checksum")
		d.verifyChecksum(nb[:nc.pos-4], st, "btree2-crc32", "%s at 0x%x", nwhat, na)
		sum := uint64(nrec)
		for i, p := range ptrs {
			got := node(p.addr, p.nrec, depth-1)
			if got != p.total {
				d.fail("%s at 0x%x: child #%d is recorded with %d records in total but its subtree holds %d", nwhat, na, i, p.total, got)
			}
			sum += got
			if i < nrec {
				if len(t.records) >= maxBT2Records {
					d.fail("%s at 0x%x: more than %d records", nwhat, na, maxBT2Records)
				}
				t.records = append(t.records, recs[i])
			}
		}
		return sum
	}
	got := node(t.rootAddr, t.rootN, t.depth)
	if got != t.total {
		d.fail("%s at 0x%x: total number of records is %d but the nodes hold %d", what, a, t.total, got)
	}
	return t
}
