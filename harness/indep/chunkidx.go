package indep

import "fmt"

// Chunk indexes of version 4 layout messages: fixed array, extensible array, version 2 B-tree.

// chunkGrid returns, per dimension, the number of chunks the index is laid out for (maximum dimensions
// where they are bounded, current dimensions otherwise) and the index of the unlimited dimension (-1 if none).
func chunkGrid(o *Object, sp *dataspace, rank int) (n []uint64, unlim int) {
	n = make([]uint64, rank)
	unlim = -1
	for k := 0; k < rank; k++ {
		ext := sp.dims[k]
		if sp.max != nil {
			if sp.max[k] == ^uint64(0) {
				if unlim < 0 {
					unlim = k
				}
			} else if sp.max[k] > ext {
				ext = sp.max[k]
			}
		}
		n[k] = (ext + o.ChunkDims[k] - 1) / o.ChunkDims[k]
		if n[k] == 0 {
			n[k] = 1
		}
	}
	return n, unlim
}

// chunkSizeLen is the width of the "chunk size" field of filtered chunk index entries.
func chunkSizeLen(chunkBytes uint64) int {
	n := 1 + int((log2floor(chunkBytes)+8)/8)
	if n > 8 {
		n = 8
	}
	return n
}

type idxElem struct {
	addr uint64
	size uint64
	mask uint32
}

func (d *dec) readIdxElems(c *cur, n int, filtered bool, szLen int, chunkBytes uint64) []idxElem {
	out := make([]idxElem, n)
	for i := range out {
		out[i].addr = c.addr("chunk address")
		if filtered {
			out[i].size = c.uN(szLen, "chunk size")
			out[i].mask = c.u32("filter mask")
		} else {
			out[i].size = chunkBytes
		}
	}
	return out
}

// addIndexedChunk converts linear chunk index idx over grid (row-major, optionally with the unlimited dimension swizzled to the front) into a Chunk.
func addIndexedChunk(o *Object, idx uint64, e idxElem, grid []uint64, unlim int, rank int) {
	if e.addr == UndefAddr {
		return
	}
	order := make([]int, 0, rank)
	if unlim > 0 {
		order = append(order, unlim)
		for k := 0; k < rank; k++ {
			if k != unlim {
				order = append(order, k)
			}
		}
	} else {
		for k := 0; k < rank; k++ {
			order = append(order, k)
		}
	}
	scaled := make([]uint64, rank)
	rem := idx
	for i := rank - 1; i >= 1; i-- {
		k := order[i]
		scaled[k] = rem % grid[k]
		rem /= grid[k]
	}
	scaled[order[0]] = rem
	off := make([]uint64, rank+1)
	for k := 0; k < rank; k++ {
		off[k] = scaled[k] * o.ChunkDims[k]
	}
	o.Chunks = append(o.Chunks, Chunk{Offset: off, Addr: e.addr, Size: uint32(e.size), FilterMask: e.mask})
}

func (d *dec) fixedArrayChunks(o *Object, sp *dataspace, lay *layoutMsg, chunkBytes uint64, rank int, what string) {
	a := d.abs(lay.addr)
	hw := fmt.Sprintf("fixed array header (%s)", what)
	hsize := uint64(4 + 1 + 1 + 1 + 1 + d.L + d.O + 4)
	b := d.bytesAt(lay.addr, hsize, hw)
	c := d.cursor(b, a, hw)
	c.sig("FAHD")
	if v := c.u8("version"); v != 0 {
		d.fail("%s at 0x%x: version %d, expected 0", hw, a, v)
	}
	client := c.u8("client ID")
	esz := int(c.u8("entry size"))
	pageBits := uint(c.u8("page bits"))
	nelmts := c.length("max. num. entries")
	dblk := c.addr("data block address")
	st := c.u32("checksum")
	d.verifyChecksum(b[:hsize-4], st, "", "%s at 0x%x", hw, a)
	d.addExtent(a, hsize, "fixed-array-hdr")
	filtered := len(o.Filters) > 0
	if client > 1 || (client == 1) != filtered {
		d.fail("%s at 0x%x: client ID %d does not match the dataset (filtered=%v)", hw, a, client, filtered)
	}
	szLen := 0
	want := d.O
	if filtered {
		szLen = chunkSizeLen(chunkBytes)
		want = d.O + szLen + 4
	}
	if esz != want {
		d.fail("%s at 0x%x: entry size %d, expected %d", hw, a, esz, want)
	}
	if pageBits == 0 || pageBits > 32 {
		d.fail("%s at 0x%x: page bits %d out of range", hw, a, pageBits)
	}
	if pageBits != uint(lay.idxParams[0]) {
		d.fail("%s at 0x%x: page bits %d differ from the layout message's %d", hw, a, pageBits, lay.idxParams[0])
	}
	grid, _ := chunkGrid(o, sp, rank)
	total := uint64(1)
	for _, g := range grid {
		if g != 0 && total > 4_000_000/g {
			d.fail("%s at 0x%x: more than 4e6 chunks", hw, a)
		}
		total *= g
	}
	if nelmts != total {
		d.fail("%s at 0x%x: max. num. entries %d, the chunk grid %v has %d chunks", hw, a, nelmts, grid, total)
	}
	if dblk == UndefAddr {
		return
	}
	da := d.abs(dblk)
	dw := fmt.Sprintf("fixed array data block (%s)", what)
	pageElems := uint64(1) << pageBits
	paged := nelmts > pageElems
	prefix := uint64(4 + 1 + 1 + d.O)
	if !paged {
		size := prefix + nelmts*uint64(esz) + 4
		db := d.bytesAt(dblk, size, dw)
		dc := d.cursor(db, da, dw)
		d.fadbPrefix(dc, client, lay.addr, dw, da)
		elems := d.readIdxElems(dc, int(nelmts), filtered, szLen, chunkBytes)
		d.verifyChecksum(db[:size-4], dc.u32("checksum"), "", "%s at 0x%x", dw, da)
		d.addExtent(da, size, "fixed-array-dblock")
		for i, e := range elems {
			addIndexedChunk(o, uint64(i), e, grid, -1, rank)
		}
		return
	}
	npages := (nelmts + pageElems - 1) / pageElems
	bitmap := (npages + 7) / 8
	size := prefix + bitmap + 4
	db := d.bytesAt(dblk, size, dw)
	dc := d.cursor(db, da, dw)
	d.fadbPrefix(dc, client, lay.addr, dw, da)
	bm := dc.bytes(int(bitmap), "page bitmap")
	d.verifyChecksum(db[:size-4], dc.u32("checksum"), "", "%s at 0x%x", dw, da)
	pageBytes := pageElems*uint64(esz) + 4
	lastElems := nelmts - (npages-1)*pageElems
	full := size + (npages-1)*pageBytes + lastElems*uint64(esz) + 4
	d.bytesAt(dblk, full, dw)
	d.addExtent(da, full, "fixed-array-dblock")
	for p := uint64(0); p < npages; p++ {
		if bm[p/8]&(0x80>>(p%8)) == 0 {
			continue
		}
		n := pageElems
		if p == npages-1 {
			n = lastElems
		}
		pa := dblk + size + p*pageBytes
		pw := fmt.Sprintf("fixed array data block page %d (%s)", p, what)
		pb := d.bytesAt(pa, n*uint64(esz)+4, pw)
		pc := d.cursor(pb, d.abs(pa), pw)
		elems := d.readIdxElems(pc, int(n), filtered, szLen, chunkBytes)
		d.verifyChecksum(pb[:len(pb)-4], pc.u32("checksum"), "", "%s at 0x%x", pw, d.abs(pa))
		for i, e := range elems {
			addIndexedChunk(o, p*pageElems+uint64(i), e, grid, -1, rank)
		}
	}
}

func (d *dec) fadbPrefix(c *cur, client uint8, hdr uint64, what string, at uint64) {
	c.sig("FADB")
	if v := c.u8("version"); v != 0 {
		d.fail("%s at 0x%x: version %d, expected 0", what, at, v)
	}
	if cl := c.u8("client ID"); cl != client {
		d.fail("%s at 0x%x: client ID %d differs from the header's %d", what, at, cl, client)
	}
	if h := c.addr("header address"); h != hdr {
		d.fail("%s at 0x%x: header address 0x%x differs from the owning header 0x%x", what, at, h, hdr)
	}
}

func (d *dec) extArrayChunks(o *Object, sp *dataspace, lay *layoutMsg, chunkBytes uint64, rank int, what string) {
	a := d.abs(lay.addr)
	hw := fmt.Sprintf("extensible array header (%s)", what)
	hsize := uint64(4 + 1 + 1 + 1 + 1 + 1 + 1 + 1 + 1 + 6*d.L + d.O + 4)
	b := d.bytesAt(lay.addr, hsize, hw)
	c := d.cursor(b, a, hw)
	c.sig("EAHD")
	if v := c.u8("version"); v != 0 {
		d.fail("%s at 0x%x: version %d, expected 0", hw, a, v)
	}
	client := c.u8("client ID")
	esz := int(c.u8("element size"))
	maxBits := uint(c.u8("max. # of elements bits"))
	idxElmts := uint64(c.u8("# of elements to store in index block"))
	dblkMin := uint64(c.u8("min. # of elements per data block"))
	sblkMinPtrs := uint64(c.u8("min. # of data block pointers for a super block"))
	pageBits := uint(c.u8("max. # of elements in data block page bits"))
	c.length("# of super blocks created")
	c.length("size of super blocks created")
	c.length("# of data blocks created")
	c.length("size of data blocks created")
	maxIdxSet := c.length("max. index set")
	c.length("# of elements realized")
	iblk := c.addr("index block address")
	d.verifyChecksum(b[:hsize-4], c.u32("checksum"), "", "%s at 0x%x", hw, a)
	d.addExtent(a, hsize, "ext-array-hdr")
	filtered := len(o.Filters) > 0
	if client > 1 || (client == 1) != filtered {
		d.fail("%s at 0x%x: client ID %d does not match the dataset (filtered=%v)", hw, a, client, filtered)
	}
	szLen := 0
	want := d.O
	if filtered {
		szLen = chunkSizeLen(chunkBytes)
		want = d.O + szLen + 4
	}
	if esz != want {
		d.fail("%s at 0x%x: element size %d, expected %d", hw, a, esz, want)
	}
	p := lay.idxParams
	if maxBits != uint(p[0]) || idxElmts != uint64(p[1]) || sblkMinPtrs != uint64(p[2]) || dblkMin != uint64(p[3]) || pageBits != uint(p[4]) {
		d.fail("%s at 0x%x: creation parameters (%d,%d,%d,%d,%d) differ from the layout message's %v", hw, a, maxBits, idxElmts, sblkMinPtrs, dblkMin, pageBits, p)
	}
	if maxBits == 0 || maxBits > 64 || !isPow2(dblkMin) || !isPow2(sblkMinPtrs) || sblkMinPtrs < 2 || idxElmts == 0 || pageBits == 0 || pageBits > 32 || uint(log2floor(dblkMin)) > maxBits {
		d.fail("%s at 0x%x: creation parameters (%d,%d,%d,%d,%d) are invalid", hw, a, maxBits, idxElmts, sblkMinPtrs, dblkMin, pageBits)
	}
	grid, unlim := chunkGrid(o, sp, rank)
	if unlim < 0 {
		d.fail("%s at 0x%x: extensible array index on a dataset without an unlimited dimension", hw, a)
	}
	if iblk == UndefAddr {
		return
	}
	// The specification does not say how chunk coordinates map to array indices. The reference library
	// linearises the chunk grid with the unlimited dimension slowest, the other dimensions sized by their
	// maximum extent; files written by early 1.10 pre-releases (kept in its test suite) size them by the
	// current extent. Elements are collected first, then the mapping is chosen under which every chunk lies
	// inside the dataspace (maximum-based preferred).
	type pending struct {
		idx uint64
		e   idxElem
	}
	var pend []pending
	defer func() {
		if r := recover(); r != nil {
			panic(r) // a violation inside the array structures: nothing to map
		}
		curGrid := make([]uint64, rank)
		for k := range curGrid {
			curGrid[k] = (sp.dims[k] + o.ChunkDims[k] - 1) / o.ChunkDims[k]
			if curGrid[k] == 0 {
				curGrid[k] = 1
			}
		}
		try := func(g []uint64) bool {
			o.Chunks = o.Chunks[:0]
			for _, p := range pend {
				addIndexedChunk(o, p.idx, p.e, g, unlim, rank)
			}
			for _, c := range o.Chunks {
				for k := 0; k < rank; k++ {
					if c.Offset[k] >= sp.dims[k] {
						return false
					}
				}
			}
			return true
		}
		if !try(grid) && !try(curGrid) {
			try(grid)
		}
	}()
	// super block layout
	nsblks := 1 + int(maxBits) - int(log2floor(dblkMin))
	type sbInfo struct{ ndblks, dblkNelmts, startIdx, startDblk uint64 }
	sb := make([]sbInfo, nsblks)
	var startIdx, startDblk uint64
	for u := 0; u < nsblks; u++ {
		sb[u].ndblks = uint64(1) << uint(u/2)
		sb[u].dblkNelmts = (uint64(1) << uint((u+1)/2)) * dblkMin
		sb[u].startIdx, sb[u].startDblk = startIdx, startDblk
		startIdx += sb[u].ndblks * sb[u].dblkNelmts
		startDblk += sb[u].ndblks
	}
	nsblksInIblock := 2 * int(log2floor(sblkMinPtrs))
	ndblkAddrs := 2 * (sblkMinPtrs - 1)
	nsblkAddrs := 0
	if nsblks > nsblksInIblock {
		nsblkAddrs = nsblks - nsblksInIblock
	}
	offSize := int(maxBits+7) / 8
	pageElems := uint64(1) << pageBits

	emit := func(idx uint64, e idxElem) {
		if len(pend) > 4_000_000 {
			d.fail("%s at 0x%x: more than 4e6 chunks", hw, a)
		}
		if e.addr != UndefAddr {
			pend = append(pend, pending{idx, e})
		}
	}
	_ = maxIdxSet

	dataBlock := func(addr uint64, nelmts, firstIdx uint64) {
		da := d.abs(addr)
		dw := fmt.Sprintf("extensible array data block (%s)", what)
		prefix := uint64(4+1+1+d.O) + uint64(offSize)
		paged := nelmts > pageElems
		if !paged {
			size := prefix + nelmts*uint64(esz) + 4
			db := d.bytesAt(addr, size, dw)
			dc := d.cursor(db, da, dw)
			d.eaPrefix(dc, "EADB", client, lay.addr, dw, da)
			if off := dc.uN(offSize, "block offset"); off != firstIdx-idxElmts {
				d.fail("%s at 0x%x: block offset %d, expected %d", dw, da, off, firstIdx-idxElmts)
			}
			elems := d.readIdxElems(dc, int(nelmts), filtered, szLen, chunkBytes)
			d.verifyChecksum(db[:size-4], dc.u32("checksum"), "", "%s at 0x%x", dw, da)
			d.addExtent(da, size, "ext-array-dblock")
			for i, e := range elems {
				emit(firstIdx+uint64(i), e)
			}
			return
		}
		size := prefix + 4
		db := d.bytesAt(addr, size, dw)
		dc := d.cursor(db, da, dw)
		d.eaPrefix(dc, "EADB", client, lay.addr, dw, da)
		dc.uN(offSize, "block offset")
		d.verifyChecksum(db[:size-4], dc.u32("checksum"), "", "%s at 0x%x", dw, da)
		npages := nelmts / pageElems
		pageBytes := pageElems*uint64(esz) + 4
		d.bytesAt(addr, size+npages*pageBytes, dw)
		d.addExtent(da, size+npages*pageBytes, "ext-array-dblock")
		// pages that were never initialised hold stale bytes; the super block's page-init bitmask tells which are valid.
		// Without it (decoding stays simple) a page is taken as valid iff its checksum matches.
		for pg := uint64(0); pg < npages; pg++ {
			pa := addr + size + pg*pageBytes
			pb := d.bytesAt(pa, pageBytes, dw+" page")
			if checksum(pb[:pageBytes-4]) != le32(pb[pageBytes-4:]) {
				continue
			}
			pc := d.cursor(pb, d.abs(pa), dw+" page")
			elems := d.readIdxElems(pc, int(pageElems), filtered, szLen, chunkBytes)
			for i, e := range elems {
				emit(firstIdx+pg*pageElems+uint64(i), e)
			}
		}
	}

	ia := d.abs(iblk)
	iw := fmt.Sprintf("extensible array index block (%s)", what)
	isize := uint64(4+1+1+d.O) + idxElmts*uint64(esz) + ndblkAddrs*uint64(d.O) + uint64(nsblkAddrs)*uint64(d.O) + 4
	ib := d.bytesAt(iblk, isize, iw)
	ic := d.cursor(ib, ia, iw)
	d.eaPrefix(ic, "EAIB", client, lay.addr, iw, ia)
	elems := d.readIdxElems(ic, int(idxElmts), filtered, szLen, chunkBytes)
	for i, e := range elems {
		emit(uint64(i), e)
	}
	dblkAddrs := make([]uint64, ndblkAddrs)
	for i := range dblkAddrs {
		dblkAddrs[i] = ic.addr("data block address")
	}
	sblkAddrs := make([]uint64, nsblkAddrs)
	for i := range sblkAddrs {
		sblkAddrs[i] = ic.addr("super block address")
	}
	d.verifyChecksum(ib[:isize-4], ic.u32("checksum"), "", "%s at 0x%x", iw, ia)
	d.addExtent(ia, isize, "ext-array-iblock")
	// data blocks addressed directly from the index block belong to the first super blocks
	di := 0
	for u := 0; u < nsblks && u < nsblksInIblock && di < len(dblkAddrs); u++ {
		for k := uint64(0); k < sb[u].ndblks && di < len(dblkAddrs); k++ {
			if dblkAddrs[di] != UndefAddr {
				dataBlock(dblkAddrs[di], sb[u].dblkNelmts, idxElmts+sb[u].startIdx+k*sb[u].dblkNelmts)
			}
			di++
		}
	}
	for i, sa := range sblkAddrs {
		if sa == UndefAddr {
			continue
		}
		u := nsblksInIblock + i
		sw := fmt.Sprintf("extensible array super block %d (%s)", u, what)
		saa := d.abs(sa)
		pageInit := uint64(0)
		if sb[u].dblkNelmts > pageElems {
			np := sb[u].dblkNelmts / pageElems
			pageInit = (np + 7) / 8
		}
		ssize := uint64(4+1+1+d.O) + uint64(offSize) + sb[u].ndblks*pageInit + sb[u].ndblks*uint64(d.O) + 4
		sbb := d.bytesAt(sa, ssize, sw)
		sc := d.cursor(sbb, saa, sw)
		d.eaPrefix(sc, "EASB", client, lay.addr, sw, saa)
		if off := sc.uN(offSize, "block offset"); off != sb[u].startIdx {
			d.fail("%s at 0x%x: block offset %d, expected %d", sw, saa, off, sb[u].startIdx)
		}
		sc.skip(int(sb[u].ndblks*pageInit), "page init bitmasks")
		addrs := make([]uint64, sb[u].ndblks)
		for k := range addrs {
			addrs[k] = sc.addr("data block address")
		}
		d.verifyChecksum(sbb[:ssize-4], sc.u32("checksum"), "", "%s at 0x%x", sw, saa)
		d.addExtent(saa, ssize, "ext-array-sblock")
		for k, da := range addrs {
			if da != UndefAddr {
				dataBlock(da, sb[u].dblkNelmts, idxElmts+sb[u].startIdx+uint64(k)*sb[u].dblkNelmts)
			}
		}
	}
}

func (d *dec) eaPrefix(c *cur, sig string, client uint8, hdr uint64, what string, at uint64) {
	c.sig(sig)
	if v := c.u8("version"); v != 0 {
		d.fail("%s at 0x%x: version %d, expected 0", what, at, v)
	}
	if cl := c.u8("client ID"); cl != client {
		d.fail("%s at 0x%x: client ID %d differs from the header's %d", what, at, cl, client)
	}
	if h := c.addr("header address"); h != hdr {
		d.fail("%s at 0x%x: header address 0x%x differs from the owning header 0x%x", what, at, h, hdr)
	}
}

func (d *dec) btree2Chunks(o *Object, sp *dataspace, lay *layoutMsg, chunkBytes uint64, rank int, what string) {
	bt := d.btree2(lay.addr)
	a := d.abs(lay.addr)
	filtered := len(o.Filters) > 0
	wantType, szLen := 10, 0
	recSize := d.O + 8*rank
	if filtered {
		wantType = 11
		szLen = chunkSizeLen(chunkBytes)
		recSize = d.O + szLen + 4 + 8*rank
	}
	if bt.typ != wantType {
		d.fail("B-tree v2 at 0x%x (chunk index of %s): record type %d, expected %d", a, what, bt.typ, wantType)
	}
	if bt.recSize != recSize {
		d.fail("B-tree v2 at 0x%x (chunk index of %s): record size %d, expected %d", a, what, bt.recSize, recSize)
	}
	var prev []uint64
	for i, r := range bt.records {
		c := d.cursor(r, 0, "chunk index record")
		e := idxElem{size: chunkBytes}
		e.addr = c.addr("chunk address")
		if filtered {
			e.size = c.uN(szLen, "chunk size")
			e.mask = c.u32("filter mask")
		}
		off := make([]uint64, rank+1)
		for k := 0; k < rank; k++ {
			s := c.u64("scaled offset")
			if s > (1<<63)/o.ChunkDims[k] {
				d.fail("B-tree v2 at 0x%x (chunk index of %s): record #%d scaled offset %d overflows", a, what, i, s)
			}
			off[k] = s * o.ChunkDims[k]
		}
		if prev != nil && !lessOffsets(prev, off) {
			d.fail("B-tree v2 at 0x%x (chunk index of %s): record #%d (offset %v) does not sort after the preceding record (offset %v)", a, what, i, off, prev)
		}
		prev = off
		if e.addr == UndefAddr {
			d.fail("B-tree v2 at 0x%x (chunk index of %s): record #%d has an undefined chunk address", a, what, i)
		}
		o.Chunks = append(o.Chunks, Chunk{Offset: off, Addr: e.addr, Size: uint32(e.size), FilterMask: e.mask})
	}
}
