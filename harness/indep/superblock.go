package indep

import (
	"github.com/scigolib/hdf5/verif/refimpl"
)

const sbSig = "\x89HDF\r\n\x1a\n"

func checksum(b []byte) uint32 { return refimpl.Lookup3(b, 0) }

func le32(b []byte) uint32 {
	return uint32(b[0]) | uint32(b[1])<<8 | uint32(b[2])<<16 | uint32(b[3])<<24
}

func validSize(n int) bool { return n == 2 || n == 4 || n == 8 }

// superblock locates (offset 0, 512, 1024, 2048, ...) and decodes the superblock.
func (d *dec) superblock() {
	f := d.f
	pos := -1
	for off := 0; off+8 <= len(d.d); {
		if string(d.d[off:off+8]) == sbSig {
			pos = off
			break
		}
		if off == 0 {
			off = 512
		} else {
			off *= 2
		}
	}
	if pos < 0 {
		d.fail("superblock: format signature not found at offset 0, 512, 1024, ... (not an HDF5 file)")
	}
	f.SuperblockAddr = uint64(pos)
	c := d.cursor(d.d[pos:], uint64(pos), "superblock")
	c.sig(sbSig)
	ver := int(c.u8("version"))
	f.SuperblockVersion = ver
	f.ExtensionAddr = UndefAddr
	d.owner = "<superblock>"
	switch ver {
	case 0, 1:
		if v := c.u8("free-space storage version"); v != 0 {
			d.fail("superblock at 0x%x: free-space storage version %d, expected 0", pos, v)
		}
		if v := c.u8("root group symbol table entry version"); v != 0 {
			d.fail("superblock at 0x%x: root group symbol table entry version %d, expected 0", pos, v)
		}
		c.zero(1, "reserved")
		if v := c.u8("shared header message format version"); v != 0 {
			d.fail("superblock at 0x%x: shared header message format version %d, expected 0", pos, v)
		}
		d.O = int(c.u8("size of offsets"))
		d.L = int(c.u8("size of lengths"))
		c.zero(1, "reserved")
		if !validSize(d.O) || !validSize(d.L) {
			d.fail("superblock at 0x%x: size of offsets %d / size of lengths %d not in {2,4,8}", pos, d.O, d.L)
		}
		f.GroupLeafK = int(c.u16("group leaf node K"))
		f.GroupInternalK = int(c.u16("group internal node K"))
		if f.GroupLeafK == 0 || f.GroupInternalK == 0 {
			d.fail("superblock at 0x%x: group leaf node K (%d) and group internal node K (%d) must be greater than zero", pos, f.GroupLeafK, f.GroupInternalK)
		}
		flags := c.u32("file consistency flags")
		if flags&^uint32(0x3) != 0 {
			d.fail("superblock at 0x%x: file consistency flags 0x%x have reserved bits set", pos, flags)
		}
		f.ChunkK = 32
		if ver == 1 {
			f.ChunkK = int(c.u16("indexed storage internal node K"))
			if f.ChunkK == 0 {
				d.fail("superblock at 0x%x: indexed storage internal node K must be greater than zero", pos)
			}
			c.zero(2, "reserved")
		}
		f.OffsetSize, f.LengthSize = d.O, d.L
		f.BaseAddr = c.addr("base address")
		fsAddr := c.addr("address of file free-space info")
		f.EOFAddr = c.addr("end of file address")
		drvAddr := c.addr("driver information block address")
		if fsAddr != UndefAddr {
			d.fail("superblock at 0x%x: address of file free-space info is 0x%x, must be undefined (not supported by the format)", pos, fsAddr)
		}
		d.base = d.baseAddress(uint64(pos))
		// root group symbol table entry
		nameOff := c.addr("root entry: link name offset")
		f.RootAddr = c.addr("root entry: object header address")
		cache := c.u32("root entry: cache type")
		c.zero(4, "root entry: reserved")
		scratch := c.bytes(16, "root entry: scratch-pad")
		_ = nameOff
		if cache > 2 {
			d.fail("superblock at 0x%x: root symbol table entry cache type %d not in 0..2", pos, cache)
		}
		if cache == 1 {
			sc := d.cursor(scratch, uint64(pos+c.pos-16), "superblock root symbol table entry scratch-pad")
			d.rootCachedBT = sc.addr("cached B-tree address")
			d.rootCachedHeap = sc.addr("cached name heap address")
			d.rootCached = true
		}
		d.addExtent(uint64(pos), uint64(c.pos), "superblock")
		if drvAddr != UndefAddr {
			d.unsupported("driver information block at 0x%x (multi/family/split file driver)", d.abs(drvAddr))
		}
	case 2, 3:
		d.O = int(c.u8("size of offsets"))
		d.L = int(c.u8("size of lengths"))
		if !validSize(d.O) || !validSize(d.L) {
			d.fail("superblock at 0x%x: size of offsets %d / size of lengths %d not in {2,4,8}", pos, d.O, d.L)
		}
		f.OffsetSize, f.LengthSize = d.O, d.L
		flags := c.u8("file consistency flags")
		max := uint8(0x3)
		if ver == 3 {
			max = 0x7
		}
		if flags&^max != 0 {
			d.fail("superblock at 0x%x: file consistency flags 0x%x have reserved bits set", pos, flags)
		}
		f.BaseAddr = c.addr("base address")
		f.ExtensionAddr = c.addr("superblock extension address")
		f.EOFAddr = c.addr("end of file address")
		f.RootAddr = c.addr("root group object header address")
		stored := c.u32("checksum")
		d.verifyChecksum(c.b[:c.pos-4], stored, "superblock-crc32", "superblock at 0x%x", pos)
		d.base = d.baseAddress(uint64(pos))
		f.GroupLeafK, f.GroupInternalK, f.ChunkK = 4, 16, 32
		d.addExtent(uint64(pos), uint64(c.pos), "superblock")
	default:
		d.fail("superblock at 0x%x: version %d not in 0..3", pos, ver)
	}
	if f.RootAddr == UndefAddr {
		d.fail("superblock at 0x%x: root group object header address is undefined", pos)
	}
	if f.EOFAddr == UndefAddr {
		d.fail("superblock at 0x%x: end of file address is undefined", pos)
	}
	if f.EOFAbsolute() < uint64(pos)+uint64(c.pos) {
		d.fail("superblock at 0x%x: end of file address 0x%x lies inside the superblock", pos, f.EOFAddr)
	}
}

// baseAddress: all file addresses are relative to the base address. The spec has the superblock
// located at the base address (user block in front of it).
func (d *dec) baseAddress(sbPos uint64) uint64 {
	b := d.f.BaseAddr
	if b == UndefAddr {
		d.fail("superblock at 0x%x: base address is undefined", sbPos)
	}
	if b != sbPos && b != 0 {
		d.fail("superblock at 0x%x: base address 0x%x is neither 0 nor the superblock location", sbPos, b)
	}
	// The reference implementation treats the location of the superblock as the base address even
	// when the stored value differs (user block added after creation); do the same.
	d.f.StoredBaseAddr = b
	d.f.BaseAddr = sbPos
	return sbPos
}
