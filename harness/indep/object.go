package indep

import (
	"fmt"
)

type linkInfoMsg struct {
	fheap, nameBT, corderBT uint64
}

var uniqueMsg = map[uint16]string{
	mDataspace: "dataspace", mLinkInfo: "link info", mDatatype: "datatype", mFillOld: "fill value (old)", mFill: "fill value",
	mExternal: "external data files", mLayout: "data layout", mGroupInfo: "group info", mPipeline: "filter pipeline",
	mComment: "object comment", mModTimeOld: "modification time (old)", mSOHMTable: "shared message table",
	mSymbolTable: "symbol table", mModTime: "modification time", mBtreeK: "B-tree K values", mDriverInfo: "driver info",
	mAttrInfo: "attribute info", mRefCount: "reference count", mFileSpace: "file space info",
}

// object decodes the object header at addr into an Object.
func (d *dec) object(addr uint64, path string) *Object {
	if addr == UndefAddr {
		d.fail("object %s: object header address is undefined", path)
	}
	h := d.parseHeader(addr)
	ha := d.abs(addr)
	o := &Object{Path: path, Addr: addr, HeaderVersion: h.version, RefCount: h.refCount, DataAddr: UndefAddr, Kind: "unknown"}
	var sp *dataspace
	var lay *layoutMsg
	var fill *fillMsg
	var fillOld []byte
	var stab *[2]uint64
	var linkInfo, attrInfo *linkInfoMsg
	var compactLinks []Link
	hasGroupInfo := false
	external := false
	var unsup []string
	seen := map[uint16]bool{}
	attrNames := map[string]bool{}
	for i := range h.msgs {
		m := h.msgs[i]
		o.MsgTypes = append(o.MsgTypes, m.typ)
		what := fmt.Sprintf("message #%d (type 0x%02x) of object header 0x%x (%s)", i, m.typ, ha, path)
		if name, uniq := uniqueMsg[m.typ]; uniq {
			if seen[m.typ] {
				d.fail("%s: second %s message in one object header", what, name)
			}
			seen[m.typ] = true
		}
		if m.flags&2 != 0 && m.typ == mNil {
			continue
		}
		u := d.try(func() {
			body, at := m.data, m.abs
			sharedAt := UndefAddr
			if m.flags&2 != 0 {
				switch m.typ {
				case mDataspace, mDatatype, mFillOld, mFill, mPipeline, mAttribute:
				default:
					d.fail("%s: shared flag set on a message type that cannot be shared", what)
				}
				sc := d.cursor(body, at, what+" shared reference")
				ref := d.decodeSharedRef(sc)
				if ref.typ != 1 && m.typ != mDatatype {
					d.fail("%s: only datatype messages can be shared in another object header (committed)", what)
				}
				body, at, sharedAt = d.resolveShared(ref, m.typ, what)
			}
			switch m.typ {
			case mNil:
			case mDataspace:
				sp = d.decodeDataspace(body, at)
				d.trailing(body, sp.encLen, h.version, what)
			case mDatatype:
				// version 1 headers pad message bodies to 8 bytes and old writers sized datatype messages by an
				// upper bound; in version 2 headers the body is exactly the encoding
				o.Type = d.datatypeMsg(body, at, what, h.version != 1 && sharedAt == UndefAddr)
				if sharedAt != UndefAddr {
					o.Type.Shared, o.Type.SharedAddr = true, sharedAt
				}
			case mLayout:
				lay = d.decodeLayout(body, at)
			case mFillOld:
				c := d.cursor(body, at, what)
				n := int(c.u32("size"))
				fillOld = c.bytes(n, "fill value")
			case mFill:
				fill = d.decodeFill(body, at)
			case mPipeline:
				o.Filters = d.decodePipeline(body, at)
			case mAttribute:
				a := d.decodeAttribute(body, at)
				if attrNames[a.Name] {
					d.fail("%s: attribute name %q occurs twice", what, a.Name)
				}
				attrNames[a.Name] = true
				o.Attrs = append(o.Attrs, a)
			case mLink:
				l := d.decodeLink(body, at, h.version != 1, nil)
				compactLinks = append(compactLinks, l)
			case mLinkInfo:
				linkInfo = d.decodeInfoMsg(body, at, what, 8)
			case mAttrInfo:
				attrInfo = d.decodeInfoMsg(body, at, what, 2)
			case mGroupInfo:
				hasGroupInfo = true
				c := d.cursor(body, at, what)
				if v := c.u8("version"); v != 0 {
					d.fail("%s: group info version %d, expected 0", what, v)
				}
				fl := c.u8("flags")
				if fl&^uint8(3) != 0 {
					d.fail("%s: group info flags 0x%02x have reserved bits set", what, fl)
				}
				if fl&1 != 0 {
					c.u16("link phase change: maximum compact value")
					c.u16("link phase change: minimum dense value")
				}
				if fl&2 != 0 {
					c.u16("estimated number of entries")
					c.u16("estimated link name length of entries")
				}
				d.trailing(body, c.pos, h.version, what)
			case mSymbolTable:
				c := d.cursor(body, at, what)
				bt := c.addr("v1 B-tree address")
				hp := c.addr("local heap address")
				stab = &[2]uint64{bt, hp}
				d.trailing(body, c.pos, h.version, what)
			case mContinuation:
			case mRefCount:
				c := d.cursor(body, at, what)
				if len(body) == 4 {
					// the pinned library writes only the 4-byte count
					d.deviate("refcount-msg-no-version", "%s: reference count message is 4 bytes (count only); the message starts with a version byte and is 5 bytes", what)
					o.RefCount = c.u32("reference count")
					break
				}
				if v := c.u8("version"); v != 0 {
					d.fail("%s: reference count message version %d, expected 0", what, v)
				}
				o.RefCount = c.u32("reference count")
				if h.version == 1 {
					d.fail("%s: reference count message in a version 1 object header", what)
				}
			case mComment:
				c := d.cursor(body, at, what)
				o.Comment = c.cstr(0, "comment")
			case mModTime:
				c := d.cursor(body, at, what)
				if v := c.u8("version"); v != 1 {
					d.fail("%s: modification time message version %d, expected 1", what, v)
				}
				c.zero(3, "reserved")
				c.u32("seconds after UNIX epoch")
			case mModTimeOld:
				c := d.cursor(body, at, what)
				c.skip(14, "YYYYMMDDhhmmss")
			case mBtreeK:
				c := d.cursor(body, at, what)
				if v := c.u8("version"); v != 0 {
					d.fail("%s: B-tree K values message version %d, expected 0", what, v)
				}
				ck := int(c.u16("indexed storage internal node K"))
				gi := int(c.u16("group internal node K"))
				gl := int(c.u16("group leaf node K"))
				if ck == 0 || gi == 0 || gl == 0 {
					d.fail("%s: B-tree K values (%d,%d,%d) must be greater than zero", what, ck, gi, gl)
				}
				if path == "<superblock-extension>" {
					d.f.ChunkK, d.f.GroupInternalK, d.f.GroupLeafK = ck, gi, gl
				}
			case mDriverInfo:
				d.unsupported("driver info message (multi/family/split file driver)")
			case mExternal:
				external = true
				c := d.cursor(body, at, what)
				if v := c.u8("version"); v != 1 {
					d.fail("%s: external data files message version %d, expected 1", what, v)
				}
				c.zero(3, "reserved")
				c.u16("allocated slots")
				used := int(c.u16("used slots"))
				c.addr("heap address")
				c.skip(used*3*d.L, "slot definitions")
			case mSOHMTable:
				if path != "<superblock-extension>" && len(body) != 2+d.O {
					// the pinned library numbers the attribute info message 0x0F (the shared message table's type) instead of 0x15
					var ai *linkInfoMsg
					ok := true
					func() {
						defer func() {
							if r := recover(); r != nil {
								if _, is := r.(*specError); !is {
									panic(r)
								}
								ok = false
							}
						}()
						ai = d.decodeInfoMsg(body, at, what, 2)
					}()
					if ok && (len(body) == 2+2*d.O || len(body) == 4+2*d.O || len(body) == 2+3*d.O || len(body) == 4+3*d.O) {
						d.deviate("attr-info-msg-type-0x0f", "%s: message type 0x0F (shared message table) holds an attribute info message, whose type is 0x15", what)
						if attrInfo != nil {
							d.fail("%s: second attribute info message in one object header", what)
						}
						attrInfo = ai
						break
					}
				}
				c := d.cursor(body, at, what)
				if v := c.u8("version"); v != 0 {
					d.fail("%s: shared message table message version %d, expected 0", what, v)
				}
				c.addr("shared object header message table address")
				c.u8("number of indices")
				d.trailing(body, c.pos, h.version, what)
			case mFileSpace:
				c := d.cursor(body, at, what)
				if v := c.u8("version"); v > 1 {
					d.fail("%s: file space info message version %d not in 0..1", what, v)
				}
			case mBogus, 0x18:
			default:
				// unknown message types are allowed (flags say what a reader must do with them)
				if m.flags&0x08 != 0 && false {
					d.fail("%s: unknown message type marked fail-if-unknown", what)
				}
			}
		})
		if u != "" {
			unsup = append(unsup, u)
			d.noteUnsupported(fmt.Sprintf("%s (object %s)", trimUnsup(u), path))
		}
	}

	// ---- classification
	isDataset := sp != nil && lay != nil && (o.Type != nil || len(unsup) > 0)
	switch {
	case stab != nil:
		o.Kind = "group"
		o.GroupStorage = "symbol-table"
		if linkInfo != nil || len(compactLinks) > 0 {
			d.fail("object header 0x%x (%s): both a symbol table message and link/link info messages", ha, path)
		}
		if h.version != 1 && false {
			d.fail("object header 0x%x (%s): symbol table message in a version 2 object header", ha, path)
		}
		d.linksFromSymbolTable(o, stab[0], stab[1])
	case linkInfo != nil:
		o.Kind = "group"
		if linkInfo.fheap != UndefAddr {
			o.GroupStorage = "dense-links"
			if len(compactLinks) > 0 {
				d.fail("object header 0x%x (%s): link messages present although links are stored densely (fractal heap 0x%x)", ha, path, d.abs(linkInfo.fheap))
			}
			if u := d.try(func() { d.denseLinks(o, linkInfo.fheap, linkInfo.nameBT, linkInfo.corderBT) }); u != "" {
				d.noteUnsupported(fmt.Sprintf("%s (object %s)", trimUnsup(u), path))
			}
		} else {
			o.GroupStorage = "compact-links"
			if linkInfo.nameBT != UndefAddr {
				d.fail("object header 0x%x (%s): link info has no fractal heap but a name index B-tree 0x%x", ha, path, d.abs(linkInfo.nameBT))
			}
			names := map[string]bool{}
			for _, l := range compactLinks {
				if names[l.Name] {
					d.fail("object header 0x%x (%s): link name %q occurs twice", ha, path, l.Name)
				}
				names[l.Name] = true
			}
			o.Links = compactLinks
		}
	case len(compactLinks) == 1 && !hasGroupInfo && onlyLinkAndRefCount(h.msgs) && compactLinks[0].Kind != "hard":
		// the pinned library stores a soft/external link as an object header of its own that holds just the
		// link message, and enters that header in the parent's symbol table like an object
		d.deviate("link-pseudo-object", "object header 0x%x (%s): holds nothing but a %s link message; links are stored in the group that contains them (link message in the group's header, or a symbol table entry with cache type 2), not as separate objects", ha, path, compactLinks[0].Kind)
		o.Kind = "link-pseudo-object"
		o.Links = compactLinks
	case len(compactLinks) > 0 || hasGroupInfo:
		// link messages without link info: the spec requires a link info message in every new-style group
		d.fail("object header 0x%x (%s): link/group info messages without a link info message", ha, path)
	case isDataset:
		o.Kind = "dataset"
	case o.Type != nil && sp == nil && lay == nil:
		o.Kind = "datatype"
	}
	if o.Kind != "dataset" && o.Kind != "group" && (sp != nil || lay != nil) && len(unsup) == 0 {
		d.fail("object header 0x%x (%s): incomplete dataset: dataspace=%v datatype=%v layout=%v", ha, path, sp != nil, o.Type != nil, lay != nil)
	}
	if o.Kind == "group" && linkInfo != nil && sp != nil && lay == nil && o.Type == nil && sp.scalar {
		d.deviate("dense-group-dataspace-msg", "object header 0x%x (%s): group object header carries a (scalar) dataspace message", ha, path)
	} else if o.Kind == "group" && (sp != nil || lay != nil) {
		d.fail("object header 0x%x (%s): group object header also carries dataset messages", ha, path)
	}

	// ---- dense attributes
	if attrInfo != nil && attrInfo.fheap != UndefAddr {
		if u := d.try(func() { d.denseAttrs(o, attrInfo) }); u != "" {
			d.noteUnsupported(fmt.Sprintf("%s (object %s)", trimUnsup(u), path))
		}
	} else if attrInfo != nil && attrInfo.nameBT != UndefAddr {
		d.fail("object header 0x%x (%s): attribute info has no fractal heap but a name index B-tree 0x%x", ha, path, d.abs(attrInfo.nameBT))
	}

	// ---- dataset
	if o.Kind == "dataset" {
		o.Dims, o.MaxDims, o.Scalar = sp.dims, sp.max, sp.scalar
		o.LayoutVersion = lay.version
		o.Layout = [...]string{"compact", "contiguous", "chunked", "virtual"}[lay.class]
		if fill != nil && fill.defined {
			o.FillValue = fill.value
		} else if fill == nil && len(fillOld) > 0 {
			o.FillValue = fillOld
		}
		if o.Type == nil {
			o.RawErr = unsup[0]
		} else {
			if len(o.FillValue) > 0 && uint32(len(o.FillValue)) != o.Type.Size {
				d.fail("object header 0x%x (%s): fill value of %d bytes for a datatype of %d bytes", ha, path, len(o.FillValue), o.Type.Size)
			}
			if lay.class != 2 && len(o.Filters) > 0 {
				d.fail("object header 0x%x (%s): filter pipeline on a dataset that is not chunked", ha, path)
			}
			if u := d.try(func() { d.datasetData(o, sp, lay, external) }); u != "" {
				o.Raw = nil
				o.RawErr = u
				d.noteUnsupported(fmt.Sprintf("%s (object %s)", trimUnsup(u), path))
			}
		}
	}
	return o
}

func trimUnsup(s string) string {
	const p = "unsupported: "
	if len(s) >= len(p) && s[:len(p)] == p {
		return s[len(p):]
	}
	return s
}

// trailing: bytes after a decoded message body. In version 1 headers bodies are padded to 8 bytes;
// everywhere padding must be shorter than 8 bytes and zero.
func (d *dec) trailing(body []byte, used int, hdrVersion int, what string) {
	rest := len(body) - used
	if rest < 0 {
		return
	}
	if rest >= 8 {
		d.fail("%s: %d unexplained bytes after the %d decoded bytes of the message", what, rest, used)
	}
}

func (d *dec) decodeInfoMsg(b []byte, at uint64, what string, maxIdxBytes int) *linkInfoMsg {
	c := d.cursor(b, at, what)
	if v := c.u8("version"); v != 0 {
		d.fail("%s: version %d, expected 0", what, v)
	}
	fl := c.u8("flags")
	if fl&^uint8(3) != 0 {
		d.fail("%s: flags 0x%02x have reserved bits set", what, fl)
	}
	if fl&1 != 0 {
		c.uN(maxIdxBytes, "maximum creation index")
	}
	m := &linkInfoMsg{corderBT: UndefAddr}
	m.fheap = c.addr("fractal heap address")
	m.nameBT = c.addr("name index B-tree address")
	if fl&2 != 0 {
		m.corderBT = c.addr("creation order index B-tree address")
	}
	if c.rem() >= 8 {
		d.fail("%s: %d unexplained bytes after the message", what, c.rem())
	}
	return m
}

// denseAttrs reads densely stored attributes: name index B-tree v2 (type 8) -> fractal heap -> attribute messages.
func (d *dec) denseAttrs(o *Object, ai *linkInfoMsg) {
	ha := d.abs(o.Addr)
	if ai.nameBT == UndefAddr {
		d.fail("attribute info of object header 0x%x (%s): fractal heap defined but name index B-tree undefined", ha, o.Path)
	}
	fh := d.fractalHeap(ai.fheap)
	bt := d.btree2(ai.nameBT)
	bta := d.abs(ai.nameBT)
	idLen, hashAt, flagsAt := 8, 13, 8
	switch {
	case bt.typ == 8:
		if bt.recSize != 17 {
			d.fail("B-tree v2 at 0x%x (attribute name index of %s): record size %d, expected 17 for type 8", bta, o.Path, bt.recSize)
		}
	case bt.typ == 5 && bt.recSize == 11:
		d.deviate("attr-btree2-type5", "B-tree v2 at 0x%x (attribute name index of %s): record type 5 with 11-byte records (hash, 7-byte heap ID); the attribute name index must be type 8 with 17-byte records (8-byte heap ID, message flags, creation order, hash)", bta, o.Path)
		idLen, hashAt, flagsAt = 7, 0, -1
	default:
		d.fail("B-tree v2 at 0x%x (attribute name index of %s): record type %d, expected 8", bta, o.Path, bt.typ)
	}
	if fh.idLen != 8 {
		d.fail("fractal heap at 0x%x (attributes of %s): heap ID length %d, expected 8", d.abs(ai.fheap), o.Path, fh.idLen)
	}
	_ = idLen
	var prevHash uint32
	names := map[string]bool{}
	for _, a := range o.Attrs {
		names[a.Name] = true
	}
	base := append([]Attribute{}, o.Attrs...)
	d.withHeapOffsetFallback(fh, func() {
		prevHash = 0
		o.Attrs = append([]Attribute{}, base...)
		names = map[string]bool{}
		for _, a := range o.Attrs {
			names[a.Name] = true
		}
	}, func() {
		for i, r := range bt.records {
			var id []byte
			if hashAt == 0 {
				id = r[4:11]
			} else {
				id = r[0:8]
			}
			hash := le32(r[hashAt:])
			if flagsAt >= 0 && r[flagsAt]&2 != 0 {
				d.unsupported("shared (SOHM) attribute in dense attribute storage")
			}
			body, at := fh.object(d, id, fmt.Sprintf("attribute name index record #%d of %s", i, o.Path))
			a := d.decodeAttribute(body, at)
			a.Dense = true
			if got := checksum([]byte(a.Name)); got != hash {
				d.fail("B-tree v2 at 0x%x (attribute name index of %s): record #%d stores hash 0x%08x, lookup3 of the attribute name %q is 0x%08x", bta, o.Path, i, hash, a.Name, got)
			}
			if i > 0 && hash < prevHash {
				d.fail("B-tree v2 at 0x%x (attribute name index of %s): record #%d (hash 0x%08x) does not sort after record #%d (hash 0x%08x)", bta, o.Path, i, hash, i-1, prevHash)
			}
			prevHash = hash
			if names[a.Name] {
				d.fail("B-tree v2 at 0x%x (attribute name index of %s): attribute name %q occurs twice", bta, o.Path, a.Name)
			}
			names[a.Name] = true
			o.Attrs = append(o.Attrs, a)
		}
	})
	if uint64(len(bt.records)) != fh.nManaged+fh.nHuge+fh.nTiny {
		d.fail("fractal heap at 0x%x (attributes of %s): header counts %d objects but the name index holds %d records", d.abs(ai.fheap), o.Path, fh.nManaged+fh.nHuge+fh.nTiny, len(bt.records))
	}
	if ai.corderBT != UndefAddr {
		cb := d.btree2(ai.corderBT)
		if cb.typ != 9 {
			d.fail("B-tree v2 at 0x%x (attribute creation order index of %s): record type %d, expected 9", d.abs(ai.corderBT), o.Path, cb.typ)
		}
		if len(cb.records) != len(bt.records) {
			d.fail("B-tree v2 at 0x%x (attribute creation order index of %s): %d records, name index has %d", d.abs(ai.corderBT), o.Path, len(cb.records), len(bt.records))
		}
	}
}

// onlyLinkAndRefCount: the header holds one link message and, once a hard link has been made to the pseudo object the
// pinned library stores a soft/external link as, a reference count message (type 0x16); NIL messages do not count.
func onlyLinkAndRefCount(msgs []rawMsg) bool {
	links := 0
	for _, m := range msgs {
		switch m.typ {
		case 0x0006:
			links++
		case 0x0016, 0x0000:
		default:
			return false
		}
	}
	return links == 1
}
