package indep

import (
	"fmt"
)

type fhBlock struct {
	off, size uint64 // position in the heap's linear address space
	addr      uint64 // file address
	data      []byte // whole block including its header
}

type fheap struct {
	addr         uint64
	idLen        int
	flags        uint8
	maxManaged   uint32
	hugeBT       uint64
	nManaged     uint64
	nHuge        uint64
	nTiny        uint64
	width        int
	startSize    uint64
	maxDirect    uint64
	maxHeapBits  int
	rootAddr     uint64
	curRows      int
	offBytes     int
	lenBytes     int
	blockHdr     int
	blocks       []fhBlock
	dataRelative bool // deviation fheap-offsets-exclude-block-header in force for this heap
	freeSpace    uint64
	manSize      uint64
	manAlloc     uint64
	manIter      uint64
}

func isPow2(x uint64) bool { return x != 0 && x&(x-1) == 0 }

func (d *dec) fractalHeap(addr uint64) *fheap {
	if h, ok := d.fheapCache[addr]; ok {
		return h
	}
	what := "fractal heap header"
	a := d.abs(addr)
	fixed := uint64(4 + 1 + 2 + 2 + 1 + 4 + d.L + d.O + d.L + d.O + 4*d.L + 4*d.L + 2 + 2*d.L + 2 + 2 + d.O + 2)
	b := d.bytesAt(addr, fixed+4, what)
	c := d.cursor(b, a, what)
	c.sig("FRHP")
	if v := c.u8("version"); v != 0 {
		d.fail("%s at 0x%x: version %d, expected 0", what, a, v)
	}
	h := &fheap{addr: addr}
	h.idLen = int(c.u16("heap ID length"))
	filtLen := int(c.u16("I/O filters' encoded length"))
	h.flags = c.u8("flags")
	if h.flags&^uint8(3) != 0 {
		d.fail("%s at 0x%x: flags 0x%02x have reserved bits set", what, a, h.flags)
	}
	h.maxManaged = c.u32("maximum size of managed objects")
	c.length("next huge object ID")
	h.hugeBT = c.addr("v2 B-tree address of huge objects")
	h.freeSpace = c.length("amount of free space in managed blocks")
	c.addr("address of managed block free space manager")
	h.manSize = c.length("amount of managed space in heap")
	h.manAlloc = c.length("amount of allocated managed space in heap")
	h.manIter = c.length("offset of direct block allocation iterator")
	h.nManaged = c.length("number of managed objects in heap")
	c.length("size of huge objects in heap")
	h.nHuge = c.length("number of huge objects in heap")
	c.length("size of tiny objects in heap")
	h.nTiny = c.length("number of tiny objects in heap")
	h.width = int(c.u16("table width"))
	h.startSize = c.length("starting block size")
	h.maxDirect = c.length("maximum direct block size")
	h.maxHeapBits = int(c.u16("maximum heap size"))
	startRows := int(c.u16("starting # of rows in root indirect block"))
	h.rootAddr = c.addr("address of root block")
	h.curRows = int(c.u16("current # of rows in root indirect block"))
	_ = startRows
	hsize := fixed + 4
	if filtLen > 0 {
		hsize += uint64(d.L) + 4 + uint64(filtLen)
		b = d.bytesAt(addr, hsize, what)
	}
	stored := le32(b[hsize-4:])
	d.verifyChecksum(b[:hsize-4], stored, "fheap-crc32", "%s at 0x%x", what, a)
	d.addExtent(a, hsize, "fractal-heap-hdr")
	if !isPow2(uint64(h.width)) || !isPow2(h.startSize) || !isPow2(h.maxDirect) || h.maxDirect < h.startSize {
		d.fail("%s at 0x%x: table width %d, starting block size %d and maximum direct block size %d must be powers of two with start <= max", what, a, h.width, h.startSize, h.maxDirect)
	}
	if h.maxHeapBits == 0 || h.maxHeapBits > 64 {
		d.fail("%s at 0x%x: maximum heap size of %d bits not in 1..64", what, a, h.maxHeapBits)
	}
	if log2floor(h.maxDirect) > uint(h.maxHeapBits) {
		d.deviate("fheap-block-exceeds-heap-space", "%s at 0x%x: maximum direct block size %d exceeds the heap address space of %d bits", what, a, h.maxDirect, h.maxHeapBits)
	}
	if h.hugeBT == 0 && d.base == 0 {
		d.deviate("fheap-addr-zero-for-undefined", "%s at 0x%x: v2 B-tree address of huge objects is 0 (the superblock); absent structures have the undefined address", what, a)
		h.hugeBT = UndefAddr
	}
	if h.curRows == 0 && h.rootAddr != UndefAddr && h.manIter < h.startSize && h.freeSpace+h.manIter == h.startSize {
		// library accounting: free space = block size - object bytes (block header ignored), allocation
		// iterator = object bytes; object offsets count from the first payload byte of the root direct block
		d.deviate("fheap-offsets-exclude-block-header", "%s at 0x%x: free space %d + allocation offset %d = block size %d: the direct block's %d-byte header is not part of the heap's address space (managed object offsets count from the first payload byte)", what, a, h.freeSpace, h.manIter, h.startSize, 5+d.O+(h.maxHeapBits+7)/8)
		h.dataRelative = true
	}
	if h.idLen < 3 || h.idLen > 4096 {
		d.fail("%s at 0x%x: heap ID length %d is implausible", what, a, h.idLen)
	}
	h.offBytes = (h.maxHeapBits + 7) / 8
	lb := int(log2floor(h.maxDirect)+7) / 8
	if e := encSize(uint64(h.maxManaged)); e < lb {
		lb = e
	}
	h.lenBytes = lb
	h.blockHdr = 5 + d.O + h.offBytes
	if h.flags&2 != 0 {
		h.blockHdr += 4
	}
	d.fheapCache[addr] = h
	if filtLen > 0 {
		d.noteUnsupported(fmt.Sprintf("fractal heap at 0x%x with I/O filters", a))
		return h
	}
	if h.rootAddr != UndefAddr {
		if h.curRows == 0 {
			d.fhDirect(h, h.rootAddr, 0, h.startSize)
		} else {
			d.fhIndirect(h, h.rootAddr, 0, h.curRows, 0)
		}
	} else if h.nManaged != 0 {
		d.fail("%s at 0x%x: %d managed objects but the root block address is undefined", what, a, h.nManaged)
	}
	var alloc uint64
	for _, bl := range h.blocks {
		alloc += bl.size
	}
	if alloc != h.manAlloc {
		d.fail("%s at 0x%x: amount of allocated managed space is %d but the allocated direct blocks add up to %d bytes", what, a, h.manAlloc, alloc)
	}
	if h.manAlloc > h.manSize {
		d.fail("%s at 0x%x: allocated managed space %d exceeds the managed space %d", what, a, h.manAlloc, h.manSize)
	}
	return h
}

func (h *fheap) rowSize(r int) uint64 {
	if r == 0 {
		return h.startSize
	}
	return h.startSize << uint(r-1)
}

func (h *fheap) rowOff(r int) uint64 {
	if r == 0 {
		return 0
	}
	return uint64(h.width) * h.startSize << uint(r-1)
}

func (h *fheap) maxDirectRows() int {
	return int(log2floor(h.maxDirect)) - int(log2floor(h.startSize)) + 2
}

func (d *dec) fhDirect(h *fheap, addr, off, size uint64) {
	what := fmt.Sprintf("fractal heap direct block (heap 0x%x)", d.abs(h.addr))
	a := d.abs(addr)
	if len(h.blocks) > 1_000_000 {
		d.fail("%s at 0x%x: more than 1e6 blocks", what, a)
	}
	b := d.bytesAt(addr, size, what)
	c := d.cursor(b, a, what)
	c.sig("FHDB")
	if v := c.u8("version"); v != 0 {
		d.fail("%s at 0x%x: version %d, expected 0", what, a, v)
	}
	if ha := c.addr("heap header address"); ha != h.addr {
		d.fail("%s at 0x%x: heap header address 0x%x differs from the owning heap 0x%x", what, a, ha, h.addr)
	}
	if bo := c.uN(h.offBytes, "block offset"); bo != off {
		d.fail("%s at 0x%x: block offset %d, the block sits at offset %d of the heap address space", what, a, bo, off)
	}
	if h.flags&2 != 0 {
		stored := c.u32("checksum")
		tmp := make([]byte, len(b))
		copy(tmp, b)
		for i := c.pos - 4; i < c.pos; i++ {
			tmp[i] = 0
		}
		d.verifyChecksum(tmp, stored, "fheap-crc32", "%s at 0x%x", what, a)
	}
	d.addExtent(a, size, "fractal-heap-dblock")
	h.blocks = append(h.blocks, fhBlock{off: off, size: size, addr: addr, data: b})
}

func (d *dec) fhIndirect(h *fheap, addr, off uint64, nrows int, depth int) {
	what := fmt.Sprintf("fractal heap indirect block (heap 0x%x)", d.abs(h.addr))
	a := d.abs(addr)
	if depth > 64 {
		d.fail("%s at 0x%x: nesting deeper than 64", what, a)
	}
	mdr := h.maxDirectRows()
	if nrows <= 0 || nrows > 64+mdr {
		d.fail("%s at 0x%x: %d rows is implausible", what, a, nrows)
	}
	nd, ni := nrows, 0
	if nrows > mdr {
		nd, ni = mdr, nrows-mdr
	}
	size := uint64(5+d.O+h.offBytes) + uint64(nd*h.width*d.O) + uint64(ni*h.width*d.O) + 4
	b := d.bytesAt(addr, size, what)
	c := d.cursor(b, a, what)
	c.sig("FHIB")
	if v := c.u8("version"); v != 0 {
		d.fail("%s at 0x%x: version %d, expected 0", what, a, v)
	}
	if ha := c.addr("heap header address"); ha != h.addr {
		d.fail("%s at 0x%x: heap header address 0x%x differs from the owning heap 0x%x", what, a, ha, h.addr)
	}
	if bo := c.uN(h.offBytes, "block offset"); bo != off {
		d.fail("%s at 0x%x: block offset %d, the block sits at offset %d of the heap address space", what, a, bo, off)
	}
	stored := le32(b[size-4:])
	d.verifyChecksum(b[:size-4], stored, "fheap-crc32", "%s at 0x%x", what, a)
	d.addExtent(a, size, "fractal-heap-iblock")
	for r := 0; r < nrows; r++ {
		bs := h.rowSize(r)
		for col := 0; col < h.width; col++ {
			child := c.addr("child block address")
			if child == UndefAddr {
				continue
			}
			coff := off + h.rowOff(r) + uint64(col)*bs
			if r < mdr {
				d.fhDirect(h, child, coff, bs)
			} else {
				cr := int(log2floor(bs)) - int(log2floor(h.startSize*uint64(h.width))) + 1
				d.fhIndirect(h, child, coff, cr, depth+1)
			}
		}
	}
}

// object returns the bytes of the heap object named by id and the absolute file offset of its first byte (0 for tiny objects).
func (h *fheap) object(d *dec, id []byte, what string) ([]byte, uint64) {
	ha := d.abs(h.addr)
	if len(id) == 0 {
		d.fail("%s: empty heap ID (heap 0x%x)", what, ha)
	}
	if id[0]&0xC0 != 0 {
		d.fail("%s: heap ID version %d, expected 0 (heap 0x%x)", what, id[0]>>6, ha)
	}
	switch (id[0] >> 4) & 3 {
	case 0: // managed
		if id[0]&0x0f != 0 {
			d.fail("%s: managed heap ID has reserved bits set in byte 0 (0x%02x)", what, id[0])
		}
		if 1+h.offBytes+h.lenBytes > len(id) {
			d.fail("%s: heap ID of %d bytes cannot hold a %d-byte offset and %d-byte length (heap 0x%x)", what, len(id), h.offBytes, h.lenBytes, ha)
		}
		c := d.cursor(id, 0, what+" heap ID")
		c.skip(1, "flags")
		off := c.uN(h.offBytes, "offset")
		ln := c.uN(h.lenBytes, "length")
		if ln == 0 {
			d.fail("%s: managed heap object of length 0 (heap 0x%x)", what, ha)
		}
		for i := range h.blocks {
			bl := &h.blocks[i]
			if h.dataRelative {
				// deviation in force: offsets count payload bytes of the (single) root direct block
				p := off - bl.off + uint64(h.blockHdr)
				if off >= bl.off && p+ln <= bl.size {
					return bl.data[p : p+ln], d.abs(bl.addr) + p
				}
				continue
			}
			if off >= bl.off && off < bl.off+bl.size {
				p := off - bl.off
				if p < uint64(h.blockHdr) {
					d.fail("%s: managed object offset %d lies inside the %d-byte header of the direct block at 0x%x (heap 0x%x)", what, off, h.blockHdr, d.abs(bl.addr), ha)
				}
				if p+ln > bl.size {
					d.fail("%s: managed object [%d,+%d) runs past the end of the direct block at 0x%x (offset %d, size %d; heap 0x%x)", what, off, ln, d.abs(bl.addr), bl.off, bl.size, ha)
				}
				return bl.data[p : p+ln], d.abs(bl.addr) + p
			}
		}
		d.fail("%s: managed object offset %d (length %d) is not inside any allocated direct block of heap 0x%x", what, off, ln, ha)
	case 2: // tiny
		var ln, start int
		if h.idLen-1 <= 16 {
			ln = int(id[0]&0x0f) + 1
			start = 1
		} else {
			ln = (int(id[0]&0x0f)<<8 | int(id[1])) + 1
			start = 2
		}
		if start+ln > len(id) {
			d.fail("%s: tiny object of %d bytes does not fit the %d-byte heap ID", what, ln, len(id))
		}
		return id[start : start+ln], 0
	case 1: // huge
		if h.flags&1 == 0 && len(id) >= 1+d.O+d.L {
			// directly accessed: address + length
			c := d.cursor(id, 0, what+" heap ID")
			c.skip(1, "flags")
			addr := c.addr("huge object address")
			ln := c.length("huge object length")
			b := d.bytesAt(addr, ln, what+" huge object")
			d.addExtent(d.abs(addr), ln, "fractal-heap-huge")
			return b, d.abs(addr)
		}
		if h.hugeBT == UndefAddr {
			d.fail("%s: huge object ID but heap 0x%x has no huge-object B-tree", what, ha)
		}
		bt := d.btree2(h.hugeBT)
		if bt.typ != 1 {
			d.unsupported("fractal heap huge objects indexed by B-tree v2 type %d", bt.typ)
		}
		c := d.cursor(id, 0, what+" heap ID")
		c.skip(1, "flags")
		want := c.uN(min(d.L, len(id)-1), "huge object ID")
		for _, r := range bt.records {
			rc := d.cursor(r, 0, "huge object record")
			addr := rc.addr("address")
			ln := rc.length("length")
			oid := rc.length("ID")
			if oid == want {
				b := d.bytesAt(addr, ln, what+" huge object")
				d.addExtent(d.abs(addr), ln, "fractal-heap-huge")
				return b, d.abs(addr)
			}
		}
		d.fail("%s: huge object ID %d not found in B-tree 0x%x", what, want, d.abs(h.hugeBT))
	default:
		d.fail("%s: heap ID type 3 is reserved", what)
	}
	return nil, 0
}

// trySpec runs fn and returns the spec violation it aborted with, if any.
func (d *dec) trySpec(fn func()) (err *specError) {
	defer func() {
		if r := recover(); r != nil {
			if e, ok := r.(*specError); ok {
				err = e
				return
			}
			panic(r)
		}
	}()
	fn()
	return nil
}

// withHeapOffsetFallback runs fn, which resolves B-tree records through heap fh. When the strict
// reading fails and the heap consists of one root direct block, fn is repeated reading managed
// object offsets the way the pinned library writes them (counting from the first payload byte of the
// block instead of from the start of the block); if every record then decodes and checks out, the
// named deviation applies. reset must undo fn's partial results.
func (d *dec) withHeapOffsetFallback(fh *fheap, reset func(), fn func()) {
	if fh.dataRelative || fh.curRows != 0 || len(fh.blocks) != 1 {
		fn()
		return
	}
	saved := map[string]int{}
	for k, v := range d.f.Deviations {
		saved[k] = v
	}
	serr := d.trySpec(fn)
	if serr == nil {
		return
	}
	for k := range d.f.Deviations {
		delete(d.f.Deviations, k)
	}
	for k, v := range saved {
		d.f.Deviations[k] = v
	}
	reset()
	fh.dataRelative = true
	if lerr := d.trySpec(fn); lerr != nil {
		fh.dataRelative = false
		panic(serr)
	}
	d.deviate("fheap-offsets-exclude-block-header", "fractal heap at 0x%x: the records of its index only resolve when managed object offsets count from the first payload byte of the direct block, not from the start of the block (strict reading: %s)", d.abs(fh.addr), serr.msg)
}
