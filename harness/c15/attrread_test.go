package c15

// attrread: the same heap image read through the third reader of the library - the dense attribute reader of internal/core
// (ParseAttributesFromMessages -> heap header, id split, direct block) - for every starting block size the writer offers.
// The objects are encoded attribute messages; the name index is a B-tree v2 written next to the heap.

import (
	"bytes"
	"encoding/binary"
	"fmt"
	"sort"

	"github.com/scigolib/hdf5/internal/core"
	"github.com/scigolib/hdf5/internal/structures"
	"github.com/scigolib/hdf5/verif/memf"
	"github.com/scigolib/hdf5/verif/vt"
	"pgregory.net/rapid"
)

type AttrReadCase struct {
	BlockSize uint64 `json:"block_size"`
	Sizes     []int  `json:"sizes"` // data bytes of each attribute (one-dimensional uint8 arrays)
	Seed      int    `json:"seed"`
	Off       int    `json:"off,omitempty"` // 4: 4-byte file offsets and lengths
	// Max: the first attribute is sized so that its encoded message is exactly the largest managed object (65536 bytes);
	// blocks above 64 KiB only
	Max bool `json:"max,omitempty"`
}

func genAttrRead(t *rapid.T) AttrReadCase {
	c := AttrReadCase{BlockSize: rapid.SampledFrom([]uint64{4096, 65536, 65536, 131072, 262144, 524288}).Draw(t, "block"), Seed: rapid.IntRange(0, 1<<16).Draw(t, "seed")}
	if rapid.IntRange(0, 3).Draw(t, "narrow") == 0 {
		c.Off = 4
	}
	budget := int(c.BlockSize) - overheadOf(c.BlockSize)
	n := rapid.IntRange(1, 12).Draw(t, "n")
	for i := 0; i < n; i++ {
		sz := rapid.OneOf(rapid.IntRange(1, 64), rapid.IntRange(1, 3000), rapid.IntRange(30000, 60000)).Draw(t, "size")
		if need := sz + 64; need > budget {
			break
		}
		budget -= sz + 64
		c.Sizes = append(c.Sizes, sz)
	}
	if len(c.Sizes) == 0 {
		c.Sizes = []int{8}
	}
	if c.BlockSize > 65536 && rapid.IntRange(0, 3).Draw(t, "max") == 0 {
		c.Max = true
	}
	return c
}

func classifyAttrRead(c AttrReadCase) (bool, []string) {
	total := 0
	for _, s := range c.Sizes {
		total += s
	}
	labels := []string{fmt.Sprintf("block=%d", c.BlockSize)}
	if total > 65535 {
		labels = append(labels, "heap_offsets_beyond_16_bits")
	}
	if c.Max && c.BlockSize > 65536 {
		labels = append(labels, "object_of_the_largest_managed_size")
	}
	return len(c.Sizes) >= 2, labels
}

func runAttrRead(c AttrReadCase) vt.Verdict {
	offS := uint8(8)
	if c.Off == 4 {
		offS = 4
	}
	sb := &core.Superblock{Version: 2, OffsetSize: offS, LengthSize: offS, Endianness: binary.LittleEndian}
	file := memf.New(128)
	file.Data = make([]byte, 128)
	heap := structures.NewWritableFractalHeap(c.BlockSize)
	bt := structures.NewWritableBTreeV2(4096)
	dt, err := core.CreateBasicDatatypeMessage(core.DatatypeFixed, 1)
	if err != nil {
		return vt.Bad("CreateBasicDatatypeMessage: %v", err)
	}
	want := map[string][]byte{}
	used := 0
	for i, sz := range c.Sizes {
		if sz < 1 || sz > 60000 {
			return vt.Skipped("size outside the generated domain")
		}
		sz := sz
		name := fmt.Sprintf("attr_%03d_%d", i, c.Seed%97)
		if i == 0 && c.Max && c.BlockSize > 65536 {
			probe, err := core.EncodeAttributeFromStruct(&core.Attribute{Name: name, Datatype: dt, Dataspace: &core.DataspaceMessage{Dimensions: []uint64{8}}, Data: make([]byte, 8)}, sb)
			if err == nil && len(probe) > 8 && len(probe) < 200 {
				sz = maxManaged - (len(probe) - 8)
			}
		}
		data := payload(sz, c.Seed+i)
		msg, err := core.EncodeAttributeFromStruct(&core.Attribute{Name: name, Datatype: dt, Dataspace: &core.DataspaceMessage{Dimensions: []uint64{uint64(sz)}}, Data: data}, sb)
		if err != nil {
			return vt.Bad("EncodeAttributeFromStruct(%d bytes): %v", sz, err)
		}
		if used+len(msg) > int(c.BlockSize)-overheadOf(c.BlockSize) {
			break // stays inside the first block (growth is the open finding)
		}
		used += len(msg)
		id, err := heap.InsertObject(msg)
		if err != nil || len(id) != 8 {
			return vt.Bad("InsertObject(%d-byte attribute message) with %d bytes used of a %d block: id %x, %v", len(msg), used-len(msg), c.BlockSize, id, err)
		}
		if err := bt.InsertRecord(name, binary.LittleEndian.Uint64(id)); err != nil {
			return vt.Bad("InsertRecord: %v", err)
		}
		want[name] = data
	}
	heapAddr, err := heap.WriteToFile(file, file, sb)
	if err != nil {
		return vt.Bad("heap WriteToFile: %v", err)
	}
	btAddr, err := bt.WriteToFile(file, file, sb)
	if err != nil {
		return vt.Bad("index WriteToFile: %v", err)
	}
	info, err := core.EncodeAttributeInfoMessage(&core.AttributeInfoMessage{FractalHeapAddr: heapAddr, BTreeNameIndexAddr: btAddr}, sb)
	if err != nil {
		return vt.Bad("EncodeAttributeInfoMessage: %v", err)
	}
	attrs, err := core.ParseAttributesFromMessages(file, []*core.HeaderMessage{{Type: core.MsgAttributeInfo, Data: info}}, sb)
	if err != nil {
		return vt.Bad("dense attribute reader on a heap with a %d-byte starting block holding %d attributes (%d bytes): %v", c.BlockSize, len(want), used, err)
	}
	var got []string
	for _, a := range attrs {
		got = append(got, a.Name)
		w, ok := want[a.Name]
		if !ok {
			return vt.Bad("dense attribute reader returns attribute %q, stored were %d others", a.Name, len(want))
		}
		if !bytes.Equal(a.Data, w) {
			return vt.Bad("dense attribute reader: attribute %q holds %d bytes differing from the %d stored (first diff at %d; block %d)", a.Name, len(a.Data), len(w), firstDiff(a.Data, w), c.BlockSize)
		}
	}
	sort.Strings(got)
	if len(got) != len(want) {
		return vt.Bad("dense attribute reader returns %d attributes %v, stored %d", len(got), got, len(want))
	}
	for i := 1; i < len(got); i++ {
		if got[i] == got[i-1] {
			return vt.Bad("dense attribute reader returns %q twice", got[i])
		}
	}
	return vt.Pass()
}
