// Package c15 decides property C15: the fractal heap returns exactly the bytes stored under each
// live id, under any history, including write/load cycles. See DESIGN.md section 5, C15.
package c15

import (
	"bytes"
	"encoding/binary"
	"errors"
	"fmt"
	"math/bits"
	"os"
	"sort"
	"sync"
	"testing"

	"github.com/scigolib/hdf5/internal/core"
	"github.com/scigolib/hdf5/internal/structures"
	"github.com/scigolib/hdf5/verif/memf"
	"github.com/scigolib/hdf5/verif/vt"
	"pgregory.net/rapid"
)

const prop = "C15"
const kfIndirect = "KF-C15-01"

type Op struct {
	K     string `json:"k"`               // ins insfill get over overbad del writeload writeat empty toolarge
	Size  int    `json:"size,omitempty"`  // ins: object size
	Delta int    `json:"delta,omitempty"` // insfill: size = remaining usable - delta
	Obj   int    `json:"obj,omitempty"`   // index into the list of live ids (mod len)
	Seed  int    `json:"seed,omitempty"`  // payload pattern
}

type Case struct {
	// Off, Len: superblock size of offsets / size of lengths of the file the heap is written to and loaded from (0 = 8)
	Off       int    `json:"off,omitempty"`
	Len       int    `json:"len,omitempty"`
	BlockSize uint64 `json:"block_size"`
	Ops       []Op   `json:"ops"`
}

func payload(n, seed int) []byte {
	b := make([]byte, n)
	if seed%16 == 5 {
		return b // an object of zero bytes is an object like any other (deleted space is zeroed too: the id tells them apart)
	}
	x := uint32(seed)*2654435761 + 12345
	for i := range b {
		x = x*1664525 + 1013904223
		b[i] = byte(x >> 24)
		if b[i] == 0 {
			b[i] = 0xA5 // deleted space is zeroed by the library: keep live bytes non-zero so loss is visible
		}
	}
	return b
}

// offSize is the width of heap offsets for a heap whose first block has the given size: the heap address space is 16 bits, or as many
// bits as the block needs when it is larger than 64 KiB (format: offset size = ceil(max heap size bits / 8)).
func offSize(block uint64) int {
	if block <= 1<<16 {
		return 2
	}
	return (bits.Len64(block-1) + 7) / 8
}

// overheadOf: prefix (sig, version, 8-byte header addr, block offset) + checksum.
func overheadOf(block uint64) int { return 4 + 1 + 8 + offSize(block) + 4 }

const maxManaged = 65536

func genCase(t *rapid.T) Case {
	c := Case{BlockSize: rapid.SampledFrom([]uint64{512, 512, 512, 4096, 4096, 4096, 65536, 65536, 131072, 524288, 100000, 70000, 1000, 5000}).Draw(t, "block")}
	if sz := rapid.SampledFrom([][2]int{{8, 8}, {8, 8}, {8, 8}, {4, 4}, {8, 4}, {4, 8}}).Draw(t, "sizes"); sz != [2]int{8, 8} {
		c.Off, c.Len = sz[0], sz[1]
	}
	usable := int(c.BlockSize) - overheadOf(c.BlockSize)
	maxOps := vt.N(40, 100)
	if c.BlockSize > 65536 {
		maxOps = 24 // every step re-reads all live bytes
	}
	cross := rapid.IntRange(0, 9).Draw(t, "cross") == 0 // one case in ten is allowed to aim beyond the first block
	sizeGen := rapid.OneOf(
		rapid.IntRange(1, 24),
		rapid.IntRange(1, 64),
		rapid.IntRange(1, usable/8+1),
	)
	if cross {
		sizeGen = rapid.OneOf(rapid.IntRange(1, 64), rapid.IntRange(1, usable/4+1), rapid.IntRange(1, usable))
	}
	if c.BlockSize > 65536 {
		// objects up to and at the largest managed size; offsets beyond 65535 need a few of them
		big := rapid.OneOf(rapid.IntRange(maxManaged-3, maxManaged), rapid.Just(maxManaged), rapid.IntRange(20000, maxManaged))
		sizeGen = rapid.OneOf(rapid.IntRange(1, 64), big, big)
	}
	opGen := rapid.Custom(func(t *rapid.T) Op {
		k := rapid.SampledFrom([]string{"ins", "ins", "ins", "ins", "insfill", "get", "over", "over", "overbad", "del", "del", "writeload", "writeat", "snapcopy", "failload", "empty", "toolarge"}).Draw(t, "k")
		op := Op{K: k, Seed: rapid.IntRange(0, 1<<20).Draw(t, "seed")}
		switch k {
		case "ins":
			op.Size = sizeGen.Draw(t, "size")
		case "insfill":
			// aim at the fill level: delta<0 does not fit any more (crosses into the second block), delta>=0 fits with delta bytes to spare
			if cross {
				op.Delta = rapid.OneOf(rapid.IntRange(0, 40), rapid.IntRange(0, 3), rapid.IntRange(-40, -1)).Draw(t, "delta")
			} else {
				op.Delta = rapid.OneOf(rapid.IntRange(0, 40), rapid.IntRange(0, 3), rapid.IntRange(0, usable/2)).Draw(t, "delta")
			}
		case "get", "over", "overbad", "del":
			op.Obj = rapid.IntRange(0, 1000).Draw(t, "obj")
		}
		return op
	})
	c.Ops = rapid.SliceOfN(opGen, 1, maxOps).Draw(t, "ops")
	return c
}

type obj struct {
	id   []byte
	data []byte
}

// simulate computes labels without touching the library.
func classify(c Case) (bool, []string) {
	usable := int(c.BlockSize) - overheadOf(c.BlockSize)
	used, live := 0, 0
	crossed, near, mid, maxObj, far := false, false, false, false, false
	for i, op := range c.Ops {
		switch op.K {
		case "ins", "insfill":
			sz := op.Size
			if op.K == "insfill" {
				sz = usable - used - op.Delta
				if sz < 1 {
					sz = 1
				}
				if sz > maxManaged {
					sz = maxManaged
				}
			}
			if used+sz > usable {
				crossed = true
			} else {
				if sz == maxManaged {
					maxObj = true
				}
				if used > 65535 {
					far = true
				}
				used += sz
				live++
			}
		case "writeload", "writeat":
			if live > 0 && i < len(c.Ops)-1 {
				mid = true
			}
		}
		if !crossed && used*10 >= usable*9 {
			near = true
		}
	}
	labels := []string{fmt.Sprintf("block=%d", c.BlockSize)}
	if crossed {
		labels = append(labels, "volume_beyond_one_block")
	}
	if near {
		labels = append(labels, "fill>=90%")
	}
	if mid {
		labels = append(labels, "mid_write_load")
	}
	if maxObj {
		labels = append(labels, "object_of_max_managed_size")
	}
	if far {
		labels = append(labels, "object_at_offset>65535")
	}
	return near || mid || crossed || maxObj || far, labels
}

func run(c Case) vt.Verdict {
	offS, lenS := 8, 8
	if c.Off != 0 {
		offS, lenS = c.Off, c.Len
	}
	if (offS != 4 && offS != 8) || (lenS != 4 && lenS != 8) {
		return vt.Skipped("sizes outside the generated domain")
	}
	sb := &core.Superblock{Version: 2, OffsetSize: uint8(offS), LengthSize: uint8(lenS), Endianness: binary.LittleEndian}
	fh := structures.NewWritableFractalHeap(c.BlockSize)
	file := memf.New(128)
	file.Data = make([]byte, 128)
	var live []obj
	usable := int(c.BlockSize) - overheadOf(c.BlockSize)
	osz := offSize(c.BlockSize)
	used := 0            // model: bytes consumed in the direct block (space is never reused)
	var liveBytes uint64 // model: sum of live sizes
	indirect := false    // model: the heap was asked to grow beyond its first direct block
	var hdrAddr uint64
	loaded := false

	fail := func(step int, op Op, format string, a ...any) vt.Verdict {
		d := fmt.Sprintf("step %d (%s): ", step, op.K) + fmt.Sprintf(format, a...)
		if indirect && os.Getenv("VERIF_C15_CLASSES") != "" {
			classMu.Lock()
			classes[format]++
			classMu.Unlock()
		}
		if indirect && indirectClasses[format] {
			return vt.KnownOr(kfIndirect, "%s", d)
		}
		return vt.Bad("%s", d)
	}

	// inFirst: the object's bytes are held, at the offset its id names, by the first direct block of the grown heap (the
	// open finding concerns the blocks added later, whose ids do not address them)
	inFirst := func(o obj) bool {
		if len(o.id) != 8 || fh.RootIndirectBlock == nil || len(fh.DirectBlocks) == 0 {
			return false
		}
		var first *structures.WritableDirectBlock
		var key uint64
		for k, b := range fh.DirectBlocks {
			if first == nil || k < key {
				first, key = b, k
			}
		}
		off := leUint(o.id[1 : 1+osz])
		if first == nil || key != 0 || off+uint64(len(o.data)) > uint64(len(first.Objects)) {
			return false
		}
		return bytes.Equal(first.Objects[off:off+uint64(len(o.data))], o.data)
	}

	checkAll := func(step int, op Op) *vt.Verdict {
		// every live id returns its bytes; ids distinct; ranges disjoint; header counters match the model
		type rng struct{ off, end uint64 }
		var rs []rng
		seen := map[string]bool{}
		for i, o := range live {
			got, err := fh.GetObject(o.id)
			if err != nil {
				if inFirst(o) {
					v := vt.Bad("step %d (%s): GetObject(live id %x, object #%d of the first direct block, %d bytes): %v", step, op.K, o.id, i, len(o.data), err)
					return &v
				}
				v := fail(step, op, "GetObject(live id %x, object #%d, %d bytes): %v", o.id, i, len(o.data), err)
				return &v
			}
			if !bytes.Equal(got, o.data) {
				v := fail(step, op, "GetObject(id %x) returned %d bytes differing from the %d stored (first diff at %d)", o.id, len(got), len(o.data), firstDiff(got, o.data))
				return &v
			}
			// what the caller does with the returned bytes is the caller's business: the heap keeps returning what was stored
			for k := range got {
				got[k] ^= 0xFF
			}
			if seen[string(o.id)] {
				v := fail(step, op, "two live objects share id %x", o.id)
				return &v
			}
			seen[string(o.id)] = true
			if len(o.id) != 8 || o.id[0]&0xF0 != 0 {
				v := fail(step, op, "heap id %x is not an 8-byte managed id", o.id)
				return &v
			}
			off := leUint(o.id[1 : 1+osz])
			ln := leUint(o.id[1+osz : 1+osz+3])
			if ln != uint64(len(o.data)) {
				v := fail(step, op, "heap id %x encodes length %d, stored %d", o.id, ln, len(o.data))
				return &v
			}
			rs = append(rs, rng{off, off + ln})
		}
		sort.Slice(rs, func(i, j int) bool { return rs[i].off < rs[j].off })
		for i := 1; i < len(rs); i++ {
			if rs[i].off < rs[i-1].end {
				v := fail(step, op, "live byte ranges overlap: [%d,%d) and [%d,%d)", rs[i-1].off, rs[i-1].end, rs[i].off, rs[i].end)
				return &v
			}
		}
		if fh.Header.NumManagedObjects != uint64(len(live)) {
			v := fail(step, op, "header object count %d, model %d", fh.Header.NumManagedObjects, len(live))
			return &v
		}
		// in-memory accounting holds in every mode: free space is what the managed blocks hold beyond the live bytes
		if want := fh.Header.ManagedSpaceSize - liveBytes; fh.Header.FreeSpace != want {
			v := vt.Bad("step %d (%s): header free space %d, model %d (managed %d - live %d)", step, op.K, fh.Header.FreeSpace, want, fh.Header.ManagedSpaceSize, liveBytes)
			return &v
		}
		if !indirect {
			if fh.Header.ManagedSpaceSize != c.BlockSize {
				v := fail(step, op, "managed space %d, want one block of %d", fh.Header.ManagedSpaceSize, c.BlockSize)
				return &v
			}
		}
		return nil
	}

	writeLoad := func(step int, op Op, inPlace bool) *vt.Verdict {
		if inPlace {
			if !loaded {
				if err := fh.WriteAt(file, sb); err == nil {
					v := fail(step, op, "WriteAt on a never-loaded heap returned nil")
					return &v
				}
				return nil
			}
			if err := fh.WriteAt(file, sb); err != nil {
				v := fail(step, op, "WriteAt: %v", err)
				return &v
			}
		} else {
			var decoy *structures.WritableFractalHeap
			var decoyAddr uint64
			decoyData := payload(40, op.Seed+3)
			var decoyID []byte
			if op.Seed%5 == 4 {
				// another file, which already holds another heap where this file's first allocations went
				file = memf.New(128)
				file.Data = make([]byte, 128)
				decoy = structures.NewWritableFractalHeap(c.BlockSize)
				if id, err := decoy.InsertObject(decoyData); err == nil {
					decoyID = id
					if a, err := decoy.WriteToFile(file, file, sb); err == nil {
						decoyAddr = a
					} else {
						decoy = nil
					}
				} else {
					decoy = nil
				}
			}
			a, err := fh.WriteToFile(file, file, sb)
			if err != nil {
				v := fail(step, op, "WriteToFile: %v", err)
				return &v
			}
			hdrAddr = a
			if decoy != nil {
				chk := structures.NewWritableFractalHeap(c.BlockSize)
				if err := chk.LoadFromFile(file, decoyAddr, sb); err != nil {
					v := vt.Bad("step %d (%s): after the heap was written into a file that already held another heap at %d, that other heap no longer loads: %v", step, op.K, decoyAddr, err)
					return &v
				}
				if got, err := chk.GetObject(decoyID); err != nil || !bytes.Equal(got, decoyData) || chk.Header.NumManagedObjects != 1 {
					v := vt.Bad("step %d (%s): after the heap was written into a file that already held another heap at %d, that other heap holds %d objects and returns %d bytes (%v) for its one object of 40 bytes", step, op.K, decoyAddr, chk.Header.NumManagedObjects, len(got), err)
					return &v
				}
			}
		}
		// (1) the library's read-side heap returns the same bytes from the image
		rh, err := structures.OpenFractalHeap(file, hdrAddr, uint8(lenS), uint8(offS), binary.LittleEndian)
		if err != nil {
			v := fail(step, op, "OpenFractalHeap on the written image: %v", err)
			return &v
		}
		for i, o := range live {
			got, err := rh.ReadObject(o.id)
			if err != nil {
				v := fail(step, op, "reader ReadObject(id %x, object #%d): %v", o.id, i, err)
				return &v
			}
			if !bytes.Equal(got, o.data) {
				v := fail(step, op, "reader ReadObject(id %x) differs from stored bytes at %d (len %d vs %d): bytes lost in the written block", o.id, firstDiff(got, o.data), len(got), len(o.data))
				return &v
			}
		}
		// (2) independent look at the image: block prefix, objects at prefix+offset, nothing beyond block end
		rootAddr := rh.Header.RootBlockAddr
		if rootAddr+c.BlockSize > uint64(len(file.Data)) {
			v := fail(step, op, "direct block [%d,+%d) extends beyond the image (%d bytes)", rootAddr, c.BlockSize, len(file.Data))
			return &v
		}
		blk := file.Data[rootAddr : rootAddr+c.BlockSize]
		if string(blk[:4]) != "FHDB" || leUint(blk[5:5+offS]) != hdrAddr {
			v := fail(step, op, "direct block prefix wrong: sig %q header addr %d (want %d)", blk[:4], leUint(blk[5:5+offS]), hdrAddr)
			return &v
		}
		if !indirect {
			for _, o := range live {
				off := int(leUint(o.id[1 : 1+osz]))
				s := 5 + offS + osz + off
				if s+len(o.data) > len(blk)-4 || !bytes.Equal(blk[s:s+len(o.data)], o.data) {
					v := fail(step, op, "image bytes of object id %x (offset %d, %d bytes) differ from the stored bytes or run into the checksum", o.id, off, len(o.data))
					return &v
				}
			}
		}
		// (3) load into a fresh heap and continue the history with it - or, after an in-place write, keep working with the same
		// in-memory heap half of the time (what is written next must again be the whole current state)
		if inPlace && op.Seed%2 == 1 {
			return nil
		}
		// the object the image is loaded into may have been constructed for another block size: what the file holds decides
		ctor := []uint64{c.BlockSize, c.BlockSize, 512, 4096, 65536, 131072}[((op.Seed/2)%6+6)%6]
		nh := structures.NewWritableFractalHeap(ctor)
		if err := nh.LoadFromFile(file, hdrAddr, sb); err != nil {
			v := fail(step, op, "LoadFromFile of a freshly written heap: %v", err)
			return &v
		}
		fh = nh
		loaded = true
		return nil
	}

	for step, op := range c.Ops {
		switch op.K {
		case "ins", "insfill":
			sz := op.Size
			if op.K == "insfill" {
				sz = usable - used - op.Delta
			}
			if sz < 1 {
				sz = 1
			}
			if sz > maxManaged {
				sz = maxManaged // larger objects are "huge" objects, which the writer refuses (op toolarge)
			}
			data := payload(sz, op.Seed+step)
			fits := used+sz <= usable
			before := snapshot(fh)
			id, err := fh.InsertObject(data)
			if !fits {
				// The heap has to grow beyond its first block (indirect root). From here on the open finding applies.
				indirect = true
				if err == nil && fh.RootIndirectBlock == nil {
					return vt.Bad("step %d (%s): insert of %d bytes accepted into the first direct block although only %d of its %d usable bytes were left (bytes beyond the usable area are lost to the checksum on write)", step, op.K, sz, usable-used, usable)
				}
				if err != nil {
					// refused: must have changed nothing
					if d := diffSnap(before, snapshot(fh)); d != "" {
						return fail(step, op, "insert of %d bytes failed (%v) but changed the heap: %s", sz, err, d)
					}
					continue
				}
				live = append(live, obj{id, data})
				liveBytes += uint64(sz)
				continue
			}
			if err != nil {
				return fail(step, op, "insert of %d bytes with %d/%d usable bytes consumed failed: %v", sz, used, usable, err)
			}
			used += sz
			liveBytes += uint64(sz)
			live = append(live, obj{id, data})
		case "empty":
			before := snapshot(fh)
			if _, err := fh.InsertObject(nil); !errors.Is(err, structures.ErrEmptyObject) {
				return fail(step, op, "insert of an empty object returned %v, want ErrEmptyObject", err)
			}
			if d := diffSnap(before, snapshot(fh)); d != "" {
				return fail(step, op, "rejected empty insert changed the heap: %s", d)
			}
		case "toolarge":
			before := snapshot(fh)
			if _, err := fh.InsertObject(make([]byte, 65537)); !errors.Is(err, structures.ErrObjectTooLarge) {
				return fail(step, op, "insert of 65537 bytes returned %v, want ErrObjectTooLarge", err)
			}
			if d := diffSnap(before, snapshot(fh)); d != "" {
				return fail(step, op, "rejected oversized insert changed the heap: %s", d)
			}
		case "get":
			// covered by checkAll
		case "over":
			if len(live) == 0 {
				continue
			}
			o := &live[op.Obj%len(live)]
			nd := payload(len(o.data), op.Seed+step+7)
			if err := fh.OverwriteObject(o.id, nd); err != nil {
				if inFirst(*o) {
					return vt.Bad("step %d (%s): same-size overwrite of live id %x, an object of the first direct block: %v", step, op.K, o.id, err)
				}
				return fail(step, op, "same-size overwrite of live id %x: %v", o.id, err)
			}
			o.data = nd
		case "overbad":
			if len(live) == 0 {
				continue
			}
			o := live[op.Obj%len(live)]
			before := snapshot(fh)
			if err := fh.OverwriteObject(o.id, payload(len(o.data)+1, op.Seed)); err == nil {
				return fail(step, op, "overwrite with a different size returned nil")
			}
			if d := diffSnap(before, snapshot(fh)); d != "" {
				return fail(step, op, "rejected overwrite changed the heap: %s", d)
			}
		case "del":
			if len(live) == 0 {
				continue
			}
			i := op.Obj % len(live)
			o := live[i]
			if err := fh.DeleteObject(o.id); err != nil {
				if inFirst(o) {
					return vt.Bad("step %d (%s): delete of live id %x, an object of the first direct block: %v", step, op.K, o.id, err)
				}
				return fail(step, op, "delete of live id %x: %v", o.id, err)
			}
			liveBytes -= uint64(len(o.data))
			live = append(live[:i:i], live[i+1:]...)
		case "writeload":
			if v := writeLoad(step, op, false); v != nil {
				return *v
			}
		case "writeat":
			if v := writeLoad(step, op, true); v != nil {
				return *v
			}
		case "failload":
			// the handle is asked to load another heap whose header reads fine but whose direct block does not belong to it
			// (a copy of the current header at another address: the block it names still names the original header); the load
			// is refused and the handle goes on as the heap it was
			if !loaded {
				continue
			}
			hs := 4 + 1 + 2 + 2 + 1 + 4 + 10*lenS + 2*offS + 2 + 2*lenS + 2 + 2 + offS + 2 + 4
			if hdrAddr+uint64(hs) > uint64(len(file.Data)) {
				continue
			}
			b, err := file.Allocate(uint64(hs))
			if err != nil {
				continue
			}
			if err := file.WriteAtAddress(append([]byte{}, file.Data[hdrAddr:hdrAddr+uint64(hs)]...), b); err != nil {
				continue
			}
			before := snapshot(fh)
			if err := fh.LoadFromFile(file, b, sb); err == nil {
				return vt.Bad("step %d (%s): LoadFromFile accepted a header copy at %d whose direct block names the header at %d", step, op.K, b, hdrAddr)
			}
			if d := diffSnap(before, snapshot(fh)); d != "" {
				return fail(step, op, "refused LoadFromFile changed the heap: %s", d)
			}
		case "snapcopy":
			// a copy of the current state is saved somewhere else; the heap object goes on working on its own location
			if _, err := fh.WriteToFile(file, file, sb); err != nil {
				return fail(step, op, "WriteToFile (copy): %v", err)
			}
		default:
			return vt.Skipped("unknown op")
		}
		if v := checkAll(step, op); v != nil {
			return *v
		}
	}
	end := Op{K: "final"}
	if v := writeLoad(len(c.Ops), end, false); v != nil {
		return *v
	}
	if v := checkAll(len(c.Ops), end); v != nil {
		return *v
	}
	return vt.Pass()
}

type snap struct {
	hdr     structures.WritableHeapHeader
	objects []byte
	free    uint64
	nblocks int
	ind     bool
}

func snapshot(fh *structures.WritableFractalHeap) snap {
	return snap{hdr: *fh.Header, objects: append([]byte{}, fh.DirectBlock.Objects...), free: fh.DirectBlock.FreeOffset,
		nblocks: len(fh.DirectBlocks), ind: fh.RootIndirectBlock != nil}
}

func diffSnap(a, b snap) string {
	switch {
	case a.hdr != b.hdr:
		return fmt.Sprintf("header %+v -> %+v", a.hdr, b.hdr)
	case !bytes.Equal(a.objects, b.objects):
		return "direct block bytes changed"
	case a.free != b.free:
		return fmt.Sprintf("free offset %d -> %d", a.free, b.free)
	case a.nblocks != b.nblocks || a.ind != b.ind:
		return "block structure changed"
	}
	return ""
}

func leUint(b []byte) uint64 {
	var v uint64
	for i := len(b) - 1; i >= 0; i-- {
		v = v<<8 | uint64(b[i])
	}
	return v
}

func firstDiff(a, b []byte) int {
	n := len(a)
	if len(b) < n {
		n = len(b)
	}
	for i := 0; i < n; i++ {
		if a[i] != b[i] {
			return i
		}
	}
	return n
}

// indirectClasses: the ways the open finding (heap grown beyond its first block: the indirect root exists only in memory,
// ids of the later blocks are mis-addressed) shows itself on the unchanged tree, measured over 2.1 M histories. Any other
// failure is a violation also after the heap has grown.
var indirectClasses = map[string]bool{
	"reader ReadObject(id %x, object #%d): %v":                                           true,
	"same-size overwrite of live id %x: %v":                                              true,
	"GetObject(id %x) returned %d bytes differing from the %d stored (first diff at %d)": true,
	"delete of live id %x: %v":                                                           true,
	"insert of %d bytes failed (%v) but changed the heap: %s":                            true,
	"GetObject(live id %x, object #%d, %d bytes): %v":                                    true,
	"live byte ranges overlap: [%d,%d) and [%d,%d)":                                      true,
	"LoadFromFile of a freshly written heap: %v":                                         true,
	"insert of %d bytes with %d/%d usable bytes consumed failed: %v":                     true,
	"two live objects share id %x":                                                       true,
	"OpenFractalHeap on the written image: %v":                                           true,
}

var (
	classMu sync.Mutex
	classes = map[string]int{}
)

func TestProp(t *testing.T) {
	defer func() {
		if p := os.Getenv("VERIF_C15_CLASSES"); p != "" {
			f, _ := os.OpenFile(p, os.O_APPEND|os.O_CREATE|os.O_WRONLY, 0o644)
			for k, v := range classes {
				fmt.Fprintf(f, "%d\t%s\n", v, k)
			}
			f.Close()
		}
	}()
	vt.Run(t, prop,
		vt.Sub[Case]{Prop: prop, Name: "history", Gen: genCase, Run: run, Classify: classify}.WithBudget(15000, 120000),
		vt.Sub[AttrReadCase]{Prop: prop, Name: "attrread", Gen: genAttrRead, Run: runAttrRead, Classify: classifyAttrRead}.WithBudget(1500, 15000))
}
