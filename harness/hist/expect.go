package hist

import (
	"encoding/binary"
	"encoding/hex"
	"fmt"
	"math"
	"sort"
	"strings"

	"github.com/scigolib/hdf5/verif/obs"
)

// Problem is one disagreement between the observation and the model.
type Problem struct {
	Kind   string // stable class used by known-finding matchers, e.g. "dataset-missing", "read-values", "attr-set"
	Path   string
	Detail string
}

func (p Problem) String() string { return fmt.Sprintf("[%s] %s: %s", p.Kind, p.Path, p.Detail) }

// Opts select what Compare checks.
type Opts struct {
	SkipData  bool // do not compare dataset values
	SkipLinks bool // do not require soft/external links to be visible (the public read API has no accessor)
	RefCount  bool // require each dataset's stored reference count to equal the number of hard links in the model
}

func u64s(a []uint64) string { return fmt.Sprint(a) }

func eqU64(a, b []uint64) bool {
	if len(a) != len(b) {
		return false
	}
	for i := range a {
		if a[i] != b[i] {
			return false
		}
	}
	return true
}

// expectedAttrValue renders what ReadValue must return when it returns without error ("" = any error/no support is fine).
func expectedAttrValue(a *MAttr) (string, bool) {
	n := 1
	for _, d := range a.Dims {
		n *= int(d)
	}
	scalar := len(a.Dims) == 1 && a.Dims[0] == 1
	switch {
	case a.Class == 0 && (a.Size == 4 || a.Size == 8):
		// numeric equality is what matters (the reader widens to int32/int64)
		var sb strings.Builder
		for i := 0; i < n; i++ {
			if a.Size == 4 {
				v := binary.LittleEndian.Uint32(a.Data[i*4:])
				if a.Signed {
					fmt.Fprintf(&sb, "%d,", int32(v))
				} else {
					fmt.Fprintf(&sb, "%d,", v)
				}
			} else {
				v := binary.LittleEndian.Uint64(a.Data[i*8:])
				if a.Signed {
					fmt.Fprintf(&sb, "%d,", int64(v))
				} else {
					fmt.Fprintf(&sb, "%d,", v)
				}
			}
		}
		return "int:" + sb.String(), true
	case a.Class == 1 && a.Size == 4:
		if scalar {
			return fmt.Sprintf("f32:%08x", binary.LittleEndian.Uint32(a.Data)), true
		}
		var sb strings.Builder
		sb.WriteString("[]f32:")
		for i := 0; i < n; i++ {
			fmt.Fprintf(&sb, "%08x,", binary.LittleEndian.Uint32(a.Data[i*4:]))
		}
		return sb.String(), true
	case a.Class == 1 && a.Size == 8:
		if scalar {
			return fmt.Sprintf("f64:%016x", binary.LittleEndian.Uint64(a.Data)), true
		}
		var sb strings.Builder
		sb.WriteString("[]f64:")
		for i := 0; i < n; i++ {
			fmt.Fprintf(&sb, "%016x,", binary.LittleEndian.Uint64(a.Data[i*8:]))
		}
		return sb.String(), true
	case a.Class == 3:
		s := a.Data
		if i := indexByte(s, 0); i >= 0 {
			s = s[:i]
		}
		return fmt.Sprintf("str:%q", string(s)), true
	}
	return "", false
}

// signedView renders an unsigned 4/8-byte integer attribute the way expectedAttrValue would if the type were signed.
func signedView(a *MAttr) string {
	c := *a
	c.Signed = true
	v, _ := expectedAttrValue(&c)
	return v
}

func indexByte(b []byte, c byte) int {
	for i, x := range b {
		if x == c {
			return i
		}
	}
	return -1
}

// normalizeIntValue turns the rendering of an int32/int64 (scalar or slice) ReadValue result into "int:v,v,".
func normalizeIntValue(v string) (string, bool) {
	switch {
	case strings.HasPrefix(v, "int32:") || strings.HasPrefix(v, "int64:") || strings.HasPrefix(v, "uint32:") || strings.HasPrefix(v, "uint64:"):
		return "int:" + v[strings.Index(v, ":")+1:] + ",", true
	case strings.HasPrefix(v, "[]int32:[") || strings.HasPrefix(v, "[]int64:[") || strings.HasPrefix(v, "[]uint32:[") || strings.HasPrefix(v, "[]uint64:["):
		body := v[strings.Index(v, "[")+2:] // skip "[]" then find inner "["
		body = v[strings.Index(v, ":[")+2 : len(v)-1]
		var sb strings.Builder
		sb.WriteString("int:")
		for _, e := range strings.Split(strings.TrimSuffix(body, ","), ",") {
			if i := strings.Index(e, ":"); i >= 0 {
				e = e[i+1:]
			}
			sb.WriteString(e + ",")
		}
		return sb.String(), true
	}
	return v, false
}

func compareAttrs(path string, want map[string]*MAttr, got []obs.Attr, gotErr string) []Problem {
	var ps []Problem
	if gotErr != "" {
		return []Problem{{"attrs-error", path, "Attributes() failed: " + gotErr}}
	}
	seen := map[string]bool{}
	for _, g := range got {
		if seen[g.Name] {
			ps = append(ps, Problem{"attr-duplicate", path, fmt.Sprintf("attribute %q listed twice", g.Name)})
			continue
		}
		seen[g.Name] = true
		w := want[g.Name]
		if w == nil {
			ps = append(ps, Problem{"attr-extra", path, fmt.Sprintf("attribute %q present but not in the model (deleted or never written)", g.Name)})
			continue
		}
		sign := g.BitField&0x08 != 0
		if g.Class != w.Class || g.Size != w.Size || (w.Class == 0 && sign != w.Signed) {
			ps = append(ps, Problem{"attr-type", path, fmt.Sprintf("attribute %q has class %d size %d signed %v, written class %d size %d signed %v", g.Name, g.Class, g.Size, sign, w.Class, w.Size, w.Signed)})
		}
		if !eqU64(g.Dims, w.Dims) {
			ps = append(ps, Problem{"attr-shape", path, fmt.Sprintf("attribute %q has dims %v, written %v", g.Name, g.Dims, w.Dims)})
		}
		if g.Data != hex.EncodeToString(w.Data) {
			ps = append(ps, Problem{"attr-bytes", path, fmt.Sprintf("attribute %q bytes %s, written %s", g.Name, clip(g.Data), clip(hex.EncodeToString(w.Data)))})
		}
		if exp, ok := expectedAttrValue(w); ok && g.ValueErr == "" {
			gv := g.Value
			if w.Class == 0 {
				gv, _ = normalizeIntValue(gv)
			}
			if gv != exp {
				k := "attr-value"
				if w.Class == 0 && !w.Signed && gv == signedView(w) {
					// exactly the open finding: the unsigned value read back as the signed integer with the same bits
					k = "attr-value-unsigned"
				}
				ps = append(ps, Problem{k, path, fmt.Sprintf("attribute %q ReadValue = %s, written %s", g.Name, clip(gv), clip(exp))})
			}
		}
	}
	names := make([]string, 0, len(want))
	for n := range want {
		names = append(names, n)
	}
	sort.Strings(names)
	for _, n := range names {
		if !seen[n] {
			ps = append(ps, Problem{"attr-missing", path, fmt.Sprintf("attribute %q written but not returned", n)})
		}
	}
	return ps
}

func clip(s string) string {
	if len(s) > 120 {
		return s[:120] + "…"
	}
	return s
}

// CompareDataset checks one dataset observation against the model object.
func CompareDataset(path string, o *Obj, d *obs.Dataset, opt Opts) []Problem {
	var ps []Problem
	s := o.Spec
	if d.InfoErr != "" {
		return []Problem{{"dataset-info-error", path, "metadata unreadable: " + d.InfoErr}}
	}
	if d.Class != s.Class() || int(d.Size) != s.ElemSize() {
		ps = append(ps, Problem{"dataset-type", path, fmt.Sprintf("class %d size %d, created as class %d size %d (%s)", d.Class, d.Size, s.Class(), s.ElemSize(), s.Type)})
	}
	if kind, base := s.Base(); kind == "num" && s.Class() == 0 {
		if sign := d.BitField&0x08 != 0; sign != baseTypes[base].signed {
			ps = append(ps, Problem{"dataset-sign", path, fmt.Sprintf("signed bit %v, created as %s", sign, s.Type)})
		}
	}
	if opt.RefCount && d.RefCount != uint32(o.NLinks) {
		ps = append(ps, Problem{"dataset-refcount", path, fmt.Sprintf("reference count %d, but %d hard link(s) point to the object", d.RefCount, o.NLinks)})
	}
	if !eqU64(d.Dims, o.Dims) {
		ps = append(ps, Problem{"dataset-shape", path, fmt.Sprintf("dims %v, model %v", d.Dims, o.Dims)})
	}
	if s.MaxDims != nil && !eqU64(d.MaxDims, s.MaxDims) {
		ps = append(ps, Problem{"dataset-maxdims", path, fmt.Sprintf("max dims %v, created with %v", d.MaxDims, s.MaxDims)})
	}
	wantLayout := 1
	if s.Chunk != nil {
		wantLayout = 2
	}
	if d.Layout != wantLayout {
		ps = append(ps, Problem{"dataset-layout", path, fmt.Sprintf("layout class %d, created as %d", d.Layout, wantLayout)})
	}
	if s.Chunk != nil && (len(d.ChunkDims) < len(s.Chunk) || !eqU64(d.ChunkDims[:len(s.Chunk)], s.Chunk)) {
		ps = append(ps, Problem{"dataset-chunk", path, fmt.Sprintf("chunk shape %v, created with %v", d.ChunkDims, s.Chunk)})
	}
	if k, _ := s.Base(); k == "vl" {
		if !opt.SkipData && o.Written {
			if d.ReadErr == "" {
				ps = append(ps, Problem{"read-unsupported-returned-values", path, fmt.Sprintf("Read() returned %d values for variable-length data", len(d.Read))})
			}
			if d.StringsErr == "" {
				ok := s.Type == "vl:str" && len(d.Strings) == len(o.VL)
				for i := 0; ok && i < len(o.VL); i++ {
					ok = d.Strings[i] == string(o.VL[i])
				}
				if !ok {
					ps = append(ps, Problem{"strings-values", path, "ReadStrings() returned values that are not the written variable-length strings"})
				}
			}
		}
		ps = append(ps, compareAttrs(path, o.Attrs, d.Attrs, d.AttrsErr)...)
		return ps
	}
	// filtered chunks cannot be read back by the library's own reader (C08's open finding): their stored bytes are judged by
	// the independent decoder (CompareIndep), not here
	if !opt.SkipData && o.Written && eqU64(d.Dims, o.Dims) && len(s.Filters) == 0 {
		// Read
		if want, ok := s.ExpectedRead(o.Raw); ok {
			if d.ReadErr != "" {
				ps = append(ps, Problem{"read-error", path, "Read() failed on a fully written " + s.Type + " dataset: " + d.ReadErr})
			} else if len(d.Read) != len(want) {
				ps = append(ps, Problem{"read-values", path, fmt.Sprintf("Read() returned %d values, written %d", len(d.Read), len(want))})
			} else {
				for i := range want {
					if d.Read[i] != want[i] {
						ps = append(ps, Problem{"read-values", path, fmt.Sprintf("Read()[%d] = %v (bits %016x), written %v (bits %016x); %d elements, dims %v chunk %v",
							i, math.Float64frombits(d.Read[i]), d.Read[i], math.Float64frombits(want[i]), want[i], len(want), o.Dims, s.Chunk)})
						break
					}
				}
			}
			// generated partial reads: the values at the selected coordinates, in selection order
			for _, so := range d.Sels {
				if strings.HasPrefix(so.Err, "MISMATCH") {
					ps = append(ps, Problem{"partial-read-values", path, fmt.Sprintf("%s (selection %+v, dims %v chunk %v)", so.Err, so.Sel, o.Dims, s.Chunk)})
					continue
				}
				if so.Err != "" {
					continue // C09 decides which in-bounds selections may be refused
				}
				idx := so.Sel.Indices(o.Dims)
				if len(idx) != len(so.Bits) {
					ps = append(ps, Problem{"partial-read-values", path, fmt.Sprintf("selection %+v on dims %v returned %d elements, selects %d", so.Sel, o.Dims, len(so.Bits), len(idx))})
					continue
				}
				for i, ix := range idx {
					if ix >= len(want) || so.Bits[i] != want[ix] {
						ps = append(ps, Problem{"partial-read-values", path, fmt.Sprintf("selection %+v on dims %v chunk %v: element %d = %v, written %v", so.Sel, o.Dims, s.Chunk, i, math.Float64frombits(so.Bits[i]), math.Float64frombits(want[ix]))})
						break
					}
				}
			}
			// the chunk iterator: every chunk of the extent exactly once, each with the values written there
			if ci := d.ChunkIter; ci != nil {
				if ci.Err != "" {
					ps = append(ps, Problem{"chunk-iterator", path, "ChunkIterator failed on a fully written chunked dataset: " + ci.Err})
				} else {
					seen := map[string]bool{}
					for k, cc := range ci.Coords {
						key := fmt.Sprint(cc)
						if seen[key] {
							ps = append(ps, Problem{"chunk-iterator", path, fmt.Sprintf("chunk %v visited twice (position %d of %d, dims %v chunk %v)", cc, k, ci.Total, o.Dims, s.Chunk)})
							break
						}
						seen[key] = true
					}
					if need := chunksOf(o.Dims, s.Chunk); len(ci.Coords) == ci.Total && need != nil && !o.Grown {
						for _, cc := range need {
							if !seen[fmt.Sprint(cc)] {
								ps = append(ps, Problem{"chunk-iterator", path, fmt.Sprintf("chunk %v of the written extent never visited (%d visited, dims %v chunk %v)", cc, ci.Total, o.Dims, s.Chunk)})
								break
							}
						}
					}
					for _, so := range ci.Chunks {
						if so.Err == "outside the current extent" {
							continue
						}
						if so.Err != "" {
							ps = append(ps, Problem{"chunk-iterator", path, fmt.Sprintf("Chunk() at %v failed: %s", so.Sel.Start, so.Err)})
							break
						}
						idx := so.Sel.Indices(o.Dims)
						if len(idx) != len(so.Bits) {
							ps = append(ps, Problem{"chunk-iterator", path, fmt.Sprintf("Chunk() at %v returned %d elements, the chunk holds %d inside dims %v", so.Sel.Start, len(so.Bits), len(idx), o.Dims)})
							break
						}
						mismatch := false
						for i, ix := range idx {
							if ix >= len(want) || so.Bits[i] != want[ix] {
								ps = append(ps, Problem{"chunk-iterator", path, fmt.Sprintf("Chunk() at %v (dims %v chunk %v): element %d = %v, written %v", so.Sel.Start, o.Dims, s.Chunk, i, math.Float64frombits(so.Bits[i]), math.Float64frombits(want[ix]))})
								mismatch = true
								break
							}
						}
						if mismatch {
							break
						}
					}
				}
			}
		} else if d.ReadErr == "" {
			ps = append(ps, Problem{"read-unsupported-returned-values", path, fmt.Sprintf("Read() returned %d values for a %s dataset for which no float64 read is defined", len(d.Read), s.Type)})
		}
		// ReadStrings
		if want, ok := s.ExpectedStrings(o.Raw); ok {
			if d.StringsErr != "" {
				ps = append(ps, Problem{"strings-error", path, "ReadStrings() failed on a fully written string dataset: " + d.StringsErr})
			} else if len(d.Strings) != len(want) {
				ps = append(ps, Problem{"strings-values", path, fmt.Sprintf("ReadStrings() returned %d strings, written %d", len(d.Strings), len(want))})
			} else {
				for i := range want {
					if d.Strings[i] != want[i] {
						ps = append(ps, Problem{"strings-values", path, fmt.Sprintf("ReadStrings()[%d] = %q, written %q", i, d.Strings[i], want[i])})
						break
					}
				}
			}
		} else if d.StringsErr == "" {
			ps = append(ps, Problem{"strings-unsupported-returned-values", path, fmt.Sprintf("ReadStrings() returned %d values for a %s dataset", len(d.Strings), s.Type)})
		}
		if want, ok := s.ExpectedCompound(o.Raw, obs.Render); ok {
			if d.CompoundErr != "" {
				ps = append(ps, Problem{"compound-error", path, "ReadCompound() failed on a fully written compound dataset: " + d.CompoundErr})
			} else if len(d.Compound) != len(want) {
				ps = append(ps, Problem{"compound-values", path, fmt.Sprintf("ReadCompound() returned %d elements, written %d", len(d.Compound), len(want))})
			} else {
				for i := range want {
					if d.Compound[i] != want[i] {
						ps = append(ps, Problem{"compound-values", path, fmt.Sprintf("ReadCompound()[%d] = %s, written %s", i, clip(d.Compound[i]), clip(want[i]))})
						break
					}
				}
			}
		} else if d.CompoundErr == "" {
			ps = append(ps, Problem{"compound-unsupported-returned-values", path, fmt.Sprintf("ReadCompound() returned %d values for a %s dataset", len(d.Compound), s.Type)})
		}
	}
	ps = append(ps, compareAttrs(path, o.Attrs, d.Attrs, d.AttrsErr)...)
	return ps
}

// Compare checks the whole observation against the model.
func Compare(m *Model, f *obs.File, opt Opts) []Problem {
	var ps []Problem
	if f.OpenErr != "" {
		return []Problem{{"open-error", "/", "file written by the library does not open: " + f.OpenErr}}
	}
	for _, p := range f.Panics {
		ps = append(ps, Problem{"panic", "/", p})
	}
	paths := m.Paths()
	// expected groups/datasets by path
	wantGroups := map[string]*Obj{"/": m.Root}
	wantDatasets := map[string]*Obj{}
	for p, l := range paths {
		if l.Kind != "hard" {
			continue
		}
		if l.Obj.Kind == "group" {
			wantGroups[p] = l.Obj
		} else {
			wantDatasets[p] = l.Obj
		}
	}
	gotGroupPaths := make([]string, 0)
	for p := range f.Groups {
		gotGroupPaths = append(gotGroupPaths, p)
	}
	sort.Strings(gotGroupPaths)
	for _, p := range gotGroupPaths {
		if strings.HasSuffix(p, "#dup") {
			ps = append(ps, Problem{"path-duplicate", p, "path reported twice by Walk"})
		}
	}
	for p := range f.Datasets {
		if strings.HasSuffix(p, "#dup") {
			ps = append(ps, Problem{"path-duplicate", p, "path reported twice by Walk"})
		}
	}
	// datasets
	dpaths := make([]string, 0, len(wantDatasets))
	for p := range wantDatasets {
		dpaths = append(dpaths, p)
	}
	sort.Strings(dpaths)
	addrOf := map[int]uint64{}
	for _, p := range dpaths {
		o := wantDatasets[p]
		d := f.Datasets[p]
		if d == nil {
			if g := f.Groups[p]; g != nil {
				ps = append(ps, Problem{"kind", p, "created as a dataset, reported as a group"})
			} else if !visibleParent(m, f, p) {
				// parent not expanded (hard-link cycle cut by the reader): not required
			} else {
				ps = append(ps, Problem{"dataset-missing", p, "created but not reported after reopen"})
			}
			continue
		}
		if a, seen := addrOf[o.ID]; seen && a != d.Addr {
			ps = append(ps, Problem{"hardlink-identity", p, fmt.Sprintf("hard link resolves to address %d, another path of the same object to %d", d.Addr, a)})
		}
		addrOf[o.ID] = d.Addr
		ps = append(ps, CompareDataset(p, o, d, opt)...)
	}
	for p := range f.Datasets {
		if wantDatasets[p] == nil && !strings.HasSuffix(p, "#dup") {
			ps = append(ps, Problem{"dataset-extra", p, "reported but never (successfully) created"})
		}
	}
	// groups
	for p, o := range wantGroups {
		g := f.Groups[p]
		if g == nil {
			if f.Datasets[p] != nil {
				ps = append(ps, Problem{"kind", p, "created as a group, reported as a dataset"})
			} else if visibleParent(m, f, p) {
				ps = append(ps, Problem{"group-missing", p, "created but not reported after reopen"})
			}
			continue
		}
		// children set
		want := map[string]string{}
		for n, l := range o.Links {
			switch {
			case l.Kind == "hard":
				want[n] = l.Obj.Kind
			case !opt.SkipLinks:
				want[n] = l.Kind
			}
		}
		got := map[string]string{}
		expanded := len(g.Children) > 0 || len(o.Links) == 0
		for _, c := range g.Children {
			if _, dup := got[c.Name]; dup {
				ps = append(ps, Problem{"child-duplicate", p, fmt.Sprintf("name %q appears twice in the group", c.Name)})
			}
			got[c.Name] = c.Kind
		}
		if expanded || !isRevisit(m, p) {
			for n, k := range want {
				gk, ok := got[n]
				switch {
				case !ok && (k == "soft" || k == "ext"):
					ps = append(ps, Problem{"link-invisible", p, fmt.Sprintf("%s link %q not listed", k, n)})
				case !ok:
					ps = append(ps, Problem{"child-missing", p, fmt.Sprintf("%s %q not listed in its group", k, n)})
				case (k == "group" || k == "dataset") && gk != k:
					ps = append(ps, Problem{"kind", p + "/" + n, fmt.Sprintf("created as %s, listed as %s", k, gk)})
				case (k == "soft" || k == "ext") && gk != "other":
					ps = append(ps, Problem{"link-as-object", p, fmt.Sprintf("%s link %q listed as a %s", k, n, gk)})
				}
			}
			for n, gk := range got {
				if _, ok := want[n]; !ok {
					if l := o.Links[n]; l != nil && l.Kind != "hard" && opt.SkipLinks {
						continue
					}
					ps = append(ps, Problem{"child-extra", p, fmt.Sprintf("%s %q listed but never (successfully) created", gk, n)})
				}
			}
		}
		ps = append(ps, compareAttrs(p, o.Attrs, g.Attrs, g.AttrsErr)...)
	}
	for p := range f.Groups {
		if wantGroups[p] == nil && !strings.HasSuffix(p, "#dup") {
			if l := paths[p]; l != nil && l.Kind != "hard" {
				continue // reported under child-extra / link-as-object
			}
			ps = append(ps, Problem{"group-extra", p, "reported but never (successfully) created"})
		}
	}
	sort.SliceStable(ps, func(i, j int) bool { return ps[i].Path < ps[j].Path })
	return ps
}

// visibleParent: the parent group of p was reported and expanded by Walk.
func visibleParent(m *Model, f *obs.File, p string) bool {
	parent, _ := splitPath(p)
	g := f.Groups[parent]
	return g != nil && len(g.Children) > 0
}

// isRevisit: the group at path p is an object that also appears on an earlier path (hard link to a group):
// the reader cuts already-visited symbol tables, so such a group may be reported without children.
func isRevisit(m *Model, p string) bool {
	o := m.Resolve(p)
	return o != nil && o.NLinks > 1
}

// chunksOf lists the scaled coordinates of every chunk that intersects dims (nil when there are more than 4096 or the
// chunk shape does not fit the rank).
func chunksOf(dims, chunk []uint64) [][]uint64 {
	if len(chunk) != len(dims) || len(dims) == 0 {
		return nil
	}
	n := make([]uint64, len(dims))
	total := uint64(1)
	for i := range dims {
		if chunk[i] == 0 || dims[i] == 0 {
			return nil
		}
		n[i] = (dims[i] + chunk[i] - 1) / chunk[i]
		total *= n[i]
		if total > 4096 {
			return nil
		}
	}
	out := make([][]uint64, 0, total)
	cur := make([]uint64, len(dims))
	for {
		out = append(out, append([]uint64{}, cur...))
		i := len(dims) - 1
		for ; i >= 0; i-- {
			cur[i]++
			if cur[i] < n[i] {
				break
			}
			cur[i] = 0
		}
		if i < 0 {
			return out
		}
	}
}
