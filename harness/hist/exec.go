package hist

import (
	"encoding/binary"
	"fmt"
	"math"
	"reflect"
	"sort"
	"strings"

	hdf5 "github.com/scigolib/hdf5"
	"github.com/scigolib/hdf5/internal/core"
)

// ---- attribute values --------------------------------------------------------------------------

// AttrVal describes a value passed to WriteAttribute.
type AttrVal struct {
	Kind string `json:"kind"`        // i8 i16 i32 i64 u8 u16 u32 u64 f32 f64 str []i32 []i64 []f32 []f64 | invalid: nil empty int bool []i8 struct
	N    int    `json:"n,omitempty"` // string length / slice length
	Seed int    `json:"seed,omitempty"`
}

var validAttrKinds = map[string]bool{"i8": true, "i16": true, "i32": true, "i64": true, "u8": true, "u16": true, "u32": true, "u64": true,
	"f32": true, "f64": true, "str": true, "[]i32": true, "[]i64": true, "[]f32": true, "[]f64": true,
	// the same slices as values of the caller's own types (a defined slice type, a slice of a defined element type)
	"[]f32:named": true, "[]f64:named": true, "[]i32:named": true, "[]f32:elem": true, "[]i64:elem": true}

type (
	namedF32s []float32
	namedF64s []float64
	namedI32s []int32
	celsius   float32
	ticks     int64
)

func (a AttrVal) Valid() bool {
	if !validAttrKinds[a.Kind] {
		return false
	}
	if strings.HasPrefix(a.Kind, "[]") && a.N < 1 {
		return false
	}
	return true
}

// MAttr is the model of a stored attribute.
type MAttr struct {
	Class  int
	Size   uint32
	Signed bool
	Dims   []uint64
	Data   []byte
	Kind   string
}

func attrString(n, seed int) string {
	alphabet := "abcdefghijklmnopqrstuvwxyzABCDEF0123456789 _-./"
	b := make([]byte, n)
	for i := range b {
		b[i] = alphabet[mix(seed, i)%uint64(len(alphabet))]
	}
	return string(b)
}

// attrText is attrString for attribute values: one seed in four draws from an alphabet with 2-, 3- and 4-byte UTF-8
// characters (n counts characters), so that byte length and character count differ.
func attrText(n, seed int) string {
	if seed%4 != 0 {
		return attrString(n, seed)
	}
	alphabet := []rune("aZ 0éüß名前データ😀–")
	r := make([]rune, n)
	for i := range r {
		r[i] = alphabet[mix(seed, i)%uint64(len(alphabet))]
	}
	return string(r)
}

// Go returns the Go value for WriteAttribute and the modelled stored form (nil for invalid values).
func (a AttrVal) Go() (any, *MAttr) {
	if i := strings.IndexByte(a.Kind, ':'); i > 0 {
		b := a
		b.Kind = a.Kind[:i]
		v, m := b.Go()
		if m == nil {
			return v, m
		}
		switch s := v.(type) {
		case []float32:
			if a.Kind[i:] == ":elem" {
				out := make([]celsius, len(s))
				for k, x := range s {
					out[k] = celsius(x)
				}
				return out, m
			}
			return namedF32s(s), m
		case []float64:
			return namedF64s(s), m
		case []int32:
			return namedI32s(s), m
		case []int64:
			out := make([]ticks, len(s))
			for k, x := range s {
				out[k] = ticks(x)
			}
			return out, m
		}
		return v, m
	}
	bits := func(i int) uint64 { return rawBits(a.Seed, i, 8, ModeMixed) }
	le := func(v uint64, n int) []byte {
		b := make([]byte, 8)
		binary.LittleEndian.PutUint64(b, v)
		return b[:n]
	}
	switch a.Kind {
	case "i8":
		return int8(bits(0)), &MAttr{0, 1, true, []uint64{1}, le(bits(0), 1), a.Kind}
	case "i16":
		return int16(bits(0)), &MAttr{0, 2, true, []uint64{1}, le(bits(0), 2), a.Kind}
	case "i32":
		return int32(bits(0)), &MAttr{0, 4, true, []uint64{1}, le(bits(0), 4), a.Kind}
	case "i64":
		return int64(bits(0)), &MAttr{0, 8, true, []uint64{1}, le(bits(0), 8), a.Kind}
	case "u8":
		return uint8(bits(0)), &MAttr{0, 1, false, []uint64{1}, le(bits(0), 1), a.Kind}
	case "u16":
		return uint16(bits(0)), &MAttr{0, 2, false, []uint64{1}, le(bits(0), 2), a.Kind}
	case "u32":
		return uint32(bits(0)), &MAttr{0, 4, false, []uint64{1}, le(bits(0), 4), a.Kind}
	case "u64":
		return bits(0), &MAttr{0, 8, false, []uint64{1}, le(bits(0), 8), a.Kind}
	case "f32":
		v := math.Float32frombits(uint32(bits(0)))
		return v, &MAttr{1, 4, false, []uint64{1}, le(uint64(math.Float32bits(v)), 4), a.Kind}
	case "f64":
		v := math.Float64frombits(bits(0))
		return v, &MAttr{1, 8, false, []uint64{1}, le(math.Float64bits(v), 8), a.Kind}
	case "str":
		s := attrText(a.N, a.Seed)
		return s, &MAttr{3, uint32(len(s) + 1), false, []uint64{1}, append([]byte(s), 0), a.Kind}
	case "[]i32":
		if a.N < 1 {
			return []int32{}, nil
		}
		s := make([]int32, a.N)
		var d []byte
		for i := range s {
			s[i] = int32(bits(i))
			d = append(d, le(uint64(uint32(s[i])), 4)...)
		}
		return s, &MAttr{0, 4, true, []uint64{uint64(a.N)}, d, a.Kind}
	case "[]i64":
		if a.N < 1 {
			return []int64{}, nil
		}
		s := make([]int64, a.N)
		var d []byte
		for i := range s {
			s[i] = int64(bits(i))
			d = append(d, le(uint64(s[i]), 8)...)
		}
		return s, &MAttr{0, 8, true, []uint64{uint64(a.N)}, d, a.Kind}
	case "[]f32":
		if a.N < 1 {
			return []float32{}, nil
		}
		s := make([]float32, a.N)
		var d []byte
		for i := range s {
			s[i] = math.Float32frombits(uint32(bits(i)))
			d = append(d, le(uint64(math.Float32bits(s[i])), 4)...)
		}
		return s, &MAttr{1, 4, false, []uint64{uint64(a.N)}, d, a.Kind}
	case "[]f64":
		if a.N < 1 {
			return []float64{}, nil
		}
		s := make([]float64, a.N)
		var d []byte
		for i := range s {
			s[i] = math.Float64frombits(bits(i))
			d = append(d, le(math.Float64bits(s[i]), 8)...)
		}
		return s, &MAttr{1, 8, false, []uint64{uint64(a.N)}, d, a.Kind}
	case "nil":
		return nil, nil
	case "empty":
		return []float64{}, nil
	case "int":
		return int(a.Seed), nil
	case "bool":
		return a.Seed%2 == 0, nil
	case "[]i8":
		return []int8{1, 2, 3}, nil
	case "struct":
		return struct{ A int }{a.Seed}, nil
	}
	return nil, nil
}

// ---- ops -------------------------------------------------------------------------------------------

type Op struct {
	K      string      `json:"k"` // group dataset write writeraw resize attr delattr hard soft ext reopen close
	Path   string      `json:"path,omitempty"`
	D      *DSpec      `json:"d,omitempty"`
	Seed   int         `json:"seed,omitempty"`
	Mode   int         `json:"mode,omitempty"` // value mode for write
	Name   string      `json:"name,omitempty"`
	A      *AttrVal    `json:"a,omitempty"`
	Dims   []uint64    `json:"dims,omitempty"`
	Target string      `json:"target,omitempty"`
	File   string      `json:"file,omitempty"`
	Links  [][2]string `json:"links,omitempty"`  // densegroup: link name -> target path
	Alias  string      `json:"alias,omitempty"`  // dataset: pass the very same dims/chunk slices as the earlier dataset at this path
	Delta  int         `json:"delta,omitempty"`  // attrfit: the string value is sized so that the object's header message area becomes 255+Delta bytes
	Short  int         `json:"short,omitempty"`  // write: deliberately wrong element count (+/-)
	BadTy  bool        `json:"bad_ty,omitempty"` // write: deliberately wrong Go type
}

type Case struct {
	SB  int  `json:"sb"` // superblock version 0 2 3
	Ops []Op `json:"ops"`
}

// ---- model -----------------------------------------------------------------------------------------

type Obj struct {
	ID      int
	Kind    string // group dataset
	Spec    *DSpec
	Dims    []uint64
	Raw     []byte // row-major element bytes of the current extent; nil before the first full write
	Written bool
	Grown   bool // extended after the last full write: the added region has no stored chunks
	VL      [][]byte // variable-length datasets: the bytes of every element (Raw is then nil)
	Attrs   map[string]*MAttr
	Links   map[string]*Link // groups
	Order   []string         // creation order of link names
	NLinks  int              // number of hard links pointing here
	Dense   bool             // group created with CreateDenseGroup
}

type Link struct {
	Kind    string // hard soft ext
	Obj     *Obj
	Soft    string
	ExtFile string
	ExtPath string
}

type Model struct {
	Root *Obj
	next int
}

func NewModel() *Model {
	m := &Model{}
	m.Root = m.newObj("group")
	return m
}

func (m *Model) newObj(kind string) *Obj {
	m.next++
	o := &Obj{ID: m.next, Kind: kind, Attrs: map[string]*MAttr{}, NLinks: 1}
	if kind == "group" {
		o.Links = map[string]*Link{}
	}
	return o
}

func splitPath(p string) (parent, name string) {
	p = strings.TrimSuffix(p, "/")
	i := strings.LastIndex(p, "/")
	if i <= 0 {
		return "/", p[i+1:]
	}
	return p[:i], p[i+1:]
}

// Resolve follows hard links from the root.
func (m *Model) Resolve(p string) *Obj {
	if p == "/" || p == "" {
		return m.Root
	}
	cur := m.Root
	for _, part := range strings.Split(strings.Trim(p, "/"), "/") {
		if cur == nil || cur.Kind != "group" {
			return nil
		}
		l := cur.Links[part]
		if l == nil || l.Kind != "hard" {
			return nil
		}
		cur = l.Obj
	}
	return cur
}

func (m *Model) addLink(parent *Obj, name string, l *Link) {
	parent.Links[name] = l
	parent.Order = append(parent.Order, name)
}

// Paths lists every path reachable through hard links (cycle-safe: an object is expanded once per walk branch).
func (m *Model) Paths() map[string]*Link {
	out := map[string]*Link{}
	var walk func(o *Obj, prefix string, onPath map[int]bool)
	walk = func(o *Obj, prefix string, onPath map[int]bool) {
		names := make([]string, 0, len(o.Links))
		for n := range o.Links {
			names = append(names, n)
		}
		sort.Strings(names)
		for _, n := range names {
			l := o.Links[n]
			p := prefix + n
			out[p] = l
			if l.Kind == "hard" && l.Obj.Kind == "group" && !onPath[l.Obj.ID] {
				onPath[l.Obj.ID] = true
				walk(l.Obj, p+"/", onPath)
				delete(onPath, l.Obj.ID)
			}
		}
	}
	walk(m.Root, "/", map[int]bool{m.Root.ID: true})
	return out
}

// Objects lists every object reachable through hard links once (graph walk by object identity, not by path).
func (m *Model) Objects() []*Obj {
	seen := map[int]bool{m.Root.ID: true}
	out := []*Obj{m.Root}
	for i := 0; i < len(out); i++ {
		o := out[i]
		names := make([]string, 0, len(o.Links))
		for n := range o.Links {
			names = append(names, n)
		}
		sort.Strings(names)
		for _, n := range names {
			if l := o.Links[n]; l.Kind == "hard" && !seen[l.Obj.ID] {
				seen[l.Obj.ID] = true
				out = append(out, l.Obj)
			}
		}
	}
	return out
}

// resolveTarget resolves a link target: an object (through hard links), or the soft/external link a path names.
func (m *Model) resolveTarget(p string) (*Obj, *Link) {
	if o := m.Resolve(p); o != nil {
		return o, nil
	}
	tp, tn := splitPath(p)
	if pg := m.Resolve(tp); pg != nil && pg.Kind == "group" && pg.Links[tn] != nil && pg.Links[tn].Kind != "hard" {
		return nil, pg.Links[tn]
	}
	return nil, nil
}

// ---- executor ----------------------------------------------------------------------------------------

type Step struct {
	Op     Op
	Err    string // error returned by the library ("" = nil)
	Must   string // "ok" | "fail" | "" : outcome the property mandates
	Broken string // mandate violated / panic
}

type Exec struct {
	File     string
	SB       int
	FW       *hdf5.FileWriter
	M        *Model
	DS       map[int]*hdf5.DatasetWriter // by object id (current session)
	GW       map[int]*hdf5.GroupWriter
	Steps    []Step
	Opts     []interface{} // extra CreateForWrite options (rebalancing etc.)
	Reopened bool
	// NoRebalance: name-index rebalancing is switched off in every session (creation option, toggle after a reopen)
	NoRebalance bool
	closed      bool
	specs       map[string]*DSpec      // dataset specs as passed to the library (for slice aliasing between datasets)
	specSnap    map[string][3][]uint64 // dims / chunk / max dims as they were when passed: the slices are the caller's
}

func NewExec(file string, sb int, opts ...interface{}) (*Exec, error) {
	e := &Exec{File: file, SB: sb, M: NewModel(), DS: map[int]*hdf5.DatasetWriter{}, GW: map[int]*hdf5.GroupWriter{}, Opts: opts}
	all := append([]interface{}{hdf5.WithSuperblockVersion(uint8(sb))}, opts...)
	fw, err := hdf5.CreateForWrite(file, hdf5.CreateTruncate, all...)
	if err != nil {
		return nil, err
	}
	e.FW = fw
	return e, nil
}

func errs(err error) string {
	if err == nil {
		return ""
	}
	if err.Error() == "" {
		return "error"
	}
	return err.Error()
}

// Scribble overwrites the contents of the slices handed to Write (and of their element slices) the way a caller does that
// refills its row buffers for the next call: nothing that ends up in the file may depend on them after Write returned.
func Scribble(v any) {
	var walk func(rv reflect.Value)
	walk = func(rv reflect.Value) {
		if rv.Kind() != reflect.Slice {
			return
		}
		for i := 0; i < rv.Len(); i++ {
			e := rv.Index(i)
			switch e.Kind() {
			case reflect.Slice:
				walk(e)
			case reflect.String:
				if e.CanSet() {
					e.SetString("~scribbled~")
				}
			case reflect.Int, reflect.Int8, reflect.Int16, reflect.Int32, reflect.Int64:
				if e.CanSet() {
					e.SetInt(0x55)
				}
			case reflect.Uint, reflect.Uint8, reflect.Uint16, reflect.Uint32, reflect.Uint64:
				if e.CanSet() {
					e.SetUint(0x55)
				}
			case reflect.Float32, reflect.Float64:
				if e.CanSet() {
					e.SetFloat(-12345.5)
				}
			}
		}
	}
	if v != nil {
		walk(reflect.ValueOf(v))
	}
}

// Close closes the writer (idempotent).
func (e *Exec) Close() error {
	if e.FW == nil {
		return nil
	}
	err := e.FW.Close()
	e.closed = true
	return err
}

// handle returns a dataset writer for the object, opening it by path after a reopen.
func (e *Exec) handle(o *Obj, path string) (*hdf5.DatasetWriter, error) {
	if h := e.DS[o.ID]; h != nil {
		return h, nil
	}
	h, err := e.FW.OpenDataset(path)
	if err != nil {
		return nil, err
	}
	e.DS[o.ID] = h
	return h, nil
}

// Apply executes one op against the library and the model. A panic is reported in Step.Broken.
func (e *Exec) Apply(op Op) (st Step) {
	st.Op = op
	defer func() {
		if p := recover(); p != nil {
			st.Broken = fmt.Sprintf("panic in %s: %v", op.K, p)
		}
		e.Steps = append(e.Steps, st)
	}()
	m := e.M
	parentPath, name := splitPath(op.Path)
	parent := m.Resolve(parentPath)
	exists := parent != nil && parent.Kind == "group" && parent.Links[name] != nil
	parentOK := parent != nil && parent.Kind == "group"
	mustCreate := func() {
		switch {
		case !parentOK || exists:
			st.Must = "fail"
		}
	}
	switch op.K {
	case "group":
		mustCreate()
		gw, err := e.FW.CreateGroup(op.Path)
		st.Err = errs(err)
		if err == nil && parentOK && !exists {
			o := m.newObj("group")
			m.addLink(parent, name, &Link{Kind: "hard", Obj: o})
			e.GW[o.ID] = gw
		}
	case "dataset":
		mustCreate()
		if op.D == nil {
			st.Broken = "dataset op without spec"
			return
		}
		spec := op.D
		if e.specs == nil {
			e.specs = map[string]*DSpec{}
		}
		if a := e.specs[op.Alias]; a != nil && eqU64(a.Dims, op.D.Dims) {
			// hand the library the very same slice objects a previous CreateDataset received: a writer that keeps
			// (and later modifies) the caller's slices couples the two datasets
			cp := *op.D
			cp.Dims = a.Dims
			if a.Chunk != nil && eqU64(a.Chunk, op.D.Chunk) {
				cp.Chunk = a.Chunk
			}
			if a.MaxDims != nil && eqU64(a.MaxDims, op.D.MaxDims) {
				cp.MaxDims = a.MaxDims
			}
			spec = &cp
		}
		dimsBefore := append([]uint64{}, spec.Dims...)
		ds, err := spec.Create(e.FW, op.Path)
		e.specs[op.Path] = spec
		if e.specSnap == nil {
			e.specSnap = map[string][3][]uint64{}
		}
		e.specSnap[op.Path] = [3][]uint64{append([]uint64(nil), spec.Dims...), append([]uint64(nil), spec.Chunk...), append([]uint64(nil), spec.MaxDims...)}
		st.Err = errs(err)
		if !eqU64(dimsBefore, spec.Dims) {
			st.Broken = fmt.Sprintf("CreateDataset modified the caller's dims slice: %v -> %v", dimsBefore, spec.Dims)
		}
		if err == nil && parentOK && !exists {
			o := m.newObj("dataset")
			spec := *op.D
			o.Spec = &spec
			o.Dims = append([]uint64{}, op.D.Dims...)
			m.addLink(parent, name, &Link{Kind: "hard", Obj: o})
			e.DS[o.ID] = ds
		}
	case "densegroup":
		mustCreate()
		links := map[string]string{}
		okTargets := true
		for _, l := range op.Links {
			links[l[0]] = l[1]
			if o, alias := m.resolveTarget(l[1]); o == nil && alias == nil {
				okTargets = false
			}
		}
		if !okTargets {
			st.Must = "fail"
		}
		err := e.FW.CreateDenseGroup(op.Path, links)
		st.Err = errs(err)
		if err == nil && st.Must != "fail" {
			o := m.newObj("group")
			o.Dense = true
			for _, l := range op.Links {
				if _, dup := o.Links[l[0]]; dup {
					continue
				}
				t, alias := m.resolveTarget(l[1])
				if t != nil {
					t.NLinks++
					m.addLink(o, l[0], &Link{Kind: "hard", Obj: t})
				} else {
					cp := *alias
					m.addLink(o, l[0], &cp)
				}
			}
			m.addLink(parent, name, &Link{Kind: "hard", Obj: o})
		}
	case "write", "writeraw":
		o := m.Resolve(op.Path)
		if o == nil || o.Kind != "dataset" {
			st.Err = "skipped: no such dataset in model"
			return
		}
		h, err := e.handle(o, op.Path)
		if err != nil {
			st.Err = "open: " + errs(err)
			return
		}
		dims := o.Dims
		if k, _ := o.Spec.Base(); k == "vl" {
			goVal, elems := o.Spec.VLData(dims, op.Seed)
			err = h.Write(goVal)
			Scribble(goVal) // the buffers are the caller's again once Write has returned (elems is a separate copy)
			st.Err = errs(err)
			if err == nil {
				o.VL, o.Raw, o.Written = elems, nil, true
			}
			break
		}
		raw, goVal := o.Spec.Data(dims, op.Seed, op.Mode)
		bad := false
		if op.Short != 0 {
			es := o.Spec.ElemSize()
			n := len(raw)/es + op.Short
			if n < 0 {
				n = 0
			}
			short := make([]uint64, len(dims))
			copy(short, dims)
			// regenerate with a different element count
			raw2, goVal2 := o.Spec.Data([]uint64{uint64(n)}, op.Seed, op.Mode)
			if n != len(raw)/es {
				raw, goVal, bad = raw2, goVal2, true
			}
		}
		if op.BadTy {
			goVal, bad = []complex128{1}, true
		}
		if bad {
			st.Must = "fail"
		}
		if op.K == "writeraw" || goVal == nil {
			if op.BadTy {
				err = h.Write(goVal)
			} else {
				err = h.WriteRaw(raw)
			}
		} else {
			err = h.Write(goVal)
			Scribble(goVal) // raw is a separate copy of what was written
		}
		st.Err = errs(err)
		if err == nil && !bad {
			o.Raw = raw
			o.Written = true
			o.Grown = false
		}
	case "resize":
		o := m.Resolve(op.Path)
		if o == nil || o.Kind != "dataset" {
			st.Err = "skipped: no such dataset in model"
			return
		}
		h, err := e.handle(o, op.Path)
		if err != nil {
			st.Err = "open: " + errs(err)
			return
		}
		ok := o.Spec.Chunk != nil && o.Spec.MaxDims != nil && len(op.Dims) == len(o.Dims)
		if ok {
			for i, d := range op.Dims {
				if d == 0 || (o.Spec.MaxDims[i] != hdf5.Unlimited && d > o.Spec.MaxDims[i]) {
					ok = false
				}
			}
		}
		switch {
		case !ok:
			st.Must = "fail"
		case !e.Reopened:
			st.Must = "ok" // on a handle from OpenDataset resizing is not supported (an error is fine, success must be right)
		}
		// the shape is passed in a slice of the caller's own, which the caller re-uses for its next step afterwards
		arg := append([]uint64{}, op.Dims...)
		err = h.Resize(arg)
		for i := range arg {
			arg[i] = 0xA5A5A5A5A5A5A5A5
		}
		st.Err = errs(err)
		if err == nil && ok {
			if o.VL != nil {
				o.VL, o.Written = nil, false // element references of a resized vlen dataset are not modelled until rewritten
			} else if HugeExtent(op.Dims) {
				o.Raw, o.Written = nil, false // a declared extent that is never materialised; contents are modelled again after the next full write
			} else {
				for i := range op.Dims {
					if o.Written && op.Dims[i] > o.Dims[i] {
						o.Grown = true
					}
				}
				o.Raw = ResizeRaw(o.Raw, o.Dims, op.Dims, o.Spec.ElemSize(), o.Written)
			}
			o.Dims = append([]uint64{}, op.Dims...)
		}
	case "attr":
		o := m.Resolve(op.Path)
		if o == nil || op.A == nil {
			st.Err = "skipped: no such object in model"
			return
		}
		v, ma := op.A.Go()
		if ma == nil || op.Name == "" {
			st.Must = "fail"
		}
		var err error
		if o.Kind == "dataset" {
			var h *hdf5.DatasetWriter
			h, err = e.handle(o, op.Path)
			if err != nil {
				st.Err = "open: " + errs(err)
				return
			}
			err = h.WriteAttribute(op.Name, v)
		} else {
			gw := e.GW[o.ID]
			if gw == nil {
				st.Err = "skipped: no group handle in this session"
				return
			}
			err = gw.WriteAttribute(op.Name, v)
		}
		st.Err = errs(err)
		if err == nil && ma != nil && op.Name != "" {
			o.Attrs[op.Name] = ma
		}
	case "attrfit":
		// a string attribute sized so that the header message area of the (dataset) object becomes 255+Delta bytes
		o := m.Resolve(op.Path)
		if o == nil || o.Kind != "dataset" {
			st.Err = "skipped: no such dataset in model"
			return
		}
		h, err := e.handle(o, op.Path)
		if err != nil {
			st.Err = "open: " + errs(err)
			return
		}
		used, ok := e.headerBytes(op.Path, op.Name)
		if !ok {
			st.Err = "skipped: header not readable / attribute storage already dense"
			return
		}
		// message = 4 (prefix) + attribute message; find the value length by encoding candidates
		n := -1
		for l := 0; l < 300; l++ {
			if sz := attrMessageSize(op.Name, l); sz > 0 && used+4+sz == 255+op.Delta {
				n = l
				break
			}
		}
		if n < 0 {
			st.Err = "skipped: no string length reaches the target size"
			return
		}
		a := AttrVal{Kind: "str", N: n, Seed: op.Seed}
		v, ma := a.Go()
		err = h.WriteAttribute(op.Name, v)
		st.Err = errs(err)
		if err == nil {
			o.Attrs[op.Name] = ma
		}
	case "delattr":
		o := m.Resolve(op.Path)
		if o == nil || o.Kind != "dataset" {
			st.Err = "skipped: no such dataset in model"
			return
		}
		h, err := e.handle(o, op.Path)
		if err != nil {
			st.Err = "open: " + errs(err)
			return
		}
		err = h.DeleteAttribute(op.Name)
		st.Err = errs(err)
		if err == nil {
			delete(o.Attrs, op.Name)
		}
	case "hard":
		tgt := m.Resolve(op.Target)
		// A target path that names a soft/external link: the library stores such links as pseudo objects
		// (open finding KF-C03-01), so linking to one is neither mandated to fail nor to succeed.
		var aliasOf *Link
		if tgt == nil {
			tp, tn := splitPath(op.Target)
			if pg := m.Resolve(tp); pg != nil && pg.Kind == "group" && pg.Links[tn] != nil && pg.Links[tn].Kind != "hard" {
				aliasOf = pg.Links[tn]
			}
		}
		if !parentOK || exists || (tgt == nil && aliasOf == nil) || op.Target == "/" {
			st.Must = "fail"
		}
		err := e.FW.CreateHardLink(op.Path, op.Target)
		st.Err = errs(err)
		if err == nil && st.Must != "fail" {
			if aliasOf != nil {
				cp := *aliasOf
				m.addLink(parent, name, &cp)
			} else {
				tgt.NLinks++
				m.addLink(parent, name, &Link{Kind: "hard", Obj: tgt})
			}
		}
	case "soft":
		mustCreate()
		err := e.FW.CreateSoftLink(op.Path, op.Target)
		st.Err = errs(err)
		if err == nil && st.Must != "fail" {
			m.addLink(parent, name, &Link{Kind: "soft", Soft: op.Target})
		}
	case "ext":
		mustCreate()
		err := e.FW.CreateExternalLink(op.Path, op.File, op.Target)
		st.Err = errs(err)
		if err == nil && st.Must != "fail" {
			m.addLink(parent, name, &Link{Kind: "ext", ExtFile: op.File, ExtPath: op.Target})
		}
	case "reopen":
		if err := e.FW.Close(); err != nil {
			st.Err = "close: " + errs(err)
			st.Broken = "Close failed: " + errs(err)
			return
		}
		fw, err := hdf5.OpenForWrite(e.File, hdf5.OpenReadWrite)
		if err != nil {
			st.Err = errs(err)
			st.Broken = "OpenForWrite of a file the library just closed failed: " + errs(err)
			return
		}
		e.FW = fw
		if e.NoRebalance {
			fw.DisableRebalancing()
		}
		e.DS = map[int]*hdf5.DatasetWriter{}
		e.GW = map[int]*hdf5.GroupWriter{}
		e.Reopened = true
	case "close":
		st.Err = errs(e.FW.Close())
		if st.Err != "" {
			st.Broken = "Close returned an error: " + st.Err
		}
	default:
		st.Err = "skipped: unknown op"
	}
	// the shape slices handed to CreateDataset stay the caller's: no later call may write into them
	if st.Broken == "" {
		for p, snap := range e.specSnap {
			if sp := e.specs[p]; sp != nil && (!eqU64(sp.Dims, snap[0]) || !eqU64(sp.Chunk, snap[1]) || !eqU64(sp.MaxDims, snap[2])) {
				st.Broken = fmt.Sprintf("%s %s modified the shape slices the caller passed when it created %s: dims %v chunk %v max %v -> dims %v chunk %v max %v", op.K, op.Path, p, snap[0], snap[1], snap[2], sp.Dims, sp.Chunk, sp.MaxDims)
				e.specSnap[p] = [3][]uint64{append([]uint64(nil), sp.Dims...), append([]uint64(nil), sp.Chunk...), append([]uint64(nil), sp.MaxDims...)}
				break
			}
		}
	}
	switch {
	case st.Must == "fail" && st.Err == "":
		st.Broken = fmt.Sprintf("%s %s must be rejected but returned nil", op.K, op.Path)
	case st.Must == "ok" && st.Err != "":
		st.Broken = fmt.Sprintf("%s %s must succeed but failed: %s", op.K, op.Path, st.Err)
	}
	return st
}

// ResizeRaw maps row-major data from oldDims to newDims keeping the intersection and zero-filling the rest.
func ResizeRaw(old []byte, oldDims, newDims []uint64, es int, written bool) []byte {
	n := NumElems(newDims) * es
	out := make([]byte, n)
	if !written || old == nil {
		return out
	}
	rank := len(newDims)
	idx := make([]uint64, rank)
	total := NumElems(newDims)
	for lin := 0; lin < total; lin++ {
		// idx of lin in newDims
		r := lin
		for d := rank - 1; d >= 0; d-- {
			idx[d] = uint64(r) % newDims[d]
			r /= int(newDims[d])
		}
		inside := true
		off := uint64(0)
		for d := 0; d < rank; d++ {
			if idx[d] >= oldDims[d] {
				inside = false
				break
			}
			off = off*oldDims[d] + idx[d]
		}
		if inside {
			copy(out[lin*es:(lin+1)*es], old[int(off)*es:int(off+1)*es])
		}
	}
	return out
}

// headerBytes returns the size of the object's header message area without the attribute named skip, read from
// the file as it is on disk now (writes are unbuffered); ok=false if the object already uses dense attribute storage.
func (e *Exec) headerBytes(path, skip string) (int, bool) {
	f, err := hdf5.Open(e.File)
	if err != nil {
		return 0, false
	}
	defer f.Close()
	var addr uint64
	found := false
	f.Walk(func(p string, o hdf5.Object) {
		if d, ok := o.(*hdf5.Dataset); ok && p == path {
			addr, found = d.Address(), true
		}
	})
	if !found {
		return 0, false
	}
	hdr, err := core.ReadObjectHeader(f.Reader(), addr, f.Superblock())
	if err != nil {
		return 0, false
	}
	total := 0
	for _, msg := range hdr.Messages {
		if msg.Type == core.MsgAttributeInfo {
			return 0, false
		}
		if msg.Type == core.MsgAttribute {
			if a, err := core.ParseAttributeMessage(msg.Data, binary.LittleEndian); err == nil && a.Name == skip {
				continue
			}
		}
		total += 4 + len(msg.Data)
	}
	return total, true
}

// attrMessageSize is the encoded size of a scalar string attribute message with the given name and value length.
func attrMessageSize(name string, valueLen int) int {
	dt := &core.DatatypeMessage{Class: core.DatatypeString, Size: uint32(valueLen + 1)}
	ds := &core.DataspaceMessage{Dimensions: []uint64{1}}
	b, err := core.EncodeAttributeFromStruct(&core.Attribute{Name: name, Datatype: dt, Dataspace: ds, Data: make([]byte, valueLen+1)},
		&core.Superblock{Version: 2, OffsetSize: 8, LengthSize: 8, Endianness: binary.LittleEndian})
	if err != nil {
		return -1
	}
	return len(b)
}
