package hist

import (
	"bytes"
	"fmt"
	"sort"

	"github.com/scigolib/hdf5/verif/indep"
)

// IndepResult is what the independent spec-based decoder made of a written file.
type IndepResult struct {
	File       *indep.File
	DecodeErr  string         // non-tolerated spec violation (or panic text)
	Problems   []Problem      // disagreements with the model
	Extents    []string       // out-of-bounds / overlapping structures
	Deviations map[string]int // tolerated deviations the file needed
}

// CompareIndep decodes the file image with the independent decoder (all catalogued deviations tolerated)
// and compares tree, types, shapes, raw bytes, attributes and link values with the model.
func CompareIndep(m *Model, data []byte) *IndepResult {
	r := &IndepResult{}
	f, err := indep.Decode(data, indep.TolerateAll())
	r.File = f
	if err != nil && !indep.IsUnsupported(err) {
		r.DecodeErr = err.Error()
	}
	if f == nil {
		if r.DecodeErr == "" {
			r.DecodeErr = "decoder returned no file"
		}
		return r
	}
	r.Deviations = f.Deviations
	r.Extents = f.CheckExtents(uint64(len(data)))
	if r.DecodeErr != "" {
		return r
	}
	add := func(kind, path, format string, a ...any) {
		r.Problems = append(r.Problems, Problem{Kind: kind, Path: path, Detail: fmt.Sprintf(format, a...)})
	}
	paths := m.Paths()
	keys := make([]string, 0, len(paths))
	for p := range paths {
		keys = append(keys, p)
	}
	sort.Strings(keys)
	addrOf := map[int]uint64{}
	checkAttrs := func(p string, want map[string]*MAttr, got []indep.Attribute) {
		seen := map[string]bool{}
		for _, a := range got {
			if seen[a.Name] {
				add("indep-attr-duplicate", p, "attribute %q stored twice", a.Name)
				continue
			}
			seen[a.Name] = true
			w := want[a.Name]
			if w == nil {
				add("indep-attr-extra", p, "attribute %q stored but not in the model", a.Name)
				continue
			}
			if a.Type == nil || a.Type.Class != w.Class || a.Type.Size != w.Size || (w.Class == 0 && a.Type.Signed != w.Signed) {
				add("indep-attr-type", p, "attribute %q stored with type %+v, written class %d size %d signed %v", a.Name, a.Type, w.Class, w.Size, w.Signed)
			}
			dims := a.Dims
			if a.Scalar {
				dims = []uint64{1}
			}
			if !eqU64(dims, w.Dims) {
				add("indep-attr-shape", p, "attribute %q stored with dims %v, written %v", a.Name, dims, w.Dims)
			}
			if !bytes.Equal(a.Data, w.Data) {
				add("indep-attr-bytes", p, "attribute %q stored bytes differ from the written ones (%d vs %d bytes)", a.Name, len(a.Data), len(w.Data))
			}
		}
		for n := range want {
			if !seen[n] {
				add("indep-attr-missing", p, "attribute %q written but not stored", n)
			}
		}
	}
	// root attributes
	if root := f.Lookup("/"); root != nil {
		checkAttrs("/", m.Root.Attrs, root.Attrs)
	}
	for _, p := range keys {
		l := paths[p]
		parentPath, name := splitPath(p)
		if l.Kind != "hard" {
			// soft / external link: the parent group must hold the link with its value
			pg := lookupWalk(f, parentPath)
			if pg == nil {
				continue // reported through the parent
			}
			var got *indep.Link
			for i := range pg.Links {
				if pg.Links[i].Name == name {
					got = &pg.Links[i]
				}
			}
			switch {
			case got == nil:
				add("indep-link-missing", p, "%s link not stored in its group", l.Kind)
			case l.Kind == "soft" && (got.Kind != "soft" || got.SoftPath != l.Soft):
				add("indep-link-value", p, "soft link stored as %s -> %q, written -> %q", got.Kind, got.SoftPath, l.Soft)
			case l.Kind == "ext" && (got.Kind != "external" || got.ExtFile != l.ExtFile || got.ExtPath != l.ExtPath):
				add("indep-link-value", p, "external link stored as %s %q:%q, written %q:%q", got.Kind, got.ExtFile, got.ExtPath, l.ExtFile, l.ExtPath)
			}
			continue
		}
		o := l.Obj
		g := lookupWalk(f, p)
		if g == nil {
			add("indep-missing", p, "%s created but not reachable in the stored file", o.Kind)
			continue
		}
		if a, seen := addrOf[o.ID]; seen && a != g.Addr {
			add("indep-hardlink-identity", p, "hard link stored with address %d, another path of the same object has %d", g.Addr, a)
		}
		addrOf[o.ID] = g.Addr
		if g.Kind != o.Kind {
			add("indep-kind", p, "created as %s, stored as %s", o.Kind, g.Kind)
			continue
		}
		if g.RefCount != uint32(o.NLinks) {
			add("indep-refcount", p, "stored reference count %d, %d hard link(s) point to the object", g.RefCount, o.NLinks)
		}
		checkAttrs(p, o.Attrs, g.Attrs)
		if o.Kind == "group" {
			want := map[string]bool{}
			for n := range o.Links {
				want[n] = true
			}
			got := map[string]bool{}
			for _, gl := range g.Links {
				if got[gl.Name] {
					add("indep-child-duplicate", p, "link name %q stored twice", gl.Name)
				}
				got[gl.Name] = true
				if !want[gl.Name] {
					add("indep-child-extra", p, "link %q stored but never (successfully) created", gl.Name)
				}
			}
			for n := range want {
				if !got[n] {
					add("indep-child-missing", p, "link %q created but not stored", n)
				}
			}
			continue
		}
		s := o.Spec
		t := g.Type
		if t == nil {
			add("indep-type", p, "no datatype decoded")
			continue
		}
		if t.Class != s.Class() || int(t.Size) != s.ElemSize() {
			add("indep-type", p, "stored class %d size %d, created as class %d size %d (%s)", t.Class, t.Size, s.Class(), s.ElemSize(), s.Type)
		}
		kind, base := s.Base()
		switch kind {
		case "num":
			if s.Class() == 0 && t.Signed != baseTypes[base].signed {
				add("indep-sign", p, "stored signed=%v, created as %s", t.Signed, s.Type)
			}
		case "arr":
			if !eqU64(t.ArrayDims, s.ArrDims) || t.Base == nil || int(t.Base.Size) != baseTypes[base].size || t.Base.Class != baseTypes[base].class {
				add("indep-type", p, "stored array type dims %v base %+v, created as %s%v", t.ArrayDims, t.Base, s.Type, s.ArrDims)
			}
		case "enum":
			if len(t.EnumNames) != s.EnumN {
				add("indep-type", p, "stored enum has %d members, created with %d", len(t.EnumNames), s.EnumN)
			}
		case "cmp":
			fields := cmpLayouts[s.Type]
			if len(t.Members) != len(fields) {
				add("indep-type", p, "stored compound has %d members, created with %d", len(t.Members), len(fields))
			} else {
				offs, _ := cmpOffsets(s.Type)
				for i, f := range fields {
					m := t.Members[i]
					off := offs[i]
					if m.Name != f.name || m.Offset != off || m.Type == nil || m.Type.Size != f.size || m.Type.Class != int(f.class) {
						add("indep-type", p, "stored compound member %d = %q @%d %+v, created %q @%d class %d size %d", i, m.Name, m.Offset, m.Type, f.name, off, f.class, f.size)
					}
				}
			}
		case "opaque":
			if t.OpaqueTag != s.OpaqueTag {
				add("indep-type", p, "stored opaque tag %q, created with %q", t.OpaqueTag, s.OpaqueTag)
			}
		}
		dims := g.Dims
		if !eqU64(dims, o.Dims) {
			add("indep-shape", p, "stored dims %v, model %v", dims, o.Dims)
		}
		if s.MaxDims != nil && !eqU64(g.MaxDims, s.MaxDims) {
			add("indep-maxdims", p, "stored max dims %v, created with %v", g.MaxDims, s.MaxDims)
		}
		wantLayout := "contiguous"
		if s.Chunk != nil {
			wantLayout = "chunked"
		}
		if g.Layout != wantLayout {
			add("indep-layout", p, "stored layout %s, created as %s", g.Layout, wantLayout)
		}
		if s.Chunk != nil && !eqU64(g.ChunkDims, s.Chunk) {
			add("indep-chunk", p, "stored chunk shape %v, created with %v", g.ChunkDims, s.Chunk)
		}
		if kind == "vl" {
			if o.Written && eqU64(dims, o.Dims) {
				switch {
				case g.RawErr != "":
					add("indep-raw-error", p, "element references cannot be assembled: %s", g.RawErr)
				case len(g.Raw) != 16*len(o.VL):
					add("indep-raw", p, "%d bytes of element references, want %d x 16", len(g.Raw), len(o.VL))
				default:
					for i, want := range o.VL {
						got, err := f.ResolveVLen(g.Raw[i*16 : (i+1)*16])
						if err != nil {
							add("indep-vlen", p, "element %d (%d bytes written) does not resolve: %v", i, len(want), err)
							break
						}
						if !bytes.Equal(got, want) {
							add("indep-vlen", p, "element %d resolves to %d bytes, written %d", i, len(got), len(want))
							break
						}
					}
				}
			}
			continue
		}
		if o.Written && eqU64(dims, o.Dims) {
			switch {
			case g.RawErr != "":
				add("indep-raw-error", p, "stored data cannot be assembled: %s", g.RawErr)
			case !bytes.Equal(g.Raw, o.Raw):
				i := 0
				for i < len(g.Raw) && i < len(o.Raw) && g.Raw[i] == o.Raw[i] {
					i++
				}
				add("indep-raw", p, "stored data differs from the written bytes at offset %d (%d vs %d bytes; %s dims %v chunk %v)", i, len(g.Raw), len(o.Raw), s.Type, o.Dims, s.Chunk)
			}
		}
	}
	return r
}

// lookupWalk resolves a path component by component through the decoded groups' hard links (the decoder's own
// Paths map lists the sub-tree of an object only under the first path that reached it).
func lookupWalk(f *indep.File, p string) *indep.Object {
	cur := f.Lookup("/")
	if p == "/" || p == "" {
		return cur
	}
	for _, part := range splitParts(p) {
		if cur == nil {
			return nil
		}
		var next *indep.Object
		for _, l := range cur.Links {
			if l.Name == part && l.Kind == "hard" {
				next = f.Objects[l.Addr]
			}
		}
		cur = next
	}
	return cur
}

func splitParts(p string) []string {
	var out []string
	cur := ""
	for _, c := range p {
		if c == '/' {
			if cur != "" {
				out = append(out, cur)
			}
			cur = ""
		} else {
			cur += string(c)
		}
	}
	if cur != "" {
		out = append(out, cur)
	}
	return out
}
