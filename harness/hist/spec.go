// Package hist is the shared op language, logical model and executor for the history-based checks
// (C01-C05, C10, C12, C13, C16, C19). Cases are plain JSON data; the executor applies them to the real
// write API and to the model; expect.go compares an observation of the reopened file with the model.
package hist

import (
	"encoding/binary"
	"fmt"
	"math"
	"sync"

	hdf5 "github.com/scigolib/hdf5"
	"github.com/scigolib/hdf5/internal/core"
)

// DSpec describes a dataset to create.
type DSpec struct {
	Type      string   `json:"type"` // i8 i16 i32 i64 u8 u16 u32 u64 f32 f64 str arr:<base> enum:<base> objref regref opaque
	StrSize   int      `json:"str_size,omitempty"`
	ArrDims   []uint64 `json:"arr_dims,omitempty"`
	EnumN     int      `json:"enum_n,omitempty"`
	OpaqueLen int      `json:"opaque_len,omitempty"`
	OpaqueTag string   `json:"opaque_tag,omitempty"`
	Dims      []uint64 `json:"dims"`
	Chunk     []uint64 `json:"chunk,omitempty"`    // nil = contiguous
	MaxDims   []uint64 `json:"max_dims,omitempty"` // nil = not resizable; hdf5.Unlimited allowed
	Filters   []string `json:"filters,omitempty"`  // chunked only: "gzip:<level>" "shuffle" "fletcher" in option order
}

// compound layouts: "cmp:num" = {a int32 @0, b float64 @4, c int64 @12}; "cmp:str" = {x float32 @0, s string[6] @4};
// "cmp:pad" = {a int32 @0, b float64 @8, c int32 @16}, 24 bytes (the layout a C compiler gives the struct: alignment
// padding behind a and c); "cmp:ooo" = {hi int64 @8, lo int32 @0, f float32 @4}, 16 bytes (members listed out of offset order)
type cmpField struct {
	name  string
	class core.DatatypeClass
	size  uint32
}

var cmpLayouts = map[string][]cmpField{
	"cmp:num": {{"a", core.DatatypeFixed, 4}, {"b", core.DatatypeFloat, 8}, {"c", core.DatatypeFixed, 8}},
	"cmp:str": {{"x", core.DatatypeFloat, 4}, {"s", core.DatatypeString, 6}},
	"cmp:pad": {{"a", core.DatatypeFixed, 4}, {"b", core.DatatypeFloat, 8}, {"c", core.DatatypeFixed, 4}},
	"cmp:ooo": {{"hi", core.DatatypeFixed, 8}, {"lo", core.DatatypeFixed, 4}, {"f", core.DatatypeFloat, 4}},
}

// cmpExplicit: member offsets and total size of the layouts that are not packed in member order.
var cmpExplicit = map[string]struct {
	offs []uint32
	size uint32
}{
	"cmp:pad": {[]uint32{0, 8, 16}, 24},
	"cmp:ooo": {[]uint32{8, 0, 4}, 16},
}

// cmpOffsets returns the byte offset of every member and the element size.
func cmpOffsets(typ string) ([]uint32, uint32) {
	if e, ok := cmpExplicit[typ]; ok {
		return e.offs, e.size
	}
	var offs []uint32
	off := uint32(0)
	for _, f := range cmpLayouts[typ] {
		offs = append(offs, off)
		off += f.size
	}
	return offs, off
}

func (d DSpec) compoundType() (*core.DatatypeMessage, error) {
	var fields []core.CompoundFieldDef
	offs, size := cmpOffsets(d.Type)
	for i, f := range cmpLayouts[d.Type] {
		t, err := core.CreateBasicDatatypeMessage(f.class, f.size)
		if err != nil {
			return nil, err
		}
		fields = append(fields, core.CompoundFieldDef{Name: f.name, Offset: offs[i], Type: t})
	}
	if _, explicit := cmpExplicit[d.Type]; explicit {
		enc, err := core.EncodeCompoundDatatypeV3(size, fields)
		if err != nil {
			return nil, err
		}
		return core.ParseDatatypeMessage(enc)
	}
	return core.CreateCompoundTypeFromFields(fields)
}

var baseTypes = map[string]struct {
	dt     hdf5.Datatype
	size   int
	class  int
	signed bool
}{
	"i8": {hdf5.Int8, 1, 0, true}, "i16": {hdf5.Int16, 2, 0, true}, "i32": {hdf5.Int32, 4, 0, true}, "i64": {hdf5.Int64, 8, 0, true},
	"u8": {hdf5.Uint8, 1, 0, false}, "u16": {hdf5.Uint16, 2, 0, false}, "u32": {hdf5.Uint32, 4, 0, false}, "u64": {hdf5.Uint64, 8, 0, false},
	"f32": {hdf5.Float32, 4, 1, false}, "f64": {hdf5.Float64, 8, 1, false},
}

var arrTypes = map[string]hdf5.Datatype{"i8": hdf5.ArrayInt8, "i16": hdf5.ArrayInt16, "i32": hdf5.ArrayInt32, "i64": hdf5.ArrayInt64,
	"u8": hdf5.ArrayUint8, "u16": hdf5.ArrayUint16, "u32": hdf5.ArrayUint32, "u64": hdf5.ArrayUint64, "f32": hdf5.ArrayFloat32, "f64": hdf5.ArrayFloat64}
var enumTypes = map[string]hdf5.Datatype{"i8": hdf5.EnumInt8, "i16": hdf5.EnumInt16, "i32": hdf5.EnumInt32, "i64": hdf5.EnumInt64,
	"u8": hdf5.EnumUint8, "u16": hdf5.EnumUint16, "u32": hdf5.EnumUint32, "u64": hdf5.EnumUint64}

// Base returns the numeric base type name ("" when none) and the kind: num arr enum str objref regref opaque.
func (d DSpec) Base() (kind, base string) {
	switch {
	case len(d.Type) > 4 && d.Type[:4] == "arr:":
		return "arr", d.Type[4:]
	case len(d.Type) > 5 && d.Type[:5] == "enum:":
		return "enum", d.Type[5:]
	case d.Type == "str" || d.Type == "objref" || d.Type == "regref" || d.Type == "opaque":
		return d.Type, ""
	case d.Type == "cmp:num" || d.Type == "cmp:str" || d.Type == "cmp:pad" || d.Type == "cmp:ooo":
		return "cmp", ""
	case len(d.Type) > 3 && d.Type[:3] == "vl:":
		if _, ok := vlTypes[d.Type]; ok {
			return "vl", ""
		}
		return "num", d.Type // unknown: rejected by Valid
	}
	return "num", d.Type
}

// Valid reports whether the spec names a known type.
func (d DSpec) Valid() bool {
	kind, base := d.Base()
	switch kind {
	case "num":
		_, ok := baseTypes[base]
		return ok
	case "arr":
		_, ok := arrTypes[base]
		return ok && len(d.ArrDims) > 0
	case "enum":
		_, ok := enumTypes[base]
		return ok && d.EnumN > 0
	case "str":
		return d.StrSize > 0
	case "opaque":
		return d.OpaqueLen > 0 && d.OpaqueTag != ""
	}
	if len(d.Filters) > 0 && d.Chunk == nil {
		return false
	}
	return true
}

// ElemSize is the size in bytes of one dataset element.
func (d DSpec) ElemSize() int {
	kind, base := d.Base()
	switch kind {
	case "num", "enum":
		return baseTypes[base].size
	case "arr":
		n := baseTypes[base].size
		for _, x := range d.ArrDims {
			n *= int(x)
		}
		return n
	case "str":
		return d.StrSize
	case "objref":
		return 8
	case "regref":
		return 12
	case "opaque":
		return d.OpaqueLen
	case "cmp":
		_, size := cmpOffsets(d.Type)
		return int(size)
	case "vl":
		return 16
	}
	return 0
}

// Class is the expected HDF5 datatype class number.
func (d DSpec) Class() int {
	kind, base := d.Base()
	switch kind {
	case "num":
		return baseTypes[base].class
	case "arr":
		return 10
	case "enum":
		return 8
	case "str":
		return 3
	case "objref", "regref":
		return 7
	case "opaque":
		return 5
	case "cmp":
		return 6
	case "vl":
		return 9
	}
	return -1
}

// HugeExtent reports whether dims describe more than 2^26 elements (such extents are declared, never materialised).
func HugeExtent(dims []uint64) bool {
	n := uint64(1)
	for _, x := range dims {
		if x != 0 && n > (1<<26)/x {
			return true
		}
		n *= x
	}
	return false
}

func NumElems(dims []uint64) int {
	n := 1
	for _, x := range dims {
		n *= int(x)
	}
	return n
}

// Create calls CreateDataset for the spec.
func (d DSpec) Create(fw *hdf5.FileWriter, path string) (*hdf5.DatasetWriter, error) {
	kind, base := d.Base()
	var dt hdf5.Datatype
	var opts []hdf5.DatasetOption
	switch kind {
	case "num":
		dt = baseTypes[base].dt
	case "arr":
		dt = arrTypes[base]
		opts = append(opts, hdf5.WithArrayDims(d.ArrDims))
	case "enum":
		dt = enumTypes[base]
		names := make([]string, d.EnumN)
		vals := make([]int64, d.EnumN)
		for i := range names {
			names[i] = fmt.Sprintf("E%d", i)
			vals[i] = int64(i)
		}
		opts = append(opts, hdf5.WithEnumValues(names, vals))
	case "str":
		dt = hdf5.String
		opts = append(opts, hdf5.WithStringSize(uint32(d.StrSize)))
	case "objref":
		dt = hdf5.ObjectReference
	case "regref":
		dt = hdf5.RegionReference
	case "opaque":
		dt = hdf5.Opaque
		opts = append(opts, hdf5.WithOpaqueTag(d.OpaqueTag, uint32(d.OpaqueLen)))
	case "vl":
		dt = vlTypes[d.Type].dt
	default:
		dt = hdf5.Datatype(9999)
	}
	if d.Chunk != nil {
		opts = append(opts, hdf5.WithChunkDims(d.Chunk))
	}
	if d.MaxDims != nil {
		opts = append(opts, hdf5.WithMaxDims(d.MaxDims))
	}
	for _, f := range d.Filters {
		if o := filterOption(f); o != nil {
			opts = append(opts, o)
		}
	}
	if kind == "cmp" {
		ct, err := d.compoundType()
		if err != nil {
			return nil, err
		}
		return fw.CreateCompoundDataset(path, ct, d.Dims, opts...)
	}
	return fw.CreateDataset(path, dt, d.Dims, opts...)
}

// filterOption returns the option value for a filter spec. Values are created once per process and reused for every dataset
// and file that asks for the same filter, the way callers keep a "profile" of options: an option value is a description of
// what to configure and must not accumulate state from the datasets it was applied to.
func filterOption(f string) hdf5.DatasetOption {
	optMu.Lock()
	defer optMu.Unlock()
	if o, ok := optCache[f]; ok {
		return o
	}
	var o hdf5.DatasetOption
	switch {
	case len(f) > 5 && f[:5] == "gzip:":
		lvl := 6
		fmt.Sscanf(f[5:], "%d", &lvl)
		o = hdf5.WithGZIPCompression(lvl)
	case f == "shuffle":
		o = hdf5.WithShuffle()
	case f == "fletcher":
		o = hdf5.WithFletcher32()
	default:
		return nil
	}
	optCache[f] = o
	return o
}

var (
	optMu    sync.Mutex
	optCache = map[string]hdf5.DatasetOption{}
)

// vlTypes: the variable-length dataset types of the write API (element size 0 = string).
var vlTypes = map[string]struct {
	dt   hdf5.Datatype
	elem int
}{
	"vl:str": {hdf5.VLenString, 0}, "vl:i32": {hdf5.VLenInt32, 4}, "vl:i64": {hdf5.VLenInt64, 8}, "vl:u32": {hdf5.VLenUint32, 4},
	"vl:u64": {hdf5.VLenUint64, 8}, "vl:f32": {hdf5.VLenFloat32, 4}, "vl:f64": {hdf5.VLenFloat64, 8},
}

// ---- values -----------------------------------------------------------------------------------

func mix(seed, i int) uint64 {
	x := uint64(seed)*0x9E3779B97F4A7C15 + uint64(i)*0xBF58476D1CE4E5B9 + 0x94D049BB133111EB
	x ^= x >> 30
	x *= 0xBF58476D1CE4E5B9
	x ^= x >> 27
	x *= 0x94D049BB133111EB
	x ^= x >> 31
	return x
}

var extremes64 = []uint64{0, 1, 0xFFFFFFFFFFFFFFFF, 0x8000000000000000, 0x7FFFFFFFFFFFFFFF, 0x80000000, 0x7FFFFFFF, 0xFFFFFFFF, 0x100000000, 0xFF, 0x80, 0x7F, 0xFFFF, 0x8000,
	// float64 specials: +-0, +-Inf, quiet/signalling NaN with payload, subnormals, max
	0x7FF0000000000000, 0xFFF0000000000000, 0x7FF8000000000001, 0x7FF0000000000001, 0xFFF8DEADBEEF0001, 0x0000000000000001, 0x000FFFFFFFFFFFFF, 0x7FEFFFFFFFFFFFFF,
	// float32 specials (taken modulo 2^32 for 4-byte types)
	0x7F800000, 0xFF800000, 0x7FC00001, 0x7F800001, 0x00000001, 0x007FFFFF, 0x7F7FFFFF, 0x80000000}

// SeqMode makes values consecutive (1,2,3,...) so that misplacement is visible; otherwise pseudo-random with extremes.
const (
	ModeMixed = 0
	ModeSeq   = 1
	ModeZero  = 2 // every byte zero (a caller clearing a dataset)
)

// rawBits returns the little-endian bit pattern (as uint64, truncated to size) of element i.
func rawBits(seed, i, size, mode int) uint64 {
	if mode == ModeSeq {
		return uint64(seed%97) + uint64(i) + 1
	}
	if mode == ModeZero {
		return 0
	}
	r := mix(seed, i)
	if r%5 == 0 {
		return extremes64[(r>>8)%uint64(len(extremes64))]
	}
	return r >> 3
}

// Data produces the raw little-endian row-major bytes of a full write and the Go value to pass to Write
// (nil => use WriteRaw).
func (d DSpec) Data(dims []uint64, seed, mode int) (raw []byte, goVal any) {
	n := NumElems(dims)
	kind, base := d.Base()
	es := d.ElemSize()
	raw = make([]byte, n*es)
	switch kind {
	case "num", "arr", "enum":
		bt := baseTypes[base]
		cnt := n * es / bt.size
		put := func(i int, v uint64) {
			switch bt.size {
			case 1:
				raw[i] = byte(v)
			case 2:
				binary.LittleEndian.PutUint16(raw[i*2:], uint16(v))
			case 4:
				binary.LittleEndian.PutUint32(raw[i*4:], uint32(v))
			case 8:
				binary.LittleEndian.PutUint64(raw[i*8:], v)
			}
		}
		for i := 0; i < cnt; i++ {
			v := rawBits(seed, i, bt.size, mode)
			if kind == "enum" {
				v %= uint64(d.EnumN)
			}
			if bt.class == 1 && mode == ModeSeq {
				if bt.size == 4 {
					v = uint64(math.Float32bits(float32(v)))
				} else {
					v = math.Float64bits(float64(v))
				}
			}
			put(i, v)
		}
		switch base {
		case "i8":
			s := make([]int8, cnt)
			for i := range s {
				s[i] = int8(raw[i])
			}
			goVal = s
		case "u8":
			goVal = append([]uint8{}, raw...)
		case "i16":
			s := make([]int16, cnt)
			for i := range s {
				s[i] = int16(binary.LittleEndian.Uint16(raw[i*2:]))
			}
			goVal = s
		case "u16":
			s := make([]uint16, cnt)
			for i := range s {
				s[i] = binary.LittleEndian.Uint16(raw[i*2:])
			}
			goVal = s
		case "i32":
			s := make([]int32, cnt)
			for i := range s {
				s[i] = int32(binary.LittleEndian.Uint32(raw[i*4:]))
			}
			goVal = s
		case "u32":
			s := make([]uint32, cnt)
			for i := range s {
				s[i] = binary.LittleEndian.Uint32(raw[i*4:])
			}
			goVal = s
		case "i64":
			s := make([]int64, cnt)
			for i := range s {
				s[i] = int64(binary.LittleEndian.Uint64(raw[i*8:]))
			}
			goVal = s
		case "u64":
			s := make([]uint64, cnt)
			for i := range s {
				s[i] = binary.LittleEndian.Uint64(raw[i*8:])
			}
			goVal = s
		case "f32":
			s := make([]float32, cnt)
			for i := range s {
				s[i] = math.Float32frombits(binary.LittleEndian.Uint32(raw[i*4:]))
			}
			goVal = s
		case "f64":
			s := make([]float64, cnt)
			for i := range s {
				s[i] = math.Float64frombits(binary.LittleEndian.Uint64(raw[i*8:]))
			}
			goVal = s
		}
	case "str":
		strs := make([]string, n)
		alphabet := []string{"a", "b", "Z", "0", " ", "é", "名", "-", "_", "x"}
		for i := range strs {
			r := mix(seed, i)
			l := int(r % uint64(d.StrSize+3)) // 0 .. size+2: shorter, exact and longer than the field
			if mode == ModeSeq {
				strs[i] = fmt.Sprintf("s%d", i)
			} else if mode == ModeZero {
				strs[i] = ""
			} else {
				s := ""
				for k := 0; len(s) < l; k++ {
					s += alphabet[(r>>(uint(k%13)*4))%uint64(len(alphabet))]
					r = r*6364136223846793005 + 1442695040888963407
				}
				strs[i] = s
			}
			b := []byte(strs[i])
			if len(b) > d.StrSize {
				b = b[:d.StrSize]
			}
			copy(raw[i*es:], b)
		}
		goVal = strs
	case "objref":
		s := make([]uint64, n)
		for i := range s {
			s[i] = rawBits(seed, i, 8, mode)
			binary.LittleEndian.PutUint64(raw[i*8:], s[i])
		}
		goVal = s
	case "opaque":
		for i := range raw {
			raw[i] = byte(mix(seed, i))
		}
		goVal = append([]byte{}, raw...)
	case "cmp":
		offs, esz := cmpOffsets(d.Type)
		for i := 0; i < n; i++ {
			for fi, f := range cmpLayouts[d.Type] {
				off := i*int(esz) + int(offs[fi])
				v := rawBits(seed, i*7+fi, int(f.size), mode)
				switch {
				case f.class == core.DatatypeString:
					str := fmt.Sprintf("s%d", (seed+i)%1000)
					copy(raw[off:off+int(f.size)-1], str) // keep a terminating NUL
				case f.class == core.DatatypeFloat && mode == ModeSeq && f.size == 8:
					binary.LittleEndian.PutUint64(raw[off:], math.Float64bits(float64(v)))
				case f.class == core.DatatypeFloat && mode == ModeSeq:
					binary.LittleEndian.PutUint32(raw[off:], math.Float32bits(float32(v)))
				case f.size == 4:
					binary.LittleEndian.PutUint32(raw[off:], uint32(v))
				default:
					binary.LittleEndian.PutUint64(raw[off:], v)
				}
			}
		}
		goVal = nil
	default: // regref: WriteRaw only
		for i := range raw {
			raw[i] = byte(mix(seed, i) >> 5)
		}
		goVal = nil
	}
	return raw, goVal
}

// ExpectedRead computes what Dataset.Read must return for the raw bytes: ok=false means the type has no
// float64 read (an error is required; a value would be "different values").
func (d DSpec) ExpectedRead(raw []byte) (bits []uint64, ok bool) {
	kind, base := d.Base()
	if kind != "num" {
		return nil, false
	}
	bt := baseTypes[base]
	if bt.size != 4 && bt.size != 8 {
		return nil, false
	}
	n := len(raw) / bt.size
	out := make([]uint64, n)
	for i := 0; i < n; i++ {
		var f float64
		switch base {
		case "f64":
			f = math.Float64frombits(binary.LittleEndian.Uint64(raw[i*8:]))
		case "f32":
			f = float64(math.Float32frombits(binary.LittleEndian.Uint32(raw[i*4:])))
		case "i32":
			f = float64(int32(binary.LittleEndian.Uint32(raw[i*4:])))
		case "u32":
			f = float64(binary.LittleEndian.Uint32(raw[i*4:]))
		case "i64":
			f = float64(int64(binary.LittleEndian.Uint64(raw[i*8:])))
		case "u64":
			f = float64(binary.LittleEndian.Uint64(raw[i*8:]))
		}
		out[i] = math.Float64bits(f)
	}
	return out, true
}

// ExpectedStrings: fixed-size NUL-terminated/padded strings as the reader documents them (up to the first NUL).
func (d DSpec) ExpectedStrings(raw []byte) ([]string, bool) {
	if d.Type != "str" {
		return nil, false
	}
	n := len(raw) / d.StrSize
	out := make([]string, n)
	for i := range out {
		b := raw[i*d.StrSize : (i+1)*d.StrSize]
		for j, c := range b {
			if c == 0 {
				b = b[:j]
				break
			}
		}
		out[i] = string(b)
	}
	return out, true
}

// ExpectedCompound renders what ReadCompound must return (obs.Render of each element's field map).
func (d DSpec) ExpectedCompound(raw []byte, render func(any) string) ([]string, bool) {
	fields, ok := cmpLayouts[d.Type]
	if !ok {
		return nil, false
	}
	es := d.ElemSize()
	n := len(raw) / es
	out := make([]string, n)
	for i := 0; i < n; i++ {
		m := map[string]interface{}{}
		offs, _ := cmpOffsets(d.Type)
		for fi, f := range fields {
			off := i*es + int(offs[fi])
			b := raw[off : off+int(f.size)]
			switch {
			case f.class == core.DatatypeString:
				s := b
				for j, c := range s {
					if c == 0 {
						s = s[:j]
						break
					}
				}
				m[f.name] = string(s)
			case f.class == core.DatatypeFloat && f.size == 8:
				m[f.name] = math.Float64frombits(binary.LittleEndian.Uint64(b))
			case f.class == core.DatatypeFloat:
				m[f.name] = math.Float32frombits(binary.LittleEndian.Uint32(b))
			case f.size == 4:
				m[f.name] = int32(binary.LittleEndian.Uint32(b))
			default:
				m[f.name] = int64(binary.LittleEndian.Uint64(b))
			}
		}
		out[i] = render(m)
	}
	return out, true
}

// VLData builds the Go value for a variable-length dataset write and the expected bytes of every element.
// Element lengths are mostly small, with some beyond the 4 KiB default heap collection.
func (d DSpec) VLData(dims []uint64, seed int) (goVal any, elems [][]byte) {
	n := NumElems(dims)
	elems = make([][]byte, n)
	lens := []int{0, 1, 3, 8, 17, 40, 200, 4100, 9000}
	for i := range elems {
		l := lens[mix(seed, i)%uint64(len(lens))]
		if mix(seed, i+999)%4 != 0 && l > 200 {
			l = int(mix(seed, i) % 64) // large elements are the minority
		} else if l > 200 && mix(seed, i+555)%2 == 0 {
			// around the sizes at which an element with its heap object header fills whole 4 KiB collections
			l = []int{4000, 4040, 8100, 8140, 12240}[mix(seed, i+556)%5] + int(mix(seed, i+557)%100)
		}
		if es := vlTypes[d.Type].elem; es > 0 {
			l = l / es * es
		}
		b := make([]byte, l)
		for j := range b {
			b[j] = byte(mix(seed, i*977+j)>>7) | 1 // no NUL bytes: the string form must survive
		}
		elems[i] = b
	}
	le32 := func(e []byte, j int) uint32 { return binary.LittleEndian.Uint32(e[j*4:]) }
	le64 := func(e []byte, j int) uint64 { return binary.LittleEndian.Uint64(e[j*8:]) }
	switch d.Type {
	case "vl:i32":
		v := make([][]int32, n)
		for i, e := range elems {
			v[i] = make([]int32, len(e)/4)
			for j := range v[i] {
				v[i][j] = int32(le32(e, j))
			}
		}
		return v, elems
	case "vl:u32":
		v := make([][]uint32, n)
		for i, e := range elems {
			v[i] = make([]uint32, len(e)/4)
			for j := range v[i] {
				v[i][j] = le32(e, j)
			}
		}
		return v, elems
	case "vl:f32":
		v := make([][]float32, n)
		for i, e := range elems {
			v[i] = make([]float32, len(e)/4)
			for j := range v[i] {
				v[i][j] = math.Float32frombits(le32(e, j))
			}
		}
		return v, elems
	case "vl:i64":
		v := make([][]int64, n)
		for i, e := range elems {
			v[i] = make([]int64, len(e)/8)
			for j := range v[i] {
				v[i][j] = int64(le64(e, j))
			}
		}
		return v, elems
	case "vl:u64":
		v := make([][]uint64, n)
		for i, e := range elems {
			v[i] = make([]uint64, len(e)/8)
			for j := range v[i] {
				v[i][j] = le64(e, j)
			}
		}
		return v, elems
	case "vl:f64":
		v := make([][]float64, n)
		for i, e := range elems {
			v[i] = make([]float64, len(e)/8)
			for j := range v[i] {
				v[i][j] = math.Float64frombits(le64(e, j))
			}
		}
		return v, elems
	}
	v := make([]string, n)
	for i, e := range elems {
		v[i] = string(e)
	}
	return v, elems
}
