// Package c16 decides property C16: a write call that returns an error changes nothing and the writer stays usable.
package c16

import (
	"fmt"
	"os"
	"path/filepath"
	"strings"
	"testing"

	hdf5 "github.com/scigolib/hdf5"
	"github.com/scigolib/hdf5/verif/hist"
	"github.com/scigolib/hdf5/verif/obs"
	"github.com/scigolib/hdf5/verif/vt"
	"pgregory.net/rapid"
)

const prop = "C16"
const kfGroupWithLinks = "KF-C16-01"

// templates: every one of these calls MUST return an error (validation or capacity point in the write API).
var templates = []string{
	"ds_empty_name", "ds_no_slash", "ds_empty_dims", "ds_zero_dim", "ds_chunk_gt_dim", "ds_chunk_zero", "ds_chunk_rank", "ds_max_lt_dim", "ds_max_rank",
	"ds_max_without_chunk", "ds_unknown_type", "ds_string_no_size", "ds_array_no_dims", "ds_enum_no_values", "ds_enum_mismatch", "ds_opaque_no_tag",
	"ds_dup_name", "ds_missing_parent", "ds_parent_is_dataset", "compound_nil_type",
	"grp_empty", "grp_no_slash", "grp_root", "grp_dup", "grp_missing_parent",
	"hard_missing_target", "hard_dup_name", "hard_missing_parent", "hard_to_root", "hard_double_slash", "hard_empty",
	"soft_empty_target", "soft_dup", "soft_missing_parent", "ext_dotdot", "ext_empty_file", "ext_dup", "ext_missing_parent",
	"dense_missing_target", "dense_dup", "grouplinks",
	"write_wrong_type", "write_wrong_len", "write_nil", "writeraw_wrong_len", "vlen_too_many", "vlen_too_few", "vlen_wrong_type", "vlen_too_many", "vlen_too_few",
	"resize_not_chunked", "resize_not_resizable", "resize_wrong_rank", "resize_beyond_max", "resize_zero",
	"attr_nil", "attr_empty_slice", "attr_int", "attr_bool", "attr_struct", "attr_int8_slice", "attr_huge_string", "delattr_absent",
	"group_attr_nil", "group_33rd_child", "group_name_heap_full",
	"dense_relative_target", "dense_empty_target", "grouplinks_relative_target", "write_other_float_width", "write_other_float_width",
	"write_wrong_len_opaque", "write_wrong_len_opaque", "hard_dup_to_link_object", "hard_dup_to_link_object", "delattr_absent_second_handle", "delattr_absent_second_handle",
}

type Op struct {
	H   *hist.Op `json:"h,omitempty"`   // a valid op (executed through hist)
	Bad string   `json:"bad,omitempty"` // a failing-call template
	Tgt int      `json:"tgt,omitempty"` // which live object the template aims at
}

type Case struct {
	SB       int  `json:"sb"`
	Ops      []Op `json:"ops"`
	AfterUse bool `json:"after_use"` // also exercise calls after Close
}

var objPaths = []string{"/c", "/r", "/k", "/g", "/g/in", "/h"}

func setup() []hist.Op {
	return []hist.Op{
		{K: "dataset", Path: "/c", D: &hist.DSpec{Type: "i32", Dims: []uint64{4}}},                                           // contiguous
		{K: "dataset", Path: "/r", D: &hist.DSpec{Type: "f64", Dims: []uint64{4}, Chunk: []uint64{2}, MaxDims: []uint64{8}}}, // resizable up to 8
		{K: "dataset", Path: "/k", D: &hist.DSpec{Type: "u8", Dims: []uint64{3, 2}, Chunk: []uint64{2, 2}}},                  // chunked, not resizable
		{K: "group", Path: "/g"},
		{K: "dataset", Path: "/g/in", D: &hist.DSpec{Type: "i16", Dims: []uint64{2}}},
		{K: "group", Path: "/h"},
		// one small dataset per variable-length type (two elements each)
		{K: "dataset", Path: "/v0", D: &hist.DSpec{Type: "vl:str", Dims: []uint64{2}}}, {K: "dataset", Path: "/v1", D: &hist.DSpec{Type: "vl:i32", Dims: []uint64{2}}},
		{K: "dataset", Path: "/v2", D: &hist.DSpec{Type: "vl:i64", Dims: []uint64{2}}}, {K: "dataset", Path: "/v3", D: &hist.DSpec{Type: "vl:u32", Dims: []uint64{2}}},
		{K: "dataset", Path: "/v4", D: &hist.DSpec{Type: "vl:u64", Dims: []uint64{2}}}, {K: "dataset", Path: "/v5", D: &hist.DSpec{Type: "vl:f32", Dims: []uint64{2}}},
		{K: "dataset", Path: "/v6", D: &hist.DSpec{Type: "vl:f64", Dims: []uint64{2}, Chunk: []uint64{1}}},
		{K: "write", Path: "/v0", Seed: 11}, {K: "write", Path: "/v3", Seed: 12}, {K: "write", Path: "/v6", Seed: 13},
		{K: "write", Path: "/c", Seed: 1, Mode: hist.ModeSeq}, {K: "write", Path: "/r", Seed: 2, Mode: hist.ModeSeq},
		{K: "write", Path: "/k", Seed: 3, Mode: hist.ModeSeq}, {K: "write", Path: "/g/in", Seed: 4, Mode: hist.ModeSeq},
		// a contiguous opaque dataset, a soft and an external link, each followed directly by another allocation
		{K: "dataset", Path: "/o", D: &hist.DSpec{Type: "opaque", OpaqueLen: 4, OpaqueTag: "raw", Dims: []uint64{3}}}, {K: "write", Path: "/o", Seed: 5},
		{K: "dataset", Path: "/f32", D: &hist.DSpec{Type: "f32", Dims: []uint64{3}}}, {K: "write", Path: "/f32", Seed: 8, Mode: hist.ModeSeq},
		{K: "soft", Path: "/s", Target: "/c"},
		{K: "dataset", Path: "/after_s", D: &hist.DSpec{Type: "i32", Dims: []uint64{4}}}, {K: "write", Path: "/after_s", Seed: 6, Mode: hist.ModeSeq},
		{K: "ext", Path: "/e", File: "other.h5", Target: "/x"},
		{K: "group", Path: "/after_e"},
	}
}

func gen(t *rapid.T) Case {
	c := Case{SB: rapid.SampledFrom([]int{2, 2, 0, 3}).Draw(t, "sb"), AfterUse: rapid.IntRange(0, 3).Draw(t, "afterUse") == 0}
	n := rapid.IntRange(2, vt.N(30, 80)).Draw(t, "nops")
	nbad := 0
	newc := 0
	for i := 0; i < n; i++ {
		if rapid.IntRange(0, 2).Draw(t, "isBad") == 0 {
			c.Ops = append(c.Ops, Op{Bad: rapid.SampledFrom(templates).Draw(t, "tmpl"), Tgt: rapid.IntRange(0, 5).Draw(t, "tgt")})
			nbad++
			continue
		}
		p := objPaths[rapid.IntRange(0, len(objPaths)-1).Draw(t, "obj")]
		var h hist.Op
		switch rapid.SampledFrom([]string{"attr", "attr", "attr", "write", "delattr", "resize", "new", "hard", "fit", "fit", "reopen"}).Draw(t, "k") {
		case "fit":
			h = hist.Op{K: "attrfit", Path: []string{"/c", "/r", "/k", "/g/in"}[rapid.IntRange(0, 3).Draw(t, "fitobj")], Name: rapid.SampledFrom([]string{"a", "b", "c", "d", "e"}).Draw(t, "aname"),
				Delta: rapid.IntRange(-4, 8).Draw(t, "delta"), Seed: rapid.IntRange(0, 999).Draw(t, "fseed")}
		case "reopen":
			h = hist.Op{K: "reopen"}
		case "attr":
			a := &hist.AttrVal{Kind: rapid.SampledFrom([]string{"i32", "f64", "str", "[]f64", "u16", "str"}).Draw(t, "akind"), Seed: rapid.IntRange(0, 999).Draw(t, "aseed")}
			if a.Kind == "str" {
				a.N = rapid.IntRange(0, 120).Draw(t, "alen")
			} else if strings.HasPrefix(a.Kind, "[]") {
				a.N = rapid.IntRange(1, 10).Draw(t, "alen")
			}
			h = hist.Op{K: "attr", Path: p, Name: rapid.SampledFrom([]string{"a", "b", "c", "d", "e", "f", "g", "h", "i", "j"}).Draw(t, "aname"), A: a}
		case "write":
			h = hist.Op{K: "write", Path: p, Seed: rapid.IntRange(0, 999).Draw(t, "wseed"), Mode: 1}
		case "delattr":
			h = hist.Op{K: "delattr", Path: p, Name: rapid.SampledFrom([]string{"a", "b", "c", "d"}).Draw(t, "aname")}
		case "resize":
			h = hist.Op{K: "resize", Path: "/r", Dims: []uint64{uint64(rapid.IntRange(1, 8).Draw(t, "ext"))}}
		case "new":
			newc++
			h = hist.Op{K: "dataset", Path: fmt.Sprintf("/h/n%d", newc), D: &hist.DSpec{Type: "i32", Dims: []uint64{2}}}
		case "hard":
			newc++
			h = hist.Op{K: "hard", Path: fmt.Sprintf("/l%d", newc), Target: p}
		}
		c.Ops = append(c.Ops, Op{H: &h})
	}
	if nbad == 0 {
		c.Ops = append(c.Ops, Op{Bad: rapid.SampledFrom(templates).Draw(t, "tmpl"), Tgt: 0})
	}
	return c
}

func classify(c Case) (bool, []string) {
	labels := []string{fmt.Sprintf("sb=%d", c.SB)}
	nt := false
	badSeen := false
	for _, op := range c.Ops {
		if op.Bad != "" {
			badSeen = true
			labels = append(labels, "tmpl="+op.Bad)
		} else if badSeen {
			nt = true // a valid op after a failed one
		}
	}
	if c.AfterUse {
		labels = append(labels, "after_close")
	}
	// de-duplicate labels
	seen := map[string]bool{}
	out := labels[:0]
	for _, l := range labels {
		if !seen[l] {
			seen[l] = true
			out = append(out, l)
		}
	}
	return nt, out
}

// bad executes one failing-call template. applicable=false: the template could not be set up in the current state.
func bad(ex *hist.Exec, tmpl string, tgt int) (err error, applicable bool) {
	fw := ex.FW
	i32 := hdf5.Int32
	d1 := []uint64{4}
	ds := func(path string) *hdf5.DatasetWriter {
		o := ex.M.Resolve(path)
		if o == nil {
			return nil
		}
		return ex.DS[o.ID]
	}
	gw := func(path string) *hdf5.GroupWriter {
		o := ex.M.Resolve(path)
		if o == nil {
			return nil
		}
		return ex.GW[o.ID]
	}
	dsPaths := []string{"/c", "/r", "/k", "/g/in"}
	tp := dsPaths[tgt%len(dsPaths)]
	switch tmpl {
	case "ds_empty_name":
		_, err = fw.CreateDataset("", i32, d1)
	case "ds_no_slash":
		_, err = fw.CreateDataset("noslash", i32, d1)
	case "ds_empty_dims":
		_, err = fw.CreateDataset("/bad1", i32, []uint64{})
	case "ds_zero_dim":
		_, err = fw.CreateDataset("/bad2", i32, []uint64{2, 0})
	case "ds_chunk_gt_dim":
		_, err = fw.CreateDataset("/bad3", i32, d1, hdf5.WithChunkDims([]uint64{5}))
	case "ds_chunk_zero":
		_, err = fw.CreateDataset("/bad4", i32, d1, hdf5.WithChunkDims([]uint64{0}))
	case "ds_chunk_rank":
		_, err = fw.CreateDataset("/bad5", i32, []uint64{4, 4}, hdf5.WithChunkDims([]uint64{2}))
	case "ds_max_lt_dim":
		_, err = fw.CreateDataset("/bad6", i32, d1, hdf5.WithChunkDims([]uint64{2}), hdf5.WithMaxDims([]uint64{3}))
	case "ds_max_rank":
		_, err = fw.CreateDataset("/bad7", i32, d1, hdf5.WithChunkDims([]uint64{2}), hdf5.WithMaxDims([]uint64{4, 4}))
	case "ds_max_without_chunk":
		_, err = fw.CreateDataset("/bad8", i32, d1, hdf5.WithMaxDims([]uint64{8}))
	case "ds_unknown_type":
		_, err = fw.CreateDataset("/bad9", hdf5.Datatype(9999), d1)
	case "ds_string_no_size":
		_, err = fw.CreateDataset("/bad10", hdf5.String, d1)
	case "ds_array_no_dims":
		_, err = fw.CreateDataset("/bad11", hdf5.ArrayInt32, d1)
	case "ds_enum_no_values":
		_, err = fw.CreateDataset("/bad12", hdf5.EnumInt8, d1)
	case "ds_enum_mismatch":
		_, err = fw.CreateDataset("/bad13", hdf5.EnumInt8, d1, hdf5.WithEnumValues([]string{"a", "b"}, []int64{1, 2, 3}))
	case "ds_opaque_no_tag":
		_, err = fw.CreateDataset("/bad14", hdf5.Opaque, d1)
	case "ds_dup_name":
		_, err = fw.CreateDataset(objPaths[tgt%len(objPaths)], i32, d1)
	case "ds_missing_parent":
		_, err = fw.CreateDataset("/nonexistent/x", i32, d1)
	case "ds_parent_is_dataset":
		_, err = fw.CreateDataset("/c/x", i32, d1)
	case "compound_nil_type":
		_, err = fw.CreateCompoundDataset("/bad15", nil, d1)
	case "grp_empty":
		_, err = fw.CreateGroup("")
	case "grp_no_slash":
		_, err = fw.CreateGroup("g2")
	case "grp_root":
		_, err = fw.CreateGroup("/")
	case "grp_dup":
		_, err = fw.CreateGroup(objPaths[tgt%len(objPaths)])
	case "grp_missing_parent":
		_, err = fw.CreateGroup("/nonexistent/g")
	case "hard_missing_target":
		err = fw.CreateHardLink("/bad16", "/no_such_object")
	case "hard_dup_name":
		err = fw.CreateHardLink(objPaths[tgt%len(objPaths)], "/c")
	case "hard_missing_parent":
		err = fw.CreateHardLink("/nonexistent/l", tp)
	case "hard_to_root":
		err = fw.CreateHardLink("/bad17", "/")
	case "hard_double_slash":
		err = fw.CreateHardLink("/g//bad", "/c")
	case "hard_empty":
		err = fw.CreateHardLink("", "/c")
	case "soft_empty_target":
		err = fw.CreateSoftLink("/bad18", "")
	case "soft_dup":
		err = fw.CreateSoftLink(objPaths[tgt%len(objPaths)], "/c")
	case "soft_missing_parent":
		err = fw.CreateSoftLink("/nonexistent/s", "/c")
	case "ext_dotdot":
		err = fw.CreateExternalLink("/bad19", "../other.h5", "/x")
	case "ext_empty_file":
		err = fw.CreateExternalLink("/bad20", "", "/x")
	case "ext_dup":
		err = fw.CreateExternalLink(objPaths[tgt%len(objPaths)], "o.h5", "/x")
	case "ext_missing_parent":
		err = fw.CreateExternalLink("/nonexistent/e", "o.h5", "/x")
	case "dense_missing_target":
		err = fw.CreateDenseGroup("/bad21", map[string]string{"l": "/no_such_object"})
	case "dense_dup":
		err = fw.CreateDenseGroup(objPaths[tgt%len(objPaths)], map[string]string{"l": "/c"})
	case "grouplinks":
		err = fw.CreateGroupWithLinks("/bad22", map[string]string{"l": "/c"})
	case "dense_relative_target":
		err = fw.CreateDenseGroup("/bad23", map[string]string{"l": []string{"c", "g", "keep", "in"}[((tgt%4)+4)%4]})
	case "dense_empty_target":
		err = fw.CreateDenseGroup("/bad24", map[string]string{"l": ""})
	case "grouplinks_relative_target":
		links := map[string]string{}
		for k := 0; k < 10; k++ {
			links[fmt.Sprintf("l%d", k)] = "/c"
		}
		links["l3"] = []string{"c", "", "in"}[((tgt%3)+3)%3]
		err = fw.CreateGroupWithLinks("/bad25", links)
	case "write_other_float_width":
		// the right number of elements, of the other floating-point width
		if tgt%2 == 0 {
			if h, o := ds("/r"), ex.M.Resolve("/r"); h != nil && o != nil {
				return h.Write(make([]float32, hist.NumElems(o.Dims))), true
			}
		} else if h := ds("/f32"); h != nil {
			return h.Write(make([]float64, 3)), true
		}
		return nil, false
	case "write_wrong_type":
		if h := ds(tp); h != nil {
			return h.Write([]string{"x"}), true
		}
		return nil, false
	case "write_wrong_len":
		if h := ds("/c"); h != nil {
			return h.Write([]int32{1, 2, 3, 4, 5}), true
		}
		return nil, false
	case "write_wrong_len_opaque":
		if h := ds("/o"); h != nil {
			n := 12 + []int{1, 4, 8, 64, 300, -1, -4, -11}[((tgt%8)+8)%8]
			buf := make([]byte, n)
			for i := range buf {
				buf[i] = 0x11
			}
			return h.Write(buf), true
		}
		return nil, false
	case "hard_dup_to_link_object":
		// the new name exists already; the target is the object a soft / external link is stored as
		return fw.CreateHardLink(objPaths[tgt%len(objPaths)], []string{"/s", "/e"}[((tgt%2)+2)%2]), true
	case "vlen_too_many", "vlen_too_few", "vlen_wrong_type":
		vp := fmt.Sprintf("/v%d", ((tgt%7)+7)%7)
		h := ds(vp)
		if h == nil {
			return nil, false
		}
		n := 3 // the datasets hold two elements
		if tmpl == "vlen_too_few" {
			n = 1
		}
		var v any
		switch vp {
		case "/v0":
			v = make([]string, n)
		case "/v1":
			v = make([][]int32, n)
		case "/v2":
			v = make([][]int64, n)
		case "/v3":
			v = make([][]uint32, n)
		case "/v4":
			v = make([][]uint64, n)
		case "/v5":
			v = make([][]float32, n)
		default:
			v = make([][]float64, n)
		}
		if tmpl == "vlen_wrong_type" {
			v = []int32{1, 2}
		}
		return h.Write(v), true
	case "write_nil":
		if h := ds(tp); h != nil {
			return h.Write(nil), true
		}
		return nil, false
	case "writeraw_wrong_len":
		if h := ds(tp); h != nil {
			return h.WriteRaw([]byte{1, 2, 3}), true
		}
		return nil, false
	case "resize_not_chunked":
		if h := ds("/c"); h != nil {
			return h.Resize([]uint64{2}), true
		}
		return nil, false
	case "resize_not_resizable":
		if h := ds("/k"); h != nil {
			return h.Resize([]uint64{3, 2}), true
		}
		return nil, false
	case "resize_wrong_rank":
		if h := ds("/r"); h != nil {
			return h.Resize([]uint64{2, 2}), true
		}
		return nil, false
	case "resize_beyond_max":
		if h := ds("/r"); h != nil {
			return h.Resize([]uint64{9}), true
		}
		return nil, false
	case "resize_zero":
		if h := ds("/r"); h != nil {
			return h.Resize([]uint64{0}), true
		}
		return nil, false
	case "attr_nil", "attr_empty_slice", "attr_int", "attr_bool", "attr_struct", "attr_int8_slice", "attr_huge_string":
		h := ds(tp)
		if h == nil {
			return nil, false
		}
		var v any
		switch tmpl {
		case "attr_nil":
			v = nil
		case "attr_empty_slice":
			v = []float64{}
		case "attr_int":
			v = 42
		case "attr_bool":
			v = true
		case "attr_struct":
			v = struct{ A int }{1}
		case "attr_int8_slice":
			v = []int8{1, 2}
		case "attr_huge_string":
			v = strings.Repeat("H", 70000)
		}
		return h.WriteAttribute("badattr", v), true
	case "delattr_absent_second_handle":
		if h := second[tp]; h != nil {
			return h.DeleteAttribute("never_written_attribute"), true
		}
		return nil, false
	case "delattr_absent":
		if h := ds(tp); h != nil {
			return h.DeleteAttribute("never_written_attribute"), true
		}
		return nil, false
	case "group_attr_nil":
		if g := gw("/g"); g != nil {
			return g.WriteAttribute("badattr", nil), true
		}
		return nil, false
	case "group_33rd_child", "group_name_heap_full":
		return nil, false // handled by the caller (needs valid fill ops that update the model)
	default:
		return nil, false
	}
	return err, true
}

// second: a second handle per dataset, opened right after the last reopen and not used for anything that succeeds (its
// view of the object header is as old as that)
var second = map[string]*hdf5.DatasetWriter{}

func run(c Case) vt.Verdict {
	second = map[string]*hdf5.DatasetWriter{}
	file := filepath.Join(vt.GetEnv().Scratch, fmt.Sprintf("c16-%d.h5", os.Getpid()))
	defer os.Remove(file)
	ex, err := hist.NewExec(file, c.SB)
	if err != nil {
		return vt.Bad("CreateForWrite: %v", err)
	}
	defer ex.Close()
	for _, op := range setup() {
		if st := ex.Apply(op); st.Err != "" || st.Broken != "" {
			return vt.Bad("setup %s %s: %s%s", op.K, op.Path, st.Err, st.Broken)
		}
	}
	fillN := 0
	var known *vt.Verdict
	for i, op := range c.Ops {
		switch {
		case op.H != nil:
			st := ex.Apply(*op.H)
			if st.Broken != "" {
				return vt.Bad("op %d %s %s (valid op after %d earlier ops): %s", i, op.H.K, op.H.Path, i, st.Broken)
			}
			if op.H.K == "reopen" && st.Err == "" {
				second = map[string]*hdf5.DatasetWriter{}
				for _, p := range []string{"/c", "/r", "/k", "/g/in"} {
					if h, err := ex.FW.OpenDataset(p); err == nil {
						second[p] = h
					}
				}
			}
		case op.Bad == "group_33rd_child" || op.Bad == "group_name_heap_full":
			// fill /h with valid children until the library refuses; every accepted one enters the model,
			// the refused one must leave no trace.
			refused := false
			for k := 0; k < 40 && !refused; k++ {
				fillN++
				name := fmt.Sprintf("f%d", fillN)
				if op.Bad == "group_name_heap_full" {
					name = fmt.Sprintf("f%d_%s", fillN, strings.Repeat("n", 60))
				}
				st := ex.Apply(hist.Op{K: "group", Path: "/h/" + name})
				if st.Broken != "" {
					return vt.Bad("op %d fill %s: %s", i, name, st.Broken)
				}
				refused = st.Err != ""
			}
			if !refused {
				return vt.Bad("op %d: group /h accepted 40 more children although its capacity is documented as 32 entries", i)
			}
		case op.Bad != "":
			var berr error
			var applicable bool
			func() {
				defer func() {
					if p := recover(); p != nil {
						berr = fmt.Errorf("PANIC: %v", p)
						applicable = true
					}
				}()
				berr, applicable = bad(ex, op.Bad, op.Tgt)
			}()
			if !applicable {
				continue
			}
			if berr != nil && strings.HasPrefix(berr.Error(), "PANIC") {
				return vt.Bad("op %d: failing-call template %s panicked: %v", i, op.Bad, berr)
			}
			if berr == nil {
				return vt.Bad("op %d: template %s (target %d) must be rejected but returned nil", i, op.Bad, op.Tgt)
			}
		}
	}
	for k := 0; k < 3; k++ {
		if err := ex.FW.Close(); err != nil {
			return vt.Bad("Close #%d returned %v", k+1, err)
		}
	}
	if c.AfterUse {
		// calls on a closed writer must return errors, not panic
		var perr string
		for name, f := range map[string]func() error{
			"CreateDataset":  func() error { _, e := ex.FW.CreateDataset("/after", hdf5.Int32, []uint64{1}); return e },
			"CreateGroup":    func() error { _, e := ex.FW.CreateGroup("/afterg"); return e },
			"CreateHardLink": func() error { return ex.FW.CreateHardLink("/afterl", "/c") },
			"Write": func() error {
				if h := ex.DS[ex.M.Resolve("/c").ID]; h != nil {
					return h.Write([]int32{1, 2, 3, 4})
				}
				return fmt.Errorf("n/a")
			},
			"Write(vlen)": func() error {
				for i, v := range []any{[]string{"a", "b"}, [][]int32{{1}, {2}}, [][]int64{{1}, {2}}, [][]uint32{{1}, {2}}, [][]uint64{{1}, {2}}, [][]float32{{1}, {2}}, [][]float64{{1}, {2}}} {
					if o := ex.M.Resolve(fmt.Sprintf("/v%d", i)); o != nil && ex.DS[o.ID] != nil {
						if e := ex.DS[o.ID].Write(v); e == nil {
							return nil
						}
					}
				}
				return fmt.Errorf("all refused")
			},
			"WriteAttribute": func() error {
				if h := ex.DS[ex.M.Resolve("/c").ID]; h != nil {
					return h.WriteAttribute("after", int32(1))
				}
				return fmt.Errorf("n/a")
			},
		} {
			func() {
				defer func() {
					if p := recover(); p != nil {
						perr = fmt.Sprintf("%s after Close panicked: %v", name, p)
					}
				}()
				if e := f(); e == nil {
					perr = fmt.Sprintf("%s after Close returned nil", name)
				}
			}()
			if perr != "" {
				break
			}
		}
		if perr != "" {
			return vt.Bad("%s", perr)
		}
	}
	// data of a dataset resized after its last write is C13's business
	lastWrite, lastResize := map[string]int{}, map[string]int{}
	for i, st := range ex.Steps {
		if st.Err != "" {
			continue
		}
		switch st.Op.K {
		case "write":
			lastWrite[st.Op.Path] = i + 1
		case "resize":
			lastResize[st.Op.Path] = i + 1
		}
	}
	for p, r := range lastResize {
		if lastWrite[p] < r {
			ex.M.Resolve(p).Written = false
		}
	}
	f := obs.Read(file, obs.Options{})
	ps := hist.Compare(ex.M, f, hist.Opts{})
	for _, p := range ps {
		if p.Kind == "attr-value-unsigned" {
			continue
		}
		if p.Kind == "link-as-object" || p.Kind == "link-invisible" {
			continue // how the reader presents soft / external links is C03's open finding, present with or without refused calls
		}
		if (p.Kind == "child-extra" || p.Kind == "group-extra") && strings.Contains(p.String(), "bad22") {
			v := vt.KnownOr(kfGroupWithLinks, "%s", p)
			if v.Kind == vt.Violation {
				return v
			}
			known = &v
			continue
		}
		return vt.Bad("%d problem(s) after reopen, first: %s", len(ps), p)
	}
	// A rejected call must not touch the reference count of its target: objects that no successful hard link
	// points to must still carry a count of 1.
	for p, d := range f.Datasets {
		if o := ex.M.Resolve(p); o != nil && o.NLinks == 1 && d.InfoErr == "" && d.RefCount != 1 {
			return vt.Bad("dataset %s has reference count %d although no successful call linked to it (a rejected link call changed it)", p, d.RefCount)
		}
	}
	if known != nil {
		return *known
	}
	return vt.Pass()
}

func TestProp(t *testing.T) {
	vt.Run(t, prop, vt.Sub[Case]{Prop: prop, Name: "history", Gen: gen, Run: run, Classify: classify}.WithBudget(5000, 20000))
}
