// Package c02 decides property C02: attribute write/delete histories behave like a name->value map.
package c02

import (
	"fmt"
	"github.com/scigolib/hdf5"
	"os"
	"path/filepath"
	"strings"
	"sync"
	"testing"

	"github.com/scigolib/hdf5/verif/hist"
	"github.com/scigolib/hdf5/verif/obs"
	"github.com/scigolib/hdf5/verif/refimpl"
	"github.com/scigolib/hdf5/verif/vt"
	"pgregory.net/rapid"
)

const prop = "C02"
const kfCollide = "KF-C02-01"
const kfUnsigned = "KF-C02-02"

// name pool: index -> name. 0..15 ordinary, then awkward ones, last four = two lookup3-colliding pairs.
var names = sync.OnceValue(func() []string {
	// ("a " and "units ": names may end in blanks, and then differ from the names without them)
	n := []string{"a", "b", "c", "d", "e", "f", "g", "a ", "i", "j", "k", "units ", "units", "long_name", "scale", "offset",
		"abcdefghijkl", strings.Repeat("x", 24), strings.Repeat("y", 36), "ünï-名前", strings.Repeat("L", 200), "with space", "x/y", "A"}
	first := map[uint32]string{}
	pairs := 0
	for i := 0; i < 600000 && pairs < 2; i++ {
		s := fmt.Sprintf("c%x", i)
		h := refimpl.Lookup3([]byte(s), 0)
		if o, ok := first[h]; ok {
			n = append(n, o, s)
			pairs++
		} else {
			first[h] = s
		}
	}
	return n
})

const nPlain = 24

// family returns a base name of length l and its l variants, each differing from the base in exactly one byte.
func family(l int) []string {
	base := []byte("channel_measurement_scale_offset")[:l]
	out := []string{string(base)}
	for j := 0; j < l; j++ {
		v := append([]byte{}, base...)
		v[j] = "0123456789"[j%10]
		out = append(out, string(v))
	}
	return out
}

type Op struct {
	K    string        `json:"k"`               // w d reopen fit
	D    int           `json:"delta,omitempty"` // fit: string value sized so that the header message area becomes 255+D bytes
	Name int           `json:"name"`
	A    *hist.AttrVal `json:"a,omitempty"`
}

type Case struct {
	SB      int    `json:"sb"`
	Obj     string `json:"obj"`              // dataset | group
	Chunked bool   `json:"chunked"`          // dataset layout
	Others  int    `json:"others"`           // objects created after the target (target is then not the last allocation)
	Collide bool   `json:"collide"`          // name pool includes the colliding pairs
	Family  int    `json:"family,omitempty"` // L > 0: the first L+1 pool names are a base name of length L and its L one-byte variants
	Ops     []Op   `json:"ops"`
	// NoRebalance: the writer option that switches name-index rebalancing off (creation option, toggle after a reopen)
	NoRebalance bool `json:"no_rebalance,omitempty"`
	// Crowd > 0: before the history that many distinct small attributes are written to the object (a single name-index
	// leaf holds 371 records)
	Crowd int `json:"crowd,omitempty"`
}

func genVal(t *rapid.T) *hist.AttrVal {
	if rapid.IntRange(0, 39).Draw(t, "huge") == 0 {
		// larger than a dense attribute heap object can be (64 KiB): refused or stored, never at the cost of what is there
		return &hist.AttrVal{Kind: "[]f64", N: 9000, Seed: rapid.IntRange(0, 99).Draw(t, "seed")}
	}
	k := rapid.SampledFrom([]string{"i8", "i16", "i32", "i64", "u8", "u16", "u32", "u64", "f32", "f64", "str", "str", "[]i32", "[]i64", "[]f32", "[]f64",
		"i32", "f64", "str", "[]f32:named", "[]f64:named", "[]i32:named", "[]f32:elem", "[]i64:elem"}).Draw(t, "kind")
	a := &hist.AttrVal{Kind: k, Seed: rapid.IntRange(0, 1<<16).Draw(t, "seed")}
	switch {
	case k == "str":
		a.N = rapid.OneOf(rapid.IntRange(0, 12), rapid.IntRange(0, 60), rapid.IntRange(0, 300)).Draw(t, "len")
	case strings.HasPrefix(k, "[]"):
		a.N = rapid.OneOf(rapid.IntRange(1, 4), rapid.IntRange(1, 64)).Draw(t, "len")
	}
	return a
}

// longArray: a one-dimensional value of 511..513 elements (2..4 KiB). At most three per history: the dense attribute heap
// never reuses space, and a heap that outgrows its first 64 KiB block is C15's open finding.
func longArray(t *rapid.T) *hist.AttrVal {
	return &hist.AttrVal{Kind: rapid.SampledFrom([]string{"[]f64", "[]f32", "[]i32", "[]i64", "[]f64:named"}).Draw(t, "longKind"),
		N: rapid.SampledFrom([]int{511, 512, 513}).Draw(t, "longLen"), Seed: rapid.IntRange(0, 1<<16).Draw(t, "seed")}
}

func gen(t *rapid.T) Case {
	c := Case{
		SB:      rapid.SampledFrom([]int{2, 2, 0, 3}).Draw(t, "sb"),
		Obj:     rapid.SampledFrom([]string{"dataset", "dataset", "dataset", "group"}).Draw(t, "obj"),
		Chunked: rapid.Bool().Draw(t, "chunked"),
		Others:  rapid.SampledFrom([]int{0, 1, 2}).Draw(t, "others"),
		Collide: rapid.IntRange(0, 19).Draw(t, "collide") == 0,
	}
	c.NoRebalance = rapid.IntRange(0, 3).Draw(t, "noRebalance") == 0
	if rapid.IntRange(0, 119).Draw(t, "crowded") == 0 {
		c.Crowd = rapid.IntRange(366, 376).Draw(t, "crowd")
	}
	if rapid.IntRange(0, 3).Draw(t, "withFamily") == 0 {
		// names that differ from one another in exactly one byte, at every position of a name of length L: a name index that
		// ignores or confuses one byte of the name merges two of them
		c.Family = rapid.IntRange(1, nPlain-1).Draw(t, "family")
	}
	pool := nPlain
	if c.Collide {
		pool = len(names())
	}
	// working window of names: small so that overwrites, delete/re-write and dense transitions happen
	win := rapid.SampledFrom([]int{3, 6, 10, 14, pool}).Draw(t, "window")
	if win > pool {
		win = pool
	}
	nameGen := rapid.OneOf(rapid.IntRange(0, win-1), rapid.IntRange(0, win-1), rapid.IntRange(0, pool-1))
	if c.Collide {
		nameGen = rapid.OneOf(rapid.IntRange(nPlain, pool-1), rapid.IntRange(0, pool-1))
	}
	n := rapid.IntRange(1, vt.N(60, 300)).Draw(t, "nops")
	burst := rapid.IntRange(0, 3).Draw(t, "burst") == 0 // start with a burst of distinct writes to cross the dense threshold early
	longs := 0
	for i := 0; i < n; i++ {
		var op Op
		if longs < 3 && c.Crowd == 0 && c.Obj == "dataset" && rapid.IntRange(0, 24).Draw(t, "long") == 0 {
			longs++
			c.Ops = append(c.Ops, Op{K: "w", Name: nameGen.Draw(t, "name"), A: longArray(t)})
			continue
		}
		if burst && i < 10 {
			op = Op{K: "w", Name: i % pool, A: genVal(t)}
		} else {
			switch rapid.SampledFrom([]string{"w", "w", "w", "w", "d", "d", "reopen", "fit"}).Draw(t, "k") {
			case "fit":
				op = Op{K: "fit", Name: nameGen.Draw(t, "name"), D: rapid.IntRange(-4, 6).Draw(t, "delta"), A: &hist.AttrVal{Kind: "str", Seed: rapid.IntRange(0, 999).Draw(t, "fseed")}}
			case "w":
				op = Op{K: "w", Name: nameGen.Draw(t, "name"), A: genVal(t)}
			case "d":
				op = Op{K: "d", Name: nameGen.Draw(t, "name")}
			default:
				if rapid.IntRange(0, 3).Draw(t, "reopen_gate") != 0 {
					op = Op{K: "w", Name: nameGen.Draw(t, "name"), A: genVal(t)}
				} else {
					op = Op{K: "reopen"}
				}
			}
		}
		if c.Obj == "group" && op.K != "w" {
			op.D = 0
			op = Op{K: "w", Name: nameGen.Draw(t, "name"), A: genVal(t)} // groups: no delete API, no handle after reopen
		}
		c.Ops = append(c.Ops, op)
	}
	return c
}

func classify(c Case) (bool, []string) {
	live := map[int]int{} // name -> size class of last write
	deleted := map[int]bool{}
	maxLive, sizeChanging, rewrites, reopens, dels := 0, 0, 0, 0, 0
	for _, op := range c.Ops {
		switch op.K {
		case "fit":
			live[op.Name] = -1
		case "w":
			sz := op.A.N*100 + len(op.A.Kind)
			if old, ok := live[op.Name]; ok && old != sz {
				sizeChanging++
			}
			if deleted[op.Name] {
				rewrites++
				delete(deleted, op.Name)
			}
			live[op.Name] = sz
		case "d":
			if _, ok := live[op.Name]; ok {
				delete(live, op.Name)
				deleted[op.Name] = true
				dels++
			}
		case "reopen":
			reopens++
		}
		if len(live) > maxLive {
			maxLive = len(live)
		}
	}
	labels := []string{"obj=" + c.Obj, fmt.Sprintf("sb=%d", c.SB)}
	if maxLive > 8 {
		labels = append(labels, "crossed_dense_threshold")
	}
	if sizeChanging > 0 {
		labels = append(labels, "size_changing_overwrite")
	}
	if rewrites > 0 {
		labels = append(labels, "delete_then_rewrite")
	}
	if reopens > 0 {
		labels = append(labels, "has_reopen")
	}
	if dels > 0 {
		labels = append(labels, "has_delete")
	}
	if c.Others > 0 {
		labels = append(labels, "not_last_allocation")
	}
	if c.Collide {
		labels = append(labels, "colliding_pool")
	}
	if c.Family > 0 {
		labels = append(labels, "one_byte_variant_names")
	}
	if c.NoRebalance {
		labels = append(labels, "rebalancing_off")
		if dels > 0 && maxLive > 8 {
			labels = append(labels, "rebalancing_off_dense_delete")
		}
	}
	if c.Crowd > 0 {
		labels = append(labels, "crowded_object")
		if c.Crowd > 371 {
			labels = append(labels, "more_names_than_one_index_leaf_holds")
		}
	}
	return maxLive > 8 || sizeChanging > 0 || rewrites > 0 || reopens > 0 || c.Crowd > 0, labels
}

func run(c Case) vt.Verdict {
	pool := names()
	if c.Family > 0 {
		pool = append(family(c.Family), pool[c.Family+1:]...)
	}
	file := filepath.Join(vt.GetEnv().Scratch, fmt.Sprintf("c02-%d.h5", os.Getpid()))
	defer os.Remove(file)
	var wopts []interface{}
	if c.NoRebalance {
		wopts = append(wopts, hdf5.WithBTreeRebalancing(false))
	}
	ex, err := hist.NewExec(file, c.SB, wopts...)
	if err != nil {
		return vt.Bad("CreateForWrite: %v", err)
	}
	ex.NoRebalance = c.NoRebalance
	defer ex.Close()
	target := "/t"
	setup := []hist.Op{}
	if c.Obj == "group" {
		setup = append(setup, hist.Op{K: "group", Path: target})
	} else {
		d := &hist.DSpec{Type: "f64", Dims: []uint64{4}}
		if c.Chunked {
			d.Chunk = []uint64{2}
		}
		setup = append(setup, hist.Op{K: "dataset", Path: target, D: d}, hist.Op{K: "write", Path: target, Seed: 1, Mode: hist.ModeSeq})
	}
	for i := 0; i < c.Others; i++ {
		p := fmt.Sprintf("/o%d", i)
		setup = append(setup, hist.Op{K: "dataset", Path: p, D: &hist.DSpec{Type: "i32", Dims: []uint64{5}}}, hist.Op{K: "write", Path: p, Seed: i, Mode: hist.ModeSeq})
	}
	for _, op := range setup {
		if st := ex.Apply(op); st.Broken != "" || st.Err != "" {
			return vt.Bad("setup %s %s: %s%s", op.K, op.Path, st.Err, st.Broken)
		}
	}
	// has the history put two names with equal hashes into the object at the same time?
	collision := false
	liveHash := map[uint32]int{}
	ok := 0
	if c.Crowd > 400 {
		return vt.Skipped("crowd out of range")
	}
	for i := 0; i < c.Crowd; i++ {
		name := fmt.Sprintf("n%03d", i)
		st := ex.Apply(hist.Op{K: "attr", Path: target, Name: name, A: &hist.AttrVal{Kind: "i32", Seed: i}})
		if st.Broken != "" {
			return vt.Bad("crowd write %d %q: %s", i, name, st.Broken)
		}
		if st.Err == "" {
			liveHash[refimpl.Lookup3([]byte(name), 0)]++
		}
	}
	for i, op := range c.Ops {
		if op.Name < 0 || op.Name >= len(pool) {
			return vt.Skipped("name index out of range")
		}
		var st hist.Step
		switch op.K {
		case "w":
			if op.A == nil {
				return vt.Skipped("write without value")
			}
			_, had := ex.M.Resolve(target).Attrs[pool[op.Name]]
			st = ex.Apply(hist.Op{K: "attr", Path: target, Name: pool[op.Name], A: op.A})
			if st.Err == "" && !had {
				h := refimpl.Lookup3([]byte(pool[op.Name]), 0)
				if liveHash[h] > 0 {
					collision = true
				}
				liveHash[h]++
			}
		case "fit":
			_, had := ex.M.Resolve(target).Attrs[pool[op.Name]]
			seed := 0
			if op.A != nil {
				seed = op.A.Seed
			}
			st = ex.Apply(hist.Op{K: "attrfit", Path: target, Name: pool[op.Name], Delta: op.D, Seed: seed})
			if strings.HasPrefix(st.Err, "skipped") {
				continue
			}
			if st.Err == "" && !had {
				h := refimpl.Lookup3([]byte(pool[op.Name]), 0)
				if liveHash[h] > 0 {
					collision = true
				}
				liveHash[h]++
			}
		case "d":
			_, had := ex.M.Resolve(target).Attrs[pool[op.Name]]
			st = ex.Apply(hist.Op{K: "delattr", Path: target, Name: pool[op.Name]})
			if st.Err == "" && had {
				liveHash[refimpl.Lookup3([]byte(pool[op.Name]), 0)]--
			}
			if st.Err == "" && !had && c.Collide {
				collision = true // a delete of an absent name that "succeeds" can only have hit its hash twin
			}
		case "reopen":
			if c.Obj == "group" {
				continue
			}
			st = ex.Apply(hist.Op{K: "reopen"})
		default:
			return vt.Skipped("unknown op")
		}
		if st.Broken != "" {
			if collision {
				return vt.KnownOr(kfCollide, "op %d: %s", i, st.Broken)
			}
			return vt.Bad("op %d %s %q: %s", i, op.K, pool[op.Name], st.Broken)
		}
		if strings.HasPrefix(st.Err, "open: ") {
			return vt.Bad("op %d: dataset written by the library cannot be reopened for writing: %s", i, st.Err)
		}
		if st.Err == "" {
			ok++
		}
	}
	if err := ex.Close(); err != nil {
		return vt.Bad("Close: %v", err)
	}
	f := obs.Read(file, obs.Options{})
	ps := hist.Compare(ex.M, f, hist.Opts{})
	var unsignedOnly []hist.Problem
	for _, p := range ps {
		if p.Kind == "attr-value-unsigned" {
			unsignedOnly = append(unsignedOnly, p)
			continue
		}
		if collision {
			return vt.KnownOr(kfCollide, "%s", p)
		}
		return vt.Bad("%d problem(s) after reopen, first: %s (%d/%d ops succeeded)", len(ps), p, ok, len(c.Ops))
	}
	if len(unsignedOnly) > 0 {
		return vt.KnownOr(kfUnsigned, "%s", unsignedOnly[0])
	}
	return vt.Pass()
}

func TestProp(t *testing.T) {
	if len(names()) != nPlain+4 {
		t.Fatalf("could not construct colliding name pairs")
	}
	vt.Run(t, prop, vt.Sub[Case]{Prop: prop, Name: "history", Gen: gen, Run: run, Classify: classify}.WithBudget(3000, 8000))
}
