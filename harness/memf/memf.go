// Package memf is an in-memory file implementing the reader/writer/allocator interfaces the
// library's internal packages accept, with optional fault injection by call index.
package memf

import (
	"errors"
	"io"
)

type File struct {
	Data []byte
	EOF  uint64 // allocation frontier

	// fault injection: the k-th (1-based) call of the given kind fails; 0 = never
	FailRead, FailWrite, FailAlloc int
	ShortRead                      int // k-th read returns half the bytes + ShortErr
	ShortErr                       error
	Reads, Writes, Allocs          int
}

var ErrInjected = errors.New("injected I/O failure")

func New(start uint64) *File { return &File{EOF: start} }

func (f *File) ReadAt(p []byte, off int64) (int, error) {
	f.Reads++
	if f.FailRead != 0 && f.Reads == f.FailRead {
		return 0, ErrInjected
	}
	if off < 0 {
		return 0, errors.New("negative offset")
	}
	if off >= int64(len(f.Data)) {
		return 0, io.EOF
	}
	n := copy(p, f.Data[off:])
	if f.ShortRead != 0 && f.Reads == f.ShortRead && n > 0 {
		n /= 2
		e := f.ShortErr
		if e == nil {
			e = io.ErrUnexpectedEOF
		}
		return n, e
	}
	if n < len(p) {
		return n, io.EOF
	}
	return n, nil
}

func (f *File) WriteAtAddress(data []byte, addr uint64) error {
	f.Writes++
	if f.FailWrite != 0 && f.Writes == f.FailWrite {
		return ErrInjected
	}
	end := addr + uint64(len(data))
	if end > uint64(len(f.Data)) {
		nd := make([]byte, end)
		copy(nd, f.Data)
		f.Data = nd
	}
	copy(f.Data[addr:], data)
	return nil
}

func (f *File) WriteAt(p []byte, off int64) (int, error) {
	if err := f.WriteAtAddress(p, uint64(off)); err != nil {
		return 0, err
	}
	return len(p), nil
}

func (f *File) Allocate(size uint64) (uint64, error) {
	f.Allocs++
	if f.FailAlloc != 0 && f.Allocs == f.FailAlloc {
		return 0, ErrInjected
	}
	a := f.EOF
	f.EOF += size
	return a, nil
}

func (f *File) EndOfFile() uint64 { return f.EOF }
func (f *File) Size() int64       { return int64(len(f.Data)) }
