// Package c12 decides property C12: variable-length data round-trips through the global heap.
package c12

import (
	"bytes"
	"encoding/binary"
	"fmt"
	"github.com/scigolib/hdf5/verif/hist"
	"math"
	"os"
	"path/filepath"
	"testing"

	hdf5 "github.com/scigolib/hdf5"
	"github.com/scigolib/hdf5/internal/core"
	"github.com/scigolib/hdf5/verif/indep"
	"github.com/scigolib/hdf5/verif/vt"
	"pgregory.net/rapid"
)

const prop = "C12"
const kfDevPrefix = "KF-C05-dev-" // spec deviations are C05's findings; C12 only requires that nothing else is wrong

type Case struct {
	SB    int      `json:"sb"`
	Type  string   `json:"type"` // str i32 i64 u32 u64 f32 f64
	Dims  []uint64 `json:"dims"`
	Chunk []uint64 `json:"chunk,omitempty"`
	Lens  []int    `json:"lens"` // element lengths (bytes for str, items for sequences); cycled over the elements
	Seed  int      `json:"seed"`
	Extra bool     `json:"extra"` // a second vlen dataset shares the file (collections interleave)
	After bool     `json:"after"` // a plain dataset is created and written after the vlen writes (heap collections must not reach into it)
	// Grow != 0 (one-dimensional chunked datasets): /v is created resizable, and after the first write resized to its length
	// + Grow and written again with a list of the new length
	Grow int `json:"grow,omitempty"`
}

var elemSize = map[string]int{"str": 1, "i32": 4, "i64": 8, "u32": 4, "u64": 8, "f32": 4, "f64": 8}
var dtypes = map[string]hdf5.Datatype{"str": hdf5.VLenString, "i32": hdf5.VLenInt32, "i64": hdf5.VLenInt64, "u32": hdf5.VLenUint32, "u64": hdf5.VLenUint64,
	"f32": hdf5.VLenFloat32, "f64": hdf5.VLenFloat64}

func gen(t *rapid.T) Case {
	c := Case{SB: rapid.SampledFrom([]int{2, 2, 0, 3}).Draw(t, "sb"), Type: rapid.SampledFrom([]string{"str", "str", "i32", "i64", "u32", "u64", "f32", "f64"}).Draw(t, "type"),
		Seed: rapid.IntRange(0, 1<<20).Draw(t, "seed"), Extra: rapid.IntRange(0, 3).Draw(t, "extra") == 0, After: rapid.Bool().Draw(t, "after")}
	maxN := vt.N(200, 10000)
	n := rapid.OneOf(rapid.IntRange(1, 12), rapid.IntRange(1, 200), rapid.IntRange(1, maxN)).Draw(t, "n")
	if rapid.IntRange(0, 3).Draw(t, "rank2") == 0 && n >= 2 {
		a := rapid.IntRange(1, 8).Draw(t, "rows")
		c.Dims = []uint64{uint64(a), uint64((n + a - 1) / a)}
	} else {
		c.Dims = []uint64{uint64(n)}
	}
	if rapid.Bool().Draw(t, "chunked") {
		for _, e := range c.Dims {
			c.Chunk = append(c.Chunk, uint64(rapid.IntRange(1, int(e)).Draw(t, "chunk")))
		}
	}
	if c.Chunk != nil && len(c.Dims) == 1 && rapid.IntRange(0, 2).Draw(t, "resized") == 0 {
		c.Grow = rapid.SampledFrom([]int{1, 2, 5, 40, -1, -3}).Draw(t, "grow")
		if int(c.Dims[0])+c.Grow < 1 {
			c.Grow = 1
		}
	}
	es := elemSize[c.Type]
	special := []int{0, 1, 7, 8, 9, 15, 16, 17}
	big := []int{4063, 4064, 4065, 4072, 4079, 4080, 4081, 8192, 65537, 70001}
	k := rapid.IntRange(1, 8).Draw(t, "nlens")
	for i := 0; i < k; i++ {
		l := rapid.OneOf(rapid.SampledFrom(special), rapid.IntRange(0, 64), rapid.IntRange(0, 600), rapid.SampledFrom(big)).Draw(t, "len")
		c.Lens = append(c.Lens, l/es)
	}
	if rapid.IntRange(0, 99).Draw(t, "slack") == 0 {
		// an element that leaves a freshly enlarged collection almost empty, followed by more empty elements than a
		// minimum-size collection could ever hold
		first := rapid.SampledFrom([]int{4057, 4064, 4072, 4080, 8152, 8160, 12248}).Draw(t, "slackFirst") / es
		n := rapid.IntRange(257, 300).Draw(t, "slackN")
		c.Dims, c.Chunk, c.Grow = []uint64{uint64(n)}, nil, 0
		c.Lens = append([]int{first}, make([]int, n-1)...)
		if rapid.Bool().Draw(t, "slackLead") {
			c.Lens = append([]int{3, 1}, c.Lens[:n-2]...) // not the first object of the file's first collection
		}
	}
	if rapid.IntRange(0, 199).Draw(t, "manyObjects") == 0 {
		// more heap objects in one session than a 16-bit object index can number within one collection sequence
		c.Dims, c.Chunk = []uint64{uint64(rapid.IntRange(65530, 70000).Draw(t, "manyN"))}, nil
		c.Lens = []int{1, 2, 0, 3}
		c.Extra = false
	}
	if rapid.IntRange(0, 149).Draw(t, "giant") == 0 {
		// one element beyond 16 MiB among a few small ones (an element may be as large as the format's length field allows)
		c.Dims, c.Chunk = []uint64{uint64(rapid.IntRange(1, 3).Draw(t, "giantN"))}, nil
		c.Lens = append(c.Lens[:1], (16<<20+rapid.SampledFrom([]int{8, 16, 4096, 1 << 20}).Draw(t, "giantExtra"))/es)
	}
	return c
}

func total(c Case) int {
	n := 1
	for _, d := range c.Dims {
		n *= int(d)
	}
	return n
}

func classify(c Case) (bool, []string) {
	n := total(c)
	vol := 0
	empty, huge := false, false
	es := elemSize[c.Type]
	for i := 0; i < n; i++ {
		l := c.Lens[i%len(c.Lens)] * es
		vol += l + 16
		if l == 0 {
			empty = true
		}
		if l > 4096-48 {
			huge = true
		}
	}
	labels := []string{"type=" + c.Type, fmt.Sprintf("sb=%d", c.SB)}
	if c.Chunk != nil {
		labels = append(labels, "chunked")
	}
	if vol > 4096 {
		labels = append(labels, ">=2_collections")
	}
	if huge {
		labels = append(labels, "element>collection")
	}
	if empty {
		labels = append(labels, "empty_element")
	}
	if n > 1000 {
		labels = append(labels, "n>1000")
	}
	if n > 65535 {
		labels = append(labels, "n>65535")
	}
	if c.Grow != 0 {
		labels = append(labels, "resized_and_rewritten")
	}
	return vol > 4096 || huge || empty, labels
}

// specialWords: 64-bit patterns; the high half doubles as the 32-bit pattern.
var specialWords = []uint64{0x8000000000000000, 0, 0x7FF0000000000000, 0xFFF0000000000000, 0x7FF8000000000001, 0x0000000000000001, 0xFFFFFFFFFFFFFFFF,
	0x7F80000000000000, 0xFF80000000000000, 0x7FC0000100000000, 0x0000000100000000, 0x8000000080000000, 0x8000000000000001}

func mix(seed, i int) uint64 {
	x := uint64(seed)*0x9E3779B97F4A7C15 + uint64(i)*0xBF58476D1CE4E5B9 + 1
	x ^= x >> 31
	x *= 0x94D049BB133111EB
	x ^= x >> 29
	return x
}

// values builds the Go value for Write and the expected bytes per element.
func values(c Case, salt int) (any, [][]byte) {
	n := total(c)
	want := make([][]byte, n)
	es := elemSize[c.Type]
	for i := range want {
		l := c.Lens[i%len(c.Lens)] * es
		b := make([]byte, l)
		for j := range b {
			b[j] = byte(mix(c.Seed+salt, i*131+j) >> 9) // arbitrary bytes incl. NUL and non-UTF-8 / multi-byte sequences
		}
		if es > 1 && l <= 1<<20 {
			// numeric sequences: every eighth item is one of the values with a representation of its own (signed zero, infinities,
			// NaNs with payload, smallest/largest magnitudes, all ones)
			for j := 0; j+es <= l; j += es {
				if r := mix(c.Seed+salt, i*977+j+13); r%8 == 0 {
					w := specialWords[(r>>8)%uint64(len(specialWords))]
					if es == 4 {
						binary.LittleEndian.PutUint32(b[j:], uint32(w>>32))
					} else {
						binary.LittleEndian.PutUint64(b[j:], w)
					}
				}
			}
		}
		want[i] = b
	}
	switch c.Type {
	case "str":
		v := make([]string, n)
		for i := range v {
			v[i] = string(want[i])
		}
		return v, want
	case "i32":
		v := make([][]int32, n)
		for i := range v {
			v[i] = make([]int32, len(want[i])/4)
			for j := range v[i] {
				v[i][j] = int32(binary.LittleEndian.Uint32(want[i][j*4:]))
			}
		}
		return v, want
	case "u32":
		v := make([][]uint32, n)
		for i := range v {
			v[i] = make([]uint32, len(want[i])/4)
			for j := range v[i] {
				v[i][j] = binary.LittleEndian.Uint32(want[i][j*4:])
			}
		}
		return v, want
	case "i64":
		v := make([][]int64, n)
		for i := range v {
			v[i] = make([]int64, len(want[i])/8)
			for j := range v[i] {
				v[i][j] = int64(binary.LittleEndian.Uint64(want[i][j*8:]))
			}
		}
		return v, want
	case "u64":
		v := make([][]uint64, n)
		for i := range v {
			v[i] = make([]uint64, len(want[i])/8)
			for j := range v[i] {
				v[i][j] = binary.LittleEndian.Uint64(want[i][j*8:])
			}
		}
		return v, want
	case "f32":
		v := make([][]float32, n)
		for i := range v {
			v[i] = make([]float32, len(want[i])/4)
			for j := range v[i] {
				v[i][j] = math.Float32frombits(binary.LittleEndian.Uint32(want[i][j*4:]))
			}
		}
		return v, want
	default:
		v := make([][]float64, n)
		for i := range v {
			v[i] = make([]float64, len(want[i])/8)
			for j := range v[i] {
				v[i][j] = math.Float64frombits(binary.LittleEndian.Uint64(want[i][j*8:]))
			}
		}
		return v, want
	}
}

func run(c Case) vt.Verdict {
	if _, ok := dtypes[c.Type]; !ok || len(c.Lens) == 0 || len(c.Dims) == 0 {
		return vt.Skipped("bad case")
	}
	file := filepath.Join(vt.GetEnv().Scratch, fmt.Sprintf("c12-%d.h5", os.Getpid()))
	defer os.Remove(file)
	fw, err := hdf5.CreateForWrite(file, hdf5.CreateTruncate, hdf5.WithSuperblockVersion(uint8(c.SB)))
	if err != nil {
		return vt.Bad("CreateForWrite: %v", err)
	}
	closed := false
	defer func() {
		if !closed {
			_ = fw.Close()
		}
	}()
	var opts []hdf5.DatasetOption
	if c.Chunk != nil {
		opts = append(opts, hdf5.WithChunkDims(c.Chunk))
	}
	type dsInfo struct {
		path string
		want [][]byte
	}
	var all []dsInfo
	paths := []string{"/v"}
	if c.Extra {
		paths = append(paths, "/w")
	}
	var handles []*hdf5.DatasetWriter
	for k, p := range paths {
		opts := opts
		if k == 0 && c.Grow != 0 && c.Chunk != nil && len(c.Dims) == 1 {
			opts = append(append([]hdf5.DatasetOption{}, opts...), hdf5.WithMaxDims([]uint64{hdf5.Unlimited}))
		}
		ds, err := fw.CreateDataset(p, dtypes[c.Type], c.Dims, opts...)
		if err != nil {
			return vt.Bad("CreateDataset(%s, vlen %s, dims %v, chunk %v): %v", p, c.Type, c.Dims, c.Chunk, err)
		}
		handles = append(handles, ds)
	}
	for i, p := range paths {
		v, want := values(c, i*7919)
		if err := handles[i].Write(v); err != nil {
			return vt.Bad("Write of %d vlen %s elements to %s: %v", len(want), c.Type, p, err)
		}
		hist.Scribble(v) // the caller refills its buffers for the next dataset; "want" holds separate copies
		all = append(all, dsInfo{p, want})
	}
	var grown []uint64
	if c.Grow != 0 && c.Chunk != nil && len(c.Dims) == 1 && int(c.Dims[0])+c.Grow >= 1 {
		c2 := c
		c2.Dims = []uint64{uint64(int(c.Dims[0]) + c.Grow)}
		if err := handles[0].Resize(append([]uint64{}, c2.Dims...)); err != nil {
			return vt.Bad("Resize of the resizable vlen dataset /v from %v to %v: %v", c.Dims, c2.Dims, err)
		}
		v, want := values(c2, 104729)
		if err := handles[0].Write(v); err != nil {
			return vt.Bad("Write of %d vlen %s elements to /v after Resize %v -> %v: %v", len(want), c.Type, c.Dims, c2.Dims, err)
		}
		hist.Scribble(v)
		all[0].want = want
		grown = c2.Dims
	}
	var afterWant []float64
	_ = grown
	if c.After {
		// an ordinary dataset allocated and written after the heap collections were sized
		zn := 600
		z, err := fw.CreateDataset("/z", hdf5.Float64, []uint64{uint64(zn)})
		if err != nil {
			return vt.Bad("CreateDataset(/z) after the vlen writes: %v", err)
		}
		afterWant = make([]float64, zn)
		for i := range afterWant {
			afterWant[i] = float64(1000 + i)
		}
		if err := z.Write(afterWant); err != nil {
			return vt.Bad("Write(/z): %v", err)
		}
	}
	if err := fw.Close(); err != nil {
		return vt.Bad("Close: %v", err)
	}
	closed = true

	data, err := os.ReadFile(file)
	if err != nil {
		return vt.Bad("read back: %v", err)
	}
	// (1) independent decoder: datatype, shape, references, heap collections
	f, derr := indep.Decode(data, indep.TolerateAll())
	if derr != nil && !indep.IsUnsupported(derr) {
		return vt.Bad("independent decoder: %v", derr)
	}
	if ex := f.CheckExtents(uint64(len(data))); len(ex) > 0 {
		return vt.Bad("structure placement: %s", ex[0])
	}
	for d := range f.Deviations {
		if !vt.IsOpen(kfDevPrefix + d) {
			return vt.Bad("the file needs spec deviation %q that is not a listed finding", d)
		}
	}
	// (2) the library's own reader
	hf, err := hdf5.Open(file)
	if err != nil {
		return vt.Bad("Open: %v", err)
	}
	defer hf.Close()
	found := map[string]*hdf5.Dataset{}
	hf.Walk(func(p string, o hdf5.Object) {
		if d, ok := o.(*hdf5.Dataset); ok {
			found[p] = d
		}
	})
	for _, di := range all {
		o := f.Lookup(di.path)
		if o == nil || o.Kind != "dataset" {
			return vt.Bad("%s: not found as a dataset by the independent decoder", di.path)
		}
		t := o.Type
		if t == nil || t.Class != 9 {
			return vt.Bad("%s: stored datatype %+v is not variable-length (class 9)", di.path, t)
		}
		if c.Type == "str" {
			if !t.VLenIsString {
				return vt.Bad("%s: stored as a vlen sequence, written as vlen string", di.path)
			}
		} else {
			wantClass := 0
			if c.Type[0] == 'f' {
				wantClass = 1
			}
			if t.VLenIsString || t.Base == nil || t.Base.Class != wantClass || int(t.Base.Size) != elemSize[c.Type] ||
				(wantClass == 0 && t.Base.Signed != (c.Type[0] == 'i')) {
				return vt.Bad("%s: stored vlen base type %+v, written vlen of %s", di.path, t.Base, c.Type)
			}
		}
		wantDims := c.Dims
		if di.path == "/v" && grown != nil {
			wantDims = grown
		}
		if fmt.Sprint(o.Dims) != fmt.Sprint(wantDims) {
			return vt.Bad("%s: stored dims %v, created/resized to %v", di.path, o.Dims, wantDims)
		}
		if o.RawErr != "" {
			return vt.Bad("%s: element references cannot be assembled: %s", di.path, o.RawErr)
		}
		n := len(di.want)
		if len(o.Raw) != n*16 {
			return vt.Bad("%s: %d bytes of element references, want %d x 16", di.path, len(o.Raw), n)
		}
		d := found[di.path]
		if d == nil {
			return vt.Bad("%s: dataset missing through the public API", di.path)
		}
		hdr, err := core.ReadObjectHeader(hf.Reader(), d.Address(), hf.Superblock())
		if err != nil {
			return vt.Bad("%s: ReadObjectHeader: %v", di.path, err)
		}
		info, err := core.ReadDatasetInfo(hdr, hf.Superblock())
		if err != nil {
			return vt.Bad("%s: ReadDatasetInfo: %v", di.path, err)
		}
		if info.Datatype.Class != core.DatatypeVarLen {
			return vt.Bad("%s: the library reports datatype class %d after reopen, written as variable-length", di.path, info.Datatype.Class)
		}
		if c.Type == "str" && !info.Datatype.IsVariableString() {
			// see KF-C11-05: the writer puts the vlen type bits into the properties, the reader looks at the class bits
			if !vt.IsOpen("KF-C11-05") {
				return vt.Bad("%s: the library does not recognise its own vlen string datatype as a variable-length string", di.path)
			}
			vt.Recorder(prop).KnownHit("KF-C11-05", "vlen string datatype not recognised as string by the library's reader (class bits vs properties)", nil)
		}
		cache := map[uint64]*core.GlobalHeapCollection{}
		var kept [][]byte
		for i := 0; i < n; i++ {
			el := o.Raw[i*16 : (i+1)*16]
			// independent resolution
			got, err := f.ResolveVLen(el)
			if err != nil {
				return vt.Bad("%s element %d (%d bytes written): reference %x does not resolve (independent decoder): %v", di.path, i, len(di.want[i]), el, err)
			}
			if !bytes.Equal(got, di.want[i]) {
				return vt.Bad("%s element %d: heap object holds %d bytes, written %d (first diff %d) [independent decoder]", di.path, i, len(got), len(di.want[i]), firstDiff(got, di.want[i]))
			}
			// library resolution
			ref, err := core.ParseGlobalHeapReference(el, 8)
			if err != nil {
				return vt.Bad("%s element %d: ParseGlobalHeapReference: %v", di.path, i, err)
			}
			col := cache[ref.HeapAddress]
			if col == nil {
				col, err = core.ReadGlobalHeapCollection(hf.Reader(), ref.HeapAddress, 8)
				if err != nil {
					return vt.Bad("%s element %d: ReadGlobalHeapCollection(%#x): %v", di.path, i, ref.HeapAddress, err)
				}
				cache[ref.HeapAddress] = col
			}
			obj, err := col.GetObject(ref.ObjectIndex)
			if err != nil {
				return vt.Bad("%s element %d: GetObject(%d) in collection %#x: %v", di.path, i, ref.ObjectIndex, ref.HeapAddress, err)
			}
			if !bytes.Equal(obj.Data, di.want[i]) {
				return vt.Bad("%s element %d: the library's heap reader returns %d bytes, written %d (first diff %d)", di.path, i, len(obj.Data), len(di.want[i]), firstDiff(obj.Data, di.want[i]))
			}
			kept = append(kept, obj.Data)
		}
		// the same parsed collections asked again, last element first: what an object index resolves to does not depend on
		// which objects were asked for before
		for i := n - 1; i >= 0 && i >= n-400; i-- {
			ref, err := core.ParseGlobalHeapReference(o.Raw[i*16:(i+1)*16], 8)
			if err != nil {
				continue
			}
			col := cache[ref.HeapAddress]
			if col == nil {
				continue
			}
			obj, err := col.GetObject(ref.ObjectIndex)
			if err != nil {
				return vt.Bad("%s element %d, asked again in reverse order: GetObject(%d) in collection %#x: %v", di.path, i, ref.ObjectIndex, ref.HeapAddress, err)
			}
			if !bytes.Equal(obj.Data, di.want[i]) {
				return vt.Bad("%s element %d, asked again in reverse order: %d bytes, written %d (first diff %d)", di.path, i, len(obj.Data), len(di.want[i]), firstDiff(obj.Data, di.want[i]))
			}
		}
		// a caller collects the elements first and uses them afterwards: reading further collections (also uncached, a second
		// time) must leave the bytes already handed out alone
		for a := range cache {
			if _, err := core.ReadGlobalHeapCollection(hf.Reader(), a, 8); err != nil {
				return vt.Bad("%s: second ReadGlobalHeapCollection(%#x): %v", di.path, a, err)
			}
		}
		for i := range kept {
			if !bytes.Equal(kept[i], di.want[i]) {
				return vt.Bad("%s element %d: the bytes handed out by the library's heap reader changed after other collections were read (first diff %d)", di.path, i, firstDiff(kept[i], di.want[i]))
			}
		}
		// ReadStrings: the values or an error
		if ss, err := d.ReadStrings(); err == nil {
			if c.Type != "str" {
				return vt.Bad("%s: ReadStrings returned %d values for a vlen %s dataset", di.path, len(ss), c.Type)
			}
			if len(ss) != n {
				return vt.Bad("%s: ReadStrings returned %d strings, written %d", di.path, len(ss), n)
			}
			for i := range ss {
				if ss[i] != string(di.want[i]) {
					return vt.Bad("%s: ReadStrings()[%d] = %q, written %q", di.path, i, clip(ss[i]), clip(string(di.want[i])))
				}
			}
		}
		if vals, err := d.Read(); err == nil {
			return vt.Bad("%s: Read() returned %d float64 values for variable-length data", di.path, len(vals))
		}
	}
	if c.After {
		d := found["/z"]
		if d == nil {
			return vt.Bad("/z (created after the vlen data) missing after reopen")
		}
		got, err := d.Read()
		if err != nil {
			return vt.Bad("/z (created after the vlen data): Read: %v", err)
		}
		for i := range afterWant {
			if i >= len(got) || got[i] != afterWant[i] {
				return vt.Bad("/z (created after the vlen data) element %d reads %v, written %v: a heap collection overwrote it", i, got[i], afterWant[i])
			}
		}
	}
	// (3) every collection well-formed (sizes, alignment, indices) - checked by the decoder while it walked them;
	// additionally: collections are 8-byte aligned in size and lie inside the file
	for a, g := range f.GlobalHeaps {
		if g.Size%8 != 0 || a+g.Size > uint64(len(data)) {
			return vt.Bad("global heap collection at %#x: size %d not a multiple of 8 or beyond the file (%d bytes)", a, g.Size, len(data))
		}
	}
	return vt.Pass()
}

func clip(s string) string {
	if len(s) > 60 {
		return s[:60] + "…"
	}
	return s
}

func firstDiff(a, b []byte) int {
	n := len(a)
	if len(b) < n {
		n = len(b)
	}
	for i := 0; i < n; i++ {
		if a[i] != b[i] {
			return i
		}
	}
	return n
}

func TestProp(t *testing.T) {
	vt.Run(t, prop, vt.Sub[Case]{Prop: prop, Name: "vlen", Gen: gen, Run: run, Classify: classify}.WithBudget(2000, 8000))
}
