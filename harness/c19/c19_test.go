// Package c19 decides property C19: rebalancing options never change content; the mode selector obeys its constraints.
package c19

import (
	"context"
	"fmt"
	"math"
	"os"
	"path/filepath"
	"strings"
	"testing"
	"time"

	hdf5 "github.com/scigolib/hdf5"
	"github.com/scigolib/hdf5/internal/rebalancing"
	"github.com/scigolib/hdf5/internal/structures"
	"github.com/scigolib/hdf5/verif/hist"
	"github.com/scigolib/hdf5/verif/obs"
	"github.com/scigolib/hdf5/verif/vt"
	"pgregory.net/rapid"
)

const prop = "C19"

// ---- (a) configurations x attribute histories ------------------------------------------------------------------

type Cfg struct {
	Kind       string  `json:"kind"` // none off lazy incremental smart lazy+incremental
	Threshold  float64 `json:"threshold,omitempty"`
	DelayUS    int     `json:"delay_us,omitempty"`
	Batch      int     `json:"batch,omitempty"`
	BudgetUS   int     `json:"budget_us,omitempty"`
	IntervalUS int     `json:"interval_us,omitempty"`
}

type AOp struct {
	K    string        `json:"k"` // w d toggle
	Obj  int           `json:"obj"`
	Name int           `json:"name"`
	A    *hist.AttrVal `json:"a,omitempty"`
	T    string        `json:"t,omitempty"` // toggle kind
}

type CaseA struct {
	SB  int   `json:"sb"`
	Cfg Cfg   `json:"cfg"`
	Ops []AOp `json:"ops"`
}

var attrNames = []string{"a", "b", "c", "d", "e", "f", "g", "h", "i", "j", "k", "l", "units", "twelve_chars", "m", "n"}
var toggles = []string{"disable", "enable", "lazy_on", "lazy_off", "force", "inc_on", "inc_off", "rebalance_all", "rebalance_attr"}

func genA(t *rapid.T) CaseA {
	c := CaseA{SB: rapid.SampledFrom([]int{2, 2, 0, 3}).Draw(t, "sb")}
	c.Cfg.Kind = rapid.SampledFrom([]string{"off", "lazy", "lazy", "incremental", "smart", "lazy+incremental", "none"}).Draw(t, "cfg")
	c.Cfg.Threshold = rapid.SampledFrom([]float64{0.05, 0, -1, 0.01, 0.2, 0.9, 5}).Draw(t, "threshold")
	c.Cfg.DelayUS = rapid.SampledFrom([]int{0, 1, 1000, 300000000, -5}).Draw(t, "delay")
	c.Cfg.Batch = rapid.SampledFrom([]int{0, 1, 100, -3, 100000}).Draw(t, "batch")
	c.Cfg.BudgetUS = rapid.SampledFrom([]int{0, 1, 50, 100000}).Draw(t, "budget")
	c.Cfg.IntervalUS = rapid.SampledFrom([]int{1, 10, 1000, 0}).Draw(t, "interval")
	n := rapid.IntRange(5, vt.N(60, 200)).Draw(t, "nops")
	win := rapid.SampledFrom([]int{4, 10, 16}).Draw(t, "window")
	early := 12
	if rapid.IntRange(0, 7).Draw(t, "many") == 0 {
		// more than half a name-index leaf (372 records of 11 bytes in a 4096-byte node) on one object: deletes then leave the
		// leaf above every rebalancing threshold
		win = rapid.IntRange(190, 300).Draw(t, "manyNames")
		early = win
		n += win
	}
	for i := 0; i < n; i++ {
		op := AOp{Obj: rapid.IntRange(0, 1).Draw(t, "obj")}
		if early > 12 && i < early {
			op.Obj = 0
		}
		switch k := rapid.SampledFrom([]string{"w", "w", "w", "d", "d", "toggle"}).Draw(t, "k"); {
		case i < early:
			op.K, op.Name = "w", i%win // reach dense storage early
		case k == "toggle":
			op.K, op.T = "toggle", rapid.SampledFrom(toggles).Draw(t, "toggle")
		default:
			op.K, op.Name = k, rapid.IntRange(0, win-1).Draw(t, "name")
		}
		if op.K == "w" && early > 12 && i < early {
			op.A = &hist.AttrVal{Kind: "i8", Seed: i}
		} else if op.K == "w" {
			op.A = &hist.AttrVal{Kind: rapid.SampledFrom([]string{"i32", "f64", "str", "i8", "[]f64"}).Draw(t, "akind"), Seed: rapid.IntRange(0, 999).Draw(t, "aseed")}
			if op.A.Kind == "str" {
				op.A.N = rapid.IntRange(0, 40).Draw(t, "alen")
			} else if op.A.Kind == "[]f64" {
				op.A.N = rapid.IntRange(1, 6).Draw(t, "alen")
			}
		}
		c.Ops = append(c.Ops, op)
	}
	return c
}

func classifyA(c CaseA) (bool, []string) {
	dels, tog := 0, 0
	live := map[[2]int]bool{}
	maxLive := 0
	denseDelete := false
	for _, op := range c.Ops {
		switch op.K {
		case "w":
			live[[2]int{op.Obj, op.Name}] = true
		case "d":
			n := 0
			for k := range live {
				if k[0] == op.Obj {
					n++
				}
			}
			if live[[2]int{op.Obj, op.Name}] {
				dels++
				if n > 4 {
					denseDelete = true
				}
				delete(live, [2]int{op.Obj, op.Name})
			}
		case "toggle":
			tog++
		}
		if len(live) > maxLive {
			maxLive = len(live)
		}
	}
	labels := []string{"cfg=" + c.Cfg.Kind}
	if denseDelete {
		labels = append(labels, "dense_delete")
	}
	if tog > 0 {
		labels = append(labels, "has_toggle")
	}
	if maxLive > 186 {
		labels = append(labels, "leaf_more_than_half_full")
	}
	return denseDelete, labels
}

func (c Cfg) options() []interface{} {
	lazy := hdf5.WithLazyRebalancing(hdf5.LazyThreshold(c.Threshold), hdf5.LazyMaxDelay(time.Duration(c.DelayUS)*time.Microsecond), hdf5.LazyBatchSize(c.Batch))
	inc := hdf5.WithIncrementalRebalancing(hdf5.IncrementalBudget(time.Duration(c.BudgetUS)*time.Microsecond), hdf5.IncrementalInterval(time.Duration(c.IntervalUS)*time.Microsecond))
	switch c.Kind {
	case "off":
		return []interface{}{hdf5.WithBTreeRebalancing(false)}
	case "lazy":
		return []interface{}{lazy}
	case "incremental":
		return []interface{}{inc}
	case "lazy+incremental":
		return []interface{}{lazy, inc}
	case "smart":
		return []interface{}{hdf5.WithSmartRebalancing(hdf5.SmartAutoDetect(true), hdf5.SmartAutoSwitch(true), hdf5.SmartMinFileSize(uint64(c.Batch+3)), hdf5.SmartAllowedModes("lazy", "incremental"))}
	}
	return nil
}

// attrName: the small pool of assorted names, then generated ones.
func attrName(i int) string {
	if i < len(attrNames) {
		return attrNames[i]
	}
	return fmt.Sprintf("attr_%03d", i)
}

// runHistory executes the history under the given options (toggles only when withToggles) and observes the file.
func runHistory(c CaseA, file string, opts []interface{}, withToggles bool) (*obs.File, *hist.Exec, string) {
	ex, err := hist.NewExec(file, c.SB, opts...)
	if err != nil {
		return nil, nil, "CreateForWrite: " + err.Error()
	}
	defer ex.Close()
	targets := []string{"/t0", "/t1"}
	for i, p := range targets {
		d := &hist.DSpec{Type: "f64", Dims: []uint64{3}}
		if i == 1 {
			d.Chunk = []uint64{2}
		}
		for _, op := range []hist.Op{{K: "dataset", Path: p, D: d}, {K: "write", Path: p, Seed: i, Mode: 1}} {
			if st := ex.Apply(op); st.Err != "" || st.Broken != "" {
				return nil, nil, "setup: " + st.Err + st.Broken
			}
		}
	}
	for i, op := range c.Ops {
		if op.Obj < 0 || op.Obj > 1 || op.Name < 0 || op.Name >= 400 {
			return nil, nil, "SKIP"
		}
		switch op.K {
		case "w":
			if st := ex.Apply(hist.Op{K: "attr", Path: targets[op.Obj], Name: attrName(op.Name), A: op.A}); st.Broken != "" {
				return nil, ex, fmt.Sprintf("op %d: %s", i, st.Broken)
			}
		case "d":
			if st := ex.Apply(hist.Op{K: "delattr", Path: targets[op.Obj], Name: attrName(op.Name)}); st.Broken != "" {
				return nil, ex, fmt.Sprintf("op %d: %s", i, st.Broken)
			}
		case "toggle":
			if !withToggles {
				continue
			}
			var perr string
			func() {
				defer func() {
					if p := recover(); p != nil {
						perr = fmt.Sprintf("op %d: toggle %s panicked: %v", i, op.T, p)
					}
				}()
				fw := ex.FW
				switch op.T {
				case "disable":
					fw.DisableRebalancing()
				case "enable":
					fw.EnableRebalancing()
				case "lazy_on":
					_ = fw.EnableLazyRebalancing(structures.LazyRebalancingConfig{Enabled: true, Threshold: c.Cfg.Threshold, BatchSize: c.Cfg.Batch})
				case "lazy_off":
					_ = fw.DisableLazyRebalancing()
				case "force":
					_ = fw.ForceBatchRebalance()
				case "inc_on":
					_ = fw.EnableIncrementalRebalancing(structures.IncrementalRebalancingConfig{Enabled: true, Budget: time.Duration(c.Cfg.BudgetUS) * time.Microsecond, Interval: time.Duration(c.Cfg.IntervalUS) * time.Microsecond})
				case "inc_off":
					_ = fw.StopIncrementalRebalancing()
				case "rebalance_all":
					_ = fw.RebalanceAllBTrees()
				case "rebalance_attr":
					if h := ex.DS[ex.M.Resolve(targets[op.Obj]).ID]; h != nil {
						_ = h.RebalanceAttributeBTree()
					}
				}
			}()
			if perr != "" {
				return nil, ex, perr
			}
		}
	}
	if err := ex.Close(); err != nil {
		return nil, ex, "Close: " + err.Error()
	}
	return obs.Read(file, obs.Options{}), ex, ""
}

func runA(c CaseA) vt.Verdict {
	dir := vt.GetEnv().Scratch
	f1 := filepath.Join(dir, fmt.Sprintf("c19-a-%d.h5", os.Getpid()))
	f2 := filepath.Join(dir, fmt.Sprintf("c19-b-%d.h5", os.Getpid()))
	defer os.Remove(f1)
	defer os.Remove(f2)
	ref, exRef, e1 := runHistory(c, f1, nil, false)
	if e1 == "SKIP" {
		return vt.Skipped("bad indices")
	}
	if e1 != "" {
		return vt.Bad("default configuration: %s", e1)
	}
	got, _, e2 := runHistory(c, f2, c.Cfg.options(), true)
	if e2 != "" {
		return vt.Bad("configuration %+v: %s", c.Cfg, e2)
	}
	if d := obs.Diff(ref, got); d != "" {
		return vt.Bad("content written under configuration %+v differs from the default configuration: %s", c.Cfg, clip(d, 600))
	}
	// and both equal the model (so the comparison is not between two equally wrong files)
	for _, p := range hist.Compare(exRef.M, ref, hist.Opts{}) {
		if p.Kind == "attr-value-unsigned" {
			continue
		}
		return vt.Bad("default configuration disagrees with the model: %s", p)
	}
	return vt.Pass()
}

func clip(s string, n int) string {
	if len(s) > n {
		return s[:n] + "…"
	}
	return s
}

// ---- (b) selector ---------------------------------------------------------------------------------------------------

type fakeClock struct{ t time.Time }

func (f *fakeClock) Now() time.Time { return f.t }

type SelStep struct {
	AdvanceMS int     `json:"advance_ms"`
	Mode      string  `json:"mode,omitempty"` // scripted strategy: decision mode
	Conf      float64 `json:"conf,omitempty"` // scripted strategy: confidence
	// Stamp (scripted strategy): the strategy stamps its proposal with a time of its own (another time base, leaping an
	// hour per step), as a strategy may that copies the time its features were extracted
	Stamp bool `json:"stamp,omitempty"`
	// rule strategy: features
	WType   int     `json:"wtype,omitempty"`
	Samples int     `json:"samples,omitempty"`
	FileMB  int     `json:"file_mb,omitempty"`
	Del     float64 `json:"del,omitempty"`
	Wr      float64 `json:"wr,omitempty"`
	Rate    float64 `json:"rate,omitempty"`
	Burst   bool    `json:"burst,omitempty"`
}

type CaseB struct {
	Scripted bool `json:"scripted"`
	// ViaSmart: decisions are requested through SmartRebalancer.Evaluate (over a detector without samples: the workload is
	// unclassified) instead of from the selector directly; scripted strategy only
	ViaSmart bool `json:"via_smart,omitempty"`
	// ZeroLimits: the resource limits of the constraints (CPU, memory), which play no role in selection, are left at zero
	ZeroLimits bool      `json:"zero_limits,omitempty"`
	Allowed    []string  `json:"allowed"` // empty = all
	MinConf    float64   `json:"min_conf"`
	StabMS     int       `json:"stab_ms"`
	Steps      []SelStep `json:"steps"`
}

// nullIndex is an index that accepts every mode transition (SmartRebalancer.Evaluate does not touch it).
type nullIndex struct{}

func (nullIndex) EnableLazyRebalancing(structures.LazyRebalancingConfig) error { return nil }
func (nullIndex) EnableIncrementalRebalancing(structures.IncrementalRebalancingConfig) error {
	return nil
}
func (nullIndex) DisableRebalancing() error                        { return nil }
func (nullIndex) StartBackgroundRebalancing(context.Context) error { return nil }
func (nullIndex) StopBackgroundRebalancing() error                 { return nil }
func (nullIndex) GetFileSize() uint64                              { return 1 << 30 }

type scripted struct{ next rebalancing.Decision }

func (s *scripted) Select(rebalancing.WorkloadFeatures, rebalancing.WorkloadType) rebalancing.Decision {
	return s.next
}

func genB(t *rapid.T) CaseB {
	modes := []string{"none", "lazy", "incremental"}
	c := CaseB{ViaSmart: rapid.IntRange(0, 3).Draw(t, "viaSmart") == 0, ZeroLimits: rapid.IntRange(0, 3).Draw(t, "zeroLimits") == 0, Scripted: rapid.Bool().Draw(t, "scripted"),
		MinConf: rapid.SampledFrom([]float64{0, 0.3, 0.5, 0.7, 0.9, 1}).Draw(t, "minconf"),
		StabMS:  rapid.SampledFrom([]int{0, 1, 100, 1000, 30000}).Draw(t, "stab")}
	for _, m := range modes {
		if rapid.Bool().Draw(t, "allow_"+m) {
			c.Allowed = append(c.Allowed, m)
		}
	}
	if len(c.Allowed) > 0 && len(c.Allowed) < 3 && rapid.IntRange(0, 2).Draw(t, "repeatAllowed") == 0 {
		// a list merged from several sources: entries repeated, still a proper subset
		for k := rapid.IntRange(1, 3).Draw(t, "nrepeat"); k > 0; k-- {
			c.Allowed = append(c.Allowed, c.Allowed[rapid.IntRange(0, len(c.Allowed)-1).Draw(t, "repeat")])
		}
	}
	n := rapid.IntRange(2, 40).Draw(t, "nsteps")
	for i := 0; i < n; i++ {
		s := SelStep{AdvanceMS: rapid.SampledFrom([]int{0, 1, 50, 99, 100, 101, 500, 999, 1000, 1001, 29999, 30000, 60000}).Draw(t, "adv")}
		if c.Scripted {
			s.Mode = rapid.SampledFrom(modes).Draw(t, "mode")
			s.Conf = rapid.SampledFrom([]float64{0, 0.29, 0.3, 0.5, 0.69, 0.7, 0.71, 0.9, 1}).Draw(t, "conf")
			s.Stamp = rapid.IntRange(0, 3).Draw(t, "stamp") == 0
		} else {
			s.WType = rapid.IntRange(0, 5).Draw(t, "wtype")
			s.Samples = rapid.SampledFrom([]int{0, 1, 9, 10, 49, 50, 99, 100, 999, 1000, 100000}).Draw(t, "samples")
			s.FileMB = rapid.SampledFrom([]int{0, 1, 99, 100, 499, 500, 501, 1024, 5000}).Draw(t, "filemb")
			s.Del = rapid.Float64Range(0, 1).Draw(t, "del")
			s.Wr = rapid.Float64Range(0, 1-s.Del).Draw(t, "wr")
			s.Rate = rapid.SampledFrom([]float64{0, 0.5, 10, 1000, 1e6}).Draw(t, "rate")
			s.Burst = rapid.Bool().Draw(t, "burst")
		}
		c.Steps = append(c.Steps, s)
	}
	return c
}

func classifyB(c CaseB) (bool, []string) {
	labels := []string{fmt.Sprintf("scripted=%v", c.Scripted), fmt.Sprintf("allowed=%d", len(c.Allowed))}
	return len(c.Steps) >= 3 && c.StabMS > 0, labels
}

func runB(c CaseB) vt.Verdict {
	clk := &fakeClock{t: time.Unix(1_700_000_000, 0)}
	cons := rebalancing.DefaultSafetyConstraints()
	cons.MinConfidence = c.MinConf
	cons.MinStabilityPeriod = time.Duration(c.StabMS) * time.Millisecond
	allowed := map[string]bool{}
	for _, m := range c.Allowed {
		cons.AllowedModes = append(cons.AllowedModes, rebalancing.Mode(m))
		allowed[m] = true
	}
	if err := cons.Validate(); err != nil {
		return vt.Skipped("constraints not valid: %v", err)
	}
	if c.ZeroLimits {
		cons.MaxCPUPercent, cons.MaxMemoryMB = 0, 0 // the gates (allowed modes, confidence, stability) are configured all the same
	}
	isAllowed := func(m string) bool { return len(c.Allowed) == 0 || allowed[m] }
	opts := []rebalancing.SelectorOption{rebalancing.WithSafetyConstraints(cons), rebalancing.WithSelectorClock(clk)}
	sc := &scripted{}
	if c.Scripted {
		opts = append(opts, rebalancing.WithStrategy(sc))
	}
	sel := rebalancing.NewConfigSelector(opts...)
	var sr *rebalancing.SmartRebalancer
	var clkR *fakeClock
	if c.ViaSmart && c.Scripted {
		det := rebalancing.NewWorkloadDetector()
		defer det.Close()
		// the rebalancer keeps time of its own (a clock that leaps an hour per step): the selector's gates follow the clock
		// the selector was built with
		clkR = &fakeClock{t: time.Unix(1_900_000_000, 0)}
		sr = rebalancing.NewSmartRebalancer(&nullIndex{}, rebalancing.WithSelector(sel), rebalancing.WithDetector(det), rebalancing.WithRebalancerClock(clkR))
	}
	// invariant state: time of the last change of the returned mode among gate-passing decisions
	haveMode := false
	var curMode string
	var changeAt time.Time
	suppressed := 0
	for i, s := range c.Steps {
		clk.t = clk.t.Add(time.Duration(s.AdvanceMS) * time.Millisecond)
		if clkR != nil {
			clkR.t = clkR.t.Add(time.Hour)
		}
		var feat rebalancing.WorkloadFeatures
		wt := rebalancing.WorkloadType(s.WType)
		if c.Scripted {
			sc.next = rebalancing.Decision{Mode: rebalancing.Mode(s.Mode), Confidence: s.Conf, Reason: "scripted"}
			if s.Stamp {
				sc.next.Timestamp = time.Unix(1_800_000_000, 0).Add(time.Duration(i+1) * time.Hour)
			}
		} else {
			feat = rebalancing.WorkloadFeatures{DeleteRatio: s.Del, WriteRatio: s.Wr, ReadRatio: 1 - s.Del - s.Wr, OperationRate: s.Rate, BurstDetected: s.Burst,
				FileSize: uint64(s.FileMB) * 1024 * 1024, WindowDuration: time.Minute, SampleSize: s.Samples, ExtractedAt: clk.t}
		}
		var d rebalancing.Decision
		if sr != nil {
			var err error
			if d, err = sr.Evaluate(); err != nil {
				return vt.Bad("step %d: SmartRebalancer.Evaluate: %v", i, err)
			}
		} else {
			d = sel.SelectConfig(feat, wt)
		}
		m := string(d.Mode)
		if m != "none" && m != "lazy" && m != "incremental" {
			return vt.Bad("step %d: selector returned unknown mode %q", i, m)
		}
		if m != "none" && !isAllowed(m) {
			return vt.Bad("step %d: selector returned mode %q which is not in the allowed list %v", i, m, c.Allowed)
		}
		if math.IsNaN(d.Confidence) || d.Confidence < 0 || d.Confidence > 1 {
			return vt.Bad("step %d: reported confidence %v outside [0,1]", i, d.Confidence)
		}
		// what the strategy proposed (for the scripted strategy we know it; the rule strategy's proposal has the reported confidence)
		conf := d.Confidence
		if c.Scripted {
			conf = s.Conf
		}
		if conf < c.MinConf {
			if m != "none" {
				return vt.Bad("step %d: confidence %.2f is below the minimum %.2f but the selector returned %q instead of none", i, conf, c.MinConf, m)
			}
			continue // gate 1 not passed
		}
		if c.Scripted && !isAllowed(s.Mode) {
			if m != "none" {
				return vt.Bad("step %d: proposed mode %q is not allowed but the selector returned %q instead of none", i, s.Mode, m)
			}
			continue // gate 2 not passed
		}
		if !c.Scripted && strings.Contains(d.Reason, "not allowed") {
			continue // gate 2 not passed (rule strategy: the proposal is not visible, the reason says so)
		}
		// decision passed both gates: stability
		if haveMode && m != curMode {
			if since := clk.t.Sub(changeAt); since < cons.MinStabilityPeriod {
				return vt.Bad("step %d: mode changed %q -> %q only %v after the previous change/first decision (stability period %v)", i, curMode, m, since, cons.MinStabilityPeriod)
			}
			changeAt = clk.t
		}
		if !haveMode {
			haveMode, changeAt = true, clk.t
		}
		if c.Scripted && m != s.Mode {
			suppressed++
			// a suppressed change must keep the current mode
			if m != curMode {
				return vt.Bad("step %d: proposed %q was replaced by %q, which is neither the proposal nor the current mode %q", i, s.Mode, m, curMode)
			}
		}
		if c.Scripted && m == s.Mode && haveMode && curMode != "" && m != curMode {
			// accepted change - fine (checked above)
		}
		curMode = m
	}
	if suppressed > 0 {
		vt.Recorder(prop).Label("selector", "suppressed_change", 1)
	}
	return vt.Pass()
}

// ---- (c) detector + smart rebalancer evaluate over generated operation streams --------------------------------------

type CaseC struct {
	// Idle: after the stream, evaluations without any new observation, the clock advanced by these amounts before each
	IdleMS  []int    `json:"idle_ms,omitempty"`
	Ops     []int    `json:"ops"`     // 0 read 1 write 2 delete
	GapsMS  []int    `json:"gaps_ms"` // time between ops (cycled)
	FileMB  int      `json:"file_mb"`
	MinConf float64  `json:"min_conf"`
	Allowed []string `json:"allowed"`
}

type fakeBTree struct{}

func genC(t *rapid.T) CaseC {
	c := CaseC{FileMB: rapid.SampledFrom([]int{1, 200, 800, 2000}).Draw(t, "filemb"), MinConf: rapid.SampledFrom([]float64{0, 0.5, 0.7, 0.95}).Draw(t, "minconf")}
	for _, m := range []string{"none", "lazy", "incremental"} {
		if rapid.Bool().Draw(t, "allow_"+m) {
			c.Allowed = append(c.Allowed, m)
		}
	}
	n := rapid.IntRange(1, 400).Draw(t, "n")
	bias := rapid.IntRange(0, 2).Draw(t, "bias")
	for i := 0; i < n; i++ {
		if rapid.IntRange(0, 2).Draw(t, "biased") > 0 {
			c.Ops = append(c.Ops, bias)
		} else {
			c.Ops = append(c.Ops, rapid.IntRange(0, 2).Draw(t, "op"))
		}
	}
	c.GapsMS = rapid.SliceOfN(rapid.SampledFrom([]int{0, 1, 10, 100, 1000, 10000}), 1, 6).Draw(t, "gaps")
	c.IdleMS = rapid.SliceOfN(rapid.SampledFrom([]int{0, 1, 1000, 30000, 59000, 61000, 120000, 600000}), 0, 4).Draw(t, "idle")
	return c
}

func runC(c CaseC) vt.Verdict {
	clk := &fakeClock{t: time.Unix(1_700_000_000, 0)}
	det := rebalancing.NewWorkloadDetector(rebalancing.WithClock(clk), rebalancing.WithMinSampleSize(5))
	defer det.Close()
	cons := rebalancing.DefaultSafetyConstraints()
	cons.MinConfidence = c.MinConf
	allowed := map[string]bool{}
	for _, m := range c.Allowed {
		cons.AllowedModes = append(cons.AllowedModes, rebalancing.Mode(m))
		allowed[m] = true
	}
	sel := rebalancing.NewConfigSelector(rebalancing.WithSafetyConstraints(cons), rebalancing.WithSelectorClock(clk))
	type seen struct {
		t  time.Time
		op int
	}
	var log []seen
	// fresh: what a detector that was only ever shown the observations still inside the window reports now
	fresh := func() (rebalancing.WorkloadFeatures, rebalancing.WorkloadType, bool) {
		now := clk.t
		w := det.ExtractFeatures().WindowDuration
		c2 := &fakeClock{}
		d2 := rebalancing.NewWorkloadDetector(rebalancing.WithClock(c2), rebalancing.WithMinSampleSize(5))
		defer d2.Close()
		for _, e := range log {
			age := now.Sub(e.t)
			if age == w {
				return rebalancing.WorkloadFeatures{}, 0, false // exactly on the edge of the window: either reading is fine
			}
			if age > w {
				continue
			}
			c2.t = e.t
			_ = d2.RecordOperation(context.Background(), rebalancing.OperationType(e.op), uint64(c.FileMB)*1024*1024)
		}
		c2.t = now
		return d2.ExtractFeatures(), d2.DetectWorkloadType(), true
	}
	total := len(c.Ops) + len(c.IdleMS)
	for i := 0; i < total; i++ {
		if i < len(c.Ops) {
			o := c.Ops[i]
			clk.t = clk.t.Add(time.Duration(c.GapsMS[i%len(c.GapsMS)]) * time.Millisecond)
			if o < 0 || o > 2 {
				return vt.Skipped("bad op")
			}
			if err := det.RecordOperation(context.Background(), rebalancing.OperationType(o), uint64(c.FileMB)*1024*1024); err != nil {
				return vt.Bad("RecordOperation: %v", err)
			}
			log = append(log, seen{clk.t, o})
			if i%17 != 0 && i != len(c.Ops)-1 {
				continue
			}
		} else {
			clk.t = clk.t.Add(time.Duration(c.IdleMS[i-len(c.Ops)]) * time.Millisecond)
		}
		f := det.ExtractFeatures()
		if f2, wt2, ok := fresh(); ok {
			if wt := det.DetectWorkloadType(); f != f2 || wt != wt2 {
				return vt.Bad("after %d ops and %d idle evaluations: features %+v / workload %v, a detector shown only the %d observations inside the window reports %+v / %v", len(log), i+1-len(log), f, wt, f2.SampleSize, f2, wt2)
			}
		}
		for name, r := range map[string]float64{"delete": f.DeleteRatio, "write": f.WriteRatio, "read": f.ReadRatio} {
			if math.IsNaN(r) || r < 0 || r > 1 {
				return vt.Bad("after %d ops: %s ratio %v outside [0,1]", i+1, name, r)
			}
		}
		if f.SampleSize > 0 && math.Abs(f.DeleteRatio+f.WriteRatio+f.ReadRatio-1) > 1e-9 {
			return vt.Bad("after %d ops: ratios sum to %v", i+1, f.DeleteRatio+f.WriteRatio+f.ReadRatio)
		}
		if f.SampleSize < 0 || f.SampleSize > i+1 || f.OperationRate < 0 || math.IsNaN(f.OperationRate) {
			return vt.Bad("after %d ops: sample size %d / rate %v implausible", i+1, f.SampleSize, f.OperationRate)
		}
		d := sel.SelectConfig(f, det.DetectWorkloadType())
		m := string(d.Mode)
		if m != "none" && len(c.Allowed) > 0 && !allowed[m] {
			return vt.Bad("after %d ops: selector returned %q, allowed %v", i+1, m, c.Allowed)
		}
		if d.Confidence < 0 || d.Confidence > 1 || math.IsNaN(d.Confidence) {
			return vt.Bad("after %d ops: confidence %v outside [0,1]", i+1, d.Confidence)
		}
		if d.Confidence < c.MinConf && m != "none" {
			return vt.Bad("after %d ops: confidence %.2f below minimum %.2f but mode %q returned", i+1, d.Confidence, c.MinConf, m)
		}
	}
	return vt.Pass()
}

func TestProp(t *testing.T) {
	vt.Run(t, prop,
		vt.Sub[CaseA]{Prop: prop, Name: "config", Gen: genA, Run: runA, Classify: classifyA}.WithBudget(500, 3000),
		vt.Sub[CaseB]{Prop: prop, Name: "selector", Gen: genB, Run: runB, Classify: classifyB}.WithBudget(20000, 150000),
		vt.Sub[CaseD]{Prop: prop, Name: "applied", Gen: genD, Run: runD, Classify: func(c CaseD) (bool, []string) { return len(c.Ops) >= 20, nil }}.WithBudget(150, 1500),
		vt.Sub[CaseC]{Prop: prop, Name: "detector", Gen: genC, Run: runC, Classify: func(c CaseC) (bool, []string) { return len(c.Ops) >= 20, nil }}.WithBudget(2000, 15000),
	)
}
