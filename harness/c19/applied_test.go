package c19

// applied: the confidence gate on decisions of a STARTED smart rebalancer whose background monitor has already applied a
// mode. Observations and all clocks are under the harness's control; only the monitor's ticker runs on real time, and a
// case in which it did not get to apply anything within its budget simply checks the same gate with no mode applied.

import (
	"context"
	"fmt"
	"sync/atomic"
	"time"

	"github.com/scigolib/hdf5/internal/rebalancing"
	"github.com/scigolib/hdf5/verif/vt"
	"pgregory.net/rapid"
)

type atomicClock struct{ ns atomic.Int64 }

func (c *atomicClock) Now() time.Time         { return time.Unix(0, c.ns.Load()) }
func (c *atomicClock) add(d time.Duration)    { c.ns.Add(int64(d)) }
func newAtomicClock(start int64) *atomicClock { c := &atomicClock{}; c.ns.Store(start); return c }

type CaseD struct {
	Ops     []int   `json:"ops"` // 0 read 1 write 2 delete, one millisecond apart
	FileMB  int     `json:"file_mb"`
	MinConf float64 `json:"min_conf"`
	IdleMS  []int   `json:"idle_ms"` // evaluations after the stream: clock advanced by this much, nothing recorded
}

func genD(t *rapid.T) CaseD {
	c := CaseD{FileMB: rapid.SampledFrom([]int{1, 200, 800}).Draw(t, "filemb"), MinConf: rapid.SampledFrom([]float64{0.3, 0.5, 0.7, 0.9}).Draw(t, "minconf")}
	n := rapid.IntRange(5, 200).Draw(t, "n")
	bias := rapid.SampledFrom([]int{2, 2, 1, 0}).Draw(t, "bias")
	for i := 0; i < n; i++ {
		if rapid.IntRange(0, 3).Draw(t, "biased") > 0 {
			c.Ops = append(c.Ops, bias)
		} else {
			c.Ops = append(c.Ops, rapid.IntRange(0, 2).Draw(t, "op"))
		}
	}
	c.IdleMS = rapid.SliceOfN(rapid.SampledFrom([]int{0, 1000, 59000, 61000, 120000, 3600000}), 1, 4).Draw(t, "idle")
	return c
}

func runD(c CaseD) vt.Verdict {
	clk := newAtomicClock(1_700_000_000_000_000_000)
	det := rebalancing.NewWorkloadDetector(rebalancing.WithClock(clk), rebalancing.WithMinSampleSize(5))
	defer det.Close()
	cons := rebalancing.DefaultSafetyConstraints()
	cons.MinConfidence = c.MinConf
	cons.MinStabilityPeriod = time.Millisecond
	sel := rebalancing.NewConfigSelector(rebalancing.WithSafetyConstraints(cons), rebalancing.WithSelectorClock(clk))
	sr := rebalancing.NewSmartRebalancer(&nullIndex{}, rebalancing.WithSelector(sel), rebalancing.WithDetector(det), rebalancing.WithRebalancerClock(clk),
		rebalancing.WithReevalInterval(time.Millisecond))
	for _, o := range c.Ops {
		if o < 0 || o > 2 {
			return vt.Skipped("bad op")
		}
		clk.add(time.Millisecond)
		if err := det.RecordOperation(context.Background(), rebalancing.OperationType(o), uint64(c.FileMB)<<20); err != nil {
			return vt.Bad("RecordOperation: %v", err)
		}
	}
	ctx, cancel := context.WithCancel(context.Background())
	defer cancel()
	if err := sr.Start(ctx); err != nil {
		return vt.Bad("Start: %v", err)
	}
	stopped := false
	defer func() {
		if !stopped {
			_ = sr.Stop()
		}
	}()
	// let the monitor evaluate (and apply what it decides) a few times
	deadline := time.Now().Add(60 * time.Millisecond)
	for time.Now().Before(deadline) && sr.GetStats().TotalEvaluations < 3 {
		time.Sleep(time.Millisecond)
	}
	applied := sr.GetStats().CurrentMode
	for k, ms := range c.IdleMS {
		clk.add(time.Duration(ms) * time.Millisecond)
		d, err := sr.Evaluate()
		if err != nil {
			return vt.Bad("Evaluate: %v", err)
		}
		if d.Confidence < 0 || d.Confidence > 1 || d.Confidence != d.Confidence {
			return vt.Bad("idle evaluation %d: confidence %v outside [0,1]", k, d.Confidence)
		}
		if d.Confidence < c.MinConf && d.Mode != rebalancing.ModeNone {
			return vt.Bad("idle evaluation %d (clock advanced %d ms, nothing recorded; mode applied by the monitor: %s): confidence %.2f is below the minimum %.2f but the decision is %q instead of none",
				k, ms, applied, d.Confidence, c.MinConf, d.Mode)
		}
	}
	stopped = true
	if err := sr.Stop(); err != nil {
		return vt.Bad("Stop: %v", err)
	}
	if applied != rebalancing.ModeNone {
		vt.Recorder(prop).Label("applied", fmt.Sprintf("monitor_applied_%s", applied), 1)
	}
	return vt.Pass()
}
