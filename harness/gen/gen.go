// Package gen holds history generators shared by several checks.
package gen

import (
	"fmt"
	"strings"

	hdf5 "github.com/scigolib/hdf5"
	"github.com/scigolib/hdf5/verif/hist"
	"pgregory.net/rapid"
)

var numTypes = []string{"i8", "i16", "i32", "i64", "u8", "u16", "u32", "u64", "f32", "f64"}

// Spec draws a dataset specification: every element type the op language knows, rank 1-3, contiguous or chunked (optionally
// resizable and filtered).
func Spec(t *rapid.T) *hist.DSpec {
	d := &hist.DSpec{}
	switch kind := rapid.SampledFrom([]string{"num", "num", "num", "str", "arr", "enum", "objref", "regref", "opaque", "cmp", "vl"}).Draw(t, "kind"); kind {
	case "num":
		d.Type = rapid.SampledFrom(numTypes).Draw(t, "type")
	case "str":
		d.Type, d.StrSize = "str", rapid.SampledFrom([]int{1, 3, 8, 17}).Draw(t, "strsize")
	case "arr":
		d.Type = "arr:" + rapid.SampledFrom(numTypes).Draw(t, "base")
		d.ArrDims = rapid.SliceOfN(rapid.SampledFrom([]uint64{1, 2, 3}), 1, 2).Draw(t, "arrdims")
	case "enum":
		d.Type, d.EnumN = "enum:"+rapid.SampledFrom(numTypes[:8]).Draw(t, "base"), rapid.IntRange(1, 5).Draw(t, "enum_n")
	case "opaque":
		d.Type, d.OpaqueLen, d.OpaqueTag = "opaque", rapid.SampledFrom([]int{1, 5, 8}).Draw(t, "olen"), rapid.SampledFrom([]string{"t", "opaque tag"}).Draw(t, "otag")
	case "cmp":
		d.Type = rapid.SampledFrom([]string{"cmp:num", "cmp:str", "cmp:pad", "cmp:ooo"}).Draw(t, "cmp")
	case "vl":
		d.Type = rapid.SampledFrom([]string{"vl:str", "vl:str", "vl:i32", "vl:i64", "vl:u32", "vl:u64", "vl:f32", "vl:f64"}).Draw(t, "vl")
	default:
		d.Type = kind
	}
	rank := rapid.SampledFrom([]int{1, 1, 2, 3}).Draw(t, "rank")
	for i := 0; i < rank; i++ {
		d.Dims = append(d.Dims, uint64(rapid.IntRange(1, []int{40, 9, 5}[rank-1]).Draw(t, "extent")))
	}
	if rapid.IntRange(0, 2).Draw(t, "chunked") > 0 {
		for _, e := range d.Dims {
			d.Chunk = append(d.Chunk, uint64(rapid.IntRange(1, int(e)).Draw(t, "chunk")))
		}
		if rapid.Bool().Draw(t, "resizable") {
			// maximum extents: unlimited, exactly the initial extent, or a little above it (per dimension)
			for _, e := range d.Dims {
				switch rapid.IntRange(0, 3).Draw(t, "maxkind") {
				case 0:
					d.MaxDims = append(d.MaxDims, e)
				case 1:
					d.MaxDims = append(d.MaxDims, e+uint64(rapid.IntRange(1, 6).Draw(t, "headroom")))
				default:
					d.MaxDims = append(d.MaxDims, hdf5.Unlimited)
				}
			}
		}
		// filtered chunks: the library's own reader cannot read them back (KF-C08-01) but the stored bytes must still be
		// well-formed for an independent decoder (deflate stream, shuffle, Fletcher-32 of every chunk)
		if k, _ := d.Base(); k != "cmp" && k != "vl" && rapid.IntRange(0, 3).Draw(t, "filtered") == 0 {
			d.Filters = rapid.SliceOfNDistinct(rapid.SampledFrom([]string{"gzip:1", "gzip:6", "gzip:9", "shuffle", "fletcher"}), 1, 3, func(s string) string { return s[:3] }).Draw(t, "filters")
		}
	}
	return d
}

// Mixed draws a superblock version and a history of at most maxOps generator steps over datasets, groups, attributes
// (add / replace / delete), writes, resizes, hard / soft / external links and dense groups.
func Mixed(t *rapid.T, maxOps int) (int, []hist.Op) {
	c := struct {
		SB  int
		Ops []hist.Op
	}{SB: rapid.SampledFrom([]int{2, 2, 0, 3}).Draw(t, "sb")}
	type info struct {
		path, kind string
		d          *hist.DSpec
	}
	objs := []info{}
	groups := []string{"/"}
	n := rapid.IntRange(1, maxOps).Draw(t, "nops")
	names := []string{"a", "b", "c", "units", "twelve_chars", "a_rather_long_attribute_name_to_fill_space", "d", "e", "f", "g", "h", "i", "j", "k"}
	links := 0
	withSoft := rapid.IntRange(0, 2).Draw(t, "withSoftExtDense") == 0
	reopens := rapid.SampledFrom([]int{0, 0, 1, 2}).Draw(t, "reopens")
	groupLinks := 0
	for i := 0; i < n; i++ {
		k := rapid.SampledFrom([]string{"dataset", "dataset", "group", "write", "write", "attr", "attr", "attr", "attr", "delattr", "resize", "hard", "soft", "ext", "dense", "attrburst"}).Draw(t, "k")
		if len(objs) == 0 && k != "group" {
			k = "dataset"
		}
		if reopens > 0 && len(objs) > 0 && rapid.IntRange(0, 19).Draw(t, "reopenHere") == 0 {
			// a session boundary: Close, OpenForWrite, dataset handles through OpenDataset
			reopens--
			c.Ops = append(c.Ops, hist.Op{K: "reopen"})
		}
		parent := groups[rapid.IntRange(0, len(groups)-1).Draw(t, "parent")]
		join := func(name string) string {
			if parent == "/" {
				return "/" + name
			}
			return parent + "/" + name
		}
		switch k {
		case "dataset":
			d := Spec(t)
			p := join(fmt.Sprintf("d%d", i))
			objs = append(objs, info{p, "dataset", d})
			c.Ops = append(c.Ops, hist.Op{K: "dataset", Path: p, D: d})
			if rapid.IntRange(0, 3).Draw(t, "writeNow") > 0 {
				c.Ops = append(c.Ops, hist.Op{K: "write", Path: p, Seed: rapid.IntRange(0, 9999).Draw(t, "seed"), Mode: rapid.IntRange(0, 1).Draw(t, "mode")})
			}
		case "group":
			p := join(fmt.Sprintf("g%d", i))
			if strings.Count(p, "/") <= 4 {
				groups = append(groups, p)
			}
			objs = append(objs, info{p, "group", nil})
			c.Ops = append(c.Ops, hist.Op{K: "group", Path: p})
		default:
			o := objs[rapid.IntRange(0, len(objs)-1).Draw(t, "obj")]
			switch k {
			case "write":
				if o.kind == "dataset" {
					c.Ops = append(c.Ops, hist.Op{K: "write", Path: o.path, Seed: rapid.IntRange(0, 9999).Draw(t, "seed"), Mode: rapid.IntRange(0, 1).Draw(t, "mode")})
				}
			case "attr":
				a := &hist.AttrVal{Kind: rapid.SampledFrom([]string{"i8", "i16", "i32", "i64", "u8", "u16", "u32", "u64", "f32", "f64", "str", "str", "[]i32", "[]i64", "[]f32", "[]f64"}).Draw(t, "akind"), Seed: rapid.IntRange(0, 9999).Draw(t, "aseed")}
				if a.Kind == "str" {
					a.N = rapid.OneOf(rapid.IntRange(0, 20), rapid.IntRange(0, 200)).Draw(t, "alen")
				} else if strings.HasPrefix(a.Kind, "[]") {
					a.N = rapid.IntRange(1, 20).Draw(t, "alen")
				}
				c.Ops = append(c.Ops, hist.Op{K: "attr", Path: o.path, Name: rapid.SampledFrom(names).Draw(t, "aname"), A: a})
			case "attrburst":
				// enough distinct names on one object to leave compact attribute storage (more than 8), sometimes followed by
				// deletions that bring it back below the threshold
				nb := rapid.IntRange(7, len(names)).Draw(t, "burst")
				first := rapid.IntRange(0, len(names)-1).Draw(t, "burstFirst")
				kinds := []string{"i32", "f64", "str", "u8", "[]i32", "i64"}
				for j := 0; j < nb; j++ {
					a := &hist.AttrVal{Kind: kinds[(first+j)%len(kinds)], Seed: rapid.IntRange(0, 9999).Draw(t, "aseed"), N: 1 + (first+j)%9}
					c.Ops = append(c.Ops, hist.Op{K: "attr", Path: o.path, Name: names[(first+j)%len(names)], A: a})
				}
				nd := rapid.IntRange(0, 4).Draw(t, "burstDel")
				for j := 0; j < nd && o.kind == "dataset"; j++ {
					c.Ops = append(c.Ops, hist.Op{K: "delattr", Path: o.path, Name: names[(first+2*j)%len(names)]})
				}
			case "delattr":
				if o.kind == "dataset" {
					c.Ops = append(c.Ops, hist.Op{K: "delattr", Path: o.path, Name: rapid.SampledFrom(names).Draw(t, "aname")})
				}
			case "resize":
				if o.kind == "dataset" && o.d.MaxDims != nil {
					var dims []uint64
					for i := range o.d.Dims {
						hi := uint64(12)
						if m := o.d.MaxDims[i]; m != hdf5.Unlimited && m < hi {
							hi = m
						}
						dims = append(dims, uint64(rapid.IntRange(1, int(hi)).Draw(t, "newExtent")))
					}
					c.Ops = append(c.Ops, hist.Op{K: "resize", Path: o.path, Dims: dims})
					if rapid.Bool().Draw(t, "rewrite") {
						c.Ops = append(c.Ops, hist.Op{K: "write", Path: o.path, Seed: rapid.IntRange(0, 9999).Draw(t, "seed"), Mode: 1})
					}
				}
			case "hard":
				if o.kind != "dataset" {
					// every further name for a group multiplies the number of paths below it: a handful per history is enough
					if groupLinks >= 4 {
						break
					}
					groupLinks++
				}
				links++
				c.Ops = append(c.Ops, hist.Op{K: "hard", Path: join(fmt.Sprintf("hl%d", links)), Target: o.path})
			case "soft":
				if withSoft {
					links++
					c.Ops = append(c.Ops, hist.Op{K: "soft", Path: join(fmt.Sprintf("sl%d", links)), Target: o.path})
				}
			case "ext":
				if withSoft {
					links++
					c.Ops = append(c.Ops, hist.Op{K: "ext", Path: join(fmt.Sprintf("el%d", links)), File: "other.h5", Target: "/x/y"})
				}
			case "dense":
				if withSoft {
					links++
					var ls [][2]string
					nl, pad := rapid.IntRange(0, 12).Draw(t, "nlinks"), ""
					if rapid.IntRange(0, 11).Draw(t, "bigdense") == 0 {
						// link messages beyond 64 KiB in total: heap offsets above 65535 in the group's 512 KiB heap block
						nl, pad = rapid.IntRange(240, 320).Draw(t, "nlinksBig"), strings.Repeat("n", rapid.IntRange(200, 250).Draw(t, "pad"))
					}
					tgt0 := rapid.IntRange(0, len(objs)-1).Draw(t, "tgt")
					var dsets []info
					for j := 0; j < nl; j++ {
						tg := objs[(tgt0+j)%len(objs)]
						if pad == "" && tg.kind != "dataset" {
							if groupLinks >= 4 {
								continue
							}
							groupLinks++
						}
						if pad != "" && tg.kind != "dataset" {
							// hundreds of links to groups multiply the number of paths without adding anything
							if dsets == nil {
								for _, o := range objs {
									if o.kind == "dataset" {
										dsets = append(dsets, o)
									}
								}
							}
							if len(dsets) == 0 {
								break
							}
							tg = dsets[(tgt0+j)%len(dsets)]
						}
						ls = append(ls, [2]string{fmt.Sprintf("l%d%s", j, pad), tg.path})
					}
					dgp := join(fmt.Sprintf("dg%d", links))
					c.Ops = append(c.Ops, hist.Op{K: "densegroup", Path: dgp, Links: ls})
					objs = append(objs, info{dgp, "densegroup", nil}) // usable as a link / attribute target
				}
			}
		}
	}
	return c.SB, c.Ops
}
