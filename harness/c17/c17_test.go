// Package c17 decides property C17: truncated files and failing I/O produce errors, never different answers.
package c17

import (
	"bytes"
	"encoding/binary"
	"errors"
	"fmt"
	"io"
	"os"
	"path/filepath"
	"reflect"
	"sort"
	"strings"
	"sync"
	"testing"

	hdf5 "github.com/scigolib/hdf5"
	"github.com/scigolib/hdf5/internal/core"
	"github.com/scigolib/hdf5/internal/structures"
	"github.com/scigolib/hdf5/internal/writer"
	hgen "github.com/scigolib/hdf5/verif/gen"
	"github.com/scigolib/hdf5/verif/hist"
	"github.com/scigolib/hdf5/verif/indep"
	"github.com/scigolib/hdf5/verif/memf"
	"github.com/scigolib/hdf5/verif/obs"
	"github.com/scigolib/hdf5/verif/vt"
	"pgregory.net/rapid"
)

const prop = "C17"
const (
	kfSwallowChild = "KF-C17-01" // loadModernGroup skips children whose load fails: members silently missing
	kfSwallowAttr  = "KF-C17-02" // attribute parse/read errors swallowed: attributes silently missing
)

// ---- base files ------------------------------------------------------------------------------------------------------

type baseFile struct {
	Name string
	Data []byte
}

// libraryFiles writes a few representative files with the library (deterministic).
func libraryFiles(dir string) []baseFile {
	var out []baseFile
	specs := []struct {
		name string
		sb   int
		ops  []hist.Op
	}{
		{"lib-small-v2", 2, []hist.Op{
			{K: "dataset", Path: "/d", D: &hist.DSpec{Type: "f64", Dims: []uint64{6}}}, {K: "write", Path: "/d", Seed: 1, Mode: 1},
			{K: "attr", Path: "/d", Name: "a", A: &hist.AttrVal{Kind: "i32", Seed: 1}}, {K: "attr", Path: "/d", Name: "units", A: &hist.AttrVal{Kind: "str", N: 9, Seed: 2}},
		}},
		{"lib-tree-v0", 0, []hist.Op{
			{K: "group", Path: "/g"}, {K: "group", Path: "/g/h"},
			{K: "dataset", Path: "/g/h/c", D: &hist.DSpec{Type: "i32", Dims: []uint64{5, 3}, Chunk: []uint64{2, 2}}}, {K: "write", Path: "/g/h/c", Seed: 2, Mode: 1},
			{K: "dataset", Path: "/s", D: &hist.DSpec{Type: "str", StrSize: 4, Dims: []uint64{3}}}, {K: "write", Path: "/s", Seed: 3},
			{K: "hard", Path: "/g/link", Target: "/s"},
		}},
		{"lib-dense-v3", 3, func() []hist.Op {
			ops := []hist.Op{{K: "dataset", Path: "/many", D: &hist.DSpec{Type: "i64", Dims: []uint64{4}, Chunk: []uint64{3}}}, {K: "write", Path: "/many", Seed: 4, Mode: 1}}
			for i := 0; i < 12; i++ {
				ops = append(ops, hist.Op{K: "attr", Path: "/many", Name: fmt.Sprintf("attr%02d", i), A: &hist.AttrVal{Kind: []string{"f64", "i32", "str"}[i%3], N: 12, Seed: i}})
			}
			ops = append(ops, hist.Op{K: "group", Path: "/grp"}, hist.Op{K: "attr", Path: "/grp", Name: "ga", A: &hist.AttrVal{Kind: "f32", Seed: 7}})
			return ops
		}()},
		{"lib-dense-tail-v2", 2, func() []hist.Op {
			// the dense attribute storage (heap, B-tree) is the last thing in the file
			ops := []hist.Op{{K: "group", Path: "/g"}, {K: "dataset", Path: "/g/t", D: &hist.DSpec{Type: "f32", Dims: []uint64{3, 2}}}, {K: "write", Path: "/g/t", Seed: 5, Mode: 1}}
			for i := 0; i < 12; i++ {
				ops = append(ops, hist.Op{K: "attr", Path: "/g/t", Name: fmt.Sprintf("a%02d", i), A: &hist.AttrVal{Kind: []string{"i32", "str", "f64"}[i%3], N: 7, Seed: i + 20}})
			}
			return ops
		}()},
	}
	for _, s := range specs {
		p := filepath.Join(dir, s.name+".h5")
		ex, err := hist.NewExec(p, s.sb)
		if err != nil {
			continue
		}
		for _, op := range s.ops {
			ex.Apply(op)
		}
		ex.Close()
		if b, err := os.ReadFile(p); err == nil {
			out = append(out, baseFile{s.name, b})
		}
		os.Remove(p)
	}
	if b := compoundVLenFile(filepath.Join(dir, "lib-compound-vlen.h5")); b != nil {
		out = append(out, baseFile{"lib-compound-vlen", b})
	}
	if b := tailDataFile(filepath.Join(dir, "lib-tail3d.h5")); b != nil {
		out = append(out, baseFile{"lib-tail3d", b})
	}
	return out
}

// tailDataFile: contiguous datasets of rank 3 and 4 whose raw data is the last thing in the file, all metadata before it
// (the arrangement of files written by the C library; the library's own writer puts each object header behind its data,
// so a cut inside the data also removes a header and nothing is read at all). Written with the library, then the raw
// data of each dataset is copied to the end and the address in its layout message repointed.
func tailDataFile(p string) []byte {
	defer os.Remove(p)
	ex, err := hist.NewExec(p, 2)
	if err != nil {
		return nil
	}
	for _, op := range []hist.Op{
		{K: "dataset", Path: "/cube", D: &hist.DSpec{Type: "f64", Dims: []uint64{4, 3, 6}}}, {K: "write", Path: "/cube", Seed: 11, Mode: 1},
		{K: "dataset", Path: "/hyper", D: &hist.DSpec{Type: "i32", Dims: []uint64{3, 2, 4, 5}}}, {K: "write", Path: "/hyper", Seed: 12, Mode: 1},
	} {
		ex.Apply(op)
	}
	if ex.Close() != nil {
		return nil
	}
	data, err := os.ReadFile(p)
	if err != nil {
		return nil
	}
	f, _ := indep.Decode(data, indep.TolerateAll())
	if f == nil {
		return nil
	}
	for _, spec := range []struct {
		path string
		size uint64
	}{{"/hyper", 3 * 2 * 4 * 5 * 4}, {"/cube", 4 * 3 * 6 * 8}} {
		o := f.Objects[f.Paths[spec.path]]
		if o == nil || o.DataAddr == indep.UndefAddr || o.DataAddr+spec.size > uint64(len(data)) {
			return nil
		}
		// version 3 contiguous layout: address, then size
		pat := make([]byte, 16)
		binary.LittleEndian.PutUint64(pat, o.DataAddr)
		binary.LittleEndian.PutUint64(pat[8:], spec.size)
		at := bytes.Index(data, pat)
		if at < 0 || bytes.Index(data[at+1:], pat) >= 0 {
			return nil
		}
		binary.LittleEndian.PutUint64(data[at:], uint64(len(data)))
		data = append(data, data[o.DataAddr:o.DataAddr+spec.size]...)
	}
	return data
}

// compoundVLenFile: a compound dataset {int32 id; variable-length string name} whose records refer to the global heap
// collection a variable-length string dataset of the same file created (written in a second session, as raw records).
func compoundVLenFile(p string) []byte {
	defer os.Remove(p)
	fw, err := hdf5.CreateForWrite(p, hdf5.CreateTruncate)
	if err != nil {
		return nil
	}
	i32, err1 := core.CreateBasicDatatypeMessage(core.DatatypeFixed, 4)
	char, err2 := core.CreateBasicDatatypeMessage(core.DatatypeString, 1)
	if err1 != nil || err2 != nil {
		fw.Close()
		return nil
	}
	charEnc, err := core.EncodeDatatypeMessage(char)
	if err != nil {
		fw.Close()
		return nil
	}
	vstr := &core.DatatypeMessage{Class: core.DatatypeVarLen, Version: 1, Size: 16, ClassBitField: 0x01, Properties: charEnc}
	ctype, err := core.CreateCompoundTypeFromFields([]core.CompoundFieldDef{{Name: "id", Offset: 0, Type: i32}, {Name: "name", Offset: 4, Type: vstr}})
	if err != nil {
		fw.Close()
		return nil
	}
	if _, err := fw.CreateCompoundDataset("/recs", ctype, []uint64{2}); err != nil {
		fw.Close()
		return nil
	}
	names, err := fw.CreateDataset("/names", hdf5.VLenString, []uint64{2})
	if err != nil || names.Write([]string{"alpha", "beta"}) != nil || fw.Close() != nil {
		return nil
	}
	data, err := os.ReadFile(p)
	heapAddr := bytes.Index(data, []byte("GCOL"))
	if err != nil || heapAddr < 0 {
		return nil
	}
	raw := make([]byte, 40)
	for i := 0; i < 2; i++ {
		rec := raw[i*20:]
		binary.LittleEndian.PutUint32(rec[0:], uint32(i+1))
		binary.LittleEndian.PutUint64(rec[4:], uint64(heapAddr))
		binary.LittleEndian.PutUint32(rec[12:], uint32(i+1))
	}
	fw2, err := hdf5.OpenForWrite(p, hdf5.OpenReadWrite)
	if err != nil {
		return nil
	}
	recs, err := fw2.OpenDataset("/recs")
	if err != nil || recs.WriteRaw(raw) != nil || fw2.Close() != nil {
		return nil
	}
	b, err := os.ReadFile(p)
	if err != nil {
		return nil
	}
	return b
}

var corpusFiles = sync.OnceValue(func() []baseFile {
	var out []baseFile
	var files []string
	_ = filepath.Walk("/repo/testdata", func(p string, info os.FileInfo, err error) error {
		if err == nil && !info.IsDir() && (strings.HasSuffix(p, ".h5") || strings.HasSuffix(p, ".hdf5")) && info.Size() > 0 && info.Size() <= 64*1024 {
			files = append(files, p)
		}
		return nil
	})
	sort.Strings(files)
	for _, p := range files {
		if b, err := os.ReadFile(p); err == nil {
			out = append(out, baseFile{strings.TrimPrefix(p, "/repo/testdata/"), b})
		}
	}
	return out
})

// ---- (a) truncation ----------------------------------------------------------------------------------------------------

type TruncCase struct {
	File string `json:"file"` // base file name (library file name or path relative to /repo/testdata)
	Len  int    `json:"len"`
}

func loadBase(name string) ([]byte, bool) {
	if strings.HasPrefix(name, "lib-") {
		for _, b := range libraryFiles(vt.GetEnv().Scratch) {
			if b.Name == name {
				return b.Data, true
			}
		}
		return nil, false
	}
	b, err := os.ReadFile(filepath.Join("/repo/testdata", name))
	return b, err == nil
}

// refines checks that the truncated observation is the intact one or errors; returns problems.
func refines(intact, tr *obs.File) []hist.Problem {
	var ps []hist.Problem
	add := func(kind, path, format string, a ...any) {
		ps = append(ps, hist.Problem{Kind: kind, Path: path, Detail: fmt.Sprintf(format, a...)})
	}
	for _, p := range tr.Panics {
		add("panic", "/", "%s", p)
	}
	if tr.OpenErr != "" {
		return ps
	}
	for p, gi := range intact.Groups {
		gt := tr.Groups[p]
		if gt == nil {
			continue // reported through the parent's children list
		}
		names := map[string]string{}
		for _, c := range gt.Children {
			names[c.Name] = c.Kind
		}
		for _, c := range gi.Children {
			k, ok := names[c.Name]
			switch {
			case !ok:
				add("member-missing", p, "member %q (%s) silently missing", c.Name, c.Kind)
			case k != c.Kind:
				add("member-kind", p, "member %q is a %s in the intact file, reported as %s", c.Name, c.Kind, k)
			}
			delete(names, c.Name)
		}
		for n := range names {
			add("member-extra", p, "member %q does not exist in the intact file", n)
		}
		if gt.AttrsErr == "" {
			ps = append(ps, attrRefines(p, gi.Attrs, gt.Attrs)...)
		}
	}
	for p := range tr.Groups {
		if intact.Groups[p] == nil {
			add("group-extra", p, "group does not exist in the intact file")
		}
	}
	for p, dt := range tr.Datasets {
		di := intact.Datasets[p]
		if di == nil {
			add("dataset-extra", p, "dataset does not exist in the intact file")
			continue
		}
		if dt.InfoErr == "" && di.InfoErr == "" {
			if dt.Class != di.Class || dt.Size != di.Size || !reflect.DeepEqual(dt.Dims, di.Dims) || dt.Layout != di.Layout {
				add("dataset-meta", p, "metadata differs: class %d size %d dims %v layout %d vs intact class %d size %d dims %v layout %d", dt.Class, dt.Size, dt.Dims, dt.Layout, di.Class, di.Size, di.Dims, di.Layout)
			}
		}
		if dt.ReadErr == "" && !(di.ReadErr == "" && reflect.DeepEqual(dt.Read, di.Read)) {
			add("read-differs", p, "Read() returned values that differ from the intact file's (intact error: %q)", di.ReadErr)
		}
		if dt.StringsErr == "" && !(di.StringsErr == "" && reflect.DeepEqual(dt.Strings, di.Strings)) {
			add("strings-differ", p, "ReadStrings() returned values that differ from the intact file's")
		}
		if dt.CompoundErr == "" && !(di.CompoundErr == "" && reflect.DeepEqual(dt.Compound, di.Compound)) {
			add("compound-differs", p, "ReadCompound() returned values that differ from the intact file's")
		}
		if dt.Slice != "" && dt.SliceErr == "" && !(di.SliceErr == "" && dt.Slice == di.Slice) {
			add("slice-differs", p, "ReadSlice/ReadHyperslab returned values that differ from the intact file's")
		}
		for i, st := range dt.Sels {
			if st.Err != "" || i >= len(di.Sels) || !reflect.DeepEqual(st.Sel, di.Sels[i].Sel) {
				continue // an error is fine; another selection means other metadata, reported above
			}
			if si := di.Sels[i]; si.Err != "" || !reflect.DeepEqual(st.Bits, si.Bits) {
				add("hyperslab-differs", p, "ReadHyperslab(start %v count %v stride %v block %v) returned values that differ from the intact file's (intact error: %q)", st.Sel.Start, st.Sel.Count, st.Sel.Stride, st.Sel.Block, si.Err)
			}
		}
		if dt.ChunkIter != nil && di.ChunkIter != nil && dt.ChunkIter.Err == "" {
			for i, ct := range dt.ChunkIter.Chunks {
				if ct.Err != "" || i >= len(di.ChunkIter.Chunks) || !reflect.DeepEqual(ct.Sel, di.ChunkIter.Chunks[i].Sel) {
					continue
				}
				if ci := di.ChunkIter.Chunks[i]; ci.Err != "" || !reflect.DeepEqual(ct.Bits, ci.Bits) {
					add("chunkiter-differs", p, "ChunkIterator chunk %d returned values that differ from the intact file's", i)
				}
			}
		}
		if dt.AttrsErr == "" && di.AttrsErr == "" {
			ps = append(ps, attrRefines(p, di.Attrs, dt.Attrs)...)
		}
	}
	return ps
}

func attrRefines(path string, intact, tr []obs.Attr) []hist.Problem {
	var ps []hist.Problem
	m := map[string]obs.Attr{}
	for _, a := range tr {
		m[a.Name] = a
	}
	for _, a := range intact {
		t, ok := m[a.Name]
		if !ok {
			ps = append(ps, hist.Problem{Kind: "attr-missing", Path: path, Detail: fmt.Sprintf("attribute %q silently missing", a.Name)})
			continue
		}
		delete(m, a.Name)
		if t.Data != a.Data || t.Class != a.Class || t.Size != a.Size || !reflect.DeepEqual(t.Dims, a.Dims) {
			ps = append(ps, hist.Problem{Kind: "attr-differs", Path: path, Detail: fmt.Sprintf("attribute %q differs from the intact file's", a.Name)})
		} else if t.ValueErr == "" && t.Value != a.Value {
			ps = append(ps, hist.Problem{Kind: "attr-value-differs", Path: path, Detail: fmt.Sprintf("attribute %q ReadValue differs from the intact file's", a.Name)})
		}
	}
	for n := range m {
		ps = append(ps, hist.Problem{Kind: "attr-extra", Path: path, Detail: fmt.Sprintf("attribute %q does not exist in the intact file", n)})
	}
	return ps
}

var intactCache sync.Map

// truncOpts: what a truncated file is asked for. Besides the full reads and the two fixed partial reads, four generated
// hyperslab selections per dataset (blocks of 1..3 elements, strides up to block+3; a pure function of path, address and
// shape, so the intact and the truncated file are asked for the same elements).
var truncOpts = obs.Options{Slices: true, SelSeeds: []uint64{0xC17A, 0xC17B, 0xC17C, 0xC17D}}

func intactObs(name string, data []byte) *obs.File {
	if v, ok := intactCache.Load(name); ok {
		return v.(*obs.File)
	}
	p := filepath.Join(vt.GetEnv().Scratch, "intact.h5")
	_ = os.WriteFile(p, data, 0o644)
	o := obs.Read(p, truncOpts)
	os.Remove(p)
	intactCache.Store(name, o)
	return o
}

func runTrunc(c TruncCase) vt.Verdict {
	data, ok := loadBase(c.File)
	if !ok || c.Len < 0 || c.Len >= len(data) {
		return vt.Skipped("base file or length not available")
	}
	intact := intactObs(c.File, data)
	if len(intact.Panics) > 0 {
		return vt.Skipped("intact file already panics the reader (C07's business)")
	}
	return truncVerdict(c.File, data, intact, c.Len)
}

// truncVerdict reads data[:l] through the public API and requires the observation to refine the intact one.
func truncVerdict(name string, data []byte, intact *obs.File, l int) vt.Verdict {
	p := filepath.Join(vt.GetEnv().Scratch, fmt.Sprintf("trunc-%d.h5", os.Getpid()))
	if err := os.WriteFile(p, data[:l], 0o644); err != nil {
		return vt.Skipped("cannot write scratch file")
	}
	defer os.Remove(p)
	tr := obs.Read(p, truncOpts)
	ps := refines(intact, tr)
	var known *vt.Verdict
	for _, pr := range ps {
		var v vt.Verdict
		switch pr.Kind {
		case "member-missing":
			v = vt.KnownOr(kfSwallowChild, "%s truncated to %d of %d bytes: %s", name, l, len(data), pr)
		case "attr-missing":
			v = vt.KnownOr(kfSwallowAttr, "%s truncated to %d of %d bytes: %s", name, l, len(data), pr)
		case "panic":
			v = vt.KnownOr("KF-C17-03", "%s truncated to %d of %d bytes: %s", name, l, len(data), pr)
		default:
			return vt.Bad("%s truncated to %d of %d bytes: %s", name, l, len(data), pr)
		}
		if v.Kind == vt.Violation {
			return v
		}
		known = &v
	}
	if known != nil {
		return *known
	}
	return vt.Pass()
}

// cutMarks lists the offsets worth cutting at: structure and header-message boundaries, every third byte inside small
// structures (callers widen each mark by +-1), the first 64 and last 16 bytes of larger ones.
func cutMarks(data []byte) []uint64 {
	f, _ := indep.Decode(data, indep.TolerateAll())
	if f == nil {
		return nil
	}
	marks := append([]uint64{}, f.Marks...)
	for _, ex := range f.Extents {
		marks = append(marks, ex.Start, ex.End)
		if n := ex.End - ex.Start; n <= 256 {
			for x := ex.Start + 2; x+1 < ex.End; x += 3 {
				marks = append(marks, x)
			}
		} else {
			for x := ex.Start + 2; x < ex.Start+64; x += 3 {
				marks = append(marks, x)
			}
			for x := ex.End - 15; x+1 < ex.End; x += 3 {
				marks = append(marks, x)
			}
		}
	}
	sort.Slice(marks, func(i, j int) bool { return marks[i] < marks[j] })
	return marks
}

// ---- (a2) truncation of generated files ------------------------------------------------------------------------------

type Cut struct {
	Mark  int `json:"mark"`  // >= 0: index into the file's cut marks (mod their number); -1: use Frac
	Delta int `json:"delta"` // -1, 0, +1 around the mark
	Frac  int `json:"frac"`  // per-65536 position in the file
}

type GenTruncCase struct {
	SB   int       `json:"sb"`
	Ops  []hist.Op `json:"ops"`
	Cuts []Cut     `json:"cuts"`
}

func genGenTrunc(t *rapid.T) GenTruncCase {
	sb, ops := hgen.Mixed(t, vt.N(40, 60))
	c := GenTruncCase{SB: sb, Ops: ops}
	c.Cuts = rapid.SliceOfN(rapid.Custom(func(t *rapid.T) Cut {
		if rapid.IntRange(0, 3).Draw(t, "byFrac") == 0 {
			return Cut{Mark: -1, Frac: rapid.IntRange(0, 65535).Draw(t, "frac")}
		}
		return Cut{Mark: rapid.IntRange(0, 1<<20).Draw(t, "mark"), Delta: rapid.IntRange(-1, 1).Draw(t, "delta")}
	}), 8, 24).Draw(t, "cuts")
	return c
}

func classifyGenTrunc(c GenTruncCase) (bool, []string) {
	kinds := map[string]bool{}
	attrs := map[string]map[string]bool{}
	for _, op := range c.Ops {
		kinds[op.K] = true
		if op.K == "attr" {
			if attrs[op.Path] == nil {
				attrs[op.Path] = map[string]bool{}
			}
			attrs[op.Path][op.Name] = true
		}
	}
	var ls []string
	for _, m := range attrs {
		if len(m) > 8 {
			ls = append(ls, "dense_attributes")
			break
		}
	}
	for _, k := range []string{"group", "attr", "hard", "soft", "densegroup", "resize"} {
		if kinds[k] {
			ls = append(ls, "has_"+k)
		}
	}
	return len(c.Ops) >= 2, ls
}

func runGenTrunc(c GenTruncCase) vt.Verdict {
	e := vt.GetEnv()
	p := filepath.Join(e.Scratch, fmt.Sprintf("gentrunc-%d.h5", os.Getpid()))
	defer os.Remove(p)
	ex, err := hist.NewExec(p, c.SB)
	if err != nil {
		return vt.Skipped("cannot create file")
	}
	for _, op := range c.Ops {
		ex.Apply(op)
	}
	if err := ex.Close(); err != nil {
		return vt.Skipped("close failed (C16 / C05 decide what that means)")
	}
	data, err := os.ReadFile(p)
	if err != nil || len(data) < 16 {
		return vt.Skipped("no file")
	}
	intact := obs.Read(p, truncOpts)
	if intact.OpenErr != "" || len(intact.Panics) > 0 {
		return vt.Skipped("the intact file is not readable (other properties' business)")
	}
	marks := cutMarks(data)
	var known *vt.Verdict
	done := map[int]bool{}
	for _, cut := range c.Cuts {
		l := int(int64(cut.Frac) * int64(len(data)) >> 16)
		if cut.Mark >= 0 && len(marks) > 0 {
			l = int(marks[cut.Mark%len(marks)]) + cut.Delta
		}
		if l < 0 || l >= len(data) || done[l] {
			continue
		}
		done[l] = true
		v := truncVerdict("generated file", data, intact, l)
		switch v.Kind {
		case vt.Violation:
			return v
		case vt.Known:
			known = &v
		}
	}
	if known != nil {
		return *known
	}
	return vt.Pass()
}

func truncBody(t *testing.T) {
	e := vt.GetEnv()
	rec := vt.Recorder(prop)
	bases := libraryFiles(e.Scratch)
	cf := corpusFiles()
	// corpus subset: seed-rotated, more files in the thorough tier
	maxCorpus := vt.N(10, 100)
	if len(cf) > maxCorpus {
		off := int(vt.ShardSeed("trunc-corpus") % uint64(len(cf)))
		rot := append(append([]baseFile{}, cf[off:]...), cf[:off]...)
		cf = rot[:maxCorpus]
	}
	// fixed corpus files present in every run: a new-style root group with link messages, old-style nested groups
	// with hard links, and a file with fill values
	have := map[string]bool{}
	for _, b := range cf {
		have[b.Name] = true
	}
	// (C-library files keep raw data behind the metadata and use version-1 headers with continuation blocks, which the library's own
	// files do not; every length of these small files is tried in both tiers)
	fixed := map[string]bool{}
	for _, name := range []string{"simple_float64.h5", "hdf5_official/thlink.h5", "reference/fill18.h5", "with_attributes.h5", "matrix_2x3.h5", "vlen_strings.h5"} {
		fixed[name] = true
		if !have[name] {
			if b, err := os.ReadFile(filepath.Join("/repo/testdata", name)); err == nil && len(b) > 0 {
				cf = append(cf, baseFile{name, b})
			}
		}
	}
	bases = append(bases, cf...)
	var n, nt int64
	viol := 0
	for bi, b := range bases {
		if bi%e.NShards != e.Shard {
			continue
		}
		intact := intactObs(b.Name, b.Data)
		if intact.OpenErr != "" || len(intact.Panics) > 0 {
			rec.Label("truncate", "base_excluded", 1)
			continue
		}
		// which lengths: thorough = all for files <= 24 KiB, else structure boundaries +-1 and a sample
		lens := map[int]bool{}
		size := len(b.Data)
		if (vt.Thorough() && size <= 64*1024) || ((fixed[b.Name] || strings.HasPrefix(b.Name, "lib-")) && size <= 16*1024) {
			for l := 0; l < size; l++ {
				lens[l] = true
			}
		} else {
			{
				marks := cutMarks(b.Data)
				// thinned deterministically only when there are very many
				step := len(marks)/vt.N(1500, 20000) + 1
				for i := int(vt.ShardSeed("trunc-marks-"+b.Name) % uint64(step)); i < len(marks); i += step {
					for d := -1; d <= 1; d++ {
						if l := int(marks[i]) + d; l >= 0 && l < size {
							lens[l] = true
						}
					}
				}
			}
			k := vt.N(150, 1500)
			s := vt.ShardSeed("trunc-" + b.Name)
			for i := 0; i < k; i++ {
				s = s*6364136223846793005 + 1442695040888963407
				lens[int((s>>11)%uint64(size))] = true
			}
		}
		ls := make([]int, 0, len(lens))
		for l := range lens {
			ls = append(ls, l)
		}
		sort.Ints(ls)
		for _, l := range ls {
			c := TruncCase{File: b.Name, Len: l}
			n++
			if l >= 8 {
				nt++ // the signature survives: the reader gets past the first check
			}
			v := vt.SafeRun(runTrunc, c)
			switch v.Kind {
			case vt.Known:
				rec.KnownHit(v.ID, v.Detail, c)
			case vt.Violation:
				viol++
				if viol <= 5 {
					p := vt.ReportViolation(prop, "truncate", c, v.Detail)
					t.Errorf("%s (replay %s)", v.Detail, p)
				}
			}
		}
		rec.Label("truncate", "base_files", 1)
	}
	rec.Bulk("truncate", n, nt, nil)
	rec.Sample("truncate", TruncCase{File: "lib-tree-v0", Len: 2000})
	rec.SetExhaustive("truncate", false)
}

// ---- (b) failing reads at every call index ---------------------------------------------------------------------------

type ReadFaultCase struct {
	File  string `json:"file"`
	Entry string `json:"entry"` // entry point + address
	Addr  uint64 `json:"addr"`
	K     int    `json:"k"`    // failing call (1-based)
	Mode  string `json:"mode"` // error | short-eof | short-unexpected
}

type entryFn func(r io.ReaderAt, addr uint64, sb *core.Superblock) (any, error)

var entries = map[string]entryFn{
	"superblock": func(r io.ReaderAt, _ uint64, _ *core.Superblock) (any, error) { return core.ReadSuperblock(r) },
	"objectheader": func(r io.ReaderAt, a uint64, sb *core.Superblock) (any, error) {
		h, err := core.ReadObjectHeader(r, a, sb)
		if err != nil {
			return nil, err
		}
		if h.AttributesErr != nil {
			return nil, h.AttributesErr // reported through the attribute accessors
		}
		// summarise: message types+bytes, attribute names
		var s []string
		for _, m := range h.Messages {
			s = append(s, fmt.Sprintf("%d:%x", m.Type, m.Data))
		}
		for _, at := range h.Attributes {
			s = append(s, "attr:"+at.Name+fmt.Sprintf(":%x", at.Data))
		}
		return s, nil
	},
	"float64": func(r io.ReaderAt, a uint64, sb *core.Superblock) (any, error) {
		h, err := core.ReadObjectHeader(r, a, sb)
		if err != nil {
			return nil, err
		}
		return core.ReadDatasetFloat64(r, h, sb)
	},
	"strings": func(r io.ReaderAt, a uint64, sb *core.Superblock) (any, error) {
		h, err := core.ReadObjectHeader(r, a, sb)
		if err != nil {
			return nil, err
		}
		return core.ReadDatasetStrings(r, h, sb)
	},
	"localheap": func(r io.ReaderAt, a uint64, sb *core.Superblock) (any, error) {
		h, err := structures.LoadLocalHeap(r, a, sb)
		if err != nil {
			return nil, err
		}
		return fmt.Sprintf("%x", h.Data), nil
	},
	"snod": func(r io.ReaderAt, a uint64, sb *core.Superblock) (any, error) {
		n, err := structures.ParseSymbolTableNode(r, a, sb)
		if err != nil {
			return nil, err
		}
		return fmt.Sprintf("%+v", n.Entries), nil
	},
	"groupbtree": func(r io.ReaderAt, a uint64, sb *core.Superblock) (any, error) {
		es, err := structures.ReadGroupBTreeEntries(r, a, sb)
		if err != nil {
			return nil, err
		}
		return fmt.Sprintf("%+v", es), nil
	},
	"fractalheap": func(r io.ReaderAt, a uint64, sb *core.Superblock) (any, error) {
		h, err := structures.OpenFractalHeap(r, a, sb.LengthSize, sb.OffsetSize, binary.LittleEndian)
		if err != nil {
			return nil, err
		}
		return fmt.Sprintf("%+v", *h.Header), nil
	},
	"btree2load": func(r io.ReaderAt, a uint64, sb *core.Superblock) (any, error) {
		bt := structures.NewWritableBTreeV2(4096)
		if err := bt.LoadFromFile(r, a, sb); err != nil {
			return nil, err
		}
		return fmt.Sprintf("%+v", bt.GetRecords()), nil
	},
	"fheapload": func(r io.ReaderAt, a uint64, sb *core.Superblock) (any, error) {
		fh := structures.NewWritableFractalHeap(64 * 1024)
		if err := fh.LoadFromFile(r, a, sb); err != nil {
			return nil, err
		}
		return fmt.Sprintf("%+v %x", *fh.Header, fh.DirectBlock.Objects), nil
	},
}

// targets finds, with the independent decoder, the addresses each entry point can be pointed at.
func targets(data []byte) map[string][]uint64 {
	out := map[string][]uint64{"superblock": {0}}
	f, _ := indep.Decode(data, indep.TolerateAll())
	if f == nil {
		return out
	}
	for a, o := range f.Objects {
		out["objectheader"] = append(out["objectheader"], a)
		if o.Kind == "dataset" && o.Type != nil {
			if o.Type.Class == 3 {
				out["strings"] = append(out["strings"], a)
			} else {
				out["float64"] = append(out["float64"], a)
			}
		}
	}
	kindTo := map[string]string{"local-heap": "localheap", "snod": "snod", "btree1-group": "groupbtree", "fractal-heap-hdr": "fractalheap", "btree2-hdr": "btree2load"}
	for _, ex := range f.Extents {
		if e, ok := kindTo[ex.Kind]; ok {
			out[e] = append(out[e], ex.Start)
			if e == "fractalheap" {
				out["fheapload"] = append(out["fheapload"], ex.Start)
			}
		}
	}
	for k := range out {
		sort.Slice(out[k], func(i, j int) bool { return out[k][i] < out[k][j] })
	}
	return out
}

func sbOf(data []byte) *core.Superblock {
	m := memf.New(0)
	m.Data = data
	sb, err := core.ReadSuperblock(m)
	if err != nil {
		return nil
	}
	return sb
}

func callEntry(fn entryFn, m *memf.File, addr uint64, sb *core.Superblock) (res any, err error) {
	defer func() {
		if p := recover(); p != nil {
			err = fmt.Errorf("PANIC: %v", p)
		}
	}()
	return fn(m, addr, sb)
}

func runReadFault(c ReadFaultCase) vt.Verdict {
	data, ok := loadBase(c.File)
	fn := entries[c.Entry]
	if !ok || fn == nil {
		return vt.Skipped("base file or entry not available")
	}
	sb := sbOf(data)
	if sb == nil {
		return vt.Skipped("no superblock")
	}
	clean := &memf.File{Data: data}
	want, werr := callEntry(fn, clean, c.Addr, sb)
	if werr != nil {
		return vt.Skipped("entry fails on the intact file: %v", werr)
	}
	if c.K < 1 || c.K > clean.Reads {
		return vt.Skipped("call index beyond the %d reads of a clean run", clean.Reads)
	}
	m := &memf.File{Data: data}
	switch c.Mode {
	case "error":
		m.FailRead = c.K
	case "short-eof":
		m.ShortRead, m.ShortErr = c.K, io.EOF
	case "short-unexpected":
		m.ShortRead, m.ShortErr = c.K, io.ErrUnexpectedEOF
	default:
		return vt.Skipped("unknown mode")
	}
	got, err := callEntry(fn, m, c.Addr, sb)
	if err != nil {
		if strings.HasPrefix(err.Error(), "PANIC") {
			return vt.Bad("%s(%s @%d): read #%d failing with %s made the call panic: %v", c.Entry, c.File, c.Addr, c.K, c.Mode, err)
		}
		return vt.Pass()
	}
	if !reflect.DeepEqual(got, want) {
		kind := "KF-C17-04"
		if c.Entry == "objectheader" {
			kind = kfSwallowAttr
		}
		return vt.KnownOr(kind, "%s(%s @%d): read #%d of %d failing with %s: the call returned a result that differs from the clean run instead of an error", c.Entry, c.File, c.Addr, c.K, clean.Reads, c.Mode)
	}
	return vt.Pass()
}

func readFaultBody(t *testing.T) {
	e := vt.GetEnv()
	rec := vt.Recorder(prop)
	bases := libraryFiles(e.Scratch)
	cf := corpusFiles()
	maxCorpus := vt.N(6, 120)
	if len(cf) > maxCorpus {
		off := int(vt.ShardSeed("rf-corpus") % uint64(len(cf)))
		rot := append(append([]baseFile{}, cf[off:]...), cf[:off]...)
		cf = rot[:maxCorpus]
	}
	bases = append(bases, cf...)
	var n int64
	viol := 0
	job := 0
	for _, b := range bases {
		sb := sbOf(b.Data)
		if sb == nil {
			continue
		}
		tg := targets(b.Data)
		names := make([]string, 0, len(tg))
		for k := range tg {
			names = append(names, k)
		}
		sort.Strings(names)
		for _, en := range names {
			addrs := tg[en]
			if len(addrs) > vt.N(4, 40) {
				addrs = addrs[:vt.N(4, 40)]
			}
			for _, a := range addrs {
				job++
				if job%e.NShards != e.Shard {
					continue
				}
				clean := &memf.File{Data: b.Data}
				if _, err := callEntry(entries[en], clean, a, sb); err != nil {
					continue
				}
				for k := 1; k <= clean.Reads; k++ { // EVERY call index of the clean run
					for _, mode := range []string{"error", "short-eof", "short-unexpected"} {
						c := ReadFaultCase{File: b.Name, Entry: en, Addr: a, K: k, Mode: mode}
						n++
						v := vt.SafeRun(runReadFault, c)
						switch v.Kind {
						case vt.Known:
							rec.KnownHit(v.ID, v.Detail, c)
						case vt.Violation:
							viol++
							if viol <= 5 {
								p := vt.ReportViolation(prop, "readfault", c, v.Detail)
								t.Errorf("%s (replay %s)", v.Detail, p)
							}
						}
					}
				}
				rec.Label("readfault", "entry="+en, 1)
			}
		}
	}
	rec.Bulk("readfault", n, n, nil)
	rec.Sample("readfault", ReadFaultCase{File: "lib-dense-v3", Entry: "objectheader", K: 2, Mode: "short-eof"})
}

// ---- (c) failing writes at every call index of a write-API history ------------------------------------------------------

type WriteFaultCase struct {
	History int    `json:"history"`
	K       int    `json:"k"`
	Op      string `json:"op"`                 // write | read | flush
	NoRetry bool   `json:"no_retry,omitempty"` // after a reported failure the caller does not repeat the call but goes on
}

func histories() [][]hist.Op {
	dense := []hist.Op{{K: "dataset", Path: "/t", D: &hist.DSpec{Type: "f64", Dims: []uint64{4}, Chunk: []uint64{2}, MaxDims: []uint64{hdf5.Unlimited}}}, {K: "write", Path: "/t", Seed: 1, Mode: 1}}
	for i := 0; i < 11; i++ {
		dense = append(dense, hist.Op{K: "attr", Path: "/t", Name: fmt.Sprintf("a%d", i), A: &hist.AttrVal{Kind: "str", N: 20, Seed: i}})
	}
	dense = append(dense, hist.Op{K: "delattr", Path: "/t", Name: "a3"}, hist.Op{K: "resize", Path: "/t", Dims: []uint64{7}}, hist.Op{K: "write", Path: "/t", Seed: 2, Mode: 1})
	first := []hist.Op{{K: "group", Path: "/g"}, {K: "dataset", Path: "/g/d", D: &hist.DSpec{Type: "i32", Dims: []uint64{5}}}, {K: "write", Path: "/g/d", Seed: 1, Mode: 1},
		{K: "attr", Path: "/g/d", Name: "a", A: &hist.AttrVal{Kind: "f64", Seed: 1}}, {K: "hard", Path: "/l", Target: "/g/d"}, {K: "soft", Path: "/s", Target: "/g"},
		{K: "attr", Path: "/g", Name: "ga", A: &hist.AttrVal{Kind: "i32", Seed: 2}}, {K: "densegroup", Path: "/dg", Links: [][2]string{{"x", "/g/d"}}}}
	return [][]hist.Op{
		first,
		dense,
		// variable-length data spanning several global heap collections (elements of up to 9000 bytes)
		{{K: "dataset", Path: "/v", D: &hist.DSpec{Type: "vl:str", Dims: []uint64{30}}}, {K: "write", Path: "/v", Seed: 5},
			{K: "attr", Path: "/v", Name: "a", A: &hist.AttrVal{Kind: "i32", Seed: 3}},
			{K: "dataset", Path: "/w", D: &hist.DSpec{Type: "vl:i32", Dims: []uint64{6}, Chunk: []uint64{4}}}, {K: "write", Path: "/w", Seed: 6},
			{K: "dataset", Path: "/n", D: &hist.DSpec{Type: "i32", Dims: []uint64{3}}}, {K: "write", Path: "/n", Seed: 7, Mode: 1}},
		// data that is written more than once (a refused rewrite leaves one complete version), a contiguous dataset larger than
		// a megabyte, and a small variable-length dataset followed by one whose elements make the shared heap collection roll over
		{{K: "dataset", Path: "/c2", D: &hist.DSpec{Type: "f64", Dims: []uint64{6}, Chunk: []uint64{2}}}, {K: "write", Path: "/c2", Seed: 1, Mode: 1}, {K: "write", Path: "/c2", Seed: 40, Mode: 1},
			{K: "dataset", Path: "/big", D: &hist.DSpec{Type: "f64", Dims: []uint64{140000}}}, {K: "write", Path: "/big", Seed: 3, Mode: 1}, {K: "write", Path: "/big", Seed: 50, Mode: 1},
			{K: "dataset", Path: "/a", D: &hist.DSpec{Type: "vl:str", Dims: []uint64{3}}}, {K: "write", Path: "/a", Seed: smallVL()},
			{K: "dataset", Path: "/b", D: &hist.DSpec{Type: "vl:str", Dims: []uint64{8}}}, {K: "write", Path: "/b", Seed: bigVL()}},
		// the first history in a file with the version 0 superblock (other creation code, fixed-address root group)
		append([]hist.Op{{K: "sb0"}}, first...),
		// a second session on an object in dense attribute storage: overwrite with another size, a new name, a delete
		append(append([]hist.Op{}, dense[:13]...), hist.Op{K: "reopen"},
			hist.Op{K: "attr", Path: "/t", Name: "a2", A: &hist.AttrVal{Kind: "str", N: 33, Seed: 77}},
			hist.Op{K: "attr", Path: "/t", Name: "znew", A: &hist.AttrVal{Kind: "f64", Seed: 5}},
			hist.Op{K: "delattr", Path: "/t", Name: "a5"}),
	}
}

// splitSB takes the superblock version marker off a history.
func splitSB(h []hist.Op) (int, []hist.Op) {
	if len(h) > 0 && h[0].K == "sb0" {
		return 0, h[1:]
	}
	return 2, h
}

// smallVL / bigVL: data seeds for which every element of a 3-element list is short, resp. at least three elements of an
// 8-element list are longer than a heap collection.
var smallVL = sync.OnceValue(func() int {
	for s := 0; s < 5000; s++ {
		_, el := hist.DSpec{Type: "vl:str"}.VLData([]uint64{3}, s)
		ok := true
		for _, e := range el {
			if len(e) > 64 || len(e) == 0 {
				ok = false
			}
		}
		if ok {
			return s
		}
	}
	return 0
})

var bigVL = sync.OnceValue(func() int {
	for s := 0; s < 5000; s++ {
		_, el := hist.DSpec{Type: "vl:str"}.VLData([]uint64{8}, s)
		n := 0
		for _, e := range el {
			if len(e) > 4000 {
				n++
			}
		}
		if n >= 3 {
			return s
		}
	}
	return 0
})

var hookMu sync.Mutex

// runHistoryWithFault runs history h failing the k-th I/O call of kind op; returns the number of calls of that kind
// seen, and how the API call during which the fault fired ended.
func runHistoryWithFault(h []hist.Op, op string, k int, noRetry ...bool) (calls int, firedIn string, outcome string, final *obs.File) {
	hookMu.Lock()
	defer hookMu.Unlock()
	file := filepath.Join(vt.GetEnv().Scratch, fmt.Sprintf("wf-%d.h5", os.Getpid()))
	defer os.Remove(file)
	fired := false
	failedPath, laterBroken := "", ""
	lastContinued = continued{}
	writer.VerifFaultHook = func(o string, off int64, n int) error {
		if o != op {
			return nil
		}
		calls++
		if calls == k {
			fired = true
			return errors.New("injected I/O failure")
		}
		return nil
	}
	defer func() { writer.VerifFaultHook = nil }()
	sbv, h := splitSB(h)
	ex, err := hist.NewExec(file, sbv)
	if err != nil {
		if fired {
			return calls, "CreateForWrite", "error", nil
		}
		return calls, "", "setup-error", nil
	}
	if fired {
		// the creation reported success although one of its writes was refused: everything from here on, and the file at the
		// end, must be what the fault-free run gives
		firedIn, outcome = "CreateForWrite", "nil"
	}
	defer func() {
		writer.VerifFaultHook = nil
		ex.Close()
	}()
	for i, o := range h {
		was := fired
		st := ex.Apply(o)
		if fired && !was {
			firedIn = fmt.Sprintf("op %d %s %s", i, o.K, o.Path)
			switch {
			case st.Broken != "" && strings.Contains(st.Broken, "panic"):
				return calls, firedIn, "panic: " + st.Broken, nil
			case st.Err != "":
				// the call reported the failure; from here on I/O works
				writer.VerifFaultHook = nil
				// (1) a refused Resize changed nothing: data of the refused shape is still refused
				if o.K == "resize" {
					if obj := ex.M.Resolve(o.Path); obj != nil && ex.DS[obj.ID] != nil && hist.NumElems(o.Dims) != hist.NumElems(obj.Dims) {
						_, goVal := obj.Spec.Data(o.Dims, 99, hist.ModeSeq)
						var werr error
						func() {
							defer func() {
								if p := recover(); p != nil {
									werr = fmt.Errorf("panic: %v", p)
								}
							}()
							werr = ex.DS[obj.ID].Write(goVal)
						}()
						if werr == nil {
							return calls, firedIn, "accepted-refused-shape", nil
						}
					}
				}
				// (2) the caller tries again: if the second attempt succeeds, the history goes on and must end where the
				// fault-free run ends; if it is refused too, the file as it stands must not hold different data (afterError)
				if len(noRetry) == 0 || !noRetry[0] {
					if st2 := ex.Apply(o); st2.Err == "" && st2.Broken == "" {
						outcome = "retried"
						continue
					}
				}
				// (3) refused again: the caller gives up on this call and goes on with the rest of its work. Whatever the library
				// accepts from here on must be in the file at the end (the model follows the calls that returned nil)
				outcome, failedPath = "error-continued", o.Path
				continue
			}
			outcome = "nil" // the call claims success: the history goes on and the final content is compared
		} else if outcome == "error-continued" && st.Broken != "" && laterBroken == "" {
			laterBroken = fmt.Sprintf("op %d %s %s: %s", i, o.K, o.Path, st.Broken)
		}
	}
	was := fired
	cerr := ex.FW.Close()
	if fired && !was {
		if cerr != nil {
			// the caller closes again (I/O works from here on): a second Close that reports success has written everything
			writer.VerifFaultHook = nil
			if len(noRetry) > 0 && noRetry[0] {
				return calls, "Close", "error", nil
			}
			var cerr2 error
			func() {
				defer func() {
					if p := recover(); p != nil {
						cerr2 = fmt.Errorf("panic: %v", p)
					}
				}()
				cerr2 = ex.FW.Close()
			}()
			if cerr2 != nil {
				if strings.HasPrefix(cerr2.Error(), "panic") {
					return calls, "Close", "panic: second Close: " + cerr2.Error(), nil
				}
				return calls, "Close", "error", nil
			}
			firedIn, outcome = "Close", "retried"
		} else {
			firedIn, outcome = "Close", "nil"
		}
	}
	if !fired {
		outcome = "clean"
	}
	final = obs.Read(file, obs.Options{})
	if outcome == "error-continued" {
		lastContinued = continued{failedPath: failedPath, broken: laterBroken}
		leaf := failedPath[strings.LastIndex(failedPath, "/")+1:]
		for _, p := range hist.Compare(ex.M, final, hist.Opts{}) {
			// the refused call's own target may exist, not exist or be half-written
			if p.Path == failedPath || strings.HasPrefix(p.Path, failedPath+"/") || (leaf != "" && strings.Contains(p.Detail, "\""+leaf+"\"")) || p.Kind == "attr-value-unsigned" {
				continue
			}
			if (p.Kind == "child-missing" || p.Kind == "dataset-missing" || p.Kind == "group-missing" || p.Kind == "link-invisible") && underDenseGroup(ex.M, p.Path) {
				continue // the reader never lists the members of a dense group (C03's open finding)
			}
			if p.Kind == "link-as-object" || p.Kind == "link-invisible" {
				continue // soft / external links are stored as pseudo objects (C03's open finding)
			}
			lastContinued.problems = append(lastContinued.problems, p.String())
		}
	}
	// what an independent decoder makes of the stored bytes, compared with the model (variable-length data, raw bytes of
	// types without a typed read): kept as a summary string next to the observation
	lastIndep = ""
	if data, err := os.ReadFile(file); err == nil {
		res := hist.CompareIndep(ex.M, data)
		var ps []string
		for _, p := range res.Problems {
			ps = append(ps, p.String())
		}
		sort.Strings(ps)
		lastIndep = "decode:" + res.DecodeErr + " problems:" + strings.Join(ps, " | ")
	}
	return calls, firedIn, outcome, final
}

func underDenseGroup(m *hist.Model, p string) bool {
	for q := p; q != "" && q != "/"; q = q[:strings.LastIndex(q, "/")] {
		if o := m.Resolve(q); o != nil && o.Dense {
			return true
		}
	}
	return false
}

// continued describes a run that went on after a call had reported an I/O failure twice.
type continued struct {
	failedPath string
	broken     string   // first later call whose outcome contradicts the model (e.g. a child accepted below a parent that was refused)
	problems   []string // differences between the final file and the model of the calls that returned nil
}

var lastContinued continued

// lastIndep is the independent decoder's summary of the last run that reached its end (set under hookMu).
var lastIndep string

var cleanFinal, cleanIndep sync.Map

func cleanObs(hi int, h []hist.Op) *obs.File {
	if v, ok := cleanFinal.Load(hi); ok {
		return v.(*obs.File)
	}
	_, _, _, o := runHistoryWithFault(h, "write", -1)
	cleanFinal.Store(hi, o)
	cleanIndep.Store(hi, lastIndep)
	return o
}

func runWriteFault(c WriteFaultCase) vt.Verdict {
	hs := histories()
	if c.History < 0 || c.History >= len(hs) {
		return vt.Skipped("no such history")
	}
	_, where, outcome, final := runHistoryWithFault(hs[c.History], c.Op, c.K, c.NoRetry)
	switch {
	case outcome == "clean" || outcome == "setup-error":
		return vt.Skipped("fault index beyond the calls of the history")
	case strings.HasPrefix(outcome, "panic"):
		return vt.Bad("history %d: %s #%d failing made %s panic: %s", c.History, c.Op, c.K, where, outcome)
	case outcome == "accepted-refused-shape":
		return vt.Bad("history %d: %s #%d failed during %s, the call returned an error, and afterwards the handle accepts a Write shaped for the refused extent", c.History, c.Op, c.K, where)
	case outcome == "retried":
		mine := lastIndep
		if d := obs.Diff(noAddr(cleanObs(c.History, hs[c.History])), noAddr(final)); d != "" {
			return vt.Bad("history %d: %s #%d failed during %s, the call returned an error, a second attempt returned nil, and the final content differs from the fault-free run: %s", c.History, c.Op, c.K, where, clip(d))
		}
		// (a failed attempt may leave allocated but unreferenced structures behind, e.g. a heap object without an index record:
		// where the strict decoder refuses the file for that, only the library-level comparison above applies)
		// (the one decode failure a refused attempt is known to leave behind: heap object count and name index size differ by the orphan)
		orphan := strings.Contains(mine, "header counts") && strings.Contains(mine, "but the name index holds")
		if ci, _ := cleanIndep.Load(c.History); ci != nil && ci.(string) != mine && !orphan {
			return vt.Bad("history %d: %s #%d failed during %s, a second attempt returned nil, and the stored bytes decode differently from the fault-free run's: %s (fault-free: %s)", c.History, c.Op, c.K, where, clip(mine), clip(ci.(string)))
		}
	case outcome == "error-continued":
		lc := lastContinued
		if lc.broken != "" {
			return vt.Bad("history %d: %s #%d failed during %s (refused twice); afterwards %s", c.History, c.Op, c.K, where, clip(lc.broken))
		}
		if len(lc.problems) > 0 {
			return vt.Bad("history %d: %s #%d failed during %s (refused twice); the calls that returned nil afterwards are not what the file holds: %s", c.History, c.Op, c.K, where, clip(lc.problems[0]))
		}
		if final != nil {
			if p := afterError(cleanObs(c.History, hs[c.History]), final, hs[c.History], where); p != "" {
				return vt.Bad("history %d: %s #%d failed during %s (refused twice), and the file read at the end holds different data: %s", c.History, c.Op, c.K, where, clip(p))
			}
		}
	case outcome == "error" && final != nil:
		if p := afterError(cleanObs(c.History, hs[c.History]), final, hs[c.History], where); p != "" {
			return vt.Bad("history %d: %s #%d failed during %s, the call returned an error, and the file read afterwards holds different data: %s", c.History, c.Op, c.K, where, clip(p))
		}
	case outcome == "nil":
		// the API call returned nil although one of its I/O calls failed: then it must have achieved exactly what it
		// achieves with working I/O - the final content equals the fault-free run's
		mine := lastIndep
		if d := obs.Diff(cleanObs(c.History, hs[c.History]), final); d != "" {
			return vt.Bad("history %d: %s #%d failed during %s, the call returned nil and the final content differs from the fault-free run: %s", c.History, c.Op, c.K, where, clip(d))
		}
		if ci, _ := cleanIndep.Load(c.History); ci != nil && ci.(string) != mine {
			return vt.Bad("history %d: %s #%d failed during %s, the call returned nil and the stored bytes decode differently from the fault-free run's: %s (fault-free: %s)", c.History, c.Op, c.K, where, clip(mine), clip(ci.(string)))
		}
	}
	return vt.Pass()
}

// afterError judges the file left behind by a call that reported an I/O failure. The failed call may have taken effect, not
// taken effect, or left its own target half-written; but nothing the reader lists afterwards may be DIFFERENT data: every
// listed member exists under that name and kind in the fault-free run, every attribute value and every dataset that the
// history writes exactly once (other than the failed call's own target) reads as in the fault-free run, as never written
// (zeros), or with an error.
func afterError(clean, got *obs.File, h []hist.Op, where string) string {
	if got.OpenErr != "" {
		return ""
	}
	for _, p := range got.Panics {
		return "panic: " + p
	}
	target, failedKind := "", ""
	if f := strings.Fields(where); len(f) >= 4 {
		target, failedKind = f[3], f[2] // "op <i> <kind> <path>"
	}
	writes := map[string]int{}
	for _, o := range h {
		if o.K == "write" || o.K == "resize" {
			writes[o.Path]++
		}
	}
	kinds := func(f *obs.File, p string) map[string]string {
		m := map[string]string{}
		if g := f.Groups[p]; g != nil {
			for _, c := range g.Children {
				m[c.Name] = c.Kind
			}
		}
		return m
	}
	for p := range got.Groups {
		cg := clean.Groups[p]
		if cg == nil {
			return fmt.Sprintf("group %s is listed, the fault-free run has no such group", p)
		}
		want := kinds(clean, p)
		for n, k := range kinds(got, p) {
			if wk, ok := want[n]; !ok {
				return fmt.Sprintf("group %s lists a member %q (%s) that the fault-free run never has", p, n, k)
			} else if wk != k {
				return fmt.Sprintf("group %s lists member %q as a %s, it is a %s", p, n, k, wk)
			}
		}
		if p != target && got.Groups[p].AttrsErr == "" {
			if ps := attrSubset(p, cg.Attrs, got.Groups[p].Attrs); ps != "" {
				return ps
			}
		}
	}
	for p, d := range got.Datasets {
		cd := clean.Datasets[p]
		if cd == nil {
			return fmt.Sprintf("dataset %s is listed, the fault-free run has no such dataset", p)
		}
		// values of the dataset whose rewrite was refused: one of the complete versions the history writes (the refused call's
		// own data included), the never-written state, or an error - never a blend
		if p == target && failedKind == "write" && writes[p] > 1 && d.ReadErr == "" && len(d.Read) > 0 {
			match := true
			for _, v := range d.Read {
				if v != 0 {
					match = false
					break
				}
			}
			for _, ver := range versionsOf(h, p) {
				if reflect.DeepEqual(ver, d.Read) {
					match = true
				}
			}
			if !match {
				return fmt.Sprintf("dataset %s reads %d values that are none of the versions the history writes (and not the never-written state): a blend", p, len(d.Read))
			}
		}
		if p == target {
			continue
		}
		if d.AttrsErr == "" {
			if ps := attrSubset(p, cd.Attrs, d.Attrs); ps != "" {
				return ps
			}
		}
		if writes[p] == 1 && d.ReadErr == "" && cd.ReadErr == "" && !reflect.DeepEqual(d.Read, cd.Read) {
			zero := true
			for _, v := range d.Read {
				if v != 0 {
					zero = false
				}
			}
			if !zero || len(d.Read) != len(cd.Read) {
				return fmt.Sprintf("dataset %s reads values that are neither the written ones nor the never-written state", p)
			}
		}
	}
	return ""
}

var versionCache sync.Map // "<history fingerprint>|<path>" -> [][]uint64

// versionsOf returns what Read gives for dataset p after each of the history's full writes and resizes of it (fault-free
// prefix runs).
func versionsOf(h []hist.Op, p string) [][]uint64 {
	key := fmt.Sprintf("%d|%s|%s", len(h), h[0].Path, p)
	if v, ok := versionCache.Load(key); ok {
		return v.([][]uint64)
	}
	var out [][]uint64
	for i, o := range h {
		if (o.K != "write" && o.K != "resize") || o.Path != p {
			continue
		}
		file := filepath.Join(vt.GetEnv().Scratch, fmt.Sprintf("wfv-%d.h5", os.Getpid()))
		if ex, err := hist.NewExec(file, 2); err == nil {
			for _, q := range h[:i+1] {
				if q.K == "sb0" {
					continue
				}
				ex.Apply(q)
			}
			ex.Close()
			if d := obs.Read(file, obs.Options{}).Datasets[p]; d != nil && d.ReadErr == "" {
				out = append(out, d.Read)
			}
		}
		os.Remove(file)
	}
	versionCache.Store(key, out)
	return out
}

// noAddr returns a copy of the observation without object addresses (a repeated call allocates anew; where an object lies
// is not content).
func noAddr(f *obs.File) *obs.File {
	if f == nil {
		return nil
	}
	c := *f
	c.Datasets = map[string]*obs.Dataset{}
	for p, d := range f.Datasets {
		dd := *d
		dd.Addr = 0
		if i := strings.Index(dd.Info, "(address="); i >= 0 {
			dd.Info = dd.Info[:i] // the Info text names the data address
		}
		c.Datasets[p] = &dd
	}
	return &c
}

func attrSubset(path string, clean, got []obs.Attr) string {
	m := map[string]obs.Attr{}
	for _, a := range clean {
		m[a.Name] = a
	}
	for _, a := range got {
		c, ok := m[a.Name]
		if !ok {
			return fmt.Sprintf("%s lists an attribute %q that the fault-free run never has", path, a.Name)
		}
		if a.Data != c.Data || a.Class != c.Class || a.Size != c.Size {
			return fmt.Sprintf("%s: attribute %q holds a value that was never written", path, a.Name)
		}
	}
	return ""
}

func clip(s string) string {
	if len(s) > 400 {
		return s[:400] + "…"
	}
	return s
}

func writeFaultBody(t *testing.T) {
	e := vt.GetEnv()
	rec := vt.Recorder(prop)
	var n int64
	viol := 0
	job := 0
	for hi, h := range histories() {
		for _, op := range []string{"write", "read", "flush"} {
			total, _, _, _ := runHistoryWithFault(h, op, -1)
			for k := 1; k <= total; k++ { // EVERY call index
				job++
				if job%e.NShards != e.Shard {
					continue
				}
				for _, noRetry := range []bool{false, true} { // the caller repeats a refused call once, or goes on without it
					c := WriteFaultCase{History: hi, K: k, Op: op, NoRetry: noRetry}
					vt.Current(prop, "writefault", c)
					n++
					v := vt.SafeRun(runWriteFault, c)
					switch v.Kind {
					case vt.Known:
						rec.KnownHit(v.ID, v.Detail, c)
					case vt.Violation:
						viol++
						if viol <= 5 {
							p := vt.ReportViolation(prop, "writefault", c, v.Detail)
							t.Errorf("%s (replay %s)", v.Detail, p)
						}
					}
				}
			}
			rec.Label("writefault", fmt.Sprintf("history%d_%s_calls", hi, op), int64(total))
		}
	}
	rec.Bulk("writefault", n, n, nil)
	rec.SetExhaustive("writefault", true)
	rec.Sample("writefault", WriteFaultCase{History: 1, K: 17, Op: "write"})
}

func TestProp(t *testing.T) {
	vt.Run(t, prop,
		vt.Func[TruncCase]{Name: "truncate", Body: truncBody, One: runTrunc},
		vt.Sub[GenTruncCase]{Prop: prop, Name: "truncate-generated", Gen: genGenTrunc, Run: runGenTrunc, Classify: classifyGenTrunc}.WithBudget(1500, 20000),
		vt.Func[ReadFaultCase]{Name: "readfault", Body: readFaultBody, One: runReadFault},
		vt.Func[WriteFaultCase]{Name: "writefault", Body: writeFaultBody, One: runWriteFault},
	)
}
