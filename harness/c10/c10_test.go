// Package c10 decides property C10: reopening a file for modification preserves everything not modified.
package c10

import (
	"crypto/sha256"
	"fmt"
	hdf5 "github.com/scigolib/hdf5"
	"os"
	"path/filepath"
	"strings"
	"testing"

	"github.com/scigolib/hdf5/verif/hist"
	"github.com/scigolib/hdf5/verif/obs"
	"github.com/scigolib/hdf5/verif/vt"
	"pgregory.net/rapid"
)

const prop = "C10"

type Case struct {
	// NoRebalance: the name index of dense attribute storage is not rebalanced on deletes (a documented writer option /
	// toggle; content must not depend on it)
	NoRebalance bool        `json:"no_rebalance,omitempty"`
	SB          int         `json:"sb"`
	Base        []hist.Op   `json:"base"`
	Sessions    [][]hist.Op `json:"sessions"`
}

func gen(t *rapid.T) Case {
	c := Case{SB: rapid.SampledFrom([]int{2, 2, 0, 3}).Draw(t, "sb"), NoRebalance: rapid.IntRange(0, 3).Draw(t, "noRebalance") == 0}
	type info struct {
		path    string
		d       *hist.DSpec
		chunked bool
	}
	var dss []info
	nds := rapid.IntRange(1, 4).Draw(t, "nds")
	inGroup := rapid.Bool().Draw(t, "inGroup")
	if inGroup {
		c.Base = append(c.Base, hist.Op{K: "group", Path: "/g"})
	}
	for i := 0; i < nds; i++ {
		p := fmt.Sprintf("/d%d", i)
		if inGroup && i%2 == 1 {
			p = "/g" + p
		}
		d := &hist.DSpec{Type: rapid.SampledFrom([]string{"i32", "f64", "u8", "i64", "f32", "str", "cmp:num", "cmp:str", "vl:str", "vl:i64", "vl:f32"}).Draw(t, "type")}
		if d.Type == "str" {
			d.StrSize = 6
		}
		rank := rapid.SampledFrom([]int{1, 1, 2}).Draw(t, "rank")
		for k := 0; k < rank; k++ {
			d.Dims = append(d.Dims, uint64(rapid.IntRange(1, 8).Draw(t, "extent")))
		}
		chunked := rapid.IntRange(0, 3).Draw(t, "chunked") == 0
		if chunked {
			for _, e := range d.Dims {
				d.Chunk = append(d.Chunk, uint64(rapid.IntRange(1, int(e)).Draw(t, "chunk")))
			}
		}
		if k, _ := d.Base(); chunked && k == "num" && rapid.Bool().Draw(t, "resizable") {
			for range d.Dims {
				d.MaxDims = append(d.MaxDims, hdf5.Unlimited)
			}
		}
		dss = append(dss, info{p, d, chunked})
		c.Base = append(c.Base, hist.Op{K: "dataset", Path: p, D: d}, hist.Op{K: "write", Path: p, Seed: rapid.IntRange(0, 999).Draw(t, "seed"), Mode: 1})
		for a := 0; a < rapid.SampledFrom([]int{0, 0, 1, 3, 9}).Draw(t, "nattr"); a++ {
			c.Base = append(c.Base, hist.Op{K: "attr", Path: p, Name: fmt.Sprintf("base%d", a), A: &hist.AttrVal{Kind: rapid.SampledFrom([]string{"i32", "f64", "str"}).Draw(t, "akind"), N: 10, Seed: a}})
		}
	}
	names := []string{"a", "b", "c", "base0", "base1", "base2", "units", "a_long_attribute_name_for_header_pressure"}
	ns := rapid.IntRange(1, 5).Draw(t, "nsessions")
	created := 0
	for s := 0; s < ns; s++ {
		var ops []hist.Op
		n := rapid.SampledFrom([]int{0, 1, 2, 4, 10}).Draw(t, "nops")
		for i := 0; i < n; i++ {
			o := dss[rapid.IntRange(0, len(dss)-1).Draw(t, "obj")]
			kind := rapid.SampledFrom([]string{"attr", "attr", "attr", "delattr", "write", "create", "mkgroup", "fit", "fit", "resize", "hard", "burst", "gattr", "focus", "focus", "wbig"}).Draw(t, "k")
			focusOn := func(o info) {
				// several operations in a row on ONE object, through its handle and around it (links): the routes by which an
				// object header gets rewritten have to stay in step
				for j, m := 0, rapid.IntRange(3, 6).Draw(t, "focusLen"); j < m; j++ {
					switch fk := rapid.SampledFrom([]string{"attr", "delattr", "write", "resize", "hard", "attr"}).Draw(t, "fk"); fk {
					case "attr":
						ops = append(ops, hist.Op{K: "attr", Path: o.path, Name: rapid.SampledFrom(names).Draw(t, "aname"), A: &hist.AttrVal{Kind: rapid.SampledFrom([]string{"i32", "str", "f64"}).Draw(t, "akind"), N: 12, Seed: rapid.IntRange(0, 999).Draw(t, "aseed")}})
					case "delattr":
						ops = append(ops, hist.Op{K: "delattr", Path: o.path, Name: rapid.SampledFrom(names).Draw(t, "aname")})
					case "write":
						ops = append(ops, hist.Op{K: "write", Path: o.path, Seed: rapid.IntRange(0, 999).Draw(t, "wseed"), Mode: 1})
					case "resize":
						if o.d.MaxDims != nil {
							var dims []uint64
							for range o.d.Dims {
								dims = append(dims, uint64(rapid.IntRange(1, 12).Draw(t, "newExtent")))
							}
							ops = append(ops, hist.Op{K: "resize", Path: o.path, Dims: dims}, hist.Op{K: "write", Path: o.path, Seed: rapid.IntRange(0, 999).Draw(t, "wseed"), Mode: 1})
						}
					case "hard":
						created++
						ops = append(ops, hist.Op{K: "hard", Path: fmt.Sprintf("/hl%d", created), Target: o.path})
					}
				}
			}
			if kind == "focus" {
				focusOn(o)
				continue
			}
			switch kind {
			case "resize":
				if o.d.MaxDims != nil {
					var dims []uint64
					for range o.d.Dims {
						dims = append(dims, uint64(rapid.IntRange(1, 12).Draw(t, "newExtent")))
					}
					// followed by a full write: what a resize alone leaves behind is C13's subject
					ops = append(ops, hist.Op{K: "resize", Path: o.path, Dims: dims}, hist.Op{K: "write", Path: o.path, Seed: rapid.IntRange(0, 999).Draw(t, "wseed"), Mode: 1})
				}
			case "hard":
				created++
				ops = append(ops, hist.Op{K: "hard", Path: fmt.Sprintf("/hl%d", created), Target: o.path})
			case "burst":
				// enough new names in one session to leave compact attribute storage
				for j := 0; j < rapid.SampledFrom([]int{3, 9, 12}).Draw(t, "burst"); j++ {
					ops = append(ops, hist.Op{K: "attr", Path: o.path, Name: fmt.Sprintf("burst%d", j), A: &hist.AttrVal{Kind: []string{"i32", "str", "f64"}[j%3], N: 5, Seed: j + s}})
				}
			case "wbig":
				// a value larger than a dense attribute heap object can be (64 KiB): refused or stored, never at the cost of
				// the attributes that are already there
				ops = append(ops, hist.Op{K: "attr", Path: o.path, Name: "big", A: &hist.AttrVal{Kind: "[]f64", N: 9000, Seed: 1}})
			case "gattr":
				if inGroup {
					ops = append(ops, hist.Op{K: "attr", Path: "/g", Name: rapid.SampledFrom(names).Draw(t, "aname"), A: &hist.AttrVal{Kind: "i32", Seed: rapid.IntRange(0, 999).Draw(t, "aseed")}})
				}
			case "fit":
				ops = append(ops, hist.Op{K: "attrfit", Path: o.path, Name: rapid.SampledFrom(names).Draw(t, "aname"), Delta: rapid.IntRange(-4, 6).Draw(t, "delta"), Seed: rapid.IntRange(0, 999).Draw(t, "fseed")})
			case "attr":
				a := &hist.AttrVal{Kind: rapid.SampledFrom([]string{"i32", "f64", "str", "str", "[]f64", "u16", "i8"}).Draw(t, "akind"), Seed: rapid.IntRange(0, 999).Draw(t, "aseed")}
				if a.Kind == "str" {
					a.N = rapid.IntRange(0, 100).Draw(t, "alen")
				} else if strings.HasPrefix(a.Kind, "[]") {
					a.N = rapid.IntRange(1, 12).Draw(t, "alen")
				}
				ops = append(ops, hist.Op{K: "attr", Path: o.path, Name: rapid.SampledFrom(names).Draw(t, "aname"), A: a})
			case "delattr":
				ops = append(ops, hist.Op{K: "delattr", Path: o.path, Name: rapid.SampledFrom(names).Draw(t, "aname")})
			case "write":
				ops = append(ops, hist.Op{K: "write", Path: o.path, Seed: rapid.IntRange(0, 999).Draw(t, "wseed"), Mode: 1})
			case "create":
				created++
				nd := &hist.DSpec{Type: rapid.SampledFrom([]string{"i32", "f64", "u8"}).Draw(t, "ntype"), Dims: []uint64{uint64(rapid.IntRange(1, 6).Draw(t, "nextent"))}}
				if rapid.Bool().Draw(t, "nchunked") {
					nd.Chunk = []uint64{uint64(rapid.IntRange(1, int(nd.Dims[0])).Draw(t, "nchunk"))}
					if rapid.Bool().Draw(t, "nresizable") {
						nd.MaxDims = []uint64{hdf5.Unlimited} // handles of datasets created in the session differ from reopened ones
					}
				}
				np := fmt.Sprintf("/new%d", created)
				ops = append(ops, hist.Op{K: "dataset", Path: np, D: nd})
				if rapid.Bool().Draw(t, "nwrite") {
					ops = append(ops, hist.Op{K: "write", Path: np, Seed: rapid.IntRange(0, 999).Draw(t, "wseed"), Mode: 1})
				}
				dss = append(dss, info{np, nd, nd.Chunk != nil}) // later sessions work on it like on any other dataset
				if rapid.Bool().Draw(t, "focusNew") {
					focusOn(dss[len(dss)-1]) // the handle of a dataset created in this session is not the handle OpenDataset gives
				}
			case "mkgroup":
				created++
				ops = append(ops, hist.Op{K: "group", Path: fmt.Sprintf("/newg%d", created)})
			}
		}
		c.Sessions = append(c.Sessions, ops)
	}
	if len(c.Sessions) > 1 && rapid.Bool().Draw(t, "firstInCreateSession") {
		// the first batch of modifications happens in the session that created the file (CreateForWrite), whose handles
		// and bookkeeping differ from those of an OpenForWrite session
		c.Base = append(c.Base, c.Sessions[0]...)
		c.Sessions = c.Sessions[1:]
	}
	return c
}

func classify(c Case) (bool, []string) {
	mod, noop := 0, 0
	for _, s := range c.Sessions {
		if len(s) == 0 {
			noop++
		} else {
			mod++
		}
	}
	labels := []string{fmt.Sprintf("sb=%d", c.SB), fmt.Sprintf("sessions=%d", len(c.Sessions))}
	if noop > 0 {
		labels = append(labels, "has_noop_session")
	}
	return mod >= 2 || (mod >= 1 && len(c.Base) > 3), labels
}

func sha(file string) string {
	b, err := os.ReadFile(file)
	if err != nil {
		return "ERR:" + err.Error()
	}
	return fmt.Sprintf("%x", sha256.Sum256(b))
}

func run(c Case) vt.Verdict {
	file := filepath.Join(vt.GetEnv().Scratch, fmt.Sprintf("c10-%d.h5", os.Getpid()))
	defer os.Remove(file)
	var wopts []interface{}
	if c.NoRebalance {
		wopts = append(wopts, hdf5.WithBTreeRebalancing(false))
	}
	ex, err := hist.NewExec(file, c.SB, wopts...)
	if err != nil {
		return vt.Bad("CreateForWrite: %v", err)
	}
	ex.NoRebalance = c.NoRebalance
	defer ex.Close()
	for i, op := range c.Base {
		st := ex.Apply(op)
		if st.Broken != "" {
			return vt.Bad("base op %d %s %s: %s", i, op.K, op.Path, st.Broken)
		}
	}
	if err := ex.Close(); err != nil {
		return vt.Bad("Close of the base file: %v", err)
	}
	check := func(stage string) *vt.Verdict {
		f := obs.Read(file, obs.Options{SelSeeds: []uint64{11, 22, 33, 44}})
		for _, p := range hist.Compare(ex.M, f, hist.Opts{RefCount: true}) {
			if p.Kind == "attr-value-unsigned" {
				continue
			}
			v := vt.Bad("%s: %s", stage, p)
			return &v
		}
		return nil
	}
	if v := check("base file"); v != nil {
		return *v
	}
	for s, ops := range c.Sessions {
		before := sha(file)
		st := ex.Apply(hist.Op{K: "reopen"}) // Close (already closed: no-op) + OpenForWrite
		if st.Broken != "" {
			return vt.Bad("session %d: %s", s, st.Broken)
		}
		modified := false
		for i, op := range ops {
			st := ex.Apply(op)
			if st.Broken != "" {
				return vt.Bad("session %d op %d %s %s: %s", s, i, op.K, op.Path, st.Broken)
			}
			if strings.HasPrefix(st.Err, "open: ") {
				return vt.Bad("session %d op %d: OpenDataset(%s) failed on a file the library wrote: %s", s, i, op.Path, st.Err)
			}
			if st.Err == "" {
				modified = true
			}
		}
		if err := ex.FW.Close(); err != nil {
			return vt.Bad("session %d: Close: %v", s, err)
		}
		if !modified && len(ops) == 0 {
			if after := sha(file); after != before {
				return vt.Bad("session %d made no modification but the file changed (sha256 %s -> %s)", s, before[:16], after[:16])
			}
		}
		if v := check(fmt.Sprintf("after session %d (%d ops)", s, len(ops))); v != nil {
			return *v
		}
	}
	// the stored bytes after the last session, as an independent decoder sees them (structure counts, heap and index
	// consistency, raw bytes of every type): equal to the model
	if data, err := os.ReadFile(file); err == nil {
		res := hist.CompareIndep(ex.M, data)
		if res.DecodeErr != "" {
			return vt.Bad("after the last session the independent decoder cannot decode the file: %s", res.DecodeErr)
		}
		for _, p := range res.Problems {
			if p.Kind == "indep-refcount" {
				continue
			}
			return vt.Bad("after the last session the independent decoder disagrees with the model: %s", p)
		}
	}
	return vt.Pass()
}

func TestProp(t *testing.T) {
	vt.Run(t, prop,
		vt.Sub[Case]{Prop: prop, Name: "sessions", Gen: gen, Run: run, Classify: classify}.WithBudget(2000, 8000),
		vt.Sub[ModCase]{Prop: prop, Name: "modifyfit", Gen: genMod, Run: runMod, Classify: func(c ModCase) (bool, []string) {
			return c.Delta >= -2 && c.Delta <= 2, []string{fmt.Sprintf("header=%d", 256+c.Delta)}
		}}.WithBudget(120, 1500))
}
