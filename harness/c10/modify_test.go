package c10

// modifyfit: the in-place replacement of a compact attribute through internal/core (ModifyCompactAttribute, the exported
// entry below the public WriteAttribute) with a value sized so that the object header's messages total 256+delta bytes
// (255 is the most a version 2 header with a one-byte size field holds). The call either reports an error and the file
// reads as before, or reports success and the file reads with the new value; the object allocated next is untouched.

import (
	"fmt"
	"os"
	"path/filepath"

	hdf5 "github.com/scigolib/hdf5"
	"github.com/scigolib/hdf5/internal/core"
	"github.com/scigolib/hdf5/verif/hist"
	"github.com/scigolib/hdf5/verif/obs"
	"github.com/scigolib/hdf5/verif/vt"
	"pgregory.net/rapid"
)

type ModCase struct {
	SB    int `json:"sb"`
	Delta int `json:"delta"` // header message bytes after the replacement = 256 + Delta
	Extra int `json:"extra"` // further small attributes on the object
	Seed  int `json:"seed"`
}

func genMod(t *rapid.T) ModCase {
	return ModCase{SB: rapid.SampledFrom([]int{2, 3}).Draw(t, "sb"), Delta: rapid.IntRange(-6, 6).Draw(t, "delta"), Extra: rapid.IntRange(0, 1).Draw(t, "extra"), Seed: rapid.IntRange(0, 99).Draw(t, "seed")}
}

func runMod(c ModCase) vt.Verdict {
	if (c.SB != 2 && c.SB != 3) || c.Delta < -40 || c.Delta > 40 || c.Extra < 0 || c.Extra > 4 {
		return vt.Skipped("outside the generated domain")
	}
	file := filepath.Join(vt.GetEnv().Scratch, fmt.Sprintf("c10m-%d.h5", os.Getpid()))
	defer os.Remove(file)
	ex, err := hist.NewExec(file, c.SB)
	if err != nil {
		return vt.Bad("CreateForWrite: %v", err)
	}
	ops := []hist.Op{{K: "dataset", Path: "/d", D: &hist.DSpec{Type: "f64", Dims: []uint64{4}}}, {K: "write", Path: "/d", Seed: 1, Mode: hist.ModeSeq},
		{K: "dataset", Path: "/e", D: &hist.DSpec{Type: "i32", Dims: []uint64{6}}}, {K: "write", Path: "/e", Seed: 2, Mode: hist.ModeSeq},
		{K: "attr", Path: "/d", Name: "a", A: &hist.AttrVal{Kind: "str", N: 5, Seed: c.Seed}}}
	for k := 0; k < c.Extra; k++ {
		ops = append(ops, hist.Op{K: "attr", Path: "/d", Name: fmt.Sprintf("x%d", k), A: &hist.AttrVal{Kind: "i32", Seed: k}})
	}
	for _, op := range ops {
		if st := ex.Apply(op); st.Err != "" || st.Broken != "" {
			ex.Close()
			return vt.Bad("setup %s %s: %s%s", op.K, op.Path, st.Err, st.Broken)
		}
	}
	if err := ex.Close(); err != nil {
		return vt.Bad("Close: %v", err)
	}
	before := obs.Read(file, obs.Options{})
	// where the object is, and what its header holds now
	f, err := hdf5.Open(file)
	if err != nil {
		return vt.Bad("Open: %v", err)
	}
	var addr uint64
	f.Walk(func(p string, o hdf5.Object) {
		if d, ok := o.(*hdf5.Dataset); ok && p == "/d" {
			addr = d.Address()
		}
	})
	sb := f.Superblock()
	oh, err := core.ReadObjectHeader(f.Reader(), addr, sb)
	if err != nil || addr == 0 {
		f.Close()
		return vt.Bad("ReadObjectHeader(/d at %d): %v", addr, err)
	}
	total, old := 0, -1
	for _, m := range oh.Messages {
		total += 4 + len(m.Data)
		if m.Type == core.MsgAttribute {
			if a, err := core.ParseAttributeMessage(m.Data, sb.Endianness); err == nil && a.Name == "a" {
				old = 4 + len(m.Data)
			}
		}
	}
	f.Close()
	if old < 0 {
		return vt.Skipped("attribute a is not stored in the object header (dense storage)")
	}
	var attr *core.Attribute
	for l := 1; l < 400 && attr == nil; l++ {
		dt, err := core.CreateBasicDatatypeMessage(core.DatatypeString, uint32(l))
		if err != nil {
			continue
		}
		data := make([]byte, l)
		for i := range data {
			data[i] = byte('A' + (i+c.Seed)%26)
		}
		cand := &core.Attribute{Name: "a", Datatype: dt, Dataspace: &core.DataspaceMessage{Dimensions: []uint64{1}}, Data: data}
		msg, err := core.EncodeAttributeFromStruct(cand, sb)
		if err == nil && total-old+4+len(msg) == 256+c.Delta {
			attr = cand
		}
	}
	if attr == nil {
		return vt.Skipped("no string length gives a header of %d bytes", 256+c.Delta)
	}
	w, err := os.OpenFile(file, os.O_RDWR, 0)
	if err != nil {
		return vt.Bad("open for writing: %v", err)
	}
	merr := core.ModifyCompactAttribute(w, addr, "a", attr, sb)
	w.Close()
	after := obs.Read(file, obs.Options{})
	if merr != nil {
		if d := obs.Diff(before, after); d != "" {
			return vt.Bad("ModifyCompactAttribute refused a value that makes the header %d bytes (%v) but the file changed: %s", 256+c.Delta, merr, d)
		}
		return vt.Pass()
	}
	if after.OpenErr != "" {
		return vt.Bad("ModifyCompactAttribute accepted a value that makes the header %d bytes; afterwards the file does not open: %s", 256+c.Delta, after.OpenErr)
	}
	// success: everything as before except the value of a
	want := string(attr.Data)
	da, db := after.Datasets["/d"], before.Datasets["/d"]
	if da == nil || db == nil {
		return vt.Bad("accepted (header %d bytes): dataset /d is no longer listed", 256+c.Delta)
	}
	found := false
	for _, a := range da.Attrs {
		if a.Name == "a" {
			found = true
			if a.ValueErr != "" || a.Value != obs.Render(want) {
				return vt.Bad("accepted (header %d bytes): attribute a reads %s %s, written %q", 256+c.Delta, a.Value, a.ValueErr, want)
			}
		}
	}
	if !found || len(da.Attrs) != len(db.Attrs) {
		return vt.Bad("accepted (header %d bytes): /d lists %d attributes (a present: %v), before %d", 256+c.Delta, len(da.Attrs), found, len(db.Attrs))
	}
	da2, db2 := *da, *db
	da2.Attrs, db2.Attrs, da2.Info, db2.Info = nil, nil, "", ""
	a2, b2 := *after, *before
	a2.Datasets = map[string]*obs.Dataset{"/e": after.Datasets["/e"], "/d": &da2}
	b2.Datasets = map[string]*obs.Dataset{"/e": before.Datasets["/e"], "/d": &db2}
	if d := obs.Diff(&b2, &a2); d != "" {
		return vt.Bad("accepted (header %d bytes): something other than the value of a changed: %s", 256+c.Delta, d)
	}
	return vt.Pass()
}
