package indeptest

import (
	"encoding/binary"
	"fmt"
	"math"
	"os"
	"path/filepath"
	"runtime"
	"strings"
	"testing"
	"time"

	"github.com/scigolib/hdf5/verif/indep"
)

// TestKnownValues: reference files whose contents follow a known rule (they exercise N-d chunk
// placement with partial edge chunks, deflate and shuffle).
func TestKnownValues(t *testing.T) {
	dec := func(name string) *indep.File {
		data, err := os.ReadFile(filepath.Join(repoTestdata, name))
		if err != nil {
			t.Fatal(err)
		}
		f, err := indep.Decode(data, indep.Options{})
		if err != nil {
			t.Fatalf("%s: %v", name, err)
		}
		if p := f.CheckExtents(uint64(len(data))); len(p) > 0 {
			t.Errorf("%s: %v", name, p)
		}
		return f
	}
	f := dec("test_3d_chunked.h5")
	o := f.Lookup("/data3d")
	if o == nil || len(o.Raw) != 8*6*4*4 || len(o.Chunks) != 12 {
		t.Fatalf("data3d: %+v", o)
	}
	for i := 0; i < 192; i++ {
		if v := int32(binary.LittleEndian.Uint32(o.Raw[4*i:])); v != int32(i) {
			t.Fatalf("data3d[%d] = %d", i, v)
		}
	}
	f = dec("gzip_test.h5")
	o = f.Lookup("/compressed_2d")
	for i := 0; i < 600; i++ {
		if v := math.Float64frombits(binary.LittleEndian.Uint64(o.Raw[8*i:])); v != float64(i) {
			t.Fatalf("compressed_2d[%d] = %v", i, v)
		}
	}
	o = f.Lookup("/shuffled_compressed")
	if len(o.Raw) != 4000 {
		t.Fatalf("shuffled_compressed: %d bytes (%s)", len(o.Raw), o.RawErr)
	}
	for i := 0; i < 1000; i++ {
		if v := math.Float32frombits(binary.LittleEndian.Uint32(o.Raw[4*i:])); !(v >= 0 && v < 1) {
			t.Fatalf("shuffled_compressed[%d] = %v, expected a value in [0,1)", i, v)
		}
	}
	// variable-length strings of a reference file resolve through the global heap
	f = dec("vlen_strings.h5")
	if len(f.GlobalHeaps) == 0 {
		t.Errorf("vlen_strings.h5: no global heap collection found")
	}
	root := f.Lookup("/")
	found := false
	for _, o := range f.Objects {
		for _, a := range o.Attrs {
			if a.Type.Class == 9 && a.Type.VLenIsString {
				b, err := f.ResolveVLen(a.Data[:16])
				if err != nil || len(b) == 0 {
					t.Errorf("vlen attribute %q of %s: %q %v", a.Name, o.Path, b, err)
				}
				found = true
			}
		}
	}
	if !found || root == nil {
		t.Errorf("vlen_strings.h5: no variable-length string attribute decoded")
	}
}

// TestRobustness: Decode never panics, hangs or allocates without bound on damaged input. Every
// corpus file and a few library-written files are truncated and byte-mutated deterministically.
func TestRobustness(t *testing.T) {
	files := corpusFiles(t)
	var inputs [][]byte
	for i, p := range files {
		if i%3 != 0 {
			// every third corpus file keeps the test under a few seconds; the set still covers all structure kinds
			continue
		}
		if b, err := os.ReadFile(p); err == nil && len(b) > 0 && len(b) < 4<<20 {
			inputs = append(inputs, b)
		}
	}
	for _, sv := range []uint8{0, 2} {
		for _, sc := range scenarios {
			data, _ := writeScenario(t, sv, sc)
			if len(data) < 4<<20 {
				inputs = append(inputs, data)
			}
		}
	}
	x := uint64(88172645463325252)
	rnd := func() uint64 { x ^= x << 13; x ^= x >> 7; x ^= x << 17; return x }
	var ms runtime.MemStats
	runtime.ReadMemStats(&ms)
	startAlloc := ms.TotalAlloc
	n := 0
	start := time.Now()
	for _, in := range inputs {
		for k := 0; k < 12; k++ {
			m := append([]byte{}, in...)
			switch k % 4 {
			case 0: // truncate
				m = m[:rnd()%uint64(len(m))]
			case 1: // flip a few bytes anywhere
				for j := 0; j < 1+int(rnd()%4); j++ {
					m[rnd()%uint64(len(m))] ^= byte(1 << (rnd() % 8))
				}
			case 2: // overwrite a field-sized run in the metadata-dense first 4 KiB with 0xff / 0x00 / random
				lim := uint64(len(m))
				if lim > 4096 {
					lim = 4096
				}
				off := rnd() % lim
				fill := byte(rnd())
				if rnd()%2 == 0 {
					fill = 0xff
				}
				for j := uint64(0); j < 1+rnd()%8 && off+j < uint64(len(m)); j++ {
					m[off+j] = fill
				}
			case 3: // set a random 8-byte word to a large value (sizes, addresses)
				if len(m) > 16 {
					off := rnd() % uint64(len(m)-8)
					binary.LittleEndian.PutUint64(m[off:], rnd()>>(rnd()%40))
				}
			}
			func() {
				defer func() {
					if r := recover(); r != nil {
						t.Fatalf("Decode panicked through its recover: %v", r)
					}
				}()
				for _, opt := range []indep.Options{{}, indep.TolerateAll()} {
					f, err := indep.Decode(m, opt)
					if err != nil && strings.Contains(err.Error(), "internal decoder panic") {
						t.Errorf("internal panic on mutated input (case %d of a %d-byte file): %v", k, len(in), err)
					}
					if f != nil {
						_ = f.CheckExtents(uint64(len(m)))
					}
				}
			}()
			n++
		}
	}
	runtime.ReadMemStats(&ms)
	t.Logf("%d mutated inputs decoded twice in %v, %.0f MiB allocated in total", n, time.Since(start).Round(time.Millisecond), float64(ms.TotalAlloc-startAlloc)/(1<<20))
	_ = fmt.Sprint
}
