package indeptest

import (
	"fmt"
	"os"
	"path/filepath"
	"sort"
	"strings"
	"testing"

	"github.com/scigolib/hdf5/verif/indep"
)

const repoTestdata = "/repo/testdata"

func emptied() map[string]bool {
	out := map[string]bool{}
	b, err := os.ReadFile("/root/.vp/EMPTIED_FILES.txt")
	if err != nil {
		return out
	}
	for _, l := range strings.Split(string(b), "\n") {
		l = strings.TrimSpace(l)
		if l != "" {
			out[filepath.Base(l)] = true
			out[l] = true
		}
	}
	return out
}

func corpusFiles(t testing.TB) []string {
	skip := emptied()
	var files []string
	for _, dir := range []string{"hdf5_official", "reference", "c-library-corpus"} {
		filepath.Walk(filepath.Join(repoTestdata, dir), func(p string, info os.FileInfo, err error) error {
			if err == nil && !info.IsDir() && strings.HasSuffix(p, ".h5") {
				files = append(files, p)
			}
			return nil
		})
	}
	top, _ := filepath.Glob(filepath.Join(repoTestdata, "*.h5"))
	files = append(files, top...)
	sort.Strings(files)
	var out []string
	for _, f := range files {
		rel, _ := filepath.Rel("/repo", f)
		if skip[rel] || skip[filepath.Base(f)] || skip[f] {
			continue
		}
		out = append(out, f)
	}
	return out
}

type corpusResult struct {
	file     string
	err      error
	f        *indep.File
	extProbs []string
}

func decodeCorpusFile(p string) corpusResult {
	data, err := os.ReadFile(p)
	if err != nil {
		return corpusResult{file: p, err: err}
	}
	f, derr := indep.Decode(data, indep.Options{})
	r := corpusResult{file: p, err: derr, f: f}
	if f != nil && (derr == nil || indep.IsUnsupported(derr)) {
		r.extProbs = f.CheckExtents(uint64(len(data)))
	}
	return r
}

// TestCorpus decodes every reference-library file strictly (no tolerated deviations).
func TestCorpus(t *testing.T) {
	files := corpusFiles(t)
	if len(files) < 100 {
		t.Fatalf("only %d corpus files found", len(files))
	}
	var full, unsup, expected, bad int
	unsupKinds := map[string]int{}
	extKinds := map[string]int{}
	var nObjects, nAttrs, nRaw, nRawBytes int
	for _, p := range files {
		r := decodeCorpusFile(p)
		rel, _ := filepath.Rel(repoTestdata, p)
		why, isExpected := expectedInvalidReason(rel)
		if r.f != nil && (r.err == nil || indep.IsUnsupported(r.err)) {
			for _, e := range r.f.Extents {
				extKinds[e.Kind]++
			}
			for _, o := range r.f.Objects {
				nObjects++
				nAttrs += len(o.Attrs)
				if o.Raw != nil {
					nRaw++
					nRawBytes += len(o.Raw)
				}
			}
		}
		switch {
		case r.err == nil:
			if len(r.f.Deviations) != 0 {
				t.Errorf("%s: deviations counted without tolerance: %v", rel, r.f.Deviations)
			}
			if len(r.extProbs) > 0 && !isExpected {
				bad++
				t.Errorf("%s: decoded but extents are inconsistent: %s", rel, strings.Join(head(r.extProbs, 3), " | "))
				continue
			}
			if isExpected {
				t.Logf("%s: listed as expected-invalid (%s) but decodes cleanly", rel, why)
			}
			full++
		case indep.IsUnsupported(r.err):
			unsup++
			k := r.err.Error()
			if i := strings.Index(k, " (object"); i > 0 {
				k = k[:i]
			}
			if i := strings.Index(k, " at 0x"); i > 0 {
				k = k[:i]
			}
			unsupKinds[k]++
			if len(r.extProbs) > 0 && !isExpected && len(r.f.Objects) > 0 {
				bad++
				t.Errorf("%s: (unsupported) extents are inconsistent: %s", rel, strings.Join(head(r.extProbs, 3), " | "))
			}
		case isExpected:
			expected++
			if os.Getenv("INDEP_VERBOSE") != "" {
				t.Logf("expected-invalid %s (%s): %v", rel, why, r.err)
			}
		default:
			bad++
			t.Errorf("%s: %v", rel, r.err)
		}
	}
	t.Logf("corpus: %d files; %d decode fully, %d stop at unsupported, %d are known-invalid test inputs (rejected as expected), %d unexplained", len(files), full, unsup, expected, bad)
	var es []string
	for k, n := range extKinds {
		es = append(es, fmt.Sprintf("%s=%d", k, n))
	}
	sort.Strings(es)
	t.Logf("decoded: %d objects, %d attributes, %d datasets with assembled raw data (%d bytes); structures by kind: %s", nObjects, nAttrs, nRaw, nRawBytes, strings.Join(es, " "))
	var ks []string
	for k, n := range unsupKinds {
		ks = append(ks, fmt.Sprintf("%4d  %s", n, k))
	}
	sort.Strings(ks)
	for _, k := range ks {
		t.Log(k)
	}
}

func head(s []string, n int) []string {
	if len(s) > n {
		return append(append([]string{}, s[:n]...), fmt.Sprintf("(+%d more)", len(s)-n))
	}
	return s
}
