package indeptest

import (
	"path/filepath"
	"strings"
)

// Files of the corpus that are NOT spec-conformant stand-alone HDF5 files on purpose: the reference
// library's own negative tests (fuzzed/corrupted inputs it must reject), members of multi-file
// storage (family/multi/split drivers: no superblock of their own, or addresses that span members),
// and files written by the Go library under test (not by the reference library).
var expectedInvalidByName = map[string]string{
	"th5s.h5":                                     "negative test (th5s.c test_h5s_compat): dataset written by a hacked library with rank 33 > H5S_MAX_RANK; the reference library must fail to open it",
	"bad_compound.h5":                             "negative test: fuzzed compound datatype with 0 members",
	"bad_offset.h5":                               "negative test: symbol table entry with a link name offset outside the local heap",
	"corrupt_stab_msg.h5":                         "negative test: symbol table message with corrupted B-tree/heap addresses",
	"tbad_msg_count.h5":                           "negative test: object header with a deliberately wrong message count",
	"3790_infinite_loop.h5":                       "negative test (issue 3790): corrupted object header size",
	"err_attr_dspace.h5":                          "negative test: attribute whose shared dataspace reference is invalid",
	"tmisc38a.h5":                                 "negative test (tmisc.c misc38): datatype size field corrupted (32-bit float with size 65525)",
	"tCVE-2021-37501_attr_decode.h5":              "CVE reproducer (fuzzed)",
	"tCVE_2018_11206_fill_new.h5":                 "CVE reproducer (fuzzed)",
	"tCVE_2018_11206_fill_old.h5":                 "CVE reproducer (fuzzed)",
	"h5repack_CVE-2018-14460.h5":                  "CVE reproducer (fuzzed)",
	"h5repack_CVE-2018-17432.h5":                  "CVE reproducer (fuzzed)",
	"memleak_H5O_dtype_decode_helper_H5Odtype.h5": "fuzzed input (memory-leak reproducer)",
	"h5stat_err_old_fill.h5":                      "negative test for h5stat: corrupted old fill value message",
	"h5stat_err_old_layout.h5":                    "negative test for h5stat: corrupted old layout message",
	"h5stat_err_refcount.h5":                      "negative test for h5stat: corrupted reference count message",
	"h5clear_fsm_persist_noclose.h5":              "file left open by a crashed writer (metadata never flushed); input for h5clear",
	"h5clear_status_noclose.h5":                   "file left open by a crashed writer (metadata never flushed); input for h5clear",
	"h5clear_mdc_image.h5":                        "file with a metadata cache image and unflushed metadata; input for h5clear",
	"h5clear_fsm_persist_less.h5":                 "input for h5clear --increment: superblock EOF address deliberately smaller than the file",
	"h5clear_fsm_persist_user_less.h5":            "input for h5clear --increment: superblock EOF address deliberately smaller than the file",
	"h5clear_fsm_persist_greater.h5":              "input for h5clear: superblock EOF address deliberately greater than the file",
	"h5clear_fsm_persist_user_greater.h5":         "input for h5clear: superblock EOF address deliberately greater than the file",
	"h5clear_fsm_persist_equal.h5":                "input for h5clear",
	"h5clear_fsm_persist_user_equal.h5":           "input for h5clear",
	"test_attr_basic.h5":                          "written by the Go library's own tests (attribute_write_simple_test.go), not by the reference library",
	"test_attr_int32.h5":                          "written by the Go library's own tests (attribute_write_test.go), not by the reference library",
	"test_attributes.h5":                          "written by the Go library's own tests, not by the reference library",
	"test_v1.12_simple.h5":                        "placeholder bytes, not an HDF5 file (superblock version byte 72)",
	"family_v16-000000.h5":                        "first member of a family-driver file set: addresses continue in the other members",
	"tfamily00000.h5":                             "first member of a family-driver file set: addresses continue in the other members",
	"test_subfiling_precreate_rank_0.h5":          "subfiling stub file",
	"test_subfiling_stripe_sizes.h5":              "subfiling stub file",
}

// expectedInvalid returns the reason a corpus file is not expected to decode, if any.
func expectedInvalidReason(rel string) (string, bool) {
	base := filepath.Base(rel)
	if r, ok := expectedInvalidByName[base]; ok {
		// the top-level names only apply to /repo/testdata/*.h5
		return r, true
	}
	switch {
	case strings.HasPrefix(base, "family_file0"), strings.HasPrefix(base, "family_v16-0000"), strings.HasPrefix(base, "tfamily000"):
		return "non-first member of a family-driver file set (no superblock of its own)", true
	case strings.HasPrefix(base, "tmulti-"), strings.HasSuffix(base, "-r.h5") && (strings.HasPrefix(base, "tsplit_file") || strings.HasPrefix(base, "multi_file_v16")):
		return "member file of a multi/split-driver file set (no superblock of its own)", true
	}
	return "", false
}
