package indeptest

// expectedInvalid lists corpus files (relative to /repo/testdata) that are NOT spec-conformant on
// purpose (the reference library's own negative tests) or are not stand-alone HDF5 files, with the reason.
var expectedInvalid = map[string]string{}
