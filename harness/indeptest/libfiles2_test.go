package indeptest

import (
	"fmt"
	"os"
	"strings"
	"testing"

	hdf5 "github.com/scigolib/hdf5"
	"github.com/scigolib/hdf5/verif/indep"
)

func init() {
	scenarios = append(scenarios,
		scenario{"rootlevel", scenarioRootLevel},
		scenario{"manyattrs", scenarioManyAttrs},
		scenario{"attrmodify", scenarioAttrModify},
		scenario{"resize", scenarioResize},
		scenario{"bigdense", scenarioBigDenseGroup},
		scenario{"grouplinks", scenarioGroupWithLinks},
	)
}

func scenarioRootLevel(t *testing.T, fw *hdf5.FileWriter, m *model) {
	ds := dataset(t, fw, m, "/top", hdf5.Float64, []uint64{2, 2}, &expObj{class: 1, size: 8}, pattern(32, 1))
	if err := ds.WriteAttribute("unit", "m/s"); err != nil {
		t.Fatalf("WriteAttribute: %v", err)
	}
	m.objs["/top"].attrs["unit"] = expAttr{class: 3, size: 4, dims: []uint64{1}, data: []byte("m/s\x00")}
	dc := dataset(t, fw, m, "/topchunk", hdf5.Int16, []uint64{7}, &expObj{class: 0, size: 2, signed: bp(true), layout: "chunked", chunk: []uint64{3}}, pattern(14, 2), hdf5.WithChunkDims([]uint64{3}))
	if err := dc.WriteAttribute("n", int32(7)); err != nil {
		t.Fatalf("WriteAttribute: %v", err)
	}
	m.objs["/topchunk"].attrs["n"] = expAttr{class: 0, size: 4, dims: []uint64{1}, data: le32s(7)}
	g := mustGroup(t, fw, m, "/g")
	g2 := mustGroup(t, fw, m, "/g/h")
	if err := g2.WriteAttribute("depth", int64(2)); err != nil {
		t.Fatalf("WriteAttribute: %v", err)
	}
	m.objs["/g/h"].attrs["depth"] = expAttr{class: 0, size: 8, dims: []uint64{1}, data: []byte{2, 0, 0, 0, 0, 0, 0, 0}}
	_ = g
}

func scenarioManyAttrs(t *testing.T, fw *hdf5.FileWriter, m *model) {
	ds := dataset(t, fw, m, "/d", hdf5.Uint32, []uint64{2}, &expObj{class: 0, size: 4, signed: bp(false)}, le32s(5, 6))
	for i := 0; i < 120; i++ {
		name := fmt.Sprintf("a%03d_%s", i, strings.Repeat("x", i%17))
		vals := make([]float64, 1+i%9)
		for k := range vals {
			vals[k] = float64(i) + float64(k)/8
		}
		if err := ds.WriteAttribute(name, vals); err != nil {
			m.note("WriteAttribute #%d: %v", i, err)
			break
		}
		m.objs["/d"].attrs[name] = expAttr{class: 1, size: 8, dims: []uint64{uint64(len(vals))}, data: f64s(vals...)}
	}
	dataset(t, fw, m, "/after", hdf5.Uint8, []uint64{3}, &expObj{class: 0, size: 1, signed: bp(false)}, []byte{9, 8, 7})
}

func scenarioAttrModify(t *testing.T, fw *hdf5.FileWriter, m *model) {
	ds := dataset(t, fw, m, "/d", hdf5.Int32, []uint64{1}, &expObj{class: 0, size: 4, signed: bp(true)}, le32s(1))
	set := func(name string, v int32) {
		if err := ds.WriteAttribute(name, v); err != nil {
			m.note("WriteAttribute(%s): %v", name, err)
			return
		}
		m.objs["/d"].attrs[name] = expAttr{class: 0, size: 4, dims: []uint64{1}, data: le32s(uint32(v))}
	}
	for i := 0; i < 12; i++ {
		set(fmt.Sprintf("k%02d", i), int32(i))
	}
	set("k03", 333) // overwrite
	set("k07", 777)
	for _, n := range []string{"k00", "k05", "k11"} {
		if err := ds.DeleteAttribute(n); err != nil {
			m.note("DeleteAttribute(%s): %v", n, err)
			continue
		}
		delete(m.objs["/d"].attrs, n)
	}
	set("k12", 12)
}

func scenarioResize(t *testing.T, fw *hdf5.FileWriter, m *model) {
	raw := pattern(6*4, 9)
	ds := dataset(t, fw, m, "/grow", hdf5.Int32, []uint64{6}, &expObj{class: 0, size: 4, signed: bp(true), layout: "chunked", chunk: []uint64{4}, maxDims: []uint64{hdf5.Unlimited}}, raw,
		hdf5.WithChunkDims([]uint64{4}), hdf5.WithMaxDims([]uint64{hdf5.Unlimited}))
	if err := ds.Resize([]uint64{11}); err != nil {
		m.note("Resize grow: %v", err)
	} else {
		e := m.objs["/grow"]
		e.dims = []uint64{11}
		e.raw = append(append([]byte{}, raw...), make([]byte, 5*4)...)
	}
	raw2 := pattern(4*4*2, 10)
	ds2 := dataset(t, fw, m, "/grow2", hdf5.Uint16, []uint64{4, 4}, &expObj{class: 0, size: 2, signed: bp(false), layout: "chunked", chunk: []uint64{2, 2}, maxDims: []uint64{8, 8}}, raw2,
		hdf5.WithChunkDims([]uint64{2, 2}), hdf5.WithMaxDims([]uint64{8, 8}))
	if err := ds2.Resize([]uint64{6, 4}); err != nil {
		m.note("Resize grow2: %v", err)
	} else {
		e := m.objs["/grow2"]
		e.dims = []uint64{6, 4}
		e.raw = append(append([]byte{}, raw2...), make([]byte, 2*4*2)...)
	}
	dataset(t, fw, m, "/after", hdf5.Uint8, []uint64{3}, &expObj{class: 0, size: 1, signed: bp(false)}, []byte{1, 2, 3})
}

func scenarioBigDenseGroup(t *testing.T, fw *hdf5.FileWriter, m *model) {
	dataset(t, fw, m, "/t", hdf5.Uint8, []uint64{1}, &expObj{class: 0, size: 1, signed: bp(false)}, []byte{1})
	mustGroup(t, fw, m, "/gt")
	links := map[string]string{}
	for i := 0; i < 150; i++ {
		target := "/t"
		if i%2 == 1 {
			target = "/gt"
		}
		links[fmt.Sprintf("l%03d%s", i, strings.Repeat("y", i%13))] = target
	}
	if err := fw.CreateDenseGroup("/big", links); err != nil {
		t.Fatalf("CreateDenseGroup: %v", err)
	}
	g := m.add("/big", &expObj{kind: "group"})
	for n, target := range links {
		g.children[n] = true
		m.aliases["/big/"+n] = target
	}
}

func scenarioGroupWithLinks(t *testing.T, fw *hdf5.FileWriter, m *model) {
	dataset(t, fw, m, "/t1", hdf5.Uint8, []uint64{1}, &expObj{class: 0, size: 1, signed: bp(false)}, []byte{1})
	dataset(t, fw, m, "/t2", hdf5.Uint8, []uint64{1}, &expObj{class: 0, size: 1, signed: bp(false)}, []byte{2})
	links := map[string]string{}
	for i := 0; i < 10; i++ {
		links[fmt.Sprintf("w%d", i)] = []string{"/t1", "/t2"}[i%2]
	}
	if err := fw.CreateGroupWithLinks("/gl", links); err != nil {
		t.Fatalf("CreateGroupWithLinks: %v", err)
	}
	g := m.add("/gl", &expObj{kind: "group"})
	for n, target := range links {
		g.children[n] = true
		m.aliases["/gl/"+n] = target
	}
}

// TestHeapOverflowIsReported: when the attribute heap outgrows its single 64 KiB direct block the pinned
// library records an indirect root (1 row) in the heap header but never writes the indirect block; the
// root address still points at the old direct block. That is damage, not an encoding variant, so the
// decoder must report it as a plain violation even with every deviation tolerated.
func TestHeapOverflowIsReported(t *testing.T) {
	data, m := writeScenario(t, 2, scenario{"heapoverflow", scenarioHeapOverflow})
	if len(m.notes) == 0 {
		t.Logf("the library accepted all attributes")
	}
	_, err := indep.Decode(data, indep.TolerateAll())
	if err == nil {
		if len(m.notes) > 0 {
			t.Fatalf("library refused %q but the file decodes cleanly", m.notes[0])
		}
		return
	}
	if strings.HasPrefix(err.Error(), "deviation ") || indep.IsUnsupported(err) || !strings.Contains(err.Error(), "fractal heap") {
		t.Errorf("expected a fractal heap violation, got: %v", err)
	}
	t.Logf("reported: %v", err)
}

// more attribute bytes than one 64 KiB fractal heap direct block holds
func scenarioHeapOverflow(t *testing.T, fw *hdf5.FileWriter, m *model) {
	ds := dataset(t, fw, m, "/d", hdf5.Uint32, []uint64{2}, &expObj{class: 0, size: 4, signed: bp(false)}, le32s(5, 6))
	for i := 0; i < 110; i++ {
		name := fmt.Sprintf("big%03d", i)
		vals := make([]float64, 100)
		for k := range vals {
			vals[k] = float64(i*1000 + k)
		}
		if err := ds.WriteAttribute(name, vals); err != nil {
			m.note("WriteAttribute #%d: %v", i, err)
			break
		}
		m.objs["/d"].attrs[name] = expAttr{class: 1, size: 8, dims: []uint64{100}, data: f64s(vals...)}
	}
	dataset(t, fw, m, "/after", hdf5.Uint8, []uint64{3}, &expObj{class: 0, size: 1, signed: bp(false)}, []byte{9, 8, 7})
}

// TestLibraryReadModifyWrite: a file reopened with OpenForWrite and modified (attributes added to an
// existing dataset, compact and past the dense threshold) still decodes to the expected content.
func TestLibraryReadModifyWrite(t *testing.T) {
	for _, sv := range []uint8{0, 2} {
		t.Run(fmt.Sprintf("sb%d", sv), func(t *testing.T) {
			dir := t.TempDir()
			p := dir + "/rmw.h5"
			fw, err := hdf5.CreateForWrite(p, hdf5.CreateTruncate, hdf5.WithSuperblockVersion(sv))
			if err != nil {
				t.Fatal(err)
			}
			m := newModel()
			mustGroup(t, fw, m, "/g")
			dataset(t, fw, m, "/g/a", hdf5.Int32, []uint64{3}, &expObj{class: 0, size: 4, signed: bp(true)}, le32s(1, 2, 3))
			dataset(t, fw, m, "/b", hdf5.Float64, []uint64{2}, &expObj{class: 1, size: 8}, f64s(0.5, 0.25))
			if err := fw.Close(); err != nil {
				t.Fatal(err)
			}
			fw, err = hdf5.OpenForWrite(p, hdf5.OpenReadWrite)
			if err != nil {
				t.Fatalf("OpenForWrite: %v", err)
			}
			for _, c := range []struct {
				path string
				n    int
			}{{"/g/a", 3}, {"/b", 11}} {
				ds, err := fw.OpenDataset(c.path)
				if err != nil {
					t.Fatalf("OpenDataset(%s): %v", c.path, err)
				}
				for i := 0; i < c.n; i++ {
					name := fmt.Sprintf("rmw%02d", i)
					if err := ds.WriteAttribute(name, int32(100+i)); err != nil {
						t.Logf("library refused WriteAttribute(%s, %s): %v", c.path, name, err)
						break
					}
					m.objs[c.path].attrs[name] = expAttr{class: 0, size: 4, dims: []uint64{1}, data: le32s(uint32(100 + i))}
				}
			}
			if err := fw.Close(); err != nil {
				t.Fatal(err)
			}
			data, _ := os.ReadFile(p)
			f, err := indep.Decode(data, indep.TolerateAll())
			if err != nil {
				t.Fatalf("Decode: %v", err)
			}
			if probs := f.CheckExtents(uint64(len(data))); len(probs) > 0 {
				t.Errorf("extent problems:\n  %s", strings.Join(head(probs, 12), "\n  "))
			}
			compare(t, f, m)
		})
	}
}

func init() {
	scenarios = append(scenarios, scenario{"mixed", scenarioMixed})
}

func scenarioMixed(t *testing.T, fw *hdf5.FileWriter, m *model) {
	g := mustGroup(t, fw, m, "/gattrs")
	for i := 0; i < 12; i++ {
		name := fmt.Sprintf("ga%02d", i)
		if err := g.WriteAttribute(name, int32(i)); err != nil {
			m.note("group WriteAttribute #%d: %v", i, err)
			break
		}
		m.objs["/gattrs"].attrs[name] = expAttr{class: 0, size: 4, dims: []uint64{1}, data: le32s(uint32(i))}
	}
	mustGroup(t, fw, m, "/gattrs/child")
	dataset(t, fw, m, "/cstr", hdf5.String, []uint64{5}, &expObj{class: 3, size: 4, layout: "chunked", chunk: []uint64{2}}, []byte("ab\x00\x00cd\x00\x00ef\x00\x00gh\x00\x00ij\x00\x00"), hdf5.WithStringSize(4), hdf5.WithChunkDims([]uint64{2}))
	dataset(t, fw, m, "/cenum", hdf5.EnumInt16, []uint64{5}, &expObj{class: 8, size: 2, enumNames: []string{"a", "b"}, layout: "chunked", chunk: []uint64{5}}, []byte{0, 0, 1, 0, 0, 0, 1, 0, 1, 0}, hdf5.WithEnumValues([]string{"a", "b"}, []int64{0, 1}), hdf5.WithChunkDims([]uint64{5}))
}

// TestChunkedArrayDefectIsReported: for a chunked dataset of an array datatype the pinned library cuts
// chunks with the BASE type's element size (dataset_write_chunked.go: dsMsgForWriter uses
// dtInfo.baseType.size), so every chunk is stored too short. The decoder must report the size
// mismatch as a violation (it is lost data, not an encoding variant).
func TestChunkedArrayDefectIsReported(t *testing.T) {
	data, _ := writeScenario(t, 2, scenario{"chunkedarray", func(t *testing.T, fw *hdf5.FileWriter, m *model) {
		dataset(t, fw, m, "/carr", hdf5.ArrayInt16, []uint64{5}, &expObj{class: 10, size: 6, arrayDims: []uint64{3}, layout: "chunked", chunk: []uint64{2}}, pattern(30, 77), hdf5.WithArrayDims([]uint64{3}), hdf5.WithChunkDims([]uint64{2}))
	}})
	_, err := indep.Decode(data, indep.TolerateAll())
	if err == nil {
		t.Logf("chunked array datasets now decode cleanly (library repaired?)")
		return
	}
	if !strings.Contains(err.Error(), "stored size") {
		t.Errorf("expected a chunk size violation, got: %v", err)
	}
	t.Logf("reported: %v", err)
}
