package indeptest

import (
	"encoding/binary"
	"fmt"
	"math"
	"os"
	"path/filepath"
	"sort"
	"strconv"
	"strings"
	"testing"

	"github.com/scigolib/hdf5/verif/indep"
)

// A light reader of h5dump output (DDL): enough to pull the numeric DATA blocks of datasets and
// attributes out of the reference dumps that ship with the corpus, to cross-check the VALUES the
// independent decoder assembles (chunk placement, filters, byte order, index mappings, dense attributes).

type ddlNode struct {
	kw    string
	name  string
	items []interface{} // string tokens or *ddlNode
}

func ddlTokens(s string) []string {
	var out []string
	i := 0
	for i < len(s) {
		c := s[i]
		switch {
		case c == ' ' || c == '\n' || c == '\t' || c == '\r':
			i++
		case c == '"':
			j := i + 1
			for j < len(s) && s[j] != '"' {
				if s[j] == '\\' {
					j++
				}
				j++
			}
			if j >= len(s) {
				j = len(s) - 1
			}
			out = append(out, s[i:j+1])
			i = j + 1
		case strings.ContainsRune("{}(),:;", rune(c)):
			out = append(out, string(c))
			i++
		default:
			j := i
			for j < len(s) && !strings.ContainsRune(" \n\t\r{}(),:;\"", rune(s[j])) {
				j++
			}
			out = append(out, s[i:j])
			i = j
		}
	}
	return out
}

func parseDDL(toks []string) *ddlNode {
	root := &ddlNode{kw: "<root>"}
	stack := []*ddlNode{root}
	for _, t := range toks {
		cur := stack[len(stack)-1]
		switch t {
		case "{":
			n := &ddlNode{}
			// header: preceding word, optionally followed by a quoted string
			k := len(cur.items)
			if k > 0 {
				if s, ok := cur.items[k-1].(string); ok && strings.HasPrefix(s, "\"") && k > 1 {
					if w, ok2 := cur.items[k-2].(string); ok2 && !strings.HasPrefix(w, "\"") {
						n.kw, n.name = w, strings.Trim(s, "\"")
						cur.items = cur.items[:k-2]
					}
				} else if ok && !strings.HasPrefix(s, "\"") && !strings.ContainsAny(s, "(),:;") {
					n.kw = s
					cur.items = cur.items[:k-1]
				}
			}
			cur.items = append(cur.items, n)
			stack = append(stack, n)
		case "}":
			if len(stack) > 1 {
				stack = stack[:len(stack)-1]
			}
		default:
			cur.items = append(cur.items, t)
		}
	}
	return root
}

func (n *ddlNode) child(kw string) *ddlNode {
	for _, it := range n.items {
		if c, ok := it.(*ddlNode); ok && c.kw == kw {
			return c
		}
	}
	return nil
}

// atomicType returns the type name following the DATATYPE keyword when it is a plain word.
func (n *ddlNode) atomicType() string {
	for i, it := range n.items {
		if s, ok := it.(string); ok && s == "DATATYPE" && i+1 < len(n.items) {
			if t, ok := n.items[i+1].(string); ok {
				return t
			}
		}
	}
	return ""
}

// dataValues returns the numeric tokens of a DATA block (index prefixes "(i,j):" removed); ok=false when the block holds anything else.
func dataValues(n *ddlNode) (vals []string, ok bool) {
	inIdx := false
	for _, it := range n.items {
		s, isTok := it.(string)
		if !isTok {
			return nil, false
		}
		switch {
		case s == "(":
			inIdx = true
		case s == ")":
			inIdx = false
		case inIdx, s == ",", s == ":":
		case strings.HasPrefix(s, "\""):
			return nil, false
		default:
			vals = append(vals, s)
		}
	}
	return vals, true
}

type ddlType struct {
	size   int
	kind   byte // 'i','u','f'
	bigEnd bool
}

var ddlTypes = map[string]ddlType{}

func init() {
	for _, sz := range []int{8, 16, 32, 64} {
		for _, e := range []string{"LE", "BE"} {
			ddlTypes[fmt.Sprintf("H5T_STD_I%d%s", sz, e)] = ddlType{sz / 8, 'i', e == "BE"}
			ddlTypes[fmt.Sprintf("H5T_STD_U%d%s", sz, e)] = ddlType{sz / 8, 'u', e == "BE"}
		}
	}
	for _, e := range []string{"LE", "BE"} {
		ddlTypes["H5T_IEEE_F32"+e] = ddlType{4, 'f', e == "BE"}
		ddlTypes["H5T_IEEE_F64"+e] = ddlType{8, 'f', e == "BE"}
	}
}

func elemMatches(raw []byte, dt ddlType, tok string) bool {
	var u uint64
	for i := 0; i < dt.size; i++ {
		b := raw[i]
		if dt.bigEnd {
			b = raw[dt.size-1-i]
		}
		u |= uint64(b) << (8 * uint(i))
	}
	switch dt.kind {
	case 'u':
		x, err := strconv.ParseUint(tok, 10, 64)
		return err == nil && x == u
	case 'i':
		x, err := strconv.ParseInt(tok, 10, 64)
		sh := uint(64 - 8*dt.size)
		return err == nil && x == int64(u<<sh)>>sh
	default:
		var v float64
		if dt.size == 4 {
			v = float64(math.Float32frombits(uint32(u)))
		} else {
			v = math.Float64frombits(u)
		}
		lt := strings.ToLower(tok)
		if strings.Contains(lt, "nan") {
			return math.IsNaN(v)
		}
		if strings.Contains(lt, "inf") {
			return math.IsInf(v, 0) && (strings.HasPrefix(lt, "-") == (v < 0))
		}
		x, err := strconv.ParseFloat(tok, 64)
		if err != nil {
			return false
		}
		if x == v {
			return true
		}
		// h5dump prints %g (6 significant digits) unless a format is given: compare at the precision of the printed token
		nsig := 0
		for _, ch := range strings.SplitN(strings.ToLower(tok), "e", 2)[0] {
			if ch >= '0' && ch <= '9' && (nsig > 0 || ch != '0') {
				nsig++
			}
		}
		if nsig == 0 {
			nsig = 1
		}
		for p := nsig; p <= 6 || p == nsig; p++ {
			if y, err := strconv.ParseFloat(strconv.FormatFloat(v, 'g', p, 64), 64); err == nil && (y == x || math.Abs(y-x) <= 1e-12*math.Abs(x)) {
				return true
			}
		}
		return math.Abs(x-v) <= 5e-6*math.Abs(v)
	}
}

type ddlStats struct {
	datasets, attrs, values, files int
	kinds                          map[string]int
}

// compareDDLNode walks GROUP/DATASET/ATTRIBUTE blocks below n, which sits at HDF5 path `path`.
func compareDDLNode(t *testing.T, file string, f *indep.File, n *ddlNode, path string, st *ddlStats, problems *[]string) {
	// attributes of a committed datatype follow its one-line declaration (DATATYPE "name" type;) without braces
	target := path
	for i, it := range n.items {
		if s, isTok := it.(string); isTok {
			if s == "DATATYPE" && i+1 < len(n.items) && n.kw == "GROUP" {
				if nm, ok := n.items[i+1].(string); ok && strings.HasPrefix(nm, "\"") {
					target = strings.TrimSuffix(path, "/") + "/" + strings.Trim(nm, "\"")
				}
			}
			continue
		}
		c, ok := it.(*ddlNode)
		if !ok {
			continue
		}
		if c.kw == "ATTRIBUTE" {
			compareDDLData(file, f, c, target, c.name, st, problems)
			continue
		}
		if c.kw == "GROUP" || c.kw == "DATASET" {
			target = path
		}
		switch c.kw {
		case "GROUP", "DATASET", "DATATYPE":
			if c.name == "" {
				continue
			}
			p := c.name
			if !strings.HasPrefix(p, "/") {
				p = strings.TrimSuffix(path, "/") + "/" + c.name
			}
			if c.kw == "DATASET" {
				compareDDLData(file, f, c, p, "", st, problems)
			}
			compareDDLNode(t, file, f, c, p, st, problems)
		case "ATTRIBUTE":
			compareDDLData(file, f, c, path, c.name, st, problems)
		}
	}
}

func compareDDLData(file string, f *indep.File, n *ddlNode, path, attr string, st *ddlStats, problems *[]string) {
	dt, ok := ddlTypes[n.atomicType()]
	data := n.child("DATA")
	if !ok || data == nil || n.child("SUBSET") != nil {
		return
	}
	for _, it := range n.items {
		if s, isTok := it.(string); isTok && s == "PACKED_BITS" {
			return // h5dump -M shows bit fields of the values, not the values
		}
	}
	vals, ok := dataValues(data)
	if !ok || len(vals) == 0 {
		return
	}
	o := f.Lookup(path)
	if o == nil {
		return
	}
	var raw []byte
	what := path
	if attr != "" {
		found := false
		for _, a := range o.Attrs {
			if a.Name == attr {
				raw, found = a.Data, true
				if a.Type.Class > 1 || int(a.Type.Size) != dt.size {
					return
				}
			}
		}
		if !found {
			*problems = append(*problems, fmt.Sprintf("%s: %s has attribute %q in the reference dump but the decoder found none", file, path, attr))
			return
		}
		what = path + "@" + attr
	} else {
		if o.Kind != "dataset" || o.Type == nil || o.Type.Class > 1 || int(o.Type.Size) != dt.size {
			return
		}
		if o.Raw == nil {
			return
		}
		raw = o.Raw
	}
	if len(raw) != len(vals)*dt.size {
		return // partial dump (subsetting, -d with selection) or unavailable data
	}
	bad := 0
	first := ""
	for i, v := range vals {
		if !elemMatches(raw[i*dt.size:], dt, v) {
			if bad == 0 {
				first = fmt.Sprintf("element %d: reference %s, decoded bytes % x", i, v, raw[i*dt.size:(i+1)*dt.size])
			}
			bad++
		}
	}
	if attr != "" {
		st.attrs++
	} else {
		st.datasets++
		k := o.Layout
		if o.ChunkIndex != "" {
			k += "/" + o.ChunkIndex
		}
		for _, fl := range o.Filters {
			k += "+" + fl.Name
		}
		if n.atomicType()[len(n.atomicType())-2:] == "BE" {
			k += " (big-endian)"
		}
		if st.kinds == nil {
			st.kinds = map[string]int{}
		}
		st.kinds[k]++
	}
	st.values += len(vals)
	if bad > 0 {
		*problems = append(*problems, fmt.Sprintf("%s: %s: %d of %d values differ from the reference dump (%s)", file, what, bad, len(vals), first))
	}
}

// TestCorpusValuesAgainstDDL compares decoded dataset and attribute values with the h5dump reference outputs.
func TestCorpusValuesAgainstDDL(t *testing.T) {
	ddls, _ := filepath.Glob(filepath.Join(repoTestdata, "hdf5_official", "ddl", "*.ddl"))
	sort.Strings(ddls)
	skip := emptied()
	cache := map[string]*indep.File{}
	var st ddlStats
	var problems []string
	for _, dp := range ddls {
		b, err := os.ReadFile(dp)
		if err != nil || len(b) == 0 || len(b) > 8<<20 {
			continue
		}
		toks := ddlTokens(string(b))
		if len(toks) < 3 || toks[0] != "HDF5" || !strings.HasPrefix(toks[1], "\"") {
			continue
		}
		name := filepath.Base(strings.Trim(toks[1], "\""))
		hp := filepath.Join(repoTestdata, "hdf5_official", name)
		if skip[name] {
			continue
		}
		f, seen := cache[hp]
		if !seen {
			data, err := os.ReadFile(hp)
			if err == nil {
				df, derr := indep.Decode(data, indep.Options{})
				if derr == nil || indep.IsUnsupported(derr) {
					f = df
				}
			}
			cache[hp] = f
		}
		if f == nil || len(f.Objects) == 0 {
			continue
		}
		root := parseDDL(toks)
		top := root.child("HDF5")
		if top == nil {
			continue
		}
		before := st.values
		compareDDLNode(t, filepath.Base(dp), f, top, "", &st, &problems)
		if st.values > before {
			st.files++
		}
	}
	for _, p := range problems {
		if why, ok := ddlKnownDifferences[strings.SplitN(p, ":", 2)[0]]; ok {
			t.Logf("known difference (%s): %s", why, p)
			continue
		}
		t.Errorf("%s", p)
	}
	t.Logf("compared %d datasets and %d attributes (%d values) from %d reference dumps", st.datasets, st.attrs, st.values, st.files)
	var ks []string
	for k, n := range st.kinds {
		ks = append(ks, fmt.Sprintf("%4d  %s", n, k))
	}
	sort.Strings(ks)
	t.Logf("dataset storage kinds compared:\n  %s", strings.Join(ks, "\n  "))
	if st.values < 10000 {
		t.Errorf("only %d values compared; the DDL cross-check is not exercising the corpus", st.values)
	}
}

// reference dumps that legitimately differ from the stored bytes (h5dump options that transform the data)
var ddlKnownDifferences = map[string]string{}

var _ = binary.LittleEndian
