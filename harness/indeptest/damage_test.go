package indeptest

import (
	"crypto/sha256"
	"fmt"
	"sort"
	"testing"

	"github.com/scigolib/hdf5/verif/indep"
)

// digest summarises everything Decode recovered, so that a change in any decoded value is noticed.
func digest(f *indep.File) string {
	h := sha256.New()
	var paths []string
	for p := range f.Paths {
		paths = append(paths, p)
	}
	sort.Strings(paths)
	for _, p := range paths {
		o := f.Objects[f.Paths[p]]
		fmt.Fprintf(h, "%s|%x|", p, f.Paths[p])
		if o == nil {
			continue
		}
		fmt.Fprintf(h, "%s|%s|%d|%v|%v|%s|%v|%v|%x|%s|", o.Kind, o.GroupStorage, o.RefCount, o.Dims, o.MaxDims, o.Layout, o.ChunkDims, o.Filters, o.Raw, o.RawErr)
		if o.Type != nil {
			fmt.Fprintf(h, "T%d/%d/%x/%x|", o.Type.Class, o.Type.Size, o.Type.BitField, o.Type.Props)
		}
		for _, l := range o.Links {
			fmt.Fprintf(h, "L%s/%s/%x/%s/%s/%s|", l.Name, l.Kind, l.Addr, l.SoftPath, l.ExtFile, l.ExtPath)
		}
		for _, a := range o.Attrs {
			fmt.Fprintf(h, "A%s/%d/%d/%v/%x|", a.Name, a.Type.Class, a.Type.Size, a.Dims, a.Data)
		}
		for _, c := range o.Chunks {
			fmt.Fprintf(h, "C%v/%x/%d/%x|", c.Offset, c.Addr, c.Size, c.FilterMask)
		}
	}
	var gs []uint64
	for a := range f.GlobalHeaps {
		gs = append(gs, a)
	}
	sort.Slice(gs, func(i, j int) bool { return gs[i] < gs[j] })
	for _, a := range gs {
		g := f.GlobalHeaps[a]
		var ids []int
		for id := range g.Objects {
			ids = append(ids, int(id))
		}
		sort.Ints(ids)
		for _, id := range ids {
			fmt.Fprintf(h, "G%x/%d/%x|", a, id, g.Objects[uint16(id)])
		}
	}
	return fmt.Sprintf("%x", h.Sum(nil))
}

// TestDetectsDamage flips single bits inside each kind of metadata structure of library-written files
// and measures how often the decoder notices (error, extent problem, or different decoded content).
// Checksummed structures must always be noticed; for the rest the rate is reported (unused bytes -
// reserved space, padding, slack in fixed-size nodes - are legitimately silent).
func TestDetectsDamage(t *testing.T) {
	type tally struct{ tried, noticed int }
	byKind := map[string]*tally{}
	x := uint64(0x9E3779B97F4A7C15)
	rnd := func() uint64 { x ^= x << 13; x ^= x >> 7; x ^= x << 17; return x }
	for _, sc := range scenarios {
		data, _ := writeScenario(t, 2, sc)
		base, err := indep.Decode(data, indep.TolerateAll())
		if err != nil {
			t.Fatalf("%s: %v", sc.name, err)
		}
		want := digest(base)
		for _, e := range base.Extents {
			switch e.Kind {
			case "chunk", "contiguous-data", "local-heap-data":
				continue // raw data: covered by the digest trivially / mostly unused bytes
			}
			n := e.End - e.Start
			for k := 0; k < 6; k++ {
				m := append([]byte{}, data...)
				off := e.Start + rnd()%n
				m[off] ^= byte(1 << (rnd() % 8))
				tl := byKind[e.Kind]
				if tl == nil {
					tl = &tally{}
					byKind[e.Kind] = tl
				}
				tl.tried++
				f, err := indep.Decode(m, indep.TolerateAll())
				if err != nil || len(f.CheckExtents(uint64(len(m)))) > 0 || digest(f) != want {
					tl.noticed++
				}
			}
		}
	}
	var ks []string
	for k, tl := range byKind {
		ks = append(ks, fmt.Sprintf("%-22s %4d/%4d", k, tl.noticed, tl.tried))
	}
	sort.Strings(ks)
	for _, k := range ks {
		t.Log(k)
	}
	for _, k := range []string{"btree2-hdr", "fractal-heap-hdr", "superblock"} {
		if tl := byKind[k]; tl == nil || tl.noticed != tl.tried {
			t.Errorf("%s: single-bit damage went unnoticed (%+v)", k, tl)
		}
	}
}
