package indeptest

import (
	"bytes"
	"encoding/binary"
	"fmt"
	"math"
	"os"
	"path/filepath"
	"reflect"
	"sort"
	"strings"
	"testing"

	hdf5 "github.com/scigolib/hdf5"
	"github.com/scigolib/hdf5/internal/core"
	"github.com/scigolib/hdf5/verif/indep"
)

// ---- the model of what was written ------------------------------------------------------------

type expAttr struct {
	class int
	size  uint32
	dims  []uint64
	data  []byte
}

type expObj struct {
	kind      string // "group" | "dataset"
	class     int
	size      uint32
	signed    *bool
	dims      []uint64
	maxDims   []uint64
	chunk     []uint64
	layout    string
	raw       []byte   // expected Raw (nil = do not compare)
	vlen      [][]byte // expected heap objects per element (vlen datasets)
	attrs     map[string]expAttr
	children  map[string]bool // hard-link children (groups)
	softLinks map[string]string
	extLinks  map[string][2]string
	filters   []uint16
	members   []string
	enumNames []string
	arrayDims []uint64
	tag       string
	anyKind   bool // link pseudo-objects: kind not asserted
}

type model struct {
	objs    map[string]*expObj
	aliases map[string]string // extra hard-link path -> canonical path
	notes   []string
}

func newModel() *model {
	return &model{objs: map[string]*expObj{"/": {kind: "group", children: map[string]bool{}, attrs: map[string]expAttr{}}}, aliases: map[string]string{}}
}

func split(path string) (parent, name string) {
	i := strings.LastIndex(path, "/")
	if i == 0 {
		return "/", path[1:]
	}
	return path[:i], path[i+1:]
}

func (m *model) add(path string, o *expObj) *expObj {
	if o.attrs == nil {
		o.attrs = map[string]expAttr{}
	}
	if o.kind == "group" && o.children == nil {
		o.children = map[string]bool{}
	}
	m.objs[path] = o
	p, n := split(path)
	m.objs[p].children[n] = true
	return o
}

func (m *model) note(format string, a ...interface{}) {
	m.notes = append(m.notes, fmt.Sprintf(format, a...))
}

// pattern returns n deterministic bytes that differ per seed.
func pattern(n int, seed byte) []byte {
	b := make([]byte, n)
	x := uint32(seed)*2654435761 + 12345
	for i := range b {
		x = x*1664525 + 1013904223
		b[i] = byte(x >> 24)
	}
	return b
}

func prod(d []uint64) uint64 {
	n := uint64(1)
	for _, x := range d {
		n *= x
	}
	return n
}

func bp(b bool) *bool { return &b }

type basicType struct {
	name   string
	dt     hdf5.Datatype
	class  int
	size   uint32
	signed *bool
}

var basicTypes = []basicType{
	{"int8", hdf5.Int8, 0, 1, bp(true)}, {"int16", hdf5.Int16, 0, 2, bp(true)}, {"int32", hdf5.Int32, 0, 4, bp(true)}, {"int64", hdf5.Int64, 0, 8, bp(true)},
	{"uint8", hdf5.Uint8, 0, 1, bp(false)}, {"uint16", hdf5.Uint16, 0, 2, bp(false)}, {"uint32", hdf5.Uint32, 0, 4, bp(false)}, {"uint64", hdf5.Uint64, 0, 8, bp(false)},
	{"float32", hdf5.Float32, 1, 4, nil}, {"float64", hdf5.Float64, 1, 8, nil},
}

// ---- scenarios ----------------------------------------------------------------------------------

type scenario struct {
	name  string
	build func(t *testing.T, fw *hdf5.FileWriter, m *model)
}

func mustGroup(t *testing.T, fw *hdf5.FileWriter, m *model, path string) *hdf5.GroupWriter {
	g, err := fw.CreateGroup(path)
	if err != nil {
		t.Fatalf("CreateGroup(%s): %v", path, err)
	}
	m.add(path, &expObj{kind: "group"})
	return g
}

// dataset creates a dataset and writes raw bytes; a library error is recorded as a note and the dataset is left out of the model.
func dataset(t *testing.T, fw *hdf5.FileWriter, m *model, path string, dt hdf5.Datatype, dims []uint64, e *expObj, raw []byte, opts ...hdf5.DatasetOption) *hdf5.DatasetWriter {
	ds, err := fw.CreateDataset(path, dt, dims, opts...)
	if err != nil {
		t.Fatalf("CreateDataset(%s): %v", path, err)
	}
	e.kind = "dataset"
	e.dims = dims
	if e.layout == "" {
		e.layout = "contiguous"
	}
	if raw != nil {
		if err := ds.WriteRaw(raw); err != nil {
			t.Fatalf("WriteRaw(%s): %v", path, err)
		}
		e.raw = raw
	}
	m.add(path, e)
	return ds
}

func scenarioTypes(t *testing.T, fw *hdf5.FileWriter, m *model) {
	mustGroup(t, fw, m, "/types")
	mustGroup(t, fw, m, "/types/basic")
	for i, bt := range basicTypes {
		dims := []uint64{uint64(3 + i%3)}
		if i%2 == 1 {
			dims = []uint64{2, uint64(2 + i%3)}
		}
		raw := pattern(int(prod(dims))*int(bt.size), byte(i))
		dataset(t, fw, m, "/types/basic/"+bt.name, bt.dt, dims, &expObj{class: bt.class, size: bt.size, signed: bt.signed}, raw)
	}
	mustGroup(t, fw, m, "/types/other")
	dataset(t, fw, m, "/types/other/str", hdf5.String, []uint64{3}, &expObj{class: 3, size: 6}, []byte("abc\x00\x00\x00defgh\x00x\x00\x00\x00\x00\x00"), hdf5.WithStringSize(6))
	dataset(t, fw, m, "/types/other/arr", hdf5.ArrayInt32, []uint64{2}, &expObj{class: 10, size: 12, arrayDims: []uint64{3}}, pattern(24, 40), hdf5.WithArrayDims([]uint64{3}))
	dataset(t, fw, m, "/types/other/arr2", hdf5.ArrayFloat64, []uint64{2}, &expObj{class: 10, size: 48, arrayDims: []uint64{2, 3}}, pattern(96, 41), hdf5.WithArrayDims([]uint64{2, 3}))
	dataset(t, fw, m, "/types/other/enum", hdf5.EnumInt32, []uint64{4}, &expObj{class: 8, size: 4, enumNames: []string{"RED", "GREEN", "BLUEBLUE"}},
		le32s(0, 1, 2, 1), hdf5.WithEnumValues([]string{"RED", "GREEN", "BLUEBLUE"}, []int64{0, 1, 2}))
	dataset(t, fw, m, "/types/other/enum8", hdf5.EnumUint8, []uint64{3}, &expObj{class: 8, size: 1, enumNames: []string{"A234567", "B"}},
		[]byte{7, 9, 7}, hdf5.WithEnumValues([]string{"A234567", "B"}, []int64{7, 9}))
	dataset(t, fw, m, "/types/other/objref", hdf5.ObjectReference, []uint64{2}, &expObj{class: 7, size: 8}, pattern(16, 42))
	dataset(t, fw, m, "/types/other/regref", hdf5.RegionReference, []uint64{2}, &expObj{class: 7, size: 12}, pattern(24, 43))
	dataset(t, fw, m, "/types/other/opaque", hdf5.Opaque, []uint64{3}, &expObj{class: 5, size: 5, tag: "my opaque tag"}, pattern(15, 44), hdf5.WithOpaqueTag("my opaque tag", 5))
}

func le32s(v ...uint32) []byte {
	b := make([]byte, 4*len(v))
	for i, x := range v {
		binary.LittleEndian.PutUint32(b[4*i:], x)
	}
	return b
}

func scenarioChunked(t *testing.T, fw *hdf5.FileWriter, m *model) {
	mustGroup(t, fw, m, "/chunked")
	cases := []struct {
		name    string
		dims    []uint64
		chunk   []uint64
		maxDims []uint64
	}{
		{"c1", []uint64{10}, []uint64{4}, nil},
		{"c1x", []uint64{8}, []uint64{8}, nil},
		{"c2", []uint64{4, 6}, []uint64{2, 3}, nil},
		{"c2edge", []uint64{5, 7}, []uint64{2, 3}, nil},
		{"c3", []uint64{3, 4, 5}, []uint64{2, 2, 2}, nil},
		{"cmax", []uint64{6}, []uint64{4}, []uint64{hdf5.Unlimited}},
		{"cmax2", []uint64{4, 4}, []uint64{2, 4}, []uint64{8, hdf5.Unlimited}},
		{"cmany", []uint64{200}, []uint64{2}, nil}, // 100 chunks > 2K = 64 entries in one node
	}
	for i, c := range cases {
		bt := basicTypes[(i*3+2)%len(basicTypes)]
		raw := pattern(int(prod(c.dims))*int(bt.size), byte(50+i))
		opts := []hdf5.DatasetOption{hdf5.WithChunkDims(c.chunk)}
		if c.maxDims != nil {
			opts = append(opts, hdf5.WithMaxDims(c.maxDims))
		}
		dataset(t, fw, m, "/chunked/"+c.name, bt.dt, c.dims, &expObj{class: bt.class, size: bt.size, signed: bt.signed, layout: "chunked", chunk: c.chunk, maxDims: c.maxDims}, raw, opts...)
	}
	// a chunked dataset that is never written
	dataset(t, fw, m, "/chunked/unwritten", hdf5.Int16, []uint64{6}, &expObj{class: 0, size: 2, layout: "chunked", chunk: []uint64{3}}, nil, hdf5.WithChunkDims([]uint64{3}))
	m.objs["/chunked/unwritten"].raw = make([]byte, 12)
}

func scenarioFilters(t *testing.T, fw *hdf5.FileWriter, m *model) {
	mustGroup(t, fw, m, "/filters")
	cases := []struct {
		name string
		opts []hdf5.DatasetOption
		ids  []uint16
	}{
		{"gzip", []hdf5.DatasetOption{hdf5.WithGZIPCompression(6)}, []uint16{1}},
		{"shuffle", []hdf5.DatasetOption{hdf5.WithShuffle()}, []uint16{2}},
		{"fletcher", []hdf5.DatasetOption{hdf5.WithFletcher32()}, []uint16{3}},
		{"shuffle_gzip", []hdf5.DatasetOption{hdf5.WithShuffle(), hdf5.WithGZIPCompression(1)}, []uint16{2, 1}},
		{"all", []hdf5.DatasetOption{hdf5.WithShuffle(), hdf5.WithGZIPCompression(9), hdf5.WithFletcher32()}, []uint16{2, 1, 3}},
	}
	for i, c := range cases {
		dims, chunk := []uint64{6, 5}, []uint64{4, 3}
		raw := pattern(30*4, byte(70+i))
		// make it compressible
		for k := range raw {
			raw[k] &= 0x03
		}
		opts := append([]hdf5.DatasetOption{hdf5.WithChunkDims(chunk)}, c.opts...)
		dataset(t, fw, m, "/filters/"+c.name, hdf5.Int32, dims, &expObj{class: 0, size: 4, signed: bp(true), layout: "chunked", chunk: chunk, filters: c.ids}, raw, opts...)
	}
}

func f64s(v ...float64) []byte {
	b := make([]byte, 8*len(v))
	for i, x := range v {
		binary.LittleEndian.PutUint64(b[8*i:], math.Float64bits(x))
	}
	return b
}

func scenarioAttrs(t *testing.T, fw *hdf5.FileWriter, m *model) {
	g := mustGroup(t, fw, m, "/attrs")
	ga := func(name string, v interface{}, e expAttr) {
		if err := g.WriteAttribute(name, v); err != nil {
			t.Fatalf("group WriteAttribute(%s): %v", name, err)
		}
		m.objs["/attrs"].attrs[name] = e
	}
	ga("gi32", int32(-5), expAttr{class: 0, size: 4, dims: []uint64{1}, data: le32s(0xfffffffb)})
	ga("gstr", "hello", expAttr{class: 3, size: 6, dims: []uint64{1}, data: []byte("hello\x00")})
	ga("gf64s", []float64{1.5, -2.25, 1e300}, expAttr{class: 1, size: 8, dims: []uint64{3}, data: f64s(1.5, -2.25, 1e300)})

	ds := dataset(t, fw, m, "/attrs/compact", hdf5.Float32, []uint64{2}, &expObj{class: 1, size: 4}, pattern(8, 90))
	da := func(ds *hdf5.DatasetWriter, path, name string, v interface{}, e expAttr) {
		if err := ds.WriteAttribute(name, v); err != nil {
			t.Fatalf("dataset %s WriteAttribute(%s): %v", path, name, err)
		}
		m.objs[path].attrs[name] = e
	}
	da(ds, "/attrs/compact", "i8", int8(-1), expAttr{class: 0, size: 1, dims: []uint64{1}, data: []byte{0xff}})
	da(ds, "/attrs/compact", "u16", uint16(0xbeef), expAttr{class: 0, size: 2, dims: []uint64{1}, data: []byte{0xef, 0xbe}})
	da(ds, "/attrs/compact", "i64", int64(-2), expAttr{class: 0, size: 8, dims: []uint64{1}, data: []byte{0xfe, 0xff, 0xff, 0xff, 0xff, 0xff, 0xff, 0xff}})
	da(ds, "/attrs/compact", "f32", float32(0.5), expAttr{class: 1, size: 4, dims: []uint64{1}, data: le32s(math.Float32bits(0.5))})
	da(ds, "/attrs/compact", "i32s", []int32{1, 2, 3}, expAttr{class: 0, size: 4, dims: []uint64{3}, data: le32s(1, 2, 3)})
	da(ds, "/attrs/compact", "s", "x", expAttr{class: 3, size: 2, dims: []uint64{1}, data: []byte("x\x00")})

	// dense: more than 8 attributes
	dd := dataset(t, fw, m, "/attrs/dense", hdf5.Int32, []uint64{3}, &expObj{class: 0, size: 4, signed: bp(true)}, le32s(1, 2, 3))
	for i := 0; i < 14; i++ {
		name := fmt.Sprintf("attr_%02d", i)
		switch i % 3 {
		case 0:
			da(dd, "/attrs/dense", name, int32(i*1000), expAttr{class: 0, size: 4, dims: []uint64{1}, data: le32s(uint32(i * 1000))})
		case 1:
			da(dd, "/attrs/dense", name, []float64{float64(i), 0.25}, expAttr{class: 1, size: 8, dims: []uint64{2}, data: f64s(float64(i), 0.25)})
		default:
			s := strings.Repeat("v", i)
			da(dd, "/attrs/dense", name, s, expAttr{class: 3, size: uint32(i + 1), dims: []uint64{1}, data: append([]byte(s), 0)})
		}
	}
	// something allocated after the dense transition
	dataset(t, fw, m, "/attrs/after", hdf5.Uint8, []uint64{5}, &expObj{class: 0, size: 1, signed: bp(false)}, []byte{1, 2, 3, 4, 5})
}

func scenarioCompound(t *testing.T, fw *hdf5.FileWriter, m *model) {
	mustGroup(t, fw, m, "/compound")
	i32, _ := core.CreateBasicDatatypeMessage(core.DatatypeFixed, 4)
	f64, _ := core.CreateBasicDatatypeMessage(core.DatatypeFloat, 8)
	u8, _ := core.CreateBasicDatatypeMessage(core.DatatypeFixed, 1)
	fields := []core.CompoundFieldDef{{Name: "id", Offset: 0, Type: i32}, {Name: "value", Offset: 4, Type: f64}, {Name: "flag", Offset: 12, Type: u8}}
	ct, err := core.CreateCompoundTypeFromFields(fields)
	if err != nil {
		t.Fatalf("CreateCompoundTypeFromFields: %v", err)
	}
	ds, err := fw.CreateCompoundDataset("/compound/recs", ct, []uint64{4})
	if err != nil {
		t.Fatalf("CreateCompoundDataset: %v", err)
	}
	raw := pattern(4*13, 100)
	if err := ds.WriteRaw(raw); err != nil {
		t.Fatalf("WriteRaw compound: %v", err)
	}
	m.add("/compound/recs", &expObj{kind: "dataset", class: 6, size: 13, dims: []uint64{4}, layout: "contiguous", raw: raw, members: []string{"id", "value", "flag"}})
}

func scenarioVLen(t *testing.T, fw *hdf5.FileWriter, m *model) {
	mustGroup(t, fw, m, "/vlen")
	ds, err := fw.CreateDataset("/vlen/strings", hdf5.VLenString, []uint64{4})
	if err != nil {
		t.Fatalf("CreateDataset vlen: %v", err)
	}
	strs := []string{"alpha", "", "gamma-gamma-gamma", "d"}
	if err := ds.Write(strs); err != nil {
		t.Fatalf("Write vlen strings: %v", err)
	}
	var objs [][]byte
	for _, s := range strs {
		objs = append(objs, []byte(s))
	}
	m.add("/vlen/strings", &expObj{kind: "dataset", class: 9, size: 16, dims: []uint64{4}, layout: "contiguous", vlen: objs})

	ds2, err := fw.CreateDataset("/vlen/ints", hdf5.VLenInt32, []uint64{3})
	if err != nil {
		t.Fatalf("CreateDataset vlen int: %v", err)
	}
	if err := ds2.Write([][]int32{{1, 2, 3}, {4}, {5, 6}}); err != nil {
		t.Fatalf("Write vlen ints: %v", err)
	}
	m.add("/vlen/ints", &expObj{kind: "dataset", class: 9, size: 16, dims: []uint64{3}, layout: "contiguous", vlen: [][]byte{le32s(1, 2, 3), le32s(4), le32s(5, 6)}})
}

func scenarioLinks(t *testing.T, fw *hdf5.FileWriter, m *model) {
	mustGroup(t, fw, m, "/links")
	mustGroup(t, fw, m, "/links/sub")
	dataset(t, fw, m, "/links/target", hdf5.Int32, []uint64{2}, &expObj{class: 0, size: 4, signed: bp(true)}, le32s(11, 22))
	if err := fw.CreateHardLink("/links/sub/hard", "/links/target"); err != nil {
		t.Fatalf("CreateHardLink: %v", err)
	}
	m.objs["/links/sub"].children["hard"] = true
	m.aliases["/links/sub/hard"] = "/links/target"
	if err := fw.CreateSoftLink("/links/soft", "/links/target"); err != nil {
		t.Fatalf("CreateSoftLink: %v", err)
	}
	if m.objs["/links"].softLinks == nil {
		m.objs["/links"].softLinks = map[string]string{}
	}
	m.objs["/links"].softLinks["soft"] = "/links/target"
	if err := fw.CreateExternalLink("/links/ext", "other.h5", "/some/object"); err != nil {
		t.Fatalf("CreateExternalLink: %v", err)
	}
	m.objs["/links"].extLinks = map[string][2]string{"ext": {"other.h5", "/some/object"}}
}

func scenarioDenseGroup(t *testing.T, fw *hdf5.FileWriter, m *model) {
	mustGroup(t, fw, m, "/dg")
	links := map[string]string{}
	for i := 0; i < 12; i++ {
		p := fmt.Sprintf("/dg/d%02d", i)
		dataset(t, fw, m, p, hdf5.Uint16, []uint64{2}, &expObj{class: 0, size: 2, signed: bp(false)}, pattern(4, byte(120+i)))
		links[fmt.Sprintf("link_%02d", i)] = p
	}
	if err := fw.CreateDenseGroup("/dense", links); err != nil {
		t.Fatalf("CreateDenseGroup: %v", err)
	}
	g := m.add("/dense", &expObj{kind: "group"})
	for n, target := range links {
		g.children[n] = true
		m.aliases["/dense/"+n] = target
	}
}

func scenarioManyChildren(t *testing.T, fw *hdf5.FileWriter, m *model) {
	mustGroup(t, fw, m, "/many")
	// 20 children: more than 2*leafK = 8 symbols in one symbol table node, inserted in non-sorted order
	for i := 0; i < 20; i++ {
		name := fmt.Sprintf("/many/n%02d", (i*7)%20)
		if i%4 == 0 {
			mustGroup(t, fw, m, name)
		} else {
			dataset(t, fw, m, name, hdf5.Int8, []uint64{1}, &expObj{class: 0, size: 1, signed: bp(true)}, []byte{byte(i)})
		}
	}
}

var scenarios = []scenario{
	{"types", scenarioTypes},
	{"chunked", scenarioChunked},
	{"filters", scenarioFilters},
	{"attrs", scenarioAttrs},
	{"compound", scenarioCompound},
	{"vlen", scenarioVLen},
	{"links", scenarioLinks},
	{"densegroup", scenarioDenseGroup},
	{"many", scenarioManyChildren},
}

// ---- comparison ---------------------------------------------------------------------------------

func compare(t *testing.T, f *indep.File, m *model) {
	t.Helper()
	// every model path must resolve, every decoded path must be in the model
	want := map[string]string{}
	for p := range m.objs {
		want[p] = p
	}
	for p, c := range m.aliases {
		want[p] = c
	}
	var missing, extra []string
	for p := range want {
		if _, ok := f.Paths[p]; !ok {
			missing = append(missing, p)
		}
	}
	for p := range f.Paths {
		if _, ok := want[p]; !ok {
			// link pseudo-objects show up as hard-linked objects; tolerated only for modelled soft/external links
			par, n := split(p)
			if po := m.objs[par]; po != nil {
				if _, ok := po.softLinks[n]; ok {
					continue
				}
				if _, ok := po.extLinks[n]; ok {
					continue
				}
			}
			extra = append(extra, p)
		}
	}
	sort.Strings(missing)
	sort.Strings(extra)
	if len(missing) > 0 {
		t.Errorf("paths written but not decoded: %v", missing)
	}
	if len(extra) > 0 {
		t.Errorf("paths decoded but never written: %v", extra)
	}
	for p, c := range m.aliases {
		if f.Paths[p] != f.Paths[c] {
			t.Errorf("hard link %s -> 0x%x, target %s is at 0x%x", p, f.Paths[p], c, f.Paths[c])
		}
	}
	paths := make([]string, 0, len(m.objs))
	for p := range m.objs {
		paths = append(paths, p)
	}
	sort.Strings(paths)
	for _, p := range paths {
		e := m.objs[p]
		o := f.Lookup(p)
		if o == nil {
			continue
		}
		if o.Kind != e.kind {
			t.Errorf("%s: kind %q, want %q", p, o.Kind, e.kind)
			continue
		}
		// attributes
		got := map[string]indep.Attribute{}
		for _, a := range o.Attrs {
			got[a.Name] = a
		}
		for n, ea := range e.attrs {
			a, ok := got[n]
			if !ok {
				t.Errorf("%s: attribute %q not decoded", p, n)
				continue
			}
			if a.Type.Class != ea.class || a.Type.Size != ea.size {
				t.Errorf("%s@%s: type class %d size %d, want class %d size %d", p, n, a.Type.Class, a.Type.Size, ea.class, ea.size)
			}
			if !reflect.DeepEqual(a.Dims, ea.dims) {
				t.Errorf("%s@%s: dims %v, want %v", p, n, a.Dims, ea.dims)
			}
			if !bytes.Equal(a.Data, ea.data) {
				t.Errorf("%s@%s: data % x, want % x", p, n, a.Data, ea.data)
			}
		}
		for n := range got {
			if _, ok := e.attrs[n]; !ok {
				t.Errorf("%s: attribute %q decoded but never written", p, n)
			}
		}
		if e.kind == "group" {
			names := map[string]string{}
			for _, l := range o.Links {
				names[l.Name] = l.Kind
			}
			for n := range e.children {
				if names[n] != "hard" {
					t.Errorf("%s: child %q: link kind %q, want hard", p, n, names[n])
				}
			}
			for n, target := range e.softLinks {
				found := false
				for _, l := range o.Links {
					if l.Name == n && l.Kind == "soft" && l.SoftPath == target {
						found = true
					}
				}
				if !found {
					t.Errorf("%s: soft link %q -> %q not decoded (links: %+v)", p, n, target, o.Links)
				}
			}
			for n, target := range e.extLinks {
				found := false
				for _, l := range o.Links {
					if l.Name == n && l.Kind == "external" && l.ExtFile == target[0] && l.ExtPath == target[1] {
						found = true
					}
				}
				if !found {
					t.Errorf("%s: external link %q -> %v not decoded (links: %+v)", p, n, target, o.Links)
				}
			}
			if len(o.Links) != len(e.children)+len(e.softLinks)+len(e.extLinks) {
				t.Errorf("%s: %d links decoded, %d written", p, len(o.Links), len(e.children)+len(e.softLinks)+len(e.extLinks))
			}
			continue
		}
		// dataset
		if o.Type == nil {
			t.Errorf("%s: no datatype decoded (%s)", p, o.RawErr)
			continue
		}
		if o.Type.Class != e.class || o.Type.Size != e.size {
			t.Errorf("%s: type class %d size %d, want class %d size %d", p, o.Type.Class, o.Type.Size, e.class, e.size)
		}
		if e.signed != nil && o.Type.Signed != *e.signed {
			t.Errorf("%s: signed=%v, want %v", p, o.Type.Signed, *e.signed)
		}
		if (e.class == 0 || e.class == 1) && (o.Type.BigEndian || o.Type.Precision != uint16(e.size*8) || o.Type.BitOffset != 0) {
			t.Errorf("%s: byte order/precision/offset = %v/%d/%d", p, o.Type.BigEndian, o.Type.Precision, o.Type.BitOffset)
		}
		if !reflect.DeepEqual(o.Dims, e.dims) {
			t.Errorf("%s: dims %v, want %v", p, o.Dims, e.dims)
		}
		if e.maxDims != nil && !reflect.DeepEqual(o.MaxDims, e.maxDims) {
			t.Errorf("%s: max dims %v, want %v", p, o.MaxDims, e.maxDims)
		}
		if e.maxDims == nil && o.MaxDims != nil && !reflect.DeepEqual(o.MaxDims, e.dims) {
			t.Errorf("%s: max dims %v although none were requested", p, o.MaxDims)
		}
		if o.Layout != e.layout {
			t.Errorf("%s: layout %q, want %q", p, o.Layout, e.layout)
		}
		if e.layout == "chunked" && !reflect.DeepEqual(o.ChunkDims, e.chunk) {
			t.Errorf("%s: chunk dims %v, want %v", p, o.ChunkDims, e.chunk)
		}
		var ids []uint16
		for _, fl := range o.Filters {
			ids = append(ids, fl.ID)
		}
		if !reflect.DeepEqual(ids, e.filters) {
			t.Errorf("%s: filters %v, want %v", p, ids, e.filters)
		}
		if e.members != nil {
			var names []string
			for _, mm := range o.Type.Members {
				names = append(names, mm.Name)
			}
			if !reflect.DeepEqual(names, e.members) {
				t.Errorf("%s: compound members %v, want %v", p, names, e.members)
			}
		}
		if e.enumNames != nil && !reflect.DeepEqual(o.Type.EnumNames, e.enumNames) {
			t.Errorf("%s: enum names %v, want %v", p, o.Type.EnumNames, e.enumNames)
		}
		if e.arrayDims != nil && !reflect.DeepEqual(o.Type.ArrayDims, e.arrayDims) {
			t.Errorf("%s: array dims %v, want %v", p, o.Type.ArrayDims, e.arrayDims)
		}
		if e.tag != "" && o.Type.OpaqueTag != e.tag {
			t.Errorf("%s: opaque tag %q, want %q", p, o.Type.OpaqueTag, e.tag)
		}
		if e.raw != nil {
			if o.Raw == nil {
				t.Errorf("%s: raw data unavailable: %s", p, o.RawErr)
			} else if !bytes.Equal(o.Raw, e.raw) {
				t.Errorf("%s: raw data differs:\n got  % x\n want % x", p, clip(o.Raw), clip(e.raw))
			}
		}
		if e.vlen != nil {
			if o.Raw == nil {
				t.Errorf("%s: raw data unavailable: %s", p, o.RawErr)
				continue
			}
			if len(o.Raw) != 16*len(e.vlen) {
				t.Errorf("%s: %d raw bytes for %d vlen elements", p, len(o.Raw), len(e.vlen))
				continue
			}
			for i, want := range e.vlen {
				got, err := f.ResolveVLen(o.Raw[16*i : 16*i+16])
				if err != nil {
					t.Errorf("%s[%d]: ResolveVLen: %v", p, i, err)
				} else if !bytes.Equal(got, want) {
					t.Errorf("%s[%d]: vlen object % x, want % x", p, i, got, want)
				}
			}
		}
	}
}

func clip(b []byte) []byte {
	if len(b) > 96 {
		return b[:96]
	}
	return b
}

func writeScenario(t *testing.T, sv uint8, sc scenario) ([]byte, *model) {
	dir := t.TempDir()
	p := filepath.Join(dir, sc.name+".h5")
	fw, err := hdf5.CreateForWrite(p, hdf5.CreateTruncate, hdf5.WithSuperblockVersion(sv))
	if err != nil {
		t.Fatalf("CreateForWrite: %v", err)
	}
	m := newModel()
	sc.build(t, fw, m)
	if err := fw.Close(); err != nil {
		t.Fatalf("Close: %v", err)
	}
	data, err := os.ReadFile(p)
	if err != nil {
		t.Fatal(err)
	}
	if keep := os.Getenv("INDEP_KEEP"); keep != "" {
		os.WriteFile(filepath.Join(keep, fmt.Sprintf("%s_sb%d.h5", sc.name, sv)), data, 0o644)
	}
	return data, m
}

// TestLibraryFiles: files written through the library's public API decode (with the documented
// deviations tolerated) to exactly the tree, shapes, types and bytes that were written, and their
// extent maps are consistent.
func TestLibraryFiles(t *testing.T) {
	devTotal := map[string]int{}
	for _, sv := range []uint8{0, 2, 3} {
		for _, sc := range scenarios {
			t.Run(fmt.Sprintf("sb%d/%s", sv, sc.name), func(t *testing.T) {
				data, m := writeScenario(t, sv, sc)
				for _, n := range m.notes {
					t.Logf("library refused: %s", n)
				}
				f, err := indep.Decode(data, indep.TolerateAll())
				if err != nil {
					t.Fatalf("Decode (all deviations tolerated): %v", err)
				}
				if int(sv) != f.SuperblockVersion {
					t.Errorf("superblock version %d, want %d", f.SuperblockVersion, sv)
				}
				for k, n := range f.Deviations {
					devTotal[k] += n
				}
				if probs := f.CheckExtents(uint64(len(data))); len(probs) > 0 {
					t.Errorf("extent problems:\n  %s", strings.Join(head(probs, 12), "\n  "))
				}
				compare(t, f, m)
				// strict decoding must refuse the file and name a deviation
				if _, serr := indep.Decode(data, indep.Options{}); serr == nil {
					t.Logf("note: the file also decodes strictly")
				} else if !strings.HasPrefix(serr.Error(), "deviation ") {
					t.Errorf("strict decoding failed with something that is not a named deviation: %v", serr)
				}
			})
		}
	}
	var ks []string
	for k, n := range devTotal {
		ks = append(ks, fmt.Sprintf("%-36s %d", k, n))
	}
	sort.Strings(ks)
	t.Logf("deviations used:\n  %s", strings.Join(ks, "\n  "))
	if !t.Failed() && len(scenarios) >= 9 {
		// the table of tolerated deviations must hold nothing the library does not actually do
		for _, n := range indep.KnownDeviations {
			if n == "btree2-empty-root" || n == "btree2-equal-hash-order" {
				continue // needs "delete every dense attribute of an object"; exercised by the C05 check's generated histories
			}
			if devTotal[n] == 0 {
				t.Errorf("deviation %q is in indep.KnownDeviations but no library-written file needed it", n)
			}
		}
	}
}
