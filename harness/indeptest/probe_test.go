package indeptest

import (
	"os"
	"path/filepath"
	"testing"

	hdf5 "github.com/scigolib/hdf5"
	"github.com/scigolib/hdf5/verif/indep"
)

func TestProbe(t *testing.T) {
	for _, sv := range []uint8{2, 0, 3} {
		dir := t.TempDir()
		p := filepath.Join(dir, "a.h5")
		fw, err := hdf5.CreateForWrite(p, hdf5.CreateTruncate, hdf5.WithSuperblockVersion(sv))
		if err != nil {
			t.Fatal(err)
		}
		if _, err := fw.CreateGroup("/g1"); err != nil {
			t.Fatal(err)
		}
		ds, err := fw.CreateDataset("/g1/d", hdf5.Int32, []uint64{4})
		if err != nil {
			t.Fatal(err)
		}
		if err := ds.Write([]int32{1, 2, 3, 4}); err != nil {
			t.Fatal(err)
		}
		if err := ds.WriteAttribute("a", int32(7)); err != nil {
			t.Fatal(err)
		}
		if err := fw.Close(); err != nil {
			t.Fatal(err)
		}
		data, _ := os.ReadFile(p)
		f, err := indep.Decode(data, indep.Options{})
		t.Logf("sv=%d strict: %v", sv, err)
		f, err = indep.Decode(data, indep.TolerateAll())
		t.Logf("sv=%d tolerant: %v dev=%v", sv, err, f.Deviations)
		for _, pr := range f.CheckExtents(uint64(len(data))) {
			t.Logf("   %s", pr)
		}
		os.WriteFile("/tmp/probe_sv"+string('0'+sv)+".h5", data, 0o644)
	}
}
