package c08

// pipemsg: the pipeline description as a file holds it. Well-formed version 1 and version 2 filter pipeline messages, laid
// out by this file from the format specification (version 1: 8-byte filter headers, names padded to 8 bytes, client data
// padded to 8 bytes; version 2: no name-length field and no name for the predefined filters, an unpadded name for ids from 256, nothing padded), are parsed by
// the reader and must give back the filter ids, flags and client data values in order.

import (
	"encoding/binary"
	"fmt"

	"github.com/scigolib/hdf5/internal/core"
	"github.com/scigolib/hdf5/verif/vt"
	"pgregory.net/rapid"
)

type PMFilter struct {
	ID    uint16   `json:"id"`
	Flags uint16   `json:"flags"`
	Name  string   `json:"name,omitempty"` // version 1 only
	CD    []uint32 `json:"cd,omitempty"`
}

type PMCase struct {
	Version int        `json:"version"`
	Filters []PMFilter `json:"filters"`
}

func genPM(t *rapid.T) PMCase {
	c := PMCase{Version: rapid.SampledFrom([]int{1, 2, 2}).Draw(t, "version")}
	n := rapid.IntRange(1, 6).Draw(t, "nfilters")
	for i := 0; i < n; i++ {
		f := PMFilter{ID: rapid.SampledFrom([]uint16{1, 2, 3, 4, 5, 6, 1, 2, 3, 255, 256, 307, 32000}).Draw(t, "id"), Flags: uint16(rapid.IntRange(0, 1).Draw(t, "flags"))}
		f.CD = rapid.SliceOfN(rapid.Uint32(), 0, 5).Draw(t, "cd")
		if c.Version == 1 || f.ID >= 256 {
			f.Name = rapid.SampledFrom([]string{"", "deflate", "shuffle", "fletcher32", "abcdefg", "abcdefgh", "x"}).Draw(t, "name")
		}
		c.Filters = append(c.Filters, f)
	}
	return c
}

func classifyPM(c PMCase) (bool, []string) {
	labels := []string{fmt.Sprintf("version=%d", c.Version)}
	oddBeforeLast := false
	for i, f := range c.Filters {
		if len(f.CD)%2 == 1 && i < len(c.Filters)-1 {
			oddBeforeLast = true
		}
	}
	if oddBeforeLast {
		labels = append(labels, "odd_client_data_count_before_another_filter")
	}
	if len(c.Filters) > 0 && len(c.Filters[len(c.Filters)-1].CD) == 0 {
		labels = append(labels, "last_filter_without_client_data")
	}
	return len(c.Filters) >= 2, labels
}

func encodePM(c PMCase) []byte {
	le16 := func(b []byte, v uint16) []byte { return binary.LittleEndian.AppendUint16(b, v) }
	out := []byte{byte(c.Version), byte(len(c.Filters))}
	if c.Version == 1 {
		out = append(out, 0, 0, 0, 0, 0, 0)
	}
	for _, f := range c.Filters {
		out = le16(out, f.ID)
		if c.Version == 1 {
			nl := 0
			if f.Name != "" {
				nl = (len(f.Name) + 1 + 7) / 8 * 8 // includes the terminator, padded to a multiple of eight
			}
			out = le16(out, uint16(nl))
			out = le16(out, f.Flags)
			out = le16(out, uint16(len(f.CD)))
			name := make([]byte, nl)
			copy(name, f.Name)
			out = append(out, name...)
		} else {
			nl := 0
			if f.ID >= 256 {
				if f.Name != "" {
					nl = len(f.Name) + 1 // terminator included, nothing padded
				}
				out = le16(out, uint16(nl))
			}
			out = le16(out, f.Flags)
			out = le16(out, uint16(len(f.CD)))
			name := make([]byte, nl)
			copy(name, f.Name)
			out = append(out, name...)
		}
		for _, v := range f.CD {
			out = binary.LittleEndian.AppendUint32(out, v)
		}
		if c.Version == 1 && len(f.CD)%2 == 1 {
			out = append(out, 0, 0, 0, 0)
		}
	}
	return out
}

func runPM(c PMCase) vt.Verdict {
	if (c.Version != 1 && c.Version != 2) || len(c.Filters) == 0 || len(c.Filters) > 32 {
		return vt.Skipped("outside the generated domain")
	}
	for _, f := range c.Filters {
		if c.Version == 2 && f.ID < 256 && f.Name != "" {
			return vt.Skipped("outside the generated domain")
		}
	}
	msg := encodePM(c)
	pm, err := core.ParseFilterPipelineMessage(msg)
	if err != nil {
		return vt.Bad("well-formed version %d pipeline message with %d filters (%d bytes) refused: %v", c.Version, len(c.Filters), len(msg), err)
	}
	if len(pm.Filters) != len(c.Filters) {
		return vt.Bad("version %d message with %d filters parsed to %d", c.Version, len(c.Filters), len(pm.Filters))
	}
	for i, f := range c.Filters {
		g := pm.Filters[i]
		if uint16(g.ID) != f.ID || g.Flags != f.Flags || int(g.NumClientData) != len(f.CD) || len(g.ClientData) != len(f.CD) {
			return vt.Bad("version %d message, filter %d: stored id %d flags %d with %d client values, parsed id %d flags %d with %d (%d values)", c.Version, i, f.ID, f.Flags, len(f.CD), g.ID, g.Flags, g.NumClientData, len(g.ClientData))
		}
		for k := range f.CD {
			if g.ClientData[k] != f.CD[k] {
				return vt.Bad("version %d message, filter %d: client value %d stored %#x parsed %#x", c.Version, i, k, f.CD[k], g.ClientData[k])
			}
		}
		if f.Name != "" && g.Name != f.Name {
			return vt.Bad("version %d message, filter %d (id %d): name stored %q parsed %q", c.Version, i, f.ID, f.Name, g.Name)
		}
	}
	return vt.Pass()
}
