// Package c08 decides property C08: filter pipelines are lossless, self-compatible (writer against
// reader) and detect corruption. See DESIGN.md section 5, C08.
package c08

import (
	"bytes"
	"encoding/binary"
	"fmt"
	"math"
	"os"
	"path/filepath"
	"strings"
	"testing"

	hdf5 "github.com/scigolib/hdf5"
	"github.com/scigolib/hdf5/internal/core"
	"github.com/scigolib/hdf5/internal/writer"
	"github.com/scigolib/hdf5/verif/indep"
	"github.com/scigolib/hdf5/verif/vt"
	"pgregory.net/rapid"
)

const prop = "C08"
const (
	kfMsg      = "KF-C08-01" // pipeline message: version byte 2 over a version-1 layout
	kfFletcher = "KF-C08-02" // reader strips the Fletcher-32 checksum without verifying it
)

type F struct {
	K string `json:"k"` // deflate shuffle fletcher lzf bzip2
	P int    `json:"p,omitempty"`
}

type Payload struct {
	Kind string `json:"kind"` // random const period ramp text
	Len  int    `json:"len"`
	Seed int    `json:"seed"`
}

type Case struct {
	Filters []F     `json:"filters"`
	Payload Payload `json:"payload"`
	Corrupt bool    `json:"corrupt"`
	CSeed   int     `json:"cseed,omitempty"`
}

func (p Payload) bytes() []byte {
	b := make([]byte, p.Len)
	x := uint32(p.Seed)*2654435761 + 1
	next := func() byte { x = x*1664525 + 1013904223; return byte(x >> 24) }
	switch p.Kind {
	case "const":
		c := next()
		for i := range b {
			b[i] = c
		}
	case "period":
		per := int(next())%13 + 2
		pat := make([]byte, per)
		for i := range pat {
			pat[i] = next()
		}
		for i := range b {
			b[i] = pat[i%per]
		}
	case "ramp":
		for i := range b {
			b[i] = byte(i / 3)
		}
	case "longperiod":
		// an incompressible block repeated at a long distance: matches sit exactly at / around window and length limits
		pers := []int{8191, 8192, 8193, 8194, 4095, 4096, 4097, 264, 265, 32768, 65535, 65536}
		per := pers[int(next())%len(pers)]
		if per > p.Len && p.Len > 0 {
			per = p.Len
		}
		pat := make([]byte, per)
		for i := range pat {
			pat[i] = next()
		}
		for i := range b {
			b[i] = pat[i%per]
		}
	case "text":
		words := []string{"alpha ", "beta ", "gamma ", "delta ", "hdf5 ", "chunk ", "0000", "\x00\x00\x00\x01"}
		var sb strings.Builder
		for sb.Len() < p.Len {
			sb.WriteString(words[int(next())%len(words)])
		}
		copy(b, sb.String())
	default:
		for i := range b {
			b[i] = next()
		}
	}
	return b
}

func mk(f F) writer.Filter {
	switch f.K {
	case "deflate":
		return writer.NewGZIPFilter(f.P)
	case "shuffle":
		return writer.NewShuffleFilter(uint32(f.P))
	case "fletcher":
		return writer.NewFletcher32Filter()
	case "lzf":
		return writer.NewLZFFilter()
	case "bzip2":
		return writer.NewBZIP2Filter(f.P)
	}
	return nil
}

func genFilter(t *rapid.T) F {
	k := rapid.SampledFrom([]string{"deflate", "deflate", "shuffle", "shuffle", "fletcher", "fletcher", "lzf", "lzf", "bzip2"}).Draw(t, "k")
	f := F{K: k}
	switch k {
	case "deflate":
		f.P = rapid.SampledFrom([]int{0, 1, 2, 3, 4, 5, 6, 7, 8, 9, -1, 10, 100}).Draw(t, "level")
	case "shuffle":
		f.P = rapid.SampledFrom([]int{1, 2, 4, 8, 16, 3}).Draw(t, "elem")
	case "bzip2":
		f.P = rapid.IntRange(0, 10).Draw(t, "block")
	}
	return f
}

func genCase(t *rapid.T) Case {
	c := Case{Filters: rapid.SliceOfN(rapid.Custom(genFilter), 0, 4).Draw(t, "filters")}
	maxLen := vt.N(1<<16, 1<<20)
	c.Payload = Payload{
		Kind: rapid.SampledFrom([]string{"random", "const", "period", "ramp", "text", "longperiod"}).Draw(t, "kind"),
		Len: rapid.OneOf(rapid.IntRange(0, 64), rapid.IntRange(0, 600), rapid.IntRange(0, 5000), rapid.SampledFrom([]int{0, 1, 2, 3, 4, 7, 8, 9, 15, 16, 17, 255, 256, 257, 4095, 4096, 4097}),
			rapid.IntRange(0, maxLen)).Draw(t, "len"),
		Seed: rapid.IntRange(0, 1<<20).Draw(t, "seed"),
	}
	switch {
	case c.Payload.Kind == "longperiod":
		c.Payload.Len = rapid.SampledFrom([]int{16390, 16500, 17000, 20000, 66000}).Draw(t, "longlen")
	case c.Payload.Kind == "const" && rapid.IntRange(0, 24).Draw(t, "huge") == 0:
		// extreme compression ratios (> 1000:1): 1-4 MiB of one byte value
		c.Payload.Len = rapid.SampledFrom([]int{1 << 20, 1<<20 + 1, 3 << 20, 1 << 22}).Draw(t, "hugelen")
	}
	hasF := false
	for _, f := range c.Filters {
		if f.K == "fletcher" {
			hasF = true
		}
	}
	if hasF || rapid.IntRange(0, 3).Draw(t, "forceFletcher") == 0 {
		// corruption cases: Fletcher-32 outermost (applied last), as the checksum then covers exactly the stored bytes
		c.Corrupt = rapid.Bool().Draw(t, "corrupt")
		c.CSeed = rapid.IntRange(0, 1<<20).Draw(t, "cseed")
		if c.Payload.Len > 1<<17 {
			c.Corrupt = false // corruption sweeps over megabyte payloads add cost, not coverage
		}
		if c.Corrupt && (len(c.Filters) == 0 || c.Filters[len(c.Filters)-1].K != "fletcher") {
			if len(c.Filters) == 4 {
				c.Filters = c.Filters[:3]
			}
			c.Filters = append(c.Filters, F{K: "fletcher"})
		}
	}
	return c
}

func classify(c Case) (bool, []string) {
	labels := []string{fmt.Sprintf("nfilters=%d", len(c.Filters)), "payload=" + c.Payload.Kind}
	nonMult := false
	for _, f := range c.Filters {
		labels = append(labels, "has_"+f.K)
		if f.K == "shuffle" && f.P > 0 && c.Payload.Len%f.P != 0 {
			nonMult = true
		}
	}
	if nonMult {
		labels = append(labels, "len_not_multiple_of_elem")
	}
	if c.Corrupt {
		labels = append(labels, "corruption")
	}
	if c.Payload.Len > 4096 {
		labels = append(labels, "len>4096")
	}
	if c.Payload.Len == 0 {
		labels = append(labels, "empty")
	}
	return len(c.Filters) >= 2 || nonMult || c.Corrupt, labels
}

func run(c Case) vt.Verdict {
	x := c.Payload.bytes()
	pipe := writer.NewFilterPipeline()
	var fs []writer.Filter
	for _, f := range c.Filters {
		w := mk(f)
		if w == nil {
			return vt.Skipped("unknown filter")
		}
		fs = append(fs, w)
		pipe.AddFilter(w)
	}
	// (a) stage-wise application: the only documented refusals are shuffle on a length that is not a
	// multiple of its element size, and bzip2 (compression not implemented).
	cur := append([]byte{}, x...)
	refused := ""
	for i, w := range fs {
		in := append([]byte{}, cur...)
		out, err := w.Apply(in)
		if err != nil {
			switch {
			case c.Filters[i].K == "shuffle" && c.Filters[i].P > 0 && len(cur)%c.Filters[i].P != 0:
				refused = "shuffle precondition"
			case c.Filters[i].K == "bzip2":
				refused = "bzip2 unsupported"
			default:
				return vt.Bad("filter %d (%s) refused a %d-byte input without a documented precondition: %v", i, w.Name(), len(cur), err)
			}
			break
		}
		// each stage alone is lossless
		back, err := w.Remove(append([]byte{}, out...))
		if err != nil {
			return vt.Bad("filter %d (%s): Remove(Apply(x)) failed for %d bytes: %v", i, w.Name(), len(cur), err)
		}
		if !bytes.Equal(back, cur) {
			return vt.Bad("filter %d (%s): Remove(Apply(x)) != x for %d bytes (first diff %d, got %d bytes)", i, w.Name(), len(cur), firstDiff(back, cur), len(back))
		}
		cur = out
	}
	enc, err := pipe.Apply(append([]byte{}, x...))
	if refused != "" {
		if err == nil {
			return vt.Bad("pipeline accepted the payload although stage-wise application is refused (%s)", refused)
		}
		return vt.Pass() // counted through labels
	}
	if err != nil {
		return vt.Bad("pipeline.Apply failed although every stage accepts: %v", err)
	}
	if !bytes.Equal(enc, cur) {
		return vt.Bad("pipeline.Apply differs from applying the filters in order (first diff %d)", firstDiff(enc, cur))
	}
	dec, err := pipe.Remove(append([]byte{}, enc...))
	if err != nil {
		return vt.Bad("pipeline.Remove(Apply(x)) failed: %v", err)
	}
	if !bytes.Equal(dec, x) {
		return vt.Bad("pipeline.Remove(Apply(x)) != x (len %d vs %d, first diff %d)", len(dec), len(x), firstDiff(dec, x))
	}
	// (a1) the same filters configured by another route: the first filter is put in front of the others afterwards
	// (AddFilterAtStart, what the dataset options do with shuffle), with the pipeline message encoded in between - the pipeline
	// and its message describe the filters that are configured, whatever the order of configuration calls
	if len(c.Filters) >= 1 {
		alt := writer.NewFilterPipeline()
		for _, f := range c.Filters[1:] {
			alt.AddFilter(mk(f))
		}
		if _, err := alt.EncodePipelineMessage(); err != nil && len(c.Filters) > 1 {
			return vt.Bad("EncodePipelineMessage of the partially configured pipeline failed: %v", err)
		}
		alt.AddFilterAtStart(mk(c.Filters[0]))
		if alt.Count() != len(c.Filters) {
			return vt.Bad("pipeline configured with AddFilter x %d + AddFilterAtStart holds %d filters", len(c.Filters)-1, alt.Count())
		}
		aenc, aerr := alt.Apply(append([]byte{}, x...))
		if aerr != nil || !bytes.Equal(aenc, enc) {
			return vt.Bad("pipeline configured with AddFilterAtStart encodes differently from the one configured in order (err %v, first diff %d)", aerr, firstDiff(aenc, enc))
		}
		m1, e1 := pipe.EncodePipelineMessage()
		m2, e2 := alt.EncodePipelineMessage()
		if (e1 == nil) != (e2 == nil) || !bytes.Equal(m1, m2) {
			return vt.Bad("pipeline message of the pipeline configured with AddFilterAtStart differs from the one configured in order (errs %v / %v, first diff %d)", e1, e2, firstDiff(m1, m2))
		}
	}

	// (a2) a pipeline is used for chunk after chunk: encoding a second payload must not disturb the bytes returned for the
	// first one, and decoding a second chunk must not disturb the first decoded payload
	if v := func() *vt.Verdict {
		bad := func(format string, a ...any) *vt.Verdict { v := vt.Bad(format, a...); return &v }
		encSnap := append([]byte{}, enc...)
		y := make([]byte, len(x))
		for i := range y {
			y[i] = x[len(x)-1-i] ^ 0x5A
		}
		// the two payloads are consecutive windows of one buffer, the way chunks are cut out of a dataset buffer: encoding the
		// first must not write into the bytes behind it
		both := make([]byte, 0, 2*len(x)+16)
		both = append(append(both, x...), y...)
		if len(x) > 0 {
			encW, err := pipe.Apply(both[:len(x)])
			if err != nil {
				return bad("pipeline.Apply refused the payload when it is a window of a larger buffer: %v", err)
			}
			if !bytes.Equal(both[len(x):len(x)+len(y)], y) {
				return bad("pipeline.Apply on a window of a larger buffer wrote beyond the window (first changed byte %d behind it)", firstDiff(both[len(x):len(x)+len(y)], y))
			}
			if !bytes.Equal(encW, encSnap) {
				return bad("pipeline.Apply gives different bytes for the same payload when it is a window of a larger buffer (first diff %d)", firstDiff(encW, encSnap))
			}
		}
		yIn := append([]byte{}, y...)
		enc2, err := pipe.Apply(yIn)
		if err != nil {
			for i, f := range c.Filters {
				if f.K == "shuffle" && i > 0 {
					return nil // what reaches a shuffle stage behind a compressor has a data-dependent length
				}
			}
			return bad("pipeline.Apply refused a second payload of the same length: %v", err)
		}
		if !bytes.Equal(enc, encSnap) {
			return bad("the bytes returned by pipeline.Apply for the first payload changed when a second payload was encoded (first diff %d of %d): output aliases filter state", firstDiff(enc, encSnap), len(enc))
		}
		dec1, err := pipe.Remove(append([]byte{}, enc...))
		if err != nil || !bytes.Equal(dec1, x) {
			return bad("first chunk no longer decodes to its payload after a second chunk was encoded: err %v", err)
		}
		dec2, err := pipe.Remove(append([]byte{}, enc2...))
		if err != nil || !bytes.Equal(dec2, y) {
			return bad("second chunk through the same pipeline does not decode to its payload: err %v (first diff %d)", err, firstDiff(dec2, y))
		}
		if !bytes.Equal(dec1, x) {
			return bad("the payload returned by pipeline.Remove for the first chunk changed when a second chunk was decoded: output aliases filter state")
		}
		return nil
	}(); v != nil {
		return *v
	}
	if len(fs) == 0 {
		return vt.Pass()
	}

	// (b2) payload compatibility: the reader decodes what the writer encoded, given the same pipeline description
	msg := &core.FilterPipelineMessage{Version: 2, NumFilters: uint8(len(fs))}
	for _, w := range fs {
		flags, cd := w.Encode()
		msg.Filters = append(msg.Filters, core.Filter{ID: core.FilterID(w.ID()), Flags: flags, NumClientData: uint16(len(cd)), ClientData: cd, Name: w.Name()})
	}
	// the chunk readers pass the size of the chunk in memory as the limit for what decoding may produce
	if ldec, lerr := msg.ApplyFiltersLimit(append([]byte{}, enc...), uint64(len(x))); len(x) > 0 && (lerr != nil || !bytes.Equal(ldec, x)) {
		if _, perr := msg.ApplyFilters(append([]byte{}, enc...)); perr == nil {
			return vt.Bad("reader decodes the chunk without a size limit but not with the chunk's own size (%d bytes) as the limit: err %v", len(x), lerr)
		}
	}
	rdec, err := msg.ApplyFilters(append([]byte{}, enc...))
	emptyShuffle := len(x) == 0 // reader refuses zero-length input for shuffle; chunks are never empty
	if err != nil {
		if !emptyShuffle {
			return vt.Bad("reader ApplyFilters failed on the writer's output (%d-byte payload): %v", len(x), err)
		}
	} else if !bytes.Equal(rdec, x) {
		return vt.Bad("reader decodes the writer's output to different bytes (len %d vs %d, first diff %d)", len(rdec), len(x), firstDiff(rdec, x))
	}

	// (b1) pipeline description round trip
	var known *vt.Verdict
	mb, err := pipe.EncodePipelineMessage()
	if err != nil {
		return vt.Bad("EncodePipelineMessage: %v", err)
	}
	pm, perr := core.ParseFilterPipelineMessage(mb)
	same := perr == nil && len(pm.Filters) == len(fs)
	if same {
		for i, w := range fs {
			_, cd := w.Encode()
			if pm.Filters[i].ID != core.FilterID(w.ID()) || len(pm.Filters[i].ClientData) != len(cd) {
				same = false
				break
			}
			for j := range cd {
				if pm.Filters[i].ClientData[j] != cd[j] {
					same = false
				}
			}
		}
	}
	if !same {
		v := vt.KnownOr(kfMsg, "pipeline message written for %v does not parse back to the same filters (err=%v)", c.Filters, perr)
		if v.Kind == vt.Violation {
			return v
		}
		known = &v
	}

	// (c) corruption of a Fletcher-32 protected chunk
	// Only when Fletcher-32 is the outermost filter does the checksum cover exactly the stored bytes; behind an
	// outer compressor an altered stream can legitimately decode to other bytes with the same (weak) checksum,
	// e.g. lzf(lzf(fletcher(""))) with one byte changed decodes to six zero bytes = payload 00 00 + checksum 0.
	if c.Corrupt && c.Filters[len(c.Filters)-1].K == "fletcher" {
		last := true
		n := len(enc)
		var positions []int
		if n <= vt.N(768, 4096) {
			for i := 0; i < n; i++ {
				positions = append(positions, i)
			}
		} else {
			s := uint32(c.CSeed)*2654435761 + 7
			for i := 0; i < vt.N(24, 96); i++ {
				s = s*1664525 + 1013904223
				positions = append(positions, int(s>>8)%n)
			}
			positions = append(positions, 0, 1, n-1, n-2, n-3, n-4, n-5)
		}
		readerSilent := 0
		for _, pos := range positions {
			for _, xr := range []byte{0x01, 0x80, 0xFF} {
				bad := append([]byte{}, enc...)
				bad[pos] ^= xr
				out, err := pipe.Remove(append([]byte{}, bad...))
				if err == nil {
					if last || !bytes.Equal(out, x) {
						return vt.Bad("writer-side Remove accepted a chunk with byte %d xor %#02x (pipeline %v, %d stored bytes) and returned %s data", pos, xr, c.Filters, n, sameOrDiff(out, x))
					}
				}
				rout, rerr := msg.ApplyFilters(append([]byte{}, bad...))
				if rerr == nil && (last || !bytes.Equal(rout, x)) {
					readerSilent++
				}
			}
		}
		// a multi-byte alteration: two adjacent bytes
		if n >= 6 {
			bad := append([]byte{}, enc...)
			p := c.CSeed % (n - 1)
			bad[p] ^= 0x5A
			bad[p+1] ^= 0xA5
			if out, err := pipe.Remove(append([]byte{}, bad...)); err == nil && (last || !bytes.Equal(out, x)) {
				return vt.Bad("writer-side Remove accepted a chunk with bytes %d,%d altered (pipeline %v)", p, p+1, c.Filters)
			}
		}
		if readerSilent > 0 {
			v := vt.KnownOr(kfFletcher, "reader ApplyFilters returned data for %d of %d single-byte corruptions of a Fletcher-32 protected chunk (pipeline %v)", readerSilent, len(positions)*3, c.Filters)
			if v.Kind == vt.Violation {
				return v
			}
			known = &v
		}
	}
	if known != nil {
		return *known
	}
	return vt.Pass()
}

func sameOrDiff(a, b []byte) string {
	if bytes.Equal(a, b) {
		return "the original"
	}
	return "different"
}

func firstDiff(a, b []byte) int {
	n := len(a)
	if len(b) < n {
		n = len(b)
	}
	for i := 0; i < n; i++ {
		if a[i] != b[i] {
			return i
		}
	}
	return n
}

// ---- end to end through the public API ---------------------------------------------------------------

type E2E struct {
	Opts  []F    `json:"opts"` // deflate(level) shuffle fletcher in option order
	N     int    `json:"n"`
	Chunk int    `json:"chunk"`
	Seed  int    `json:"seed"`
	Type  string `json:"type"` // f64 i32
}

func genE2E(t *rapid.T) E2E {
	e := E2E{N: rapid.IntRange(1, 200).Draw(t, "n"), Seed: rapid.IntRange(0, 1000).Draw(t, "seed"), Type: rapid.SampledFrom([]string{"f64", "i32"}).Draw(t, "type")}
	e.Chunk = rapid.IntRange(1, e.N).Draw(t, "chunk")
	e.Opts = rapid.SliceOfN(rapid.Custom(func(t *rapid.T) F {
		k := rapid.SampledFrom([]string{"deflate", "shuffle", "fletcher"}).Draw(t, "k")
		f := F{K: k}
		if k == "deflate" {
			f.P = rapid.IntRange(1, 9).Draw(t, "level")
		}
		return f
	}), 1, 3).Draw(t, "opts")
	return e
}

func runE2E(e E2E) vt.Verdict {
	dir := vt.GetEnv().Scratch
	p := filepath.Join(dir, fmt.Sprintf("c08-%d.h5", os.Getpid()))
	defer os.Remove(p)
	fw, err := hdf5.CreateForWrite(p, hdf5.CreateTruncate)
	if err != nil {
		return vt.Bad("CreateForWrite: %v", err)
	}
	opts := []hdf5.DatasetOption{hdf5.WithChunkDims([]uint64{uint64(e.Chunk)})}
	seen := map[string]bool{}
	for _, f := range e.Opts {
		if seen[f.K] {
			continue
		}
		seen[f.K] = true
		switch f.K {
		case "deflate":
			opts = append(opts, hdf5.WithGZIPCompression(f.P))
		case "shuffle":
			opts = append(opts, hdf5.WithShuffle())
		case "fletcher":
			opts = append(opts, hdf5.WithFletcher32())
		}
	}
	want := make([]float64, e.N)
	var wantRaw []byte
	var werr error
	var ds *hdf5.DatasetWriter
	if e.Type == "f64" {
		ds, err = fw.CreateDataset("/d", hdf5.Float64, []uint64{uint64(e.N)}, opts...)
		if err == nil {
			for i := range want {
				want[i] = math.Float64frombits(uint64(i+e.Seed)*0x9E3779B97F4A7C15>>12 | 0x3FF0000000000000)
			}
			for _, x := range want {
				wantRaw = binary.LittleEndian.AppendUint64(wantRaw, math.Float64bits(x))
			}
			werr = ds.Write(want)
		}
	} else {
		ds, err = fw.CreateDataset("/d", hdf5.Int32, []uint64{uint64(e.N)}, opts...)
		if err == nil {
			v := make([]int32, e.N)
			for i := range v {
				v[i] = int32(uint32(i+e.Seed) * 2654435761)
				want[i] = float64(v[i])
				wantRaw = binary.LittleEndian.AppendUint32(wantRaw, uint32(v[i]))
			}
			werr = ds.Write(v)
		}
	}
	if err != nil {
		_ = fw.Close()
		return vt.Bad("CreateDataset with filter options %v: %v", e.Opts, err)
	}
	if werr != nil {
		_ = fw.Close()
		return vt.Bad("Write with filter options %v: %v", e.Opts, werr)
	}
	if err := fw.Close(); err != nil {
		return vt.Bad("Close: %v", err)
	}
	// what the file holds, by the independent decoder: every stored chunk, taken at the size the chunk index records for
	// it, runs back through the recorded pipeline (checksums verified) to exactly the bytes written
	if img, err := os.ReadFile(p); err == nil {
		ref, derr := indep.Decode(img, indep.TolerateAll())
		if derr != nil && !indep.IsUnsupported(derr) {
			return vt.Bad("file with filter options %v (n %d chunk %d): independent decoder: %v", e.Opts, e.N, e.Chunk, derr)
		}
		if ref != nil && derr == nil {
			o := ref.Lookup("/d")
			if o == nil || o.Kind != "dataset" {
				return vt.Bad("file with filter options %v: independent decoder finds no dataset /d", e.Opts)
			}
			if o.RawErr != "" {
				return vt.Bad("file with filter options %v (n %d chunk %d): stored chunks do not decode: %s", e.Opts, e.N, e.Chunk, o.RawErr)
			}
			if !bytes.Equal(o.Raw, wantRaw) {
				return vt.Bad("file with filter options %v (n %d chunk %d): stored chunks decode to %d bytes that differ from the %d bytes written", e.Opts, e.N, e.Chunk, len(o.Raw), len(wantRaw))
			}
		}
	}
	f, err := hdf5.Open(p)
	if err != nil {
		return vt.KnownOr(kfMsg, "file with a filtered dataset does not open: %v", err)
	}
	defer f.Close()
	var got []float64
	var rerr error
	found := false
	f.Walk(func(path string, obj hdf5.Object) {
		if d, ok := obj.(*hdf5.Dataset); ok && path == "/d" {
			found = true
			got, rerr = d.Read()
		}
	})
	if !found {
		return vt.KnownOr(kfMsg, "filtered dataset /d missing after reopen")
	}
	if rerr != nil {
		if strings.Contains(rerr.Error(), "filter") {
			return vt.KnownOr(kfMsg, "filtered dataset written by the library cannot be read back: %v", rerr)
		}
		return vt.Bad("filtered dataset read failed in an unrecorded way: %v", rerr)
	}
	if len(got) != len(want) {
		return vt.Bad("filtered dataset read back %d values, wrote %d", len(got), len(want))
	}
	for i := range want {
		if math.Float64bits(got[i]) != math.Float64bits(want[i]) {
			return vt.Bad("filtered dataset value %d read back %v, wrote %v", i, got[i], want[i])
		}
	}
	return vt.Pass()
}

func TestProp(t *testing.T) {
	vt.Run(t, prop,
		vt.Sub[Case]{Prop: prop, Name: "pipeline", Gen: genCase, Run: run, Classify: classify}.WithBudget(2500, 30000),
		vt.Sub[PMCase]{Prop: prop, Name: "pipemsg", Gen: genPM, Run: runPM, Classify: classifyPM}.WithBudget(2000, 30000),
		vt.Sub[E2E]{Prop: prop, Name: "e2e", Gen: genE2E, Run: runE2E, Classify: func(e E2E) (bool, []string) { return len(e.Opts) >= 2, nil }}.WithBudget(300, 3000),
	)
}
