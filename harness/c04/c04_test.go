// Package c04 decides property C04: operations on one object never change another object.
package c04

import (
	"fmt"
	"os"
	"path/filepath"
	"sort"
	"strings"
	"testing"

	hdf5 "github.com/scigolib/hdf5"
	"github.com/scigolib/hdf5/verif/hist"
	"github.com/scigolib/hdf5/verif/obs"
	"github.com/scigolib/hdf5/verif/vt"
	"pgregory.net/rapid"
)

const prop = "C04"

type Case struct {
	SB  int       `json:"sb"`
	Ops []hist.Op `json:"ops"`
}

// execute runs the history and compares the reopened file with the model.
// stale: the model knows that a shrink left data of a dataset stale (C13's concern) - data then not compared.
func execute(c Case, tag string) vt.Verdict {
	file := filepath.Join(vt.GetEnv().Scratch, fmt.Sprintf("c04-%s-%d.h5", tag, os.Getpid()))
	defer os.Remove(file)
	ex, err := hist.NewExec(file, c.SB)
	if err != nil {
		return vt.Bad("CreateForWrite: %v", err)
	}
	defer ex.Close()
	ok := 0
	for i, op := range c.Ops {
		st := ex.Apply(op)
		if st.Broken != "" {
			return vt.Bad("op %d %s %s: %s", i, op.K, op.Path, st.Broken)
		}
		if st.Err == "" {
			ok++
		}
	}
	if err := ex.Close(); err != nil {
		return vt.Bad("Close: %v", err)
	}
	// datasets resized after their last write hold data C13 reasons about; here only writes made at the final
	// shape are compared, so mark others as unwritten.
	lastWrite := map[string]int{}
	lastResize := map[string]int{}
	for i, st := range ex.Steps {
		if st.Err != "" {
			continue
		}
		switch st.Op.K {
		case "write", "writeraw":
			lastWrite[st.Op.Path] = i + 1
		case "resize":
			lastResize[st.Op.Path] = i + 1
		}
	}
	for p, r := range lastResize {
		if lastWrite[p] < r {
			if o := ex.M.Resolve(p); o != nil {
				o.Written = false
			}
		}
	}
	f := obs.Read(file, obs.Options{SelSeeds: []uint64{11, 22, 33, 44}})
	ps := hist.Compare(ex.M, f, hist.Opts{RefCount: true, SkipLinks: true}) // how soft and external links read back is C03's business (KF-C03-01)
	for _, p := range ps {
		if p.Kind == "attr-value-unsigned" {
			continue // KF-C02-02 (C02's finding; attribute bytes and type are still compared)
		}
		if p.Kind == "dataset-refcount" && linkedFromDense(ex.M, p.Path) {
			continue // KF-C05-refcount (C05's finding: links held by a dense group do not count)
		}
		if (p.Kind == "child-missing" || p.Kind == "dataset-missing" || p.Kind == "group-missing" || p.Kind == "link-invisible") && underDense(ex.M, p.Path) {
			continue // KF-C03-02 (C03's finding: the reader never lists the members of a dense group)
		}
		return vt.Bad("%d problem(s) after reopen, first: %s (%d/%d ops succeeded)", len(ps), p, ok, len(c.Ops))
	}
	// the stored bytes, seen by the independent decoder: raw data of every type (also those without a typed read,
	// variable-length elements through the global heap), no overlapping structures
	if data, err := os.ReadFile(file); err == nil {
		res := hist.CompareIndep(ex.M, data)
		if res.DecodeErr != "" {
			return vt.Bad("independent decoder cannot decode the written file: %s (%d/%d ops succeeded)", res.DecodeErr, ok, len(c.Ops))
		}
		for _, e := range res.Extents {
			return vt.Bad("structure placement: %s", e)
		}
		for _, p := range res.Problems {
			if p.Kind == "indep-refcount" {
				continue
			}
			if (p.Kind == "indep-link-value" || p.Kind == "indep-link-missing") && aliasOfSymlink(c, p.Path) {
				continue // a hard link made to the path of a soft/external link is stored as a hard link to the pseudo object (KF-C03-01)
			}
			return vt.Bad("independent decoder disagrees with the model: %s (%d/%d ops succeeded)", p, ok, len(c.Ops))
		}
	}
	return vt.Pass()
}

// aliasOfSymlink: path was created by a hard-link operation whose target is the path of a soft / external link.
func aliasOfSymlink(c Case, path string) bool {
	for _, op := range c.Ops {
		if op.K == "hard" && op.Path == path && strings.HasPrefix(op.Target, "/sym") {
			return true
		}
	}
	return false
}

// linkedFromDense: the object at path is the target of a link held by a group created with CreateDenseGroup.
func linkedFromDense(m *hist.Model, path string) bool {
	o := m.Resolve(path)
	if o == nil {
		return false
	}
	for _, g := range m.Objects() {
		if g.Kind == "group" && g.Dense {
			for _, dl := range g.Links {
				if dl.Kind == "hard" && dl.Obj == o {
					return true
				}
			}
		}
	}
	return false
}

// underDense: p is (inside) a group created with CreateDenseGroup.
func underDense(m *hist.Model, p string) bool {
	for q := p; q != "" && q != "/"; q = q[:strings.LastIndex(q, "/")] {
		if o := m.Resolve(q); o != nil && o.Dense {
			return true
		}
	}
	return false
}

// ---- (i) every precedence-respecting order of the eight named operations ------------------------------------

var xSpec = &hist.DSpec{Type: "i32", Dims: []uint64{6}, Chunk: []uint64{4}, MaxDims: []uint64{hdf5.Unlimited}}
var ySpec = &hist.DSpec{Type: "f64", Dims: []uint64{5}}

func namedOps() []hist.Op {
	return []hist.Op{
		{K: "dataset", Path: "/x", D: xSpec},                                                // 0 create X
		{K: "dataset", Path: "/y", D: ySpec},                                                // 1 create Y
		{K: "write", Path: "/x", Seed: 11, Mode: hist.ModeSeq},                              // 2 write X
		{K: "write", Path: "/y", Seed: 22, Mode: hist.ModeSeq},                              // 3 write Y
		{K: "attr", Path: "/x", Name: "ax", A: &hist.AttrVal{Kind: "str", N: 20, Seed: 1}},  // 4 attribute on X
		{K: "attr", Path: "/y", Name: "ay", A: &hist.AttrVal{Kind: "[]f64", N: 5, Seed: 2}}, // 5 attribute on Y
		{K: "hard", Path: "/lx", Target: "/x"},                                              // 6 hard link to X
		{K: "resize", Path: "/x", Dims: []uint64{9}},                                        // 7 resize X
	}
}

// orders enumerates all permutations of 0..7 in which 0 precedes 2,4,6,7 and 1 precedes 3,5 (2688 orders).
func orders() [][]int {
	var out [][]int
	perm := make([]int, 0, 8)
	used := make([]bool, 8)
	var rec func()
	rec = func() {
		if len(perm) == 8 {
			out = append(out, append([]int{}, perm...))
			return
		}
		for i := 0; i < 8; i++ {
			if used[i] {
				continue
			}
			if (i == 2 || i == 4 || i == 6 || i == 7) && !used[0] {
				continue
			}
			if (i == 3 || i == 5) && !used[1] {
				continue
			}
			used[i] = true
			perm = append(perm, i)
			rec()
			perm = perm[:len(perm)-1]
			used[i] = false
		}
	}
	rec()
	return out
}

type OrderCase struct {
	SB    int   `json:"sb"`
	Order []int `json:"order"`
	Extra bool  `json:"extra"` // follow with a second round of attribute/write ops on both objects
}

func runOrder(oc OrderCase) vt.Verdict {
	base := namedOps()
	var ops []hist.Op
	for _, i := range oc.Order {
		if i < 0 || i >= len(base) {
			return vt.Skipped("bad index")
		}
		ops = append(ops, base[i])
	}
	// after a resize the old write no longer covers the extent: rewrite X at the end so data is comparable
	ops = append(ops, hist.Op{K: "write", Path: "/x", Seed: 33, Mode: hist.ModeSeq})
	if oc.Extra {
		ops = append(ops,
			hist.Op{K: "attr", Path: "/y", Name: "ay", A: &hist.AttrVal{Kind: "str", N: 60, Seed: 3}},
			hist.Op{K: "attr", Path: "/x", Name: "ax2", A: &hist.AttrVal{Kind: "i64", Seed: 4}},
			hist.Op{K: "dataset", Path: "/z", D: &hist.DSpec{Type: "u8", Dims: []uint64{3}}},
			hist.Op{K: "write", Path: "/z", Seed: 5},
			hist.Op{K: "delattr", Path: "/x", Name: "ax"},
			hist.Op{K: "write", Path: "/y", Seed: 44, Mode: hist.ModeSeq})
	}
	return execute(Case{SB: oc.SB, Ops: ops}, "o")
}

func ordersBody(t *testing.T) {
	e := vt.GetEnv()
	rec := vt.Recorder(prop)
	all := orders()
	// thorough: every order x superblock {0,2,3} x extra {false,true}; quick: a seed-rotated sample of the orders
	step := 1
	if !vt.Thorough() {
		step = 9
	}
	start := int(e.Seed) % step
	var n int64
	for i := start + e.Shard*step; i < len(all); i += step * e.NShards {
		for _, sb := range []int{2, 0, 3} {
			for _, extra := range []bool{false, true} {
				if !vt.Thorough() && (sb != 2) == extra { // quick: half of the variants
					continue
				}
				oc := OrderCase{SB: sb, Order: all[i], Extra: extra}
				n++
				if v := vt.SafeRun(runOrder, oc); v.Kind == vt.Violation {
					p := vt.ReportViolation(prop, "orders", oc, v.Detail)
					t.Errorf("order %v sb=%d extra=%v: %s (replay %s)", all[i], sb, extra, v.Detail, p)
					if t.Failed() && n > 0 {
						rec.Bulk("orders", n, n, nil)
						return
					}
				}
			}
		}
	}
	rec.Bulk("orders", n, n, nil)
	rec.SetExhaustive("orders", vt.Thorough())
	rec.Sample("orders", OrderCase{SB: 2, Order: all[len(all)/2], Extra: true})
	rec.Note("%d precedence-respecting orders of the eight named operations exist; this shard ran %d (order, superblock, extra) cases", len(all), n)
}

// ---- (ii) random histories over 2..6 live objects ----------------------------------------------------------------

func gen(t *rapid.T) Case {
	c := Case{SB: rapid.SampledFrom([]int{2, 2, 0, 3}).Draw(t, "sb")}
	type objInfo struct {
		path      string
		kind      string
		resizable bool
		rank      int
		spec      *hist.DSpec
		dense     bool
	}
	var objs []objInfo
	nobj := rapid.IntRange(2, 6).Draw(t, "nobj")
	attrNames := []string{"a", "b", "units", "long_attribute_name_0123456789", "c", "d", "e", "f", "g", "h", "i", "j"}
	newObj := func(i int) hist.Op {
		p := fmt.Sprintf("/o%d", i)
		// one new object in five lives inside an existing group and carries the leaf name of an object of the root group:
		// "/o1" and "/o3/o1" are different objects
		if i >= 2 && rapid.IntRange(0, 4).Draw(t, "nested") == 0 {
			for _, g := range objs {
				if g.kind == "group" && !g.dense {
					p = fmt.Sprintf("%s/o%d", g.path, rapid.IntRange(0, i-1).Draw(t, "leaf"))
					break
				}
			}
			for _, o := range objs {
				if o.path == p {
					p = fmt.Sprintf("/o%d", i) // that name is taken in the group as well
				}
			}
		}
		switch rapid.IntRange(0, 9).Draw(t, "isGroup") {
		case 0, 1:
			objs = append(objs, objInfo{path: p, kind: "group"})
			return hist.Op{K: "group", Path: p}
		case 2:
			// a new-style group with one or two members (the library's reader cannot list dense members: C03's open finding,
			// ignored below); it is an object like any other for links, attributes and whatever is allocated behind it
			var links [][2]string
			for _, o := range objs {
				if o.kind == "dataset" && len(links) < 2 {
					links = append(links, [2]string{fmt.Sprintf("m%d", len(links)), o.path})
				}
			}
			if len(links) > 0 { // the library refuses a dense group without links
				objs = append(objs, objInfo{path: p, kind: "group", dense: true})
				return hist.Op{K: "densegroup", Path: p, Links: links}
			}
			objs = append(objs, objInfo{path: p, kind: "group"})
			return hist.Op{K: "group", Path: p}
		}
		d := &hist.DSpec{Type: rapid.SampledFrom([]string{"i32", "f64", "u8", "i16", "f32", "u64", "str", "cmp:num", "vl:str", "vl:i32", "vl:u32", "vl:f64", "vl:u64"}).Draw(t, "type")}
		if d.Type == "str" {
			d.StrSize = 5
		}
		rank := rapid.SampledFrom([]int{1, 1, 2}).Draw(t, "rank")
		for k := 0; k < rank; k++ {
			d.Dims = append(d.Dims, uint64(rapid.IntRange(1, 9).Draw(t, "extent")))
		}
		info := objInfo{path: p, kind: "dataset", rank: rank}
		if rapid.Bool().Draw(t, "chunked") {
			for _, e := range d.Dims {
				d.Chunk = append(d.Chunk, uint64(rapid.IntRange(1, int(e)).Draw(t, "chunk")))
			}
			if rapid.Bool().Draw(t, "resizable") {
				for range d.Dims {
					d.MaxDims = append(d.MaxDims, hdf5.Unlimited)
				}
				info.resizable = true
			}
			if k, _ := d.Base(); k == "num" && rapid.IntRange(0, 3).Draw(t, "filtered") == 0 {
				d.Filters = rapid.SampledFrom([][]string{{"shuffle"}, {"shuffle", "gzip:6"}, {"gzip:1"}, {"fletcher"}, {"shuffle", "fletcher"}}).Draw(t, "filters")
			}
		}
		// one dataset in three is created from the very same dims/chunk/maxdims slice objects as an earlier dataset
		// (callers commonly reuse a dims variable): the writer must not keep and modify the caller's slices
		alias := ""
		if rapid.IntRange(0, 2).Draw(t, "alias") == 0 {
			for j := len(objs) - 1; j >= 0; j-- {
				if objs[j].kind == "dataset" && objs[j].spec != nil && objs[j].spec.Type != "str" && d.Type != "str" {
					src := objs[j].spec
					d.Dims, d.Chunk, d.MaxDims = append([]uint64{}, src.Dims...), append([]uint64(nil), src.Chunk...), append([]uint64(nil), src.MaxDims...)
					info.rank, info.resizable = len(d.Dims), src.MaxDims != nil
					alias = objs[j].path
					break
				}
			}
		}
		info.spec = d
		objs = append(objs, info)
		return hist.Op{K: "dataset", Path: p, D: d, Alias: alias}
	}
	c.Ops = append(c.Ops, newObj(0), newObj(1))
	if rapid.IntRange(0, 11).Draw(t, "crowded") == 0 {
		// a crowded group: the 32-entry symbol table node and the 256-byte name heap of a group fill up; what is refused
		// or accepted at that boundary must leave the members that exist alone
		nobj = rapid.IntRange(30, 36).Draw(t, "nobjCrowded")
		for len(objs) < nobj-2 {
			i := len(objs)
			p := fmt.Sprintf("/o%d", i)
			d := &hist.DSpec{Type: "i32", Dims: []uint64{1}}
			objs = append(objs, objInfo{path: p, kind: "dataset", rank: 1, spec: d})
			c.Ops = append(c.Ops, hist.Op{K: "dataset", Path: p, D: d}, hist.Op{K: "write", Path: p, Seed: i, Mode: 1})
		}
	}
	n := rapid.IntRange(3, vt.N(40, 120)).Draw(t, "nops")
	links := 0
	var symlinks []string
	withReopen := rapid.IntRange(0, 4).Draw(t, "withReopen") == 0
	reopenAt := rapid.IntRange(1, n).Draw(t, "reopenAt")
	for i := 0; i < n; i++ {
		o := objs[rapid.IntRange(0, len(objs)-1).Draw(t, "obj")]
		k := rapid.SampledFrom([]string{"write", "write", "attr", "attr", "attr", "delattr", "resize", "hard", "new", "symlink"}).Draw(t, "k")
		if withReopen && i == reopenAt {
			c.Ops = append(c.Ops, hist.Op{K: "reopen"}) // a session boundary: close, OpenForWrite, handles via OpenDataset
		}
		switch {
		case k == "new":
			if len(objs) < nobj {
				c.Ops = append(c.Ops, newObj(len(objs)))
			}
		case k == "symlink":
			// a soft or external link (the library stores either as a small object of its own, between the others)
			symlinks = append(symlinks, fmt.Sprintf("/sym%d", len(symlinks)))
			sp := symlinks[len(symlinks)-1]
			if rapid.Bool().Draw(t, "external") {
				c.Ops = append(c.Ops, hist.Op{K: "ext", Path: sp, Target: o.path, File: "other.h5"})
			} else {
				c.Ops = append(c.Ops, hist.Op{K: "soft", Path: sp, Target: o.path})
			}
		case k == "hard":
			links++
			tgt := o.path
			if rapid.IntRange(0, 11).Draw(t, "toRoot") == 0 {
				tgt = "/" // the root group itself: refused, and nothing else may change
			} else if len(symlinks) > 0 && rapid.IntRange(0, 3).Draw(t, "toSymlink") == 0 {
				// the path of a soft / external link as the target: whatever the library makes of it (open finding
				// KF-C03-01), the objects stored around the link stay as they are
				tgt = symlinks[rapid.IntRange(0, len(symlinks)-1).Draw(t, "symlink")]
			}
			c.Ops = append(c.Ops, hist.Op{K: "hard", Path: fmt.Sprintf("/link%d", links), Target: tgt})
		case k == "attr":
			a := &hist.AttrVal{Kind: rapid.SampledFrom([]string{"i32", "f64", "str", "str", "[]f64", "u8", "i64", "[]i32"}).Draw(t, "akind"), Seed: rapid.IntRange(0, 9999).Draw(t, "aseed")}
			if a.Kind == "str" {
				a.N = rapid.IntRange(0, 80).Draw(t, "alen")
			} else if strings.HasPrefix(a.Kind, "[]") {
				a.N = rapid.IntRange(1, 12).Draw(t, "alen")
			}
			c.Ops = append(c.Ops, hist.Op{K: "attr", Path: o.path, Name: rapid.SampledFrom(attrNames).Draw(t, "aname"), A: a})
		case o.kind == "group":
			// remaining kinds need a dataset
		case k == "delattr":
			c.Ops = append(c.Ops, hist.Op{K: "delattr", Path: o.path, Name: rapid.SampledFrom(attrNames).Draw(t, "aname")})
		case k == "write":
			c.Ops = append(c.Ops, hist.Op{K: "write", Path: o.path, Seed: rapid.IntRange(0, 9999).Draw(t, "wseed"), Mode: rapid.IntRange(0, 1).Draw(t, "wmode")})
		case k == "resize" && o.resizable:
			var dims []uint64
			for r := 0; r < o.rank; r++ {
				dims = append(dims, uint64(rapid.IntRange(1, 12).Draw(t, "newExtent")))
			}
			// a resize is followed by a full write so that data stays comparable (resize semantics are C13's)
			c.Ops = append(c.Ops, hist.Op{K: "resize", Path: o.path, Dims: dims}, hist.Op{K: "write", Path: o.path, Seed: rapid.IntRange(0, 9999).Draw(t, "wseed"), Mode: 1})
		}
	}
	return c
}

func classify(c Case) (bool, []string) {
	created := []string{}
	withData := map[string]bool{}
	growthOnNonLast, resizes, links := 0, 0, 0
	for _, op := range c.Ops {
		switch op.K {
		case "dataset", "group", "densegroup":
			created = append(created, op.Path)
		case "write":
			withData[op.Path] = true
		case "attr", "hard", "resize":
			tgt := op.Path
			if op.K == "hard" {
				tgt = op.Target
				links++
			}
			if op.K == "resize" {
				resizes++
			}
			if len(created) > 0 && created[len(created)-1] != tgt {
				growthOnNonLast++
			}
		}
	}
	labels := []string{fmt.Sprintf("objects=%d", len(created)), fmt.Sprintf("sb=%d", c.SB)}
	if growthOnNonLast > 0 {
		labels = append(labels, "header_growth_on_non_last_object")
	}
	if resizes > 0 {
		labels = append(labels, "has_resize")
	}
	if links > 0 {
		labels = append(labels, "has_hardlink")
	}
	for _, op := range c.Ops {
		if op.K == "hard" && strings.HasPrefix(op.Target, "/sym") {
			labels = append(labels, "hardlink_to_symlink_path")
			break
		}
	}
	keys := make([]string, 0)
	for k := range withData {
		keys = append(keys, k)
	}
	sort.Strings(keys)
	return growthOnNonLast > 0 || len(keys) >= 2, labels
}

func run(c Case) vt.Verdict { return execute(c, "h") }

func TestProp(t *testing.T) {
	vt.Run(t, prop,
		vt.Func[OrderCase]{Name: "orders", Body: ordersBody, One: runOrder},
		vt.Sub[Case]{Prop: prop, Name: "history", Gen: gen, Run: run, Classify: classify}.WithBudget(4000, 15000),
	)
}
