// Package c05 decides property C05: written files are well-formed (in bounds, disjoint, consistent) and
// decodable by an independent spec-based decoder that recovers the same tree and values.
package c05

import (
	"fmt"
	"os"
	"path/filepath"
	"sort"
	"strings"
	"testing"

	hdf5 "github.com/scigolib/hdf5"
	"github.com/scigolib/hdf5/verif/hist"
	"github.com/scigolib/hdf5/verif/indep"
	"github.com/scigolib/hdf5/verif/vt"
	"pgregory.net/rapid"
)

const prop = "C05"
const (
	kfRefCount  = "KF-C05-refcount"
	kfHeapOver  = "KF-C05-attr-heap-overflow"
	kfShrink    = "KF-C05-stale-chunks"
	kfDevPrefix = "KF-C05-dev-"
)

type Case struct {
	SB  int       `json:"sb"`
	Ops []hist.Op `json:"ops"`
}

var numTypes = []string{"i8", "i16", "i32", "i64", "u8", "u16", "u32", "u64", "f32", "f64"}

func genSpec(t *rapid.T) *hist.DSpec {
	d := &hist.DSpec{}
	switch kind := rapid.SampledFrom([]string{"num", "num", "num", "str", "arr", "enum", "objref", "regref", "opaque", "cmp", "vl"}).Draw(t, "kind"); kind {
	case "num":
		d.Type = rapid.SampledFrom(numTypes).Draw(t, "type")
	case "str":
		d.Type, d.StrSize = "str", rapid.SampledFrom([]int{1, 3, 8, 17}).Draw(t, "strsize")
	case "arr":
		d.Type = "arr:" + rapid.SampledFrom(numTypes).Draw(t, "base")
		d.ArrDims = rapid.SliceOfN(rapid.SampledFrom([]uint64{1, 2, 3}), 1, 2).Draw(t, "arrdims")
	case "enum":
		d.Type, d.EnumN = "enum:"+rapid.SampledFrom(numTypes[:8]).Draw(t, "base"), rapid.IntRange(1, 5).Draw(t, "enum_n")
	case "opaque":
		d.Type, d.OpaqueLen, d.OpaqueTag = "opaque", rapid.SampledFrom([]int{1, 5, 8}).Draw(t, "olen"), rapid.SampledFrom([]string{"t", "opaque tag"}).Draw(t, "otag")
	case "cmp":
		d.Type = rapid.SampledFrom([]string{"cmp:num", "cmp:str"}).Draw(t, "cmp")
	case "vl":
		d.Type = rapid.SampledFrom([]string{"vl:str", "vl:i32"}).Draw(t, "vl")
	default:
		d.Type = kind
	}
	rank := rapid.SampledFrom([]int{1, 1, 2, 3}).Draw(t, "rank")
	for i := 0; i < rank; i++ {
		d.Dims = append(d.Dims, uint64(rapid.IntRange(1, []int{40, 9, 5}[rank-1]).Draw(t, "extent")))
	}
	if rapid.IntRange(0, 2).Draw(t, "chunked") > 0 {
		for _, e := range d.Dims {
			d.Chunk = append(d.Chunk, uint64(rapid.IntRange(1, int(e)).Draw(t, "chunk")))
		}
		if rapid.Bool().Draw(t, "resizable") {
			for range d.Dims {
				d.MaxDims = append(d.MaxDims, hdf5.Unlimited)
			}
		}
		// filtered chunks: the library's own reader cannot read them back (KF-C08-01) but the stored bytes must still be
		// well-formed for an independent decoder (deflate stream, shuffle, Fletcher-32 of every chunk)
		if k, _ := d.Base(); k != "cmp" && k != "vl" && rapid.IntRange(0, 3).Draw(t, "filtered") == 0 {
			d.Filters = rapid.SliceOfNDistinct(rapid.SampledFrom([]string{"gzip:1", "gzip:6", "gzip:9", "shuffle", "fletcher"}), 1, 3, func(s string) string { return s[:3] }).Draw(t, "filters")
		}
	}
	return d
}

func gen(t *rapid.T) Case {
	c := Case{SB: rapid.SampledFrom([]int{2, 2, 0, 3}).Draw(t, "sb")}
	type info struct {
		path, kind string
		d          *hist.DSpec
	}
	objs := []info{}
	groups := []string{"/"}
	n := rapid.IntRange(1, vt.N(40, 120)).Draw(t, "nops")
	names := []string{"a", "b", "c", "units", "twelve_chars", "a_rather_long_attribute_name_to_fill_space", "d", "e", "f", "g", "h", "i", "j", "k"}
	links := 0
	withSoft := rapid.IntRange(0, 2).Draw(t, "withSoftExtDense") == 0
	for i := 0; i < n; i++ {
		k := rapid.SampledFrom([]string{"dataset", "dataset", "group", "write", "write", "attr", "attr", "attr", "attr", "delattr", "resize", "hard", "soft", "ext", "dense"}).Draw(t, "k")
		if len(objs) == 0 && k != "group" {
			k = "dataset"
		}
		parent := groups[rapid.IntRange(0, len(groups)-1).Draw(t, "parent")]
		join := func(name string) string {
			if parent == "/" {
				return "/" + name
			}
			return parent + "/" + name
		}
		switch k {
		case "dataset":
			d := genSpec(t)
			p := join(fmt.Sprintf("d%d", i))
			objs = append(objs, info{p, "dataset", d})
			c.Ops = append(c.Ops, hist.Op{K: "dataset", Path: p, D: d})
			if rapid.IntRange(0, 3).Draw(t, "writeNow") > 0 {
				c.Ops = append(c.Ops, hist.Op{K: "write", Path: p, Seed: rapid.IntRange(0, 9999).Draw(t, "seed"), Mode: rapid.IntRange(0, 1).Draw(t, "mode")})
			}
		case "group":
			p := join(fmt.Sprintf("g%d", i))
			if strings.Count(p, "/") <= 4 {
				groups = append(groups, p)
			}
			objs = append(objs, info{p, "group", nil})
			c.Ops = append(c.Ops, hist.Op{K: "group", Path: p})
		default:
			o := objs[rapid.IntRange(0, len(objs)-1).Draw(t, "obj")]
			switch k {
			case "write":
				if o.kind == "dataset" {
					c.Ops = append(c.Ops, hist.Op{K: "write", Path: o.path, Seed: rapid.IntRange(0, 9999).Draw(t, "seed"), Mode: rapid.IntRange(0, 1).Draw(t, "mode")})
				}
			case "attr":
				a := &hist.AttrVal{Kind: rapid.SampledFrom([]string{"i8", "i16", "i32", "i64", "u8", "u16", "u32", "u64", "f32", "f64", "str", "str", "[]i32", "[]i64", "[]f32", "[]f64"}).Draw(t, "akind"), Seed: rapid.IntRange(0, 9999).Draw(t, "aseed")}
				if a.Kind == "str" {
					a.N = rapid.OneOf(rapid.IntRange(0, 20), rapid.IntRange(0, 200)).Draw(t, "alen")
				} else if strings.HasPrefix(a.Kind, "[]") {
					a.N = rapid.IntRange(1, 20).Draw(t, "alen")
				}
				c.Ops = append(c.Ops, hist.Op{K: "attr", Path: o.path, Name: rapid.SampledFrom(names).Draw(t, "aname"), A: a})
			case "delattr":
				if o.kind == "dataset" {
					c.Ops = append(c.Ops, hist.Op{K: "delattr", Path: o.path, Name: rapid.SampledFrom(names).Draw(t, "aname")})
				}
			case "resize":
				if o.kind == "dataset" && o.d.MaxDims != nil {
					var dims []uint64
					for range o.d.Dims {
						dims = append(dims, uint64(rapid.IntRange(1, 12).Draw(t, "newExtent")))
					}
					c.Ops = append(c.Ops, hist.Op{K: "resize", Path: o.path, Dims: dims})
					if rapid.Bool().Draw(t, "rewrite") {
						c.Ops = append(c.Ops, hist.Op{K: "write", Path: o.path, Seed: rapid.IntRange(0, 9999).Draw(t, "seed"), Mode: 1})
					}
				}
			case "hard":
				links++
				c.Ops = append(c.Ops, hist.Op{K: "hard", Path: join(fmt.Sprintf("hl%d", links)), Target: o.path})
			case "soft":
				if withSoft {
					links++
					c.Ops = append(c.Ops, hist.Op{K: "soft", Path: join(fmt.Sprintf("sl%d", links)), Target: o.path})
				}
			case "ext":
				if withSoft {
					links++
					c.Ops = append(c.Ops, hist.Op{K: "ext", Path: join(fmt.Sprintf("el%d", links)), File: "other.h5", Target: "/x/y"})
				}
			case "dense":
				if withSoft {
					links++
					var ls [][2]string
					nl, pad := rapid.IntRange(0, 12).Draw(t, "nlinks"), ""
					if rapid.IntRange(0, 11).Draw(t, "bigdense") == 0 {
						// link messages beyond 64 KiB in total: heap offsets above 65535 in the group's 512 KiB heap block
						nl, pad = rapid.IntRange(240, 320).Draw(t, "nlinksBig"), strings.Repeat("n", rapid.IntRange(200, 250).Draw(t, "pad"))
					}
					tgt0 := rapid.IntRange(0, len(objs)-1).Draw(t, "tgt")
					var dsets []info
					for j := 0; j < nl; j++ {
						tg := objs[(tgt0+j)%len(objs)]
						if pad != "" && tg.kind != "dataset" {
							// hundreds of links to groups multiply the number of paths without adding anything
							if dsets == nil {
								for _, o := range objs {
									if o.kind == "dataset" {
										dsets = append(dsets, o)
									}
								}
							}
							if len(dsets) == 0 {
								break
							}
							tg = dsets[(tgt0+j)%len(dsets)]
						}
						ls = append(ls, [2]string{fmt.Sprintf("l%d%s", j, pad), tg.path})
					}
					dgp := join(fmt.Sprintf("dg%d", links))
					c.Ops = append(c.Ops, hist.Op{K: "densegroup", Path: dgp, Links: ls})
					objs = append(objs, info{dgp, "densegroup", nil}) // usable as a link / attribute target
				}
			}
		}
	}
	return c
}

func classify(c Case) (bool, []string) {
	kinds := map[string]int{}
	attrsPer := map[string]int{}
	chunked, vl := false, false
	for _, op := range c.Ops {
		kinds[op.K]++
		if op.K == "attr" {
			attrsPer[op.Path]++
		}
		if op.K == "dataset" && op.D.Chunk != nil {
			chunked = true
		}
	}
	dense := false
	for _, n := range attrsPer {
		if n > 8 {
			dense = true
		}
	}
	labels := []string{fmt.Sprintf("sb=%d", c.SB)}
	if dense {
		labels = append(labels, "maybe_dense_attrs")
	}
	if chunked {
		labels = append(labels, "chunk_index")
	}
	if kinds["hard"]+kinds["soft"]+kinds["ext"]+kinds["densegroup"] > 0 {
		labels = append(labels, "links")
	}
	if kinds["resize"] > 0 {
		labels = append(labels, "resize")
	}
	_ = vl
	distinctKinds := 0
	for _, k := range []string{"dataset", "group", "attr", "hard", "soft", "ext", "densegroup", "resize"} {
		if kinds[k] > 0 {
			distinctKinds++
		}
	}
	return distinctKinds >= 3 || dense || chunked, labels
}

func run(c Case) vt.Verdict {
	file := filepath.Join(vt.GetEnv().Scratch, fmt.Sprintf("c05-%d.h5", os.Getpid()))
	defer os.Remove(file)
	ex, err := hist.NewExec(file, c.SB)
	if err != nil {
		return vt.Bad("CreateForWrite: %v", err)
	}
	defer ex.Close()
	shrunkAfterWrite := map[int]bool{} // by model object id (an object may be reached through several paths)
	written := map[int]bool{}
	idOf := func(p string) int {
		if o := ex.M.Resolve(p); o != nil {
			return o.ID
		}
		return -1
	}
	for i, op := range c.Ops {
		var before []uint64
		if op.K == "resize" {
			if o := ex.M.Resolve(op.Path); o != nil {
				before = append(before, o.Dims...)
			}
		}
		st := ex.Apply(op)
		if st.Broken != "" {
			return vt.Bad("op %d %s %s: %s", i, op.K, op.Path, st.Broken)
		}
		if st.Err != "" {
			continue
		}
		switch op.K {
		case "write", "writeraw":
			written[idOf(op.Path)] = true
			shrunkAfterWrite[idOf(op.Path)] = false
		case "resize":
			for d := range before {
				if d < len(op.Dims) && op.Dims[d] < before[d] && written[idOf(op.Path)] {
					shrunkAfterWrite[idOf(op.Path)] = true
				}
			}
		}
	}
	if err := ex.Close(); err != nil {
		return vt.Bad("Close: %v", err)
	}
	data, err := os.ReadFile(file)
	if err != nil {
		return vt.Bad("read back: %v", err)
	}
	// data of a dataset whose last shrink was not followed by a full write: stale chunks (C13's open finding)
	stale := map[int]bool{}
	for id, s := range shrunkAfterWrite {
		if s {
			stale[id] = true
		}
	}
	res := hist.CompareIndep(ex.M, data)
	rec := vt.Recorder(prop)
	var known *vt.Verdict
	note := func(v vt.Verdict) *vt.Verdict {
		if v.Kind == vt.Violation {
			return &v
		}
		rec.KnownHit(v.ID, v.Detail, nil)
		known = &v
		return nil
	}
	if res.DecodeErr != "" {
		switch {
		case strings.Contains(res.DecodeErr, "fractal heap indirect block"):
			if v := note(vt.KnownOr(kfHeapOver, "independent decoder: %s", res.DecodeErr)); v != nil {
				return *v
			}
			return *known
		case len(stale) > 0 && strings.Contains(res.DecodeErr, "chunk"):
			if v := note(vt.KnownOr(kfShrink, "independent decoder: %s", res.DecodeErr)); v != nil {
				return *v
			}
			return *known
		}
		return vt.Bad("the written file is not decodable by the independent spec-based decoder: %s", res.DecodeErr)
	}
	for _, e := range res.Extents {
		return vt.Bad("structure placement: %s", e)
	}
	for _, p := range res.Problems {
		switch {
		case p.Kind == "indep-refcount" && linkedFromDense(ex.M, p.Path):
			if v := note(vt.KnownOr(kfRefCount, "%s", p)); v != nil {
				return *v
			}
		case stale[idOf(p.Path)] && (p.Kind == "indep-raw" || p.Kind == "indep-raw-error"):
			if v := note(vt.KnownOr(kfShrink, "%s", p)); v != nil {
				return *v
			}
		default:
			return vt.Bad("%d disagreement(s) between the stored file and the model, first: %s", len(res.Problems), p)
		}
	}
	devs := make([]string, 0, len(res.Deviations))
	for d := range res.Deviations {
		devs = append(devs, d)
	}
	sort.Strings(devs)
	for _, d := range devs {
		if !vt.IsOpen(kfDevPrefix + d) {
			return vt.Bad("the file needs spec deviation %q (x%d) that is not a listed finding", d, res.Deviations[d])
		}
		rec.KnownHit(kfDevPrefix+d, "spec deviation "+d, nil)
	}
	if known != nil {
		return *known
	}
	return vt.Pass()
}

// linkedFromDense: the object at path is the target of a link held by a group created with CreateDenseGroup
// (such links never increment the target's reference count).
func linkedFromDense(m *hist.Model, path string) bool {
	o := m.Resolve(path)
	if o == nil {
		return false
	}
	for _, g := range m.Objects() {
		if g.Kind == "group" && g.Dense {
			for _, dl := range g.Links {
				if dl.Kind == "hard" && dl.Obj == o {
					return true
				}
			}
		}
	}
	return false
}

func TestProp(t *testing.T) {
	_ = indep.KnownDeviations
	vt.Run(t, prop, vt.Sub[Case]{Prop: prop, Name: "files", Gen: gen, Run: run, Classify: classify}.WithBudget(1200, 15000))
}
