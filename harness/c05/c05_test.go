// Package c05 decides property C05: written files are well-formed (in bounds, disjoint, consistent) and
// decodable by an independent spec-based decoder that recovers the same tree and values.
package c05

import (
	"fmt"
	hdf5 "github.com/scigolib/hdf5"
	"os"
	"path/filepath"
	"sort"
	"strings"
	"testing"

	hgen "github.com/scigolib/hdf5/verif/gen"
	"github.com/scigolib/hdf5/verif/hist"
	"github.com/scigolib/hdf5/verif/indep"
	"github.com/scigolib/hdf5/verif/vt"
	"pgregory.net/rapid"
)

const prop = "C05"
const (
	kfRefCount  = "KF-C05-refcount"
	kfHeapOver  = "KF-C05-attr-heap-overflow"
	kfShrink    = "KF-C05-stale-chunks"
	kfDevPrefix = "KF-C05-dev-"
)

type Case struct {
	SB  int       `json:"sb"`
	Ops []hist.Op `json:"ops"`
}

func gen(t *rapid.T) Case {
	sb, ops := hgen.Mixed(t, vt.N(40, 120))
	return Case{SB: sb, Ops: ops}
}

func classify(c Case) (bool, []string) {
	kinds := map[string]int{}
	attrsPer := map[string]int{}
	chunked, vl := false, false
	for _, op := range c.Ops {
		kinds[op.K]++
		if op.K == "attr" {
			attrsPer[op.Path]++
		}
		if op.K == "dataset" && op.D.Chunk != nil {
			chunked = true
		}
	}
	dense := false
	for _, n := range attrsPer {
		if n > 8 {
			dense = true
		}
	}
	labels := []string{fmt.Sprintf("sb=%d", c.SB)}
	if dense {
		labels = append(labels, "maybe_dense_attrs")
	}
	if chunked {
		labels = append(labels, "chunk_index")
	}
	if kinds["hard"]+kinds["soft"]+kinds["ext"]+kinds["densegroup"] > 0 {
		labels = append(labels, "links")
	}
	if kinds["resize"] > 0 {
		labels = append(labels, "resize")
	}
	_ = vl
	distinctKinds := 0
	for _, k := range []string{"dataset", "group", "attr", "hard", "soft", "ext", "densegroup", "resize"} {
		if kinds[k] > 0 {
			distinctKinds++
		}
	}
	return distinctKinds >= 3 || dense || chunked, labels
}

func run(c Case) vt.Verdict {
	file := filepath.Join(vt.GetEnv().Scratch, fmt.Sprintf("c05-%d.h5", os.Getpid()))
	defer os.Remove(file)
	ex, err := hist.NewExec(file, c.SB)
	if err != nil {
		return vt.Bad("CreateForWrite: %v", err)
	}
	defer ex.Close()
	shrunkAfterWrite := map[int]bool{} // by model object id (an object may be reached through several paths)
	written := map[int]bool{}
	idOf := func(p string) int {
		if o := ex.M.Resolve(p); o != nil {
			return o.ID
		}
		return -1
	}
	for i, op := range c.Ops {
		var before []uint64
		if op.K == "resize" {
			if o := ex.M.Resolve(op.Path); o != nil {
				before = append(before, o.Dims...)
			}
		}
		st := ex.Apply(op)
		if st.Broken != "" {
			return vt.Bad("op %d %s %s: %s", i, op.K, op.Path, st.Broken)
		}
		if st.Err != "" {
			continue
		}
		switch op.K {
		case "write", "writeraw":
			written[idOf(op.Path)] = true
			shrunkAfterWrite[idOf(op.Path)] = false
		case "resize":
			for d := range before {
				if d < len(op.Dims) && op.Dims[d] < before[d] && written[idOf(op.Path)] {
					shrunkAfterWrite[idOf(op.Path)] = true
				}
			}
		}
	}
	if err := ex.Close(); err != nil {
		return vt.Bad("Close: %v", err)
	}
	data, err := os.ReadFile(file)
	if err != nil {
		return vt.Bad("read back: %v", err)
	}
	// data of a dataset whose last shrink was not followed by a full write: stale chunks (C13's open finding)
	stale := map[int]bool{}
	for id, s := range shrunkAfterWrite {
		if s {
			stale[id] = true
		}
	}
	res := hist.CompareIndep(ex.M, data)
	rec := vt.Recorder(prop)
	var known *vt.Verdict
	note := func(v vt.Verdict) *vt.Verdict {
		if v.Kind == vt.Violation {
			return &v
		}
		rec.KnownHit(v.ID, v.Detail, nil)
		known = &v
		return nil
	}
	if res.DecodeErr != "" {
		switch {
		case strings.Contains(res.DecodeErr, "fractal heap indirect block"):
			if v := note(vt.KnownOr(kfHeapOver, "independent decoder: %s", res.DecodeErr)); v != nil {
				return *v
			}
			return *known
		case len(stale) > 0 && strings.Contains(res.DecodeErr, "chunk"):
			if v := note(vt.KnownOr(kfShrink, "independent decoder: %s", res.DecodeErr)); v != nil {
				return *v
			}
			return *known
		}
		return vt.Bad("the written file is not decodable by the independent spec-based decoder: %s", res.DecodeErr)
	}
	for _, e := range res.Extents {
		return vt.Bad("structure placement: %s", e)
	}
	for _, p := range res.Problems {
		switch {
		case p.Kind == "indep-refcount" && linkedFromDense(ex.M, p.Path):
			if v := note(vt.KnownOr(kfRefCount, "%s", p)); v != nil {
				return *v
			}
		case stale[idOf(p.Path)] && (p.Kind == "indep-raw" || p.Kind == "indep-raw-error"):
			if v := note(vt.KnownOr(kfShrink, "%s", p)); v != nil {
				return *v
			}
		default:
			return vt.Bad("%d disagreement(s) between the stored file and the model, first: %s", len(res.Problems), p)
		}
	}
	devs := make([]string, 0, len(res.Deviations))
	for d := range res.Deviations {
		devs = append(devs, d)
	}
	sort.Strings(devs)
	for _, d := range devs {
		if !vt.IsOpen(kfDevPrefix + d) {
			return vt.Bad("the file needs spec deviation %q (x%d) that is not a listed finding", d, res.Deviations[d])
		}
		rec.KnownHit(kfDevPrefix+d, "spec deviation "+d, nil)
	}
	if known != nil {
		return *known
	}
	return vt.Pass()
}

// linkedFromDense: the object at path is the target of a link held by a group created with CreateDenseGroup
// (such links never increment the target's reference count).
func linkedFromDense(m *hist.Model, path string) bool {
	o := m.Resolve(path)
	if o == nil {
		return false
	}
	for _, g := range m.Objects() {
		if g.Kind == "group" && g.Dense {
			for _, dl := range g.Links {
				if dl.Kind == "hard" && dl.Obj == o {
					return true
				}
			}
		}
	}
	return false
}

func TestProp(t *testing.T) {
	_ = indep.KnownDeviations
	vt.Run(t, prop,
		vt.Sub[Case]{Prop: prop, Name: "files", Gen: gen, Run: run, Classify: classify}.WithBudget(2500, 15000),
		vt.Func[MinCase]{Name: "minimal", One: runMin, Body: minBody})
}

// ---- minimal: the file hdf5.Create makes (an empty root group), decoded independently -------------------------------

type MinCase struct {
	Mode int `json:"mode"` // 0 CreateTruncate, 1 CreateExclusive
}

func runMin(c MinCase) vt.Verdict {
	file := filepath.Join(vt.GetEnv().Scratch, fmt.Sprintf("c05-min-%d.h5", os.Getpid()))
	os.Remove(file)
	defer os.Remove(file)
	mode := hdf5.CreateTruncate
	if c.Mode == 1 {
		mode = hdf5.CreateExclusive
	}
	f, err := hdf5.Create(file, mode)
	if err != nil {
		return vt.Bad("hdf5.Create: %v", err)
	}
	if err := f.Close(); err != nil {
		return vt.Bad("Close of the created file: %v", err)
	}
	data, err := os.ReadFile(file)
	if err != nil {
		return vt.Bad("read back: %v", err)
	}
	ref, derr := indep.Decode(data, indep.TolerateAll())
	if derr != nil && !indep.IsUnsupported(derr) {
		return vt.Bad("file made by hdf5.Create is not decodable by the independent decoder: %v", derr)
	}
	if ref == nil || ref.Lookup("/") == nil {
		return vt.Bad("file made by hdf5.Create: no root group found")
	}
	if ex := ref.CheckExtents(uint64(len(data))); len(ex) > 0 {
		return vt.Bad("file made by hdf5.Create: %s", ex[0])
	}
	if ref.EOFAddr != uint64(len(data)) && ref.EOFAddr < uint64(len(data)) {
		return vt.Bad("file made by hdf5.Create: superblock end-of-file address %d, the file holds %d bytes of structures", ref.EOFAddr, len(data))
	}
	return vt.Pass()
}

func minBody(t *testing.T) {
	rec := vt.Recorder(prop)
	if vt.GetEnv().Shard != 0 {
		return
	}
	for m := 0; m < 2; m++ {
		c := MinCase{Mode: m}
		vt.Current(prop, "minimal", c)
		v := vt.SafeRun(runMin, c)
		rec.Case("minimal", c, true)
		if v.Kind == vt.Violation {
			p := vt.ReportViolation(prop, "minimal", c, v.Detail)
			t.Errorf("%s (replay %s)", v.Detail, p)
		}
	}
	rec.SetExhaustive("minimal", true)
}
