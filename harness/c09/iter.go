package c09

import (
	"fmt"
	"math"

	hdf5 "github.com/scigolib/hdf5"
	"github.com/scigolib/hdf5/internal/core"
	"github.com/scigolib/hdf5/verif/vt"
)

func datasetDims(f *hdf5.File, d *hdf5.Dataset) []uint64 {
	hdr, err := core.ReadObjectHeader(f.Reader(), d.Address(), f.Superblock())
	if err != nil {
		return nil
	}
	info, err := core.ReadDatasetInfo(hdr, f.Superblock())
	if err != nil || info.Dataspace == nil {
		return nil
	}
	return append([]uint64{}, info.Dataspace.Dimensions...)
}

// checkIterator: for chunked datasets the iterator visits every stored chunk exactly once and the pieces tile
// the full read exactly; for other layouts it must refuse.
func checkIterator(ds *hdf5.Dataset, full []float64, dims []uint64) *vt.Verdict {
	bad := func(format string, a ...any) *vt.Verdict {
		v := vt.Bad("chunk iterator: "+format, a...)
		return &v
	}
	it, err := ds.ChunkIterator()
	if err != nil {
		return nil // not chunked (or unsupported): an error is allowed
	}
	rank := len(dims)
	cd := it.ChunkDims()
	if len(cd) < rank {
		return bad("chunk dims %v shorter than rank %d", cd, rank)
	}
	covered := make([]int, len(full))
	seen := map[string]bool{}
	visited := 0
	for it.Next() {
		visited++
		co := it.ChunkCoords()
		if len(co) != rank {
			return bad("chunk coordinates %v do not have rank %d", co, rank)
		}
		key := fmt.Sprint(co)
		if seen[key] {
			return bad("chunk %v visited twice", co)
		}
		seen[key] = true
		v, err := it.Chunk()
		if err != nil {
			return bad("Chunk() at %v failed: %v", co, err)
		}
		vals, ok := v.([]float64)
		if !ok {
			return bad("Chunk() returned %T", v)
		}
		// region of this chunk
		start := make([]uint64, rank)
		count := make([]uint64, rank)
		n := 1
		for i := 0; i < rank; i++ {
			start[i] = co[i] * cd[i]
			if start[i] >= dims[i] {
				return bad("chunk %v starts outside the dataset %v", co, dims)
			}
			count[i] = cd[i]
			if start[i]+count[i] > dims[i] {
				count[i] = dims[i] - start[i]
			}
			n *= int(count[i])
		}
		if len(vals) != n {
			return bad("chunk %v returned %d values, its region %v holds %d", co, len(vals), count, n)
		}
		idx := make([]uint64, rank)
		for k := 0; k < n; k++ {
			r := k
			for i := rank - 1; i >= 0; i-- {
				idx[i] = start[i] + uint64(r)%count[i]
				r /= int(count[i])
			}
			off := uint64(0)
			for i := 0; i < rank; i++ {
				off = off*dims[i] + idx[i]
			}
			if math.Float64bits(vals[k]) != math.Float64bits(full[off]) {
				return bad("chunk %v element %d (coordinate %v) = %v, the full read has %v", co, k, idx, vals[k], full[off])
			}
			covered[off]++
		}
		// a caller that forms the rank+1 chunk key from the coordinates it was handed: what it appends is its own business
		key1 := append(co, math.MaxUint64)
		_ = key1
	}
	if err := it.Err(); err != nil {
		return bad("iteration error: %v", err)
	}
	if visited != it.Total() {
		return bad("visited %d chunks, Total() says %d", visited, it.Total())
	}
	// library-written datasets store every chunk: the pieces must tile the dataset exactly
	for off, c := range covered {
		if c > 1 {
			return bad("element %d covered %d times", off, c)
		}
	}
	return nil
}
