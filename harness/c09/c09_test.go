// Package c09 decides property C09: partial reads (ReadSlice, ReadHyperslab, ChunkIterator) agree with the full read.
package c09

import (
	"bytes"
	"fmt"
	"math"
	"os"
	"path/filepath"
	"sort"
	"strings"
	"sync"
	"testing"

	hdf5 "github.com/scigolib/hdf5"
	"github.com/scigolib/hdf5/verif/hist"
	"github.com/scigolib/hdf5/verif/vt"
	"pgregory.net/rapid"
)

const prop = "C09"

type Sel struct {
	Start  []uint64 `json:"start"`
	Count  []uint64 `json:"count"`
	Stride []uint64 `json:"stride,omitempty"`
	Block  []uint64 `json:"block,omitempty"`
	Slice  bool     `json:"slice"`         // use ReadSlice(start,count) (stride/block must be nil)
	OOB    string   `json:"oob,omitempty"` // how the selection was pushed out of bounds ("" = in bounds)
	// Reuse >= 2 (selections passed to ReadHyperslab without stride and block): the caller keeps the selection value, sets
	// the stride of the first dimension the library filled in to this value and reads again
	Reuse uint64 `json:"reuse,omitempty"`
}

type Case struct {
	// library-written dataset ...
	Type  string   `json:"type"`
	Dims  []uint64 `json:"dims"`
	Chunk []uint64 `json:"chunk,omitempty"`
	Mixed bool     `json:"mixed,omitempty"` // data with extreme values (top bits set, NaN payloads, negative zero) instead of 0,1,2,..
	DSeed int      `json:"dseed,omitempty"`
	// WDims, when set: the dataset is created and written with this shape and resized to Dims afterwards, without a rewrite
	// (every written chunk still intersects the new extent; the part never written reads as zero through every read path)
	WDims []uint64 `json:"wdims,omitempty"`
	// ... or a corpus dataset
	Corpus string `json:"corpus,omitempty"` // file (relative to /repo/testdata) + "::" + dataset path
	Sels   []Sel  `json:"sels"`
	// Twin: the file holds a second dataset with the same link name in another group (/g/d next to /d), same shape, other
	// values (and, when TwinChunk is set, another chunk shape); every selection is read from both through the one File
	// Deflate > 0: the chunks are deflate-compressed at this level. The pipeline message the writer stores carries version
	// byte 2 over a version 1 layout (C08's open finding); the harness sets that one byte to 1 so that the reader can be
	// asked about compressed chunks at all.
	Deflate int `json:"deflate,omitempty"`
	// BE: the harness turns the written dataset into big-endian storage (byte-order bit of the datatype message set, every
	// stored element byte-swapped): the values are the same, as a big-endian machine would have stored them
	BE bool `json:"be,omitempty"`
	// Deep (2 or 3): the single-leaf chunk index the writer produced is re-arranged by the harness into a B-tree of that many
	// levels with PerNode entries per node (see deepen.go); what the dataset holds is unchanged
	Deep      int      `json:"deep,omitempty"`
	PerNode   int      `json:"per_node,omitempty"`
	Twin      bool     `json:"twin,omitempty"`
	TwinChunk []uint64 `json:"twin_chunk,omitempty"`
}

// ---- corpus datasets on which Read() succeeds (enumerated once per process) -------------------------------------

type corpusDS struct {
	File, Path string
	Dims       []uint64
}

var corpus = sync.OnceValue(func() []corpusDS {
	var out []corpusDS
	roots := []string{"/repo/testdata"}
	var files []string
	for _, r := range roots {
		_ = filepath.Walk(r, func(p string, info os.FileInfo, err error) error {
			if err == nil && !info.IsDir() && (strings.HasSuffix(p, ".h5") || strings.HasSuffix(p, ".hdf5")) && info.Size() > 0 && info.Size() <= 256*1024 {
				files = append(files, p)
			}
			return nil
		})
	}
	sort.Strings(files)
	// a seed-rotated subset keeps the start-up cost of every shard small; other seeds/shards see other files
	if max := vt.N(60, 400); len(files) > max {
		off := int(vt.ShardSeed("corpus") % uint64(len(files)))
		rot := append(append([]string{}, files[off:]...), files[:off]...)
		files = rot[:max]
		sort.Strings(files)
	}
	for _, fp := range files {
		func() {
			defer func() { _ = recover() }()
			f, err := hdf5.Open(fp)
			if err != nil {
				return
			}
			defer f.Close()
			f.Walk(func(p string, o hdf5.Object) {
				d, ok := o.(*hdf5.Dataset)
				if !ok {
					return
				}
				func() {
					defer func() { _ = recover() }()
					// only small datasets are used; the extent is looked at before anything is read (a corpus file declares
					// billions of elements, and a full read materialises the logical extent)
					dims := dimsOf(f, d)
					if pn := uint64(1); true {
						for _, x := range dims {
							if x == 0 || pn > 20000/x {
								return
							}
							pn *= x
						}
					}
					vals, err := d.Read()
					if err != nil || len(vals) == 0 || len(vals) > 20000 {
						return
					}
					n := 1
					for _, x := range dims {
						n *= int(x)
					}
					if len(dims) == 0 || len(dims) > 4 || n != len(vals) {
						return
					}
					out = append(out, corpusDS{File: strings.TrimPrefix(fp, "/repo/testdata/"), Path: p, Dims: dims})
				}()
			})
		}()
	}
	return out
})

func genSel(t *rapid.T, dims []uint64, chunk []uint64) Sel {
	rank := len(dims)
	s := Sel{Start: make([]uint64, rank), Count: make([]uint64, rank)}
	kind := rapid.SampledFrom([]string{"general", "general", "general", "slice", "slice", "single", "full", "last", "row", "oob", "oob"}).Draw(t, "selkind")
	strided := kind == "general" || kind == "oob"
	if strided {
		s.Stride, s.Block = make([]uint64, rank), make([]uint64, rank)
	}
	for d := 0; d < rank; d++ {
		e := dims[d]
		switch kind {
		case "single":
			s.Start[d], s.Count[d] = uint64(rapid.IntRange(0, int(e)-1).Draw(t, "start")), 1
		case "full":
			s.Start[d], s.Count[d] = 0, e
		case "last":
			s.Start[d], s.Count[d] = e-1, 1
		case "row":
			if d == rank-1 {
				s.Start[d], s.Count[d] = 0, e
			} else {
				s.Start[d], s.Count[d] = uint64(rapid.IntRange(0, int(e)-1).Draw(t, "start")), 1
			}
		case "slice":
			st := uint64(rapid.IntRange(0, int(e)-1).Draw(t, "start"))
			s.Start[d], s.Count[d] = st, uint64(rapid.IntRange(1, int(e-st)).Draw(t, "count"))
		default:
			// block >= 1, stride >= block, count >= 1, start such that the last element fits
			block := uint64(rapid.IntRange(1, int(minU(e, 3))).Draw(t, "block"))
			stride := block + uint64(rapid.IntRange(0, 3).Draw(t, "gap"))
			maxCount := (e-block)/stride + 1
			count := uint64(rapid.IntRange(1, int(maxCount)).Draw(t, "count"))
			span := (count-1)*stride + block
			s.Start[d] = uint64(rapid.IntRange(0, int(e-span)).Draw(t, "start"))
			s.Count[d], s.Stride[d], s.Block[d] = count, stride, block
			if rapid.IntRange(0, 3).Draw(t, "fullDim") == 0 {
				s.Start[d], s.Count[d], s.Stride[d], s.Block[d] = 0, e, 1, 1
			}
		}
	}
	s.Slice = kind == "slice" || ((kind == "single" || kind == "full" || kind == "last" || kind == "row") && rapid.Bool().Draw(t, "viaSlice"))
	if !s.Slice && !strided && rapid.Bool().Draw(t, "reuse") {
		s.Reuse = uint64(rapid.IntRange(2, 4).Draw(t, "reuseStride"))
	}
	if kind == "oob" {
		d := rapid.IntRange(0, rank-1).Draw(t, "oobDim")
		s.OOB = rapid.SampledFrom([]string{"past_end", "start_at_end", "zero_count", "zero_stride", "zero_block", "overflow", "rank"}).Draw(t, "oobKind")
		switch s.OOB {
		case "past_end":
			s.Start[d] = dims[d] - ((s.Count[d]-1)*s.Stride[d] + s.Block[d]) + 1
		case "start_at_end":
			s.Start[d] = dims[d]
		case "zero_count":
			s.Count[d] = 0
		case "zero_stride":
			s.Stride[d] = 0
		case "zero_block":
			s.Block[d] = 0
		case "overflow":
			s.Start[d] = math.MaxUint64 - 1
			s.Count[d] = 3
			if rapid.Bool().Draw(t, "overflowViaSlice") {
				s.Slice, s.Stride, s.Block = true, nil, nil
			}
		case "rank":
			s.Start = append(s.Start, 0)
			s.Count = append(s.Count, 1)
		}
	}
	return s
}

func minU(a, b uint64) uint64 {
	if a < b {
		return a
	}
	return b
}

func gen(t *rapid.T) Case {
	var c Case
	cs := corpus()
	if len(cs) > 0 && rapid.IntRange(0, 3).Draw(t, "useCorpus") == 0 {
		d := cs[rapid.IntRange(0, len(cs)-1).Draw(t, "corpusIdx")]
		c.Corpus = d.File + "::" + d.Path
		c.Dims = d.Dims
	} else {
		c.Type = rapid.SampledFrom([]string{"f64", "i32", "f32", "i64", "u32", "u64", "u64"}).Draw(t, "type")
		c.Mixed = rapid.Bool().Draw(t, "mixedData")
		c.DSeed = rapid.IntRange(0, 999).Draw(t, "dseed")
		rank := rapid.SampledFrom([]int{1, 2, 2, 3, 3, 4}).Draw(t, "rank")
		maxE := []int{40, 12, 7, 5}[rank-1]
		for i := 0; i < rank; i++ {
			c.Dims = append(c.Dims, uint64(rapid.IntRange(1, maxE).Draw(t, "extent")))
		}
		if rapid.IntRange(0, 2).Draw(t, "chunked") > 0 {
			if rapid.IntRange(0, 2).Draw(t, "resized") == 0 {
				c.WDims = append([]uint64{}, c.Dims...)
				for i, w := range c.WDims {
					ch := uint64(rapid.IntRange(1, int(w)).Draw(t, "chunk"))
					c.Chunk = append(c.Chunk, ch)
					lo := (w-1)/ch*ch + 1 // the last written chunk keeps at least one row inside the new extent
					c.Dims[i] = uint64(rapid.IntRange(int(lo), maxE+3).Draw(t, "finalExtent"))
				}
			} else {
				for _, e := range c.Dims {
					c.Chunk = append(c.Chunk, uint64(rapid.IntRange(1, int(e)).Draw(t, "chunk")))
				}
			}
		}
	}
	if c.Corpus == "" && c.Chunk != nil && c.WDims == nil && rapid.IntRange(0, 2).Draw(t, "deflate") == 0 {
		c.Deflate = rapid.IntRange(1, 9).Draw(t, "level")
	}
	if c.Corpus == "" && c.Deflate == 0 && rapid.IntRange(0, 3).Draw(t, "bigEndian") == 0 {
		c.BE = true
	}
	if c.Corpus == "" && c.Chunk != nil && c.Deflate == 0 && rapid.IntRange(0, 2).Draw(t, "deep") == 0 {
		c.Deep = rapid.SampledFrom([]int{2, 2, 3}).Draw(t, "levels")
		c.PerNode = rapid.IntRange(1, 4).Draw(t, "perNode")
	}
	if c.Corpus == "" && c.WDims == nil && c.Deflate == 0 && c.Deep == 0 && rapid.IntRange(0, 3).Draw(t, "twin") == 0 {
		c.Twin = true
		if c.Chunk != nil && rapid.Bool().Draw(t, "twinOtherChunks") {
			for _, e := range c.Dims {
				c.TwinChunk = append(c.TwinChunk, uint64(rapid.IntRange(1, int(e)).Draw(t, "twinChunk")))
			}
		}
	}
	n := rapid.IntRange(1, 6).Draw(t, "nsels")
	for i := 0; i < n; i++ {
		c.Sels = append(c.Sels, genSel(t, c.Dims, c.Chunk))
	}
	return c
}

func classify(c Case) (bool, []string) {
	labels := []string{fmt.Sprintf("rank=%d", len(c.Dims))}
	switch {
	case c.Corpus != "":
		labels = append(labels, "corpus")
	case c.Chunk != nil:
		labels = append(labels, "chunked")
		if c.Deflate > 0 {
			labels = append(labels, "deflate_compressed_chunks")
			for d := range c.Dims {
				if d < len(c.Chunk) && c.Dims[d]%c.Chunk[d] != 0 {
					labels = append(labels, "compressed_partial_edge_chunk")
					break
				}
			}
		}
		if c.WDims != nil {
			labels = append(labels, "resized_after_write")
		}
	default:
		labels = append(labels, "contiguous")
	}
	nt := false
	if c.Twin {
		labels = append(labels, "same_link_name_in_two_groups")
	}
	for _, s := range c.Sels {
		if s.Reuse > 0 && s.OOB == "" {
			labels = append(labels, "selection_value_reused")
		}
		if s.OOB != "" {
			labels = append(labels, "oob="+s.OOB)
			continue
		}
		proper := false
		multiChunk := false
		strided := false
		for d := range c.Dims {
			if d >= len(s.Count) {
				continue
			}
			st, bl := uint64(1), uint64(1)
			if s.Stride != nil {
				st, bl = s.Stride[d], s.Block[d]
			}
			span := (s.Count[d]-1)*st + bl
			if span < c.Dims[d] || st > bl {
				proper = true
			}
			if st > 1 || bl > 1 {
				strided = true
			}
			if c.Chunk != nil && d > 0 && s.Start[d]/c.Chunk[d] != (s.Start[d]+span-1)/c.Chunk[d] {
				multiChunk = true
			}
		}
		if proper && (multiChunk || strided || len(c.Dims) >= 3) {
			nt = true
		}
		if multiChunk {
			labels = append(labels, "spans_chunks_in_non_leading_dim")
		}
		if strided {
			labels = append(labels, "stride_or_block>1")
		}
	}
	seen := map[string]bool{}
	out := labels[:0]
	for _, l := range labels {
		if !seen[l] {
			seen[l] = true
			out = append(out, l)
		}
	}
	return nt, out
}

func dimsOf(f *hdf5.File, d *hdf5.Dataset) []uint64 {
	return datasetDims(f, d)
}

// expected selects the coordinates from the full read, row-major over the selection.
func expected(full []float64, dims []uint64, s Sel) []float64 {
	rank := len(dims)
	var out []float64
	coords := make([]uint64, rank)
	var rec func(d int)
	rec = func(d int) {
		if d == rank {
			off := uint64(0)
			for i := 0; i < rank; i++ {
				off = off*dims[i] + coords[i]
			}
			out = append(out, full[off])
			return
		}
		st, bl := uint64(1), uint64(1)
		if s.Stride != nil {
			st, bl = s.Stride[d], s.Block[d]
		}
		for c := uint64(0); c < s.Count[d]; c++ {
			for b := uint64(0); b < bl; b++ {
				coords[d] = s.Start[d] + c*st + b
				rec(d + 1)
			}
		}
	}
	rec(0)
	return out
}

func run(c Case) vt.Verdict {
	var file, dpath string
	deepened := false
	var wantFull []uint64
	if c.Corpus != "" {
		parts := strings.SplitN(c.Corpus, "::", 2)
		if len(parts) != 2 {
			return vt.Skipped("bad corpus reference")
		}
		file, dpath = filepath.Join("/repo/testdata", parts[0]), parts[1]
	} else {
		file = filepath.Join(vt.GetEnv().Scratch, fmt.Sprintf("c09-%d.h5", os.Getpid()))
		defer os.Remove(file)
		dpath = "/d"
		ex, err := hist.NewExec(file, 2)
		if err != nil {
			return vt.Bad("CreateForWrite: %v", err)
		}
		spec := &hist.DSpec{Type: c.Type, Dims: c.Dims, Chunk: c.Chunk}
		if c.Deflate > 0 {
			if c.Chunk == nil || c.WDims != nil || c.Deflate > 9 {
				ex.Close()
				return vt.Skipped("bad deflate spec")
			}
			spec.Filters = []string{fmt.Sprintf("gzip:%d", c.Deflate)}
		}
		if c.WDims != nil {
			if len(c.WDims) != len(c.Dims) || c.Chunk == nil {
				ex.Close()
				return vt.Skipped("bad resize spec")
			}
			spec.Dims = c.WDims
			for range c.WDims {
				spec.MaxDims = append(spec.MaxDims, hdf5.Unlimited)
			}
		}
		if !spec.Valid() {
			ex.Close()
			return vt.Skipped("bad spec")
		}
		for _, op := range []hist.Op{{K: "dataset", Path: dpath, D: spec}, {K: "write", Path: dpath, Seed: 3 + c.DSeed, Mode: dataMode(c)}} {
			if st := ex.Apply(op); st.Err != "" || st.Broken != "" {
				ex.Close()
				return vt.Bad("setup %s: %s%s", op.K, st.Err, st.Broken)
			}
		}
		if c.Twin {
			tspec := &hist.DSpec{Type: c.Type, Dims: c.Dims, Chunk: c.Chunk}
			if c.TwinChunk != nil {
				tspec.Chunk = c.TwinChunk
			}
			if !tspec.Valid() {
				ex.Close()
				return vt.Skipped("bad twin spec")
			}
			for _, op := range []hist.Op{{K: "group", Path: "/g"}, {K: "dataset", Path: "/g/d", D: tspec}, {K: "write", Path: "/g/d", Seed: 1003 + c.DSeed, Mode: hist.ModeMixed}} {
				if st := ex.Apply(op); st.Err != "" || st.Broken != "" {
					ex.Close()
					return vt.Bad("setup twin %s: %s%s", op.K, st.Err, st.Broken)
				}
			}
		}
		if c.WDims != nil {
			if st := ex.Apply(hist.Op{K: "resize", Path: dpath, Dims: c.Dims}); st.Err != "" || st.Broken != "" {
				ex.Close()
				return vt.Bad("Resize %v -> %v (chunk %v, unlimited): %s%s", c.WDims, c.Dims, c.Chunk, st.Err, st.Broken)
			}
		}
		if o := ex.M.Resolve(dpath); o != nil && o.Written && c.WDims == nil {
			if w, ok := o.Spec.ExpectedRead(o.Raw); ok {
				wantFull = w
			}
		}
		if err := ex.Close(); err != nil {
			return vt.Bad("Close: %v", err)
		}
		if c.BE && c.Deflate == 0 {
			if img, err := os.ReadFile(file); err == nil {
				if be, berr := toBigEndian(img, dpath); berr == nil {
					if err := os.WriteFile(file, be, 0o644); err != nil {
						return vt.Bad("write back: %v", err)
					}
					vt.Recorder(prop).Label("selection", "big_endian_storage_"+c.Type, 1)
				}
			}
		}
		if c.Deep >= 2 && c.Deep <= 3 {
			if img, err := os.ReadFile(file); err == nil {
				if deep, derr := deepen(img, dpath, c.Deep, c.PerNode); derr == nil {
					if err := os.WriteFile(file, deep, 0o644); err != nil {
						return vt.Bad("write back: %v", err)
					}
					deepened = true
				}
			}
		}
		if c.Deflate > 0 {
			img, err := os.ReadFile(file)
			if err != nil {
				return vt.Bad("read back: %v", err)
			}
			// version 2, one filter, six reserved bytes, filter id 1 (deflate)
			pat := []byte{2, 1, 0, 0, 0, 0, 0, 0, 1, 0}
			at := bytes.Index(img, pat)
			if at < 0 || bytes.Index(img[at+1:], pat) >= 0 {
				return vt.Skipped("pipeline message not located")
			}
			img[at] = 1
			if err := os.WriteFile(file, img, 0o644); err != nil {
				return vt.Bad("write back: %v", err)
			}
		}
	}
	f, err := hdf5.Open(file)
	if err != nil {
		return vt.Bad("Open(%s): %v", file, err)
	}
	defer f.Close()
	paths := []string{dpath}
	if c.Twin && c.Corpus == "" {
		paths = []string{"/g/d", dpath, "/g/d"}
	}
	if deepened {
		vt.Recorder(prop).Label("selection", fmt.Sprintf("chunk_index_of_%d_levels", c.Deep), 1)
	}
	for _, p := range paths {
		var want []uint64
		if p == dpath {
			want = wantFull
		}
		if v := readAll(c, f, p, want); v.Kind != vt.Pass().Kind {
			return v
		}
	}
	return vt.Pass()
}

// readAll reads every selection of the case from the dataset at dpath and compares with that dataset's full read (and the
// full read with what was written, where the harness wrote the dataset).
func readAll(c Case, f *hdf5.File, dpath string, wantFull []uint64) vt.Verdict {
	var ds *hdf5.Dataset
	f.Walk(func(p string, o hdf5.Object) {
		if d, ok := o.(*hdf5.Dataset); ok && p == dpath && ds == nil {
			ds = d
		}
	})
	if ds == nil {
		if dpath == "/g/d" {
			return vt.Bad("dataset /g/d written by the library is not listed")
		}
		return vt.Skipped("dataset %s not found", dpath)
	}
	full, err := ds.Read()
	if err != nil {
		if c.Corpus != "" {
			return vt.Skipped("corpus dataset not readable: %v", err)
		}
		return vt.Bad("full Read() of the library-written dataset failed: %v", err)
	}
	dims := dimsOf(f, ds)
	n := 1
	for _, x := range dims {
		n *= int(x)
	}
	if n != len(full) || len(dims) != len(c.Dims) {
		return vt.Skipped("shape mismatch with the case")
	}
	if wantFull != nil {
		if len(wantFull) != len(full) {
			return vt.Bad("full Read() of %s returns %d values, %d were written (dims %v chunk %v, index levels %d)", dpath, len(full), len(wantFull), dims, c.Chunk, c.Deep)
		}
		for k := range full {
			if math.Float64bits(full[k]) != wantFull[k] {
				return vt.Bad("full Read() of %s: element %d = %v, written %v (dims %v chunk %v, index levels %d, %d per node)", dpath, k, full[k], math.Float64frombits(wantFull[k]), dims, c.Chunk, c.Deep, c.PerNode)
			}
		}
	}
	for i, s := range c.Sels {
		var got, got2 interface{}
		var rerr, rerr2 error
		var s2 *Sel
		func() {
			defer func() {
				if p := recover(); p != nil {
					rerr = fmt.Errorf("PANIC: %v", p)
				}
			}()
			if s.Slice && s.Stride == nil {
				got, rerr = ds.ReadSlice(append([]uint64{}, s.Start...), append([]uint64{}, s.Count...))
			} else {
				sel := &hdf5.HyperslabSelection{Start: append([]uint64{}, s.Start...), Count: append([]uint64{}, s.Count...)}
				if s.Stride != nil {
					sel.Stride, sel.Block = append([]uint64{}, s.Stride...), append([]uint64{}, s.Block...)
				}
				got, rerr = ds.ReadHyperslab(sel)
				if rerr == nil && s.Reuse >= 2 && s.OOB == "" && s.Stride == nil && len(sel.Stride) == len(dims) && len(sel.Block) == len(dims) && len(dims) > 0 {
					// the defaults were filled into the caller's value: change one of them and read again
					blk := append([]uint64{}, sel.Block...)
					sel.Stride[0] = s.Reuse
					if blk[0] >= 1 && blk[0] <= s.Reuse && sel.Start[0]+blk[0] <= dims[0] {
						if maxCount := (dims[0]-sel.Start[0]-blk[0])/s.Reuse + 1; sel.Count[0] > maxCount {
							sel.Count[0] = maxCount
						}
						s2 = &Sel{Start: append([]uint64{}, sel.Start...), Count: append([]uint64{}, sel.Count...), Stride: append([]uint64{}, sel.Stride...), Block: blk}
						got2, rerr2 = ds.ReadHyperslab(sel)
					}
				}
			}
		}()
		if rerr != nil && strings.HasPrefix(rerr.Error(), "PANIC") {
			return vt.Bad("selection %d %+v on dims %v: %v", i, s, dims, rerr)
		}
		if s.OOB != "" {
			if rerr == nil {
				return vt.Bad("selection %d %+v leaves the bounds of dims %v (%s) but was accepted", i, s, dims, s.OOB)
			}
			continue
		}
		if rerr != nil {
			return vt.Bad("in-bounds selection %d %+v on dims %v chunk %v rejected: %v", i, s, dims, c.Chunk, rerr)
		}
		vals, ok := got.([]float64)
		if !ok {
			return vt.Bad("selection %d: result has type %T, want []float64", i, got)
		}
		want := expected(full, dims, s)
		if len(vals) != len(want) {
			return vt.Bad("selection %d %+v on dims %v chunk %v: %d values returned, %d selected", i, s, dims, c.Chunk, len(vals), len(want))
		}
		for k := range want {
			if math.Float64bits(vals[k]) != math.Float64bits(want[k]) {
				return vt.Bad("selection %d %+v on dims %v chunk %v: element %d = %v, the full read has %v there", i, s, dims, c.Chunk, k, vals[k], want[k])
			}
		}
		if s2 != nil {
			if rerr2 != nil {
				return vt.Bad("selection %d re-used with stride[0]=%d (%+v) on dims %v rejected: %v", i, s.Reuse, *s2, dims, rerr2)
			}
			vals2, ok := got2.([]float64)
			want2 := expected(full, dims, *s2)
			if !ok || len(vals2) != len(want2) {
				return vt.Bad("selection %d re-used with stride[0]=%d (%+v, block as filled in by the first call) on dims %v: %d values returned, %d selected", i, s.Reuse, *s2, dims, len(vals2), len(want2))
			}
			for k := range want2 {
				if math.Float64bits(vals2[k]) != math.Float64bits(want2[k]) {
					return vt.Bad("selection %d re-used with stride[0]=%d (%+v) on dims %v: element %d = %v, the full read has %v there", i, s.Reuse, *s2, dims, k, vals2[k], want2[k])
				}
			}
		}
	}
	// chunk iterator: every stored chunk exactly once, pieces tile the full read
	if v := checkIterator(ds, full, dims); v != nil {
		return *v
	}
	return vt.Pass()
}

func dataMode(c Case) int {
	if c.Mixed {
		return hist.ModeMixed
	}
	return hist.ModeSeq
}

func TestProp(t *testing.T) {
	vt.Run(t, prop, vt.Sub[Case]{Prop: prop, Name: "selection", Gen: gen, Run: run, Classify: classify}.WithBudget(8000, 40000))
}
