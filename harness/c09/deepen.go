package c09

import (
	"bytes"
	"encoding/binary"
	"fmt"

	"github.com/scigolib/hdf5/verif/indep"
)

// deepen rewrites the chunk index of dataset path in a library-written file image - a single leaf node - as a tree of the
// given number of levels (2 or 3): the entries are distributed over leaves of perNode entries chained by their sibling
// pointers, under internal nodes whose keys are the first keys of their children (the shape the reference library
// produces as soon as a dataset has more chunks than fit one node). The new nodes are appended to the image and the
// layout message is pointed at the new root; chunk addresses and chunk data stay where they are.
func deepen(img []byte, path string, levels, perNode int) ([]byte, error) {
	ref, err := indep.Decode(img, indep.TolerateAll())
	if ref == nil || (err != nil && !indep.IsUnsupported(err)) {
		return nil, fmt.Errorf("independent decoder: %v", err)
	}
	o := ref.Lookup(path)
	if o == nil || o.Layout != "chunked" || o.ChunkIndex != "btree1" || len(o.ChunkDims) == 0 {
		return nil, fmt.Errorf("no chunked dataset with a version 1 B-tree index at %s", path)
	}
	rank := len(o.ChunkDims)
	root := o.DataAddr
	ks := 8 + 8*rank
	if root+24 > uint64(len(img)) || string(img[root:root+4]) != "TREE" || img[root+4] != 1 || img[root+5] != 0 {
		return nil, fmt.Errorf("index root at %d is not a leaf of a chunk B-tree", root)
	}
	n := int(binary.LittleEndian.Uint16(img[root+6:]))
	if n < 2 || root+24+uint64(n*(ks+8)+ks) > uint64(len(img)) {
		return nil, fmt.Errorf("%d entries: nothing to distribute", n)
	}
	var keys [][]byte
	var kids []uint64
	p := root + 24
	for i := 0; i < n; i++ {
		keys = append(keys, append([]byte{}, img[p:p+uint64(ks)]...))
		kids = append(kids, binary.LittleEndian.Uint64(img[p+uint64(ks):]))
		p += uint64(ks) + 8
	}
	final := append([]byte{}, img[p:p+uint64(ks)]...)
	if perNode < 1 {
		perNode = 1
	}
	type nd struct {
		keys  [][]byte
		kids  []uint64
		final []byte
		addr  uint64
	}
	out := append([]byte{}, img...)
	for len(out)%8 != 0 {
		out = append(out, 0)
	}
	next := uint64(len(out))
	size := func(k int) uint64 { return uint64(24 + k*(ks+8) + ks) }
	split := func(keys [][]byte, kids []uint64, final []byte) []*nd {
		var nodes []*nd
		for i := 0; i < len(keys); i += perNode {
			j := i + perNode
			if j > len(keys) {
				j = len(keys)
			}
			x := &nd{keys: keys[i:j], kids: kids[i:j], final: final, addr: next}
			if j < len(keys) {
				x.final = keys[j]
			}
			next += size(j - i)
			nodes = append(nodes, x)
		}
		return nodes
	}
	emit := func(nodes []*nd, level int) {
		for i, x := range nodes {
			b := []byte("TREE")
			b = append(b, 1, byte(level))
			b = binary.LittleEndian.AppendUint16(b, uint16(len(x.keys)))
			left, right := ^uint64(0), ^uint64(0)
			if i > 0 {
				left = nodes[i-1].addr
			}
			if i+1 < len(nodes) {
				right = nodes[i+1].addr
			}
			b = binary.LittleEndian.AppendUint64(b, left)
			b = binary.LittleEndian.AppendUint64(b, right)
			for k := range x.keys {
				b = append(b, x.keys[k]...)
				b = binary.LittleEndian.AppendUint64(b, x.kids[k])
			}
			b = append(b, x.final...)
			if uint64(len(out)) != x.addr {
				panic("deepen: address bookkeeping")
			}
			out = append(out, b...)
		}
	}
	cur := split(keys, kids, final)
	emit(cur, 0)
	for level := 1; level < levels; level++ {
		var k2 [][]byte
		var c2 []uint64
		for _, x := range cur {
			k2 = append(k2, x.keys[0])
			c2 = append(c2, x.addr)
		}
		if level == levels-1 {
			saved := perNode
			perNode = len(k2) // the root takes all
			cur = split(k2, c2, final)
			perNode = saved
		} else {
			cur = split(k2, c2, final)
		}
		emit(cur, level)
	}
	if len(cur) != 1 {
		return nil, fmt.Errorf("no single root")
	}
	// point the layout message at the new root
	old := binary.LittleEndian.AppendUint64(nil, root)
	lo, hi := int(o.Addr), int(o.Addr)+1024
	if hi > len(img) {
		hi = len(img)
	}
	at := bytes.Index(out[lo:hi], old)
	if at < 0 || bytes.Index(out[lo+at+1:hi], old) >= 0 {
		return nil, fmt.Errorf("index address not found exactly once in the object header")
	}
	binary.LittleEndian.PutUint64(out[lo+at:], cur[0].addr)
	return out, nil
}

// toBigEndian re-stores the numeric dataset at path as a big-endian writer would have: the byte-order bit of its datatype
// message is set and every stored element is byte-swapped in place (contiguous data or every chunk).
func toBigEndian(img []byte, path string) ([]byte, error) {
	ref, err := indep.Decode(img, indep.TolerateAll())
	if ref == nil || (err != nil && !indep.IsUnsupported(err)) {
		return nil, fmt.Errorf("independent decoder: %v", err)
	}
	o := ref.Lookup(path)
	if o == nil || o.Kind != "dataset" || o.Type == nil || (o.Type.Class != 0 && o.Type.Class != 1) || len(o.Filters) > 0 {
		return nil, fmt.Errorf("no plain numeric dataset at %s", path)
	}
	es := int(o.Type.Size)
	if es != 2 && es != 4 && es != 8 {
		return nil, fmt.Errorf("element size %d", es)
	}
	out := append([]byte{}, img...)
	// datatype message: class/version byte, three bit-field bytes, size
	lo, hi := int(o.Addr), int(o.Addr)+1024
	if hi > len(out) {
		hi = len(out)
	}
	at := -1
	for i := lo; i+8 <= hi; i++ {
		if out[i] == byte(0x10|o.Type.Class) && out[i+1]&1 == 0 && int(binary.LittleEndian.Uint32(out[i+4:])) == es && out[i+3] == 0 {
			if o.Type.Class == 0 && (out[i+2] != 0 || out[i+1]&^0x08 != 0) { // integers: only the sign bit may be set besides the order bit
				continue
			}
			if at >= 0 {
				return nil, fmt.Errorf("datatype message not unique")
			}
			at = i
		}
	}
	if at < 0 {
		return nil, fmt.Errorf("datatype message not found")
	}
	out[at+1] |= 1
	swap := func(a, n uint64) error {
		if a+n > uint64(len(out)) || n%uint64(es) != 0 {
			return fmt.Errorf("data region [%d,+%d) outside the image", a, n)
		}
		for p := a; p < a+n; p += uint64(es) {
			for i, j := p, p+uint64(es)-1; i < j; i, j = i+1, j-1 {
				out[i], out[j] = out[j], out[i]
			}
		}
		return nil
	}
	switch o.Layout {
	case "contiguous":
		n := uint64(es)
		for _, d := range o.Dims {
			n *= d
		}
		if err := swap(o.DataAddr, n); err != nil {
			return nil, err
		}
	case "chunked":
		for _, c := range o.Chunks {
			if err := swap(c.Addr, uint64(c.Size)); err != nil {
				return nil, err
			}
		}
	default:
		return nil, fmt.Errorf("layout %s", o.Layout)
	}
	return out, nil
}
