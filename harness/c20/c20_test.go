// Package c20 decides property C20 (FP8 / bfloat16 conversions) by enumeration against an
// independent exact-arithmetic oracle. See DESIGN.md section 5, C20.
package c20

import (
	"fmt"
	"math"
	"sort"
	"sync"
	"testing"

	"github.com/scigolib/hdf5/internal/core"
	"github.com/scigolib/hdf5/verif/vt"
)

const prop = "C20"

// ---- formats ---------------------------------------------------------------------------------

type format struct {
	name   string
	decode func(code uint8) float32
	encode func(f float32) uint8
	// derived from the decoder (the decoder defines the representable set)
	finite []float64 // sorted non-negative finite values
	codes  []uint8   // code of finite[i] with sign bit clear
	thresh float64   // values >= thresh overflow to infinity (IEEE: max + half an ulp, tie goes up because max is odd)
	infPos uint8
	err    string
}

func buildFormat(name string, dec func(uint8) float32, enc func(float32) uint8) *format {
	f := &format{name: name, decode: dec, encode: enc}
	type vc struct {
		v float64
		c uint8
	}
	var l []vc
	haveInf := false
	for c := 0; c < 128; c++ {
		v := float64(dec(uint8(c)))
		switch {
		case math.IsNaN(v):
		case math.IsInf(v, 1):
			if !haveInf {
				f.infPos = uint8(c)
				haveInf = true
			}
		case math.IsInf(v, -1) || v < 0 || (v == 0 && math.Signbit(v)):
			f.err = fmt.Sprintf("code %#02x (sign bit clear) decodes to negative %v", c, v)
		default:
			l = append(l, vc{v, uint8(c)})
		}
	}
	sort.SliceStable(l, func(i, j int) bool { return l[i].v < l[j].v })
	for i, x := range l {
		if i > 0 && x.v == l[i-1].v {
			f.err = fmt.Sprintf("codes %#02x and %#02x decode to the same value %v", l[i-1].c, x.c, x.v)
		}
		f.finite = append(f.finite, x.v)
		f.codes = append(f.codes, x.c)
	}
	if !haveInf {
		f.err = "no code decodes to +Inf"
	}
	n := len(f.finite)
	if n >= 2 {
		f.thresh = f.finite[n-1] + (f.finite[n-1]-f.finite[n-2])/2
	}
	return f
}

// refEncode is the oracle: nearest representable value, ties to the even code, IEEE overflow.
// ok=false means any NaN code is required.
func (f *format) refEncode(x float32) (code uint8, wantNaN bool) {
	if x != x {
		return 0, true
	}
	sign := uint8(0)
	if math.Signbit(float64(x)) {
		sign = 0x80
	}
	a := math.Abs(float64(x))
	if a >= f.thresh { // includes +Inf
		return sign | f.infPos, false
	}
	i := sort.SearchFloat64s(f.finite, a) // first index with finite[i] >= a
	if i < len(f.finite) && f.finite[i] == a {
		return sign | f.codes[i], false
	}
	if i == len(f.finite) { // between max finite and threshold
		return sign | f.codes[i-1], false
	}
	lo, hi := f.finite[i-1], f.finite[i] // i>=1 because finite[0]==0 <= a
	mid := (lo + hi) / 2                 // exact: both have <= 4 significant bits
	switch {
	case a < mid:
		return sign | f.codes[i-1], false
	case a > mid:
		return sign | f.codes[i], false
	default:
		if f.codes[i-1]&1 == 0 {
			return sign | f.codes[i-1], false
		}
		return sign | f.codes[i], false
	}
}

var formats = sync.OnceValue(func() []*format {
	// what a code decodes to does not depend on which codes were decoded before it: the first decodes of the process take the
	// negative codes, highest first (the format tables below are then built from the positive ones)
	for c := 255; c >= 128; c-- {
		_ = core.FP8E4M3(uint8(c)).ToFloat32()
		_ = core.FP8E5M2(uint8(c)).ToFloat32()
		_ = core.BFloat16(uint16(c) << 8).ToFloat32()
	}
	return []*format{
		buildFormat("e4m3", func(c uint8) float32 { return core.FP8E4M3(c).ToFloat32() },
			func(x float32) uint8 { return uint8(core.Float32ToFP8E4M3(x)) }),
		buildFormat("e5m2", func(c uint8) float32 { return core.FP8E5M2(c).ToFloat32() },
			func(x float32) uint8 { return uint8(core.Float32ToFP8E5M2(x)) }),
	}
})

// ---- one pattern -----------------------------------------------------------------------------

type Case struct {
	Format string `json:"format"` // e4m3 | e5m2 | bf16 | bf16-code | e4m3-code | e5m2-code
	Bits   uint32 `json:"bits"`   // float32 pattern, or the code for *-code cases
}

const kfNaN = "KF-C20-01"

func checkFP8(f *format, bits uint32) vt.Verdict {
	x := math.Float32frombits(bits)
	got := f.encode(x)
	want, wantNaN := f.refEncode(x)
	back := f.decode(got)
	if wantNaN {
		if back != back {
			return vt.Pass()
		}
		if got == 0x7F {
			return vt.KnownOr(kfNaN, "%s: NaN input %#08x encodes to 0x7F, which decodes to +Inf", f.name, bits)
		}
		return vt.Bad("%s: NaN input %#08x encodes to %#02x which decodes to the number %v", f.name, bits, got, back)
	}
	if got != want {
		kind := "not the nearest representable value (ties to even, overflow to infinity)"
		if back != back {
			kind = "number mapped to NaN"
		}
		return vt.Bad("%s: float32 %#08x (%g) encodes to %#02x (=%g), oracle says %#02x (=%g): %s",
			f.name, bits, x, got, back, want, f.decode(want), kind)
	}
	return vt.Pass()
}

func checkFP8Code(f *format, code uint8) vt.Verdict {
	v := f.decode(code)
	re := f.encode(v)
	if v != v {
		if r := f.decode(re); r != r {
			return vt.Pass()
		}
		if re == 0x7F {
			return vt.KnownOr(kfNaN, "%s: NaN code %#02x re-encodes to 0x7F (+Inf)", f.name, code)
		}
		return vt.Bad("%s: NaN code %#02x re-encodes to %#02x (a number)", f.name, code, re)
	}
	if re != code {
		return vt.Bad("%s: code %#02x -> float32 %g (bits %#08x) -> code %#02x", f.name, code, v, math.Float32bits(v), re)
	}
	// sign symmetry of the decoder
	if code&0x80 == 0 {
		n := f.decode(code | 0x80)
		if math.Float32bits(n) != math.Float32bits(v)|0x80000000 {
			return vt.Bad("%s: code %#02x decodes to %g but %#02x decodes to %g (not its negation)", f.name, code, v, code|0x80, n)
		}
	}
	return vt.Pass()
}

func refBF16(bits uint32) (code uint16, wantNaN bool) {
	if bits&0x7F800000 == 0x7F800000 && bits&0x007FFFFF != 0 {
		return 0, true
	}
	r := bits + 0x7FFF + ((bits >> 16) & 1)
	return uint16(r >> 16), false
}

func checkBF16(bits uint32) vt.Verdict {
	x := math.Float32frombits(bits)
	got := uint16(core.Float32ToBFloat16(x))
	want, wantNaN := refBF16(bits)
	if wantNaN {
		b := core.BFloat16(got).ToFloat32()
		if b != b {
			return vt.Pass()
		}
		return vt.Bad("bf16: NaN input %#08x encodes to %#04x which decodes to the number %v", bits, got, b)
	}
	if got != want {
		return vt.Bad("bf16: float32 %#08x (%g) encodes to %#04x (=%g), oracle says %#04x (=%g)", bits, x, got,
			core.BFloat16(got).ToFloat32(), want, math.Float32frombits(uint32(want)<<16))
	}
	return vt.Pass()
}

func checkBF16Code(code uint16) vt.Verdict {
	b := core.BFloat16(code)
	v := b.ToFloat32()
	if math.Float32bits(v) != uint32(code)<<16 {
		return vt.Bad("bf16: code %#04x decodes to bits %#08x, want %#08x", code, math.Float32bits(v), uint32(code)<<16)
	}
	re := uint16(core.Float32ToBFloat16(v))
	if v != v {
		if r := core.BFloat16(re).ToFloat32(); r == r {
			return vt.Bad("bf16: NaN code %#04x re-encodes to %#04x (a number)", code, re)
		}
	} else if re != code {
		return vt.Bad("bf16: code %#04x -> float32 -> code %#04x", code, re)
	}
	enc := b.Encode()
	if len(enc) != 2 || enc[0] != byte(code) || enc[1] != byte(code>>8) {
		return vt.Bad("bf16: Encode(%#04x) = %x, want little-endian 2 bytes", code, enc)
	}
	if d := core.DecodeBFloat16(enc); uint16(d) != code {
		return vt.Bad("bf16: Decode(Encode(%#04x)) = %#04x", code, uint16(d))
	}
	// encodings are collected element by element before they are used: a later Encode must leave an earlier result alone
	other := core.BFloat16(^code).Encode()
	if len(enc) != 2 || enc[0] != byte(code) || enc[1] != byte(code>>8) {
		return vt.Bad("bf16: the bytes returned by Encode(%#04x) changed to %x when %#04x was encoded afterwards", code, enc, ^code)
	}
	if d := core.DecodeBFloat16(other); uint16(d) != ^code {
		return vt.Bad("bf16: Decode(Encode(%#04x)) = %#04x", ^code, uint16(d))
	}
	return vt.Pass()
}

func runCase(c Case) vt.Verdict {
	fs := formats()
	for _, f := range fs {
		if f.err != "" {
			return vt.Bad("%s decoder: %s", f.name, f.err)
		}
	}
	switch c.Format {
	case "e4m3":
		return checkFP8(fs[0], c.Bits)
	case "e5m2":
		return checkFP8(fs[1], c.Bits)
	case "e4m3-code":
		return checkFP8Code(fs[0], uint8(c.Bits))
	case "e5m2-code":
		return checkFP8Code(fs[1], uint8(c.Bits))
	case "bf16":
		return checkBF16(c.Bits)
	case "bf16-code":
		return checkBF16Code(uint16(c.Bits))
	}
	return vt.Bad("unknown format %q", c.Format)
}

// ---- enumeration -----------------------------------------------------------------------------

type tally struct {
	n, nt      int64
	labels     map[string]int64
	viol       map[string]int
	knownCount int64
}

func newTally() *tally { return &tally{labels: map[string]int64{}, viol: map[string]int{}} }

func (tl *tally) handle(t *testing.T, c Case, v vt.Verdict) {
	switch v.Kind {
	case vt.Known:
		tl.knownCount++
		vt.Recorder(prop).KnownHit(v.ID, "FP8 encoders return 0x7F for NaN inputs, which both decoders read as +Inf (pinned by TestFP8E*_SpecialConversions)", c)
	case vt.Violation:
		tl.viol[c.Format]++
		if tl.viol[c.Format] <= 5 {
			p := vt.ReportViolation(prop, "pattern", c, v.Detail)
			t.Errorf("violation: %s (replay %s)", v.Detail, p)
		}
	}
}

// nontrivial: the pattern exercises rounding/special handling of the format (finite non-zero value whose
// magnitude is within a factor 4 of the format's finite range, or NaN/Inf).
func nontrivial(f *format, bits uint32) bool {
	x := math.Float32frombits(bits)
	if x != x || math.IsInf(float64(x), 0) {
		return true
	}
	a := math.Abs(float64(x))
	return a != 0 && a >= f.finite[1]/4 && a <= f.thresh*4
}

func sweep(t *testing.T, tl *tally, bits uint32, monoState *[3]monoSt) {
	fs := formats()
	for i, f := range fs {
		c := Case{Format: f.name, Bits: bits}
		v := checkFP8(f, bits)
		tl.n++
		if nontrivial(f, bits) {
			tl.nt++
		}
		if v.Kind != vt.OK {
			tl.handle(t, c, v)
		}
		_ = i
	}
	tl.n++
	tl.nt++ // every bfloat16 conversion of a pattern with non-zero low half rounds; count all as distinct cases
	if v := checkBF16(bits); v.Kind != vt.OK {
		tl.handle(t, Case{Format: "bf16", Bits: bits}, v)
	}
}

type monoSt struct {
	have bool
	last float32
	from uint32
}

// monotone checks, over an increasing run of positive finite patterns, that decode(encode(x)) never decreases.
func monotone(t *testing.T, tl *tally, lo, hi uint32, step uint32) {
	fs := formats()
	type enc struct {
		name string
		f    func(float32) float32
	}
	encs := []enc{
		{"e4m3", func(x float32) float32 { return fs[0].decode(fs[0].encode(x)) }},
		{"e5m2", func(x float32) float32 { return fs[1].decode(fs[1].encode(x)) }},
		{"bf16", func(x float32) float32 { return core.Float32ToBFloat16(x).ToFloat32() }},
	}
	for _, e := range encs {
		var last float32
		var lastBits uint32
		have := false
		for b := uint64(lo); b < uint64(hi); b += uint64(step) {
			bits := uint32(b)
			if bits > 0x7F800000 {
				break
			}
			y := e.f(math.Float32frombits(bits))
			if y != y {
				continue // reported by the pattern check
			}
			if have && y < last {
				tl.viol["mono-"+e.name]++
				if tl.viol["mono-"+e.name] <= 3 {
					c := Case{Format: e.name, Bits: bits}
					p := vt.ReportViolation(prop, "pattern", c, fmt.Sprintf("%s not monotone: f(%#08x)=%g > f(%#08x)=%g", e.name, lastBits, last, bits, y))
					t.Errorf("%s not monotone at %#08x (replay %s)", e.name, bits, p)
				}
			}
			last, lastBits, have = y, bits, true
		}
	}
}

func TestProp(t *testing.T) {
	vt.Run(t, prop, vt.Func[Case]{Name: "pattern", One: runCase, Body: body})
}

func body(t *testing.T) {
	e := vt.GetEnv()
	rec := vt.Recorder(prop)
	fs := formats()
	for _, f := range fs {
		if f.err != "" {
			p := vt.ReportViolation(prop, "pattern", Case{Format: f.name + "-code", Bits: 0}, "decoder: "+f.err)
			t.Fatalf("%s decoder: %s (replay %s)", f.name, f.err, p)
		}
	}
	tl := newTally()

	// (1) all codes — only in shard 0
	if e.Shard == 0 {
		for c := 0; c < 256; c++ {
			for i, f := range fs {
				cs := Case{Format: f.name + "-code", Bits: uint32(c)}
				v := checkFP8Code(fs[i], uint8(c))
				tl.n++
				tl.nt++
				if v.Kind != vt.OK {
					tl.handle(t, cs, v)
				}
			}
		}
		for c := 0; c < 65536; c++ {
			v := checkBF16Code(uint16(c))
			tl.n++
			tl.nt++
			if v.Kind != vt.OK {
				tl.handle(t, Case{Format: "bf16-code", Bits: uint32(c)}, v)
			}
		}
		rec.Sample("pattern", Case{Format: "e4m3-code", Bits: 0x80})
		rec.Sample("pattern", Case{Format: "bf16-code", Bits: 0x7F81})
	}

	if vt.Thorough() {
		// (2T) all 2^32 patterns, split into contiguous ranges per shard
		per := uint64(1<<32) / uint64(e.NShards)
		lo := per * uint64(e.Shard)
		hi := lo + per
		if e.Shard == e.NShards-1 {
			hi = 1 << 32
		}
		for b := lo; b < hi; b++ {
			sweep(t, tl, uint32(b), nil)
		}
		if lo < 0x7F800000 {
			l32 := uint32(lo)
			if l32 > 0 {
				l32-- // overlap one pattern with the previous shard so monotonicity is checked across the seam
			}
			h := hi
			if h > 0x7F800001 {
				h = 0x7F800001
			}
			monotone(t, tl, l32, uint32(h), 1)
		}
		rec.SetExhaustive("pattern", true)
		rec.Sample("pattern", Case{Format: "e4m3", Bits: uint32(lo) + 12345})
	} else {
		// (2Q) explicit boundary set + stratified sample
		seen := map[uint32]struct{}{}
		add := func(bits uint32) {
			if _, ok := seen[bits]; ok {
				return
			}
			seen[bits] = struct{}{}
			sweep(t, tl, bits, nil)
		}
		if e.Shard == 0 {
			around := func(v float64) {
				b := math.Float32bits(float32(v))
				for d := -3; d <= 3; d++ {
					add(uint32(int64(b) + int64(d)))
					add((uint32(int64(b) + int64(d))) | 0x80000000)
				}
			}
			for _, f := range fs {
				for i, v := range f.finite {
					around(v)
					if i > 0 {
						around((v + f.finite[i-1]) / 2)
					}
				}
				around(f.thresh)
				around(f.finite[1] / 2)
				around(f.finite[1] / 4)
			}
			// bfloat16 boundaries: ties, just above/below ties, exponent carries, NaN payloads, max finite
			for _, hi16 := range []uint32{0x0000, 0x0001, 0x007F, 0x0080, 0x3F80, 0x3F81, 0x7F7F, 0x7F80, 0x7F81, 0x7FBF, 0x7FC0, 0x7FFF, 0x00FF, 0x7EFF} {
				for _, lo16 := range []uint32{0, 1, 0x7FFF, 0x8000, 0x8001, 0xFFFF, 0xFFFE, 0x4000, 0xC000} {
					add(hi16<<16 | lo16)
					add(hi16<<16 | lo16 | 0x80000000)
				}
			}
			for ex := uint32(0); ex < 256; ex++ { // every float32 binade edge
				for _, m := range []uint32{0, 1, 0x7FFFFF, 0x400000, 0x3FFFFF, 0x400001} {
					add(ex<<23 | m)
					add(ex<<23 | m | 0x80000000)
				}
			}
		}
		// stratified sample: one pattern from each block of 256 (2^24 patterns per run, split over shards)
		const blocks = 1 << 24
		const bsize = 1 << 8
		off := uint32(vt.ShardSeed("strat") % bsize)
		for k := e.Shard; k < blocks; k += e.NShards {
			// vary the offset with k so the sample is not a fixed residue class
			o := (off + uint32(k)*2654435761>>20) % bsize
			add(uint32(k)*bsize + o)
		}
		// monotonicity over a coarse increasing sample of positive patterns plus dense runs around every FP8 value
		monotone(t, tl, 0, 0x7F800001, 4099)
		if e.Shard == 0 {
			for _, f := range fs {
				for _, v := range f.finite[1:] {
					b := math.Float32bits(float32(v))
					monotone(t, tl, b-64, b+64, 1)
				}
			}
		}
		rec.SetExhaustive("pattern", false)
		rec.Sample("pattern", Case{Format: "e5m2", Bits: 0x477FE000})
		rec.Sample("pattern", Case{Format: "bf16", Bits: 0x3F808000})
	}
	rec.Bulk("pattern", tl.n, tl.nt, map[string]int64{"known_nan_hits": tl.knownCount})
	rec.Note("representable sets derived from the decoders: e4m3 %d finite non-negative values (max %g, overflow threshold %g), e5m2 %d (max %g, threshold %g)",
		len(fs[0].finite), fs[0].finite[len(fs[0].finite)-1], fs[0].thresh, len(fs[1].finite), fs[1].finite[len(fs[1].finite)-1], fs[1].thresh)
}
