// Package c03 decides property C03: the group/link namespace after reopen equals the tree that was built.
package c03

import (
	"fmt"
	"github.com/scigolib/hdf5/verif/refimpl"
	"os"
	"path/filepath"
	"strings"
	"sync"
	"testing"

	"github.com/scigolib/hdf5/verif/hist"
	"github.com/scigolib/hdf5/verif/obs"
	"github.com/scigolib/hdf5/verif/vt"
	"pgregory.net/rapid"
)

const prop = "C03"
const (
	kfLinkObj = "KF-C03-01" // soft/external links stored as pseudo-objects, shown as empty groups
	kfDense   = "KF-C03-02" // dense groups reopen empty (reader never follows link-info storage)
)

var namePool = []string{"a", "b", "c", "d", "g", "x", "y", "data", "grp", "twelve_chars", strings.Repeat("n", 40), strings.Repeat("m", 60),
	strings.Repeat("L", 100), strings.Repeat("K", 130), "with space", "ünï", "0", "A"}

type Case struct {
	SB  int       `json:"sb"`
	Ops []hist.Op `json:"ops"`
}

// gen builds creation histories; it tracks the paths it believes exist so that parents, targets, duplicates
// and missing parents all arise, without needing library feedback.
func gen(t *rapid.T) Case {
	c := Case{SB: rapid.SampledFrom([]int{2, 2, 0, 3}).Draw(t, "sb")}
	groups := []string{"/"}
	objects := []string{} // datasets and groups (link targets)
	all := []string{}     // every created path (for duplicates)
	n := rapid.IntRange(1, vt.N(80, 200)).Draw(t, "nops")
	wide := rapid.IntRange(0, 5).Draw(t, "wide") == 0 // many children in one group (capacity 32 and beyond)
	nameGen := rapid.OneOf(rapid.IntRange(0, 7), rapid.IntRange(0, len(namePool)-1))
	join := func(parent, name string) string {
		if parent == "/" {
			return "/" + name
		}
		return parent + "/" + name
	}
	isGroup := map[string]bool{"/": true}
	groupLinks := 0
	if rapid.IntRange(0, 15).Draw(t, "deepChain") == 0 {
		// a chain of groups nested deeper than any ordinary tree, with a dataset at its end
		depth := rapid.IntRange(15, 40).Draw(t, "chainDepth")
		p := ""
		for k := 0; k < depth; k++ {
			p += fmt.Sprintf("/n%d", k%3)
			c.Ops = append(c.Ops, hist.Op{K: "group", Path: p})
			groups, objects, all = append(groups, p), append(objects, p), append(all, p)
			isGroup[p] = true
		}
		dp := p + "/leaf"
		c.Ops = append(c.Ops, hist.Op{K: "dataset", Path: dp, D: &hist.DSpec{Type: "i32", Dims: []uint64{2}}})
		objects, all = append(objects, dp), append(all, dp)
	}
	if rapid.IntRange(0, 15).Draw(t, "exactHeap") == 0 {
		// a group whose member names fill the group's name heap to the last byte (or to eight bytes short of it)
		shape := rapid.SampledFrom([][2]int{{8, 31}, {16, 15}, {32, 7}, {8, 30}, {31, 7}, {4, 63}, {2, 127}}).Draw(t, "heapShape")
		gp := "/full"
		c.Ops = append(c.Ops, hist.Op{K: "group", Path: gp})
		groups, objects, all = append(groups, gp), append(objects, gp), append(all, gp)
		isGroup[gp] = true
		for k := 0; k < shape[0]; k++ {
			name := fmt.Sprintf("%02d", k) + strings.Repeat("m", shape[1]-2)
			dp := gp + "/" + name
			c.Ops = append(c.Ops, hist.Op{K: "dataset", Path: dp, D: &hist.DSpec{Type: "u8", Dims: []uint64{1}}})
			objects, all = append(objects, dp), append(all, dp)
		}
	}
	kinds := []string{"group", "group", "group", "dataset", "dataset", "hard", "hard", "dup", "orphan"}
	if rapid.IntRange(0, 3).Draw(t, "withSoftExtDense") == 0 { // one case in four uses the link kinds that fall into open findings
		kinds = append(kinds, "soft", "ext", "densegroup")
	}
	for i := 0; i < n; i++ {
		kind := rapid.SampledFrom(kinds).Draw(t, "kind")
		parent := groups[rapid.IntRange(0, len(groups)-1).Draw(t, "parent")]
		if rapid.IntRange(0, 2).Draw(t, "deep") == 0 {
			parent = groups[len(groups)-1] // go deeper
		}
		var name string
		if wide {
			parent = groups[0]
			name = fmt.Sprintf("w%d", i)
		} else {
			name = namePool[nameGen.Draw(t, "name")]
			if rapid.Bool().Draw(t, "uniq") {
				name = fmt.Sprintf("%s%d", name, i%7)
			}
		}
		path := join(parent, name)
		depth := strings.Count(path, "/")
		var op hist.Op
		switch kind {
		case "group":
			op = hist.Op{K: "group", Path: path}
			isGroup[path] = true
			if depth <= 6 {
				groups = append(groups, path)
			}
			objects = append(objects, path)
		case "dataset":
			d := &hist.DSpec{Type: "i32", Dims: []uint64{2}}
			if rapid.IntRange(0, 7).Draw(t, "fat") == 0 {
				// a dataspace of high rank makes an object header that is nearly full from the start: what a later link to
				// the object adds to it may no longer fit
				d.Dims = nil
				for k, r := 0, rapid.IntRange(18, 30).Draw(t, "rank"); k < r; k++ {
					d.Dims = append(d.Dims, 1)
				}
			}
			op = hist.Op{K: "dataset", Path: path, D: d}
			objects = append(objects, path)
		case "hard":
			tgt := "/missing"
			switch r := rapid.IntRange(0, 9).Draw(t, "tgt"); {
			case len(objects) > 0 && r < 8:
				tgt = objects[rapid.IntRange(0, len(objects)-1).Draw(t, "tgtIdx")]
				if isGroup[tgt] {
					// every further name for a group multiplies the number of paths below it (for the model, for the library's
					// Walk and for the observation alike): a handful per history shows everything sharing can show
					if groupLinks >= 4 {
						tgt = "/missing"
						for _, o := range objects {
							if !isGroup[o] {
								tgt = o
								break
							}
						}
					} else {
						groupLinks++
					}
				}
			case r == 8 && parent != "/" && groupLinks < 4:
				groupLinks++
				tgt = parent // link to the own parent: an ancestor cycle
			case r == 9 && rapid.Bool().Draw(t, "toRoot"):
				tgt = "/" // the root group itself: refused
			}
			op = hist.Op{K: "hard", Path: path, Target: tgt}
		case "soft":
			tgt := "/nowhere/x"
			switch r := rapid.IntRange(0, 9).Draw(t, "softKind"); {
			case r == 0:
				tgt = "/" // the root group is a valid soft link target
			case r <= 5 && len(objects) > 0:
				tgt = objects[rapid.IntRange(0, len(objects)-1).Draw(t, "tgtIdx")]
			case r == 6:
				tgt = "/" + strings.Repeat("deep/", rapid.IntRange(1, 50).Draw(t, "softDepth")) + "x" // long dangling path
			}
			op = hist.Op{K: "soft", Path: path, Target: tgt}
		case "ext":
			op = hist.Op{K: "ext", Path: path, File: rapid.SampledFrom([]string{"other.h5", "dir/other.h5", "x.hdf5"}).Draw(t, "file"), Target: "/" + namePool[nameGen.Draw(t, "extobj")]}
		case "densegroup":
			var links [][2]string
			k := rapid.IntRange(0, 12).Draw(t, "nlinks")
			collide := rapid.IntRange(0, 3).Draw(t, "collidingLinkNames") == 0
			for j := 0; j < k && len(objects) > 0; j++ {
				tg := objects[rapid.IntRange(0, len(objects)-1).Draw(t, "tgtIdx")]
				if isGroup[tg] {
					if groupLinks >= 4 {
						continue
					}
					groupLinks++
				}
				lname := fmt.Sprintf("l%d", j)
				if collide && j < len(collidingNames()) {
					lname = collidingNames()[j] // pairs of different names with the same lookup3 hash
				}
				links = append(links, [2]string{lname, tg})
			}
			op = hist.Op{K: "densegroup", Path: path, Links: links}
		case "dup":
			if len(all) == 0 {
				op = hist.Op{K: "group", Path: path}
			} else {
				p := all[rapid.IntRange(0, len(all)-1).Draw(t, "dupIdx")]
				if rapid.Bool().Draw(t, "dupKind") {
					op = hist.Op{K: "group", Path: p}
				} else {
					op = hist.Op{K: "dataset", Path: p, D: &hist.DSpec{Type: "i32", Dims: []uint64{2}}}
				}
			}
		case "orphan":
			p := join(parent, "no_such_parent") + "/" + name
			if rapid.Bool().Draw(t, "orphanKind") {
				op = hist.Op{K: "group", Path: p}
			} else {
				op = hist.Op{K: "dataset", Path: p, D: &hist.DSpec{Type: "i32", Dims: []uint64{2}}}
			}
		}
		all = append(all, op.Path)
		c.Ops = append(c.Ops, op)
	}
	return c
}

func classify(c Case) (bool, []string) {
	depth, links, dups := 0, 0, 0
	seen := map[string]bool{}
	children := map[string]int{}
	for _, op := range c.Ops {
		if d := strings.Count(op.Path, "/"); d > depth {
			depth = d
		}
		switch op.K {
		case "hard", "soft", "ext", "densegroup":
			links++
		}
		if seen[op.Path] {
			dups++
		}
		seen[op.Path] = true
		i := strings.LastIndex(op.Path, "/")
		children[op.Path[:i+1]]++
	}
	maxc := 0
	for _, n := range children {
		if n > maxc {
			maxc = n
		}
	}
	labels := []string{fmt.Sprintf("sb=%d", c.SB)}
	if depth >= 3 {
		labels = append(labels, "depth>=3")
	}
	if links > 0 {
		labels = append(labels, "has_links")
	}
	if dups > 0 {
		labels = append(labels, "has_duplicate_request")
	}
	if maxc > 8 {
		labels = append(labels, "group>8_children")
	}
	if maxc > 32 {
		labels = append(labels, "group>32_children")
	}
	return depth >= 3 || links > 0 || dups > 0 || maxc > 8, labels
}

func run(c Case) vt.Verdict {
	file := filepath.Join(vt.GetEnv().Scratch, fmt.Sprintf("c03-%d.h5", os.Getpid()))
	defer os.Remove(file)
	ex, err := hist.NewExec(file, c.SB)
	if err != nil {
		return vt.Bad("CreateForWrite: %v", err)
	}
	defer ex.Close()
	ok, rejected := 0, 0
	for i, op := range c.Ops {
		st := ex.Apply(op)
		if st.Broken != "" {
			return vt.Bad("op %d %s %s: %s", i, op.K, op.Path, st.Broken)
		}
		if st.Err == "" {
			ok++
		} else {
			rejected++
		}
	}
	if err := ex.Close(); err != nil {
		return vt.Bad("Close: %v", err)
	}
	f := obs.Read(file, obs.Options{SkipData: true})
	ps := hist.Compare(ex.M, f, hist.Opts{SkipData: true})
	paths := ex.M.Paths()
	underDense := func(p string) bool {
		// p is (inside) a group created with CreateDenseGroup
		for q := p; q != "/" && q != ""; q = q[:strings.LastIndex(q, "/")] {
			if o := ex.M.Resolve(q); o != nil && o.Dense {
				return true
			}
			if strings.LastIndex(q, "/") <= 0 {
				break
			}
		}
		return false
	}
	var known *vt.Verdict
	for _, p := range ps {
		switch {
		case p.Kind == "link-as-object":
			v := vt.KnownOr(kfLinkObj, "%s", p)
			if v.Kind == vt.Violation {
				return v
			}
			known = &v
		case p.Kind == "group-extra" && paths[p.Path] != nil && paths[p.Path].Kind != "hard":
			v := vt.KnownOr(kfLinkObj, "%s", p)
			if v.Kind == vt.Violation {
				return v
			}
			known = &v
		case (p.Kind == "child-missing" || p.Kind == "dataset-missing" || p.Kind == "group-missing" || p.Kind == "link-invisible") && underDense(p.Path):
			v := vt.KnownOr(kfDense, "%s", p)
			if v.Kind == vt.Violation {
				return v
			}
			known = &v
		default:
			return vt.Bad("%d problem(s) after reopen, first unexplained: %s (%d ops ok, %d rejected)", len(ps), p, ok, rejected)
		}
	}
	// Link values and object identity are not visible through the public read API: the independent decoder
	// checks that every soft/external link holds the written target, that all paths of a hard-linked object
	// resolve to one header address, and that no group stores a name twice.
	if data, err := os.ReadFile(file); err == nil {
		res := hist.CompareIndep(ex.M, data)
		// A hard-link request aimed at a soft/external link touches the link's pseudo object header (reference
		// count message) and is stored as a hard link to that pseudo object: consequence of KF-C03-01.
		aimedAtLink := false
		for _, op := range c.Ops {
			if op.K == "hard" {
				if l := paths[op.Target]; l != nil && l.Kind != "hard" {
					aimedAtLink = true
				}
			}
			for _, dl := range op.Links {
				if l := paths[dl[1]]; l != nil && l.Kind != "hard" {
					aimedAtLink = true
				}
			}
		}
		if res.DecodeErr != "" {
			if aimedAtLink && (strings.Contains(res.DecodeErr, "link/group info messages without a link info message") || strings.Contains(res.DecodeErr, "link pseudo-object")) {
				return vt.KnownOr(kfLinkObj, "independent decoder: %s", res.DecodeErr)
			}
			return vt.Bad("independent decoder cannot decode the written file: %s", res.DecodeErr)
		}
		for _, e := range res.Extents {
			return vt.Bad("structure placement: %s", e)
		}
		for _, p := range res.Problems {
			if p.Kind == "indep-refcount" {
				continue // reference counts are C05's concern (KF-C05-refcount)
			}
			if p.Kind == "indep-link-value" && (underDense(p.Path) || (aimedAtLink && strings.Contains(p.Detail, "stored as hard"))) {
				// a dense group's link to a soft/external link's pseudo object (KF-C03-01) is a hard link record
				v := vt.KnownOr(kfLinkObj, "%s", p)
				if v.Kind == vt.Violation {
					return v
				}
				known = &v
				continue
			}
			return vt.Bad("independent decoder disagrees with the tree that was built: %s", p)
		}
	}
	if known != nil {
		return *known
	}
	return vt.Pass()
}

// collidingNames: two pairs of different names whose lookup3 hashes are equal (the name index of a dense group keys on it).
var collidingNames = sync.OnceValue(func() []string {
	var n []string
	first := map[uint32]string{}
	for i := 0; i < 600000 && len(n) < 4; i++ {
		s := fmt.Sprintf("link%06d", i)
		h := refimpl.Lookup3([]byte(s), 0)
		if o, ok := first[h]; ok {
			n = append(n, o, s)
		} else {
			first[h] = s
		}
	}
	return n
})

func TestProp(t *testing.T) {
	vt.Run(t, prop, vt.Sub[Case]{Prop: prop, Name: "namespace", Gen: gen, Run: run, Classify: classify}.WithBudget(3000, 12000))
}
