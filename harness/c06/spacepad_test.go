package c06

// spacepad: fixed-length strings padded with blanks (the Fortran convention; the bundled corpus has only left-justified
// ones). The library writes a NUL-padded string dataset; the harness turns it into the space-padded form a Fortran writer
// stores (padding field of the datatype message = 2, NUL padding bytes replaced by blanks). Reading it back
// gives every value with the trailing padding blanks removed - and nothing else: leading blanks and a trailing tab or
// newline belong to the value.

import (
	"encoding/binary"
	"fmt"
	"os"
	"path/filepath"
	"strings"
	"testing"

	hdf5 "github.com/scigolib/hdf5"
	"github.com/scigolib/hdf5/verif/indep"
	"github.com/scigolib/hdf5/verif/vt"
)

const subPad = "spacepad"

type PadCase struct {
	Width  int      `json:"width"`
	Values []string `json:"values"`
}

func padCases() []PadCase {
	return []PadCase{
		{8, []string{"ab", "  ab", "ab\t", "a b", "\tab", "", "abcdefgh", " x \n"}},
		{5, []string{"  12", "   1", "1", "12345", " \t"}},
		{12, []string{"right  just", "   right", "tab\t", "nl\n", "cr\r"}},
	}
}

func runPad(c PadCase) vt.Verdict {
	if c.Width < 1 || c.Width > 64 || len(c.Values) == 0 {
		return vt.Skipped("outside the domain")
	}
	file := filepath.Join(vt.GetEnv().Scratch, fmt.Sprintf("c06-pad-%d.h5", os.Getpid()))
	defer os.Remove(file)
	fw, err := hdf5.CreateForWrite(file, hdf5.CreateTruncate)
	if err != nil {
		return vt.Bad("CreateForWrite: %v", err)
	}
	ds, err := fw.CreateDataset("/s", hdf5.String, []uint64{uint64(len(c.Values))}, hdf5.WithStringSize(uint32(c.Width)))
	if err != nil {
		fw.Close()
		return vt.Bad("CreateDataset: %v", err)
	}
	if err := ds.Write(append([]string{}, c.Values...)); err != nil {
		fw.Close()
		return vt.Bad("Write: %v", err)
	}
	if err := fw.Close(); err != nil {
		return vt.Bad("Close: %v", err)
	}
	img, err := os.ReadFile(file)
	if err != nil {
		return vt.Bad("read back: %v", err)
	}
	ref, derr := indep.Decode(img, indep.TolerateAll())
	if ref == nil || (derr != nil && !indep.IsUnsupported(derr)) {
		return vt.Skipped("independent decoder: %v", derr)
	}
	o := ref.Lookup("/s")
	if o == nil || o.Layout != "contiguous" || o.Type == nil || o.Type.Class != 3 || int(o.Type.Size) != c.Width {
		return vt.Skipped("dataset /s not found as a contiguous fixed-string dataset")
	}
	// datatype message: class 3 version 1, padding in the low nibble of the first bit-field byte (0 null-terminated,
	// 1 null-padded, 2 space-padded)
	at := -1
	for i := int(o.Addr); i+8 <= int(o.Addr)+1024 && i+8 <= len(img); i++ {
		if img[i] == 0x13 && img[i+2] == 0 && img[i+3] == 0 && int(binary.LittleEndian.Uint32(img[i+4:])) == c.Width && img[i+1]&0x0F <= 1 {
			if at >= 0 {
				return vt.Skipped("datatype message not unique")
			}
			at = i
		}
	}
	if at < 0 {
		return vt.Skipped("datatype message not found")
	}
	img[at+1] = img[at+1]&0xF0 | 2
	want := make([]string, len(c.Values))
	for k, v := range c.Values {
		b := []byte(v)
		if len(b) > c.Width {
			b = b[:c.Width]
		}
		el := img[int(o.DataAddr)+k*c.Width : int(o.DataAddr)+(k+1)*c.Width]
		for j := range el {
			if j < len(b) {
				el[j] = b[j]
			} else {
				el[j] = ' '
			}
		}
		want[k] = strings.TrimRight(string(b), " ") // padding and trailing blanks of the value are indistinguishable
	}
	if err := os.WriteFile(file, img, 0o644); err != nil {
		return vt.Bad("write back: %v", err)
	}
	f, err := hdf5.Open(file)
	if err != nil {
		return vt.Bad("Open of the space-padded file: %v", err)
	}
	defer f.Close()
	var got []string
	var rerr error
	found := false
	f.Walk(func(p string, obj hdf5.Object) {
		if d, ok := obj.(*hdf5.Dataset); ok && p == "/s" {
			found = true
			got, rerr = d.ReadStrings()
		}
	})
	if !found || rerr != nil {
		return vt.Bad("ReadStrings of the space-padded dataset: found=%v err=%v", found, rerr)
	}
	if len(got) != len(want) {
		return vt.Bad("ReadStrings returned %d strings, stored %d", len(got), len(want))
	}
	for k := range want {
		if got[k] != want[k] {
			return vt.Bad("space-padded string %d (width %d): stored %q, read %q", k, c.Width, want[k], got[k])
		}
	}
	return vt.Pass()
}

func padBody(t *testing.T) {
	rec := vt.Recorder(prop)
	if vt.GetEnv().Shard != 0 {
		return
	}
	for _, c := range padCases() {
		vt.Current(prop, subPad, c)
		v := vt.SafeRun(runPad, c)
		rec.Case(subPad, c, v.Kind != vt.Skip)
		if v.Kind == vt.Skip {
			rec.Label(subPad, "skipped:"+v.Detail, 1)
		}
		if v.Kind == vt.Violation {
			p := vt.ReportViolation(prop, subPad, c, v.Detail)
			t.Errorf("%s (replay %s)", v.Detail, p)
		}
	}
	rec.SetExhaustive(subPad, true)
}
