package c06

import (
	"encoding/json"
	"fmt"
	"os"
	"sort"
	"testing"
)

// TestDevDump prints every mismatch as JSON (development aid; not run by ./check which selects ^TestProp$).
func TestDevDump(t *testing.T) {
	if os.Getenv("C06_DEV") == "" {
		t.Skip()
	}
	devLog = true
	c := loadCorpus()
	reasons := map[string][]string{}
	skips := map[string]int{}
	for _, name := range c.ddls {
		d := classifyDDL(name)
		if d.reason != "" {
			reasons[d.reason] = append(reasons[d.reason], name)
			continue
		}
		results, crashed := runDDL(d)
		if crashed != "" {
			fmt.Println("CRASH", name, crashed)
		}
		for _, r := range results {
			if r.openErr != "" {
				fmt.Println("OPENERR", name, d.file, r.openErr)
			}
			for _, l := range r.skipLog {
				fmt.Println("SKIPAT", l)
			}
			for k, v := range r.skips {
				skips[k] += v
			}
			for _, m := range r.mism {
				b, _ := json.Marshal(m)
				fmt.Println("MISMATCH", string(b))
			}
			fmt.Println("OBJS", name, len(r.objs), "compared", r.compared)
		}
	}
	for k, v := range reasons {
		fmt.Println("REASON", k, len(v))
		if k == "not-understood" {
			fmt.Println("   ", v)
		}
	}
	var ks []string
	for k := range skips {
		ks = append(ks, k)
	}
	sort.Strings(ks)
	for _, k := range ks {
		fmt.Println("SKIP", k, skips[k])
	}
}
