package c06

import (
	"fmt"
	"math"
	"reflect"
	"regexp"
	"runtime/debug"
	"sort"
	"strconv"
	"strings"

	"github.com/scigolib/hdf5"
	"github.com/scigolib/hdf5/internal/core"
)

// Mismatch is one disagreement between the reader and the reference report.
// (File, Path, Aspect) is the triple used by the known-finding lists; Kind is the failure kind.
type Mismatch struct {
	File   string `json:"file"`
	Path   string `json:"path"`
	Aspect string `json:"aspect"`
	Kind   string `json:"kind"`
	Detail string `json:"detail,omitempty"`
	DDL    string `json:"ddl,omitempty"`
}

// ObjCase is one compared object (the evidence unit).
type ObjCase struct {
	Path       string
	Kind       string
	Nontrivial bool
	Labels     []string
}

type result struct {
	mism     []Mismatch
	objs     []ObjCase
	skips    map[string]int // aspect-level skips by reason
	openErr  string
	compared int // compared aspects
	skipLog  []string
}

func (r *result) skip(reason string) { r.skips[reason]++ }

// skipAt is skip with the object recorded (development listing only).
func (c *cmp) skipAt(path, reason string) {
	c.res.skips[reason]++
	if devLog {
		c.res.skipLog = append(c.res.skipLog, c.ddl+" "+path+" "+reason)
	}
}

var devLog = false

type cmp struct {
	f    *hdf5.File
	file string
	ddl  string
	ix   *Index
	res  *result
	// attrsPrinted: the DDL block shows at least one ATTRIBUTE, i.e. the dump options did not suppress them
	attrsPrinted bool
}

func (c *cmp) add(path, aspect, kind, format string, a ...any) {
	d := fmt.Sprintf(format, a...)
	if len(d) > 400 {
		d = d[:400] + "..."
	}
	c.res.mism = append(c.res.mism, Mismatch{File: c.file, Path: path, Aspect: aspect, Kind: kind, Detail: d, DDL: c.ddl})
}

func asStringMap(v any) (map[string]any, bool) {
	switch x := v.(type) {
	case core.CompoundValue:
		return x, true
	case map[string]any:
		return x, true
	}
	return nil, false
}

// safely runs fn and converts a panic of the library into an error string.
func safely(fn func()) (panicked string) {
	defer func() {
		if r := recover(); r != nil {
			st := string(debug.Stack())
			if len(st) > 1200 {
				st = st[:1200]
			}
			panicked = fmt.Sprintf("%v | %s", r, strings.ReplaceAll(st, "\n", " | "))
		}
	}()
	fn()
	return ""
}

var anonRE = regexp.MustCompile(`^#\d+$`)

func libKind(o hdf5.Object) string {
	switch o.(type) {
	case *hdf5.Group:
		return "group"
	case *hdf5.Dataset:
		return "dataset"
	case *hdf5.NamedDatatype:
		return "datatype"
	}
	return fmt.Sprintf("%T", o)
}

// groupAddress reads the unexported header address of a group - used for evidence labels only.
func groupAddress(g *hdf5.Group) uint64 {
	defer func() { _ = recover() }()
	v := reflect.ValueOf(g).Elem().FieldByName("address")
	if v.IsValid() && v.Kind() == reflect.Uint64 {
		return v.Uint()
	}
	return 0
}

func (c *cmp) header(addr uint64) *core.ObjectHeader {
	if addr == 0 {
		return nil
	}
	var h *core.ObjectHeader
	if p := safely(func() {
		hh, err := core.ReadObjectHeader(c.f.Reader(), addr, c.f.Superblock())
		if err == nil {
			h = hh
		}
	}); p != "" {
		return nil
	}
	return h
}

func hasMsg(h *core.ObjectHeader, t core.MessageType) bool {
	for _, m := range h.Messages {
		if m.Type == t {
			return true
		}
	}
	return false
}

func (c *cmp) groupLabels(g *hdf5.Group) []string {
	labels := []string{"kind:group"}
	h := c.header(groupAddress(g))
	if h == nil {
		return append(labels, "hdr:unknown", "storage:unknown")
	}
	labels = append(labels, fmt.Sprintf("hdr:v%d", h.Version))
	switch {
	case hasMsg(h, core.MsgLinkMessage):
		labels = append(labels, "storage:link-messages")
	case hasMsg(h, core.MsgSymbolTable):
		labels = append(labels, "storage:symbol-table")
	case hasMsg(h, core.MsgLinkInfo):
		dense := false
		for _, m := range h.Messages {
			if m.Type == core.MsgLinkInfo {
				_ = safely(func() {
					li, err := core.ParseLinkInfoMessage(m.Data, c.f.Superblock())
					if err == nil && li.HasFractalHeap() {
						dense = true
					}
				})
			}
		}
		if dense {
			labels = append(labels, "storage:dense")
		} else {
			labels = append(labels, "storage:link-info-empty")
		}
	default:
		labels = append(labels, "storage:none")
	}
	return labels
}

// ---------------------------------------------------------------------------------------------

// compareBlock compares one HDF5 "<file>" { ... } block with the opened file.
func (c *cmp) compareBlock(b *Block) {
	root := c.f.Root()
	for _, top := range b.Top {
		path := top.Path
		if path == "/" {
			if top.Kind == "group" {
				c.compareGroup(top, root, "/", map[*Node]bool{})
			}
			continue
		}
		// single-object dump: navigate from the root through Children()
		obj, missAt, missName := c.lookup(root, path)
		if obj == nil {
			if top.Kind == "group" || top.Kind == "dataset" {
				// an empty block is what h5dump prints (next to an error on stderr) for a path that does not
				// exist, e.g. tgroup-2.ddl GROUP "/y": only blocks with content prove that the object exists
				empty := top.Type == nil && top.Space == nil && len(top.Children) == 0 && len(top.Attrs) == 0 && top.Hardlink == ""
				if empty {
					c.res.skip("toplevel-empty-block")
				} else if missAt != "" {
					c.add(missAt, "member:"+missName, "member-missing:"+top.KindAt(path, missAt, missName),
						"h5dump dumps %s %q but Children() of %q has no member %q", top.Kind, path, missAt, missName)
				}
			} else {
				c.res.skip("toplevel-" + top.Kind + "-not-navigable")
			}
			continue
		}
		c.compareObject(top, obj, path, map[*Node]bool{})
	}
	for range b.TopAttrs {
		// -a dumps print only the attribute name ("attr4", or "/attr1" for an attribute literally named
		// "/attr1"): the owning object is not identified by the DDL, so these blocks are not compared
		c.res.skip("toplevel-attribute(owner-not-identified)")
	}
}

// KindAt names what is missing: the object itself when the last path component is missing, otherwise a group.
func (n *Node) KindAt(full, at, name string) string {
	if joinPath(at, name) == full {
		return n.Kind
	}
	return "group"
}

// lookup resolves an absolute path through Group.Children. On failure it returns the deepest group reached
// and the missing component.
func (c *cmp) lookup(root *hdf5.Group, path string) (obj hdf5.Object, missAt, missName string) {
	if path == "/" {
		return root, "", ""
	}
	parts := strings.Split(strings.Trim(path, "/"), "/")
	cur := root
	curPath := "/"
	for i, p := range parts {
		var next hdf5.Object
		for _, ch := range cur.Children() {
			if ch.Name() == p {
				next = ch
				break
			}
		}
		if next == nil {
			return nil, curPath, p
		}
		if i == len(parts)-1 {
			return next, "", ""
		}
		g, ok := next.(*hdf5.Group)
		if !ok {
			return nil, "", "" // path runs through a non-group (names with '/', ...): not understood
		}
		cur = g
		curPath = joinPath(curPath, p)
	}
	return nil, "", ""
}

func (c *cmp) compareObject(n *Node, obj hdf5.Object, path string, onPath map[*Node]bool) {
	switch o := obj.(type) {
	case *hdf5.Group:
		if n.Kind == "group" {
			c.compareGroup(n, o, path, onPath)
		}
	case *hdf5.Dataset:
		if n.Kind == "dataset" {
			c.compareDataset(n, o, path)
		}
	case *hdf5.NamedDatatype:
		if n.Kind == "datatype" {
			c.compareNamedType(n, o, path)
		}
	}
}

func (c *cmp) compareGroup(n *Node, g *hdf5.Group, path string, onPath map[*Node]bool) {
	src := n
	viaHardlink := false
	for hop := 0; src.Hardlink != "" && hop < 8; hop++ {
		t := c.ix.ByPath[src.Hardlink]
		if t == nil || t.Kind != "group" {
			c.res.skip("hardlink-target-not-in-ddl")
			return
		}
		src = t
		viaHardlink = true
	}
	if src.Hardlink != "" {
		return
	}
	oc := ObjCase{Path: path, Kind: "group", Labels: c.groupLabels(g)}

	// membership
	exp := map[string]*Node{}
	var expOrder []string
	for _, ch := range src.Children {
		if ch.Kind == "datatype" && anonRE.MatchString(ch.Name) {
			c.res.skip("anonymous-committed-datatype")
			continue
		}
		if _, dup := exp[ch.Name]; dup {
			c.res.skip("duplicate-name-in-ddl")
			continue
		}
		exp[ch.Name] = ch
		expOrder = append(expOrder, ch.Name)
	}
	var kids []hdf5.Object
	if p := safely(func() { kids = g.Children() }); p != "" {
		c.add(path, "members", "panic", "Children(): %s", p)
		return
	}
	got := map[string]hdf5.Object{}
	for _, k := range kids {
		if _, dup := got[k.Name()]; dup {
			c.add(path, "member:"+k.Name(), "member-duplicate", "Children() lists %q twice", k.Name())
			continue
		}
		got[k.Name()] = k
	}
	c.res.compared++
	for _, name := range expOrder {
		ch := exp[name]
		k, ok := got[name]
		if !ok {
			c.add(path, "member:"+name, "member-missing:"+ch.Kind, "h5dump lists %s %q in group %q; Children() returns %d members without it and no error",
				ch.Kind, name, path, len(kids))
			continue
		}
		switch ch.Kind {
		case "group", "dataset", "datatype":
			if lk := libKind(k); lk != ch.Kind {
				c.add(path, "member:"+name, "member-kind", "h5dump: %s, reader: %s", ch.Kind, lk)
			}
		}
	}
	if !src.Partial {
		var extra []string
		for name := range got {
			if _, ok := exp[name]; !ok {
				extra = append(extra, name)
			}
		}
		sort.Strings(extra)
		for _, name := range extra {
			c.add(path, "member:"+name, "member-extra", "Children() of %q has %s %q which h5dump does not list", path, libKind(got[name]), name)
		}
	} else {
		c.res.skip("group-partially-understood")
	}

	// attributes
	nattr := c.compareAttrs(src, g, path)
	oc.Nontrivial = nattr > 0
	c.res.objs = append(c.res.objs, oc)

	// recursion (never through a HARDLINK block, never into a node already on the current path)
	if viaHardlink || onPath[src] {
		return
	}
	onPath[src] = true
	defer delete(onPath, src)
	for _, name := range expOrder {
		ch := exp[name]
		k, ok := got[name]
		if !ok {
			continue
		}
		c.compareObject(ch, k, joinPath(path, name), onPath)
	}
}

func (c *cmp) compareNamedType(n *Node, o *hdf5.NamedDatatype, path string) {
	src := n
	for hop := 0; src.Hardlink != "" && hop < 8; hop++ {
		t := c.ix.ByPath[src.Hardlink]
		if t == nil || t.Kind != "datatype" {
			c.res.skip("hardlink-target-not-in-ddl")
			return
		}
		src = t
	}
	oc := ObjCase{Path: path, Kind: "datatype", Labels: []string{"kind:datatype"}}
	var dt *core.DatatypeMessage
	_ = safely(func() { dt = o.Datatype() })
	if dt != nil && src.Type != nil {
		c.compareType(src.Type, dt, path, "type")
	}
	c.res.objs = append(c.res.objs, oc)
}

// ---------------------------------------------------------------------------------------------
// datatype / dataspace

var classOf = map[string]core.DatatypeClass{
	"int": core.DatatypeFixed, "float": core.DatatypeFloat, "string": core.DatatypeString, "bitfield": core.DatatypeBitfield,
	"opaque": core.DatatypeOpaque, "compound": core.DatatypeCompound, "reference": core.DatatypeReference, "enum": core.DatatypeEnum,
	"vlstring": core.DatatypeVarLen, "vlen": core.DatatypeVarLen, "array": core.DatatypeArray, "complex": core.DatatypeComplex,
}

func (c *cmp) compareType(want *DType, got *core.DatatypeMessage, path, aspect string) {
	t := c.ix.ResolveType(want)
	cl, ok := classOf[t.Kind]
	if !ok {
		c.skipAt(path, "type-not-understood:"+t.Text)
		return
	}
	c.res.compared++
	if got.Class != cl {
		c.add(path, aspect, "type-class", "h5dump: %s (class %d), reader reports class %d size %d", t.Text, cl, got.Class, got.Size)
		return
	}
	switch t.Kind {
	case "int", "float", "bitfield", "string", "enum", "complex":
		if t.Size > 0 && int(got.Size) != t.Size {
			c.add(path, aspect, "type-size", "h5dump: %s (%d bytes), reader reports %d bytes", t.Text, t.Size, got.Size)
			return
		}
	}
	switch t.Kind {
	case "int", "float", "bitfield":
		if (got.ClassBitField&1 != 0) != t.BE {
			c.add(path, aspect, "type-order", "h5dump: %s, reader reports big-endian=%v", t.Text, got.ClassBitField&1 != 0)
			return
		}
	}
	if t.Kind == "int" {
		if (got.ClassBitField&0x08 != 0) != t.Signed {
			c.add(path, aspect, "type-sign", "h5dump: %s, reader reports signed=%v", t.Text, got.ClassBitField&0x08 != 0)
		}
	}
}

func dimsEqual(a, b []uint64) bool {
	if len(a) != len(b) {
		return false
	}
	for i := range a {
		if a[i] != b[i] {
			return false
		}
	}
	return true
}

func (c *cmp) compareSpace(want *Space, got *core.DataspaceMessage, path, aspect string) {
	if want == nil || want.Kind == "unknown" {
		c.res.skip("space-not-understood")
		return
	}
	c.res.compared++
	switch want.Kind {
	case "scalar":
		if got.Type != core.DataspaceScalar {
			c.add(path, aspect, "space", "h5dump: SCALAR, reader reports type %d dims %v", got.Type, got.Dimensions)
		}
	case "null":
		if got.Type != core.DataspaceNull {
			c.add(path, aspect, "space", "h5dump: NULL dataspace, reader reports type %d dims %v (%d elements)", got.Type, got.Dimensions, got.TotalElements())
		}
	case "simple":
		if got.Type != core.DataspaceSimple || !dimsEqual(got.Dimensions, want.Dims) {
			c.add(path, aspect, "space", "h5dump: dims %v, reader reports type %d dims %v", want.Dims, got.Type, got.Dimensions)
			return
		}
		mx := got.MaxDims
		if mx == nil {
			mx = got.Dimensions
		}
		if !dimsEqual(mx, want.Max) {
			c.add(path, aspect, "maxdims", "h5dump: max dims %v, reader reports %v", want.Max, got.MaxDims)
		}
	}
}

// ---------------------------------------------------------------------------------------------
// attributes

type attrHolder interface {
	Attributes() ([]*core.Attribute, error)
}

func (c *cmp) libAttrs(obj hdf5.Object, path string) ([]*core.Attribute, bool) {
	h, ok := obj.(attrHolder)
	if !ok {
		return nil, false
	}
	var attrs []*core.Attribute
	var err error
	if p := safely(func() { attrs, err = h.Attributes() }); p != "" {
		c.add(path, "attrs", "panic", "Attributes(): %s", p)
		return nil, false
	}
	if err != nil {
		c.res.skip("attributes-error(allowed)")
		return nil, false
	}
	return attrs, true
}

// compareAttrs returns the number of attributes compared.
func (c *cmp) compareAttrs(n *Node, obj hdf5.Object, path string) int {
	if len(n.Attrs) == 0 && !c.attrsPrinted {
		return 0
	}
	attrs, ok := c.libAttrs(obj, path)
	if !ok {
		return 0
	}
	exp := map[string]bool{}
	cnt := 0
	for _, a := range n.Attrs {
		if exp[a.Name] {
			c.res.skip("duplicate-attribute-in-ddl")
			continue
		}
		exp[a.Name] = true
		if c.compareOneAttr(a, attrs, path) {
			cnt++
		}
	}
	if c.attrsPrinted && !n.Partial {
		seen := map[string]bool{}
		for _, la := range attrs {
			if !exp[la.Name] && !seen[la.Name] {
				seen[la.Name] = true
				c.add(path, "attr:"+la.Name, "attr-extra", "Attributes() returns %q which h5dump does not list", la.Name)
			}
		}
	}
	return cnt
}

func (c *cmp) compareOneAttr(a *Attr, attrs []*core.Attribute, path string) bool {
	var la *core.Attribute
	n := 0
	for _, x := range attrs {
		if x != nil && x.Name == a.Name {
			if la == nil {
				la = x
			}
			n++
		}
	}
	c.res.compared++
	if la == nil {
		c.add(path, "attr:"+a.Name, "attr-missing", "h5dump lists attribute %q; Attributes() returns %d attributes without it and no error", a.Name, len(attrs))
		return false
	}
	if n > 1 {
		c.add(path, "attr:"+a.Name, "attr-duplicate", "Attributes() lists %q %d times", a.Name, n)
	}
	asp := "attr:" + a.Name
	if la.Datatype != nil && a.Type != nil {
		c.compareType(a.Type, la.Datatype, path, asp+":type")
	}
	if la.Dataspace != nil && a.Space != nil {
		c.compareSpace(a.Space, la.Dataspace, path, asp+":space")
	}
	// value
	var v any
	var err error
	if p := safely(func() { v, err = la.ReadValue() }); p != "" {
		c.add(path, asp+":value", "panic", "ReadValue(): %s", p)
		return true
	}
	if err != nil {
		c.res.skip("attr-ReadValue-error(allowed)")
		return true
	}
	want, why := usableData(a.Data, a.Space)
	if want == nil {
		c.skipAt(path+"@"+a.Name, "attr-data-"+why)
		return true
	}
	flat, ok := flattenLib(v)
	if !ok {
		c.res.skip("attr-value-go-type-unknown")
		return true
	}
	t := c.ix.ResolveType(a.Type)
	switch t.Kind {
	case "int", "float", "string", "vlstring":
	default:
		c.res.skip("attr-value-type-" + t.Kind)
		return true
	}
	d, cerr := compareSeq(flat, want, t, c.ix)
	if cerr != nil {
		c.skipAt(path+"@"+a.Name, "attr-data-not-understood")
		return true
	}
	c.res.compared++
	c.res.skips["+values-compared:Attribute.ReadValue"]++
	if d != nil {
		c.add(path, asp+":value", d.kind, "ReadValue(): %s", d.detail)
	}
	return true
}

// usableData returns the expected values if the DATA block is understood and complete.
func usableData(d *Data, sp *Space) ([]*Val, string) {
	if d == nil {
		return nil, "absent"
	}
	if !d.Understood {
		return nil, "not-understood"
	}
	n := sp.Count()
	if n < 0 {
		return nil, "space-unknown"
	}
	if int64(len(d.Vals)) != n {
		return nil, "incomplete" // -o/-b output, subsets, line-wrapped constructs
	}
	if d.Vals == nil {
		return []*Val{}, ""
	}
	return d.Vals, ""
}

// ---------------------------------------------------------------------------------------------
// datasets

func (c *cmp) compareDataset(n *Node, ds *hdf5.Dataset, path string) {
	src := n
	for hop := 0; src.Hardlink != "" && hop < 8; hop++ {
		t := c.ix.ByPath[src.Hardlink]
		if t == nil || t.Kind != "dataset" {
			c.res.skip("hardlink-target-not-in-ddl")
			return
		}
		src = t
	}
	if src.Hardlink != "" {
		return
	}
	oc := ObjCase{Path: path, Kind: "dataset", Labels: []string{"kind:dataset"}}
	arrays := 0

	var info *core.DatasetInfo
	if h := c.header(ds.Address()); h != nil {
		oc.Labels = append(oc.Labels, fmt.Sprintf("hdr:v%d", h.Version))
		if hasMsg(h, core.MsgFilterPipeline) {
			oc.Labels = append(oc.Labels, "filters:yes")
		} else {
			oc.Labels = append(oc.Labels, "filters:no")
		}
		if p := safely(func() {
			i, err := core.ReadDatasetInfo(h, c.f.Superblock())
			if err == nil {
				info = i
			}
		}); p != "" {
			c.add(path, "info", "panic", "ReadDatasetInfo: %s", p)
		}
	} else {
		oc.Labels = append(oc.Labels, "hdr:unreadable")
	}
	if info != nil {
		switch {
		case info.Layout.IsCompact():
			oc.Labels = append(oc.Labels, "layout:compact")
		case info.Layout.IsContiguous():
			oc.Labels = append(oc.Labels, "layout:contiguous")
		case info.Layout.IsChunked():
			oc.Labels = append(oc.Labels, "layout:chunked")
		default:
			oc.Labels = append(oc.Labels, "layout:other")
		}
		if info.Datatype.Class == core.DatatypeFixed || info.Datatype.Class == core.DatatypeFloat {
			if info.Datatype.ClassBitField&1 != 0 {
				oc.Labels = append(oc.Labels, "order:BE")
			} else {
				oc.Labels = append(oc.Labels, "order:LE")
			}
		}
		if info.Datatype.Class == core.DatatypeFixed {
			if info.Datatype.ClassBitField&8 != 0 {
				oc.Labels = append(oc.Labels, "sign:signed")
			} else {
				oc.Labels = append(oc.Labels, "sign:unsigned")
			}
		}
		oc.Labels = append(oc.Labels, fmt.Sprintf("class:%d", info.Datatype.Class))
		if src.Type != nil {
			c.compareType(src.Type, info.Datatype, path, "type")
		}
		if src.Space != nil {
			c.compareSpace(src.Space, info.Dataspace, path, "space")
		}
		if src.Layout != nil && src.Layout.Class != "" {
			want := map[string]core.DataLayoutClass{"COMPACT": core.LayoutCompact, "CONTIGUOUS": core.LayoutContiguous,
				"CHUNKED": core.LayoutChunked, "VIRTUAL": core.LayoutVirtual}[src.Layout.Class]
			c.res.compared++
			if info.Layout.Class != want {
				c.add(path, "layout", "layout-class", "h5dump: %s, reader reports layout class %d", src.Layout.Class, info.Layout.Class)
			} else if want == core.LayoutChunked && src.Layout.Chunk != nil {
				gotc := info.Layout.ChunkSize
				if len(gotc) >= len(src.Layout.Chunk) {
					gotc = gotc[:len(src.Layout.Chunk)]
				}
				if !dimsEqual(gotc, src.Layout.Chunk) {
					c.add(path, "layout", "chunk-dims", "h5dump: chunk %v, reader reports %v", src.Layout.Chunk, info.Layout.ChunkSize)
				}
			}
		}
	} else {
		c.res.skip("dataset-info-error(allowed)")
	}

	// typed reads: each one that returns without error must agree with the reference values
	var want []*Val
	why := "absent"
	if src.Packed {
		why = "packed-bits"
	} else if src.Subset {
		why = "subset"
	} else {
		want, why = usableData(src.Data, src.Space)
	}
	t := c.ix.ResolveType(src.Type)

	// a full read materialises the logical extent (C07's open finding): datasets declared in the gigabytes are not read here
	if info != nil && info.Dataspace != nil && info.Datatype != nil {
		n := uint64(info.Datatype.Size)
		if n == 0 {
			n = 1
		}
		for _, x := range info.Dataspace.Dimensions {
			if x != 0 && n > (256<<20)/x {
				c.skipAt(path, "logical-extent-above-256MiB")
				nattr := c.compareAttrs(src, ds, path)
				oc.Nontrivial = nattr > 0
				c.res.objs = append(c.res.objs, oc)
				return
			}
			if x != 0 {
				n *= x
			}
		}
	}

	// Read
	{
		var vals []float64
		var err error
		if p := safely(func() { vals, err = ds.Read() }); p != "" {
			c.add(path, "data:Read", "panic", "Read(): %s", p)
		} else if err != nil {
			c.res.skip("Read-error(allowed)")
		} else if want == nil {
			c.skipAt(path, "Read-ok-but-ddl-data-"+why)
		} else if t.Kind != "int" && t.Kind != "float" {
			c.skipAt(path, "Read-ok-on-ddl-type-"+t.Kind)
		} else {
			flat := make([]any, len(vals))
			for i, v := range vals {
				flat[i] = v
			}
			d, cerr := compareSeq(flat, want, t, c.ix)
			if cerr != nil {
				c.skipAt(path, "data-not-understood")
			} else {
				arrays++
				c.res.compared++
				c.res.skips["+values-compared:Read"]++
				if d != nil {
					c.add(path, "data:Read", d.kind, "Read(): %s", d.detail)
				}
			}
		}
	}
	// ReadStrings
	{
		var vals []string
		var err error
		if p := safely(func() { vals, err = ds.ReadStrings() }); p != "" {
			c.add(path, "data:ReadStrings", "panic", "ReadStrings(): %s", p)
		} else if err != nil {
			c.res.skip("ReadStrings-error(allowed)")
		} else if want == nil {
			c.skipAt(path, "ReadStrings-ok-but-ddl-data-"+why)
		} else if t.Kind != "string" && t.Kind != "vlstring" {
			c.res.skip("ReadStrings-ok-on-ddl-type-" + t.Kind)
		} else {
			flat := make([]any, len(vals))
			for i, v := range vals {
				flat[i] = v
			}
			d, cerr := compareSeq(flat, want, t, c.ix)
			if cerr != nil {
				c.skipAt(path, "data-not-understood")
			} else {
				arrays++
				c.res.compared++
				c.res.skips["+values-compared:ReadStrings"]++
				if d != nil {
					c.add(path, "data:ReadStrings", d.kind, "ReadStrings(): %s", d.detail)
				}
			}
		}
	}
	// ReadCompound
	{
		var vals []core.CompoundValue
		var err error
		if p := safely(func() { vals, err = ds.ReadCompound() }); p != "" {
			c.add(path, "data:ReadCompound", "panic", "ReadCompound(): %s", p)
		} else if err != nil {
			c.res.skip("ReadCompound-error(allowed)")
		} else if want == nil {
			c.skipAt(path, "ReadCompound-ok-but-ddl-data-"+why)
		} else if t.Kind != "compound" {
			c.res.skip("ReadCompound-ok-on-ddl-type-" + t.Kind)
		} else {
			flat := make([]any, len(vals))
			for i, v := range vals {
				flat[i] = v
			}
			d, cerr := compareSeq(flat, want, t, c.ix)
			if cerr != nil {
				c.skipAt(path, "data-not-understood")
			} else {
				arrays++
				c.res.compared++
				c.res.skips["+values-compared:ReadCompound"]++
				if d != nil {
					c.add(path, "data:ReadCompound", d.kind, "ReadCompound(): %s", d.detail)
				}
			}
		}
	}
	// ReadHyperslab with the selection of a SUBSET dump
	if sel := src.Sel; sel != nil && sel.Data != nil && sel.Data.Understood && (t.Kind == "int" || t.Kind == "float") {
		r := len(sel.Start)
		if r > 0 && len(sel.Count) == r && len(sel.Stride) == r && len(sel.Block) == r {
			hs := &hdf5.HyperslabSelection{Start: sel.Start, Count: sel.Count, Stride: sel.Stride, Block: sel.Block}
			n := int64(1)
			for i := 0; i < r; i++ {
				n *= int64(sel.Count[i] * sel.Block[i])
			}
			var got any
			var err error
			if p := safely(func() { got, err = ds.ReadHyperslab(hs) }); p != "" {
				c.add(path, "data:ReadHyperslab", "panic", "ReadHyperslab(%+v): %s", *hs, p)
			} else if err != nil {
				c.res.skip("ReadHyperslab-error(allowed)")
			} else if int64(len(sel.Data.Vals)) != n {
				c.skipAt(path, "ReadHyperslab-ok-but-ddl-data-incomplete")
			} else if flat, ok := flattenNumbers(got); !ok {
				c.skipAt(path, "ReadHyperslab-result-type-not-understood")
			} else {
				want := append([]*Val{}, sel.Data.Vals...)
				ordered := r <= 3 // h5dump prints subsets of rank > 3 in an order of its own: compare as multisets there
				if !ordered {
					sortNumeric(flat, want)
				}
				d, cerr := compareSeq(flat, want, t, c.ix)
				if cerr != nil {
					c.skipAt(path, "data-not-understood")
				} else {
					arrays++
					c.res.compared++
					c.res.skips["+values-compared:ReadHyperslab"]++
					if d != nil {
						c.add(path, "data:ReadHyperslab", d.kind, "ReadHyperslab(%+v): %s", *hs, d.detail)
					}
				}
			}
		}
	}
	// Info() must not panic (its wording is not compared)
	if p := safely(func() { _, _ = ds.Info() }); p != "" {
		c.add(path, "info", "panic", "Info(): %s", p)
	}

	nattr := c.compareAttrs(src, ds, path)
	oc.Nontrivial = arrays > 0 || nattr > 0
	c.res.objs = append(c.res.objs, oc)
}

// ---------------------------------------------------------------------------------------------

func blockHasAttrs(b *Block) bool {
	found := false
	var walk func(n *Node)
	walk = func(n *Node) {
		if len(n.Attrs) > 0 {
			found = true
		}
		for _, ch := range n.Children {
			walk(ch)
		}
	}
	for _, t := range b.Top {
		walk(t)
	}
	return found || len(b.TopAttrs) > 0
}

// CompareFile opens h5path with the public API and compares it with one parsed DDL block.
func CompareFile(ddlName, fileName, h5path string, b *Block) *result {
	res := &result{skips: map[string]int{}}
	var f *hdf5.File
	var err error
	if p := safely(func() { f, err = hdf5.Open(h5path) }); p != "" {
		res.mism = append(res.mism, Mismatch{File: fileName, Path: "/", Aspect: "open", Kind: "panic", Detail: p, DDL: ddlName})
		return res
	}
	if err != nil {
		res.openErr = err.Error()
		return res
	}
	defer f.Close()
	c := &cmp{f: f, file: fileName, ddl: ddlName, ix: BuildIndex(b), res: res, attrsPrinted: blockHasAttrs(b)}
	if p := safely(func() {
		// File.Walk must reach exactly what Children() exposes (cheap self-consistency of the two API routes)
		n := 0
		f.Walk(func(string, hdf5.Object) { n++ })
	}); p != "" {
		c.add("/", "walk", "panic", "Walk(): %s", p)
	}
	if p := safely(func() { c.compareBlock(b) }); p != "" {
		c.add("/", "check", "panic", "while comparing: %s", p)
	}
	return res
}

// flattenNumbers turns the typed slice returned by ReadHyperslab into []any of float64 (what compareSeq takes for Read()).
func flattenNumbers(v any) ([]any, bool) {
	rv := reflect.ValueOf(v)
	if rv.Kind() != reflect.Slice {
		return nil, false
	}
	out := make([]any, rv.Len())
	for i := range out {
		e := rv.Index(i)
		switch {
		case e.CanInt():
			out[i] = float64(e.Int())
		case e.CanUint():
			out[i] = float64(e.Uint())
		case e.CanFloat():
			out[i] = e.Float()
		default:
			return nil, false
		}
	}
	return out, true
}

// sortNumeric sorts the reader's values and the reference tokens numerically (multiset comparison).
func sortNumeric(got []any, want []*Val) {
	sort.Slice(got, func(i, j int) bool { return got[i].(float64) < got[j].(float64) })
	key := func(v *Val) float64 {
		f, err := strconv.ParseFloat(strings.TrimSpace(v.S), 64)
		if err != nil {
			return math.Inf(1)
		}
		return f
	}
	sort.SliceStable(want, func(i, j int) bool { return key(want[i]) < key(want[j]) })
}
