package c06

// treediff: a second, independent reference for the corpus files, including the many that have no h5dump output shipped
// with them. Whatever the library's reader LISTS for a reference file (object kinds, dataset shapes and element types) must
// agree with what the independent spec-based decoder (harness/indep, validated against the h5dump outputs in
// harness/indeptest) finds at the same path. Omitted objects are not judged here (they are the DDL comparison's
// findings); omitted attribute messages of version 1 object headers are.

import (
	"fmt"
	"math"
	"os"
	"path/filepath"
	"reflect"
	"sort"
	"strings"
	"testing"
	"time"

	"github.com/scigolib/hdf5/verif/indep"
	"github.com/scigolib/hdf5/verif/obs"
	"github.com/scigolib/hdf5/verif/vt"
)

const subTree = "treediff"

type TreeCase struct {
	File string `json:"file"` // path relative to the testdata directory
}

func testdataDir() string { return filepath.Dir(corpusDir()) }

func walkIndep(f *indep.File, p string) *indep.Object {
	cur := f.Lookup("/")
	for _, part := range strings.Split(strings.Trim(p, "/"), "/") {
		if part == "" {
			continue
		}
		if cur == nil {
			return nil
		}
		var next *indep.Object
		for _, l := range cur.Links {
			if l.Name == part && l.Kind == "hard" {
				next = f.Objects[l.Addr]
			}
		}
		cur = next
	}
	return cur
}

// treeProblems returns the disagreements for one file ("" = file not usable for this comparison).
func treeProblems(rel string) (problems []string, compared int, skip string) {
	full := filepath.Join(testdataDir(), rel)
	data, err := os.ReadFile(full)
	if err != nil || len(data) == 0 {
		return nil, 0, "unreadable-or-emptied"
	}
	problems, compared, skip = treeProblemsOf(full, data)
	if skip != "" {
		return
	}
	// the same file with the ids of two objects of a global heap collection exchanged: every reference now names the
	// other object's bytes, for the independent decoder and for the library alike
	if v := swapHeapIDs(data); v != nil {
		vp := filepath.Join(vt.GetEnv().Scratch, fmt.Sprintf("treediff-variant-%d.h5", os.Getpid()))
		if os.WriteFile(vp, v, 0o644) == nil {
			ps, n, sk := treeProblemsOf(vp, v)
			os.Remove(vp)
			if sk == "" {
				compared += n
				for _, p := range ps {
					problems = append(problems, "[heap ids of two objects exchanged] "+p)
				}
			}
		}
	}
	return
}

// swapHeapIDs returns a copy of data in which the first two used objects of the first global heap collection with at least
// two objects carry each other's ids, or nil.
func swapHeapIDs(data []byte) []byte {
	ref, err := indep.Decode(data, indep.TolerateAll())
	if err != nil || ref == nil {
		return nil
	}
	var addrs []uint64
	for a := range ref.GlobalHeaps {
		addrs = append(addrs, a)
	}
	sort.Slice(addrs, func(i, j int) bool { return addrs[i] < addrs[j] })
	L := ref.LengthSize
	for _, a := range addrs {
		g := ref.GlobalHeaps[a]
		if len(g.Objects) < 2 || a+g.Size > uint64(len(data)) || L < 1 || L > 8 {
			continue
		}
		var idPos []int
		pos := int(a) + 8 + L // signature, version, reserved, collection size
		end := int(a + g.Size)
		for pos+8+L <= end && len(idPos) < 2 {
			id := int(data[pos]) | int(data[pos+1])<<8
			var sz uint64
			for k := L - 1; k >= 0; k-- {
				sz = sz<<8 | uint64(data[pos+8+k])
			}
			if id == 0 {
				break
			}
			idPos = append(idPos, pos)
			pos += 8 + L + int((sz+7)/8*8)
		}
		if len(idPos) == 2 {
			v := append([]byte{}, data...)
			v[idPos[0]], v[idPos[0]+1], v[idPos[1]], v[idPos[1]+1] = data[idPos[1]], data[idPos[1]+1], data[idPos[0]], data[idPos[0]+1]
			return v
		}
	}
	return nil
}

// vlenStrings resolves raw variable-length descriptors through the independent decoder's global heap.
func vlenStrings(ref *indep.File, raw []byte) ([]string, bool) {
	step := 8 + ref.OffsetSize
	if len(raw) == 0 || len(raw)%step != 0 {
		return nil, false
	}
	var out []string
	for i := 0; i < len(raw); i += step {
		b, err := ref.ResolveVLen(raw[i : i+step])
		if err != nil {
			return nil, false
		}
		if j := strings.IndexByte(string(b), 0); j >= 0 {
			b = b[:j]
		}
		out = append(out, string(b))
	}
	return out, true
}

// vlenAttrProblems compares the variable-length string attributes the library reports for an object with the strings the
// independent decoder resolves for the same attribute.
func vlenAttrProblems(ref *indep.File, r *indep.Object, path string, attrs []obs.Attr) (ps []string, n int) {
	for _, a := range attrs {
		if a.Class != 9 || a.ValueErr != "" {
			continue
		}
		for _, ra := range r.Attrs {
			if ra.Name != a.Name || ra.Type == nil || ra.Type.Class != 9 || !ra.Type.VLenIsString {
				continue
			}
			want, ok := vlenStrings(ref, ra.Data)
			if !ok {
				continue
			}
			n++
			if a.Value != obs.Render(want) && !(len(want) == 1 && a.Value == obs.Render(want[0])) {
				ps = append(ps, fmt.Sprintf("%s: variable-length string attribute %q reads %s, the heap objects it names hold %s", path, a.Name, a.Value, obs.Render(want)))
			}
		}
	}
	return
}

// missingAttrProblems: every attribute stored as a message of a version 1 object header (whichever block of the header
// holds it) is listed by the library when it lists the object's attributes at all. Attributes of a committed datatype
// are left to the DDL comparison's open finding.
func missingAttrProblems(r *indep.Object, path string, attrs []obs.Attr) (ps []string, n int) {
	if r.HeaderVersion != 1 {
		return
	}
	have := map[string]bool{}
	for _, a := range attrs {
		have[a.Name] = true
	}
	for _, ra := range r.Attrs {
		if ra.Dense || ra.Type == nil || ra.Type.Shared {
			continue
		}
		n++
		if !have[ra.Name] {
			ps = append(ps, fmt.Sprintf("%s: attribute %q (message version %d) is stored in the object header but not listed (%d of %d listed)", path, ra.Name, ra.MsgVersion, len(attrs), len(r.Attrs)))
		}
	}
	return
}

func treeProblemsOf(full string, data []byte) (problems []string, compared int, skip string) {
	ref, err := indep.Decode(data, indep.TolerateAll())
	if err != nil || ref == nil {
		return nil, 0, "independent-decoder-refuses"
	}
	o := obs.Read(full, obs.Options{})
	if o.OpenErr != "" {
		return nil, 0, "open-error(allowed)"
	}
	for _, p := range o.Panics {
		problems = append(problems, "panic: "+p)
	}
	var paths []string
	for p := range o.Groups {
		paths = append(paths, p)
	}
	sort.Strings(paths)
	for _, p := range paths {
		if strings.HasSuffix(p, "#dup") {
			continue
		}
		r := walkIndep(ref, p)
		if r == nil {
			continue // reached through something other than hard links
		}
		compared++
		if r.Kind != "group" {
			problems = append(problems, fmt.Sprintf("%s: listed as a group, the file holds a %s there", p, r.Kind))
			continue
		}
		if o.Groups[p].AttrsErr == "" {
			ps, n := vlenAttrProblems(ref, r, p, o.Groups[p].Attrs)
			problems, compared = append(problems, ps...), compared+n
			ps, n = missingAttrProblems(r, p, o.Groups[p].Attrs)
			problems, compared = append(problems, ps...), compared+n
		}
		for _, c := range o.Groups[p].Children {
			if c.Kind == "other" {
				continue
			}
			var tgt *indep.Object
			for _, l := range r.Links {
				if l.Name == c.Name && l.Kind == "hard" {
					tgt = ref.Objects[l.Addr]
				}
			}
			if tgt == nil || tgt.Kind == "unknown" {
				continue
			}
			compared++
			if tgt.Kind != c.Kind {
				problems = append(problems, fmt.Sprintf("%s: member %q listed as a %s, the file holds a %s", p, c.Name, c.Kind, tgt.Kind))
			}
		}
	}
	paths = paths[:0]
	for p := range o.Datasets {
		paths = append(paths, p)
	}
	sort.Strings(paths)
	for _, p := range paths {
		if strings.HasSuffix(p, "#dup") {
			continue
		}
		r := walkIndep(ref, p)
		if r == nil {
			continue
		}
		compared++
		if r.Kind != "dataset" {
			problems = append(problems, fmt.Sprintf("%s: listed as a dataset, the file holds a %s there", p, r.Kind))
			continue
		}
		d := o.Datasets[p]
		if d.AttrsErr == "" {
			ps, n := vlenAttrProblems(ref, r, p, d.Attrs)
			problems, compared = append(problems, ps...), compared+n
			ps, n = missingAttrProblems(r, p, d.Attrs)
			problems, compared = append(problems, ps...), compared+n
		}
		if d.InfoErr != "" || r.Type == nil {
			continue
		}
		if r.Type.Class == 9 && r.Type.VLenIsString && d.StringsErr == "" && r.RawErr == "" && r.Raw != nil {
			if want, ok := vlenStrings(ref, r.Raw); ok {
				compared++
				if !reflect.DeepEqual(want, d.Strings) && !(len(want) == 0 && len(d.Strings) == 0) {
					problems = append(problems, fmt.Sprintf("%s: ReadStrings() returns %d strings that differ from the heap objects the elements name", p, len(d.Strings)))
				}
			}
		}
		if !r.Type.Shared && (d.Class != r.Type.Class || d.Size != r.Type.Size) {
			problems = append(problems, fmt.Sprintf("%s: element type class %d size %d, the file holds class %d size %d", p, d.Class, d.Size, r.Type.Class, r.Type.Size))
		}
		if len(r.Dims) > 0 && !r.Scalar && !dimsEqual(d.Dims, r.Dims) {
			problems = append(problems, fmt.Sprintf("%s: dims %v, the file holds %v", p, d.Dims, r.Dims))
		}
		// values: Read() against the stored bytes decoded by the datatype (plain integers and IEEE floats only)
		if d.ReadErr == "" && r.RawErr == "" && r.Raw != nil {
			if want, ok := rawToFloat64(r.Type, r.Raw); ok {
				compared++
				if len(want) != len(d.Read) {
					problems = append(problems, fmt.Sprintf("%s: Read() returned %d values, the stored data holds %d elements", p, len(d.Read), len(want)))
				} else {
					for i := range want {
						if math.Float64bits(want[i]) != d.Read[i] && !(want[i] != want[i] && math.Float64frombits(d.Read[i]) != math.Float64frombits(d.Read[i])) {
							problems = append(problems, fmt.Sprintf("%s: Read()[%d] = %v, the stored bytes decode to %v", p, i, math.Float64frombits(d.Read[i]), want[i]))
							break
						}
					}
				}
			}
		}
	}
	return problems, compared, ""
}

func treeOne(cs TreeCase) vt.Verdict {
	ps, _, skip := treeProblems(cs.File)
	if skip != "" {
		return vt.Skipped("%s", skip)
	}
	if len(ps) > 0 {
		return vt.Bad("%s: %s", cs.File, ps[0])
	}
	return vt.Pass()
}

func treeBody(t *testing.T) {
	e := vt.GetEnv()
	rec := vt.Recorder(prop)
	var files []string
	_ = filepath.Walk(testdataDir(), func(p string, info os.FileInfo, err error) error {
		if err == nil && !info.IsDir() && (strings.HasSuffix(p, ".h5") || strings.HasSuffix(p, ".hdf5")) && info.Size() > 0 && info.Size() <= 4<<20 {
			rel, _ := filepath.Rel(testdataDir(), p)
			files = append(files, rel)
		}
		return nil
	})
	sort.Strings(files)
	nviol := 0
	for i, f := range files {
		if i%e.NShards != e.Shard {
			continue
		}
		cs := TreeCase{File: f}
		vt.Current(prop, subTree, cs)
		t0 := time.Now()
		ps, compared, skip := treeProblems(f)
		if el := time.Since(t0); el > 2*time.Second {
			rec.Note("treediff: %s took %.1fs", f, el.Seconds())
		}
		if skip != "" {
			rec.Label(subTree, "skip:"+skip, 1)
			continue
		}
		rec.Case(subTree, cs, compared >= 2)
		if len(ps) > 0 {
			nviol++
			if nviol <= 20 {
				p := vt.ReportViolation(prop, subTree, cs, ps[0])
				t.Errorf("violation: %s: %s (%d disagreements; replay %s)", f, ps[0], len(ps), p)
			}
		}
	}
	rec.SetExhaustive(subTree, true)
}

// rawToFloat64 decodes stored elements of plain integer types (1/2/4/8 bytes, full precision, no bit offset) and IEEE
// binary32/binary64 into the float64 values Read() documents (integers widened to float64).
func rawToFloat64(t *indep.Datatype, raw []byte) ([]float64, bool) {
	if t == nil || t.Size == 0 || len(raw)%int(t.Size) != 0 {
		return nil, false
	}
	sz := int(t.Size)
	n := len(raw) / sz
	word := func(i int) uint64 {
		var v uint64
		b := raw[i*sz : (i+1)*sz]
		if t.BigEndian {
			for _, x := range b {
				v = v<<8 | uint64(x)
			}
		} else {
			for k := sz - 1; k >= 0; k-- {
				v = v<<8 | uint64(b[k])
			}
		}
		return v
	}
	out := make([]float64, n)
	switch t.Class {
	case 0:
		if (sz != 1 && sz != 2 && sz != 4 && sz != 8) || t.BitOffset != 0 || int(t.Precision) != 8*sz {
			return nil, false
		}
		for i := range out {
			v := word(i)
			if t.Signed {
				shift := uint(64 - 8*sz)
				out[i] = float64(int64(v<<shift) >> shift)
			} else {
				out[i] = float64(v)
			}
		}
	case 1:
		switch {
		case sz == 4 && t.BitOffset == 0 && t.Precision == 32 && t.ExpSize == 8 && t.MantSize == 23 && t.ExpLoc == 23 && t.MantLoc == 0 && t.ExpBias == 127:
			for i := range out {
				out[i] = float64(math.Float32frombits(uint32(word(i))))
			}
		case sz == 8 && t.BitOffset == 0 && t.Precision == 64 && t.ExpSize == 11 && t.MantSize == 52 && t.ExpLoc == 52 && t.MantLoc == 0 && t.ExpBias == 1023:
			for i := range out {
				out[i] = math.Float64frombits(word(i))
			}
		default:
			return nil, false
		}
	default:
		return nil, false
	}
	return out, true
}
