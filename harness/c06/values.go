package c06

import (
	"fmt"
	"math"
	"math/big"
	"strconv"
	"strings"
)

// errNotUnderstood marks an expected value the checker cannot interpret; the aspect is then skipped.
type errNotUnderstood struct{ why string }

func (e errNotUnderstood) Error() string { return "not understood: " + e.why }

func notUnderstood(format string, a ...any) error {
	return errNotUnderstood{fmt.Sprintf(format, a...)}
}

func parseIntToken(v *Val) (*big.Int, error) {
	if v.K != 'n' {
		return nil, notUnderstood("integer expected, found group/string %q", v.S)
	}
	x, ok := new(big.Int).SetString(v.S, 10)
	if !ok {
		return nil, notUnderstood("not a decimal integer: %q", v.S)
	}
	return x, nil
}

func parseFloatToken(s string) (float64, error) {
	switch strings.ToLower(s) {
	case "nan", "-nan", "+nan":
		return math.NaN(), nil
	case "inf", "+inf", "infinity":
		return math.Inf(1), nil
	case "-inf", "-infinity":
		return math.Inf(-1), nil
	}
	if s == "" || !(s[0] == '-' || s[0] == '+' || s[0] == '.' || (s[0] >= '0' && s[0] <= '9')) {
		return 0, notUnderstood("not a float: %q", s)
	}
	f, err := strconv.ParseFloat(s, 64)
	if err != nil {
		if ne, ok := err.(*strconv.NumError); ok && ne.Err == strconv.ErrRange {
			return f, nil
		}
		return 0, notUnderstood("not a float: %q", s)
	}
	return f, nil
}

// sigDigits counts the significant digits of a printed number.
func sigDigits(tok string) int {
	m := tok
	if k := strings.IndexAny(m, "eE"); k >= 0 {
		m = m[:k]
	}
	m = strings.NewReplacer("-", "", "+", "", ".", "").Replace(m)
	m = strings.TrimLeft(m, "0")
	return len(m)
}

// blockSigDigits is the largest number of significant digits among the float-looking tokens of a DATA block.
func blockSigDigits(vals []*Val) int {
	mx := 0
	var walk func(v *Val)
	walk = func(v *Val) {
		if v.K == 'n' && strings.ContainsAny(v.S, ".eE") {
			if _, err := strconv.ParseFloat(v.S, 64); err == nil {
				if s := sigDigits(v.S); s > mx {
					mx = s
				}
			}
		}
		for _, k := range v.Kids {
			walk(k)
		}
	}
	for _, v := range vals {
		walk(v)
	}
	return mx
}

// floatMatches decides whether the value the library returned is the number h5dump printed as tok.
// h5dump prints with %g (6 significant digits) unless a format option was given, so equality is:
// identical after parsing, or identical %g text, or relative difference <= 1e-6 (stated tolerance), or -
// for tokens that show an explicit fixed precision (trailing zeros or more than 6 significant digits,
// i.e. not %g output) - agreement within half a unit of the last printed digit.
func floatMatches(got float64, tok string, blockSig int) (bool, error) {
	e, err := parseFloatToken(tok)
	if err != nil {
		return false, err
	}
	if math.IsNaN(e) || math.IsNaN(got) {
		return math.IsNaN(e) && math.IsNaN(got), nil
	}
	if got == e {
		return true, nil
	}
	if math.IsInf(e, 0) || math.IsInf(got, 0) {
		return false, nil
	}
	if strconv.FormatFloat(got, 'g', 6, 64) == tok {
		return true, nil
	}
	// -m "%.Ng" dumps: the precision is the one evidenced by the tokens of the same DATA block, never
	// looser than 4 significant digits
	lo := blockSig
	if lo < 4 {
		lo = 4
	}
	for n := lo; n <= 17; n++ {
		if n != 6 && strconv.FormatFloat(got, 'g', n, 64) == tok {
			return true, nil
		}
	}
	if math.Abs(got-e) <= 1e-6*math.Max(math.Abs(got), math.Abs(e)) {
		return true, nil
	}
	if !strings.ContainsAny(tok, "eE") {
		if dot := strings.IndexByte(tok, '.'); dot >= 0 {
			dec := len(tok) - dot - 1
			sig := len(strings.TrimLeft(strings.NewReplacer("-", "", "+", "", ".", "").Replace(tok), "0"))
			if dec > 0 && (tok[len(tok)-1] == '0' || sig > 6) {
				if math.Abs(got-e) <= 0.5000001*math.Pow(10, -float64(dec)) {
					return true, nil
				}
			}
		}
	}
	return false, nil
}

func bigToFloat64(x *big.Int) float64 {
	f, _ := new(big.Float).SetInt(x).Float64()
	return f
}

// normString applies the padding convention both sides agree on: the reader strips padding, h5dump prints
// the padding bytes of NULLPAD/SPACEPAD strings, so padding is removed from both before comparing.
func normString(s, pad string) string {
	switch pad {
	case "NULLPAD":
		return strings.TrimRight(s, "\x00")
	case "SPACEPAD":
		return strings.TrimRight(s, " \x00")
	}
	return s
}

// flattenLib turns what Attribute.ReadValue returns into a flat slice.
func flattenLib(v any) ([]any, bool) {
	switch x := v.(type) {
	case int32, int64, float32, float64, string:
		return []any{x}, true
	case []int32:
		out := make([]any, len(x))
		for i := range x {
			out[i] = x[i]
		}
		return out, true
	case []int64:
		out := make([]any, len(x))
		for i := range x {
			out[i] = x[i]
		}
		return out, true
	case []float32:
		out := make([]any, len(x))
		for i := range x {
			out[i] = x[i]
		}
		return out, true
	case []float64:
		out := make([]any, len(x))
		for i := range x {
			out[i] = x[i]
		}
		return out, true
	case []string:
		out := make([]any, len(x))
		for i := range x {
			out[i] = x[i]
		}
		return out, true
	case []any:
		return x, true
	}
	return nil, false
}

type vctx struct {
	ix  *Index
	sig int // significant digits evidenced by the DATA block (0 = no float token)
}

type valueDiff struct {
	kind   string // count | value
	detail string
}

// compareElem compares one library element with one DDL value under the DDL type t.
// Returns ("", nil) when equal, a description when different, an errNotUnderstood when the expected side
// cannot be interpreted.
func compareElem(got any, want *Val, t *DType, vc *vctx) (string, error) {
	ix := vc.ix
	t = ix.ResolveType(t)
	switch t.Kind {
	case "int":
		w, err := parseIntToken(want)
		if err != nil {
			return "", err
		}
		switch g := got.(type) {
		case int32:
			if big.NewInt(int64(g)).Cmp(w) != 0 {
				return fmt.Sprintf("got %d, h5dump %s", g, w), nil
			}
		case int64:
			if big.NewInt(g).Cmp(w) != 0 {
				return fmt.Sprintf("got %d, h5dump %s", g, w), nil
			}
		case float64: // Dataset.Read converts everything to float64
			if g != bigToFloat64(w) {
				return fmt.Sprintf("got %v, h5dump %s", g, w), nil
			}
		default:
			return fmt.Sprintf("got %T %v for an integer, h5dump %s", got, got, w), nil
		}
		return "", nil
	case "float":
		if want.K != 'n' {
			return "", notUnderstood("float expected, found %q", want.S)
		}
		var g float64
		switch x := got.(type) {
		case float32:
			g = float64(x)
		case float64:
			g = x
		default:
			if _, err := parseFloatToken(want.S); err != nil {
				return "", err
			}
			return fmt.Sprintf("got %T %v for a float, h5dump %s", got, got, want.S), nil
		}
		ok, err := floatMatches(g, want.S, vc.sig)
		if err != nil {
			return "", err
		}
		if !ok {
			return fmt.Sprintf("got %v, h5dump %s", g, want.S), nil
		}
		return "", nil
	case "string", "vlstring":
		if want.K != 's' {
			return "", notUnderstood("string expected, found %q", want.S)
		}
		g, ok := got.(string)
		if !ok {
			return fmt.Sprintf("got %T %v for a string, h5dump %q", got, got, want.S), nil
		}
		if normString(g, t.StrPad) != normString(want.S, t.StrPad) {
			return fmt.Sprintf("got %q, h5dump %q", g, want.S), nil
		}
		return "", nil
	case "compound":
		if want.K != '{' || len(want.Kids) != len(t.Members) {
			return "", notUnderstood("compound value does not have %d members", len(t.Members))
		}
		m, ok := asStringMap(got)
		if !ok {
			return fmt.Sprintf("got %T for a compound", got), nil
		}
		seen := map[string]bool{}
		for i, mem := range t.Members {
			seen[mem.Name] = true
			gv, ok := m[mem.Name]
			if !ok {
				return fmt.Sprintf("compound member %q missing in the returned map (has %d members)", mem.Name, len(m)), nil
			}
			mt := ix.ResolveType(mem.Type)
			switch mt.Kind {
			case "int", "float", "string", "vlstring", "compound":
				d, err := compareElem(gv, want.Kids[i], mt, vc)
				if err != nil {
					return "", err
				}
				if d != "" {
					return fmt.Sprintf("member %q: %s", mem.Name, d), nil
				}
			case "unknown":
				return "", notUnderstood("member %q has a type the checker does not know", mem.Name)
			default:
				// array, vlen, enum, ... : the reader has no representation; if it returned a scalar for it the
				// value necessarily differs from the reference value
				return fmt.Sprintf("member %q is %s in the file but the reader returned %T %v", mem.Name, mt.Kind, gv, gv), nil
			}
		}
		if len(m) != len(seen) {
			return fmt.Sprintf("returned map has %d members, h5dump %d", len(m), len(seen)), nil
		}
		return "", nil
	}
	return "", notUnderstood("type %s", t.Kind)
}

// validateVal checks that an expected value can be interpreted under type t (so that a comparison never
// reports a difference on data that is partly not understood).
func validateVal(v *Val, t *DType, ix *Index) error {
	t = ix.ResolveType(t)
	switch t.Kind {
	case "int":
		_, err := parseIntToken(v)
		return err
	case "float":
		if v.K != 'n' {
			return notUnderstood("float expected")
		}
		_, err := parseFloatToken(v.S)
		return err
	case "string", "vlstring":
		if v.K != 's' {
			return notUnderstood("string expected, found %q", v.S)
		}
		return nil
	case "compound":
		if v.K != '{' || len(v.Kids) != len(t.Members) {
			return notUnderstood("compound value does not have %d members", len(t.Members))
		}
		for i, m := range t.Members {
			mt := ix.ResolveType(m.Type)
			switch mt.Kind {
			case "int", "float", "string", "vlstring", "compound":
				if err := validateVal(v.Kids[i], mt, ix); err != nil {
					return err
				}
			case "unknown":
				return notUnderstood("member %q of unknown type", m.Name)
			}
		}
		return nil
	}
	return notUnderstood("type %s", t.Kind)
}

// compareSeq compares a flat library result with the DDL values.
func compareSeq(got []any, want []*Val, t *DType, ix *Index) (*valueDiff, error) {
	vc := &vctx{ix: ix, sig: blockSigDigits(want)}
	for _, w := range want {
		if err := validateVal(w, t, ix); err != nil {
			return nil, err
		}
	}
	if len(got) != len(want) {
		return &valueDiff{"count", fmt.Sprintf("reader returned %d elements, h5dump lists %d", len(got), len(want))}, nil
	}
	for i := range got {
		d, err := compareElem(got[i], want[i], t, vc)
		if err != nil {
			return nil, err
		}
		if d != "" {
			return &valueDiff{"value", fmt.Sprintf("element %d: %s", i, d)}, nil
		}
	}
	return nil, nil
}
