// Package c06 decides property C06: everything the reader returns without error for a file written by the
// reference HDF5 implementation equals what h5dump (the DDL files shipped in testdata/hdf5_official/ddl)
// reports for the same file. See DESIGN.md section 5, C06 and notes/C06-triage.md.
package c06

import (
	"fmt"
	"regexp"
	"strconv"
	"strings"
)

// ---------------------------------------------------------------------------------------------
// DDL model
//
// The parser is deliberately conservative: whatever it does not fully understand is marked as such
// (DType.Kind=="unknown", Data.Understood==false, Node.Partial==true, or the whole document is
// rejected) and the comparison then skips the aspect. A parser limitation must never become a
// reported mismatch.

type DType struct {
	Kind    string // int float bitfield string vlstring compound array vlen enum opaque reference complex named unknown
	Size    int    // bytes, 0 = not known from the DDL
	BE      bool
	Signed  bool
	StrPad  string // NULLTERM NULLPAD SPACEPAD
	Members []Member
	Dims    []uint64
	Base    *DType
	Ref     string // named: path of the committed datatype
	Text    string
}

type Member struct {
	Name string
	Type *DType
}

type Space struct {
	Kind string // scalar null simple unknown
	Dims []uint64
	Max  []uint64
}

// Count returns the number of elements, -1 if unknown.
func (s *Space) Count() int64 {
	if s == nil {
		return -1
	}
	switch s.Kind {
	case "scalar":
		return 1
	case "null":
		return 0
	case "simple":
		n := int64(1)
		for _, d := range s.Dims {
			if d > 1<<40 {
				return -1
			}
			n *= int64(d)
			if n > 1<<40 {
				return -1
			}
		}
		return n
	}
	return -1
}

// Val is one node of a DATA block: a bare token, a quoted string or a bracketed group.
type Val struct {
	K    byte // 'n' bare token, 's' quoted string, '{' compound, '[' array, '(' vlen
	S    string
	Kids []*Val
}

type Data struct {
	Vals       []*Val
	Understood bool
	Why        string
}

type Attr struct {
	Name  string
	Type  *DType
	Space *Space
	Data  *Data
}

type Layout struct {
	Class string // CONTIGUOUS CHUNKED COMPACT VIRTUAL or ""
	Chunk []uint64
}

type Node struct {
	Kind     string // group dataset datatype softlink extlink udlink
	Name     string // member name, or absolute path for top-level nodes
	Path     string // absolute path (filled by the resolver)
	Hardlink string
	Attrs    []*Attr
	Children []*Node
	Partial  bool // an item inside was not understood: "extra" checks are skipped
	Type     *DType
	Space    *Space
	Data     *Data
	Packed   bool
	Subset   bool
	Sel      *Selection // SUBSET block: the selection and the values h5dump printed for it
	Layout   *Layout
	HasFilt  bool
	Target   string
}

// Selection is the hyperslab of a SUBSET block.
type Selection struct {
	Start, Stride, Count, Block []uint64
	Data                        *Data
}

type Block struct {
	File     string
	Top      []*Node
	TopAttrs []*Attr  // top level ATTRIBUTE blocks (-a)
	Other    []string // names of skipped top-level blocks (SUPER_BLOCK, FILE_CONTENTS, ...)
}

type Doc struct {
	Blocks   []*Block
	Trailing bool
}

// ---------------------------------------------------------------------------------------------
// Parser

type parseErr struct{ msg string }

type parser struct {
	s string
	i int
}

func (p *parser) fail(format string, a ...any) {
	line := 1 + strings.Count(p.s[:min(p.i, len(p.s))], "\n")
	panic(parseErr{fmt.Sprintf("line %d: ", line) + fmt.Sprintf(format, a...)})
}

func (p *parser) ws() {
	for p.i < len(p.s) {
		switch p.s[p.i] {
		case ' ', '\t', '\n', '\r':
			p.i++
		default:
			return
		}
	}
}

func (p *parser) eof() bool { p.ws(); return p.i >= len(p.s) }

func (p *parser) peek() byte {
	p.ws()
	if p.i >= len(p.s) {
		return 0
	}
	return p.s[p.i]
}

func (p *parser) expect(c byte) {
	if p.peek() != c {
		p.fail("expected %q, found %q", c, p.rest(20))
	}
	p.i++
}

func (p *parser) rest(n int) string {
	if p.i >= len(p.s) {
		return "<eof>"
	}
	e := p.i + n
	if e > len(p.s) {
		e = len(p.s)
	}
	return p.s[p.i:e]
}

func isWordByte(c byte) bool {
	return c >= 'A' && c <= 'Z' || c >= 'a' && c <= 'z' || c >= '0' && c <= '9' || c == '_' || c == '-' || c == '.'
}

// word reads an identifier-like token (may be empty).
func (p *parser) word() string {
	p.ws()
	st := p.i
	for p.i < len(p.s) && isWordByte(p.s[p.i]) {
		p.i++
	}
	return p.s[st:p.i]
}

func (p *parser) peekWord() string {
	sv := p.i
	w := p.word()
	p.i = sv
	return w
}

// quoted reads a "..." literal. h5dump escapes '"' and '\' inside data strings (unless -r was given);
// object names are printed raw. Returns the unescaped text and whether a raw newline occurred inside.
func (p *parser) quoted() (string, bool) {
	p.expect('"')
	var b strings.Builder
	rawNL := false
	for p.i < len(p.s) {
		c := p.s[p.i]
		switch c {
		case '"':
			p.i++
			return b.String(), rawNL
		case '\\':
			if p.i+1 >= len(p.s) {
				p.fail("dangling backslash")
			}
			n := p.s[p.i+1]
			switch n {
			case 'n':
				b.WriteByte('\n')
				p.i += 2
			case 't':
				b.WriteByte('\t')
				p.i += 2
			case 'r':
				b.WriteByte('\r')
				p.i += 2
			case 'b':
				b.WriteByte('\b')
				p.i += 2
			case 'f':
				b.WriteByte('\f')
				p.i += 2
			case 'v':
				b.WriteByte('\v')
				p.i += 2
			case 'a':
				b.WriteByte('\a')
				p.i += 2
			case '"', '\\', '\'':
				b.WriteByte(n)
				p.i += 2
			case '0', '1', '2', '3':
				// \ooo (three octal digits)
				if p.i+3 < len(p.s) && isOct(p.s[p.i+2]) && isOct(p.s[p.i+3]) {
					v := (int(n-'0') << 6) | (int(p.s[p.i+2]-'0') << 3) | int(p.s[p.i+3]-'0')
					b.WriteByte(byte(v))
					p.i += 4
				} else {
					p.fail("unsupported escape")
				}
			default:
				p.fail("unsupported escape \\%c", n)
			}
		case '\n':
			rawNL = true
			b.WriteByte(c)
			p.i++
		default:
			b.WriteByte(c)
			p.i++
		}
	}
	p.fail("unterminated string")
	return "", false
}

func isOct(c byte) bool { return c >= '0' && c <= '7' }

// name reads an object/attribute name: a quoted literal printed raw by h5dump (no escapes). A name is
// terminated by the quote that is followed by optional blanks and '{', end of line or a type expression.
func (p *parser) name() string {
	p.expect('"')
	st := p.i
	for p.i < len(p.s) {
		if p.s[p.i] == '\n' {
			p.fail("newline in name")
		}
		if p.s[p.i] == '"' {
			// the last quote on this "segment": accept if what follows is blank + '{' / EOL / upper-case word
			j := p.i + 1
			for j < len(p.s) && (p.s[j] == ' ' || p.s[j] == '\t') {
				j++
			}
			if j >= len(p.s) || p.s[j] == '{' || p.s[j] == '\n' || p.s[j] == '\r' || p.s[j] == ';' ||
				(p.s[j] >= 'A' && p.s[j] <= 'Z') || (p.s[j] >= '0' && p.s[j] <= '9') {
				n := p.s[st:p.i]
				p.i++
				return n
			}
		}
		p.i++
	}
	p.fail("unterminated name")
	return ""
}

// skipBalanced skips a {...} block starting at '{', honouring quoted strings.
func (p *parser) skipBalanced() {
	p.expect('{')
	depth := 1
	for p.i < len(p.s) {
		switch p.s[p.i] {
		case '"':
			p.quoted()
			continue
		case '{':
			depth++
		case '}':
			depth--
			if depth == 0 {
				p.i++
				return
			}
		}
		p.i++
	}
	p.fail("unbalanced block")
}

func (p *parser) restOfLine() string {
	st := p.i
	for p.i < len(p.s) && p.s[p.i] != '\n' {
		p.i++
	}
	return strings.TrimSpace(p.s[st:p.i])
}

var firstLineRE = regexp.MustCompile(`^HDF5 "([^"\n]*)" \{\s*$`)

// FirstLineFile returns the file named by the first line of a DDL (`HDF5 "<file>" {`), or "".
func FirstLineFile(text string) string {
	line, _, _ := strings.Cut(text, "\n")
	m := firstLineRE.FindStringSubmatch(strings.TrimRight(line, "\r"))
	if m == nil {
		return ""
	}
	return m[1]
}

// ParseDDL parses a complete h5dump output. err != nil means the document is not understood.
func ParseDDL(text string) (doc *Doc, err error) {
	defer func() {
		if r := recover(); r != nil {
			if pe, ok := r.(parseErr); ok {
				doc, err = nil, fmt.Errorf("%s", pe.msg)
				return
			}
			panic(r)
		}
	}()
	p := &parser{s: text}
	doc = &Doc{}
	for !p.eof() {
		if p.peekWord() != "HDF5" {
			if len(doc.Blocks) == 0 {
				p.fail("does not start with HDF5")
			}
			doc.Trailing = true
			break
		}
		p.word()
		b := &Block{File: p.name()}
		p.expect('{')
		for p.peek() != '}' {
			if p.eof() {
				p.fail("unexpected end of file")
			}
			w := p.word()
			switch w {
			case "GROUP", "DATASET", "DATATYPE", "SOFTLINK", "EXTERNAL_LINK", "USERDEFINED_LINK":
				b.Top = append(b.Top, p.member(w))
			case "ATTRIBUTE":
				b.TopAttrs = append(b.TopAttrs, p.attribute())
			case "":
				p.fail("unexpected %q", p.rest(20))
			default:
				// SUPER_BLOCK, FILE_CONTENTS, ... : not compared
				if p.peek() == '"' {
					p.name()
				}
				p.skipBalanced()
				b.Other = append(b.Other, w)
			}
		}
		p.expect('}')
		doc.Blocks = append(doc.Blocks, b)
	}
	return doc, nil
}

// member parses one object block; the keyword has been consumed.
func (p *parser) member(kw string) *Node {
	n := &Node{Name: p.name()}
	switch kw {
	case "GROUP":
		n.Kind = "group"
		p.expect('{')
		p.groupBody(n)
		p.expect('}')
	case "DATASET":
		n.Kind = "dataset"
		p.expect('{')
		p.datasetBody(n)
		p.expect('}')
	case "DATATYPE":
		n.Kind = "datatype"
		if p.peekWord() == "HARDLINK" {
			p.word()
			n.Hardlink = p.name()
		} else {
			n.Type = p.dtype()
			if p.peek() == ';' {
				p.i++
			}
		}
	case "SOFTLINK":
		n.Kind = "softlink"
		p.expect('{')
		if p.word() != "LINKTARGET" {
			p.fail("LINKTARGET expected")
		}
		n.Target = p.name()
		p.expect('}')
	case "EXTERNAL_LINK":
		n.Kind = "extlink"
		p.skipBalanced()
	case "USERDEFINED_LINK":
		n.Kind = "udlink"
		p.skipBalanced()
	}
	return n
}

func (p *parser) groupBody(g *Node) {
	var lastDatatype *Node
	seenMember := false
	for p.peek() != '}' {
		if p.eof() {
			p.fail("unexpected end of file in group")
		}
		w := p.word()
		switch w {
		case "ATTRIBUTE":
			a := p.attribute()
			switch {
			case !seenMember:
				g.Attrs = append(g.Attrs, a)
			case lastDatatype != nil:
				// h5dump prints the attributes of a committed datatype after its definition, without braces
				lastDatatype.Attrs = append(lastDatatype.Attrs, a)
			default:
				g.Partial = true
			}
		case "GROUP", "DATASET", "DATATYPE", "SOFTLINK", "EXTERNAL_LINK", "USERDEFINED_LINK":
			c := p.member(w)
			g.Children = append(g.Children, c)
			seenMember = true
			lastDatatype = nil
			if w == "DATATYPE" {
				lastDatatype = c
			}
		case "HARDLINK":
			g.Hardlink = p.name()
		case "COMMENT":
			p.name()
		case "":
			p.fail("unexpected %q in group", p.rest(20))
		default:
			g.Partial = true
			if p.peek() == '"' {
				p.name()
			}
			if p.peek() == '{' {
				p.skipBalanced()
			} else {
				p.fail("unknown group item %q", w)
			}
		}
	}
}

func (p *parser) datasetBody(d *Node) {
	for p.peek() != '}' {
		if p.eof() {
			p.fail("unexpected end of file in dataset")
		}
		w := p.word()
		switch w {
		case "DATATYPE":
			d.Type = p.dtype()
		case "DATASPACE":
			d.Space = p.space()
		case "DATA":
			d.Data = p.data()
		case "ATTRIBUTE":
			d.Attrs = append(d.Attrs, p.attribute())
		case "HARDLINK":
			d.Hardlink = p.name()
		case "COMMENT":
			p.name()
		case "PACKED_BITS":
			d.Packed = true
			p.restOfLine()
		case "SUBSET":
			d.Subset = true
			st := p.i
			func() {
				defer func() {
					if r := recover(); r != nil {
						if _, isPE := r.(parseErr); !isPE {
							panic(r)
						}
						d.Sel = nil // not understood: skip the block as before
						p.i = st
						p.skipBalanced()
					}
				}()
				d.Sel = p.subset()
			}()
		case "STORAGE_LAYOUT":
			d.Layout = p.layout()
		case "FILTERS":
			st := p.i
			p.skipBalanced()
			body := p.s[st:p.i]
			d.HasFilt = !regexp.MustCompile(`^\{\s*NONE\s*\}$`).MatchString(strings.TrimSpace(body))
		case "":
			p.fail("unexpected %q in dataset", p.rest(20))
		default:
			d.Partial = true
			if p.peek() == '{' {
				p.skipBalanced()
			} else {
				p.fail("unknown dataset item %q", w)
			}
		}
	}
}

// subset parses "{ START ( .. ); STRIDE ( .. ); COUNT ( .. ); BLOCK ( .. ); DATA { .. } }".
func (p *parser) subset() *Selection {
	p.expect('{')
	sel := &Selection{}
	for p.peek() != '}' {
		if p.eof() {
			p.fail("unexpected end of file in SUBSET")
		}
		w := p.word()
		switch w {
		case "START", "STRIDE", "COUNT", "BLOCK":
			p.expect('(')
			end := strings.IndexByte(p.s[p.i:], ')')
			if end < 0 {
				p.fail("unterminated tuple in SUBSET")
			}
			dims, ok := parseDims(p.s[p.i : p.i+end])
			if !ok {
				p.fail("tuple in SUBSET not understood")
			}
			p.i += end + 1
			p.expect(';')
			switch w {
			case "START":
				sel.Start = dims
			case "STRIDE":
				sel.Stride = dims
			case "COUNT":
				sel.Count = dims
			case "BLOCK":
				sel.Block = dims
			}
		case "DATA":
			sel.Data = p.data()
		default:
			p.fail("unknown SUBSET item %q", w)
		}
	}
	p.expect('}')
	return sel
}

var chunkRE = regexp.MustCompile(`^\{\s*CHUNKED\s*\(\s*([0-9, ]+)\)`)

func (p *parser) layout() *Layout {
	st := p.i
	p.skipBalanced()
	body := strings.TrimSpace(p.s[st:p.i])
	l := &Layout{}
	inner := strings.TrimSpace(strings.TrimPrefix(body, "{"))
	for _, c := range []string{"CONTIGUOUS", "CHUNKED", "COMPACT", "VIRTUAL"} {
		if strings.HasPrefix(inner, c) {
			l.Class = c
		}
	}
	if m := chunkRE.FindStringSubmatch(body); m != nil {
		for _, f := range strings.Split(m[1], ",") {
			v, err := strconv.ParseUint(strings.TrimSpace(f), 10, 64)
			if err != nil {
				l.Chunk = nil
				break
			}
			l.Chunk = append(l.Chunk, v)
		}
	}
	return l
}

func (p *parser) attribute() *Attr {
	a := &Attr{Name: p.name()}
	p.expect('{')
	for p.peek() != '}' {
		if p.eof() {
			p.fail("unexpected end of file in attribute")
		}
		w := p.word()
		switch w {
		case "DATATYPE":
			a.Type = p.dtype()
		case "DATASPACE":
			a.Space = p.space()
		case "DATA":
			a.Data = p.data()
		default:
			p.fail("unknown attribute item %q", w)
		}
	}
	p.expect('}')
	return a
}

var (
	stdIntRE  = regexp.MustCompile(`^H5T_STD_([IUB])(8|16|32|64)(BE|LE)$`)
	ieeeRE    = regexp.MustCompile(`^H5T_IEEE_F(16|32|64)(BE|LE)$`)
	complexRE = regexp.MustCompile(`^H5T_COMPLEX_IEEE_F(16|32|64)(BE|LE)$`)
	bfloatRE  = regexp.MustCompile(`^H5T_FLOAT_BFLOAT16(BE|LE)$`)
	dimRE     = regexp.MustCompile(`^\[(\d+)\]`)
	strSizeRE = regexp.MustCompile(`STRSIZE\s+(\d+|H5T_VARIABLE)\s*;`)
	strPadRE  = regexp.MustCompile(`STRPAD\s+H5T_STR_(NULLTERM|NULLPAD|SPACEPAD)\s*;`)
)

func unknownType(text string) *DType { return &DType{Kind: "unknown", Text: text} }

// dtype parses a datatype expression.
func (p *parser) dtype() *DType {
	if p.peek() == '"' {
		return &DType{Kind: "named", Ref: p.name()}
	}
	w := p.word()
	switch {
	case w == "H5T_STRING":
		st := p.i
		p.skipBalanced()
		body := p.s[st:p.i]
		t := &DType{Kind: "string", Text: "H5T_STRING"}
		m := strSizeRE.FindStringSubmatch(body)
		pm := strPadRE.FindStringSubmatch(body)
		if m == nil || pm == nil {
			return unknownType("H5T_STRING " + body)
		}
		t.StrPad = pm[1]
		if m[1] == "H5T_VARIABLE" {
			t.Kind = "vlstring"
		} else {
			t.Size, _ = strconv.Atoi(m[1])
		}
		return t
	case w == "H5T_COMPOUND":
		t := &DType{Kind: "compound", Text: w}
		p.expect('{')
		for p.peek() != '}' {
			if p.eof() {
				p.fail("eof in compound")
			}
			mt := p.dtype()
			nm := p.name()
			// optional ": offset" is never printed by the shipped DDLs; reject anything else
			p.expect(';')
			t.Members = append(t.Members, Member{Name: nm, Type: mt})
		}
		p.expect('}')
		return t
	case w == "H5T_ARRAY":
		t := &DType{Kind: "array", Text: w}
		p.expect('{')
		p.ws()
		for {
			m := dimRE.FindStringSubmatch(p.s[p.i:])
			if m == nil {
				break
			}
			v, _ := strconv.ParseUint(m[1], 10, 64)
			t.Dims = append(t.Dims, v)
			p.i += len(m[0])
		}
		if len(t.Dims) == 0 {
			p.fail("array without dims")
		}
		t.Base = p.dtype()
		p.expect('}')
		return t
	case w == "H5T_VLEN":
		t := &DType{Kind: "vlen", Text: w}
		p.expect('{')
		t.Base = p.dtype()
		p.expect('}')
		return t
	case w == "H5T_ENUM":
		t := &DType{Kind: "enum", Text: w}
		p.expect('{')
		t.Base = p.dtype()
		if p.peek() == ';' {
			p.i++
		}
		// members: "name" value;  -- not needed, skip to the closing brace
		depth := 1
		for p.i < len(p.s) && depth > 0 {
			switch p.s[p.i] {
			case '"':
				p.quoted()
				continue
			case '{':
				depth++
			case '}':
				depth--
			}
			p.i++
		}
		if depth != 0 {
			p.fail("unbalanced enum")
		}
		if t.Base != nil && t.Base.Kind == "int" {
			t.Size = t.Base.Size
		}
		return t
	case w == "H5T_OPAQUE":
		p.skipBalanced()
		return &DType{Kind: "opaque", Text: w}
	case w == "H5T_REFERENCE":
		p.skipBalanced()
		return &DType{Kind: "reference", Text: w}
	case w == "H5T_COMPLEX":
		if p.peek() == '{' {
			p.skipBalanced()
		}
		return &DType{Kind: "complex", Text: w}
	}
	if m := stdIntRE.FindStringSubmatch(w); m != nil {
		bits, _ := strconv.Atoi(m[2])
		t := &DType{Kind: "int", Size: bits / 8, BE: m[3] == "BE", Signed: m[1] == "I", Text: w}
		if m[1] == "B" {
			t.Kind = "bitfield"
			t.Signed = false
		}
		return t
	}
	if m := ieeeRE.FindStringSubmatch(w); m != nil {
		bits, _ := strconv.Atoi(m[1])
		return &DType{Kind: "float", Size: bits / 8, BE: m[2] == "BE", Text: w}
	}
	if m := complexRE.FindStringSubmatch(w); m != nil {
		bits, _ := strconv.Atoi(m[1])
		return &DType{Kind: "complex", Size: bits / 4, BE: m[2] == "BE", Text: w}
	}
	if m := bfloatRE.FindStringSubmatch(w); m != nil {
		return &DType{Kind: "float", Size: 2, BE: m[1] == "BE", Text: w}
	}
	// anything else ("128-bit little-endian floating-point 80-bit precision", H5T_NATIVE_*, ...):
	// take the rest of the line, and a balanced block if one opens on it
	line := w + " " + p.restOfLine()
	if k := strings.IndexByte(line, '{'); k >= 0 {
		p.fail("unknown datatype with block: %q", line)
	}
	if strings.TrimSpace(line) == "" {
		p.fail("empty datatype")
	}
	return unknownType(line)
}

var (
	simpleRE = regexp.MustCompile(`^SIMPLE\s*\{\s*\(([^)]*)\)\s*/\s*\(([^)]*)\)\s*\}`)
)

func parseDims(s string) ([]uint64, bool) {
	var out []uint64
	for _, f := range strings.Split(s, ",") {
		f = strings.TrimSpace(f)
		if f == "H5S_UNLIMITED" {
			out = append(out, ^uint64(0))
			continue
		}
		v, err := strconv.ParseUint(f, 10, 64)
		if err != nil {
			return nil, false
		}
		out = append(out, v)
	}
	return out, true
}

func (p *parser) space() *Space {
	p.ws()
	rest := p.s[p.i:]
	switch {
	case strings.HasPrefix(rest, "SCALAR"):
		p.i += len("SCALAR")
		return &Space{Kind: "scalar"}
	case strings.HasPrefix(rest, "NULL"):
		p.i += len("NULL")
		return &Space{Kind: "null"}
	}
	if m := simpleRE.FindStringSubmatch(rest); m != nil {
		p.i += len(m[0])
		d, ok1 := parseDims(m[1])
		mx, ok2 := parseDims(m[2])
		if ok1 && ok2 && len(d) == len(mx) {
			return &Space{Kind: "simple", Dims: d, Max: mx}
		}
		return &Space{Kind: "unknown"}
	}
	w := p.word()
	if p.peek() == '{' {
		p.skipBalanced()
		return &Space{Kind: "unknown"}
	}
	p.fail("unknown dataspace %q", w)
	return nil
}

// ---------------------------------------------------------------------------------------------
// DATA blocks

var indexRE = regexp.MustCompile(`^\(\s*\d+(\s*,\s*\d+)*\s*\)\s*:`)

// data parses a DATA { ... } block into a value tree. If anything inside is not understood the block is
// skipped by brace counting and marked Understood=false.
func (p *parser) data() *Data {
	p.expect('{')
	start := p.i
	d := &Data{Understood: true}
	ok := func() (ok bool) {
		defer func() {
			if r := recover(); r != nil {
				if pe, isPE := r.(parseErr); isPE {
					d.Why = pe.msg
					ok = false
					return
				}
				panic(r)
			}
		}()
		for {
			c := p.peek()
			if c == '}' {
				p.i++
				return true
			}
			if c == 0 {
				p.fail("eof in DATA")
			}
			if m := indexRE.FindString(p.s[p.i:]); m != "" {
				p.i += len(m)
				continue
			}
			d.Vals = append(d.Vals, p.value())
			if p.peek() == ',' {
				p.i++
			}
		}
	}()
	if ok {
		return d
	}
	// not understood: find the end of the block by brace counting from the start
	d.Understood = false
	d.Vals = nil
	p.i = start
	depth := 1
	for p.i < len(p.s) {
		switch p.s[p.i] {
		case '"':
			func() {
				defer func() {
					if r := recover(); r != nil {
						if _, isPE := r.(parseErr); !isPE {
							panic(r)
						}
						p.i++
					}
				}()
				p.quoted()
			}()
			continue
		case '{':
			depth++
		case '}':
			depth--
			if depth == 0 {
				p.i++
				return d
			}
		}
		p.i++
	}
	p.fail("unbalanced DATA block")
	return nil
}

func closer(open byte) byte {
	switch open {
	case '{':
		return '}'
	case '[':
		return ']'
	}
	return ')'
}

func isBareByte(c byte) bool {
	return isWordByte(c) || c == '+' || c == ':' || c == '/' || c == '#' || c == '%' || c == '*' || c == '=' || c == '~'
}

func (p *parser) value() *Val {
	c := p.peek()
	switch c {
	case '{', '[', '(':
		p.i++
		v := &Val{K: c}
		cl := closer(c)
		for {
			n := p.peek()
			if n == cl {
				p.i++
				return v
			}
			if n == 0 {
				p.fail("eof in value group")
			}
			if m := indexRE.FindString(p.s[p.i:]); m != "" && c != '(' {
				// h5dump re-prints an index inside very long arrays/compounds
				p.i += len(m)
				continue
			}
			v.Kids = append(v.Kids, p.value())
			n = p.peek()
			if n == ',' {
				p.i++
			} else if n != cl {
				p.fail("expected , or %c in value group, found %q", cl, p.rest(12))
			}
		}
	case '"':
		s, rawNL := p.quoted()
		if rawNL {
			p.fail("raw newline inside a string literal (h5dump -r output is ambiguous)")
		}
		p.checkAfterValue()
		return &Val{K: 's', S: s}
	}
	st := p.i
	for p.i < len(p.s) && isBareByte(p.s[p.i]) {
		p.i++
	}
	if p.i == st {
		p.fail("unexpected %q in DATA", p.rest(12))
	}
	v := &Val{K: 'n', S: p.s[st:p.i]}
	p.checkAfterValue()
	return v
}

// checkAfterValue requires a value to be followed by ',' or a closing bracket: two tokens in a row mean a
// construct the parser does not know (object references, region references, raw strings, enum names with blanks).
func (p *parser) checkAfterValue() {
	switch p.peek() {
	case ',', '}', ']', ')':
		return
	}
	p.fail("token followed by %q without separator", p.rest(12))
}

// ---------------------------------------------------------------------------------------------
// Resolution helpers

// Index maps absolute paths to nodes for one block and assigns Node.Path.
type Index struct {
	ByPath map[string]*Node
	Order  []*Node
}

func joinPath(parent, name string) string {
	if parent == "/" {
		return "/" + name
	}
	return parent + "/" + name
}

func BuildIndex(b *Block) *Index {
	ix := &Index{ByPath: map[string]*Node{}}
	var walk func(n *Node, path string)
	walk = func(n *Node, path string) {
		n.Path = path
		if _, dup := ix.ByPath[path]; !dup {
			ix.ByPath[path] = n
		}
		ix.Order = append(ix.Order, n)
		for _, c := range n.Children {
			walk(c, joinPath(path, c.Name))
		}
	}
	for _, t := range b.Top {
		path := t.Name
		if !strings.HasPrefix(path, "/") {
			path = "/" + path
		}
		walk(t, path)
	}
	return ix
}

// ResolveType follows named-type references through the committed datatypes defined in the same block.
func (ix *Index) ResolveType(t *DType) *DType {
	for depth := 0; t != nil && t.Kind == "named" && depth < 8; depth++ {
		n := ix.ByPath[t.Ref]
		for hop := 0; n != nil && n.Hardlink != "" && hop < 8; hop++ {
			n = ix.ByPath[n.Hardlink]
		}
		if n == nil || n.Kind != "datatype" || n.Type == nil {
			return unknownType("unresolved named type " + t.Ref)
		}
		t = n.Type
	}
	if t == nil {
		return unknownType("missing")
	}
	if t.Kind == "named" {
		return unknownType("named type chain")
	}
	return t
}
