package c06

import (
	"crypto/sha256"
	_ "embed"
	"encoding/binary"
	"encoding/json"
	"fmt"
	"os"
	"path/filepath"
	"sort"
	"strings"
	"sync"
	"testing"

	"github.com/scigolib/hdf5/verif/vt"
)

const prop = "C06"
const sub = "corpus"

// Case is the replay unit: one object (Aspect=="" : every aspect of it) of one file against one DDL.
type Case struct {
	DDL    string `json:"ddl"`
	File   string `json:"file"`
	Path   string `json:"path"`
	Aspect string `json:"aspect"`
}

// ---------------------------------------------------------------------------------------------
// known findings: explicit (file, path, aspect, kind) lists per root cause, read-only

//go:embed known_triples.json
var knownTriplesJSON []byte

type triple struct {
	File   string `json:"file"`
	Path   string `json:"path"`
	Aspect string `json:"aspect"`
	Kind   string `json:"kind"`
}

type knownFile struct {
	Findings []struct {
		ID      string   `json:"id"`
		What    string   `json:"what"`
		Triples []triple `json:"triples"`
	} `json:"findings"`
	Exclusions []struct {
		triple
		Why string `json:"why"`
	} `json:"oracle_exclusions"`
}

type knownEntry struct{ id, what string }

var oracleExcluded = sync.OnceValue(func() map[triple]string {
	var kf knownFile
	m := map[triple]string{}
	if err := json.Unmarshal(knownTriplesJSON, &kf); err != nil {
		panic("known_triples.json: " + err.Error())
	}
	for _, x := range kf.Exclusions {
		m[x.triple] = x.Why
	}
	return m
})

var knownIndex = sync.OnceValue(func() map[triple]knownEntry {
	var kf knownFile
	m := map[triple]knownEntry{}
	if err := json.Unmarshal(knownTriplesJSON, &kf); err != nil {
		panic("known_triples.json: " + err.Error())
	}
	for _, f := range kf.Findings {
		for _, t := range f.Triples {
			m[t] = knownEntry{f.ID, f.What}
		}
	}
	return m
})

func classifyMismatch(m Mismatch) vt.Verdict {
	if why, ok := oracleExcluded()[triple{m.File, m.Path, m.Aspect, m.Kind}]; ok {
		return vt.Skipped("DDL does not describe the shipped file: %s", why)
	}
	if e, ok := knownIndex()[triple{m.File, m.Path, m.Aspect, m.Kind}]; ok {
		return vt.KnownOr(e.id, "%s %s [%s] %s: %s", m.File, m.Path, m.Aspect, m.Kind, m.Detail)
	}
	return vt.Bad("%s %s [%s] %s: %s (ddl %s)", m.File, m.Path, m.Aspect, m.Kind, m.Detail, m.DDL)
}

// ---------------------------------------------------------------------------------------------
// corpus

func corpusDir() string {
	if d := os.Getenv("VERIF_CORPUS"); d != "" {
		return d
	}
	return "/repo/testdata/hdf5_official"
}

type corpus struct {
	h5      map[string]string // base name -> path
	emptied map[string]bool
	ddls    []string // sorted DDL base names
}

var loadCorpus = sync.OnceValue(func() *corpus {
	c := &corpus{h5: map[string]string{}, emptied: map[string]bool{}}
	if b, err := os.ReadFile("/root/.vp/EMPTIED_FILES.txt"); err == nil {
		for _, l := range strings.Split(string(b), "\n") {
			if l = strings.TrimSpace(l); l != "" {
				c.emptied[filepath.Base(l)] = true
			}
		}
	}
	root := corpusDir()
	var paths []string
	_ = filepath.Walk(root, func(p string, fi os.FileInfo, err error) error {
		if err != nil {
			return nil
		}
		if fi.IsDir() {
			if fi.Name() == "ddl" {
				return filepath.SkipDir
			}
			return nil
		}
		paths = append(paths, p)
		if fi.Size() == 0 {
			c.emptied[fi.Name()] = true
		}
		return nil
	})
	sort.Strings(paths)
	for _, p := range paths {
		b := filepath.Base(p)
		if _, dup := c.h5[b]; !dup {
			c.h5[b] = p
		}
	}
	ents, _ := os.ReadDir(filepath.Join(root, "ddl"))
	for _, e := range ents {
		if !e.IsDir() && strings.HasSuffix(e.Name(), ".ddl") {
			c.ddls = append(c.ddls, e.Name())
			if fi, err := e.Info(); err == nil && fi.Size() == 0 {
				c.emptied[e.Name()] = true
			}
		}
	}
	sort.Strings(c.ddls)
	return c
})

type ddlInfo struct {
	name   string
	file   string // base name of the file named by the first line
	reason string // "" = usable
	doc    *Doc
}

// classifyDDL decides whether a DDL is usable and parses it.
func classifyDDL(name string) *ddlInfo {
	c := loadCorpus()
	d := &ddlInfo{name: name}
	if c.emptied[name] {
		d.reason = "emptied-in-sandbox"
		return d
	}
	b, err := os.ReadFile(filepath.Join(corpusDir(), "ddl", name))
	if err != nil {
		d.reason = "unreadable"
		return d
	}
	text := string(b)
	fn := FirstLineFile(text)
	if fn == "" {
		d.reason = "no-HDF5-first-line(help/error text)"
		return d
	}
	d.file = filepath.Base(fn)
	if c.emptied[d.file] {
		d.reason = "emptied-in-sandbox"
		return d
	}
	if _, ok := c.h5[d.file]; !ok {
		d.reason = "file-not-shipped"
		return d
	}
	doc, err := ParseDDL(text)
	if err != nil {
		d.reason = "not-understood"
		return d
	}
	d.doc = doc
	return d
}

// ---------------------------------------------------------------------------------------------

// runDDL compares every block of one DDL whose file is shipped. Runs in its own goroutine under recover.
func runDDL(d *ddlInfo) (results []*result, crashed string) {
	c := loadCorpus()
	done := make(chan struct{})
	go func() {
		defer close(done)
		defer func() {
			if r := recover(); r != nil {
				crashed = fmt.Sprint(r)
			}
		}()
		for _, b := range d.doc.Blocks {
			fn := filepath.Base(b.File)
			p, ok := c.h5[fn]
			if !ok || c.emptied[fn] {
				continue
			}
			results = append(results, CompareFile(d.name, fn, p, b))
		}
	}()
	<-done
	return
}

func one(cs Case) vt.Verdict {
	d := classifyDDL(filepath.Base(cs.DDL))
	if d.reason != "" {
		return vt.Skipped("ddl %s not usable: %s", cs.DDL, d.reason)
	}
	results, crashed := runDDL(d)
	if crashed != "" {
		return vt.Bad("check crashed on %s: %s", cs.DDL, crashed)
	}
	var known *vt.Verdict
	n := 0
	for _, r := range results {
		for _, m := range r.mism {
			if m.File != cs.File || m.Path != cs.Path || (cs.Aspect != "" && m.Aspect != cs.Aspect) {
				continue
			}
			n++
			v := classifyMismatch(m)
			if v.Kind == vt.Violation {
				return v
			}
			if v.Kind == vt.Skip {
				continue
			}
			if known == nil {
				vv := v
				known = &vv
			} else if known.ID != v.ID {
				return vt.Bad("replay case matches several findings (%s, %s): give an aspect", known.ID, v.ID)
			}
		}
	}
	if known != nil {
		return *known
	}
	return vt.Pass()
}

func pickFiles(all []string) []string {
	if vt.Thorough() || os.Getenv("VERIF_C06_SUBSET") == "" {
		return all // the whole enumeration takes seconds: both tiers use every file
	}
	seed := vt.GetEnv().Seed
	type kv struct {
		k uint64
		n string
	}
	l := make([]kv, len(all))
	for i, n := range all {
		h := sha256.Sum256([]byte(fmt.Sprintf("c06/%d/%s", seed, n)))
		l[i] = kv{binary.LittleEndian.Uint64(h[:8]), n}
	}
	sort.Slice(l, func(i, j int) bool {
		if l[i].k != l[j].k {
			return l[i].k < l[j].k
		}
		return l[i].n < l[j].n
	})
	k := (len(all) + 2) / 3
	out := make([]string, 0, k)
	for _, x := range l[:k] {
		out = append(out, x.n)
	}
	sort.Strings(out)
	return out
}

func body(t *testing.T) {
	e := vt.GetEnv()
	rec := vt.Recorder(prop)
	c := loadCorpus()
	if err := selfCheck(); err != nil {
		t.Fatalf("harness self-check failed (not a property violation): %v", err)
	}
	if len(c.ddls) == 0 {
		t.Fatalf("no DDL files under %s/ddl", corpusDir())
	}

	// classify all DDLs (cheap) so that every shard sees the same file list
	reasons := map[string]int{}
	byFile := map[string][]*ddlInfo{}
	for _, name := range c.ddls {
		d := classifyDDL(name)
		if d.reason != "" {
			reasons[d.reason]++
			continue
		}
		reasons["usable"]++
		byFile[d.file] = append(byFile[d.file], d)
	}
	var files []string
	for f := range byFile {
		files = append(files, f)
	}
	sort.Strings(files)
	chosen := pickFiles(files)

	type key struct{ file, path, aspect, kind string }
	seenMism := map[key]bool{}
	hitTriples := map[triple]bool{}
	skips := map[string]int{}
	openErrs, nviol, nddl, nfiles := 0, 0, 0, 0
	var openErrFiles []string
	for i, f := range chosen {
		if i%e.NShards != e.Shard {
			continue
		}
		nfiles++
		fileOpenErr := false
		for _, d := range byFile[f] {
			nddl++
			results, crashed := runDDL(d)
			if crashed != "" {
				cs := Case{DDL: d.name, File: f, Path: "/"}
				p := vt.ReportViolation(prop, sub, cs, "check crashed: "+crashed)
				t.Errorf("check crashed on %s: %s (replay %s)", d.name, crashed, p)
				nviol++
				continue
			}
			for _, r := range results {
				if r.openErr != "" {
					fileOpenErr = true
					rec.Label(sub, "open:error(allowed)", 1)
					continue
				}
				rec.Label(sub, "open:ok", 1)
				for k, v := range r.skips {
					skips[k] += v
				}
				for _, o := range r.objs {
					rec.Case(sub, Case{DDL: d.name, File: f, Path: o.Path}, o.Nontrivial, o.Labels...)
				}
				for _, m := range r.mism {
					k := key{m.File, m.Path, m.Aspect, m.Kind}
					cs := Case{DDL: d.name, File: m.File, Path: m.Path, Aspect: m.Aspect}
					v := classifyMismatch(m)
					switch v.Kind {
					case vt.Skip:
						if !seenMism[k] {
							rec.SkipCase()
							rec.Label(sub, "oracle-excluded(ddl-not-of-this-file)", 1)
						}
					case vt.Known:
						hitTriples[triple{m.File, m.Path, m.Aspect, m.Kind}] = true
						if !seenMism[k] {
							rec.KnownHit(v.ID, knownIndex()[triple{m.File, m.Path, m.Aspect, m.Kind}].what, cs)
						}
					default:
						if !seenMism[k] {
							nviol++
							if nviol <= 40 {
								p := vt.ReportViolation(prop, sub, cs, v.Detail)
								t.Errorf("violation: %s (replay %s)", v.Detail, p)
							} else {
								t.Errorf("violation: %s", v.Detail)
							}
						}
					}
					seenMism[k] = true
				}
			}
		}
		if fileOpenErr {
			openErrs++
			openErrFiles = append(openErrFiles, f)
		}
	}

	rec.SetExhaustive(sub, vt.Thorough() || os.Getenv("VERIF_C06_SUBSET") == "")
	for k, v := range skips {
		if strings.HasPrefix(k, "+") {
			rec.Label(sub, k[1:], int64(v))
		} else {
			rec.Label(sub, "skip:"+k, int64(v))
		}
	}
	if openErrs > 0 {
		rec.Note("shard %d: Open failed (unsupported -> error, allowed) for %d files %v", e.Shard, openErrs, openErrFiles)
	}
	_ = nddl
	if e.Shard == 0 {
		var rs []string
		for k, v := range reasons {
			rs = append(rs, fmt.Sprintf("%s=%d", k, v))
		}
		sort.Strings(rs)
		rec.Note("DDL census (%d files under ddl/): %s; usable DDLs cover %d distinct files; this run uses %d of them", len(c.ddls), strings.Join(rs, " "), len(files), len(chosen))
	}
	// listed triples that did not fail in this run (stale entries are not an error, but worth seeing)
	if vt.Thorough() {
		mine := map[string]bool{}
		for i, f := range chosen {
			if i%e.NShards == e.Shard {
				mine[f] = true
			}
		}
		var stale []string
		for tr, ke := range knownIndex() {
			if mine[tr.File] && !hitTriples[tr] {
				stale = append(stale, fmt.Sprintf("%s:%s %s [%s] %s", ke.id, tr.File, tr.Path, tr.Aspect, tr.Kind))
			}
		}
		sort.Strings(stale)
		if len(stale) > 0 {
			rec.Note("shard %d: %d listed known triples did not fail in this run: %s", e.Shard, len(stale), strings.Join(stale, "; "))
		}
	}
}

func TestProp(t *testing.T) {
	vt.Run(t, prop, vt.Func[Case]{Name: sub, One: one, Body: body}, vt.Func[TreeCase]{Name: subTree, One: treeOne, Body: treeBody},
		vt.Func[PadCase]{Name: subPad, One: runPad, Body: padBody})
}
