package c06

import (
	"fmt"
	"math"
)

// selfCheck exercises the DDL parser and the value comparison on fixed inputs. A failure means the harness
// itself is broken (reported as infrastructure trouble, never as a violation of the property).
func selfCheck() error {
	type fm struct {
		got  float64
		tok  string
		sig  int
		want bool
	}
	for _, c := range []fm{
		{1.0 / 3, "0.333333", 6, true},
		{float64(float32(1.1)), "1.1", 2, true},
		{0.28125, "0.2812", 4, true}, // -m %.4g, round-half-even
		{0.29, "0.2812", 4, false},
		{1e-10, "0.0000000", 7, true}, // -m %.7f
		{-0.12345678, "-0.1234568", 7, true},
		{16777216, "1", 0, false}, // byte-swapped int read as float
		{1.17284221540043e-90, "0.0001", 1, false},
		{1.4, "1", 0, false},
		{math.NaN(), "nan", 0, true},
		{math.Inf(-1), "-inf", 0, true},
		{1e6, "1e+06", 0, true},
		{123456789, "1.23457e+08", 6, true},
	} {
		ok, err := floatMatches(c.got, c.tok, c.sig)
		if err != nil || ok != c.want {
			return fmt.Errorf("floatMatches(%v,%q,%d)=%v,%v want %v", c.got, c.tok, c.sig, ok, err, c.want)
		}
	}
	doc, err := ParseDDL(`HDF5 "x.h5" {
GROUP "/" {
   ATTRIBUTE "a" {
      DATATYPE  H5T_STD_I32BE
      DATASPACE  SIMPLE { ( 2, 2 ) / ( 2, H5S_UNLIMITED ) }
      DATA {
      (0,0): 0, 1,
      (1,0): 2, -3
      }
   }
   DATATYPE "t" H5T_COMPOUND {
      H5T_STD_U8LE "u";
      H5T_ARRAY { [2][3] H5T_IEEE_F32LE } "arr";
      H5T_STRING {
         STRSIZE 4;
         STRPAD H5T_STR_NULLPAD;
         CSET H5T_CSET_ASCII;
         CTYPE H5T_C_S1;
      } "s";
   }
      ATTRIBUTE "of_t" {
         DATATYPE  H5T_IEEE_F64LE
         DATASPACE  SCALAR
         DATA {
         (0): 0.5
         }
      }
   DATASET "d" {
      DATATYPE  "/t"
      DATASPACE  SIMPLE { ( 1 ) / ( 1 ) }
      DATA {
      (0): {
            7,
            [ 1, 2, 3,
               4, 5, 6 ],
            "a\"b\000"
         }
      }
   }
   DATASET "v" {
      DATATYPE  H5T_VLEN { H5T_STD_I32LE}
      DATASPACE  SIMPLE { ( 2 ) / ( 2 ) }
      DATA {
      (0): (1, 2), ()
      }
   }
   DATASET "r" {
      DATATYPE  H5T_REFERENCE { H5T_STD_REF_OBJECT }
      DATASPACE  SIMPLE { ( 1 ) / ( 1 ) }
      DATA {
      (0): DATASET 976 /d 
      }
   }
   GROUP "g" {
      HARDLINK "/"
   }
   SOFTLINK "sl" {
      LINKTARGET "/d"
   }
}
}
`)
	if err != nil {
		return fmt.Errorf("self DDL: %v", err)
	}
	b := doc.Blocks[0]
	ix := BuildIndex(b)
	root := ix.ByPath["/"]
	if root == nil || len(root.Children) != 6 || len(root.Attrs) != 1 {
		return fmt.Errorf("self DDL: root has %d children / %d attrs", len(root.Children), len(root.Attrs))
	}
	a := root.Attrs[0]
	if a.Type.Kind != "int" || !a.Type.BE || !a.Type.Signed || a.Space.Max[1] != ^uint64(0) || len(a.Data.Vals) != 4 || a.Data.Vals[3].S != "-3" {
		return fmt.Errorf("self DDL: attribute a parsed wrongly")
	}
	if t := ix.ByPath["/t"]; t == nil || len(t.Attrs) != 1 || len(t.Type.Members) != 3 || t.Type.Members[1].Type.Kind != "array" ||
		len(t.Type.Members[1].Type.Dims) != 2 || t.Type.Members[2].Type.StrPad != "NULLPAD" {
		return fmt.Errorf("self DDL: committed datatype parsed wrongly")
	}
	d := ix.ByPath["/d"]
	if rt := ix.ResolveType(d.Type); rt.Kind != "compound" {
		return fmt.Errorf("self DDL: named type not resolved")
	}
	if !d.Data.Understood || len(d.Data.Vals) != 1 || len(d.Data.Vals[0].Kids) != 3 || len(d.Data.Vals[0].Kids[1].Kids) != 6 ||
		d.Data.Vals[0].Kids[2].S != "a\"b\x00" {
		return fmt.Errorf("self DDL: compound value parsed wrongly")
	}
	if v := ix.ByPath["/v"]; !v.Data.Understood || len(v.Data.Vals) != 2 || len(v.Data.Vals[0].Kids) != 2 || len(v.Data.Vals[1].Kids) != 0 {
		return fmt.Errorf("self DDL: vlen value parsed wrongly")
	}
	if r := ix.ByPath["/r"]; r.Data.Understood {
		return fmt.Errorf("self DDL: object reference must be marked not understood")
	}
	if g := ix.ByPath["/g"]; g.Hardlink != "/" {
		return fmt.Errorf("self DDL: hardlink group")
	}
	// expected-value comparison
	vc := &vctx{ix: ix, sig: 6}
	if diff, err := compareElem(int32(-3), a.Data.Vals[3], a.Type, vc); err != nil || diff != "" {
		return fmt.Errorf("self compare int: %q %v", diff, err)
	}
	if diff, err := compareElem(int32(3), a.Data.Vals[3], a.Type, vc); err != nil || diff == "" {
		return fmt.Errorf("self compare int must differ")
	}
	if _, err := ParseDDL("HDF5 \"x.h5\" {\nGROUP \"/\" {\n   WHATEVER 1\n}\n}\n"); err == nil {
		return fmt.Errorf("self DDL: unknown construct must be rejected")
	}
	return nil
}
