package c18

import (
	"fmt"
	"math"
	"path/filepath"
	"sort"
	"strings"

	hdf5 "github.com/scigolib/hdf5"
)

// ---- program kind (i): independent handles -----------------------------------------------------------

type objRef struct {
	path string
	obj  hdf5.Object
}

type readerState struct {
	f    [2]*hdf5.File
	objs [2][]objRef
}

func kindOf(o hdf5.Object) string {
	switch o.(type) {
	case *hdf5.Group:
		return "G"
	case *hdf5.Dataset:
		return "D"
	case *hdf5.NamedDatatype:
		return "T"
	}
	return fmt.Sprintf("%T", o)
}

func floatsDigest(v []float64) string {
	var sb strings.Builder
	for _, x := range v {
		fmt.Fprintf(&sb, "%016x,", math.Float64bits(x))
	}
	head := ""
	if len(v) > 0 {
		head = fmt.Sprintf("%v", v[0])
	}
	return fmt.Sprintf("n=%d first=%s %s", len(v), head, digest(sb.String()))
}

func attrsResult(get func() (names []string, vals []string, err error)) string {
	n, v, err := get()
	if err != nil {
		return "attrs:err"
	}
	return fmt.Sprintf("attrs:%d %s %s", len(n), clip(strings.Join(n, ","), 60), digest(append(n, v...)...))
}

func attrList(o hdf5.Object) (names []string, vals []string, err error) {
	switch x := o.(type) {
	case *hdf5.Dataset:
		as, e := x.Attributes()
		if e != nil {
			return nil, nil, e
		}
		for _, a := range as {
			names = append(names, a.Name)
			vals = append(vals, attrValue(a))
		}
	case *hdf5.Group:
		as, e := x.Attributes()
		if e != nil {
			return nil, nil, e
		}
		for _, a := range as {
			names = append(names, a.Name)
			vals = append(vals, attrValue(a))
		}
	}
	return names, vals, nil
}

type attrLike interface {
	ReadValue() (interface{}, error)
}

func attrValue(a attrLike) string {
	v, err := a.ReadValue()
	if err != nil {
		return "valerr"
	}
	switch x := v.(type) {
	case float64:
		return fmt.Sprintf("f64:%016x", math.Float64bits(x))
	case float32:
		return fmt.Sprintf("f32:%08x", math.Float32bits(x))
	case []float64:
		return "f64s:" + floatsDigest(x)
	case []float32:
		var sb strings.Builder
		for _, y := range x {
			fmt.Fprintf(&sb, "%08x,", math.Float32bits(y))
		}
		return "f32s:" + sb.String()
	}
	return fmt.Sprintf("%T:%v", v, v)
}

func datasetResult(d *hdf5.Dataset) string {
	var parts []string
	if s, err := d.Info(); err != nil {
		parts = append(parts, "info:err")
	} else {
		parts = append(parts, "info:"+s)
	}
	if v, err := d.Read(); err != nil {
		parts = append(parts, "read:err")
	} else {
		parts = append(parts, "read:"+floatsDigest(v))
	}
	if v, err := d.ReadStrings(); err != nil {
		parts = append(parts, "strs:err")
	} else {
		parts = append(parts, fmt.Sprintf("strs:%d %s", len(v), digest(v...)))
	}
	if v, err := d.ReadCompound(); err != nil {
		parts = append(parts, "cmpd:err")
	} else {
		parts = append(parts, fmt.Sprintf("cmpd:%d %s", len(v), digest(fmt.Sprintf("%v", v))))
	}
	// partial reads and the chunk iterator (several per call: they are what readers of large datasets use)
	if it, err := d.ChunkIterator(); err != nil {
		parts = append(parts, "iter:err")
	} else {
		n := 0
		for it.Next() && n < 8 {
			if v, err := it.Chunk(); err != nil {
				parts = append(parts, "chunk:err")
			} else if f, ok := v.([]float64); ok {
				parts = append(parts, "chunk:"+floatsDigest(f))
			}
			n++
		}
		if dims := it.DatasetDims(); len(dims) > 0 && len(dims) <= 4 {
			start, count := make([]uint64, len(dims)), make([]uint64, len(dims))
			for i, x := range dims {
				count[i] = (x + 1) / 2
				start[i] = x - count[i]
			}
			if v, err := d.ReadSlice(start, count); err != nil {
				parts = append(parts, "slice:err")
			} else if f, ok := v.([]float64); ok {
				parts = append(parts, "slice:"+floatsDigest(f))
			}
		}
	}
	return clip(parts[1], 70) + " " + digest(parts...)
}

// observeFile is the full observation of a file through a fresh handle.
func observeFile(path string) string {
	f, err := hdf5.Open(path)
	if err != nil {
		return "open:err"
	}
	defer f.Close()
	var parts []string
	f.Walk(func(p string, o hdf5.Object) {
		parts = append(parts, p+":"+kindOf(o))
		if d, ok := o.(*hdf5.Dataset); ok {
			parts = append(parts, datasetResult(d))
		}
		parts = append(parts, attrsResult(func() ([]string, []string, error) { return attrList(o) }))
	})
	return fmt.Sprintf("objs=%d %s", len(parts), digest(parts...))
}

func (w *worker) basePath(name string) string {
	// "corpus:simple.h5" / "gen:a" -> file in the base directory prepared by the parent
	name = strings.NewReplacer(":", "_", "/", "_").Replace(name)
	return filepath.Join(w.job.BaseDir, name)
}

func (w *worker) execReader(i int, th Thread, conc bool) []string {
	var st readerState
	res := make([]string, 0, len(th.Ops)+1)
	closeSlot := func(s int) string {
		if st.f[s] == nil {
			return "nohandle"
		}
		err := st.f[s].Close()
		st.f[s], st.objs[s] = nil, nil
		return errStr(err)
	}
	for _, op := range th.Ops {
		s := op.A & 1
		r := w.do(i, op.K, false, func() string {
			switch op.K {
			case "open":
				if st.f[s] != nil {
					closeSlot(s)
				}
				if len(w.c.Files) == 0 {
					return "nofile"
				}
				name := w.c.Files[((op.B%len(w.c.Files))+len(w.c.Files))%len(w.c.Files)]
				f, err := hdf5.Open(w.basePath(name))
				if err != nil {
					return "open:err"
				}
				st.f[s] = f
				return fmt.Sprintf("open:ok v%d", f.SuperblockVersion())
			case "walk":
				if st.f[s] == nil {
					return "nohandle"
				}
				var objs []objRef
				var parts []string
				st.f[s].Walk(func(p string, o hdf5.Object) {
					objs = append(objs, objRef{p, o})
					parts = append(parts, p+":"+kindOf(o))
				})
				st.objs[s] = objs
				return fmt.Sprintf("walk:%d %s %s", len(objs), clip(strings.Join(parts, " "), 80), digest(parts...))
			case "read":
				if st.f[s] == nil {
					return "nohandle"
				}
				var ds []*hdf5.Dataset
				for _, o := range st.objs[s] {
					if d, ok := o.obj.(*hdf5.Dataset); ok {
						ds = append(ds, d)
					}
				}
				if len(ds) == 0 {
					return "nods"
				}
				return datasetResult(ds[((op.B%len(ds))+len(ds))%len(ds)])
			case "attrs":
				if st.f[s] == nil {
					return "nohandle"
				}
				if len(st.objs[s]) == 0 {
					return "noobj"
				}
				o := st.objs[s][((op.B%len(st.objs[s]))+len(st.objs[s]))%len(st.objs[s])]
				return attrsResult(func() ([]string, []string, error) { return attrList(o.obj) })
			case "close":
				return closeSlot(s)
			}
			return "unknown-op"
		})
		w.vet(i, r, conc, false)
		res = append(res, r)
		pause(op.P)
	}
	res = append(res, w.do(i, "close-all", false, func() string { return closeSlot(0) + closeSlot(1) }))
	return res
}

// ---- writers ------------------------------------------------------------------------------------------

var writerTypes = []struct {
	name string
	dt   hdf5.Datatype
}{{"f64", hdf5.Float64}, {"f32", hdf5.Float32}, {"i32", hdf5.Int32}, {"i64", hdf5.Int64}, {"u8", hdf5.Uint8},
	// types whose description depends on creation options (string size, array dims): the registry entry that serves
	// them is shared by every writer in the process
	{"str", hdf5.String}, {"arr", hdf5.ArrayInt32}}

// typeParam: string size / array length chosen by the op (1..9), different from writer to writer.
func typeParam(b int) int { return 1 + ((b%9)+9)%9 }

func seqValue(seed, k int) uint64 {
	x := uint64(seed)*0x9E3779B97F4A7C15 + uint64(k)*0xBF58476D1CE4E5B9 + 1
	x ^= x >> 31
	x *= 0x94D049BB133111EB
	x ^= x >> 29
	return x
}

func datasetValues(ti, n, seed int) any {
	switch writerTypes[ti].name {
	case "str":
		v := make([]string, n)
		for k := range v {
			v[k] = fmt.Sprintf("%016x", seqValue(seed, k))[:1+k%typeParam(seed)]
		}
		return v
	case "arr":
		v := make([]int32, n*typeParam(seed))
		for k := range v {
			v[k] = int32(seqValue(seed, k))
		}
		return v
	case "f64":
		v := make([]float64, n)
		for k := range v {
			v[k] = math.Float64frombits(seqValue(seed, k)>>12 | 0x3FF0000000000000)
		}
		return v
	case "f32":
		v := make([]float32, n)
		for k := range v {
			v[k] = math.Float32frombits(uint32(seqValue(seed, k)>>41) | 0x3F800000)
		}
		return v
	case "i32":
		v := make([]int32, n)
		for k := range v {
			v[k] = int32(seqValue(seed, k))
		}
		return v
	case "i64":
		v := make([]int64, n)
		for k := range v {
			v[k] = int64(seqValue(seed, k) >> 12) // stays exact in float64
		}
		return v
	default:
		v := make([]uint8, n)
		for k := range v {
			v[k] = uint8(seqValue(seed, k))
		}
		return v
	}
}

func attrValueFor(seed int) any {
	switch ((seed % 6) + 6) % 6 {
	case 0:
		return int32(seqValue(seed, 0))
	case 1:
		return math.Float64frombits(seqValue(seed, 1)>>12 | 0x3FF0000000000000)
	case 2:
		return fmt.Sprintf("s%x", seqValue(seed, 2)&0xFFFFFF)
	case 3:
		return []float64{float64(seed), 0.5, float64(seqValue(seed, 3) & 0xFFFF)}
	case 4:
		return []int32{int32(seed), int32(seqValue(seed, 4))}
	default:
		return int64(seqValue(seed, 5) >> 8)
	}
}

func attrName(k int) string { return fmt.Sprintf("a%02d", ((k%24)+24)%24) }

type writerState struct {
	fw   *hdf5.FileWriter
	path string
	dss  []*hdf5.DatasetWriter
	nds  int
	ngrp int
}

func (w *worker) execWriter(i int, th Thread, tag string, conc bool) []string {
	st := &writerState{path: filepath.Join(w.job.WorkDir, fmt.Sprintf("w-%s-%d.h5", tag, i))}
	res := make([]string, 0, len(th.Ops)+1)
	closeAndObserve := func() string {
		if st.fw == nil {
			return "nowriter"
		}
		err := st.fw.Close()
		st.fw, st.dss = nil, nil
		if err != nil {
			return "close:err"
		}
		return "close:ok " + observeFile(st.path)
	}
	for _, op := range th.Ops {
		stopLike := op.K == "wclose"
		r := w.do(i, op.K, stopLike, func() string {
			switch op.K {
			case "wcreate":
				if st.fw != nil {
					_ = st.fw.Close()
					st.fw, st.dss = nil, nil
				}
				ver := uint8(2)
				if op.A%4 == 1 {
					ver = 0
				}
				fw, err := hdf5.CreateForWrite(st.path, hdf5.CreateTruncate, hdf5.WithSuperblockVersion(ver))
				if err != nil {
					return "create:err"
				}
				st.fw, st.nds, st.ngrp = fw, 0, 0
				return "create:ok"
			case "wds":
				if st.fw == nil {
					return "nowriter"
				}
				ti := ((op.A % len(writerTypes)) + len(writerTypes)) % len(writerTypes)
				n := 1 + ((op.B%40)+40)%40
				name := fmt.Sprintf("/d%d", st.nds)
				st.nds++
				var opts []hdf5.DatasetOption
				if op.B%3 != 1 && n >= 4 {
					opts = append(opts, hdf5.WithChunkDims([]uint64{uint64(n/2 + 1)}))
					// every second chunked dataset is filtered, with the same settings in every writer of the program (whatever a
					// filter keeps between calls is then in use by all of them at once)
					if op.A%2 == 0 {
						opts = append(opts, hdf5.WithShuffle(), hdf5.WithGZIPCompression(6), hdf5.WithFletcher32())
					}
				}
				switch writerTypes[ti].name {
				case "str":
					opts = append(opts, hdf5.WithStringSize(uint32(typeParam(op.B))))
				case "arr":
					opts = append(opts, hdf5.WithArrayDims([]uint64{uint64(typeParam(op.B))}))
				}
				ds, err := st.fw.CreateDataset(name, writerTypes[ti].dt, []uint64{uint64(n)}, opts...)
				if err != nil {
					return "ds:err"
				}
				st.dss = append(st.dss, ds)
				return "ds:ok write:" + errStr(ds.Write(datasetValues(ti, n, op.B)))
			case "wgrp":
				if st.fw == nil {
					return "nowriter"
				}
				name := fmt.Sprintf("/g%d", st.ngrp)
				st.ngrp++
				g, err := st.fw.CreateGroup(name)
				if err != nil {
					return "grp:err"
				}
				return "grp:ok attr:" + errStr(g.WriteAttribute("ga", attrValueFor(op.B)))
			case "wattr":
				if st.fw == nil || len(st.dss) == 0 {
					return "nods"
				}
				ds := st.dss[((op.A%len(st.dss))+len(st.dss))%len(st.dss)]
				return "wattr:" + errStr(ds.WriteAttribute(attrName(op.B), attrValueFor(op.B)))
			case "wattrs": // a run of attributes: pushes the object into dense storage
				if st.fw == nil || len(st.dss) == 0 {
					return "nods"
				}
				ds := st.dss[((op.A%len(st.dss))+len(st.dss))%len(st.dss)]
				var sb strings.Builder
				for k := 0; k < 10; k++ {
					sb.WriteString(errStr(ds.WriteAttribute(attrName(op.B+k), attrValueFor(op.B+k))))
				}
				return "wattrs:" + sb.String()
			case "dattr":
				if st.fw == nil || len(st.dss) == 0 {
					return "nods"
				}
				ds := st.dss[((op.A%len(st.dss))+len(st.dss))%len(st.dss)]
				return "dattr:" + errStr(ds.DeleteAttribute(attrName(op.B)))
			case "wclose":
				return closeAndObserve()
			}
			return "unknown-op"
		})
		w.vet(i, r, conc, false)
		res = append(res, r)
		pause(op.P)
	}
	r := w.do(i, "close-final", true, closeAndObserve)
	w.vet(i, r, conc, false)
	return append(res, r)
}

// execHandleThread runs the op list of thread i.
func (w *worker) execHandleThread(i int, tag string, conc bool) []string {
	th := w.c.Threads[i]
	if th.Role == "writer" {
		return w.execWriter(i, th, tag, conc)
	}
	return w.execReader(i, th, conc)
}

func opNames(th Thread) []string {
	out := make([]string, 0, len(th.Ops)+1)
	for _, o := range th.Ops {
		out = append(out, o.K)
	}
	return append(out, "final")
}

func (w *worker) runHandles() {
	n := len(w.c.Threads)
	reps := w.c.Reps
	if reps < 1 {
		reps = 1
	}
	// The concurrent phase comes first, in this fresh process: anything the library initialises lazily on first
	// use is then first used concurrently. The sequential reference is taken afterwards.
	all := make([][][]string, reps)
	for rep := 0; rep < reps; rep++ {
		w.tr.phase.Store("conc")
		w.tr.resetWindows()
		baseline := goroutineBaseline()
		got := make([][]string, n)
		bodies := make([]func(), n)
		for i := 0; i < n; i++ {
			i := i
			bodies[i] = func() { got[i] = w.execHandleThread(i, fmt.Sprintf("c%d", rep), true) }
		}
		w.runThreads(bodies)
		if w.tr.windowsOverlap(n) {
			w.mu.Lock()
			w.out.Overlap = true
			w.mu.Unlock()
		}
		all[rep] = got
		w.settle(baseline, "handles")
	}
	// sequential reference, twice: ops whose sequential result is not reproducible are masked (they cannot be
	// compared; determinism is not what C18 is about)
	w.tr.phase.Store("seq")
	ref := make([][]string, n)
	mask := make([][]bool, n)
	for i := 0; i < n; i++ {
		ref[i] = w.execHandleThread(i, "s1", false)
	}
	for i := 0; i < n; i++ {
		again := w.execHandleThread(i, "s2", false)
		mask[i] = make([]bool, len(ref[i]))
		for k := range ref[i] {
			if k >= len(again) || again[k] != ref[i][k] {
				mask[i][k] = true
				w.mu.Lock()
				w.out.Nondet++
				w.mu.Unlock()
			}
		}
	}
	for rep := 0; rep < reps; rep++ {
		for i := 0; i < n; i++ {
			w.compare(i, rep, opNames(w.c.Threads[i]), ref[i], all[rep][i], mask[i])
		}
	}
}

func sortedKeys(m map[string]bool) []string {
	var out []string
	for k := range m {
		out = append(out, k)
	}
	sort.Strings(out)
	return out
}
