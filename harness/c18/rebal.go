package c18

import (
	"fmt"
	"path/filepath"
	"strings"
	"sync/atomic"
	"time"

	hdf5 "github.com/scigolib/hdf5"
	"github.com/scigolib/hdf5/internal/structures"
)

// ---- program kind (ii-a): WritableBTreeV2 with lazy + incremental rebalancing -------------------------------

func recName(k int) string { return fmt.Sprintf("n%03d", ((k%400)+400)%400) }

func (w *worker) interval(scale int) time.Duration {
	us := w.c.IntUS
	if us < 1 {
		us = 1
	}
	switch ((scale % 3) + 3) % 3 {
	case 1:
		us *= 3
	case 2:
		us = (us + 1) / 2
	}
	return time.Duration(us) * time.Microsecond
}

func (w *worker) budget() time.Duration {
	us := w.c.BudUS
	if us < 1 {
		us = 1
	}
	return time.Duration(us) * time.Microsecond
}

type btreeRun struct {
	results []string
	final   string
}

// execBTreeFG runs the foreground op list (cycled Loops times) on a fresh tree. With background=false the
// incremental rebalancer is configured with an interval it never reaches: this is the sequential reference.
func (w *worker) execBTreeFG(i int, th Thread, background bool, ticks *atomic.Int64, bt *structures.WritableBTreeV2) btreeRun {
	var out btreeRun
	loops := w.c.Loops
	if loops < 1 {
		loops = 1
	}
	for l := 0; l < loops; l++ {
		for _, op := range th.Ops {
			stopLike := op.K == "stop"
			r := w.do(i, op.K, stopLike, func() string {
				switch op.K {
				case "ins":
					return errStr(bt.InsertRecord(recName(op.A), uint64(op.A)+1))
				case "del":
					return errStr(bt.DeleteRecordLazy(recName(op.A)))
				case "search":
					id, ok := bt.SearchRecord(recName(op.A))
					return fmt.Sprintf("%v %x", ok, id)
				case "stats":
					u, p, _ := bt.GetLazyRebalancingStats()
					if u < 0 || p < 0 {
						return fmt.Sprintf("negative stats %d %d", u, p)
					}
					return ""
				case "prog":
					p, err := bt.GetIncrementalRebalancingProgress()
					if err == nil {
						if s := progressSane(p); s != "" {
							w.invariant("foreground progress query: %s", s)
						}
					}
					return errStr(err)
				case "isinc":
					return fmt.Sprint(bt.IsIncrementalRebalancingEnabled())
				case "stop":
					return errStr(bt.StopIncrementalRebalancing())
				case "enable":
					cfg := structures.DefaultIncrementalConfig()
					cfg.Interval = time.Hour
					if background {
						cfg.Interval = w.interval(op.A)
					}
					cfg.Budget = w.budget()
					cfg.ProgressCallback = func(structures.RebalancingProgress) { ticks.Add(1) }
					return errStr(bt.EnableIncrementalRebalancing(cfg))
				case "force":
					return errStr(bt.ForceBatchRebalance())
				case "lazyon":
					cfg := structures.DefaultLazyConfig()
					cfg.Threshold = []float64{0.05, 0.2, 0.01}[((op.A%3)+3)%3]
					bt.EnableLazyRebalancing(cfg)
					return ""
				case "lazyoff":
					// incremental mode requires lazy mode: stop the background work first, as the API documents
					e1 := bt.StopIncrementalRebalancing()
					return errStr(e1) + errStr(bt.DisableLazyRebalancing())
				}
				return "unknown-op"
			})
			w.vet(i, r, background, false)
			out.results = append(out.results, r)
			pause(op.P)
		}
	}
	return out
}

func progressSane(p structures.RebalancingProgress) string {
	switch {
	case p.NodesRemaining < 0 || p.NodesRebalanced < 0:
		return fmt.Sprintf("negative counters in %+v", p)
	case p.IsComplete != (p.NodesRemaining == 0):
		return fmt.Sprintf("IsComplete=%v with NodesRemaining=%d", p.IsComplete, p.NodesRemaining)
	case p.SessionDuration < 0 || p.EstimatedRemaining < 0:
		return fmt.Sprintf("negative durations in %+v", p)
	}
	return ""
}

func recordsDigest(bt *structures.WritableBTreeV2) string {
	recs := bt.GetRecords()
	var sb strings.Builder
	for _, r := range recs {
		fmt.Fprintf(&sb, "%08x:%x,", r.NameHash, r.HeapID)
	}
	return fmt.Sprintf("records=%d %s", len(recs), digest(sb.String()))
}

func (w *worker) newTree() *structures.WritableBTreeV2 {
	node := w.c.Node
	if node < 64 {
		node = 4096
	}
	bt := structures.NewWritableBTreeV2(uint32(node))
	for k := 0; k < w.c.Prefill; k++ {
		_ = bt.InsertRecord(recName(k), uint64(k)+1)
	}
	bt.EnableLazyRebalancing(structures.DefaultLazyConfig())
	return bt
}

// preEnable starts incremental mode from the coordinating goroutine, before the program's goroutines exist.
func (w *worker) preEnable(bt *structures.WritableBTreeV2, background bool, ticks *atomic.Int64) {
	if !w.c.PreEnable {
		return
	}
	cfg := structures.DefaultIncrementalConfig()
	cfg.Interval = time.Hour
	if background {
		cfg.Interval = w.interval(0)
	}
	cfg.Budget = w.budget()
	cfg.ProgressCallback = func(structures.RebalancingProgress) { ticks.Add(1) }
	r := w.do(len(w.c.Threads), "pre-enable", false, func() string { return errStr(bt.EnableIncrementalRebalancing(cfg)) })
	w.vet(len(w.c.Threads), r, background, false)
}

func (w *worker) finalStopTree(bt *structures.WritableBTreeV2) string {
	r := w.do(len(w.c.Threads), "final-stop", true, func() string { return errStr(bt.StopIncrementalRebalancing()) })
	w.vet(len(w.c.Threads), r, true, false)
	return r
}

func (w *worker) runBTree() {
	fgIdx := -1
	for i, th := range w.c.Threads {
		if th.Role == "fg" {
			fgIdx = i
			break
		}
	}
	if fgIdx < 0 {
		w.mu.Lock()
		w.out.SeqProblem = "btree program without a foreground thread"
		w.mu.Unlock()
		return
	}
	fg := w.c.Threads[fgIdx]
	var ticks atomic.Int64
	reps := w.c.Reps
	if reps < 1 {
		reps = 1
	}
	// concurrent phase first (see runHandles), sequential reference afterwards
	all := make([]btreeRun, reps)
	for rep := 0; rep < reps; rep++ {
		w.tr.phase.Store("conc")
		w.tr.resetWindows()
		baseline := goroutineBaseline()
		bt := w.newTree()
		w.preEnable(bt, true, &ticks)
		var fgDone atomic.Bool
		var got btreeRun
		bodies := make([]func(), 0, len(w.c.Threads))
		for i, th := range w.c.Threads {
			i, th := i, th
			if i == fgIdx {
				bodies = append(bodies, func() {
					got = w.execBTreeFG(i, th, true, &ticks, bt)
					fgDone.Store(true)
				})
				continue
			}
			bodies = append(bodies, func() { w.pollTree(i, th, bt, &fgDone) })
		}
		w.runThreads(bodies)
		got.results = append(got.results, w.finalStopTree(bt))
		got.final = recordsDigest(bt)
		if w.tr.windowsOverlap(len(w.c.Threads)) {
			w.mu.Lock()
			w.out.Overlap = true
			w.mu.Unlock()
		}
		if bt.IsIncrementalRebalancingEnabled() {
			w.invariant("rep %d: incremental rebalancing still reported enabled after StopIncrementalRebalancing returned", rep)
		}
		all[rep] = got
		w.settle(baseline, "btree")
	}
	w.mu.Lock()
	w.out.Ticks = ticks.Load()
	w.mu.Unlock()
	// sequential reference: the same foreground ops, alone, with a background interval that is never reached
	w.tr.phase.Store("seq")
	bt := w.newTree()
	w.preEnable(bt, false, &ticks)
	ref := w.execBTreeFG(fgIdx, fg, false, &ticks, bt)
	ref.results = append(ref.results, w.finalStopTree(bt))
	ref.final = recordsDigest(bt)
	names := make([]string, 0, len(ref.results))
	for l := 0; l < len(ref.results); l++ {
		if len(fg.Ops) > 0 && l < len(ref.results)-1 {
			names = append(names, fg.Ops[l%len(fg.Ops)].K)
		} else {
			names = append(names, "final-stop")
		}
	}
	for rep := 0; rep < reps; rep++ {
		w.compare(fgIdx, rep, names, ref.results, all[rep].results, nil)
		if all[rep].final != ref.final {
			w.mismatch("rep %d: final index content %s, sequential run %s", rep, all[rep].final, ref.final)
		}
	}
}

// pollTree is a second goroutine polling progress on the same index until the foreground is done.
func (w *worker) pollTree(i int, th Thread, bt *structures.WritableBTreeV2, fgDone *atomic.Bool) {
	if len(th.Ops) == 0 {
		return
	}
	for round := 0; ; round++ {
		for _, op := range th.Ops {
			r := w.do(i, op.K, false, func() string {
				switch op.K {
				case "prog":
					p, err := bt.GetIncrementalRebalancingProgress()
					if err == nil {
						if s := progressSane(p); s != "" {
							w.invariant("progress poll: %s", s)
						}
					}
				case "isinc":
					_ = bt.IsIncrementalRebalancingEnabled()
				}
				return ""
			})
			w.vet(i, r, true, true)
			pause(op.P)
		}
		if fgDone.Load() && round >= 0 {
			return
		}
		if round > 2000000 {
			return
		}
	}
}

// ---- program kind (ii-b): the same through the public FileWriter API ----------------------------------------

func fwAttrName(k int) string { return fmt.Sprintf("attr_%02d", ((k%30)+30)%30) }

type fwRun struct {
	results []string
	final   string
}

func (w *worker) execFWriter(i int, th Thread, background bool, tag string, ticks *atomic.Int64, pollers []func(fw *hdf5.FileWriter, done *atomic.Bool)) fwRun {
	var out fwRun
	path := filepath.Join(w.job.WorkDir, fmt.Sprintf("fw-%s.h5", tag))
	iv := time.Hour
	if background {
		iv = w.interval(0)
	}
	var fw *hdf5.FileWriter
	var ds *hdf5.DatasetWriter
	setup := w.do(i, "create", false, func() string {
		var err error
		fw, err = hdf5.CreateForWrite(path, hdf5.CreateTruncate,
			hdf5.WithLazyRebalancing(hdf5.LazyThreshold(0.05), hdf5.LazyBatchSize(10)),
			hdf5.WithIncrementalRebalancing(hdf5.IncrementalInterval(iv), hdf5.IncrementalBudget(w.budget()),
				hdf5.IncrementalProgressCallback(func(structures.RebalancingProgress) { ticks.Add(1) })))
		if err != nil {
			return "create:err"
		}
		ds, err = fw.CreateDataset("/d", hdf5.Float64, []uint64{4})
		if err != nil {
			return "ds:err"
		}
		r := "write:" + errStr(ds.Write([]float64{1, 2, 3, 4}))
		for k := 0; k < w.c.Prefill; k++ {
			r += errStr(ds.WriteAttribute(fwAttrName(k), attrValueFor(k)))
		}
		return r
	})
	w.vet(i, setup, background, false)
	out.results = append(out.results, setup)
	if fw == nil || ds == nil {
		if fw != nil {
			_ = fw.Close()
		}
		return out
	}
	var done atomic.Bool
	stopPollers := make(chan struct{})
	nPoll := 0
	for _, p := range pollers {
		p := p
		nPoll++
		go func() { p(fw, &done); stopPollers <- struct{}{} }()
	}
	loops := w.c.Loops
	if loops < 1 {
		loops = 1
	}
	for l := 0; l < loops; l++ {
		for _, op := range th.Ops {
			stopLike := op.K == "stop"
			r := w.do(i, op.K, stopLike, func() string {
				switch op.K {
				case "wattr":
					return errStr(ds.WriteAttribute(fwAttrName(op.A), attrValueFor(op.B)))
				case "dattr":
					return errStr(ds.DeleteAttribute(fwAttrName(op.A)))
				case "enable":
					cfg := structures.DefaultIncrementalConfig()
					cfg.Interval = time.Hour
					if background {
						cfg.Interval = w.interval(op.A)
					}
					cfg.Budget = w.budget()
					cfg.ProgressCallback = func(structures.RebalancingProgress) { ticks.Add(1) }
					return errStr(fw.EnableIncrementalRebalancing(cfg))
				case "stop":
					return errStr(fw.StopIncrementalRebalancing())
				case "prog":
					p, err := fw.GetIncrementalRebalancingProgress()
					if err == nil {
						if s := progressSane(p); s != "" {
							w.invariant("foreground progress query: %s", s)
						}
					}
					return errStr(err)
				case "stats":
					u, p, _ := fw.GetLazyRebalancingStats()
					if u < 0 || p < 0 {
						return "negative stats"
					}
					return ""
				case "isinc":
					return fmt.Sprint(fw.IsIncrementalRebalancingEnabled())
				case "lazyon":
					return errStr(fw.EnableLazyRebalancing(structures.DefaultLazyConfig()))
				case "force":
					return errStr(fw.ForceBatchRebalance())
				case "rebal":
					return errStr(ds.RebalanceAttributeBTree())
				case "toggle":
					if op.A%2 == 0 {
						fw.DisableRebalancing()
					} else {
						fw.EnableRebalancing()
					}
					return ""
				}
				return "unknown-op"
			})
			w.vet(i, r, background, false)
			out.results = append(out.results, r)
			pause(op.P)
		}
	}
	// Close must stop all background work; the pollers keep querying while it runs
	cr := w.do(i, "close", true, func() string { return errStr(fw.Close()) })
	w.vet(i, cr, background, false)
	out.results = append(out.results, cr)
	done.Store(true)
	for k := 0; k < nPoll; k++ {
		<-stopPollers
	}
	out.final = observeFile(path)
	return out
}

func (w *worker) runFWriter() {
	fgIdx := -1
	for i, th := range w.c.Threads {
		if th.Role == "fg" {
			fgIdx = i
			break
		}
	}
	if fgIdx < 0 {
		w.mu.Lock()
		w.out.SeqProblem = "fwriter program without a foreground thread"
		w.mu.Unlock()
		return
	}
	fg := w.c.Threads[fgIdx]
	var ticks atomic.Int64
	reps := w.c.Reps
	if reps < 1 {
		reps = 1
	}
	all := make([]fwRun, reps)
	for rep := 0; rep < reps; rep++ {
		w.tr.phase.Store("conc")
		w.tr.resetWindows()
		baseline := goroutineBaseline()
		var pollers []func(fw *hdf5.FileWriter, done *atomic.Bool)
		for i, th := range w.c.Threads {
			if i == fgIdx || len(th.Ops) == 0 {
				continue
			}
			i, th := i, th
			pollers = append(pollers, func(fw *hdf5.FileWriter, done *atomic.Bool) {
				for round := 0; round < 2000000; round++ {
					for _, op := range th.Ops {
						r := w.do(i, op.K, false, func() string {
							switch op.K {
							case "prog":
								p, err := fw.GetIncrementalRebalancingProgress()
								if err == nil {
									if s := progressSane(p); s != "" {
										w.invariant("progress poll: %s", s)
									}
								}
							case "isinc":
								_ = fw.IsIncrementalRebalancingEnabled()
							case "stats":
								_, _, _ = fw.GetLazyRebalancingStats()
							case "islazy":
								_ = fw.IsLazyRebalancingEnabled()
							}
							return ""
						})
						w.vet(i, r, true, true)
						pause(op.P)
					}
					if done.Load() {
						return
					}
				}
			})
		}
		all[rep] = w.execFWriter(fgIdx, fg, true, fmt.Sprintf("c%d", rep), &ticks, pollers)
		if w.tr.windowsOverlap(len(w.c.Threads)) {
			w.mu.Lock()
			w.out.Overlap = true
			w.mu.Unlock()
		}
		w.settle(baseline, "fwriter")
	}
	w.mu.Lock()
	w.out.Ticks = ticks.Load()
	w.mu.Unlock()
	w.tr.phase.Store("seq")
	ref := w.execFWriter(fgIdx, fg, false, "seq", &ticks, nil)
	names := []string{"setup"}
	for l := 1; l < len(ref.results)-1; l++ {
		names = append(names, fg.Ops[(l-1)%len(fg.Ops)].K)
	}
	names = append(names, "close")
	for rep := 0; rep < reps; rep++ {
		w.compare(fgIdx, rep, names, ref.results, all[rep].results, nil)
		if all[rep].final != ref.final {
			w.mismatch("rep %d: file content after Close %s, sequential run %s", rep, all[rep].final, ref.final)
		}
	}
}
