package c18

import (
	"bytes"
	"context"
	"crypto/sha256"
	"encoding/json"
	"fmt"
	"io"
	"os"
	"os/exec"
	"path/filepath"
	"sort"
	"strings"
	"sync"
	"sync/atomic"
	"testing"
	"time"

	hdf5 "github.com/scigolib/hdf5"
	"github.com/scigolib/hdf5/verif/vt"
	"pgregory.net/rapid"
)

const prop = "C18"
const jobEnv = "VERIF_C18_JOB"

func TestMain(m *testing.M) {
	if p := os.Getenv(jobEnv); p != "" {
		WorkerMain(p) // never returns
	}
	os.Exit(m.Run())
}

// ---- base files ----------------------------------------------------------------------------------------

var corpusCandidates = []string{"simple.h5", "with_groups.h5", "with_attributes.h5", "multiple_datasets.h5", "compound_test.h5",
	"string_test.h5", "test_3d_chunked.h5", "v0.h5", "v2.h5", "v3.h5", "various_types.h5", "test_attributes.h5", "simple_float64.h5",
	"matrix_2x3.h5", "vlen_strings.h5", "mathcad_document.h5", "reference_traverse.h5", "test_attr_int32.h5"}

type baseFiles struct {
	dir   string
	names []string // "corpus:NAME" / "gen:a"
}

func repoDir() string {
	if d := os.Getenv("VERIF_REPO"); d != "" {
		return d
	}
	return "/repo"
}

func baseFileName(name string) string { return strings.NewReplacer(":", "_", "/", "_").Replace(name) }

func safeObserve(path string) (s string) {
	defer func() {
		if p := recover(); p != nil {
			s = "open:err"
		}
	}()
	return observeFile(path)
}

func writeGenA(path string) error {
	fw, err := hdf5.CreateForWrite(path, hdf5.CreateTruncate)
	if err != nil {
		return err
	}
	defer fw.Close()
	if _, err := fw.CreateGroup("/g1"); err != nil {
		return err
	}
	for i, ti := range []int{0, 2, 3} {
		ds, err := fw.CreateDataset(fmt.Sprintf("/d%d", i), writerTypes[ti].dt, []uint64{uint64(6 + 5*i)})
		if err != nil {
			return err
		}
		if err := ds.Write(datasetValues(ti, 6+5*i, 100+i)); err != nil {
			return err
		}
		for k := 0; k < 3; k++ {
			if err := ds.WriteAttribute(attrName(k), attrValueFor(k+i)); err != nil {
				return err
			}
		}
	}
	return fw.Close()
}

func writeGenB(path string) error {
	fw, err := hdf5.CreateForWrite(path, hdf5.CreateTruncate)
	if err != nil {
		return err
	}
	defer fw.Close()
	ds, err := fw.CreateDataset("/dense", hdf5.Float64, []uint64{8})
	if err != nil {
		return err
	}
	if err := ds.Write(datasetValues(0, 8, 7)); err != nil {
		return err
	}
	for k := 0; k < 12; k++ {
		if err := ds.WriteAttribute(attrName(k), attrValueFor(k)); err != nil {
			return err
		}
	}
	cd, err := fw.CreateDataset("/chunked", hdf5.Int32, []uint64{24}, hdf5.WithChunkDims([]uint64{8}))
	if err != nil {
		return err
	}
	if err := cd.Write(datasetValues(2, 24, 9)); err != nil {
		return err
	}
	return fw.Close()
}

var getBase = sync.OnceValue(func() baseFiles {
	b := baseFiles{dir: filepath.Join(vt.GetEnv().Scratch, "c18-base")}
	_ = os.MkdirAll(b.dir, 0o755)
	for _, n := range corpusCandidates {
		src := filepath.Join(repoDir(), "testdata", n)
		data, err := os.ReadFile(src)
		if err != nil || len(data) == 0 {
			continue
		}
		name := "corpus:" + n
		dst := filepath.Join(b.dir, baseFileName(name))
		if os.WriteFile(dst, data, 0o644) != nil {
			continue
		}
		if o := safeObserve(dst); o == "open:err" || o != safeObserve(dst) {
			_ = os.Remove(dst)
			continue
		}
		b.names = append(b.names, name)
	}
	for name, wr := range map[string]func(string) error{"gen:a": writeGenA, "gen:b": writeGenB} {
		dst := filepath.Join(b.dir, baseFileName(name))
		func() {
			defer func() { _ = recover() }()
			if wr(dst) == nil && safeObserve(dst) != "open:err" {
				b.names = append(b.names, name)
			}
		}()
	}
	// files the library refuses to open although they are well-formed (an unsupported but legal structure): a refused open
	// is an outcome like any other and must leave the other handles of the process alone. Here: the root group's symbol-table
	// B-tree node marked as an internal node (level 1), as the groups of large old-style files have.
	for _, n := range []string{"v0.h5", "simple.h5", "with_groups.h5"} {
		data, err := os.ReadFile(filepath.Join(repoDir(), "testdata", n))
		idx := bytes.Index(data, []byte("TREE"))
		if err != nil || idx < 0 || idx+6 > len(data) || data[idx+4] != 0 {
			continue
		}
		deep := append([]byte(nil), data...)
		deep[idx+5] = 1
		name := "refused:deep-" + n
		dst := filepath.Join(b.dir, baseFileName(name))
		if os.WriteFile(dst, deep, 0o644) == nil && safeObserve(dst) == "open:err" {
			b.names = append(b.names, name)
			break
		}
	}
	sort.Strings(b.names)
	return b
})

// ---- generator -----------------------------------------------------------------------------------------

var pauseGen = rapid.SampledFrom([]int{0, 0, 0, 0, 1, 1, 2, 2, 4, 11})

func genReader(t *rapid.T, nFiles int) Thread {
	th := Thread{Role: "reader"}
	n := rapid.IntRange(3, 12).Draw(t, "nops")
	th.Ops = append(th.Ops, Op{K: "open", A: 0, B: rapid.IntRange(0, nFiles-1).Draw(t, "file"), P: pauseGen.Draw(t, "p")})
	th.Ops = append(th.Ops, Op{K: "walk", A: 0, P: pauseGen.Draw(t, "p")})
	for len(th.Ops) < n {
		k := rapid.SampledFrom([]string{"open", "walk", "walk", "read", "read", "read", "attrs", "attrs", "close"}).Draw(t, "k")
		op := Op{K: k, A: rapid.SampledFrom([]int{0, 0, 0, 1}).Draw(t, "slot"), P: pauseGen.Draw(t, "p")}
		switch k {
		case "open":
			op.B = rapid.IntRange(0, nFiles-1).Draw(t, "file")
		case "read", "attrs":
			op.B = rapid.IntRange(0, 7).Draw(t, "obj")
		}
		th.Ops = append(th.Ops, op)
		if k == "open" {
			th.Ops = append(th.Ops, Op{K: "walk", A: op.A})
		}
	}
	return th
}

func genWriter(t *rapid.T) Thread {
	th := Thread{Role: "writer"}
	n := rapid.IntRange(3, 12).Draw(t, "nops")
	th.Ops = append(th.Ops, Op{K: "wcreate", A: rapid.IntRange(0, 3).Draw(t, "sb"), P: pauseGen.Draw(t, "p")})
	th.Ops = append(th.Ops, Op{K: "wds", A: rapid.IntRange(0, 6).Draw(t, "type"), B: rapid.IntRange(0, 60).Draw(t, "n"), P: pauseGen.Draw(t, "p")})
	for len(th.Ops) < n {
		k := rapid.SampledFrom([]string{"wds", "wgrp", "wattr", "wattr", "wattr", "wattrs", "dattr", "wclose", "wcreate"}).Draw(t, "k")
		op := Op{K: k, A: rapid.IntRange(0, 6).Draw(t, "a"), B: rapid.IntRange(0, 60).Draw(t, "b"), P: pauseGen.Draw(t, "p")}
		th.Ops = append(th.Ops, op)
		if k == "wclose" {
			th.Ops = append(th.Ops, Op{K: "wcreate", A: rapid.IntRange(0, 3).Draw(t, "sb")},
				Op{K: "wds", A: rapid.IntRange(0, 6).Draw(t, "type"), B: rapid.IntRange(0, 60).Draw(t, "n")})
		}
	}
	return th
}

func genPoller(t *rapid.T, kinds []string) Thread {
	th := Thread{Role: "poll"}
	n := rapid.IntRange(1, 4).Draw(t, "npoll")
	for i := 0; i < n; i++ {
		th.Ops = append(th.Ops, Op{K: rapid.SampledFrom(kinds).Draw(t, "k"), P: rapid.SampledFrom([]int{1, 1, 2, 3, 6}).Draw(t, "p")})
	}
	return th
}

func genCase(t *rapid.T) Case {
	c := Case{
		Kind:  rapid.SampledFrom([]string{"handles", "handles", "handles", "handles", "btree", "btree", "btree", "fwriter", "smart", "smart"}).Draw(t, "kind"),
		Procs: rapid.SampledFrom([]int{1, 2, 4, 16}).Draw(t, "procs"),
		Reps:  rapid.IntRange(1, vt.N(3, 4)).Draw(t, "reps"),
	}
	switch c.Kind {
	case "handles":
		base := getBase()
		nf := rapid.IntRange(1, 3).Draw(t, "nfiles")
		if len(base.names) == 0 {
			c.Files = []string{"gen:a"}
		}
		for i := 0; i < nf && len(base.names) > 0; i++ {
			c.Files = append(c.Files, rapid.SampledFrom(base.names).Draw(t, "file"))
		}
		n := rapid.IntRange(2, 8).Draw(t, "n")
		for i := 0; i < n; i++ {
			if rapid.IntRange(0, 9).Draw(t, "role") < 7 {
				c.Threads = append(c.Threads, genReader(t, len(c.Files)))
			} else {
				c.Threads = append(c.Threads, genWriter(t))
			}
		}
	case "btree":
		// (3600000000: a worker that does not tick once during the program - stop requests must not wait for a tick)
		c.IntUS = rapid.SampledFrom([]int{1, 1, 2, 5, 10, 50, 100, 300, 1000, 3600000000}).Draw(t, "interval_us")
		c.BudUS = rapid.SampledFrom([]int{1, 5, 20, 50}).Draw(t, "budget_us")
		c.Loops = rapid.IntRange(1, 12).Draw(t, "loops")
		// Three classes. calm: incremental mode is on before the goroutines start and the foreground never empties
		// the node below half, so none of the open findings' code paths run and any report is new. mutate: as calm
		// but with underflow deletes / forced batches / lazy re-configuration (region of KF-C18-01). full: enable,
		// stop and lazy on/off at any point (regions of KF-C18-01 and KF-C18-02).
		class := rapid.SampledFrom([]string{"calm", "calm", "calm", "calm", "mutate", "mutate", "mutate", "full", "full", "full"}).Draw(t, "class")
		var kinds []string
		switch class {
		case "calm":
			c.PreEnable, c.Node, c.Prefill = true, 4096, 300
			kinds = []string{"ins", "ins", "del", "del", "search", "stats", "stats", "prog", "prog", "isinc"}
		case "mutate":
			c.PreEnable, c.Node = true, rapid.SampledFrom([]int{512, 4096}).Draw(t, "node")
			c.Prefill = rapid.IntRange(0, 40).Draw(t, "prefill")
			kinds = []string{"ins", "ins", "del", "del", "del", "del", "search", "stats", "prog", "isinc", "force", "force", "lazyon"}
		default:
			c.Node = rapid.SampledFrom([]int{512, 4096}).Draw(t, "node")
			c.Prefill = rapid.IntRange(0, 40).Draw(t, "prefill")
			kinds = []string{"ins", "ins", "ins", "del", "del", "del", "del", "search", "stats", "stats", "prog", "prog", "isinc",
				"stop", "enable", "enable", "force", "lazyon", "lazyoff"}
		}
		fg := Thread{Role: "fg"}
		if !c.PreEnable {
			fg.Ops = append(fg.Ops, Op{K: "enable", A: rapid.IntRange(0, 2).Draw(t, "scale"), P: pauseGen.Draw(t, "p")})
		}
		n := rapid.IntRange(6, 40).Draw(t, "nops")
		for len(fg.Ops) < n {
			k := rapid.SampledFrom(kinds).Draw(t, "k")
			op := Op{K: k, P: pauseGen.Draw(t, "p")}
			switch k {
			case "ins", "search":
				op.A = rapid.IntRange(0, 399).Draw(t, "name")
			case "del":
				op.A = rapid.IntRange(0, 99).Draw(t, "name") // calm: at most 100 of 300 records can ever go, half capacity is 185
			case "enable", "lazyon":
				op.A = rapid.IntRange(0, 2).Draw(t, "scale")
			}
			fg.Ops = append(fg.Ops, op)
			if k == "lazyoff" { // usually come back to lazy + incremental mode
				fg.Ops = append(fg.Ops, Op{K: "lazyon"}, Op{K: "enable"})
			}
		}
		c.Threads = append(c.Threads, fg)
		np := rapid.IntRange(1, 3).Draw(t, "npollers")
		for i := 0; i < np; i++ {
			c.Threads = append(c.Threads, genPoller(t, []string{"prog", "prog", "isinc"}))
		}
	case "fwriter":
		c.IntUS = rapid.SampledFrom([]int{1, 1, 5, 20, 100, 1000}).Draw(t, "interval_us")
		c.BudUS = rapid.SampledFrom([]int{1, 5, 20, 50}).Draw(t, "budget_us")
		c.Prefill = rapid.IntRange(7, 14).Draw(t, "prefill")
		c.Loops = rapid.IntRange(1, 2).Draw(t, "loops")
		fg := Thread{Role: "fg", Ops: []Op{{K: "enable", P: pauseGen.Draw(t, "p")}}}
		n := rapid.IntRange(4, 16).Draw(t, "nops")
		for len(fg.Ops) < n {
			k := rapid.SampledFrom([]string{"wattr", "wattr", "wattr", "dattr", "dattr", "dattr", "enable", "stop", "prog", "stats", "isinc",
				"lazyon", "force", "rebal", "toggle"}).Draw(t, "k")
			fg.Ops = append(fg.Ops, Op{K: k, A: rapid.IntRange(0, 19).Draw(t, "a"), B: rapid.IntRange(0, 60).Draw(t, "b"), P: pauseGen.Draw(t, "p")})
		}
		c.Threads = append(c.Threads, fg)
		np := rapid.IntRange(1, 3).Draw(t, "npollers")
		for i := 0; i < np; i++ {
			c.Threads = append(c.Threads, genPoller(t, []string{"prog", "isinc", "stats", "islazy"}))
		}
	case "smart":
		c.IntUS = rapid.SampledFrom([]int{1, 1, 3, 10, 50, 200, 1000}).Draw(t, "interval_us")
		c.FileMB = rapid.SampledFrom([]int{1, 50, 200, 600, 2000}).Draw(t, "file_mb")
		c.MinConf = rapid.SampledFrom([]int{0, 0, 30, 30, 70}).Draw(t, "min_conf")
		c.StableUS = rapid.SampledFrom([]int{0, 0, 100, 30000000}).Draw(t, "stable_us")
		c.DetCap = rapid.SampledFrom([]int{0, 0, 4, 16, 64}).Draw(t, "det_cap")
		c.Loops = rapid.IntRange(1, 6).Draw(t, "loops")
		n := rapid.IntRange(2, 6).Draw(t, "n")
		// KF-C18-03 and KF-C18-04 are repaired in /repo (fix: commits), so user-side Evaluate and a lifecycle
		// driven from several goroutines get a full share of the programs.
		multiLife := rapid.IntRange(0, 1).Draw(t, "multi_lifecycle") == 0
		userEval := rapid.IntRange(0, 9).Draw(t, "user_eval") < 6
		detDirect := rapid.IntRange(0, 2).Draw(t, "detector_direct") == 0
		if rapid.Bool().Draw(t, "rotate") {
			// MinConf doubles as the number of refused transition stops (the selector's minimum confidence is 0 with Rotate)
			c.Rotate, c.MinConf, c.StableUS = true, rapid.IntRange(0, 3).Draw(t, "refusedStops"), 0
			if rapid.IntRange(0, 2).Draw(t, "longStability") == 0 {
				c.StableUS = 30000000 // the first accepted mode stays for the whole program
			}
		}
		for i := 0; i < n; i++ {
			th := Thread{Role: "user"}
			no := rapid.IntRange(4, 30).Draw(t, "nops")
			kinds := []string{"rec", "rec", "rec", "rec", "rec", "stats", "stats", "metrics", "mstr"}
			if userEval {
				kinds = append(kinds, "eval", "eval")
			}
			if i == 0 || multiLife {
				kinds = append(kinds, "start", "stop")
			}
			if detDirect {
				// the workload detector the rebalancer feeds is also used directly (recording, queries, Close): documented as
				// safe for concurrent use; a closed detector refuses or ignores, it never fails
				kinds = append(kinds, "drec", "drec", "dfeat", "dclose")
			}
			if i == 0 {
				th.Ops = append(th.Ops, Op{K: "start"})
			}
			for len(th.Ops) < no {
				k := rapid.SampledFrom(kinds).Draw(t, "k")
				op := Op{K: k, P: pauseGen.Draw(t, "p")}
				if k == "rec" {
					op.A = rapid.SampledFrom([]int{0, 1, 1, 2, 2, 2}).Draw(t, "optype")
				}
				th.Ops = append(th.Ops, op)
			}
			c.Threads = append(c.Threads, th)
		}
	}
	return c
}

// ---- running one program in a child process ----------------------------------------------------------------

type childResult struct {
	out      *Outcome
	races    []RaceReport
	stderr   string
	timedOut bool
	exit     int
}

var jobSeq atomic.Int64

func limitsFor(factor int) Limits { return Limits{StopMS: 10000 * factor, OpMS: 30000 * factor} }

func execute(c Case, factor int) childResult {
	var res childResult
	base := getBase()
	dir := filepath.Join(vt.GetEnv().Scratch, fmt.Sprintf("c18-job-%d-%d", os.Getpid(), jobSeq.Add(1)))
	_ = os.MkdirAll(dir, 0o755)
	defer os.RemoveAll(dir)
	job := Job{Case: c, BaseDir: base.dir, WorkDir: dir, Out: filepath.Join(dir, "out.json"), Limits: limitsFor(factor)}
	jb, _ := json.Marshal(job)
	jobPath := filepath.Join(dir, "job.json")
	if err := os.WriteFile(jobPath, jb, 0o644); err != nil {
		res.stderr = err.Error()
		return res
	}
	exe, err := os.Executable()
	if err != nil {
		exe = os.Args[0]
	}
	ctx, cancel := context.WithTimeout(context.Background(), time.Duration(240*factor)*time.Second)
	defer cancel()
	cmd := exec.CommandContext(ctx, exe)
	for _, e := range os.Environ() {
		if strings.HasPrefix(e, "GORACE=") || strings.HasPrefix(e, jobEnv+"=") || strings.HasPrefix(e, "GOMAXPROCS=") {
			continue
		}
		cmd.Env = append(cmd.Env, e)
	}
	racePrefix := filepath.Join(dir, "race")
	cmd.Env = append(cmd.Env, "GORACE=halt_on_error=0 atexit_sleep_ms=0 history_size=5 log_path="+racePrefix, jobEnv+"="+jobPath)
	cmd.Dir = dir
	var errBuf limitedBuffer
	cmd.Stdout = io.Discard
	cmd.Stderr = &errBuf
	runErr := cmd.Run()
	res.stderr = errBuf.String()
	if ctx.Err() != nil {
		res.timedOut = true
	}
	if ee, ok := runErr.(*exec.ExitError); ok {
		res.exit = ee.ExitCode()
	}
	if b, err := os.ReadFile(job.Out); err == nil {
		var o Outcome
		if json.Unmarshal(b, &o) == nil && o.Done {
			res.out = &o
		}
	}
	limit := int64(-1)
	if res.out != nil {
		limit = res.out.RaceLogCut
	}
	res.races = readRaceLogs(racePrefix, limit)
	return res
}

type limitedBuffer struct {
	mu sync.Mutex
	b  []byte
}

func (l *limitedBuffer) Write(p []byte) (int, error) {
	l.mu.Lock()
	if len(l.b) < 1<<16 {
		l.b = append(l.b, p...)
	}
	l.mu.Unlock()
	return len(p), nil
}
func (l *limitedBuffer) String() string { l.mu.Lock(); defer l.mu.Unlock(); return string(l.b) }

// ---- verdict -------------------------------------------------------------------------------------------

type evaluation struct {
	verdict vt.Verdict
	labels  []string
	nontriv bool
	known   map[string]string // every known finding hit (id -> detail)
}

func (c Case) labels() []string {
	return []string{"kind=" + c.Kind, fmt.Sprintf("N=%d", len(c.Threads)), fmt.Sprintf("procs=%d", c.Procs)}
}

// evaluate runs one program (in a child process, with one confirmation run where the rules ask for it) and
// turns what was observed into a verdict plus measured labels.
func evaluate(c Case) evaluation {
	t0 := time.Now()
	defer func() {
		if p := os.Getenv("VERIF_C18_DUMP"); p != "" {
			if f, err := os.OpenFile(p+".times", os.O_APPEND|os.O_CREATE|os.O_WRONLY, 0o644); err == nil {
				fmt.Fprintf(f, "%s %d %.3f\n", c.Kind, len(c.Threads), time.Since(t0).Seconds())
				f.Close()
			}
		}
	}()
	ev := evaluation{labels: c.labels(), known: map[string]string{}}
	if len(c.Threads) == 0 || c.Procs < 1 || c.Procs > 64 || len(c.Threads) > 16 {
		ev.verdict = vt.Skipped("malformed case")
		return ev
	}
	res := execute(c, 1)
	races := res.races
	var bad []string
	confirm := func() *childResult {
		// a hang, a crash or a timeout is re-tried once, alone, with three times the bounds, before it counts
		second := execute(c, 3)
		races = append(races, second.races...)
		return &second
	}
	switch {
	case res.out != nil && res.out.Hang != nil:
		second := confirm()
		if second.out != nil && second.out.Hang != nil {
			h := second.out.Hang
			d := fmt.Sprintf("%s did not return (twice: bounds %+v, then %+v; thread %d, phase %s); goroutines inside the library: %v\n%s", h.Op,
				limitsFor(1), limitsFor(3), h.Thread, h.Phase, h.Frames, clip(h.Stacks, 2500))
			if h.Phase == "seq" {
				ev.verdict = vt.Skipped("sequential reference hangs: %s", d)
				return ev
			}
			if id := hangID(c, h); id != "" && vt.IsOpen(id) {
				ev.known[id] = fmt.Sprintf("%s never returns; goroutines inside the library: %v", h.Op, h.Frames)
			} else {
				bad = append(bad, d)
			}
			res = *second
		} else {
			ev.labels = append(ev.labels, "hang_unconfirmed")
			vt.Recorder(prop).Note("unconfirmed hang of %s in a %s program (not reproduced with relaxed bounds)", res.out.Hang.Op, c.Kind)
			res = *second
		}
	case res.out == nil:
		second := confirm()
		if second.out == nil {
			crash := second.stderr
			if second.timedOut {
				ev.verdict = vt.Skipped("program did not finish within the overall time bound twice (inconclusive, not counted)")
				ev.labels = append(ev.labels, "timeout")
				return ev
			}
			if strings.Contains(crash, libPrefix+"/internal") || strings.Contains(crash, libPrefix+".") {
				bad = append(bad, "child process died twice with library frames on the stack: "+clip(crash, 3000))
			} else {
				ev.verdict = vt.Skipped("child process died without a result (exit %d): %s", second.exit, clip(crash, 600))
				ev.labels = append(ev.labels, "child_died")
				return ev
			}
		} else {
			ev.labels = append(ev.labels, "crash_unconfirmed")
		}
		res = *second
	}
	out := res.out
	if out != nil {
		if out.SeqProblem != "" {
			ev.verdict = vt.Skipped("no sequential reference: %s", out.SeqProblem)
			return ev
		}
		for _, m := range out.Mismatch {
			bad = append(bad, "result differs from sequential execution: "+m)
		}
		for _, m := range out.Invariant {
			bad = append(bad, "invariant: "+m)
		}
		if p := out.Panic; p != nil {
			d := fmt.Sprintf("%s panicked in the concurrent phase (thread %d, %s): %s; innermost library frame %s\n%s", p.Op, p.Thread, p.Phase, p.Msg, p.Frame, clip(p.Stack, 2500))
			if id := panicID(c, p); id != "" && vt.IsOpen(id) {
				ev.known[id] = fmt.Sprintf("%s panics: %s", p.Frame, p.Msg)
			} else {
				bad = append(bad, d)
			}
			ev.labels = append(ev.labels, "panic")
		}
		if out.Leak != nil {
			bad = append(bad, fmt.Sprintf("%d goroutine(s) outlive Close/Stop, inside the library at %v\n%s", out.Leak.Extra, out.Leak.Frames, clip(out.Leak.Stacks, 2500)))
		}
		ev.nontriv = out.Overlap || out.Ticks > 0
		if out.Overlap {
			ev.labels = append(ev.labels, "overlap")
		}
		if out.Peak >= 2 {
			ev.labels = append(ev.labels, "simultaneous_calls")
		}
		if out.Ticks > 0 {
			ev.labels = append(ev.labels, "background_ticks")
		}
		if out.Nondet > 0 {
			ev.labels = append(ev.labels, "nondeterministic_seq_masked")
		}
	}
	seen := map[string]bool{}
	for _, r := range races {
		if seen[r.Key] {
			continue
		}
		seen[r.Key] = true
		if id := matchRace(r); id != "" && vt.IsOpen(id) {
			if _, dup := ev.known[id]; !dup {
				ev.known[id] = "data race " + r.Key
			}
			continue
		}
		bad = append(bad, "data race "+r.Key+"\n"+clip(r.Text, 2200))
	}
	if len(races) > 0 {
		ev.labels = append(ev.labels, "race_reported")
	}
	dumpEvaluation(c, races, out, bad)
	switch {
	case len(bad) > 0:
		ev.verdict = vt.Bad("%s", strings.Join(bad, "\n---\n"))
	case len(ev.known) > 0:
		ids := make([]string, 0, len(ev.known))
		for id := range ev.known {
			ids = append(ids, id)
		}
		sort.Strings(ids)
		pick := ids[0]
		if _, ok := ev.known[c.Expect]; ok {
			pick = c.Expect
		}
		ev.verdict = vt.KnownOr(pick, "%s", ev.known[pick])
		for _, id := range ids {
			ev.labels = append(ev.labels, "known="+id)
		}
	default:
		ev.verdict = vt.Pass()
	}
	return ev
}

// dumpEvaluation appends one line per evaluated program to the file named by VERIF_C18_DUMP (triage aid).
func dumpEvaluation(c Case, races []RaceReport, out *Outcome, bad []string) {
	p := os.Getenv("VERIF_C18_DUMP")
	if p == "" {
		return
	}
	keys := map[string]bool{}
	for _, r := range races {
		keys[r.Key] = true
	}
	var badHeads []string
	for _, b := range bad {
		badHeads = append(badHeads, firstLine(b))
	}
	line := map[string]any{"kind": c.Kind, "procs": c.Procs, "n": len(c.Threads), "races": sortedKeys(keys), "bad": len(bad), "bad_heads": badHeads}
	if out != nil {
		line["overlap"], line["peak"], line["ticks"], line["ops"], line["nondet"] = out.Overlap, out.Peak, out.Ticks, out.OpsRun, out.Nondet
		line["mismatch"], line["invariant"], line["notes"] = out.Mismatch, out.Invariant, out.Notes
		if out.Hang != nil {
			line["hang"] = fmt.Sprintf("%s/%s %v", out.Hang.Op, out.Hang.Phase, out.Hang.Frames)
		}
		if out.Panic != nil {
			line["panic"] = fmt.Sprintf("%s/%s %s @ %s", out.Panic.Op, out.Panic.Phase, out.Panic.Msg, out.Panic.Frame)
		}
		if out.Leak != nil {
			line["leak"] = fmt.Sprintf("%d %v", out.Leak.Extra, out.Leak.Frames)
		}
	}
	if len(bad) > 0 {
		if f, err := os.OpenFile(p+".bad", os.O_APPEND|os.O_CREATE|os.O_WRONLY, 0o644); err == nil {
			fmt.Fprintf(f, "######## %s\n%s\n", c.Kind, strings.Join(bad, "\n---\n"))
			if out != nil && out.Panic != nil {
				fmt.Fprintf(f, "PANIC %+v cut=%d\n", *out.Panic, out.RaceLogCut)
			}
			f.Close()
		}
	}
	b, _ := json.Marshal(line)
	f, err := os.OpenFile(p, os.O_APPEND|os.O_CREATE|os.O_WRONLY, 0o644)
	if err != nil {
		return
	}
	defer f.Close()
	_, _ = f.Write(append(b, '\n'))
}

// The framework classifies a case before it runs it, but whether a concurrent program was non-trivial
// (goroutines really overlapped) is only known afterwards. classify therefore runs the program and parks the
// evaluation for run to pick up; run on its own (replay, shrinking) evaluates directly.
var (
	parkMu sync.Mutex
	parked = map[[32]byte]evaluation{}
)

func caseKey(c Case) [32]byte {
	b, _ := json.Marshal(c)
	return sha256.Sum256(b)
}

func classify(c Case) (nt bool, labels []string) {
	defer func() {
		if p := recover(); p != nil {
			nt, labels = false, c.labels()
		}
	}()
	ev := evaluate(c)
	parkMu.Lock()
	parked[caseKey(c)] = ev
	parkMu.Unlock()
	return ev.nontriv, ev.labels
}

func run(c Case) vt.Verdict {
	k := caseKey(c)
	parkMu.Lock()
	ev, ok := parked[k]
	delete(parked, k)
	parkMu.Unlock()
	if !ok {
		ev = evaluate(c)
		if os.Getenv("VERIF_KF") == "1" {
			// replay of a known finding: race detection depends on the schedule, so give the case a few chances
			for i := 0; i < 8 && (ev.verdict.Kind == vt.OK || ev.verdict.Kind == vt.Known && c.Expect != "" && ev.verdict.ID != c.Expect); i++ {
				ev = evaluate(c)
			}
		}
	}
	if ev.verdict.Kind == vt.Known {
		// a program can hit several findings; the framework records the verdict's id, the others are recorded here
		for id, d := range ev.known {
			if id != ev.verdict.ID {
				vt.Recorder(prop).KnownHit(id, d, c)
			}
		}
	}
	return ev.verdict
}

func TestProp(t *testing.T) {
	vt.Run(t, prop,
		vt.Sub[Case]{Prop: prop, Name: "programs", Gen: genCase, Run: run, Classify: classify}.WithBudget(100, 640),
	)
}
