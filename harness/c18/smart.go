package c18

import (
	"context"
	"errors"
	"fmt"
	"runtime"
	"sort"
	"strings"
	"sync"
	"sync/atomic"
	"time"

	"github.com/scigolib/hdf5/internal/rebalancing"
	"github.com/scigolib/hdf5/internal/structures"
)

// ---- program kind (iii): SmartRebalancer over a fake index ----------------------------------------------

// fakeIndex implements rebalancing.BTreeV2. It is itself free of shared mutable state other than atomics, so
// every race reported in a smart program lies in the library.
type fakeIndex struct {
	size        uint64
	calls       atomic.Int64 // mode-transition calls made by the rebalancer (from its background goroutine or Stop)
	bgOn        atomic.Int32
	maxBgOn     atomic.Int32
	refuseStops atomic.Int32 // number of stop requests coming from mode transitions that are still to be refused
}

func (f *fakeIndex) EnableLazyRebalancing(structures.LazyRebalancingConfig) error {
	f.calls.Add(1)
	return nil
}
func (f *fakeIndex) EnableIncrementalRebalancing(structures.IncrementalRebalancingConfig) error {
	f.calls.Add(1)
	return nil
}
func (f *fakeIndex) DisableRebalancing() error { f.calls.Add(1); return nil }
func (f *fakeIndex) StartBackgroundRebalancing(context.Context) error {
	f.calls.Add(1)
	n := f.bgOn.Add(1)
	for {
		m := f.maxBgOn.Load()
		if n <= m || f.maxBgOn.CompareAndSwap(m, n) {
			break
		}
	}
	return nil
}
func (f *fakeIndex) StopBackgroundRebalancing() error {
	f.calls.Add(1)
	if f.refuseStops.Load() > 0 && calledFrom("applyDecision") && f.bgOn.Load() > 0 {
		// a stop request issued by a mode transition is refused now and then (the worker is busy): the transition must not
		// be taken as done, or the worker stays behind under a mode that no longer knows about it
		if f.refuseStops.Add(-1) >= 0 {
			return errors.New("background worker busy, try again")
		}
	}
	f.bgOn.Add(-1)
	return nil
}

// calledFrom reports whether a function whose name contains fn is on the caller's stack.
func calledFrom(fn string) bool {
	pc := make([]uintptr, 16)
	n := runtime.Callers(3, pc)
	frames := runtime.CallersFrames(pc[:n])
	for {
		fr, more := frames.Next()
		if strings.Contains(fr.Function, fn) {
			return true
		}
		if !more {
			return false
		}
	}
}
func (f *fakeIndex) GetFileSize() uint64 { return f.size }

// rotating is a selection strategy without shared mutable state other than an atomic counter: it proposes a different mode
// at every evaluation, with full confidence, so that mode transitions (and with them starts and stops of background
// rebalancing) happen all the time.
type rotating struct{ n atomic.Int64 }

func (r *rotating) Select(rebalancing.WorkloadFeatures, rebalancing.WorkloadType) rebalancing.Decision {
	modes := []rebalancing.Mode{rebalancing.ModeLazy, rebalancing.ModeIncremental, rebalancing.ModeNone, rebalancing.ModeIncremental}
	k := int(r.n.Add(1))
	// an evaluation takes a while: stop requests and other calls then mostly arrive while one is in flight
	time.Sleep(time.Duration(20+(k*37)%180) * time.Microsecond)
	d := rebalancing.Decision{Mode: modes[k%len(modes)], Confidence: 1, Reason: "rotating"}
	switch d.Mode {
	case rebalancing.ModeLazy:
		cfg := structures.DefaultLazyConfig()
		d.Config = &cfg
	case rebalancing.ModeIncremental:
		cfg := structures.DefaultIncrementalConfig()
		d.Config = &cfg
	}
	return d
}

// selectorRace: fresh selectors with a stability period longer than the program; a few goroutines, released together, each
// ask once for a different mode. Whatever the interleaving, one proposal is accepted first and every other call is told to
// keep it: all calls return the same mode (as they do in either sequential order).
func (w *worker) selectorRace(cons rebalancing.SafetyConstraints) {
	modes := []rebalancing.Mode{rebalancing.ModeLazy, rebalancing.ModeIncremental, rebalancing.ModeNone}
	for trial := 0; trial < 300; trial++ {
		// the proposals differ through a strategy that hands out the modes in turn
		sel := rebalancing.NewConfigSelector(rebalancing.WithSafetyConstraints(cons), rebalancing.WithStrategy(&turns{modes: modes}))
		var start, done sync.WaitGroup
		start.Add(1)
		got := make([]rebalancing.Mode, len(modes))
		for g := range modes {
			done.Add(1)
			go func(g int) {
				defer done.Done()
				start.Wait()
				got[g] = sel.SelectConfig(rebalancing.WorkloadFeatures{}, rebalancing.WorkloadUnknown).Mode
			}(g)
		}
		start.Done()
		done.Wait()
		for g := 1; g < len(got); g++ {
			if got[g] != got[0] {
				w.invariant("selector with a %v stability period: concurrent first decisions returned different modes %v (trial %d)", cons.MinStabilityPeriod, got, trial)
				return
			}
		}
	}
}

// startRace: fresh rebalancers; a few goroutines, released together, each call Start once. Exactly one call succeeds (the
// others are told it is started already), and after the one matching Stop no monitor goroutine is left.
func (w *worker) startRace(iv time.Duration) {
	for trial := 0; trial < 200; trial++ {
		base := runtime.NumGoroutine()
		sr := rebalancing.NewSmartRebalancer(&fakeIndex{size: 1 << 20}, rebalancing.WithReevalInterval(iv))
		ctx, cancel := context.WithCancel(context.Background())
		const k = 4
		var start, done sync.WaitGroup
		start.Add(1)
		var ok atomic.Int64
		for g := 0; g < k; g++ {
			done.Add(1)
			go func() {
				defer done.Done()
				start.Wait()
				if sr.Start(ctx) == nil {
					ok.Add(1)
				}
			}()
		}
		start.Done()
		done.Wait()
		_ = sr.Stop()
		left := 0
		for wait := 0; wait < 200; wait++ { // a stopped monitor needs a moment to unwind
			if left = runtime.NumGoroutine() - base; left <= 0 {
				break
			}
			time.Sleep(time.Millisecond)
		}
		cancel()
		if ok.Load() != 1 {
			w.invariant("%d of %d simultaneous Start calls on a fresh rebalancer succeeded (trial %d)", ok.Load(), k, trial)
			return
		}
		if left > 0 {
			w.invariant("%d goroutine(s) still running 200 ms after the Stop that matches the one successful Start (trial %d)", left, trial)
			return
		}
	}
}

// turns hands out its modes in turn (atomic counter): concurrent calls get different proposals.
type turns struct {
	modes []rebalancing.Mode
	n     atomic.Int64
}

func (t *turns) Select(rebalancing.WorkloadFeatures, rebalancing.WorkloadType) rebalancing.Decision {
	return rebalancing.Decision{Mode: t.modes[int(t.n.Add(1))%len(t.modes)], Confidence: 1, Reason: "turns"}
}

func (w *worker) runSmart() {
	n := len(w.c.Threads)
	reps := w.c.Reps
	if reps < 1 {
		reps = 1
	}
	loops := w.c.Loops
	if loops < 1 {
		loops = 1
	}
	iv := time.Duration(w.c.IntUS) * time.Microsecond
	if iv <= 0 {
		iv = time.Microsecond
	}
	for rep := 0; rep < reps; rep++ {
		w.tr.phase.Store("conc")
		w.tr.resetWindows()
		baseline := goroutineBaseline()
		idx := &fakeIndex{size: uint64(w.c.FileMB) << 20}
		if w.c.Rotate {
			idx.refuseStops.Store(int32(w.c.MinConf % 4)) // 0..3 refusals, a pure function of the case (MinConf is unused with Rotate)
		}
		var modesMu sync.Mutex
		evalModes := map[rebalancing.Mode]bool{}
		detOpts := []rebalancing.DetectorOption{rebalancing.WithMinSampleSize(5), rebalancing.WithWindowSize(time.Minute)}
		if w.c.DetCap > 0 {
			detOpts = append(detOpts, rebalancing.WithCapacity(w.c.DetCap)) // the bounded history wraps after this many observations
		}
		det := rebalancing.NewWorkloadDetector(detOpts...)
		cons := rebalancing.DefaultSafetyConstraints()
		cons.MinConfidence = float64(w.c.MinConf) / 100
		if w.c.Rotate {
			cons.MinConfidence = 0 // MinConf carries the number of refused transition stops in rotating programs
		}
		cons.MinStabilityPeriod = time.Duration(w.c.StableUS) * time.Microsecond
		selOpts := []rebalancing.SelectorOption{rebalancing.WithSafetyConstraints(cons)}
		if w.c.Rotate {
			selOpts = append(selOpts, rebalancing.WithStrategy(&rotating{}))
		}
		sel := rebalancing.NewConfigSelector(selOpts...)
		sr := rebalancing.NewSmartRebalancer(idx, rebalancing.WithDetector(det), rebalancing.WithSelector(sel), rebalancing.WithReevalInterval(iv))
		if w.c.Rotate && w.c.StableUS >= 10_000_000 {
			w.selectorRace(cons)
		}
		if rep == 0 && w.c.Rotate {
			w.startRace(iv)
		}
		var recs, evals, starts atomic.Int64
		soleDriver := true // start/stop only in thread 0, no Evaluate from user threads
		for ti, th := range w.c.Threads {
			for _, op := range th.Ops {
				if op.K == "eval" || (ti != 0 && (op.K == "start" || op.K == "stop")) {
					soleDriver = false
				}
			}
		}
		ctx, cancel := context.WithCancel(context.Background())
		bodies := make([]func(), n)
		for i := 0; i < n; i++ {
			i := i
			th := w.c.Threads[i]
			bodies[i] = func() {
				for l := 0; l < loops; l++ {
					for _, op := range th.Ops {
						r := w.do(i, op.K, op.K == "stop", func() string {
							switch op.K {
							case "start":
								if sr.Start(ctx) == nil {
									starts.Add(1)
								}
							case "stop":
								if err := sr.Stop(); err != nil {
									w.invariant("Stop returned %v", err)
								}
								// when only this thread drives the life cycle and only the monitor goroutine evaluates, nothing
								// can switch the background work of the index on again once Stop has returned
								if soleDriver && idx.bgOn.Load() > 0 {
									w.invariant("Stop returned while background rebalancing of the index is still switched on (started %d time(s) more than stopped)", idx.bgOn.Load())
								}
							case "rec":
								_ = sr.RecordOperation(rebalancing.OperationType(((op.A % 3) + 3) % 3))
								recs.Add(1)
							case "eval":
								d, err := sr.Evaluate()
								evals.Add(1)
								// a decision below the confidence threshold is answered with "none" before the stability rule is
								// consulted (and is not remembered): only decisions that reached that rule are collected
								if err == nil && d.Confidence >= cons.MinConfidence {
									modesMu.Lock()
									evalModes[d.Mode] = true
									modesMu.Unlock()
								}
								if err == nil && (d.Confidence < 0 || d.Confidence > 1) {
									w.invariant("Evaluate: confidence %v outside [0,1]", d.Confidence)
								}
							case "stats":
								s := sr.GetStats()
								if s.TotalEvaluations < 0 || s.ModeChanges < 0 || s.TransitionErrors < 0 {
									w.invariant("GetStats: negative counters %+v", s)
								}
							case "metrics":
								m := sr.GetMetrics()
								if m.TotalOperations < 0 || m.TotalEvaluations < 0 {
									w.invariant("GetMetrics: negative counters")
								}
								// a snapshot is the caller's own value: every field of it is read
								var sum int64
								for _, v := range m.OperationsByType {
									sum += v
								}
								for _, v := range m.DecisionsByMode {
									sum += v
								}
								for _, v := range m.DecisionsByWorkload {
									sum += v
								}
								if sum < 0 {
									w.invariant("GetMetrics: negative per-key counters")
								}
							case "mstr":
								_ = sr.GetMetricsString()
							case "drec":
								_ = det.RecordOperation(context.Background(), rebalancing.OperationType(((op.A%3)+3)%3), 1<<20)
							case "dfeat":
								f := det.ExtractFeatures()
								_ = det.DetectWorkloadType()
								if tot, inWin, _ := det.GetStats(); tot < 0 || inWin < 0 || inWin > tot {
									w.invariant("detector GetStats: total %d, in window %d", tot, inWin)
								}
								if f.DeleteRatio < 0 || f.DeleteRatio > 1 {
									w.invariant("detector features: delete ratio %v outside [0,1]", f.DeleteRatio)
								}
							case "dclose":
								if err := det.Close(); err != nil {
									w.invariant("detector Close returned %v", err)
								}
								if !det.IsClosed() {
									w.invariant("detector reports not closed after Close returned")
								}
							}
							return ""
						})
						w.vet(i, r, true, true)
						pause(op.P)
					}
				}
			}
		}
		w.runThreads(bodies)
		// every start is matched by a stop that returns
		w.tr.phase.Store("final")
		w.vet(n, w.do(n, "final-stop", true, func() string { _ = sr.Stop(); return "" }), true, true)
		cancel()
		if w.tr.windowsOverlap(n) {
			w.mu.Lock()
			w.out.Overlap = true
			w.mu.Unlock()
		}
		// counters equal what a sequential execution of the same calls gives
		st := sr.GetStats()
		m := sr.GetMetrics()
		if st.Started {
			w.invariant("rep %d: rebalancer reports Started after Stop returned", rep)
		}
		if w.c.StableUS >= 10_000_000 && len(evalModes) > 1 {
			// the stability period outlasts the program: once a mode has been accepted every later decision keeps it, in any
			// interleaving of the evaluations
			var ms []string
			for m := range evalModes {
				ms = append(ms, string(m))
			}
			sort.Strings(ms)
			w.invariant("rep %d: evaluations returned the modes %v although the stability period (%d us) is longer than the whole program", rep, ms, w.c.StableUS)
		}
		if n := idx.bgOn.Load(); n > 0 { // redundant stops are harmless, an unmatched start is not
			w.invariant("rep %d: after the last Stop returned, background rebalancing of the index was started %d time(s) more than it was stopped", rep, n)
		}
		if m.TotalOperations != recs.Load() {
			w.invariant("rep %d: metrics count %d operations, %d were recorded", rep, m.TotalOperations, recs.Load())
		}
		var byType int64
		for _, v := range m.OperationsByType {
			byType += v
		}
		if byType != recs.Load() {
			w.invariant("rep %d: per-type operation counts sum to %d, %d were recorded", rep, byType, recs.Load())
		}
		if int64(st.TotalEvaluations) < evals.Load() {
			w.invariant("rep %d: stats count %d evaluations, %d were requested by callers alone", rep, st.TotalEvaluations, evals.Load())
		}
		if m.TotalEvaluations != int64(st.TotalEvaluations) {
			w.invariant("rep %d: metrics count %d evaluations, stats %d", rep, m.TotalEvaluations, st.TotalEvaluations)
		}
		w.mu.Lock()
		w.out.Ticks += int64(st.TotalEvaluations) - evals.Load() // evaluations made by the background goroutine
		w.mu.Unlock()
		if idx.maxBgOn.Load() > 1 {
			w.note("rep %d: background rebalancing started %d times without a stop in between", rep, idx.maxBgOn.Load())
		}
		w.settle(baseline, fmt.Sprintf("smart rep %d", rep))
	}
}
