// Package c18 decides property C18: independent handles and background rebalancing are race-free and
// stop cleanly. See DESIGN.md section 5, C18.
//
// Every generated case is one *concurrent program*. It is executed in a child process of the test binary
// (built with -race) so that the race detector's reports can be collected per program through
// GORACE=log_path and attributed to it; the parent parses the reports and keys each one by the pair of
// innermost library frames of the two conflicting accesses.
package c18

// Op is one step of a goroutine's op list.
type Op struct {
	K string `json:"k"`
	A int    `json:"a,omitempty"`
	B int    `json:"b,omitempty"`
	P int    `json:"p,omitempty"` // schedule point after the op: 0 none, 1 Gosched, n>=2 sleep (n-1)*10us
}

// Thread is the op list of one goroutine.
type Thread struct {
	Role string `json:"role"` // handles: reader|writer   btree/fwriter: fg|poll   smart: user
	Ops  []Op   `json:"ops"`
}

// Case is one concurrent program.
type Case struct {
	Kind      string   `json:"kind"`                 // handles | btree | fwriter | smart
	Procs     int      `json:"procs"`                // GOMAXPROCS while the program runs
	Reps      int      `json:"reps"`                 // repetitions of the concurrent phase
	Loops     int      `json:"loops,omitempty"`      // btree/fwriter/smart: the op lists are cycled this many times per repetition
	Files     []string `json:"files,omitempty"`      // handles: base files readers open (op.B indexes this list)
	IntUS     int      `json:"int_us,omitempty"`     // background interval in microseconds
	BudUS     int      `json:"bud_us,omitempty"`     // background budget in microseconds
	Prefill   int      `json:"prefill,omitempty"`    // btree: records present at start; fwriter: attributes present at start
	Node      int      `json:"node,omitempty"`       // btree: node size
	FileMB    int      `json:"file_mb,omitempty"`    // smart: file size reported by the fake index
	MinConf   int      `json:"min_conf,omitempty"`   // smart: selector's minimum confidence in percent
	StableUS  int      `json:"stable_us,omitempty"`  // smart: selector's minimum stability period in microseconds
	DetCap    int      `json:"det_cap,omitempty"`    // smart: capacity of the detector's bounded history (0 = default 10000): small values make it wrap
	Rotate    bool     `json:"rotate,omitempty"`     // smart: the selector's strategy proposes lazy, incremental, none, incremental, .. in turn (every evaluation changes the mode)
	PreEnable bool     `json:"pre_enable,omitempty"` // btree: incremental mode is enabled before the goroutines start (no enable/stop race window)
	Threads   []Thread `json:"threads"`
	// Expect is a replay hint only: the finding a saved case is meant to reproduce. When a program hits several
	// open findings it decides which one the verdict names; it never turns a violation into anything else.
	Expect string `json:"expect,omitempty"`
}

// Limits are the liveness bounds used by the child's watchdog (never a correctness signal on their own:
// a miss is retried with three times the bound before it counts).
type Limits struct {
	StopMS int `json:"stop_ms"` // a Stop/Close call in flight longer than this is a hang
	OpMS   int `json:"op_ms"`   // any other op in flight longer than this is a hang
}

// Job is what the parent hands to the child.
type Job struct {
	Case    Case   `json:"case"`
	BaseDir string `json:"base_dir"` // directory holding the base files
	WorkDir string `json:"work_dir"` // scratch directory of this job
	Out     string `json:"out"`
	Limits  Limits `json:"limits"`
}

// Hang describes an op that did not return.
type Hang struct {
	Thread int      `json:"thread"`
	Op     string   `json:"op"`
	Phase  string   `json:"phase"`  // seq | conc | final
	Frames []string `json:"frames"` // innermost library frame of every goroutine that is inside the library
	Stacks string   `json:"stacks"`
}

// PanicInfo describes a library call that panicked in the concurrent phase although the same call did not panic
// (or panicked differently) in the sequential reference. The child stops at once: a panic that unwinds out of a
// sync primitive leaves the goroutine's race-detector state unusable, so nothing after it is trustworthy.
type PanicInfo struct {
	Thread int    `json:"thread"`
	Op     string `json:"op"`
	Phase  string `json:"phase"`
	Msg    string `json:"msg"`
	Frame  string `json:"frame"` // innermost library frame below the panic
	Stack  string `json:"stack"`
}

// Leak describes goroutines that outlived Close/Stop.
type Leak struct {
	Extra  int      `json:"extra"`
	Frames []string `json:"frames"`
	Stacks string   `json:"stacks"`
}

// Outcome is what the child reports back.
type Outcome struct {
	Done       bool       `json:"done"`
	SeqProblem string     `json:"seq_problem,omitempty"` // the sequential reference itself could not be established
	Mismatch   []string   `json:"mismatch,omitempty"`    // concurrent results that differ from the sequential ones
	Invariant  []string   `json:"invariant,omitempty"`   // violated sanity conditions (progress values, final counters)
	Hang       *Hang      `json:"hang,omitempty"`
	Panic      *PanicInfo `json:"panic,omitempty"`
	Leak       *Leak      `json:"leak,omitempty"`
	Overlap    bool       `json:"overlap"` // >= 2 goroutines had overlapping activity windows on the library
	Peak       int        `json:"peak"`    // peak number of goroutines simultaneously inside a library call
	Ticks      int64      `json:"ticks"`   // progress callbacks / fake-index callbacks from background goroutines during foreground work
	Nondet     int        `json:"nondet"`  // ops whose sequential result differed between two sequential runs (masked)
	OpsRun     int64      `json:"ops_run"`
	Notes      []string   `json:"notes,omitempty"`
	// RaceLogCut is the size of this process's race log when the first panic out of a sync primitive was caught
	// (-1: none). Such a panic leaves the goroutine's race-detector state unusable (sync events stay ignored), so
	// the parent discards every report written after that offset.
	RaceLogCut int64 `json:"race_log_cut"`
}
