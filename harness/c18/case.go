// Package c18 decides property C18: independent handles and background rebalancing are race-free and
// stop cleanly. See DESIGN.md section 5, C18.
//
// Every generated case is one *concurrent program*. It is executed in a child process of the test binary
// (built with -race) so that the race detector's reports can be collected per program through
// GORACE=log_path and attributed to it; the parent parses the reports and keys each one by the pair of
// innermost library frames of the two conflicting accesses.
package c18

// Op is one step of a goroutine's op list.
type Op struct {
	K string `json:"k"`
	A int    `json:"a,omitempty"`
	B int    `json:"b,omitempty"`
	P int    `json:"p,omitempty"` // schedule point after the op: 0 none, 1 Gosched, n>=2 sleep (n-1)*10us
}

// Thread is the op list of one goroutine.
type Thread struct {
	Role string `json:"role"` // handles: reader|writer   btree/fwriter: fg|poll   smart: user
	Ops  []Op   `json:"ops"`
}

// Case is one concurrent program.
type Case struct {
	Kind    string   `json:"kind"`  // handles | btree | fwriter | smart
	Procs   int      `json:"procs"` // GOMAXPROCS while the program runs
	Reps    int      `json:"reps"`  // repetitions of the concurrent phase
	Loops   int      `json:"loops,omitempty"` // btree/fwriter/smart: the op lists are cycled this many times per repetition
	Files   []string `json:"files,omitempty"` // handles: base files readers open (op.B indexes this list)
	IntUS   int      `json:"int_us,omitempty"`  // background interval in microseconds
	BudUS   int      `json:"bud_us,omitempty"`  // background budget in microseconds
	Prefill int      `json:"prefill,omitempty"` // btree: records present at start; fwriter: attributes present at start
	Node    int      `json:"node,omitempty"`    // btree: node size
	FileMB  int      `json:"file_mb,omitempty"` // smart: file size reported by the fake index
	Threads []Thread `json:"threads"`
}

// Limits are the liveness bounds used by the child's watchdog (never a correctness signal on their own:
// a miss is retried with three times the bound before it counts).
type Limits struct {
	StopMS int `json:"stop_ms"` // a Stop/Close call in flight longer than this is a hang
	OpMS   int `json:"op_ms"`   // any other op in flight longer than this is a hang
}

// Job is what the parent hands to the child.
type Job struct {
	Case    Case   `json:"case"`
	BaseDir string `json:"base_dir"` // directory holding the base files
	WorkDir string `json:"work_dir"` // scratch directory of this job
	Out     string `json:"out"`
	Limits  Limits `json:"limits"`
}

// Hang describes an op that did not return.
type Hang struct {
	Thread int      `json:"thread"`
	Op     string   `json:"op"`
	Phase  string   `json:"phase"` // seq | conc | final
	Frames []string `json:"frames"` // innermost library frame of every goroutine that is inside the library
	Stacks string   `json:"stacks"`
}

// Leak describes goroutines that outlived Close/Stop.
type Leak struct {
	Extra  int      `json:"extra"`
	Frames []string `json:"frames"`
	Stacks string   `json:"stacks"`
}

// Outcome is what the child reports back.
type Outcome struct {
	Done       bool     `json:"done"`
	SeqProblem string   `json:"seq_problem,omitempty"` // the sequential reference itself could not be established
	Mismatch   []string `json:"mismatch,omitempty"`    // concurrent results that differ from the sequential ones
	Invariant  []string `json:"invariant,omitempty"`   // violated sanity conditions (progress values, final counters)
	Hang       *Hang    `json:"hang,omitempty"`
	Leak       *Leak    `json:"leak,omitempty"`
	Overlap    bool     `json:"overlap"`   // >= 2 goroutines had overlapping activity windows on the library
	Peak       int      `json:"peak"`      // peak number of goroutines simultaneously inside a library call
	Ticks      int64    `json:"ticks"`     // progress callbacks / fake-index callbacks from background goroutines during foreground work
	Nondet     int      `json:"nondet"`    // ops whose sequential result differed between two sequential runs (masked)
	OpsRun     int64    `json:"ops_run"`
	Notes      []string `json:"notes,omitempty"`
}
