package c18

import (
	"crypto/sha256"
	"encoding/json"
	"fmt"
	"os"
	"runtime"
	"runtime/debug"
	"sort"
	"strconv"
	"strings"
	"sync"
	"sync/atomic"
	"time"
)

// ---- child process entry ---------------------------------------------------------------------------

// WorkerMain runs one job in this (child) process and exits.
func WorkerMain(jobPath string) {
	b, err := os.ReadFile(jobPath)
	if err != nil {
		fmt.Fprintf(os.Stderr, "c18 worker: %v\n", err)
		os.Exit(3)
	}
	var job Job
	if err := json.Unmarshal(b, &job); err != nil {
		fmt.Fprintf(os.Stderr, "c18 worker: %v\n", err)
		os.Exit(3)
	}
	w := newWorker(job)
	w.run()
	w.finish()
}

type worker struct {
	job           Job
	c             Case
	tr            *tracker
	mu            sync.Mutex // guards out
	out           Outcome
	done          atomic.Bool
	finishing     atomic.Bool
	syncPanicMark atomic.Int64 // race log size at the first recovered "sync:" panic, -1 if none

	lastPanic []*PanicInfo // per thread, written only by that thread
}

func newWorker(job Job) *worker {
	n := len(job.Case.Threads) + 1 // last slot: the coordinating goroutine (final stop / close)
	w := &worker{job: job, c: job.Case, tr: newTracker(n), lastPanic: make([]*PanicInfo, n)}
	w.syncPanicMark.Store(-1)
	return w
}

func (w *worker) finish() {
	if !w.finishing.CompareAndSwap(false, true) {
		select {} // another goroutine is already writing the outcome and exiting
	}
	w.mu.Lock()
	w.out.Done = true
	w.out.RaceLogCut = w.syncPanicMark.Load()
	w.out.Peak = int(w.tr.peak.Load())
	w.out.OpsRun = w.tr.ops.Load()
	b, _ := json.Marshal(w.out)
	w.mu.Unlock()
	w.done.Store(true)
	_ = os.WriteFile(w.job.Out, b, 0o644)
	os.Exit(0)
}

func (w *worker) note(format string, a ...any) {
	w.mu.Lock()
	if len(w.out.Notes) < 20 {
		w.out.Notes = append(w.out.Notes, fmt.Sprintf(format, a...))
	}
	w.mu.Unlock()
}

func (w *worker) mismatch(format string, a ...any) {
	w.mu.Lock()
	if len(w.out.Mismatch) < 12 {
		w.out.Mismatch = append(w.out.Mismatch, fmt.Sprintf(format, a...))
	}
	w.mu.Unlock()
}

func (w *worker) invariant(format string, a ...any) {
	w.mu.Lock()
	if len(w.out.Invariant) < 12 {
		w.out.Invariant = append(w.out.Invariant, fmt.Sprintf(format, a...))
	}
	w.mu.Unlock()
}

func (w *worker) run() {
	procs := w.c.Procs
	if procs < 1 {
		procs = 1
	}
	prev := runtime.GOMAXPROCS(procs)
	defer runtime.GOMAXPROCS(prev)
	go w.watchdog()
	switch w.c.Kind {
	case "handles":
		w.runHandles()
	case "btree":
		w.runBTree()
	case "fwriter":
		w.runFWriter()
	case "smart":
		w.runSmart()
	default:
		w.mu.Lock()
		w.out.SeqProblem = "unknown kind " + w.c.Kind
		w.mu.Unlock()
	}
}

// ---- op tracking, overlap measurement, watchdog ---------------------------------------------------------

type tracker struct {
	start    []atomic.Int64 // unix nanos of the op in flight, 0 = idle
	stopLike []atomic.Bool
	name     []atomic.Value // string
	first    []atomic.Int64 // activity window of the current repetition
	last     []atomic.Int64
	phase    atomic.Value // string
	inLib    atomic.Int32
	peak     atomic.Int32
	ops      atomic.Int64
}

func newTracker(n int) *tracker {
	t := &tracker{start: make([]atomic.Int64, n), stopLike: make([]atomic.Bool, n), name: make([]atomic.Value, n),
		first: make([]atomic.Int64, n), last: make([]atomic.Int64, n)}
	t.phase.Store("init")
	return t
}

func (t *tracker) begin(i int, name string, stopLike bool) {
	now := time.Now().UnixNano()
	t.name[i].Store(name)
	t.stopLike[i].Store(stopLike)
	t.start[i].Store(now)
	if t.first[i].Load() == 0 {
		t.first[i].Store(now)
	}
	n := t.inLib.Add(1)
	for {
		p := t.peak.Load()
		if n <= p || t.peak.CompareAndSwap(p, n) {
			break
		}
	}
}

func (t *tracker) end(i int) {
	t.inLib.Add(-1)
	t.last[i].Store(time.Now().UnixNano())
	t.start[i].Store(0)
	t.ops.Add(1)
}

func (t *tracker) resetWindows() {
	for i := range t.first {
		t.first[i].Store(0)
		t.last[i].Store(0)
	}
}

// windowsOverlap reports whether at least two of the first n threads had intersecting activity windows.
func (t *tracker) windowsOverlap(n int) bool {
	for i := 0; i < n; i++ {
		for j := i + 1; j < n; j++ {
			fi, li, fj, lj := t.first[i].Load(), t.last[i].Load(), t.first[j].Load(), t.last[j].Load()
			if fi == 0 || fj == 0 || li == 0 || lj == 0 {
				continue
			}
			if fi < lj && fj < li {
				return true
			}
		}
	}
	return false
}

// do runs one library call of thread i under tracking; a panic becomes the op's result.
func (w *worker) do(i int, name string, stopLike bool, f func() string) (res string) {
	w.tr.begin(i, name, stopLike)
	defer func() {
		if p := recover(); p != nil {
			mark := raceLogSize() // first thing: after a panic out of a sync primitive the race detector's output is unreliable
			var msg string
			switch x := p.(type) {
			case string:
				msg = x
			case error:
				msg = x.Error()
			default:
				msg = fmt.Sprint(p)
			}
			if strings.HasPrefix(msg, "sync:") {
				for { // keep the smallest mark: several goroutines can be in this handler at once
					cur := w.syncPanicMark.Load()
					if cur != -1 && cur <= mark || w.syncPanicMark.CompareAndSwap(cur, mark) {
						break
					}
				}
			}
			res = "panic: " + firstLine(msg)
			st := string(debug.Stack())
			w.lastPanic[i] = &PanicInfo{Thread: i, Op: name, Msg: firstLine(msg), Stack: clip(st, 6000)}
			if fr := libFramesOfStacks(st); len(fr) > 0 {
				w.lastPanic[i].Frame = fr[0]
			}
		}
		w.tr.end(i)
	}()
	return f()
}

// panicked must be called by a thread when an op's result is a panic the sequential reference did not show:
// it records the panic and ends the child immediately.
func (w *worker) panicked(i int, res string) {
	p := w.lastPanic[i]
	if p == nil {
		p = &PanicInfo{Thread: i, Msg: res}
	}
	p.Phase, _ = w.tr.phase.Load().(string)
	w.mu.Lock()
	if w.out.Panic == nil {
		w.out.Panic = p
	}
	w.mu.Unlock()
	w.finish()
}

// vet ends the child at once when an op of the concurrent phase panicked out of a sync primitive (such a panic
// leaves the goroutine's race-detector state unusable) or, with strict, panicked at all. Other panics are kept as
// the op's result and compared with the sequential run like any other result.
func (w *worker) vet(i int, r string, conc bool, strict bool) {
	if !conc || !isPanic(r) {
		return
	}
	if strict || strings.HasPrefix(r, "panic: sync:") || strings.Contains(r, "concurrent map") {
		w.panicked(i, r)
	}
}

// raceLogSize returns the current size of this process's race log (GORACE log_path), or -1.
func raceLogSize() int64 {
	for _, f := range strings.Fields(os.Getenv("GORACE")) {
		if strings.HasPrefix(f, "log_path=") {
			st, err := os.Stat(strings.TrimPrefix(f, "log_path=") + "." + strconv.Itoa(os.Getpid()))
			if err != nil {
				return 0 // no report written so far
			}
			return st.Size()
		}
	}
	return -1
}

func isPanic(res string) bool { return strings.HasPrefix(res, "panic: ") }

func firstLine(s string) string {
	if i := strings.IndexByte(s, '\n'); i >= 0 {
		s = s[:i]
	}
	if len(s) > 200 {
		s = s[:200]
	}
	return s
}

func pause(p int) {
	switch {
	case p <= 0:
	case p == 1:
		runtime.Gosched()
	default:
		time.Sleep(time.Duration(p-1) * 10 * time.Microsecond)
	}
}

func (w *worker) watchdog() {
	for !w.done.Load() {
		time.Sleep(25 * time.Millisecond)
		now := time.Now().UnixNano()
		for i := range w.tr.start {
			s := w.tr.start[i].Load()
			if s == 0 {
				continue
			}
			limit := int64(w.job.Limits.OpMS)
			if w.tr.stopLike[i].Load() {
				limit = int64(w.job.Limits.StopMS)
			}
			if limit <= 0 {
				limit = 10000
			}
			if (now-s)/1e6 > limit {
				// confirm it is still the same op
				if w.tr.start[i].Load() != s {
					continue
				}
				name, _ := w.tr.name[i].Load().(string)
				phase, _ := w.tr.phase.Load().(string)
				stacks := allStacks()
				h := &Hang{Thread: i, Op: name, Phase: phase, Frames: libFramesOfStacks(stacks), Stacks: clip(stacks, 12000)}
				w.mu.Lock()
				w.out.Hang = h
				w.mu.Unlock()
				w.finish()
			}
		}
	}
}

func allStacks() string {
	buf := make([]byte, 1<<20)
	n := runtime.Stack(buf, true)
	return string(buf[:n])
}

func clip(s string, n int) string {
	if len(s) > n {
		return s[:n] + "…"
	}
	return s
}

const libPrefix = "github.com/scigolib/hdf5"
const harnessPrefix = "github.com/scigolib/hdf5/verif"

func isLibFunc(fn string) bool {
	return strings.HasPrefix(fn, libPrefix) && !strings.HasPrefix(fn, harnessPrefix)
}

// normFunc shortens a fully qualified function name: drops the module path, the argument list and the
// address-dependent parts.
func normFunc(fn string) string {
	// race reports print "pkg.(*T).M()", goroutine dumps "pkg.(*T).M(0xc000..., ...)": cut the trailing
	// argument list (a receiver group "(*T)" is preceded by '.', an argument list is not)
	if strings.HasSuffix(fn, ")") {
		if i := strings.LastIndexByte(fn, '('); i > 0 && fn[i-1] != '.' {
			fn = fn[:i]
		}
	}
	fn = strings.TrimPrefix(fn, libPrefix+"/")
	fn = strings.TrimPrefix(fn, libPrefix+".")
	fn = strings.TrimPrefix(fn, "internal/")
	return fn
}

// libFramesOfStacks returns, for a runtime.Stack(all) dump, the innermost library function of every goroutine
// that is inside library code (sorted, distinct).
func libFramesOfStacks(dump string) []string {
	set := map[string]bool{}
	for _, g := range strings.Split(dump, "\n\n") {
		lines := strings.Split(g, "\n")
		for _, l := range lines[1:] {
			if strings.HasPrefix(l, "\t") || strings.HasPrefix(l, "created by ") {
				continue
			}
			if isLibFunc(l) {
				set[normFunc(l)] = true
				break
			}
		}
	}
	var out []string
	for k := range set {
		out = append(out, k)
	}
	sort.Strings(out)
	return out
}

// ---- goroutine accounting ---------------------------------------------------------------------------

// settle waits until the goroutine count is back at the baseline (polling up to 2 s). Goroutines that remain
// are a leak only if they are inside library code, and only if they are still there after a further, much
// longer wait: a goroutine that is merely slow to exit on a loaded machine is never reported.
func (w *worker) settle(baseline int, what string) {
	deadline := time.Now().Add(2 * time.Second)
	for runtime.NumGoroutine() > baseline && time.Now().Before(deadline) {
		time.Sleep(200 * time.Microsecond)
	}
	if runtime.NumGoroutine() <= baseline {
		return
	}
	dump := allStacks()
	frames := libFramesOfStacks(dump)
	if len(frames) == 0 {
		w.note("%s: %d extra goroutine(s) outside library code ignored", what, runtime.NumGoroutine()-baseline)
		return
	}
	deadline = time.Now().Add(time.Duration(w.job.Limits.StopMS) * time.Millisecond)
	for time.Now().Before(deadline) {
		time.Sleep(20 * time.Millisecond)
		if runtime.NumGoroutine() <= baseline {
			w.note("%s: goroutine count settled only after > 2 s", what)
			return
		}
	}
	dump = allStacks()
	frames = libFramesOfStacks(dump)
	if len(frames) == 0 {
		return
	}
	w.mu.Lock()
	if w.out.Leak == nil {
		w.out.Leak = &Leak{Extra: runtime.NumGoroutine() - baseline, Frames: frames, Stacks: clip(dump, 12000)}
	}
	w.mu.Unlock()
}

// ---- running threads --------------------------------------------------------------------------------

// runThreads starts one goroutine per thread body behind a common barrier and waits for all of them.
func (w *worker) runThreads(bodies []func()) {
	var wg sync.WaitGroup
	gate := make(chan struct{})
	for _, b := range bodies {
		wg.Add(1)
		go func(b func()) {
			defer wg.Done()
			<-gate
			b()
		}(b)
	}
	close(gate)
	wg.Wait()
}

func digest(parts ...string) string {
	h := sha256.New()
	for _, p := range parts {
		h.Write([]byte(p))
		h.Write([]byte{0})
	}
	return fmt.Sprintf("%x", h.Sum(nil)[:10])
}

func errStr(err error) string {
	if err != nil {
		return "err"
	}
	return "ok"
}

// compare reports the first few differences between the sequential and a concurrent result list.
func (w *worker) compare(thread int, rep int, ops []string, seq, conc []string, mask []bool) {
	if len(seq) != len(conc) {
		w.mismatch("thread %d rep %d: %d results, sequential run gave %d", thread, rep, len(conc), len(seq))
		return
	}
	for k := range seq {
		if mask != nil && k < len(mask) && mask[k] {
			continue
		}
		if seq[k] != conc[k] {
			name := ""
			if k < len(ops) {
				name = ops[k]
			}
			w.mismatch("thread %d rep %d op %d (%s): concurrent result %q, sequential result %q", thread, rep, k, name, clip(conc[k], 160), clip(seq[k], 160))
		}
	}
}

func goroutineBaseline() int { return runtime.NumGoroutine() }
