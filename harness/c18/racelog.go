package c18

import (
	"os"
	"path/filepath"
	"regexp"
	"sort"
	"strings"
)

// RaceReport is one "WARNING: DATA RACE" block of a GORACE log.
type RaceReport struct {
	Key    string   // "A <-> B": innermost library frames of the two accesses, sorted
	Frames [2]string
	Kinds  [2]string // read | write | ...
	Text   string
}

var accessHeader = regexp.MustCompile(`^(?i)(previous )?(atomic )?(read|write) at 0x[0-9a-f]+ by `)

// parseRaceLog splits a race log into reports.
func parseRaceLog(text string) []RaceReport {
	var out []RaceReport
	for _, block := range strings.Split(text, "==================") {
		if !strings.Contains(block, "WARNING: DATA RACE") {
			continue
		}
		rep := RaceReport{Text: strings.TrimSpace(block)}
		side := -1
		found := [2]bool{}
		first := [2]string{}
		lines := strings.Split(block, "\n")
		for _, l := range lines {
			if m := accessHeader.FindStringSubmatch(l); m != nil {
				side++
				if side < 2 {
					rep.Kinds[side] = strings.ToLower(m[3])
				}
				continue
			}
			if side < 0 || side > 1 {
				continue
			}
			if strings.TrimSpace(l) == "" {
				continue
			}
			if !strings.HasPrefix(l, "  ") { // next section header ("Goroutine N (running) created at:")
				if side == 1 {
					side = 2
				}
				continue
			}
			if strings.HasPrefix(l, "      ") { // file:line of the frame above
				continue
			}
			fn := strings.TrimSpace(l)
			if first[side] == "" {
				first[side] = fn
			}
			if !found[side] && isLibFunc(fn) {
				rep.Frames[side] = normFunc(fn)
				found[side] = true
			}
		}
		for s := 0; s < 2; s++ {
			if !found[s] {
				f := first[s]
				if f == "" {
					f = "?"
				}
				rep.Frames[s] = "<nolib:" + normFunc(f) + ">"
			}
		}
		a, b := rep.Frames[0], rep.Frames[1]
		if b < a {
			a, b = b, a
		}
		rep.Key = a + " <-> " + b
		out = append(out, rep)
	}
	return out
}

// readRaceLogs parses every log file written with the given log_path prefix.
func readRaceLogs(prefix string) []RaceReport {
	files, _ := filepath.Glob(prefix + ".*")
	sort.Strings(files)
	var out []RaceReport
	for _, f := range files {
		b, err := os.ReadFile(f)
		if err != nil {
			continue
		}
		out = append(out, parseRaceLog(string(b))...)
	}
	return out
}

// ---- known findings: matchers over frame pairs -------------------------------------------------------------

const (
	kfLazyState = "KF-C18-01"
	kfHandle    = "KF-C18-02"
	kfSelector  = "KF-C18-03"
	kfSmartLife = "KF-C18-04"
)

type pairSet struct {
	id   string
	a, b []string // a race matches when one frame is in a and the other in b
}

// The tables list function names only (no line numbers); see known.d/C18.json for the reasoning per entry.
var knownPairs = []pairSet{}

func in(list []string, s string) bool {
	for _, x := range list {
		if x == s {
			return true
		}
	}
	return false
}

// matchRace returns the known-finding id whose frame pairs contain this report, or "".
func matchRace(r RaceReport) string {
	for _, p := range knownPairs {
		if in(p.a, r.Frames[0]) && in(p.b, r.Frames[1]) || in(p.a, r.Frames[1]) && in(p.b, r.Frames[0]) {
			return p.id
		}
	}
	return ""
}
