package c18

import (
	"os"
	"path/filepath"
	"regexp"
	"sort"
	"strings"
)

// RaceReport is one "WARNING: DATA RACE" block of a GORACE log.
type RaceReport struct {
	Key    string // "A <-> B": innermost library frames of the two accesses, sorted
	Frames [2]string
	Kinds  [2]string // read | write | ...
	Text   string
}

var accessHeader = regexp.MustCompile(`^(?i)(previous )?(atomic )?(read|write) at 0x[0-9a-f]+ by `)

// parseRaceLog splits a race log into reports.
func parseRaceLog(text string) []RaceReport {
	var out []RaceReport
	blocks := strings.Split(text, "==================")
	if len(blocks) > 0 {
		blocks = blocks[:len(blocks)-1] // a report is closed by a separator line; what follows the last one is not a whole report
	}
	for _, block := range blocks {
		if !strings.Contains(block, "WARNING: DATA RACE") {
			continue
		}
		rep := RaceReport{Text: strings.TrimSpace(block)}
		side := -1
		found := [2]bool{}
		first := [2]string{}
		lines := strings.Split(block, "\n")
		for _, l := range lines {
			if m := accessHeader.FindStringSubmatch(l); m != nil {
				side++
				if side < 2 {
					rep.Kinds[side] = strings.ToLower(m[3])
				}
				continue
			}
			if side < 0 || side > 1 {
				continue
			}
			if strings.TrimSpace(l) == "" {
				continue
			}
			if !strings.HasPrefix(l, "  ") { // next section header ("Goroutine N (running) created at:")
				if side == 1 {
					side = 2
				}
				continue
			}
			if strings.HasPrefix(l, "      ") { // file:line of the frame above
				continue
			}
			fn := strings.TrimSpace(l)
			if first[side] == "" {
				first[side] = fn
			}
			if !found[side] && isLibFunc(fn) {
				rep.Frames[side] = normFunc(fn)
				found[side] = true
			}
		}
		for s := 0; s < 2; s++ {
			if !found[s] {
				f := first[s]
				if f == "" {
					f = "?"
				}
				rep.Frames[s] = "<nolib:" + normFunc(f) + ">"
			}
		}
		a, b := rep.Frames[0], rep.Frames[1]
		if b < a {
			a, b = b, a
		}
		rep.Key = a + " <-> " + b
		out = append(out, rep)
	}
	return out
}

// readRaceLogs parses every log file written with the given log_path prefix (each cut at limit bytes if limit >= 0).
func readRaceLogs(prefix string, limit int64) []RaceReport {
	files, _ := filepath.Glob(prefix + ".*")
	sort.Strings(files)
	var out []RaceReport
	for _, f := range files {
		b, err := os.ReadFile(f)
		if err != nil {
			continue
		}
		if limit >= 0 && int64(len(b)) > limit {
			b = b[:limit]
		}
		out = append(out, parseRaceLog(string(b))...)
	}
	return out
}

// ---- known findings: matchers over frame pairs -------------------------------------------------------------

const (
	kfLazyState = "KF-C18-01" // lazyState shared between the background rebalancer / progress reader and foreground mutators without a lock
	kfHandle    = "KF-C18-02" // rebalancer handle and its running flag published to querying goroutines without a lock
	kfSelector  = "KF-C18-03" // ConfigSelector keeps lastDecisionTime/lastMode without a lock although Evaluate is documented concurrent-safe
	kfSmartLife = "KF-C18-04" // SmartRebalancer Start/Stop generations share ctx and WaitGroup: race, WaitGroup-reuse panic, Stop that never returns
)

const (
	fnRebalInc = "structures.(*IncrementalRebalancer).rebalanceIncremental"
	fnGetProg  = "structures.(*IncrementalRebalancer).GetProgress"
	fnIRStart  = "structures.(*IncrementalRebalancer).Start"
	fnIRStop   = "structures.(*IncrementalRebalancer).Stop"
	fnIRLoop   = "structures.(*IncrementalRebalancer).rebalancingLoop"
	fnBatch    = "structures.(*WritableBTreeV2).BatchRebalance"
	fnLazyOn   = "structures.(*WritableBTreeV2).EnableLazyRebalancing"
	fnLazyOff  = "structures.(*WritableBTreeV2).DisableLazyRebalancing"
	fnIncOn    = "structures.(*WritableBTreeV2).EnableIncrementalRebalancing"
	fnIncOff   = "structures.(*WritableBTreeV2).StopIncrementalRebalancing"
	fnIncProg  = "structures.(*WritableBTreeV2).GetIncrementalRebalancingProgress"
	fnIsInc    = "structures.(*WritableBTreeV2).IsIncrementalRebalancingEnabled"
	fnSelect   = "rebalancing.(*ConfigSelector).SelectConfig"
	fnSRStart  = "rebalancing.(*SmartRebalancer).Start"
	fnSRStop   = "rebalancing.(*SmartRebalancer).Stop"
	fnSRLoop   = "rebalancing.(*SmartRebalancer).monitorLoop"
	fnSRApply  = "rebalancing.(*SmartRebalancer).applyDecision"
)

type pairSet struct {
	id   string
	a, b []string // a race matches when one innermost library frame is in a and the other in b
}

// The tables hold function names only (no line numbers); known_findings.json gives the reasoning per entry.
var knownPairs = []pairSet{
	// KF-C18-01: rebalanceIncremental (ticker goroutine) and GetProgress (any caller) read bt.lazyState and
	// lazyState.UnderflowNodes; the foreground replaces/clears them in these three functions.
	{kfLazyState, []string{fnRebalInc, fnGetProg}, []string{fnBatch, fnLazyOn, fnLazyOff}},
	// KF-C18-02: a goroutine querying progress/state reads bt.incrementalRebalancer, the fields of the freshly built
	// rebalancer and its running flag while enable/stop requests (and the loop's own shutdown) write them.
	{kfHandle, []string{fnIncProg, fnIsInc, fnGetProg}, []string{fnIncOn, fnIncOff, fnIRStart, fnIRStop, fnIRLoop}},
	// KF-C18-03
	{kfSelector, []string{fnSelect}, []string{fnSelect}},
	// KF-C18-04: a Start that overlaps the tail of a Stop re-uses sr.wg and overwrites sr.ctx while the previous
	// monitor goroutine still reads it; Stop reads currentMode after releasing the lock.
	{kfSmartLife, []string{fnSRStart}, []string{fnSRLoop, fnSRStop}},
	{kfSmartLife, []string{fnSRStop}, []string{fnSRApply, fnSRStop}}, // Stop x Stop: two generations waiting on the one WaitGroup
}

func in(list []string, s string) bool {
	for _, x := range list {
		if x == s {
			return true
		}
	}
	return false
}

// matchRace returns the known-finding id whose frame pairs contain this report, or "".
func matchRace(r RaceReport) string {
	// On the unchanged tree a stop request batches the remaining work only after its worker has exited, so a BatchRebalance
	// running under StopIncrementalRebalancing never overlaps the ticker goroutine: such a report is not the open finding
	// (whose BatchRebalance side is a forced batch or a lazy delete issued by the foreground).
	if (r.Frames[0] == fnBatch || r.Frames[1] == fnBatch) && strings.Contains(r.Text, "StopIncrementalRebalancing") {
		return ""
	}
	for _, p := range knownPairs {
		if in(p.a, r.Frames[0]) && in(p.b, r.Frames[1]) || in(p.a, r.Frames[1]) && in(p.b, r.Frames[0]) {
			return p.id
		}
	}
	return ""
}

// lifecycleThreads counts the threads of a smart program that call Start or Stop.
func lifecycleThreads(c Case) int {
	n := 0
	for _, th := range c.Threads {
		for _, op := range th.Ops {
			if op.K == "start" || op.K == "stop" {
				n++
				break
			}
		}
	}
	return n
}

// stopsWhilePolled reports whether a btree program has stop requests in its foreground list and a polling goroutine.
func stopsWhilePolled(c Case) bool {
	stops, polls := false, false
	for _, th := range c.Threads {
		for _, op := range th.Ops {
			if th.Role == "fg" && (op.K == "stop" || op.K == "lazyoff") {
				stops = true
			}
			if th.Role == "poll" && (op.K == "prog" || op.K == "isinc") {
				polls = true
			}
		}
	}
	return stops && polls
}

// panicID matches a concurrency-only panic against the open findings: the WaitGroup misuse panics raised inside
// SmartRebalancer.Start/Stop when at least two goroutines drive the lifecycle.
func panicID(c Case, p *PanicInfo) string {
	// KF-C18-02, second symptom: the query methods test bt.incrementalRebalancer for nil and then read the field
	// again; a stop request in between makes the second read nil.
	if c.Kind == "btree" && stopsWhilePolled(c) && strings.Contains(p.Msg, "nil pointer dereference") &&
		(p.Frame == fnGetProg || p.Frame == fnIsInc || p.Frame == fnIncProg) {
		return kfHandle
	}
	if c.Kind == "smart" && lifecycleThreads(c) >= 2 && strings.Contains(p.Msg, "WaitGroup") && (p.Frame == fnSRStop || p.Frame == fnSRStart) {
		return kfSmartLife
	}
	return ""
}

// hangID matches a confirmed hang: a Stop that never returns while monitor goroutines of an overlapped generation
// are still alive, again only when at least two goroutines drive the lifecycle.
func hangID(c Case, h *Hang) string {
	if c.Kind == "smart" && lifecycleThreads(c) >= 2 && (h.Op == "stop" || h.Op == "final-stop") && in(h.Frames, fnSRStop) {
		return kfSmartLife
	}
	return ""
}
