package c18

import (
	"os"
	"strconv"
	"testing"

	"pgregory.net/rapid"
)

// TestTriage is a development aid, not part of the check: with VERIF_C18_TRIAGE=<n> it evaluates n generated
// programs and only dumps what it sees (VERIF_C18_DUMP), so that all race keys of a tree can be listed at once.
func TestTriage(t *testing.T) {
	n, _ := strconv.Atoi(os.Getenv("VERIF_C18_TRIAGE"))
	if n <= 0 {
		t.Skip("triage aid; set VERIF_C18_TRIAGE=<programs>")
	}
	only := os.Getenv("VERIF_C18_KIND")
	done := 0
	rapid.Check(t, func(rt *rapid.T) {
		c := genCase(rt)
		if only != "" && c.Kind != only {
			return
		}
		if done >= n {
			return
		}
		done++
		_ = evaluate(c)
	})
}
