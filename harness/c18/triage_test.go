package c18

import (
	"encoding/json"
	"os"
	"strconv"
	"testing"

	"pgregory.net/rapid"
)

// TestTriage is a development aid, not part of the check: with VERIF_C18_TRIAGE=<n> it evaluates n generated
// programs and only dumps what it sees (VERIF_C18_DUMP), so that all race keys of a tree can be listed at once.
func TestTriage(t *testing.T) {
	n, _ := strconv.Atoi(os.Getenv("VERIF_C18_TRIAGE"))
	if n <= 0 {
		t.Skip("triage aid; set VERIF_C18_TRIAGE=<programs>")
	}
	if f := os.Getenv("VERIF_C18_CASE"); f != "" { // evaluate one saved case n times
		b, err := os.ReadFile(f)
		if err != nil {
			t.Fatal(err)
		}
		var rf struct {
			Case Case `json:"case"`
		}
		if err := json.Unmarshal(b, &rf); err != nil {
			t.Fatal(err)
		}
		for i := 0; i < n; i++ {
			_ = evaluate(rf.Case)
		}
		return
	}
	only := os.Getenv("VERIF_C18_KIND")
	done := 0
	rapid.Check(t, func(rt *rapid.T) {
		c := genCase(rt)
		if only != "" && c.Kind != only {
			return
		}
		if done >= n {
			return
		}
		done++
		_ = evaluate(c)
	})
}
