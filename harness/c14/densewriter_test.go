package c14

// densewriter: the writer that builds the name index of an object's dense attribute storage in one go (used when an object's
// attributes move from the object header to dense storage). It accepts every set of pairwise distinct names - two distinct
// names stay two entries even when their hashes are equal -, refuses a name it already holds, and the index it writes holds
// one record per accepted name, ordered by hash, each hash the lookup3 hash of an accepted name.

import (
	"encoding/binary"
	"fmt"
	"os"
	"path/filepath"
	"sort"

	"github.com/scigolib/hdf5/internal/core"
	"github.com/scigolib/hdf5/internal/writer"
	"github.com/scigolib/hdf5/verif/memf"
	"github.com/scigolib/hdf5/verif/refimpl"
	"github.com/scigolib/hdf5/verif/vt"
	"pgregory.net/rapid"
)

type DWCase struct {
	Names []int `json:"names"` // indices into the colliding name table (pairs first, then plain names); repeats are duplicates
	Seed  int   `json:"seed"`
}

func dwNames() []string { return Case{Collide: true}.names() }

func genDW(t *rapid.T) DWCase {
	n := len(dwNames())
	np := 2 * len(getPools().colliding)
	idx := rapid.OneOf(rapid.IntRange(0, np-1), rapid.IntRange(0, n-1))
	return DWCase{Names: rapid.SliceOfN(idx, 1, 24).Draw(t, "names"), Seed: rapid.IntRange(0, 999).Draw(t, "seed")}
}

func classifyDW(c DWCase) (bool, []string) {
	names := dwNames()
	seen := map[int]bool{}
	hashes := map[uint32]int{}
	dup, coll := false, false
	for _, i := range c.Names {
		if i < 0 || i >= len(names) {
			continue
		}
		if seen[i] {
			dup = true
			continue
		}
		seen[i] = true
		h := refimpl.Lookup3([]byte(names[i]), 0)
		if hashes[h] > 0 {
			coll = true
		}
		hashes[h]++
	}
	var labels []string
	if dup {
		labels = append(labels, "duplicate_name")
	}
	if coll {
		labels = append(labels, "two_distinct_names_with_equal_hash")
	}
	return dup || coll || len(seen) > 8, labels
}

func runDW(c DWCase) vt.Verdict {
	names := dwNames()
	sb := &core.Superblock{Version: 2, OffsetSize: 8, LengthSize: 8, Endianness: binary.LittleEndian}
	daw := writer.NewDenseAttributeWriter(0x800)
	dt, err := core.CreateBasicDatatypeMessage(core.DatatypeFixed, 4)
	if err != nil {
		return vt.Bad("CreateBasicDatatypeMessage: %v", err)
	}
	held := map[string]bool{}
	var wantHashes []uint32
	for k, i := range c.Names {
		if i < 0 || i >= len(names) {
			return vt.Skipped("name index out of range")
		}
		data := make([]byte, 4)
		binary.LittleEndian.PutUint32(data, uint32(c.Seed*131+k))
		err := daw.AddAttribute(&core.Attribute{Name: names[i], Datatype: dt, Dataspace: &core.DataspaceMessage{Dimensions: []uint64{1}}, Data: data}, sb)
		switch {
		case held[names[i]] && err == nil:
			return vt.Bad("AddAttribute %d: name %q added a second time without an error", k, names[i])
		case !held[names[i]] && err != nil:
			return vt.Bad("AddAttribute %d: distinct name %q (hash %#x) refused after %d other names: %v", k, names[i], refimpl.Lookup3([]byte(names[i]), 0), len(held), err)
		}
		if err == nil {
			held[names[i]] = true
			wantHashes = append(wantHashes, refimpl.Lookup3([]byte(names[i]), 0))
		}
	}
	p := filepath.Join(vt.GetEnv().Scratch, fmt.Sprintf("c14-dw-%d.bin", os.Getpid()))
	defer os.Remove(p)
	fw, err := writer.NewFileWriter(p, writer.ModeTruncate, 48)
	if err != nil {
		return vt.Bad("NewFileWriter: %v", err)
	}
	info, err := daw.WriteToFile(fw, fw.Allocator(), sb)
	if err != nil {
		_ = fw.Close()
		return vt.Bad("WriteToFile with %d attributes: %v", len(held), err)
	}
	if err := fw.Close(); err != nil {
		return vt.Bad("Close: %v", err)
	}
	img, err := os.ReadFile(p)
	if err != nil {
		return vt.Bad("read image: %v", err)
	}
	recs, nroot, total, _, err := decodeImage(&memf.File{Data: img, EOF: uint64(len(img))}, info.BTreeNameIndexAddr, 8)
	if err != nil {
		return vt.Bad("name index written for %d attributes does not decode: %v", len(held), err)
	}
	if int(nroot) != len(held) || int(total) != len(held) || len(recs) != len(held) {
		return vt.Bad("name index holds %d records (header: root %d, total %d), %d names were accepted", len(recs), nroot, total, len(held))
	}
	sort.Slice(wantHashes, func(a, b int) bool { return wantHashes[a] < wantHashes[b] })
	for k, r := range recs {
		if r.hash != wantHashes[k] {
			return vt.Bad("name index record %d has hash %#x, the accepted names give %#x at that position", k, r.hash, wantHashes[k])
		}
	}
	ids := map[[7]byte]bool{}
	for _, r := range recs {
		if ids[r.id] {
			return vt.Bad("two name index records carry the same heap id %x", r.id)
		}
		ids[r.id] = true
	}
	return vt.Pass()
}
