// Package c14 decides property C14: the B-tree v2 name index is a faithful, persistent map under any
// history, and its key hash is Jenkins lookup3. See DESIGN.md section 5, C14.
package c14

import (
	"bytes"
	"encoding/binary"
	"errors"
	"fmt"
	"sort"
	"strings"
	"sync"
	"testing"
	"time"

	"github.com/scigolib/hdf5/internal/core"
	"github.com/scigolib/hdf5/internal/structures"
	"github.com/scigolib/hdf5/verif/memf"
	"github.com/scigolib/hdf5/verif/refimpl"
	"github.com/scigolib/hdf5/verif/vt"
	"pgregory.net/rapid"
)

const prop = "C14"
const kfCollide = "KF-C14-01"

// ---- name pool ---------------------------------------------------------------------------------

const poolSize = 900

type pools struct {
	plain     []string // no two names share a hash
	colliding [][2]string
}

var getPools = sync.OnceValue(func() pools {
	var p pools
	seen := map[uint32]string{}
	add := func(s string) {
		h := refimpl.Lookup3([]byte(s), 0)
		if _, dup := seen[h]; dup {
			return
		}
		seen[h] = s
		p.plain = append(p.plain, s)
	}
	// deliberately awkward names first: empty-ish, lengths 11..13, 23..25, 36, UTF-8, long
	for _, s := range []string{"a", "b", "ab", "abcdefghijk", "abcdefghijkl", "abcdefghijklm", strings.Repeat("x", 23), strings.Repeat("y", 24),
		strings.Repeat("z", 25), strings.Repeat("q", 36), "名前", "ünïcödé-attr", strings.Repeat("long", 50), "with space", "with/slash", "\x01\x02", "A", "B"} {
		add(s)
	}
	for i := 0; len(p.plain) < poolSize; i++ {
		add(fmt.Sprintf("name_%d", i))
	}
	// colliding pairs by birthday search over short generated names (independent hash)
	first := map[uint32]string{}
	for i := 0; i < 600000 && len(p.colliding) < 6; i++ {
		s := fmt.Sprintf("c%x", i)
		h := refimpl.Lookup3([]byte(s), 0)
		if o, ok := first[h]; ok {
			p.colliding = append(p.colliding, [2]string{o, s})
		} else {
			first[h] = s
		}
	}
	return p
})

// ---- case --------------------------------------------------------------------------------------

type Op struct {
	K string  `json:"k"`           // ins upd del search fill writeload writeat snapshot lazy_on lazy_off force inc_on inc_off rebalance
	N int     `json:"n,omitempty"` // name index into the case's name table, a count for fill, or the node size of the object loaded into (writeload/writeat, 0 = same)
	V uint64  `json:"v,omitempty"` // heap id (< 2^56)
	D int     `json:"d,omitempty"` // delete variant 0 DeleteRecord 1 WithRebalancing 2 Lazy
	T float64 `json:"t,omitempty"` // lazy threshold
	I int     `json:"i,omitempty"` // incremental interval in microseconds
	// R > 0 (writeload/writeat): the tree object the image is loaded into is not a fresh one - it already holds R records of
	// another tree (an object that is re-used)
	R int `json:"r,omitempty"`
	// F (writeload): the image is written into another, new file (its allocator knows nothing of the addresses the tree was
	// loaded from); the history continues there
	F bool `json:"f,omitempty"`
}

type Case struct {
	NodeSize   uint32 `json:"node_size"`
	OffsetSize uint8  `json:"offset_size"`
	Collide    bool   `json:"collide"` // name table includes constructed colliding pairs
	// Base: file address at which the first allocation of the (in-memory) file lands (0 = 64)
	Base uint64 `json:"base,omitempty"`
	Ops        []Op   `json:"ops"`
}

func (c Case) names() []string {
	p := getPools()
	if !c.Collide {
		return p.plain
	}
	var out []string
	for _, pr := range p.colliding {
		out = append(out, pr[0], pr[1])
	}
	return append(out, p.plain[:40]...)
}

func baseOf(c Case) uint64 {
	if c.Base == 0 || c.Base > 1<<26 {
		return 64
	}
	return c.Base
}

func maxRecords(nodeSize uint32) int { return int((nodeSize - 10) / 11) }

func genCase(t *rapid.T) Case {
	c := Case{
		NodeSize:   rapid.SampledFrom([]uint32{64, 128, 512, 4096, 64, 128, 512, 4096, 64, 128, 512, 4096, 65536, 69632}).Draw(t, "nodeSize"),
		OffsetSize: rapid.SampledFrom([]uint8{8, 8, 8, 4}).Draw(t, "offsetSize"),
		Base:       rapid.SampledFrom([]uint64{0, 0, 0, 65000, 70000, 1 << 18, 1 << 20}).Draw(t, "base"),
		Collide:    rapid.IntRange(0, 19).Draw(t, "collide") == 0,
	}
	capacity := maxRecords(c.NodeSize)
	nNames := len(c.names())
	// window of names the history mostly works on, sized relative to capacity so fills and re-inserts happen
	win := capacity + 6
	if win > nNames {
		win = nNames
	}
	if c.Collide {
		win = 16
	}
	hot := 6
	if hot > win {
		hot = win
	}
	nameGen := rapid.OneOf(rapid.IntRange(0, hot-1), rapid.IntRange(0, hot-1), rapid.IntRange(0, win-1), rapid.IntRange(0, win-1), rapid.IntRange(0, nNames-1))
	valGen := rapid.OneOf(rapid.Uint64Range(0, 1<<56-1), rapid.SampledFrom([]uint64{0, 1, 0xFF, 1<<56 - 1, 0x00FFFFFFFFFFFF00}))
	opGen := rapid.Custom(func(t *rapid.T) Op {
		k := rapid.SampledFrom([]string{"ins", "ins", "ins", "ins", "upd", "upd", "del", "del", "del", "search", "fill", "writeload", "writeat", "snapshot",
			"lazy_on", "lazy_off", "force", "inc_on", "inc_off", "rebalance"}).Draw(t, "k")
		op := Op{K: k}
		switch k {
		case "ins", "upd":
			op.N = nameGen.Draw(t, "n")
			op.V = valGen.Draw(t, "v")
		case "del":
			op.N = nameGen.Draw(t, "n")
			op.D = rapid.IntRange(0, 2).Draw(t, "variant")
		case "search":
			op.N = nameGen.Draw(t, "n")
		case "writeload", "writeat":
			// node size of the object the image is loaded into: the stored header decides, not the constructor argument
			op.N = rapid.SampledFrom([]int{0, 0, 64, 128, 512, 4096}).Draw(t, "loadInto")
			if rapid.IntRange(0, 2).Draw(t, "reuse") == 0 {
				op.R = rapid.IntRange(1, 5).Draw(t, "reuseRecords")
			}
			if k == "writeload" && rapid.IntRange(0, 3).Draw(t, "freshFile") == 0 {
				op.F = true
			}
		case "fill":
			hi := capacity + 3
			if hi > 600 {
				hi = 600 // nodes of 64 KiB and more are never filled to the brim (the name table is not that large)
			}
			op.N = rapid.IntRange(1, hi).Draw(t, "count")
			op.V = valGen.Draw(t, "v")
		case "lazy_on":
			op.T = rapid.SampledFrom([]float64{0.05, 0, -1, 0.2, 0.5, 1, 0.01}).Draw(t, "threshold")
		case "inc_on":
			op.I = rapid.SampledFrom([]int{1, 10, 100, 1000}).Draw(t, "interval_us")
		}
		return op
	})
	c.Ops = rapid.SliceOfN(opGen, 1, vt.N(40, 120)).Draw(t, "ops")
	return c
}

func classify(c Case) (bool, []string) {
	capacity := maxRecords(c.NodeSize)
	live := map[int]bool{}
	deleted := map[int]bool{}
	names := c.names()
	peak, reinserted, midLoad, overCap := 0, false, false, false
	reused, reusedEmpty := false, false
	for i, op := range c.Ops {
		switch op.K {
		case "ins":
			if !live[op.N] && len(live) < capacity {
				if deleted[op.N] {
					reinserted = true
				}
				live[op.N] = true
			} else if !live[op.N] {
				overCap = true
			}
		case "del":
			if live[op.N] && (op.D != 2) { // approximate: lazy deletes depend on mode
				delete(live, op.N)
				deleted[op.N] = true
			}
		case "fill":
			for j := 0; j < len(names) && op.N > 0; j++ {
				if !live[j] {
					if len(live) >= capacity {
						overCap = true
						break
					}
					live[j] = true
					op.N--
				}
			}
		case "writeload", "writeat":
			if i < len(c.Ops)-1 && len(live) > 0 {
				midLoad = true
			}
			if op.R > 0 {
				reused = true
				if len(live) == 0 {
					reusedEmpty = true
				}
			}
		}
		if len(live) > peak {
			peak = len(live)
		}
	}
	labels := []string{fmt.Sprintf("node=%d", c.NodeSize)}
	if peak*2 >= capacity {
		labels = append(labels, "half_capacity")
	}
	if overCap {
		labels = append(labels, "over_capacity")
	}
	if reinserted {
		labels = append(labels, "delete_reinsert")
	}
	if midLoad {
		labels = append(labels, "mid_write_load")
	}
	if c.Collide {
		labels = append(labels, "colliding_pool")
	}
	if reused {
		labels = append(labels, "loaded_into_reused_object")
	}
	if reusedEmpty {
		labels = append(labels, "empty_tree_loaded_into_reused_object")
	}
	return peak*2 >= capacity || reinserted || midLoad, labels
}

// ---- independent decode of the written image ---------------------------------------------------

type imgRec struct {
	hash uint32
	id   [7]byte
}

func decodeImage(f *memf.File, hdrAddr uint64, offSize int) (recs []imgRec, nroot uint16, total uint64, nodeSize uint32, err error) {
	hs := 4 + 1 + 1 + 4 + 2 + 2 + 1 + 1 + offSize + 2 + 8 + 4
	if hdrAddr+uint64(hs) > uint64(len(f.Data)) {
		return nil, 0, 0, 0, fmt.Errorf("header at %d outside image (%d bytes)", hdrAddr, len(f.Data))
	}
	h := f.Data[hdrAddr : hdrAddr+uint64(hs)]
	if string(h[:4]) != "BTHD" || h[4] != 0 {
		return nil, 0, 0, 0, fmt.Errorf("bad header signature/version %q %d", h[:4], h[4])
	}
	nodeSize = binary.LittleEndian.Uint32(h[6:])
	recSize := binary.LittleEndian.Uint16(h[10:])
	depth := binary.LittleEndian.Uint16(h[12:])
	if recSize != 11 || depth != 0 {
		return nil, 0, 0, 0, fmt.Errorf("record size %d depth %d", recSize, depth)
	}
	var root uint64
	switch offSize {
	case 4:
		root = uint64(binary.LittleEndian.Uint32(h[16:]))
	case 8:
		root = binary.LittleEndian.Uint64(h[16:])
	}
	nroot = binary.LittleEndian.Uint16(h[16+offSize:])
	total = binary.LittleEndian.Uint64(h[18+offSize:])
	ls := uint64(6 + int(nroot)*11 + 4)
	if ls > uint64(nodeSize) {
		return nil, 0, 0, 0, fmt.Errorf("leaf with %d records needs %d bytes > node size %d", nroot, ls, nodeSize)
	}
	if root+ls > uint64(len(f.Data)) {
		return nil, 0, 0, 0, fmt.Errorf("leaf at %d (+%d) outside image (%d bytes)", root, ls, len(f.Data))
	}
	l := f.Data[root : root+ls]
	if string(l[:4]) != "BTLF" || l[4] != 0 || l[5] != h[5] {
		return nil, 0, 0, 0, fmt.Errorf("bad leaf signature/version/type %q %d %d", l[:4], l[4], l[5])
	}
	for i := 0; i < int(nroot); i++ {
		var r imgRec
		r.hash = binary.LittleEndian.Uint32(l[6+i*11:])
		copy(r.id[:], l[6+i*11+4:])
		recs = append(recs, r)
	}
	return recs, nroot, total, nodeSize, nil
}

// ---- the property ------------------------------------------------------------------------------

type state struct {
	c             Case
	names         []string
	bt            *structures.WritableBTreeV2
	model         map[string]uint64
	sb            *core.Superblock
	file          *memf.File
	hdrAddr       uint64
	loaded        bool
	lazy          bool
	inc           bool
	collisionLive bool // two live (or ever co-resident) names share a hash
	hashes        map[uint32]int
}

func id7(v uint64) [7]byte {
	var t [8]byte
	binary.LittleEndian.PutUint64(t[:], v)
	var o [7]byte
	copy(o[:], t[:7])
	return o
}

func (s *state) hashOf(name string) uint32 { return refimpl.Lookup3([]byte(name), 0) }

func (s *state) modelInsert(name string, v uint64) {
	h := s.hashOf(name)
	if s.hashes[h] > 0 {
		s.collisionLive = true
	}
	s.hashes[h]++
	s.model[name] = v
}
func (s *state) modelDelete(name string) {
	s.hashes[s.hashOf(name)]--
	delete(s.model, name)
}

// invariant is checked after every step.
func (s *state) invariant(step int, op Op) *vt.Verdict {
	fail := func(format string, a ...any) *vt.Verdict {
		d := fmt.Sprintf("step %d (%s): ", step, op.K) + fmt.Sprintf(format, a...)
		if s.collisionLive {
			v := vt.KnownOr(kfCollide, "%s", d)
			return &v
		}
		v := vt.Bad("%s", d)
		return &v
	}
	recs := s.bt.GetRecords()
	if len(recs) != len(s.model) {
		return fail("index holds %d records, model %d", len(recs), len(s.model))
	}
	for i := 1; i < len(recs); i++ {
		if recs[i-1].NameHash > recs[i].NameHash {
			return fail("records not ordered by hash at %d: %#x > %#x", i, recs[i-1].NameHash, recs[i].NameHash)
		}
	}
	// the multiset of (hash,id) equals the model's
	want := make([]imgRec, 0, len(s.model))
	for n, v := range s.model {
		want = append(want, imgRec{s.hashOf(n), id7(v)})
	}
	got := make([]imgRec, 0, len(recs))
	for _, r := range recs {
		got = append(got, imgRec{r.NameHash, r.HeapID})
	}
	less := func(l []imgRec) func(i, j int) bool {
		return func(i, j int) bool {
			if l[i].hash != l[j].hash {
				return l[i].hash < l[j].hash
			}
			return bytes.Compare(l[i].id[:], l[j].id[:]) < 0
		}
	}
	sort.Slice(want, less(want))
	sort.Slice(got, less(got))
	for i := range want {
		if want[i] != got[i] {
			return fail("record set differs from model at sorted position %d: index (%#x,%x) model (%#x,%x)", i, got[i].hash, got[i].id, want[i].hash, want[i].id)
		}
	}
	return nil
}

func (s *state) lookups(step int, op Op, idxs []int) *vt.Verdict {
	// results of earlier lookups of this batch are kept and looked at again after the later ones: a name is resolved, others
	// are resolved, and then the first result is used
	type keptID struct {
		name string
		id   []byte
		snap []byte
	}
	var kept []keptID
	defer func() {
		for _, k := range kept {
			for j := range k.id {
				k.id[j] ^= 0xA5 // what the caller does with a returned id is the caller's business
			}
		}
	}()
	for _, i := range idxs {
		for _, k := range kept {
			if !bytes.Equal(k.id, k.snap) {
				x := vt.Bad("step %d (%s): the heap id returned by SearchRecord(%q) changed from %x to %x when another name was looked up", step, op.K, k.name, k.snap, k.id)
				return &x
			}
		}
		name := s.names[i]
		id, ok := s.bt.SearchRecord(name)
		if ok {
			kept = append(kept, keptID{name, id, append([]byte{}, id...)})
		}
		has := s.bt.HasKey(name)
		v, live := s.model[name]
		bad := ""
		switch {
		case ok != live:
			bad = fmt.Sprintf("SearchRecord(%q) found=%v, model live=%v", name, ok, live)
		case has != live:
			bad = fmt.Sprintf("HasKey(%q)=%v, model live=%v", name, has, live)
		case live:
			w := id7(v)
			if len(id) != 8 || !bytes.Equal(id[:7], w[:]) || id[7] != 0 {
				bad = fmt.Sprintf("SearchRecord(%q) = %x, model %x00", name, id, w)
			}
		}
		if bad != "" {
			d := fmt.Sprintf("step %d (%s): %s", step, op.K, bad)
			// the hash-only lookup confuses names whose hashes collide (open finding), only then
			if s.collisionLive || s.hashes[s.hashOf(name)] > 0 && !live {
				x := vt.KnownOr(kfCollide, "%s", d)
				return &x
			}
			x := vt.Bad("%s", d)
			return &x
		}
	}
	return nil
}

func (s *state) applyMode() {
	// re-apply the rebalancing mode to a freshly loaded tree
	if s.lazy {
		cfg := structures.DefaultLazyConfig()
		s.bt.EnableLazyRebalancing(cfg)
	}
	s.inc = false
}

func (s *state) stopBackground() {
	if s.bt != nil {
		_ = s.bt.StopIncrementalRebalancing()
	}
}

func (s *state) writeAndReload(step int, op Op, inPlace bool) *vt.Verdict {
	bad := func(format string, a ...any) *vt.Verdict {
		v := vt.Bad("step %d (%s): "+format, append([]any{step, op.K}, a...)...)
		return &v
	}
	if inPlace {
		if !s.loaded {
			// WriteAt on a tree that was never loaded must be refused
			if err := s.bt.WriteAt(s.file, s.sb); err == nil {
				return bad("WriteAt on a never-loaded tree returned nil")
			}
			return nil
		}
		if err := s.bt.WriteAt(s.file, s.sb); err != nil {
			return bad("WriteAt: %v", err)
		}
	} else {
		if op.F {
			s.file = memf.New(48) // another file: nothing of the old one is there
		}
		a, err := s.bt.WriteToFile(s.file, s.file, s.sb)
		if err != nil {
			return bad("WriteToFile: %v", err)
		}
		s.hdrAddr = a
	}
	// independent decode of the bytes
	recs, nroot, total, nodeSize, err := decodeImage(s.file, s.hdrAddr, int(s.sb.OffsetSize))
	if err != nil {
		return bad("written image does not decode: %v", err)
	}
	if int(nroot) != len(s.model) || total != uint64(len(s.model)) {
		if s.collisionLive {
			v := vt.KnownOr(kfCollide, "step %d: header counts root=%d total=%d, model %d", step, nroot, total, len(s.model))
			return &v
		}
		return bad("header counts root=%d total=%d, model has %d records", nroot, total, len(s.model))
	}
	if nodeSize != s.c.NodeSize {
		return bad("header node size %d, created with %d", nodeSize, s.c.NodeSize)
	}
	cur := s.bt.GetRecords()
	for i, r := range recs {
		if r.hash != cur[i].NameHash || r.id != cur[i].HeapID {
			return bad("image record %d = (%#x,%x), in-memory (%#x,%x)", i, r.hash, r.id, cur[i].NameHash, cur[i].HeapID)
		}
	}
	// load into a fresh tree and continue the history with it
	s.stopBackground()
	into := s.c.NodeSize
	if op.N > 0 {
		into = uint32(op.N) // the library itself always constructs a 4096-byte tree object and then loads whatever the file holds
	}
	nt := structures.NewWritableBTreeV2(into)
	for j := 0; j < op.R && j < 5; j++ {
		_ = nt.InsertRecord(fmt.Sprintf("stale-%d", j), 0xABCD00+uint64(j)) // what the re-used object held before
	}
	if err := nt.LoadFromFile(s.file, s.hdrAddr, s.sb); err != nil {
		return bad("LoadFromFile of freshly written tree: %v", err)
	}
	lr := nt.GetRecords()
	if len(lr) != len(cur) {
		return bad("loaded tree has %d records, written %d", len(lr), len(cur))
	}
	for i := range lr {
		if lr[i] != cur[i] {
			return bad("loaded record %d = %+v, written %+v", i, lr[i], cur[i])
		}
	}
	s.bt = nt
	s.loaded = true
	s.applyMode()
	return nil
}

func run(c Case) vt.Verdict {
	names := c.names()
	s := &state{c: c, names: names, bt: structures.NewWritableBTreeV2(c.NodeSize), model: map[string]uint64{}, hashes: map[uint32]int{},
		sb: &core.Superblock{Version: 2, OffsetSize: c.OffsetSize, LengthSize: 8, Endianness: binary.LittleEndian}, file: memf.New(baseOf(c))}
	s.file.Data = make([]byte, 64)
	defer s.stopBackground()
	capacity := maxRecords(c.NodeSize)
	probe := []int{0, 1, 2}
	for step, op := range c.Ops {
		if op.N < 0 || (op.K != "fill" && op.N >= len(names)) {
			return vt.Skipped("name index out of range")
		}
		touched := []int{}
		switch op.K {
		case "ins":
			name := names[op.N]
			touched = append(touched, op.N)
			if _, live := s.model[name]; live {
				// callers never insert a present name (they search first and update): treat as update
				if err := s.bt.UpdateRecord(name, op.V); err != nil {
					if s.collisionLive {
						return vt.KnownOr(kfCollide, "step %d: UpdateRecord(%q): %v", step, name, err)
					}
					return vt.Bad("step %d: UpdateRecord(%q) of a live name: %v", step, name, err)
				}
				s.model[name] = op.V
				break
			}
			err := s.bt.InsertRecord(name, op.V)
			if len(s.model) >= capacity {
				if err == nil {
					return vt.Bad("step %d: insert of %q beyond capacity %d returned nil", step, name, capacity)
				}
				if !errors.Is(err, structures.ErrBTreeNodeFull) {
					return vt.Bad("step %d: insert beyond capacity returned %v, want ErrBTreeNodeFull", step, err)
				}
			} else {
				if err != nil {
					return vt.Bad("step %d: insert of absent %q with %d/%d records failed: %v", step, name, len(s.model), capacity, err)
				}
				s.modelInsert(name, op.V)
			}
		case "fill":
			left := op.N
			for j := 0; j < len(names) && left > 0; j++ {
				if _, live := s.model[names[j]]; live {
					continue
				}
				err := s.bt.InsertRecord(names[j], op.V+uint64(j))
				if len(s.model) >= capacity {
					if !errors.Is(err, structures.ErrBTreeNodeFull) {
						return vt.Bad("step %d: fill insert #%d beyond capacity %d returned %v, want ErrBTreeNodeFull", step, j, capacity, err)
					}
					break
				}
				if err != nil {
					return vt.Bad("step %d: fill insert of %q with %d/%d records failed: %v", step, names[j], len(s.model), capacity, err)
				}
				s.modelInsert(names[j], (op.V+uint64(j))&(1<<56-1))
				left--
			}
		case "upd":
			name := names[op.N]
			touched = append(touched, op.N)
			err := s.bt.UpdateRecord(name, op.V)
			if _, live := s.model[name]; live {
				if err != nil {
					return vt.Bad("step %d: UpdateRecord(%q) of a live name: %v", step, name, err)
				}
				s.model[name] = op.V
			} else if err == nil {
				if s.hashes[s.hashOf(name)] > 0 {
					return vt.KnownOr(kfCollide, "step %d: UpdateRecord(%q) of an absent name succeeded (hash collides with a live name)", step, name)
				}
				return vt.Bad("step %d: UpdateRecord(%q) of an absent name returned nil", step, name)
			}
		case "del":
			name := names[op.N]
			touched = append(touched, op.N)
			var err error
			switch op.D {
			case 0:
				err = s.bt.DeleteRecord(name)
			case 1:
				err = s.bt.DeleteRecordWithRebalancing(name)
			default:
				err = s.bt.DeleteRecordLazy(name)
				if !s.lazy {
					if err == nil {
						return vt.Bad("step %d: DeleteRecordLazy without lazy mode returned nil", step)
					}
					goto afterOp // must have changed nothing
				}
			}
			if _, live := s.model[name]; live {
				if err != nil {
					return vt.Bad("step %d: delete (variant %d) of live %q: %v", step, op.D, name, err)
				}
				s.modelDelete(name)
			} else if err == nil {
				if s.hashes[s.hashOf(name)] > 0 {
					return vt.KnownOr(kfCollide, "step %d: delete of absent %q removed a colliding live name", step, name)
				}
				return vt.Bad("step %d: delete (variant %d) of absent %q returned nil", step, op.D, name)
			}
		case "search":
			touched = append(touched, op.N)
		case "writeload":
			if v := s.writeAndReload(step, op, false); v != nil {
				return *v
			}
		case "writeat":
			if v := s.writeAndReload(step, op, true); v != nil {
				return *v
			}
		case "snapshot":
			// a copy of a loaded tree written elsewhere (WriteToFile) while the tree keeps being rewritten in place at the
			// address it was loaded from: the copy holds the current records, and later in-place writes still describe
			// the tree at its own address
			if !s.loaded {
				continue
			}
			a, err := s.bt.WriteToFile(s.file, s.file, s.sb)
			if err != nil {
				return vt.Bad("step %d (snapshot): WriteToFile of a loaded tree: %v", step, err)
			}
			recs, _, _, _, err := decodeImage(s.file, a, int(s.sb.OffsetSize))
			if err != nil {
				return vt.Bad("step %d (snapshot): the copy does not decode: %v", step, err)
			}
			cur := s.bt.GetRecords()
			if len(recs) != len(cur) {
				if s.collisionLive {
					return vt.KnownOr(kfCollide, "step %d (snapshot): copy holds %d records, tree %d", step, len(recs), len(cur))
				}
				return vt.Bad("step %d (snapshot): copy holds %d records, tree %d", step, len(recs), len(cur))
			}
			for i, r := range recs {
				if r.hash != cur[i].NameHash || r.id != cur[i].HeapID {
					return vt.Bad("step %d (snapshot): copy record %d = (%#x,%x), in-memory (%#x,%x)", step, i, r.hash, r.id, cur[i].NameHash, cur[i].HeapID)
				}
			}
		case "lazy_on":
			cfg := structures.DefaultLazyConfig()
			cfg.Threshold = op.T
			s.bt.EnableLazyRebalancing(cfg)
			s.lazy = true
			if !s.bt.IsLazyRebalancingEnabled() {
				return vt.Bad("step %d: lazy rebalancing not reported enabled after EnableLazyRebalancing", step)
			}
		case "lazy_off":
			if s.inc {
				_ = s.bt.StopIncrementalRebalancing()
				s.inc = false
			}
			if err := s.bt.DisableLazyRebalancing(); err != nil {
				return vt.Bad("step %d: DisableLazyRebalancing: %v", step, err)
			}
			s.lazy = false
		case "force":
			err := s.bt.ForceBatchRebalance()
			if s.lazy && err != nil {
				return vt.Bad("step %d: ForceBatchRebalance in lazy mode: %v", step, err)
			}
		case "inc_on":
			cfg := structures.DefaultIncrementalConfig()
			cfg.Interval = time.Duration(op.I) * time.Microsecond
			cfg.Budget = 50 * time.Microsecond
			err := s.bt.EnableIncrementalRebalancing(cfg)
			switch {
			case !s.lazy && err == nil:
				return vt.Bad("step %d: incremental rebalancing enabled without its lazy prerequisite", step)
			case s.lazy && !s.inc && err != nil:
				return vt.Bad("step %d: EnableIncrementalRebalancing: %v", step, err)
			case s.lazy && err == nil:
				s.inc = true
			}
		case "inc_off":
			if err := s.bt.StopIncrementalRebalancing(); err != nil {
				return vt.Bad("step %d: StopIncrementalRebalancing: %v", step, err)
			}
			s.inc = false
		case "rebalance":
			if err := s.bt.RebalanceAll(); err != nil {
				return vt.Bad("step %d: RebalanceAll: %v", step, err)
			}
		default:
			return vt.Skipped("unknown op")
		}
	afterOp:
		if v := s.invariant(step, op); v != nil {
			return *v
		}
		if v := s.lookups(step, op, append(touched, probe...)); v != nil {
			return *v
		}
	}
	// final: every pool name in the working window looked up, then write + independent decode + reload
	all := make([]int, 0, 64)
	for i := 0; i < len(names) && i < capacity+8; i++ {
		all = append(all, i)
	}
	end := Op{K: "final"}
	if v := s.lookups(len(c.Ops), end, all); v != nil {
		return *v
	}
	if v := s.writeAndReload(len(c.Ops), end, false); v != nil {
		return *v
	}
	if v := s.invariant(len(c.Ops), end); v != nil {
		return *v
	}
	if v := s.lookups(len(c.Ops), end, all); v != nil {
		return *v
	}
	return vt.Pass()
}

// ---- hash sub-check ------------------------------------------------------------------------------

type HashCase struct {
	Name []byte `json:"name"`
}

func libHash(name []byte) (uint32, error) {
	bt := structures.NewWritableBTreeV2(64)
	if err := bt.InsertRecord(string(name), 1); err != nil {
		return 0, err
	}
	r := bt.GetRecords()
	if len(r) != 1 {
		return 0, fmt.Errorf("%d records after one insert", len(r))
	}
	return r[0].NameHash, nil
}

func runHash(c HashCase) vt.Verdict {
	got, err := libHash(c.Name)
	if err != nil {
		return vt.Bad("insert failed: %v", err)
	}
	if want := refimpl.Lookup3(c.Name, 0); got != want {
		return vt.Bad("name hash of %q (len %d) = %#08x, lookup3 = %#08x", c.Name, len(c.Name), got, want)
	}
	return vt.Pass()
}

func genHash(t *rapid.T) HashCase {
	n := rapid.OneOf(rapid.IntRange(0, 64), rapid.SampledFrom([]int{0, 1, 3, 4, 11, 12, 13, 23, 24, 25, 35, 36, 37, 48, 60, 64, 100, 255, 256})).Draw(t, "len")
	return HashCase{Name: rapid.SliceOfN(rapid.Byte(), n, n).Draw(t, "name")}
}

func hashExhaustive(t *testing.T) {
	e := vt.GetEnv()
	rec := vt.Recorder(prop)
	var n int64
	check := func(b []byte) {
		n++
		if v := runHash(HashCase{Name: b}); v.Kind == vt.Violation {
			p := vt.ReportViolation(prop, "hash-short", HashCase{Name: append([]byte{}, b...)}, v.Detail)
			t.Fatalf("%s (replay %s)", v.Detail, p)
		}
	}
	if e.Shard == 0 {
		check(nil)
		for a := 0; a < 256; a++ {
			check([]byte{byte(a)})
		}
	}
	for a := e.Shard; a < 256; a += e.NShards {
		for b := 0; b < 256; b++ {
			check([]byte{byte(a), byte(b)})
		}
	}
	// every length 0..64 with a fixed pattern, and constructed colliding pairs really collide in the library too
	if e.Shard == 0 {
		for l := 0; l <= 64; l++ {
			b := make([]byte, l)
			for i := range b {
				b[i] = byte(i*37 + l)
			}
			check(b)
		}
		for _, pr := range getPools().colliding {
			h0, _ := libHash([]byte(pr[0]))
			h1, _ := libHash([]byte(pr[1]))
			n += 2
			if h0 != h1 {
				p := vt.ReportViolation(prop, "hash-short", HashCase{Name: []byte(pr[1])}, "constructed lookup3-colliding pair does not collide in the library")
				t.Fatalf("pair %q/%q: %#x vs %#x (replay %s)", pr[0], pr[1], h0, h1, p)
			}
		}
	}
	rec.Bulk("hash-short", n, n, nil)
	rec.SetExhaustive("hash-short", true)
	rec.Sample("hash-short", HashCase{Name: []byte{0x41, 0x42}})
}

func TestProp(t *testing.T) {
	if len(getPools().colliding) < 2 {
		t.Fatalf("could not construct colliding pairs")
	}
	vt.Run(t, prop,
		vt.Func[HashCase]{Name: "hash-short", One: runHash, Body: hashExhaustive},
		vt.Sub[HashCase]{Prop: prop, Name: "hash", Gen: genHash, Run: runHash,
			Classify: func(c HashCase) (bool, []string) {
				return len(c.Name) > 0, []string{fmt.Sprintf("len%%12=%d", len(c.Name)%12)}
			}}.WithBudget(100000, 1500000),
		vt.Sub[Case]{Prop: prop, Name: "history", Gen: genCase, Run: run, Classify: classify}.WithBudget(30000, 150000),
		vt.Sub[DWCase]{Prop: prop, Name: "densewriter", Gen: genDW, Run: runDW, Classify: classifyDW}.WithBudget(1500, 12000),
	)
}
