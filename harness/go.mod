module github.com/scigolib/hdf5/verif

go 1.25

require (
	github.com/scigolib/hdf5 v0.0.0
	pgregory.net/rapid v1.3.0
)

replace github.com/scigolib/hdf5 => /repo
