package c07

// Sub-check "treeptr": exhaustive re-targeting of version-1 B-tree child pointers. For every TREE node of a few bases every
// child pointer is set to the address of every TREE node of the file (the node itself, its siblings, its parent, nodes of
// other trees) - alone, together with node level := level+1, and together with node level := the parent's level. Cycles
// and same-level links in a chunk or group index need exactly such pairs of fields; the random campaign finds them rarely.

import (
	"encoding/binary"
	"fmt"
	"testing"

	"github.com/scigolib/hdf5/verif/vt"
)

const subTree = "treeptr"

type treeNode struct {
	off, typ, level, entries int
	slots                    []int // file offsets of the child pointers
}

// treeNodes locates the TREE nodes of an image and their child-pointer slots. Group nodes (type 0) have keys of one
// length-size; for chunk nodes (type 1) the key size 8+8*coordinates is inferred: the smallest count for which every child slot
// holds a plausible address.
func treeNodes(b *Base, offW int) []treeNode {
	d := b.Data
	var out []treeNode
	for _, st := range b.Structs {
		if st.Kind != "TREE" || st.Off+8+2*offW > len(d) {
			continue
		}
		n := treeNode{off: st.Off, typ: int(d[st.Off+4]), level: int(d[st.Off+5]), entries: int(binary.LittleEndian.Uint16(d[st.Off+6:]))}
		if n.entries == 0 || n.entries > 4096 {
			continue
		}
		hdr := 8 + 2*offW
		try := func(ks int) []int {
			var sl []int
			for i := 0; i < n.entries; i++ {
				p := st.Off + hdr + ks + i*(ks+offW)
				if p+offW > len(d) {
					return nil
				}
				var v uint64
				for k := offW - 1; k >= 0; k-- {
					v = v<<8 | uint64(d[p+k])
				}
				if v == 0 || v >= uint64(len(d)) {
					return nil
				}
				if n.typ == 1 { // the key in front of the pointer: stored size and filter mask must look like ones
					k := p - ks
					nb := binary.LittleEndian.Uint32(d[k:])
					if nb == 0 || uint64(nb) > uint64(len(d)) || binary.LittleEndian.Uint32(d[k+4:]) > 0xFFFF {
						return nil
					}
				}
				sl = append(sl, p)
			}
			return sl
		}
		switch n.typ {
		case 0:
			n.slots = try(offW) // key = heap offset (size of lengths, taken equal to the size of offsets)
		case 1:
			for coords := 1; coords <= 9 && n.slots == nil; coords++ {
				n.slots = try(8 + 8*coords)
			}
		}
		if n.slots != nil {
			out = append(out, n)
		}
	}
	return out
}

var treeBasesQuick = []string{"gen/v2_chunked_deep", "gen/v2_chunked", "gen/v0_rich", "corpus/v0.h5", "corpus/with_groups.h5", "corpus/test_3d_chunked.h5",
	"corpus/hdf5_official/h5ex_d_lzf.h5"}
var treeBasesThorough = []string{"corpus/hdf5_official/h5repack_nested_8bit_enum_deflated.h5", "gen/v2_rich", "gen/v3_rich", "corpus/hdf5_official/h5ex_d_bzip2.h5",
	"corpus/multiple_datasets.h5"}

func treePointers(t *testing.T) {
	env := vt.GetEnv()
	rec := vt.Recorder(prop)
	e := newEngine()
	ses := &session{t: t, e: e, st: newStats(), rec: rec}
	files := append([]string(nil), treeBasesQuick...)
	if vt.Thorough() {
		files = append(files, treeBasesThorough...)
	}
	nWorkers := envInt("VERIF_C07_WORKERS", vt.N(4, 2))
	var jobs []Case
	nNodes, nSlots := 0, 0
	for _, name := range files {
		b, ok := e.reg.bases[name]
		if !ok {
			continue
		}
		w := newWorker(e.dir)
		fr := e.evalFast(w, b.Data, nil)
		w.stop()
		if fr.timedOut || len(fr.fails) > 0 {
			continue // an intact file the reader cannot handle is the campaign's business
		}
		offW := 8
		if len(b.Data) > 14 && b.Data[8] < 2 && (b.Data[13] == 4 || b.Data[13] == 2) {
			offW = int(b.Data[13])
		}
		nodes := treeNodes(b, offW)
		parentLevel := map[int]int{} // node offset -> level of a node that points to it
		for _, p := range nodes {
			for _, s := range p.slots {
				var v uint64
				for k := offW - 1; k >= 0; k-- {
					v = v<<8 | uint64(b.Data[s+k])
				}
				parentLevel[int(v)] = p.level
			}
		}
		for _, n := range nodes {
			nNodes++
			for si, s := range n.slots {
				nSlots++
				for _, tg := range nodes {
					vk := "redirect-other"
					switch {
					case tg.off == n.off:
						vk = "redirect-self"
					case tg.typ == n.typ:
						vk = "redirect-samekind"
					}
					ptr := Mut{K: "set", Off: s, W: offW, V: uint64(tg.off), At: fmt.Sprintf("TREE+child%d", si), VK: vk}
					jobs = append(jobs, Case{Base: name, Muts: []Mut{ptr}})
					if n.level < 255 {
						jobs = append(jobs, Case{Base: name, Muts: []Mut{ptr, {K: "set", Off: n.off + 5, W: 1, V: uint64(n.level + 1), At: "TREE+5", VK: "level+1"}}})
					}
					if pl, ok := parentLevel[n.off]; ok && pl != n.level && pl != n.level+1 {
						jobs = append(jobs, Case{Base: name, Muts: []Mut{ptr, {K: "set", Off: n.off + 5, W: 1, V: uint64(pl), At: "TREE+5", VK: "parent-level"}}})
					} else if ok && tg.off != n.off && tg.level != n.level && tg.level != n.level+1 {
						// the target's level instead (links between trees of different depth)
						jobs = append(jobs, Case{Base: name, Muts: []Mut{ptr, {K: "set", Off: n.off + 5, W: 1, V: uint64(tg.level), At: "TREE+5", VK: "target-level"}}})
					}
				}
			}
		}
	}
	var mine []Case
	for i, c := range jobs {
		if i%env.NShards == env.Shard {
			mine = append(mine, c)
		}
	}
	if env.Shard == 0 {
		rec.Note("treeptr: %d base files, %d B-tree nodes, %d child pointers; %d cases over all shards: every child pointer := address of every TREE node of the file, alone / with node level+1 / with the parent's (or target's) level", len(files), nNodes, nSlots, len(jobs))
	}
	ses.parallel(nWorkers, len(mine), func(w *worker, i int) {
		c := mine[i]
		img, inside, err := e.image(c)
		if err != nil {
			return
		}
		labels := []string{"hit=TREE", "value=" + c.Muts[0].VK, fmt.Sprintf("nmuts=%d", len(c.Muts))}
		if len(c.Muts) > 1 {
			labels = append(labels, "level="+c.Muts[1].VK)
		}
		viol, _ := e.processImg(w, subTree, c, img, nil, inside > 0, labels, ses.st, rec)
		for _, f := range viol {
			ses.report(subTree, c, f)
		}
	})
	rec.SetExhaustive(subTree, true)
	ses.st.mu.Lock()
	dumpStats(ses.st, env, "-treeptr")
	ses.st.mu.Unlock()
}
